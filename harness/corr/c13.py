"""C13: state distance / fidelity measures of toqito against certified enclosures and exact values.

Every state is generated as exact rational data rho = G diag(D) G^H (G Gaussian-integer n x r, D positive rationals,
trace exactly 1); toqito receives the correctly rounded float image.  Per pair the verified Lean checkers
(lean/Toq/Properties/C13.lean) certify
  * an interval [lo, hi] for the trace norm of the exact dyadic image of (rho_float - sigma_float)
    (checkTNLower_sound / checkTNUpper_sound: contraction W, decomposition H = P - Q),
  * an interval for the fidelity-program value of the exact rational pair (checkFidPrimalCong_sound with
    X = G_rho K G_sigma^H, checkFidDual_sound with Y = A A^H, Z = (A A^H)^-1 given by the exact inverse),
  * for full-rank pairs an interval for the Matsumoto program (checkMatsPrimal_sound / checkMatsDual_sound),
  * the exact values tr((rho-sigma)^2), tr(rho sigma), tr(rho sigma rho sigma), tr(A^H B) (hsDist_eq, trProd_eq, subFidRad_eq, hsInner_eq).
toqito's outputs must lie in the enclosures (tolerances in ASSUMPTIONS); symmetry, unitary invariance, extreme values,
pure-state formulas, the inequalities between the measures and the triangle inequality are evaluated on toqito's outputs.
Added streams: commuting pairs against the exact classical model (class_evaluators_sound, checkClassFid_sound, matsumoto_commuting), the explicit
`decimals` argument of the Bures functions against the rounding model (roundDec_spec), the cvxpy-expression branch of fidelity / matsumoto_fidelity
against the certified optimum of the very program it solves, and the is_density / shape guards against the decision-logic model (guards_value_iff,
densityGuard_spec).
fidelity_of_separability: the solved value on pure product states (1 within 1e-4), the program it builds captured at Problem.solve and compared, expression by expression, with the
Lean model of that program at the exact feasible point of fosFeasible_product, at generic exact points and at negative controls (stream fos_embedding), and its argument guards
against fosGuard (stream fos_guards)."""
from __future__ import annotations

import contextlib
import io
import math
import warnings
from fractions import Fraction

import numpy as np

from ..cert import DM, chol_factor
from ..common import CorrespondenceBroken
from ..exact import Pure, call_rng, describe, present_nd, strict_fp_call
from ..pool import Result, fold, run_pool, worker_driver

RULE = ("pairs (and triples) of density operators rho = G diag(D) G^H from exact rational data (Gaussian-integer G, dimension 2..6, every rank 1..n, "
        "real and complex; kinds: random, pure-pure, pure-mixed, commuting (common rational-unitary eigenbasis), orthogonal supports, nearly equal "
        "(sigma = (1-2^-m) rho + 2^-m tau), identical) handed to toqito as correctly rounded floats; each pair x each function "
        "(trace_distance, trace_norm, helstrom_holevo, fidelity, bures_distance, bures_angle, sub_fidelity, matsumoto_fidelity, hilbert_schmidt) is one case, "
        "plus hilbert_schmidt_inner_product / trace_norm on rectangular Gaussian-integer matrices, malformed inputs, and fidelity_of_separability on rational pure product states; "
        "non-trivial = the certified trace distance and fidelity are both >= 1e-2 away from 0 and 1 (the pair is neither identical nor orthogonal) and the pair does not commute; "
        "distinct = hash of the exact data and the function; "
        "presentation: every call receives the same values in a freshly drawn presentation per argument (C / Fortran / strided memory layout; real-valued states as "
        "float64 or, one task in four, complex128; integer-valued ones also as int64); one in three complex pairs of the kinds random / fullrank / pure / pure-mixed has "
        "one state replaced by a real one (mixed real/complex pairs, in both argument orders through the symmetry check); the arrays handed over must be untouched "
        "after every call, and the main call of every function is repeated on the same objects and must return the same value; "
        "commuting stream: rho = U diag(p) U^H, sigma = U diag(q) U^H with rational spectra (zeros, degenerate eigenvalues, identical, disjoint, nearly equal) and U the identity, a "
        "phased permutation or a rational unitary, each function compared with the exact classical value computed by the Lean model (non-trivial = U is a genuine rotation and T, F are "
        "1e-2 away from 0 and 1); one pair in three also calls bures_distance / bures_angle with explicit decimals (keyword or positional) from {0,1,2,3,4,6,8,10}; one task in seven of "
        "dimension <= 4 hands one state to fidelity / matsumoto_fidelity as a cvxpy expression; guard stream: arguments built from exact spectral data that satisfy or violate is_density "
        "by a stated margin (eigenvalue -1/4, -2e-8 rejected, -5e-9 accepted; trace 3/2, 1 +- 2e-5 rejected, 1 + 5e-6 accepted; non-Hermitian by 0.25 rejected, by 1e-10 accepted; non-square; "
        "shapes that differ), in both positions, for the eight two-argument measures, and each such argument M also as f(M, M) with the SAME array object in both positions "
        "(positional and keyword; verdict as for f(M, M.copy())); "
        "strict-fp stream: the corpus pairs and 40 (thorough: 400) pairs of the kinds pure / pure-mixed / identical (one in two as the same object) / orthogonal / commuting / random / near / "
        "nearly-pure / fullrank, every function once in the default state and once with NumPy's error state set to raise for invalid / divide / overflow and the corresponding "
        "RuntimeWarnings turned into errors (harness.exact.StrictFP): the same float must come back; "
        "fos_embedding stream: pure product states a (x) b from Gaussian-integer vectors (entries -3..3, genuinely complex except two real instances) on 2x2, 2x3, 3x2, 3x3 at levels 1, 2, 3; "
        "the picos program fidelity_of_separability hands to Problem.solve is captured (never solved), the exact product point sigma = a a^H (x) (b b^H)^(x)k, X = rho built and checked by the "
        "Lean model is written into its variables (every constraint must hold, the objective must be 1), every captured constraint / objective expression is compared with the Lean model of the "
        "program at that point and at two Gaussian-integer points, and four points that violate exactly one modelled constraint by a margin (sigma of another product state; 2 sigma; an extension "
        "with a different vector on the further copies; a GHZ state on the copies) must violate a captured constraint; "
        "fos_guards stream: 18 argument patterns per round (product / entangled / mixed / nearly pure / non-density states, dims of length 1, 2, 3, as list or tuple, with a wrong product, with a "
        "one-dimensional factor) against the decision-logic model fosGuard (Problem.solve replaced by a recorder)")
ASSUMPTIONS = [
    "proved in Lean (formerly cited): the optimum of Watrous' semidefinite program equals the root fidelity tr sqrt(sqrt(rho) sigma sqrt(rho)) = ||sqrt(rho) sqrt(sigma)||_1 that toqito "
    "documents (fid_eq_docFidelity); the max/min forms of the trace norm are attained and equal the sum of |eigenvalues| (traceNorm_eq_sum_abs_eigenvalues); Fuchs-van de Graaf; "
    "sub-fidelity <= F^2; Bures distance/angle are the documented monotone functions sqrt(2(1-F)), arccos(sqrt(F)) of toqito's (root) fidelity F (bures_enclosure). "
    "the Hermitian-restricted program equals tr(rho # sigma) for invertible rho (matsumoto_eq_trace_geoMean, Cree-Sikora). Nothing is cited any more",
    "the fidelity enclosure is certified for the exact rational pair; toqito computes with its float rounding (entries moved by <= 2^-53 relative), which moves the fidelity by less than the tolerance",
    "tolerances: 1e-8 for trace_norm / trace_distance / helstrom_holevo (LAPACK svd), 1e-9*scale for hilbert_schmidt / sub_fidelity (direct float algebra; sub_fidelity through its squared defining relation), "
    "fidelity 1e-8 when both states have smallest eigenvalue >= 1e-3, otherwise 5e-7 (square roots of numerically zero eigenvalues of size 1e-16 are 1e-8 each); "
    "matsumoto_fidelity 1e-7; Bures quantities: the documented function applied to the fidelity enclosure widened by that tolerance and clipped to [0, 1]; relations between outputs: 1e-7",
    "fidelity_of_separability is solved by picos/cvxopt: 1e-4",
    "commuting stream: the exact values are those of the rational pair; toqito receives its correctly rounded float image (same tolerances as above); "
    "explicit decimals: toqito's own fidelity value F_t on the same values is taken as the exact rational it is, cases with F_t * 10^d within 1e-3 of a rounding boundary are skipped, "
    "then d^2/2 and cos^2(angle) must equal 1 - round(F_t, d) and round(F_t, d) of the Lean model up to 1e-12; "
    "cvxpy-expression branch (solved by cvxpy's default solver): 1e-3; a solver failure there is counted, not a violation",
    "guards: the property only demands rejection (a ValueError); which of the two error messages appears when both the shape and the density check fail is compared with the model "
    "and differences are counted (guard-category-differs), not reported as violations; inputs accepted only thanks to is_density's tolerances need not give a value",
    "fos_embedding: picos evaluates the captured constraint / objective expressions faithfully at assigned variable values (Constraint.psd / lhs / rhs, Expression.np); the point handed to picos is the "
    "float image of the exact rational point (entries correctly rounded), so a constraint that holds exactly is met to 1e-9 and the objective 1 to 1e-12; expression values are compared with the exact "
    "values of the Lean model (Toq.Metrics.fosExprs, proved to compute the expressions of FosFeasible: fosExprs_refines, fosExprs_feasible_iff) to 1e-12 x size; an expression that differs without a failing "
    "point (equivalent reformulation, added constraint, other variables / shapes) is reported as a broken correspondence, not as a failing input; the constraint sigma >= 0 has no negative control of its own "
    "(at level 1 it is implied by the block constraint); the solver itself is only exercised by the solved-value stream (1e-4)",
    "fos_guards: for pure states is_separable is taken to answer 'separable' exactly on product states (proved for its first test, the PPT criterion: pure_state_ppt_iff_product; the states are built as "
    "product vectors, or as Schmidt-rank-2 vectors with both Schmidt coefficients >= 1/sqrt(10)); which exception class appears for a rejected input is compared with the model and differences are counted, except that non-density and mixed inputs must raise ValueError",
]

ETA_BITS = 30      # contractions are shrunk by 1 - 2^-30
DELTA_BITS = 32    # positive parts are shifted by 2^-32
WIDTH_OK = 1e-4

# ------------------------------------------------------------------------------------------------
# exact matrices over Q[i]


def _fr(x):
    return x if isinstance(x, Fraction) else Fraction(int(x)) if isinstance(x, (int, np.integer)) else Fraction(x)


def _obj(a):
    a = np.asarray(a, dtype=object)
    out = np.empty(a.shape, dtype=object)
    for idx in np.ndindex(a.shape):
        out[idx] = _fr(a[idx])
    return out


class QM:
    """exact matrix over Q[i]: object arrays of Fractions"""

    def __init__(self, re, im=None):
        self.re = _obj(re)
        self.im = _obj(im) if im is not None else _obj(np.zeros(self.re.shape, dtype=int))

    @property
    def shape(self):
        return self.re.shape

    @staticmethod
    def eye(n):
        return QM(np.eye(n, dtype=int))

    @staticmethod
    def zeros(n, m):
        return QM(np.zeros((n, m), dtype=int))

    @staticmethod
    def from_dm(d: DM):
        s = 1 << d.e
        f = np.vectorize(lambda x: Fraction(int(x), s), otypes=[object])
        return QM(f(d.re), f(d.im))

    @staticmethod
    def from_complex_int(a):
        a = np.asarray(a)
        return QM(np.vectorize(lambda x: int(round(x.real)), otypes=[object])(a.astype(complex)), np.vectorize(lambda x: int(round(x.imag)), otypes=[object])(a.astype(complex)))

    @staticmethod
    def diag(d):
        n = len(d)
        re = np.zeros((n, n), dtype=object)
        re[...] = Fraction(0)
        for i, x in enumerate(d):
            re[i, i] = _fr(x)
        return QM(re)

    def __add__(self, o):
        return QM(self.re + o.re, self.im + o.im)

    def __sub__(self, o):
        return QM(self.re - o.re, self.im - o.im)

    def __neg__(self):
        return QM(-self.re, -self.im)

    def __matmul__(self, o):
        return QM(self.re.dot(o.re) - self.im.dot(o.im), self.re.dot(o.im) + self.im.dot(o.re))

    def scale(self, q):
        q = _fr(q)
        return QM(self.re * q, self.im * q)

    def H(self):
        return QM(self.re.T.copy(), -self.im.T.copy())

    def trace(self):
        n = self.shape[0]
        return sum((self.re[i, i] for i in range(n)), Fraction(0)), sum((self.im[i, i] for i in range(n)), Fraction(0))

    def is_real(self):
        return all(x == 0 for x in self.im.reshape(-1))

    def to_float(self):
        re = np.array([float(x) for x in self.re.reshape(-1)]).reshape(self.shape)
        if self.is_real():
            return re
        im = np.array([float(x) for x in self.im.reshape(-1)]).reshape(self.shape)
        return re + 1j * im

    def to_complex(self):
        return np.asarray(self.to_float(), dtype=complex)

    def json(self):
        den = 1
        for x in list(self.re.reshape(-1)) + list(self.im.reshape(-1)):
            den = den * x.denominator // math.gcd(den, x.denominator)
        return {"den": den, "re": [int(x * den) for x in self.re.reshape(-1)], "im": [int(x * den) for x in self.im.reshape(-1)]}

    def key(self):
        return [[str(x) for x in self.re.reshape(-1)], [str(x) for x in self.im.reshape(-1)]]

    @staticmethod
    def block(a, b, c, d):
        return QM(np.block([[a.re, b.re], [c.re, d.re]]), np.block([[a.im, b.im], [c.im, d.im]]))

    def inverse(self):
        """exact inverse through the real 2n x 2n representation (Gauss-Jordan over Q)"""
        n = self.shape[0]
        M = np.block([[self.re, -self.im], [self.im, self.re]])
        N = 2 * n
        A = [[M[i, j] for j in range(N)] + [Fraction(int(i == j)) for j in range(N)] for i in range(N)]
        for c in range(N):
            p = next((r for r in range(c, N) if A[r][c] != 0), None)
            if p is None:
                raise ZeroDivisionError("singular")
            A[c], A[p] = A[p], A[c]
            inv = 1 / A[c][c]
            A[c] = [x * inv for x in A[c]]
            for r in range(N):
                if r != c and A[r][c] != 0:
                    f = A[r][c]
                    A[r] = [x - f * y for x, y in zip(A[r], A[c])]
        R = np.array([[A[i][N + j] for j in range(N)] for i in range(N)], dtype=object)
        return QM(R[:n, :n], R[n:, :n])


def frac(r):
    return r[0] / r[1] if isinstance(r, (list, tuple)) else float(r)


def fraction(r):
    return Fraction(int(r[0]), int(r[1]))


# ------------------------------------------------------------------------------------------------
# exact states


class State:
    """rho = G diag(D) G^H exactly; G Gaussian integers (n x r), D positive Fractions, trace 1"""

    def __init__(self, G: QM, D):
        self.G = G
        self.D = [Fraction(x) for x in D]
        self.n, self.r = G.shape
        self.rho = G @ QM.diag(self.D) @ G.H()
        t = self.rho.trace()
        assert t == (1, 0), t

    def float(self):
        return self.rho.to_float()

    def is_real(self):
        return self.G.is_real()

    def key(self):
        return {"G": self.G.key(), "D": [str(x) for x in self.D]}

    def rank(self):
        return int(np.linalg.matrix_rank(self.G.to_complex(), tol=1e-9))


def _col_norm2(G: QM, j):
    return sum((G.re[i, j] ** 2 + G.im[i, j] ** 2 for i in range(G.shape[0])), Fraction(0))


def state_from_vectors(G: QM, weights):
    """rho = sum_j w_j |g_j><g_j| / (W ||g_j||^2)"""
    W = sum(weights)
    D = [Fraction(int(w), int(W)) / _col_norm2(G, j) for j, w in enumerate(weights)]
    return State(G, D)


def rand_G(rng, n, r, cplx, lim=5):
    while True:
        re = rng.integers(-lim, lim + 1, size=(n, r))
        im = rng.integers(-lim, lim + 1, size=(n, r)) if cplx else np.zeros((n, r), dtype=int)
        ok = all(np.any(re[:, j] != 0) or np.any(im[:, j] != 0) for j in range(r))
        if ok and np.linalg.matrix_rank(re + 1j * im) == min(n, r):
            return QM(re, im)


def rand_state(rng, n, r, cplx):
    G = rand_G(rng, n, r, cplx)
    w = [int(x) for x in rng.integers(1, 6, size=r)]
    return state_from_vectors(G, w)


PYTH = [(3, 4, 5), (4, 3, 5), (5, 12, 13), (12, 5, 13), (8, 15, 17)]


def rational_unitary(rng, n, cplx, nrot=None):
    """exact rational unitary: product of Pythagorean Givens rotations (with phases in {1, i, -1, -i} when complex), a permutation and diagonal phases"""
    U = QM.eye(n)
    nrot = n if nrot is None else nrot
    for _ in range(nrot):
        i, j = sorted(rng.choice(n, size=2, replace=False).tolist())
        a, b, c = PYTH[int(rng.integers(len(PYTH) - (1 if n > 3 else 0)))]
        ph = [(1, 0), (0, 1), (-1, 0), (0, -1)][int(rng.integers(4))] if cplx else [(1, 0), (-1, 0)][int(rng.integers(2))]
        R = QM.eye(n)
        R.re[i, i] = Fraction(a, c)
        R.re[j, j] = Fraction(a, c)
        # [[c, -s conj(p)], [s p, c]]
        R.re[i, j] = Fraction(-b * ph[0], c)
        R.im[i, j] = Fraction(b * ph[1], c)
        R.re[j, i] = Fraction(b * ph[0], c)
        R.im[j, i] = Fraction(b * ph[1], c)
        U = R @ U
    perm = rng.permutation(n).tolist()
    P = QM.zeros(n, n)
    for i, pi in enumerate(perm):
        ph = [(1, 0), (0, 1), (-1, 0), (0, -1)][int(rng.integers(4))] if cplx else [(1, 0), (-1, 0)][int(rng.integers(2))]
        P.re[i, pi] = Fraction(ph[0])
        P.im[i, pi] = Fraction(ph[1])
    return P @ U


def cayley_int(rng, n, cplx):
    """integer matrix Q with mutually orthogonal columns of equal norm^2 = c (Q/sqrt(c) is a rational unitary): returns (Q as QM, c, U)"""
    U = rational_unitary(rng, n, cplx)
    den = 1
    for x in list(U.re.reshape(-1)) + list(U.im.reshape(-1)):
        den = den * x.denominator // math.gcd(den, x.denominator)
    return U.scale(den), den * den, U


def mix(states, probs):
    """sum_i p_i rho_i as a State (columns concatenated)"""
    G = QM(np.concatenate([s.G.re for s in states], axis=1), np.concatenate([s.G.im for s in states], axis=1))
    D = [Fraction(p) * d for s, p in zip(states, probs) for d in s.D]
    return State(G, D)


def dyadic_probs(rng, k, bits=5):
    tot = 1 << bits
    while True:
        cuts = sorted(rng.integers(1, tot, size=k - 1).tolist())
        parts = [b - a for a, b in zip([0] + cuts, cuts + [tot])]
        if all(p > 0 for p in parts):
            return [Fraction(p, tot) for p in parts]


def gen_pair(rng, kind, n, cplx):
    """returns (rho, sigma, info)"""
    if kind == "random":
        r1, r2 = int(rng.integers(1, n + 1)), int(rng.integers(1, n + 1))
        return rand_state(rng, n, r1, cplx), rand_state(rng, n, r2, cplx)
    if kind == "fullrank":
        return rand_state(rng, n, n + int(rng.integers(0, 2)), cplx), rand_state(rng, n, n + int(rng.integers(0, 2)), cplx)
    if kind == "pure":
        return rand_state(rng, n, 1, cplx), rand_state(rng, n, 1, cplx)
    if kind == "pure-mixed":
        a, b = rand_state(rng, n, 1, cplx), rand_state(rng, n, int(rng.integers(2, n + 1)), cplx)
        return (a, b) if rng.integers(2) else (b, a)
    if kind in ("commuting", "orthogonal"):
        Q, c, _ = cayley_int(rng, n, cplx)
        if kind == "commuting":
            k1, k2 = int(rng.integers(1, n + 1)), int(rng.integers(1, n + 1))
            s1 = sorted(rng.choice(n, size=k1, replace=False).tolist())
            s2 = sorted(rng.choice(n, size=k2, replace=False).tolist())
        else:
            cut = int(rng.integers(1, n))
            perm = rng.permutation(n).tolist()
            s1, s2 = sorted(perm[:cut]), sorted(perm[cut:])
            if rng.integers(2) and len(s1) > 1:
                s1 = s1[: int(rng.integers(1, len(s1) + 1))]

        def sub(sel):
            G = QM(Q.re[:, sel], Q.im[:, sel])
            p = dyadic_probs(rng, len(sel)) if len(sel) > 1 else [Fraction(1)]
            return State(G, [x / c for x in p])
        return sub(s1), sub(s2)
    if kind == "near":
        rho = rand_state(rng, n, int(rng.integers(1, n + 1)), cplx)
        tau = rand_state(rng, n, int(rng.integers(1, n + 1)), cplx)
        m = int(rng.choice([6, 12, 20]))
        eps = Fraction(1, 1 << m)
        return rho, mix([rho, tau], [1 - eps, eps])
    if kind == "identical":
        rho = rand_state(rng, n, int(rng.integers(1, n + 1)), cplx)
        return rho, rho
    if kind == "nearly-pure":
        # full-rank but within 2^-m of a pure state: a shortcut that treats "numerically pure" states as pure is wrong here
        psi = rand_state(rng, n, 1, cplx)
        full = rand_state(rng, n, n, cplx)
        eps = Fraction(1, 1 << int(rng.choice([17, 18, 20])))
        a = mix([psi, full], [1 - eps, eps])
        b = rand_state(rng, n, int(rng.integers(2, n + 1)), cplx)
        return (a, b) if rng.integers(2) else (b, a)
    raise ValueError(kind)


# ------------------------------------------------------------------------------------------------
# certificates (untrusted construction; the Lean checkers judge)


def _val(r):
    return r["ok"][0] / r["ok"][1] if "ok" in r else None


def _valq(r):
    return Fraction(int(r["ok"][0]), int(r["ok"][1])) if "ok" in r else None


def certify_trace_norm(drv, H: DM):
    """H exact Hermitian dyadic -> (lo, hi, why) enclosing ||H||_1"""
    n = H.re.shape[0]
    Hf = H.to_float()
    w, V = np.linalg.eigh((Hf + Hf.conj().T) / 2)
    why = []
    lo = hi = None
    eta = 2.0 ** -ETA_BITS
    sg = np.where(w >= 0, 1.0, -1.0)
    Wf = (V * sg) @ V.conj().T * (1 - eta)
    W = DM.from_float(Wf, 52).herm_part()
    I = DM.eye(n)
    L1 = chol_factor((I - W).to_float(), bits=56, delta=eta / 4)
    L2 = chol_factor((I + W).to_float(), bits=56, delta=eta / 4)
    if L1 is None or L2 is None:
        why.append("lower:cholesky")
    else:
        r = drv.ask("c13_tn_lower", {"n": n, "H": H.json(), "W": W.json(), "L1": L1.json(), "L2": L2.json()})
        lo = _val(r)
        if lo is None:
            why.append("lower:" + r["reject"])
    delta = 2.0 ** -DELTA_BITS
    Pf = (V * np.clip(w, 0, None)) @ V.conj().T + delta * np.eye(n)
    P = DM.from_float(Pf, 60).herm_part()
    Q = P - H
    LP = chol_factor(P.to_float(), bits=60, delta=delta / 2)
    LQ = chol_factor(Q.to_float(), bits=60, delta=delta / 2)
    if LP is None or LQ is None:
        why.append("upper:cholesky")
    else:
        r = drv.ask("c13_tn_upper", {"n": n, "H": H.json(), "P": P.json(), "Q": Q.json(), "LP": LP.json(), "LQ": LQ.json()})
        hi = _val(r)
        if hi is None:
            why.append("upper:" + r["reject"])
    return lo, hi, why


def _scaled_chol(M: QM, scale, margin, bits=100):
    """dyadic L with M - L L^H (hopefully) diagonally dominant, for M = S M' S with S = diag(scale) and M' having eigenvalues >= margin"""
    Mf = M.to_complex()
    s = np.asarray(scale, dtype=float)
    Mp = Mf / np.outer(s, s)
    k = Mp.shape[0]
    try:
        Lp = np.linalg.cholesky((Mp + Mp.conj().T) / 2 - (margin / 2) * np.eye(k))
    except np.linalg.LinAlgError:
        return None
    return DM.from_float(Lp * s[:, None], bits)


def certify_fid_primal(drv, a: State, b: State):
    """lower bound of the fidelity program by X = G_a K G_b^H, [[rho, X],[X^H, sigma]] = B M B^H, M = [[D_a, K],[K^H, D_b]]"""
    n = a.n
    sa = np.sqrt(np.array([float(x) for x in a.D]))
    sb = np.sqrt(np.array([float(x) for x in b.D]))
    R = a.G.to_complex() * sa[None, :]
    S = b.G.to_complex() * sb[None, :]
    U, sv, Vh = np.linalg.svd(R.conj().T @ S, full_matrices=False)
    eta = 2.0 ** -ETA_BITS
    Kp = (U @ Vh) * (1 - eta)
    Kf = Kp * np.outer(sa, sb)
    K = QM.from_dm(DM.from_float(Kf, 100))
    Da, Db = QM.diag(a.D), QM.diag(b.D)
    M = QM.block(Da, K, K.H(), Db)
    B = QM.block(a.G, QM.zeros(n, b.r), QM.zeros(n, a.r), b.G)
    X = a.G @ K @ b.G.H()
    L = _scaled_chol(M, np.concatenate([sa, sb]), eta)
    if L is None:
        return None, "primal:cholesky", None
    k = a.r + b.r
    r = drv.ask("c13_fid_primal_cong", {"n": n, "k": k, "rho": a.rho.json(), "sigma": b.rho.json(), "X": X.json(), "B": B.json(), "M": M.json(), "L": L.json()})
    lo = _val(r)
    return lo, (None if lo is not None else "primal:" + r["reject"]), float(np.sum(sv))


def _mp_dual_factor(a: State, b: State, eps_exp):
    """A (n x n, float-free mpmath) with A A^H ~ optimal dual Y of the pair regularised by 10^-eps_exp (0 = none)"""
    import mpmath as mp
    mp.mp.dps = 90
    n = a.n

    def tomp(q: QM):
        return mp.matrix([[mp.mpc(mp.mpf(q.re[i, j].numerator) / q.re[i, j].denominator, mp.mpf(q.im[i, j].numerator) / q.im[i, j].denominator) for j in range(n)] for i in range(n)])
    eps = mp.mpf(10) ** (-eps_exp) if eps_exp else mp.mpf(0)
    I = mp.eye(n)
    ra = tomp(a.rho) + eps * I
    sb = tomp(b.rho) + eps * I
    w, Q = mp.eighe(ra)
    if min(w) <= 0:
        return None
    rs = Q * mp.diag([mp.sqrt(x) for x in w]) * Q.H
    rsi = Q * mp.diag([1 / mp.sqrt(x) for x in w]) * Q.H
    mid = rs * sb * rs
    mid = (mid + mid.H) / 2
    w2, Q2 = mp.eighe(mid)
    if min(w2) <= 0:
        return None
    A = rsi * Q2 * mp.diag([mp.sqrt(mp.sqrt(x)) for x in w2]) * Q2.H
    return A


def certify_fid_dual(drv, a: State, b: State, singular):
    """upper bound by Y = A A^H, Z = B^H B with B = A^-1 exactly; psd witness L = [A; -B^H] (residual exactly 0)"""
    import mpmath as mp
    n = a.n
    best = None
    for eps_exp in ((0,) if not singular else (22,)):
        try:
            A = _mp_dual_factor(a, b, eps_exp)
        except Exception:
            A = None
        if A is None:
            continue
        # round A: absolute precision 2^-bits chosen relative to its smallest singular scale
        amax = max(abs(A[i, j]) for i in range(n) for j in range(n))
        Ainv = A ** -1
        imax = max(abs(Ainv[i, j]) for i in range(n) for j in range(n))
        bits = 36 + max(0, int(mp.ceil(mp.log(imax, 2))))
        s = mp.mpf(2) ** bits
        re = [[int(mp.nint(A[i, j].real * s)) for j in range(n)] for i in range(n)]
        im = [[int(mp.nint(A[i, j].imag * s)) for j in range(n)] for i in range(n)]
        Aq = QM(np.array(re, dtype=object), np.array(im, dtype=object)).scale(Fraction(1, 1 << bits))
        try:
            Bq = Aq.inverse()
        except ZeroDivisionError:
            continue
        Y = Aq @ Aq.H()
        Z = Bq.H() @ Bq
        val = ((Y @ a.rho).trace()[0] + (Z @ b.rho).trace()[0]) / 2
        if best is None or val < best[0]:
            best = (val, Aq, Bq, Y, Z)
    if best is None:
        return None, "dual:no-candidate"
    val, Aq, Bq, Y, Z = best
    L = QM(np.concatenate([Aq.re, -Bq.H().re], axis=0), np.concatenate([Aq.im, -Bq.H().im], axis=0))
    r = drv.ask("c13_fid_dual", {"n": n, "r": n, "rho": a.rho.json(), "sigma": b.rho.json(), "Y": Y.json(), "Z": Z.json(), "L": L.json()})
    hi = _val(r)
    return hi, (None if hi is not None else "dual:" + r["reject"])


def _psd_fun(Mf, f):
    w, V = np.linalg.eigh((Mf + Mf.conj().T) / 2)
    return (V * f(np.clip(w, 0, None))) @ V.conj().T


def geometric_mean(rf, sf):
    rs = _psd_fun(rf, np.sqrt)
    rsi = np.linalg.inv(rs)
    return rs @ _psd_fun(rsi @ sf @ rsi, np.sqrt) @ rs


def certify_matsumoto(drv, a: State, b: State, lam_min):
    """full-rank pairs: lower bound by W = (1-eta) rho # sigma, upper bound by the dual point Y = T^H Z' T, C = -T^H Z', Z = Z' with
    T = (rho # sigma) rho^-1 and T^H Z' + Z' T = 2"""
    import scipy.linalg
    n = a.n
    rf, sf = a.rho.to_complex(), b.rho.to_complex()
    Gm = geometric_mean(rf, sf)
    eta = 2.0 ** -ETA_BITS
    lo = hi = None
    why = []
    W = DM.from_float(Gm * (1 - eta), 60).herm_part()
    Wq = QM.from_dm(W)
    blk = QM.block(a.rho, Wq, Wq.H(), b.rho)
    L = chol_factor(blk.to_complex(), bits=70, delta=eta * lam_min / 4)
    if L is None:
        why.append("mats-primal:cholesky")
    else:
        r = drv.ask("c13_mats_primal", {"n": n, "rho": a.rho.json(), "sigma": b.rho.json(), "W": W.json(), "L": L.json()})
        lo = _val(r)
        if lo is None:
            why.append("mats-primal:" + r["reject"])
    try:
        T = Gm @ np.linalg.inv(rf)
        Zp = scipy.linalg.solve_continuous_lyapunov(T.conj().T, 2 * np.eye(n))
        Zp = (Zp + Zp.conj().T) / 2
        Yf = T.conj().T @ Zp @ T
        Cf = -T.conj().T @ Zp
        delta = 2.0 ** -DELTA_BITS
        scale = max(1.0, float(np.max(np.abs(Yf))), float(np.max(np.abs(Zp))))
        dl = delta * scale
        Sk = DM.from_float((Cf - Cf.conj().T) / 2, 60)
        Sk = DM(Sk.re - Sk.re.T, Sk.im + Sk.im.T, Sk.e + 1)  # exactly skew-Hermitian
        C = Sk - DM.eye(n)
        Y = DM.from_float(Yf + dl * np.eye(n), 60).herm_part()
        Z = DM.from_float(Zp + dl * np.eye(n), 60).herm_part()
        blkf = np.block([[Y.to_float(), C.to_float()], [C.to_float().conj().T, Z.to_float()]])
        L = chol_factor(blkf, bits=70, delta=dl / 2)
        if L is None:
            why.append("mats-dual:cholesky")
        else:
            r = drv.ask("c13_mats_dual", {"n": n, "rho": a.rho.json(), "sigma": b.rho.json(), "Y": Y.json(), "Z": Z.json(), "C": C.json(), "L": L.json()})
            hi = _val(r)
            if hi is None:
                why.append("mats-dual:" + r["reject"])
    except Exception as e:
        why.append("mats-dual:" + type(e).__name__)
    return lo, hi, why


# ------------------------------------------------------------------------------------------------
# calling toqito

SLACK = 1e-7
TAU_T = 1e-8
TAU_F = 1e-8
TAU_M = 1e-7


def _call(fn, *a, **k):
    """('ok', value) | ('raise', 'Type: msg'); stdout of scipy suppressed"""
    try:
        with contextlib.redirect_stdout(io.StringIO()), warnings.catch_warnings():
            warnings.simplefilter("ignore")
            return "ok", fn(*a, **k)
    except Exception as e:  # noqa: BLE001
        return "raise", f"{type(e).__name__}: {str(e)[:200]}"


def state_from_key(k):
    G = QM(np.array([Fraction(x) for x in k["G"][0]], dtype=object).reshape(k["shape"]), np.array([Fraction(x) for x in k["G"][1]], dtype=object).reshape(k["shape"]))
    return State(G, [Fraction(x) for x in k["D"]])


def _skey(s: State):
    d = s.key()
    d["shape"] = list(s.G.shape)
    return d


def _float_in(s: State, as_complex):
    f = s.float()
    return np.asarray(f, dtype=complex) if as_complex else f


def rotate(s: State, Qm: QM, c):
    """U rho U^H for the rational unitary U = Q / sqrt(c) (Q integer with orthogonal columns of norm^2 c)"""
    return State(Qm @ s.G, [d / c for d in s.D])


FUNCS = ["trace_distance", "trace_norm", "helstrom_holevo", "fidelity", "bures_distance", "bures_angle", "sub_fidelity", "matsumoto_fidelity", "hilbert_schmidt"]


def _toqito():
    from toqito.matrix_props import trace_norm
    from toqito.state_metrics import (bures_angle, bures_distance, fidelity, helstrom_holevo, hilbert_schmidt,
                                      matsumoto_fidelity, sub_fidelity, trace_distance)
    return {"trace_distance": trace_distance, "trace_norm": trace_norm, "helstrom_holevo": helstrom_holevo, "fidelity": fidelity,
            "bures_distance": bures_distance, "bures_angle": bures_angle, "sub_fidelity": sub_fidelity,
            "matsumoto_fidelity": matsumoto_fidelity, "hilbert_schmidt": hilbert_schmidt}


def _all_values(T, af, bf, full, pres=None, tag="", report=None, again=False):
    """every function on the pair; the arguments are the same values in a presentation drawn per function and argument (call_rng(pres, tag, fn));
    report(fn, what, **info) receives purity failures and (again=True) disagreements of a second call on the same objects"""
    out = {}
    for fn in FUNCS:
        if fn == "matsumoto_fidelity" and not full:
            continue
        prng = call_rng(pres, tag, fn)
        args = [present_nd(prng, af - bf)] if fn == "trace_norm" else [present_nd(prng, af), present_nd(prng, bf)]
        guard = Pure(*args)
        out[fn] = _call(T[fn], *args)
        why = guard.modified()
        if why is None and again and out[fn][0] == "ok":
            st2, v2 = _call(T[fn], *args)   # the SAME objects again
            why = guard.modified()
            same = st2 == "ok" and (v2 == out[fn][1] or (_finite(v2) and _finite(out[fn][1]) and abs(float(np.real(v2)) - float(np.real(out[fn][1]))) <= 1e-12))
            if why is None and not same and report is not None:
                report(fn, f"{fn}: a second call on the same objects returns {v2!r}, the first returned {out[fn][1]!r}", impl=[repr(out[fn][1]), repr(v2)], presentation=describe(args), check="repeat")
        if why is not None and report is not None:
            report(fn, f"{fn}: caller's arguments were modified ({why})", modified=why, presentation=describe(args), check="purity")
            out[fn] = ("skip", None)
    return out


def _finite(x):
    try:
        return bool(np.isfinite(x)) and abs(np.imag(x)) == 0
    except Exception:  # noqa: BLE001
        return False

TAU_CVX = 1e-3   # default cvxpy solver (SCS / CLARABEL at default accuracy)


def check_cvx_branch(T, which, af, bf, fcert, mcert, base, kind, n, res):
    """fidelity / matsumoto_fidelity with one argument given as a cvxpy expression (cvxpy.bmat of constants): the code then solves the
    semidefinite program; the value must lie in the certified enclosure of that program's optimum"""
    import cvxpy

    def expr(m):
        return cvxpy.bmat([[cvxpy.Constant(complex(m[i, j]) if np.iscomplexobj(m) else float(m[i, j])) for j in range(m.shape[1])] for i in range(m.shape[0])])
    for fn, (lo, hi) in (("fidelity", fcert), ("matsumoto_fidelity", mcert)):
        if lo is None or hi is None:
            continue
        args = (expr(af), bf) if which == "a" else (af, expr(bf))
        try:
            with contextlib.redirect_stdout(io.StringIO()), warnings.catch_warnings():
                warnings.simplefilter("ignore")
                v = T[fn](*args)
            st = "ok"
        except cvxpy.error.SolverError as e:
            res.count("solver-numerical-failure/cvxpy-branch")
            continue
        except Exception as e:  # noqa: BLE001
            st, v = "raise", f"{type(e).__name__}: {str(e)[:200]}"
        desc = dict(base, fn=fn, form="cvxpy-expression:" + which)
        res.case(desc, True, f"{fn}/cvxpy-expression/{kind}")
        if st != "ok" or v is None or not _finite(v):
            res.violation(f"{fn} with a cvxpy expression as argument {which} gives {v!r} on a valid pair ({kind}, dim {n})", {"function": fn, "args": desc, "impl": repr(v), "form": "cvxpy-expression"})
        elif not (lo - TAU_CVX <= float(v) <= hi + TAU_CVX):
            res.violation(f"{fn} with a cvxpy expression as argument {which} = {float(v):.8f} outside the certified enclosure [{lo:.8f}, {hi:.8f}] of the program's optimum ({kind}, dim {n})",
                          {"function": fn, "args": desc, "impl": float(v), "certified": [lo, hi], "tau": TAU_CVX, "form": "cvxpy-expression", "theorem": "checkFidPrimalCong_sound / checkFidDual_sound / checkMatsPrimal_sound / checkMatsDual_sound"})


def work_pair(task, res: Result):
    warnings.filterwarnings("ignore")
    drv = worker_driver()
    T = _toqito()
    a, b = task["a"], task["b"]
    kind, n, cplx = task["kind"], a.n, task["cplx"]
    af, bf = _float_in(a, task["as_complex"]), _float_in(b, task["as_complex"])
    base = {"kind": kind, "n": n, "cplx": cplx, "as_complex": task["as_complex"], "a": _skey(a), "b": _skey(b), "pres": task.get("pres")}
    pres = task.get("pres")
    ea, eb = DM.exact_float(af), DM.exact_float(bf)
    # ---- certified enclosures
    tlo, thi, twhy = certify_trace_norm(drv, ea - eb)
    flo, fwhy, f_float = certify_fid_primal(drv, a, b)
    lam = min(float(np.linalg.eigvalsh(a.rho.to_complex()).min()), float(np.linalg.eigvalsh(b.rho.to_complex()).min()))
    full = lam >= 1e-3
    fhi, fwhy2 = certify_fid_dual(drv, a, b, not full)
    mlo = mhi = None
    if full:
        mlo, mhi, mwhy = certify_matsumoto(drv, a, b, lam)
        if mlo is None or mhi is None or mhi - mlo > WIDTH_OK:
            res.count("uncertified/matsumoto:" + ";".join(mwhy)[:50])
            mlo = mhi = None
    if tlo is None or thi is None or thi - tlo > WIDTH_OK:
        res.count("uncertified/trace-norm:" + ";".join(twhy)[:50])
        tlo = thi = None
    if flo is None or fhi is None or fhi - flo > WIDTH_OK:
        res.count("uncertified/fidelity:" + ";".join(str(x) for x in (fwhy, fwhy2) if x)[:50])
        flo = fhi = None
    ex = drv.ask("c13_exact", {"n": n, "rho": ea.json(), "sigma": eb.json()})
    hs, tp, tp4, rad = (fraction(ex[k]) for k in ("hs", "trprod", "trprod4", "subfidrad"))
    tp_exact = (a.rho @ b.rho).trace()[0]  # rational pair
    commuting = kind in ("commuting", "orthogonal", "identical")
    nontriv = (not commuting and tlo is not None and flo is not None and 2e-2 <= tlo and thi <= 2 - 2e-2 and 1e-2 <= flo and fhi <= 1 - 1e-2)
    # ---- harness self-checks on the certified numbers (cited closed forms); a failure here means harness or cited fact wrong
    if tlo is not None and flo is not None:
        res.count("closed-form/fuchs-van-de-graaf-on-certified")
        if not (1 - fhi <= thi / 2 + 1e-8 and (tlo / 2) ** 2 + flo ** 2 <= 1 + 1e-8):
            res.violation("certified enclosures contradict Fuchs-van de Graaf (harness or cited fact wrong)", {"function": "self-check", "args": base, "T": [tlo / 2, thi / 2], "F": [flo, fhi]})
        evs = np.abs(np.linalg.eigvalsh((af - bf + (af - bf).conj().T) / 2))
        if not (tlo - 1e-8 <= float(evs.sum()) <= thi + 1e-8):
            res.violation("certified trace norm disagrees with the eigenvalue formula (harness or cited fact wrong)", {"function": "self-check", "args": base, "tn": [tlo, thi], "eig": float(evs.sum())})
        if not (flo - 1e-8 <= f_float <= fhi + 1e-8):
            res.violation("certified fidelity disagrees with ||R^H S||_1 (harness or cited fact wrong)", {"function": "self-check", "args": base, "F": [flo, fhi], "svd": f_float})
        if kind == "identical" and not (thi <= 1e-8 and flo >= 1 - 1e-8):
            res.violation("identical states: certified T, F not at the extreme values (harness error)", {"function": "self-check", "args": base, "tn": [tlo, thi], "F": [flo, fhi]})
        if kind == "orthogonal" and not (tlo >= 2 - 1e-8 and fhi <= 1e-8):
            res.violation("orthogonal states: certified T, F not at the extreme values (harness error)", {"function": "self-check", "args": base, "tn": [tlo, thi], "F": [flo, fhi]})
        if a.r == 1 or b.r == 1:
            res.count("closed-form/pure-overlap-on-certified")
            if not (flo ** 2 - 1e-8 <= float(tp_exact) <= fhi ** 2 + 1e-8):
                res.violation("pure state: certified F^2 disagrees with the overlap <psi|sigma|psi> (harness or cited fact wrong)", {"function": "self-check", "args": base, "F": [flo, fhi], "overlap": float(tp_exact)})
    if mlo is not None and fhi is not None and mlo > fhi + 1e-8:
        res.violation("certified Matsumoto lower bound exceeds the certified fidelity upper bound (contradicts theorem matsumoto_le_fid: harness error)", {"function": "self-check", "args": base, "M": [mlo, mhi], "F": [flo, fhi]})
    # ---- toqito
    ok = {}

    def viol(fn, what, **info):
        res.violation(what, dict({"function": fn, "args": base}, **info))

    vals = _all_values(T, af, bf, full, pres, "main", viol, again=True)
    for fn, (st, v) in vals.items():
        if st == "skip":
            continue
        desc = dict(base, fn=fn)
        br = f"{fn}/{kind}/{'c' if cplx else 'r'}/{'full' if full else 'singular'}"
        res.case(desc, nontriv, br)
        if st == "raise":
            viol(fn, f"{fn} raises {v} on a valid pair of density operators ({kind}, dim {n}, ranks {a.rank()},{b.rank()})", exception=v)
            continue
        if not _finite(v):
            viol(fn, f"{fn} returns {v!r} on a valid pair of density operators ({kind}, dim {n}, ranks {a.rank()},{b.rank()})", impl=repr(v))
            continue
        v = float(np.real(v))
        good = True
        if fn in ("trace_distance", "trace_norm", "helstrom_holevo") and tlo is not None:
            lo, hi = {"trace_distance": (tlo / 2, thi / 2), "trace_norm": (tlo, thi), "helstrom_holevo": (0.5 + tlo / 4, 0.5 + thi / 4)}[fn]
            if not (lo - TAU_T <= v <= hi + TAU_T):
                good = False
                viol(fn, f"{fn} = {v:.10f} outside the certified enclosure [{lo:.10f}, {hi:.10f}] ({kind}, dim {n})", impl=v, certified=[lo, hi], tau=TAU_T, theorem="checkTNLower_sound / checkTNUpper_sound")
        elif fn == "fidelity" and flo is not None:
            if not (flo - TAU_F <= v <= fhi + TAU_F):
                good = False
                viol(fn, f"fidelity = {v:.10f} outside the certified enclosure [{flo:.10f}, {fhi:.10f}] ({kind}, dim {n}, ranks {a.rank()},{b.rank()})", impl=v, certified=[flo, fhi], tau=TAU_F, theorem="checkFidPrimalCong_sound / checkFidDual_sound")
            else:
                res.extra["fid_err"] = max(res.extra.get("fid_err", 0.0), max(flo - v, v - fhi, 0.0))
        elif fn in ("bures_distance", "bures_angle") and flo is not None:
            f_lo = max(0.0, flo - TAU_F - 1e-10)
            f_hi = min(1.0, fhi + TAU_F + 1e-10)
            if fn == "bures_distance":
                lo, hi = math.sqrt(2 * (1 - f_hi)) - 1e-9, math.sqrt(2 * (1 - f_lo)) + 1e-9
            else:
                lo, hi = math.acos(math.sqrt(f_hi)) - 1e-9, math.acos(math.sqrt(f_lo)) + 1e-9
            if not (lo <= v <= hi):
                good = False
                viol(fn, f"{fn} = {v:.10f} outside [{lo:.10f}, {hi:.10f}], the documented function of the certified fidelity enclosure ({kind}, dim {n})", impl=v, certified=[lo, hi], fidelity=[flo, fhi], theorem="checkFidPrimalCong_sound / checkFidDual_sound")
        elif fn == "sub_fidelity":
            scale = max(1.0, float(tp))
            d = v - float(tp)
            if not (d >= -1e-9 * scale and abs(d * d - float(rad)) <= 1e-9 * scale):
                good = False
                viol(fn, f"sub_fidelity = {v:.10f} violates E = tr(rho sigma) + sqrt(2[(tr rho sigma)^2 - tr(rho sigma rho sigma)]) = {float(tp) + math.sqrt(max(0.0, float(rad))):.10f} ({kind}, dim {n})", impl=v, trprod=float(tp), radicand=float(rad), theorem="trProd_eq / subFidRad_eq")
        elif fn == "matsumoto_fidelity" and mlo is not None:
            if not (mlo - TAU_M <= v <= mhi + TAU_M):
                good = False
                viol(fn, f"matsumoto_fidelity = {v:.10f} outside the certified enclosure [{mlo:.10f}, {mhi:.10f}] ({kind}, dim {n})", impl=v, certified=[mlo, mhi], tau=TAU_M, theorem="checkMatsPrimal_sound / checkMatsDual_sound")
        elif fn == "hilbert_schmidt":
            if abs(v - float(hs)) > 1e-9 * max(1.0, float(hs)):
                good = False
                hf = (af - bf + (af - bf).conj().T) / 2
                lam2 = float(np.max(np.abs(np.linalg.eigvalsh(hf))) ** 2)
                viol(fn, f"hilbert_schmidt = {v:.10f}, documented tr((rho-sigma)^2) = {float(hs):.10f} ({kind}, dim {n})", impl=v, exact=float(hs), lam_max_sq=lam2, theorem="hsDist_eq / hsDist_eq_sum_sq")
        if good:
            ok[fn] = v
    # ---- explicit `decimals` of the Bures functions against the rounding model, on toqito's own fidelity value
    if task.get("decs") and "fidelity" in ok:
        prng = call_rng(pres, "decimals")
        dargs = [present_nd(prng, af), present_nd(prng, bf)]
        check_bures_decimals(T, drv, dargs, ok["fidelity"], task["decs"], viol, res.count, as_keyword=bool(n % 2))
    # ---- cvxpy-expression branch of fidelity / matsumoto_fidelity: toqito solves Watrous' program itself (the program `fid` is defined by)
    if task.get("cvx"):
        check_cvx_branch(T, task["cvx"], af, bf, (flo, fhi), (mlo, mhi) if full else (None, None), base, kind, n, res)
    # ---- relations between toqito's outputs
    Tt, Ft = ok.get("trace_distance"), ok.get("fidelity")

    def rel(name, cond, **info):
        res.count("relation/" + name)
        if not cond:
            res.violation(f"toqito outputs violate {name} ({kind}, dim {n})", dict({"function": "relation:" + name, "args": base, "outputs": ok}, **info))

    if Tt is not None and Ft is not None:
        rel("1-F<=T", 1 - Ft <= Tt + SLACK)
        rel("T^2+F^2<=1", Tt * Tt + Ft * Ft <= 1 + SLACK)
        if a.r == 1 and b.r == 1:
            rel("pure-pure: T^2 = 1-F^2", abs(Tt * Tt + Ft * Ft - 1) <= SLACK)
    if Ft is not None and (a.r == 1 or b.r == 1):
        rel("pure: F^2 = <psi|sigma|psi>", abs(Ft * Ft - float(tp_exact)) <= SLACK)
    if "sub_fidelity" in ok and Ft is not None:
        rel("sub_fidelity<=F^2", ok["sub_fidelity"] <= Ft * Ft + SLACK)
        if a.r == 1 or b.r == 1:
            rel("pure: sub_fidelity = F^2", abs(ok["sub_fidelity"] - Ft * Ft) <= SLACK)
    if "matsumoto_fidelity" in ok and Ft is not None:
        rel("matsumoto<=F", ok["matsumoto_fidelity"] <= Ft + SLACK)
    if "helstrom_holevo" in ok and Tt is not None:
        rel("helstrom = 1/2 + T/2", abs(ok["helstrom_holevo"] - 0.5 - Tt / 2) <= SLACK)
    if "trace_norm" in ok and Tt is not None:
        rel("T = trace_norm/2", abs(ok["trace_norm"] / 2 - Tt) <= SLACK)
    if kind == "identical":
        for fn, want in (("trace_distance", 0.0), ("fidelity", 1.0), ("bures_distance", 0.0), ("bures_angle", 0.0), ("helstrom_holevo", 0.5), ("matsumoto_fidelity", 1.0)):
            if fn in ok:
                tol = 2e-4 if fn.startswith("bures") else SLACK  # sqrt / arccos of 1e-8
                rel(f"identical: {fn} = {want}", abs(ok[fn] - want) <= tol)
    if kind == "orthogonal":
        for fn, want in (("trace_distance", 1.0), ("fidelity", 0.0), ("bures_distance", math.sqrt(2)), ("bures_angle", math.pi / 2), ("helstrom_holevo", 1.0), ("sub_fidelity", 0.0)):
            if fn in ok:
                tol = 2e-4 if fn == "bures_angle" else SLACK
                rel(f"orthogonal: {fn} = {want:.6f}", abs(ok[fn] - want) <= tol)
    # ---- symmetry and unitary invariance of toqito's outputs
    def comparable(fn, x, y):
        if fn == "bures_distance":
            return abs(x * x - y * y) / 2 <= SLACK
        if fn == "bures_angle":
            return abs(math.cos(x) ** 2 - math.cos(y) ** 2) <= SLACK
        return abs(x - y) <= SLACK * max(1.0, abs(x))

    sw = _all_values(T, bf, af, full, pres, "swap", viol)
    for fn, v in ok.items():
        st, w = sw.get(fn, ("skip", None))
        if st == "skip":
            continue
        res.count("symmetry/" + fn)
        if st != "ok" or not _finite(w) or not comparable(fn, v, float(np.real(w))):
            viol(fn, f"{fn} is not symmetric: f(rho,sigma) = {v!r}, f(sigma,rho) = {w!r} ({kind}, dim {n})", impl=[v, repr(w)], theorem="traceDist_symm / fid_symm")
    if task.get("Q") is not None:
        Qm, c = task["Q"], task["c"]
        ra, rb = rotate(a, Qm, c), rotate(b, Qm, c)
        raf, rbf = _float_in(ra, True if not Qm.is_real() else task["as_complex"]), _float_in(rb, True if not Qm.is_real() else task["as_complex"])
        rv = _all_values(T, raf, rbf, full, pres, "rot", viol)
        for fn, v in ok.items():
            st, w = rv.get(fn, ("skip", None))
            if st == "skip":
                continue
            res.count("unitary-invariance/" + fn)
            if st != "ok" or not _finite(w) or not comparable(fn, v, float(np.real(w))):
                viol(fn, f"{fn} is not invariant under a common unitary: {v!r} vs {w!r} ({kind}, dim {n})", impl=[v, repr(w)], unitary={"Q": Qm.key(), "c": c}, theorem="traceDist_unitary_invariant / fid_unitary_invariant")


def work_triple(task, res: Result):
    warnings.filterwarnings("ignore")
    T = _toqito()
    sts = task["states"]
    fs = [_float_in(s, False) for s in sts]
    base = {"kind": "triple", "n": sts[0].n, "cplx": task["cplx"], "states": [_skey(s) for s in sts], "pres": task.get("pres")}
    out = {}
    for (i, j) in ((0, 1), (1, 2), (0, 2)):
        prng = call_rng(task.get("pres"), "triple", i, j)
        st, v = _call(T["trace_distance"], present_nd(prng, fs[i]), present_nd(prng, fs[j]))
        if st != "ok" or not _finite(v):
            res.case(dict(base, fn="triangle"), False, "triangle/raise")
            return  # reported by the pair stream
        out[(i, j)] = float(v)
    nontriv = min(out.values()) >= 1e-2
    res.case(dict(base, fn="triangle"), nontriv, "triangle/" + ("c" if task["cplx"] else "r"))
    if out[(0, 2)] > out[(0, 1)] + out[(1, 2)] + SLACK:
        res.violation(f"trace_distance violates the triangle inequality: T(a,c) = {out[(0, 2)]:.8f} > T(a,b) + T(b,c) = {out[(0, 1)] + out[(1, 2)]:.8f}",
                      {"function": "trace_distance", "args": base, "impl": [out[(0, 1)], out[(1, 2)], out[(0, 2)]], "theorem": "traceDist_triangle"})


def work_fos(task, res: Result):
    """fidelity_of_separability (state version) on rational pure product states"""
    warnings.filterwarnings("ignore")
    from toqito.state_metrics import fidelity_of_separability
    va, vb, dims, k = task["a"], task["b"], task["dims"], task["k"]
    a = np.array(va[0], dtype=float) + 1j * np.array(va[1], dtype=float)
    b = np.array(vb[0], dtype=float) + 1j * np.array(vb[1], dtype=float)
    psi = np.kron(a / np.linalg.norm(a), b / np.linalg.norm(b))
    rho = np.outer(psi, psi.conj())
    if not np.any(np.imag(rho)):
        rho = np.real(rho)
    desc = {"fn": "fidelity_of_separability", "a": va, "b": vb, "dims": dims, "k": k, "pres": task.get("pres")}
    a_rho, a_dims = present_nd(call_rng(task.get("pres"), "fos"), rho), list(dims)
    guard = Pure(a_rho, a_dims)
    st, v = _call(fidelity_of_separability, a_rho, a_dims, k=k)
    res.case(desc, True, f"fidelity_of_separability/{dims[0]}x{dims[1]}/k{k}")
    if guard.modified() is not None:
        res.violation(f"fidelity_of_separability: caller's arguments were modified ({guard.modified()})", {"function": "fidelity_of_separability", "args": desc, "modified": guard.modified(), "presentation": describe(a_rho), "check": "purity"})
    if st != "ok":
        res.violation(f"fidelity_of_separability raises {v} on a pure product state of dims {dims}, level {k}", {"function": "fidelity_of_separability", "args": desc, "exception": v})
    elif not _finite(v) or abs(float(v) - 1) > 1e-4:
        res.violation(f"fidelity_of_separability = {v!r} on a pure product state of dims {dims}, level {k} (expected 1)", {"function": "fidelity_of_separability", "args": desc, "impl": repr(v)})


# ------------------------------------------------------------------------------------------------
# stream `fos_embedding`: the picos program that fidelity_of_separability BUILDS (captured at Problem.solve, never solved) against the
# Lean model of that program (Toq.Metrics.fosExprs, the program fosFeasible_product / FosFeasible.objective_le_one speak about)


class _Captured(BaseException):
    """raised by the patched picos.Problem.solve (BaseException: must pass through `except Exception` inside toqito)"""


def _capture(fn):
    """run fn with picos.Problem.solve replaced by a recorder; returns ([(problem, solve-kwargs)], 'ok' | 'captured' | 'Type: msg')"""
    import picos
    got = []
    orig = picos.Problem.solve

    def fake(self, *a, **kw):
        got.append((self, dict(kw)))
        raise _Captured()

    picos.Problem.solve = fake
    how = "ok"
    try:
        try:
            with contextlib.redirect_stdout(io.StringIO()), warnings.catch_warnings():
                warnings.simplefilter("ignore")
                fn()
        except _Captured:
            how = "captured"
        except Exception as e:  # noqa: BLE001
            how = f"{type(e).__name__}: {str(e)[:200]}"
    finally:
        picos.Problem.solve = orig
    return got, how


FOS_EMB_SHAPES = [(dA, dB, k) for (dA, dB) in ((2, 2), (2, 3), (3, 2), (3, 3)) for k in (1, 2, 3)]
FOS_EMB_TOL = 1e-12    # captured expression vs model expression, entrywise and relative to the size of the entries (both are float images of the same exact affine expression)
FOS_FEAS_TOL = 1e-9    # the exact feasible point must satisfy every captured constraint to this accuracy
FOS_OBJ_TOL = 1e-12    # the captured objective at the feasible point vs 1
FOS_BAD = 1e-3         # a negative control must violate a captured constraint by at least this much
FOS_THM = "fosFeasible_product / fos_objective_le_one / fos_optimum_product (the program they speak about: Toq.Metrics.fosExprs)"


def _gi(M):
    M = np.asarray(M)
    return [[int(round(x)) for x in np.real(M).ravel()], [int(round(x)) for x in np.imag(M).ravel()]]


def _cmi(j, shape):
    """model matrix [re, im] (integers, all far below 2^53) -> complex float array, exact"""
    return (np.array(j[0], dtype=float) + 1j * np.array(j[1], dtype=float)).reshape(shape)


def _gvec(rng, d, cplx=True):
    """non-zero Gaussian-integer vector with entries in -3..3; cplx: v v^H is not a real matrix"""
    while True:
        v = rng.integers(-3, 4, size=d) + (1j * rng.integers(-3, 4, size=d) if cplx else 0)
        if not np.any(v):
            continue
        if cplx and not np.any(np.abs(np.imag(np.outer(v, v.conj()))) > 0):
            continue
        return v


def _kron_all(ms):
    out = np.array([[1.0 + 0j]])
    for m in ms:
        out = np.kron(out, m)
    return out


def _fos_model(drv, dA, dB, k, rho, X, sigma):
    """the model's expressions at the point given by (integer matrix, positive integer denominator) triples rho, X, sigma -> dict of complex float arrays
    (every expression but `tr sigma = 1` is homogeneous of degree one in (rho, X, sigma) jointly: evaluate at the common-denominator multiple and divide)"""
    L = math.lcm(int(rho[1]), int(X[1]), int(sigma[1]))
    n, N = dA * dB, dA * dB ** k
    e = drv.ask("c13_fos_exprs", {"dA": dA, "dB": dB, "k": k, "rho": _gi(rho[0] * (L // rho[1])), "X": _gi(X[0] * (L // X[1])), "sigma": _gi(sigma[0] * (L // sigma[1]))})
    if "reject" in e:
        raise RuntimeError(f"c13_fos_exprs rejected the request: {e}")
    return _fos_model_items(e, n, N, L)


def _fos_model_items(e, n, N, L):
    s = float(e["sym_scale"])
    return {"block": _cmi(e["block"], (2 * n, 2 * n)) / L, "sigma": _cmi(e["sigma"], (N, N)) / L, "trace": np.array([[complex(e["trace"][0], e["trace"][1]) / L - 1]]),
            "sym": _cmi(e["sym"], (N, N)) / (L * s), "pts": [_cmi(p, (N, N)) / L for p in e["pts"]], "obj": complex(e["obj2"][0], e["obj2"][1]) / (2 * L)}


def _fos_items_list(m):
    return [("psd", "block", m["block"]), ("psd", "sigma", m["sigma"]), ("eq", "trace", m["trace"]), ("eq", "sym", m["sym"])] + [("psd", f"ppt{j + 1}", p) for j, p in enumerate(m["pts"])]


def _psd_violation(a):
    a = np.atleast_2d(a)
    return max(-float(np.min(np.linalg.eigvalsh((a + a.conj().T) / 2))), float(np.max(np.abs(a - a.conj().T))))


def _fos_violations(items):
    """per (kind, name, value): how much the constraint is violated at the point the value was taken at"""
    return {name: (_psd_violation(a) if kind == "psd" else float(np.max(np.abs(a)))) for kind, name, a in items}


def _fos_vars(P, n, N, what):
    """(X variable, sigma variable) of the captured problem; CorrespondenceBroken when its variables are not those of the modelled program"""
    vs = list(P.variables.values())
    cls = {v.name: type(v).__name__ for v in vs}
    if len(vs) != 2:
        raise CorrespondenceBroken(f"{what}: the captured picos problem has variables {cls}, the modelled program has X (complex, {n}x{n}) and sigma (Hermitian, {N}x{N})")
    her = [v for v in vs if type(v).__name__ in ("HermitianVariable", "SymmetricVariable")]
    gen = [v for v in vs if type(v).__name__ in ("ComplexVariable", "RealVariable")]
    if len(her) != 1 or len(gen) != 1:
        raise CorrespondenceBroken(f"{what}: the captured picos problem has variables {cls}, the modelled program has X (complex, {n}x{n}) and sigma (Hermitian, {N}x{N})")
    if tuple(gen[0].shape) != (n, n) or tuple(her[0].shape) != (N, N):
        raise CorrespondenceBroken(f"{what}: the captured variables have shapes {tuple(gen[0].shape)} / {tuple(her[0].shape)}, the modelled program has X {n}x{n} and sigma {N}x{N} "
                                   f"(dim_a * dim_b**k with the dimensions in the order given)")
    return gen[0], her[0]


def _fos_cons(P):
    cons = []
    for c in P.constraints.values():
        if hasattr(c, "psd"):
            cons.append(("psd", c))
        elif type(c).__name__ == "ComplexAffineConstraint" or (hasattr(c, "is_equality") and c.is_equality()):
            cons.append(("eq", c))
        else:
            cons.append(("other", c))
    return cons


def _fos_captured(cons):
    def val(e):
        return np.atleast_2d(np.array(e.np, dtype=complex))

    out = []
    for i, (kd, c) in enumerate(cons):
        if kd == "psd":
            out.append((kd, f"#{i}", val(c.psd)))
        elif kd == "eq":
            out.append((kd, f"#{i}", val(c.lhs) - val(c.rhs)))
        else:
            out.append(("other", f"#{i}", -np.minimum(np.atleast_2d(np.array(c.slack, dtype=float)), 0.0) + 0j))     # picos: slack >= 0 iff the constraint holds
    return out


def _fos_assign(Xv, Sv, X, S):
    try:
        Xv.value = X
        Sv.value = S
    except Exception as e:  # e.g. a real symmetric variable refusing a complex Hermitian value
        return f"{type(e).__name__}: {str(e)[:200]}"
    return None


def _fos_match(model_items, capt, tol):
    """match every modelled constraint with a captured one of the same kind and shape whose value (at the same point) agrees; -> (missing names, unmatched captured labels)"""
    free = list(range(len(capt)))
    missing = []
    for kind, name, a in model_items:
        scale = max(1.0, float(np.max(np.abs(a)))) if a.size else 1.0
        hit = None
        for i in free:
            kc, _, b_ = capt[i]
            if kc != kind or b_.shape != a.shape:
                continue
            if float(np.max(np.abs(b_ - a))) <= tol * scale or (kind == "eq" and float(np.max(np.abs(b_ + a))) <= tol * scale):
                hit = i
                break
        if hit is None:
            missing.append(name)
        else:
            free.remove(hit)
    return missing, [capt[i][1] for i in free]


def work_fos_embed(task, res: Result):
    from toqito.state_metrics import fidelity_of_separability
    warnings.filterwarnings("ignore")
    dA, dB, k = task["dims"][0], task["dims"][1], task["k"]
    a = np.array(task["a"][0], dtype=float) + 1j * np.array(task["a"][1], dtype=float)
    b = np.array(task["b"][0], dtype=float) + 1j * np.array(task["b"][1], dtype=float)
    rng = np.random.default_rng(task["seed"])
    drv = worker_driver()
    n, N = dA * dB, dA * dB ** k
    desc = {"fn": "fos_embedding", "a": task["a"], "b": task["b"], "dims": [dA, dB], "k": k, "seed": int(task["seed"]), "pres": task.get("pres")}
    what = f"fidelity_of_separability(dims=[{dA}, {dB}], k={k})"
    cplx = bool(np.any(np.imag(np.outer(a, a.conj()))) or np.any(np.imag(np.outer(b, b.conj()))))
    # the exact product point of fosFeasible_product, built and checked by the Lean model
    pm = drv.ask("c13_fos_product", {"dA": dA, "dB": dB, "k": k, "a": _gi(a), "b": _gi(b)})
    if "reject" in pm or not (pm["trace_ok"] and pm["obj_ok"] and pm["sym_ok"] and pm["block_ok"] and all(pm["pts_ok"]) and len(pm["pts_ok"]) == k - 1):
        raise RuntimeError(f"the Lean model does not confirm the product point of fosFeasible_product: { {x: pm.get(x) for x in ('reject', 'trace_ok', 'obj_ok', 'sym_ok', 'block_ok', 'pts_ok')} }")
    D = int(pm["den"])
    rho_i, sig_i = _cmi(pm["rho"], (n, n)), _cmi(pm["sigma"], (N, N))
    rho, sig = rho_i / D, sig_i / D         # float images (each entry correctly rounded: quotient of two exactly represented integers)
    if not np.any(np.imag(rho)):
        rho = np.real(rho)
    a_rho, a_dims = present_nd(call_rng(task.get("pres"), "fos-embed"), rho), [dA, dB]
    guard = Pure(a_rho, a_dims)
    got, how = _capture(lambda: fidelity_of_separability(a_rho, a_dims, k=k))
    res.case(desc, True, f"fos-embedding/{dA}x{dB}/k{k}/{'c' if cplx else 'r'}")
    if guard.modified() is not None:
        res.violation(f"fidelity_of_separability: caller's arguments were modified ({guard.modified()})", {"function": "fidelity_of_separability", "args": desc, "modified": guard.modified(), "presentation": describe(a_rho), "check": "purity"})
    if how != "captured" and not got:
        if how == "ok":
            raise CorrespondenceBroken(f"{what} returns without handing a picos problem to Problem.solve")
        res.violation(f"fidelity_of_separability raises {how} on a pure product state of dims [{dA}, {dB}], level {k} (before any program is handed to the solver)",
                      {"function": "fidelity_of_separability", "args": desc, "exception": how, "check": "embedding-guards", "theorem": "fosGuard_solve_iff / " + FOS_THM})
        return
    if len(got) != 1:
        raise CorrespondenceBroken(f"{what}: expected one picos problem handed to solve(), captured {len(got)}")
    P, kw = got[0]
    res.count("fos-embedding/problems-captured")
    Xv, Sv = _fos_vars(P, n, N, what)
    cons = _fos_cons(P)
    res.count("fos-embedding/constraints-captured", len(cons))
    if P.objective.direction != "max":
        res.violation(f"{what} hands a '{P.objective.direction}' problem to the solver, the modelled program is a 'max' problem",
                      {"function": "fidelity_of_separability", "args": desc, "impl": P.objective.direction, "model": "max", "check": "embedding-direction", "theorem": FOS_THM})
        return
    # (1) the feasible point: assignable, feasible, objective one, and every expression as modelled
    why = _fos_assign(Xv, Sv, rho_i / D, sig)
    if why is not None:
        res.violation(f"{what}: the feasible point sigma = a a^H (x) (b b^H)^(x)k, X = rho of the modelled program cannot be written into the variables of the program the code builds "
                      f"({type(Sv).__name__} {Sv.name}, {type(Xv).__name__} {Xv.name}: {why}); the optimum over the restricted variables is below 1 for this state",
                      {"function": "fidelity_of_separability", "args": desc, "impl": why, "model": "feasible with objective 1", "check": "embedding-variable", "cplx": cplx, "theorem": FOS_THM})
        return
    capt = _fos_captured(cons)
    vio = max([(_psd_violation(v) if kd == "psd" else float(np.max(np.abs(v)))) for kd, _, v in capt] + [0.0])
    if vio > FOS_FEAS_TOL:
        worst = max(capt, key=lambda t: _psd_violation(t[2]) if t[0] == "psd" else float(np.max(np.abs(t[2]))))
        res.violation(f"{what}: the feasible point of the modelled program (fosFeasible_product) violates constraint {worst[1]} ({cons[int(worst[1][1:])][1]}) of the program the code builds by {vio:.3e}",
                      {"function": "fidelity_of_separability", "args": desc, "impl": vio, "model": "feasible", "check": "embedding-feasible", "cplx": cplx, "theorem": FOS_THM})
        return
    obj = complex(np.asarray(P.objective.function.np).reshape(-1)[0])
    if abs(obj - 1) > FOS_OBJ_TOL:
        res.violation(f"{what}: the objective of the program the code builds is {obj!r} at the feasible point of fosFeasible_product, the modelled objective Re tr X is 1",
                      {"function": "fidelity_of_separability", "args": desc, "impl": [obj.real, obj.imag], "model": 1.0, "check": "embedding-objective", "cplx": cplx, "theorem": FOS_THM})
        return
    res.count("fos-embedding/feasible-points-embedded")
    pm_items = _fos_items_list(_fos_model_items(pm, n, N, D))
    missing, extra = _fos_match(pm_items, capt, FOS_EMB_TOL)
    # (2) generic points: Gaussian-integer X, Hermitian Gaussian-integer sigma -- every expression must be the modelled one (exactly, up to the division by (k!)^2)
    for rd in range(2):
        Xr = rng.integers(-3, 4, size=(n, n)) + 1j * rng.integers(-3, 4, size=(n, n))
        G = rng.integers(-3, 4, size=(N, N)) + 1j * rng.integers(-3, 4, size=(N, N))
        Sr = G + G.conj().T
        if _fos_assign(Xv, Sv, Xr.astype(complex), Sr.astype(complex)) is not None:
            break
        m = _fos_model(drv, dA, dB, k, (rho_i, D), (Xr, 1), (Sr, 1))
        items = _fos_items_list(m)
        capt_r = _fos_captured(cons)
        miss_r, extra_r = _fos_match(items, capt_r, FOS_EMB_TOL)
        missing = sorted(set(missing) | set(miss_r))
        extra = sorted(set(extra) | set(extra_r))
        obj_r = complex(np.asarray(P.objective.function.np).reshape(-1)[0])
        res.count("fos-embedding/generic-points")
        if abs(obj_r - m["obj"]) > FOS_EMB_TOL * max(1.0, abs(m["obj"])):
            res.violation(f"{what}: the objective of the program the code builds is {obj_r!r} at an exact point, the modelled objective 1/2 tr(X + X^H) is {m['obj']!r}",
                          {"function": "fidelity_of_separability", "args": dict(desc, round=rd), "impl": [obj_r.real, obj_r.imag], "model": [m["obj"].real, m["obj"].imag], "check": "embedding-objective",
                           "point": {"X": _gi(Xr), "sigma": _gi(Sr)}, "theorem": FOS_THM})
            return
    res.count("fos-embedding/expressions-identical" if not missing and not extra else "fos-embedding/expressions-differ")
    # (3) negative controls: infeasible for the modelled program by a margin in exactly one constraint -> some captured constraint must be violated
    a2, b2, c2 = _gvec(rng, dA), _gvec(rng, dB), _gvec(rng, dB)
    oa, ob = np.outer(a, a.conj()), np.outer(b, b.conj())
    na, nb = int(round(np.real(np.vdot(a, a)))), int(round(np.real(np.vdot(b, b))))
    zero = np.zeros((n, n))
    controls = [("other-product-state", "block", (rho_i, D), (_kron_all([np.outer(a2, a2.conj())] + [np.outer(b2, b2.conj())] * k), int(round(np.real(np.vdot(a2, a2)))) * int(round(np.real(np.vdot(b2, b2)))) ** k)),
                ("trace-two", "trace", (rho_i, D), (2 * sig_i, D))]
    if k >= 2:
        ghz = np.zeros(dB ** k)
        ghz[0] = 1
        ghz[sum(dB ** t for t in range(k))] = 1
        controls.append(("non-symmetric-extension", "sym", (rho_i, D), (_kron_all([oa, ob] + [np.outer(c2, c2.conj())] * (k - 1)), na * nb * int(round(np.real(np.vdot(c2, c2)))) ** (k - 1))))
        controls.append(("entangled-copies", "ppt1", (zero, 1), (_kron_all([oa, np.outer(ghz, ghz)]), 2 * na)))
    for label, target, Xc, Sc in controls:
        m = _fos_model(drv, dA, dB, k, (rho_i, D), Xc, Sc)
        mv = _fos_violations(_fos_items_list(m))
        if mv[target] < 1e-2 or any(v > 1e-9 for nm, v in mv.items() if nm != target and not (target == "ppt1" and nm.startswith("ppt"))):
            res.count(f"fos-embedding/control-without-margin/{label}")      # e.g. the second product state nearly equals the first
            continue
        if _fos_assign(Xv, Sv, Xc[0] / Xc[1] + 0j, Sc[0] / Sc[1] + 0j) is not None:
            continue
        cv = _fos_captured(cons)
        vio = max([(_psd_violation(v) if kd == "psd" else float(np.max(np.abs(v)))) for kd, _, v in cv] + [0.0])
        res.count("fos-embedding/negative-controls")
        if vio < FOS_BAD:
            res.violation(f"{what}: the point '{label}' violates only the constraint '{target}' of the modelled program (by {mv[target]:.3e}) and satisfies every constraint of the program the code builds "
                          f"(largest violation {vio:.3e}): that constraint is missing or weakened",
                          {"function": "fidelity_of_separability", "args": dict(desc, control=label), "impl": vio, "model": {"violated": target, "by": mv[target]}, "check": "embedding-negative-control", "theorem": FOS_THM})
            return
    # no failing point was found, but the program is not the modelled one: an expression differs at exact points (an equivalent reformulation or a changed / added constraint)
    if missing or extra:
        raise CorrespondenceBroken(f"{what}: at exact points no constraint of the program the code builds has the value of the modelled constraint(s) {missing}; "
                                   f"captured constraints without a modelled counterpart: {[str(cons[int(x[1:])][1]) for x in extra]}")
    if kw.get("solver") != "cvxopt" and set(kw) != set():
        res.count("fos-embedding/other-solver-arguments")


def gen_fos_embed(rng, quick):
    tasks = []
    reps = 1 if quick else 4
    for r in range(reps):
        for (dA, dB, k) in FOS_EMB_SHAPES:
            cplx = not (r == 0 and (dA, dB, k) in ((2, 2, 2), (3, 2, 1)))     # two real product states, the others genuinely complex
            a, b = _gvec(rng, dA, cplx), _gvec(rng, dB, cplx)
            tasks.append({"a": _gi(a), "b": _gi(b), "dims": [dA, dB], "k": k, "seed": int(rng.integers(1, 2 ** 31))})
    return tasks


# ------------------------------------------------------------------------------------------------
# stream `fos_guards`: the argument guards of fidelity_of_separability against the decision-logic model (fosGuard; Problem.solve is replaced by a recorder,
# so an accepted call ends when the program is handed to the solver)


def _fos_category(got, how):
    if how == "captured" and len(got) == 1:
        return "solve"
    if how == "ok":
        return "returns-without-solving"
    if how.startswith("ValueError"):
        if "not a density matrix" in how:
            return "notDensity"
        if "only works for pure states" in how:
            return "notPure"
        if "is entangled" in how:
            return "entangled"
        return "sepError"
    if how.startswith("AssertionError"):
        return "notBipartite"
    if how.startswith("TypeError"):
        return "buildError"
    return "raises-other"


FOS_REJECT_VALUE_ERROR = ("notDensity", "notPure", "entangled", "sepError")


def _pure_state(v):
    v = np.asarray(v, dtype=complex)
    v = v / np.linalg.norm(v)
    r = np.outer(v, v.conj())
    return np.real(r) if not np.any(np.imag(r)) else r


def stream_fos_guards(ctx):
    from toqito.state_metrics import fidelity_of_separability
    rng = ctx.rng
    drv = ctx.lean()
    cases = []   # (label, rho, dims, k, density?, pure (bool | [re, im] of the largest eigenvalue), sep verdict where the dimensions do not decide)
    for rd in range(2 if ctx.tier == "quick" else 10):
        dA, dB = [(2, 2), (2, 3), (3, 2), (3, 3)][int(rng.integers(4))]
        n = dA * dB
        a, b = _gvec(rng, dA), _gvec(rng, dB)
        prod = _pure_state(np.kron(a, b))
        # entangled pure state of Schmidt rank 2 with both Schmidt coefficients >= 1/sqrt(10): product vectors on orthogonal local supports
        ea, eb = np.eye(dA), np.eye(dB)
        w = int(rng.integers(1, 4))
        ent = _pure_state(np.kron(ea[0], eb[0]) * w + np.kron(ea[1], eb[1]) * (1j if rd % 2 else 1))
        U = rational_unitary(rng, n, True).to_float()
        d_mixed = np.zeros(n)
        d_mixed[:2] = [0.75, 0.25]
        mixed = (U * d_mixed) @ U.conj().T
        d_near = np.zeros(n)
        d_near[:2] = [1 - 4e-5, 4e-5]          # largest eigenvalue 4e-5 below 1: not pure (rtol 1e-5 + atol 1e-8)
        near = (U * d_near) @ U.conj().T
        ev = np.zeros(n)
        ev[:2] = [1.25, -0.25]
        notpsd = (U * ev) @ U.conj().T
        good = [dA, dB]
        cases += [
            ("product", prod, good, 1 + rd % 2, True, True, "separable"),
            ("product/dims-tuple", prod, tuple(good), 1, True, True, "separable"),
            ("entangled", ent, good, 1, True, True, "entangled"),
            ("mixed", mixed, good, 1, True, False, None),
            ("nearly-pure", near, good, 1, True, [rat_json(Fraction(1) - Fraction(4, 100000)), rat_json(0)], None),
            ("not-psd", notpsd, good, 1, False, True, None),
            ("trace-3/2", prod * 1.5, good, 1, False, False, None),
            ("not-hermitian", prod + np.triu(np.ones((n, n)), 1) * 0.25, good, 1, False, True, None),
            ("non-square", np.hstack([np.real(prod) if not np.iscomplexobj(prod) else prod, np.zeros((n, 1))]), good, 1, False, True, None),
            ("product/three-dims", prod, good + [1], 1, True, True, "separable"),
            ("product/one-dim", prod, [n], 1, True, True, "separable"),
            ("mixed/three-dims", mixed, good + [1], 1, True, False, None),
            ("not-psd/three-dims", notpsd, good + [1], 1, False, True, None),
            ("product/dims-product-too-large", prod, [dA, dB + 1], 1, True, True, "separable"),
            ("product/dims-product-too-small", prod, [dA, dB - 1] if dB > 2 else [dA + 1, dB + 1], 1, True, True, "separable"),
            ("product/dims-[n,1]", prod, [n, 1], 1, True, True, None),
            ("entangled/dims-[1,n]", ent, [1, n], 1 + rd % 2, True, True, None),
            ("product/dims-[1,n-1]", prod, [1, n - 1], 1, True, True, None),
        ]
    for label, R, dims, k, dens, pure, sep in cases:
        n = R.shape[0]
        two = len(dims) == 2
        m = drv.ask("c13_fos_guard", {"density": bool(dens), "dims_len": len(dims), "pure": pure, "n": n, "dA": int(dims[0]) if two else 0, "dB": int(dims[1]) if two else 0, "sep": sep})
        out = m["outcome"]
        guard = Pure(R, dims)
        got, how = _capture(lambda: fidelity_of_separability(R, dims, k=k))
        cat = _fos_category(got, how)
        desc = {"fn": "fidelity_of_separability", "stream": "fos_guards", "case": label, "rho": R, "dims": list(dims), "k": k}
        ctx.case(desc, True, f"fos-guard/{label}/{out}")
        if guard.modified() is not None:
            ctx.violation(f"fidelity_of_separability: caller's arguments were modified ({guard.modified()})", {"function": "fidelity_of_separability", "args": desc, "modified": guard.modified(), "check": "purity"})
        if out == "solve":
            if cat != "solve":
                ctx.violation(f"fidelity_of_separability does not accept an input the guard model accepts ({label}, dims {list(dims)}): {how}",
                              {"function": "fidelity_of_separability", "args": desc, "impl": how, "model": out, "theorem": "fosGuard_solve_iff"})
        elif cat == "solve" or cat == "returns-without-solving":
            ctx.violation(f"fidelity_of_separability accepts an input the guard model rejects as {out} ({label}, dims {list(dims)}): the program is handed to the solver",
                          {"function": "fidelity_of_separability", "args": desc, "impl": cat, "model": out, "theorem": "fosGuard_solve_iff / fosGuard_rejects"})
        elif out in ("notDensity", "notPure") and not how.startswith("ValueError"):
            ctx.violation(f"fidelity_of_separability rejects a {'non-density' if out == 'notDensity' else 'mixed'} input with {how}, not with a ValueError",
                          {"function": "fidelity_of_separability", "args": desc, "impl": how, "model": out, "theorem": "fosGuard_rejects"})
        elif cat != out:
            ctx.count(f"fos-guard-category-differs/{out}->{cat}")


# ------------------------------------------------------------------------------------------------
# serial streams: exact bilinear functions, rectangular trace norm, malformed inputs


def stream_hs_inner(ctx, prs=None):
    from toqito.state_metrics import hilbert_schmidt_inner_product
    rng = ctx.rng
    drv = ctx.lean()
    for _ in range(40 if ctx.tier == "quick" else 400):
        n, m = int(rng.integers(1, 6)), int(rng.integers(1, 6))
        cplx = bool(rng.integers(3))
        A = rng.integers(-60, 61, size=(n, m)) + (1j * rng.integers(-60, 61, size=(n, m)) if cplx else 0)
        B = rng.integers(-60, 61, size=(n, m)) + (1j * rng.integers(-60, 61, size=(n, m)) if cplx else 0)
        r = drv.ask("c13_hs_inner", {"n": n, "m": m, "A": DM.from_int(A).json(), "B": DM.from_int(B).json()})
        want = complex(frac(r["re"]), frac(r["im"]))
        Af, Bf = (A.astype(complex), B.astype(complex)) if cplx else (A.astype(float), B.astype(float))
        Af, Bf = present_nd(prs, Af), present_nd(prs, Bf)   # integer data: float64 / int64 / (real values) complex128, any layout
        guard = Pure(Af, Bf)
        st, v = _call(hilbert_schmidt_inner_product, Af, Bf)
        if guard.modified() is not None:
            ctx.violation(f"hilbert_schmidt_inner_product: caller's arguments were modified ({guard.modified()})", {"function": "hilbert_schmidt_inner_product", "args": {"fn": "hilbert_schmidt_inner_product", "A": A, "B": B}, "modified": guard.modified(), "check": "purity"})
        desc = {"fn": "hilbert_schmidt_inner_product", "A": A, "B": B}
        ctx.case(desc, n * m > 1 and cplx, "hilbert_schmidt_inner_product/" + ("c" if cplx else "r"))
        if st != "ok" or complex(v) != want:
            ctx.violation(f"hilbert_schmidt_inner_product = {v!r}, exact tr(A^H B) = {want!r}", {"function": "hilbert_schmidt_inner_product", "args": desc, "impl": repr(v), "model": repr(want), "theorem": "hsInner_eq"})


def stream_rect_trace_norm(ctx, prs=None):
    """trace_norm of rectangular / non-Hermitian integer matrices through the Hermitian dilation [[0, A], [A^H, 0]] (its trace norm is 2 ||A||_1)"""
    from toqito.matrix_props import trace_norm
    rng = ctx.rng
    drv = ctx.lean()
    for _ in range(12 if ctx.tier == "quick" else 120):
        n, m = int(rng.integers(1, 5)), int(rng.integers(1, 5))
        cplx = bool(rng.integers(2))
        A = rng.integers(-8, 9, size=(n, m)) + (1j * rng.integers(-8, 9, size=(n, m)) if cplx else 0)
        Ad = DM.from_int(A).scale_dy(1, 5)  # A / 32
        Af = A / 32.0
        Z1, Z2 = DM.from_int(np.zeros((n, n), dtype=int)), DM.from_int(np.zeros((m, m), dtype=int))
        H = DM(np.block([[Z1.at(5).re, Ad.re], [Ad.H().re, Z2.at(5).re]]), np.block([[Z1.at(5).im, Ad.im], [Ad.H().im, Z2.at(5).im]]), 5)
        lo, hi, why = certify_trace_norm(drv, H)
        desc = {"fn": "trace_norm", "A": A, "scale": "1/32"}
        if lo is None or hi is None:
            ctx.count("uncertified/rect-trace-norm")
            continue
        Af = present_nd(prs, Af)
        guard = Pure(Af)
        st, v = _call(trace_norm, Af)
        if guard.modified() is not None:
            ctx.violation(f"trace_norm: caller's arguments were modified ({guard.modified()})", {"function": "trace_norm", "args": desc, "modified": guard.modified(), "check": "purity"})
        ctx.case(desc, min(n, m) > 1, "trace_norm/rectangular/" + ("c" if cplx else "r"))
        if st != "ok" or not _finite(v) or not (lo / 2 - TAU_T * max(1.0, hi) <= float(v) <= hi / 2 + TAU_T * max(1.0, hi)):
            ctx.violation(f"trace_norm = {v!r} outside the certified enclosure [{lo / 2:.10f}, {hi / 2:.10f}] of a {n}x{m} matrix", {"function": "trace_norm", "args": desc, "impl": repr(v), "certified": [lo / 2, hi / 2], "theorem": "checkTNLower_sound / checkTNUpper_sound (Hermitian dilation)"})


def stream_malformed(ctx):
    T = _toqito()
    rng = ctx.rng
    fns = ["trace_distance", "helstrom_holevo", "fidelity", "bures_distance", "bures_angle", "sub_fidelity", "matsumoto_fidelity", "hilbert_schmidt"]
    for _ in range(6 if ctx.tier == "quick" else 40):
        n = int(rng.integers(2, 5))
        cplx = bool(rng.integers(2))
        good = rand_state(rng, n, n, cplx).float()
        U = rational_unitary(rng, n, cplx).to_float()
        ev = np.zeros(n)
        ev[0], ev[1] = 1.25, -0.25
        bad = {
            "not-psd": (U * ev) @ U.conj().T,                      # Hermitian, trace 1, eigenvalue -1/4
            "trace-3/2": good * 1.5,                               # PSD, trace 3/2
            "not-hermitian": good + np.triu(np.ones((n, n)), 1) * 0.25,   # trace 1, not Hermitian
        }
        for why, B in bad.items():
            for order in (0, 1):
                args = (B, good) if order == 0 else (good, B)
                for fn in fns:
                    st, v = _call(T[fn], *args)
                    desc = {"fn": fn, "malformed": why, "position": order, "n": n, "cplx": cplx, "bad": B, "good": good}
                    ctx.case(desc, True, f"reject/{fn}/{why}")
                    if not (st == "raise" and v.startswith("ValueError")):
                        ctx.violation(f"{fn} accepts a non-density argument ({why}, position {order}): returned {v!r}", {"function": fn, "args": desc, "impl": repr(v), "theorem": "IsDensity is the domain of the measures"})
    # fidelity_of_separability: mixed and non-density inputs
    from toqito.state_metrics import fidelity_of_separability
    for why, R in (("mixed", np.diag([0.5, 0.5, 0, 0])), ("mixed-full", np.eye(4) / 4), ("not-psd", np.diag([1.25, -0.25, 0, 0])), ("trace-2", np.diag([1.0, 1.0, 0, 0]))):
        st, v = _call(fidelity_of_separability, R, [2, 2])
        desc = {"fn": "fidelity_of_separability", "malformed": why, "rho": R}
        ctx.case(desc, True, f"reject/fidelity_of_separability/{why}")
        if not (st == "raise" and v.startswith("ValueError")):
            ctx.violation(f"fidelity_of_separability accepts a {why} input: returned {v!r}", {"function": "fidelity_of_separability", "args": desc, "impl": repr(v)})


# ------------------------------------------------------------------------------------------------
# commuting pairs against the exact classical model; Bures rounding; argument guards


def rat_json(x):
    x = Fraction(x)
    return [x.numerator, x.denominator]


def sqrt_bounds(x: Fraction, bits=64):
    """rationals lo <= sqrt(x) <= hi, hi - lo <= 2^-bits (untrusted: the Lean checker squares them)"""
    a, b = x.numerator, x.denominator
    N = (a * b) << (2 * bits)
    r = math.isqrt(N)
    den = b << bits
    lo = Fraction(r, den)
    return lo, (lo if r * r == N else Fraction(r + 1, den))


def rand_spectrum(rng, n, zeros):
    while True:
        w = rng.integers(0 if zeros else 1, 9, size=n)
        if w.sum() > 0 and (zeros or np.all(w > 0)):
            return [Fraction(int(x), int(w.sum())) for x in w]


def gen_spectra(rng, n, kind):
    if kind == "generic":
        return rand_spectrum(rng, n, True), rand_spectrum(rng, n, True)
    if kind == "fullrank":
        return rand_spectrum(rng, n, False), rand_spectrum(rng, n, False)
    if kind == "identical":
        p = rand_spectrum(rng, n, True)
        return p, list(p)
    if kind == "disjoint":
        cut = int(rng.integers(1, n))
        perm = rng.permutation(n).tolist()
        a, b = rand_spectrum(rng, cut, False), rand_spectrum(rng, n - cut, False)
        p, q = [Fraction(0)] * n, [Fraction(0)] * n
        for k, i in enumerate(perm[:cut]):
            p[i] = a[k]
        for k, i in enumerate(perm[cut:]):
            q[i] = b[k]
        return p, q
    if kind == "near":
        p, t = rand_spectrum(rng, n, False), rand_spectrum(rng, n, True)
        eps = Fraction(1, 1 << int(rng.choice([6, 12, 20])))
        return p, [(1 - eps) * x + eps * y for x, y in zip(p, t)]
    raise ValueError(kind)


def spectral_matrix(Uq: QM, d):
    """U diag(d) U^H exactly"""
    return Uq @ QM.diag(d) @ Uq.H()


def _frac_cell(x: Fraction, d: int):
    """distance of x * 10^d from the nearest half-integer (rounding boundary)"""
    y = x * 10 ** d
    f = y - math.floor(y)
    return abs(f - Fraction(1, 2))


DECS = [0, 1, 2, 3, 4, 6, 8, 10]


def check_bures_decimals(T, drv, args, f_t, decs, report, count, pres_desc=None, as_keyword=True):
    """bures_distance / bures_angle with an explicit `decimals`: the squared distance must be 2 (1 - round(F_t, d)) and cos^2 of the angle
    round(F_t, d), with F_t toqito's own fidelity on the same values (an exact rational) and round = the Lean model roundDec"""
    ft = Fraction(float(f_t))
    for d in decs:
        if _frac_cell(ft, d) < Fraction(1, 1000):
            count("bures-decimals/skipped-near-rounding-boundary")
            continue
        r = drv.ask("c13_round", {"lo": rat_json(ft), "hi": rat_json(ft), "d": int(d)})
        if r.get("r") is None:
            raise RuntimeError("c13_round: no value for a point enclosure")
        rr = fraction(r["r"])
        for fn in ("bures_distance", "bures_angle"):
            st, v = _call(T[fn], *args, decimals=int(d)) if as_keyword else _call(T[fn], *(list(args) + [int(d)]))
            count(f"bures-decimals/{fn}/d{d}")
            if st != "ok" or not _finite(v):
                if rr <= 1:
                    report(fn, f"{fn}(rho, sigma, decimals={d}) gives {v!r} on a valid pair (fidelity {float(f_t)!r})", impl=repr(v), decimals=int(d), check="decimals")
                continue
            v = float(np.real(v))
            got = v * v / 2 if fn == "bures_distance" else math.cos(v) ** 2
            want = float(1 - rr) if fn == "bures_distance" else float(rr)
            if abs(got - want) > 1e-12:
                report(fn, f"{fn}(rho, sigma, decimals={d}) = {v!r}: {'1 - d^2/2' if fn == 'bures_distance' else 'cos^2'} gives {1 - got if fn == 'bures_distance' else got!r}, the model round(F, {d}) = {float(rr)!r} for F = {float(f_t)!r}",
                       impl=v, model=[rr.numerator, rr.denominator], fidelity=float(f_t), decimals=int(d), check="decimals", theorem="roundDec_spec / roundDecEncl_sound / bures_enclosure")


def commuting_case(ctx_like, drv, T, n, p, q, Uq: QM, pres, decs, kind, ulabel):
    """one commuting pair rho = U diag(p) U^H, sigma = U diag(q) U^H against the exact classical model (class_evaluators_sound, checkClassFid_sound)"""
    rho, sig = spectral_matrix(Uq, p), spectral_matrix(Uq, q)
    af, bf = rho.to_float(), sig.to_float()
    lohi = [sqrt_bounds(x * y) for x, y in zip(p, q)]
    m = drv.ask("c13_classical", {"n": n, "p": [rat_json(x) for x in p], "q": [rat_json(x) for x in q],
                                  "slo": [rat_json(a) for a, _ in lohi], "shi": [rat_json(b) for _, b in lohi]})
    if not m.get("prob") or m.get("flo") is None or m.get("fhi") is None:
        raise RuntimeError(f"c13_classical rejects a harness-made instance: {m}")
    td, hs, tp, rad, flo, fhi = (fraction(m[k]) for k in ("td", "hs", "trprod", "subfidrad", "flo", "fhi"))
    full = min(p) > 0 and min(q) > 0
    tol_f = TAU_F if (full and min(min(p), min(q)) >= Fraction(1, 1000)) else 5e-7
    base = {"stream": "commuting", "kind": kind, "n": n, "p": [str(x) for x in p], "q": [str(x) for x in q], "U": Uq.key(), "ulabel": ulabel, "pres": pres}
    nontriv = ulabel == "rotated" and Fraction(1, 50) <= td <= 1 - Fraction(1, 50) and Fraction(1, 100) <= flo and fhi <= 1 - Fraction(1, 100)

    def viol(fn, what, **info):
        ctx_like.violation(what, dict({"function": fn, "args": base}, **info))

    want = {"trace_distance": (float(td), TAU_T), "trace_norm": (float(2 * td), TAU_T), "helstrom_holevo": (float(Fraction(1, 2) + td / 2), TAU_T)}
    f_t = None
    for fn in FUNCS:
        if fn == "matsumoto_fidelity" and not full:
            continue
        prng = call_rng(pres, "comm", fn)
        args = [present_nd(prng, af - bf)] if fn == "trace_norm" else [present_nd(prng, af), present_nd(prng, bf)]
        guard = Pure(*args)
        st, v = _call(T[fn], *args)
        ctx_like.case(dict(base, fn=fn), nontriv, f"commuting/{fn}/{kind}/{ulabel}")
        if guard.modified() is not None:
            viol(fn, f"{fn}: caller's arguments were modified ({guard.modified()})", modified=guard.modified(), presentation=describe(args), check="purity")
            continue
        if st != "ok" or not _finite(v):
            viol(fn, f"{fn} gives {v!r} on a valid commuting pair of density operators (dim {n})", impl=repr(v))
            continue
        v = float(np.real(v))
        if fn in want:
            w, tol = want[fn]
            if abs(v - w) > tol:
                viol(fn, f"{fn} = {v:.12f}, exact value for the commuting pair {w:.12f} (dim {n}, {kind})", impl=v, model=w, tau=tol, theorem="class_evaluators_sound / traceDist_commuting")
        elif fn == "fidelity":
            if not (float(flo) - tol_f <= v <= float(fhi) + tol_f):
                viol(fn, f"fidelity = {v:.12f} outside the exact classical value [{float(flo):.12f}, {float(fhi):.12f}] = sum sqrt(p_i q_i) (dim {n}, {kind})", impl=v, certified=[float(flo), float(fhi)], tau=tol_f, theorem="checkClassFid_sound / fid_commuting")
            else:
                f_t = v
                if decs:
                    check_bures_decimals(T, drv, args, v, decs, viol, ctx_like.count, as_keyword=bool(n % 2))
        elif fn in ("bures_distance", "bures_angle"):
            f_lo, f_hi = max(0.0, float(flo) - tol_f - 1e-10), min(1.0, float(fhi) + tol_f + 1e-10)
            lo, hi = (math.sqrt(2 * (1 - f_hi)) - 1e-9, math.sqrt(2 * (1 - f_lo)) + 1e-9) if fn == "bures_distance" else (math.acos(math.sqrt(f_hi)) - 1e-9, math.acos(math.sqrt(f_lo)) + 1e-9)
            if not (lo <= v <= hi):
                viol(fn, f"{fn} = {v:.10f} outside [{lo:.10f}, {hi:.10f}], the documented function of the exact classical fidelity (dim {n}, {kind})", impl=v, certified=[lo, hi], theorem="bures_enclosure / checkClassFid_sound")
        elif fn == "sub_fidelity":
            d = v - float(tp)
            if not (d >= -1e-9 and abs(d * d - float(rad)) <= 1e-9):
                viol(fn, f"sub_fidelity = {v:.12f}, exact value for the commuting pair {float(tp) + math.sqrt(float(rad)):.12f} (dim {n}, {kind})", impl=v, trprod=float(tp), radicand=float(rad), theorem="class_evaluators_sound")
        elif fn == "matsumoto_fidelity":
            if not (float(flo) - TAU_M <= v <= float(fhi) + TAU_M):
                viol(fn, f"matsumoto_fidelity = {v:.12f} outside the exact classical value [{float(flo):.12f}, {float(fhi):.12f}] (dim {n}, {kind})", impl=v, certified=[float(flo), float(fhi)], tau=TAU_M, theorem="checkClassFid_sound_matsumoto / matsumoto_commuting")
        elif fn == "hilbert_schmidt":
            if abs(v - float(hs)) > 1e-9 * max(1.0, float(hs)):
                hf = (af - bf + (af - bf).conj().T) / 2
                lam2 = float(np.max(np.abs(np.linalg.eigvalsh(hf))) ** 2)
                viol(fn, f"hilbert_schmidt = {v:.10f}, documented tr((rho-sigma)^2) = {float(hs):.10f} (commuting {kind}, dim {n})", impl=v, exact=float(hs), lam_max_sq=lam2, theorem="class_evaluators_sound / hsDist_eq_sum_sq")
    return f_t


COMM_KINDS = ["generic", "fullrank", "generic", "near", "identical", "disjoint", "fullrank"]


def gen_commuting(rng, count):
    out = []
    # corpus: docstring example of sub_fidelity, a degenerate first argument (a commuting-states shortcut through eigh of rho alone fails here)
    out.append({"n": 2, "p": [Fraction(3, 4), Fraction(1, 4)], "q": [Fraction(1, 8), Fraction(7, 8)], "U": QM.eye(2), "kind": "corpus", "ulabel": "identity", "decs": [10, 3]})
    for i in range(count):
        n = int(rng.integers(2, 7))
        kind = COMM_KINDS[i % len(COMM_KINDS)]
        p, q = gen_spectra(rng, n, kind)
        which = int(rng.integers(4))
        cplx = bool(rng.integers(2))
        if which == 0:
            Uq, ulabel = QM.eye(n), "identity"
        elif which == 1:
            Uq, ulabel = rational_unitary(rng, n, cplx, nrot=0), "permutation"
        else:
            Uq, ulabel = rational_unitary(rng, n, cplx), "rotated"
        if rng.integers(3) == 0 and n >= 3:
            p = list(p)
            p[1] = p[0] = (p[0] + p[1]) / 2     # degenerate eigenvalue of rho
        decs = sorted({int(x) for x in rng.choice(DECS, size=2)}) if i % 2 == 0 else []
        out.append({"n": n, "p": p, "q": q, "U": Uq, "kind": kind, "ulabel": ulabel, "decs": decs})
    return out


def stream_commuting(ctx, prs, tasks=None):
    T = _toqito()
    drv = ctx.lean()
    tasks = tasks if tasks is not None else gen_commuting(ctx.rng, 40 if ctx.tier == "quick" else 400)
    for t in tasks:
        pres = t.get("pres", int(prs.integers(1, 2 ** 31)) if prs is not None else None)
        commuting_case(ctx, drv, T, t["n"], t["p"], t["q"], t["U"], pres, t["decs"], t["kind"], t["ulabel"])


SHAPE_FIRST = ["fidelity", "sub_fidelity", "matsumoto_fidelity", "bures_distance", "bures_angle"]
DENSITY_FIRST = ["trace_distance", "helstrom_holevo", "hilbert_schmidt"]


def guard_arg(rng, n, spec, cplx):
    """(float matrix, model description {'herm','mineig','tr'}, exact?) of an argument built from exact spectral data with margins"""
    Uq = rational_unitary(rng, n, cplx)
    d = rand_spectrum(rng, n, False)
    herm, exact = True, False
    tr_im = Fraction(0)
    add = None
    if spec == "exact":
        exact = True
    elif spec == "neg-big":
        d = [Fraction(5, 4), Fraction(-1, 4)] + [Fraction(0)] * (n - 2)
    elif spec in ("neg-margin", "neg-tol"):
        e = Fraction(-1, 50000000) if spec == "neg-margin" else Fraction(-1, 200000000)     # -2e-8 rejected, -5e-9 accepted (atol 1e-8)
        d = [e] + [x * (1 - e) / sum(d[1:]) for x in d[1:]]
    elif spec == "trace-big":
        d = [x * Fraction(3, 2) for x in d]
    elif spec in ("trace-margin+", "trace-margin-", "trace-tol"):
        f = {"trace-margin+": 1 + Fraction(2, 100000), "trace-margin-": 1 - Fraction(2, 100000), "trace-tol": 1 + Fraction(5, 1000000)}[spec]
        d = [x * f for x in d]
    elif spec == "nonherm-big":
        herm, add = False, np.triu(np.ones((n, n)), 1) * 0.25
    elif spec == "nonherm-tol":
        add = np.zeros((n, n))
        add[0, 1] = 1e-10
    elif spec == "imag-diagonal-tol":
        add = np.zeros((n, n), dtype=complex)
        add[0, 0] = 2e-9j
        tr_im = Fraction(2, 10 ** 9)
    elif spec == "nonsquare":
        herm = False
    M = spectral_matrix(Uq, d).to_float()
    if add is not None:
        M = M + add
    if spec == "nonsquare":
        M = np.hstack([np.real(M) if not np.iscomplexobj(M) else M, np.zeros((n, 1))])
    return M, {"herm": herm, "mineig": rat_json(min(d)), "tr": [rat_json(sum(d)), rat_json(tr_im)]}, exact


GUARD_SPECS = ["exact", "neg-big", "neg-margin", "neg-tol", "trace-big", "trace-margin+", "trace-margin-", "trace-tol", "nonherm-big", "nonherm-tol", "imag-diagonal-tol", "nonsquare"]


def _category(st, v):
    if st == "ok":
        return "value" if _finite(v) else "nonfinite"
    if v.startswith("ValueError"):
        if "InvalidDim" in v or "broadcast" in v:
            return "invalidDim"
        if "only defined for density" in v:
            return "notDensity"
        return "ValueError-other"
    return "raises-other"


def stream_guards(ctx, prs=None):
    """the is_density / shape guards of the eight two-argument measures against the decision-logic model (guards_value_iff, densityGuard_spec):
    a verdict 'rejected' must be a ValueError; exact density operators of equal shape must give a value"""
    import inspect
    T = _toqito()
    drv = ctx.lean()
    rng = ctx.rng
    rounds = 2 if ctx.tier == "quick" else 12
    for rd in range(rounds):
        for spec in GUARD_SPECS:
            n = int(rng.integers(2, 5))
            cplx = bool(rng.integers(2))
            mism = rd % 2 == 1 and spec in ("exact", "neg-big", "trace-big", "trace-tol")
            A, dA, exA = guard_arg(rng, n, spec, cplx)
            B, dB, exB = guard_arg(rng, n + 1 if mism else n, "exact", cplx)
            if spec == "nonsquare":
                B = np.hstack([B, np.zeros((n, 1))])     # same (non-square) shape: the shape check passes, is_density must fail
                dB = dict(dB, herm=False)
            for order in (0, 1):
                args, da, db = ((A, B), dA, dB) if order == 0 else ((B, A), dB, dA)
                same = args[0].shape == args[1].shape
                for fam, fns in (("shape", SHAPE_FIRST), ("density", DENSITY_FIRST)):
                    m = drv.ask("c13_guard", {"family": fam, "same": bool(same), "a": da, "b": db})
                    out = m["outcome"]
                    for fn in fns:
                        if fn == "matsumoto_fidelity" and out == "value" and not (exA and exB):
                            continue   # Matsumoto is only specified for full-rank states
                        # the two states by position, both by keyword, or the second by keyword (same verdict in every form)
                        pn = list(inspect.signature(T[fn]).parameters)[:2]
                        cform = ("positional", "keyword", "mixed")[(rd + order + len(fn)) % 3]
                        if cform == "positional":
                            st, v = _call(T[fn], *args)
                        elif cform == "keyword":
                            st, v = _call(T[fn], **{pn[0]: args[0], pn[1]: args[1]})
                        else:
                            st, v = _call(T[fn], args[0], **{pn[1]: args[1]})
                        cat = _category(st, v)
                        desc = {"fn": fn, "stream": "guards", "spec": spec, "position": order, "n": n, "cplx": cplx, "mismatch": bool(mism), "A": A, "B": B, "call_form": cform}
                        ctx.case(desc, True, f"guard/{fn}/{spec}{'/shape-mismatch' if mism else ''}/{out}/{cform}")
                        if out != "value":
                            if not (st == "raise" and v.startswith("ValueError")):
                                ctx.violation(f"{fn} accepts a non-density argument or a pair of different shapes ({spec}, position {order}{', shapes differ' if mism else ''}): returned {v!r}; the guard model says {out}",
                                              {"function": fn, "args": desc, "impl": repr(v), "model": out, "theorem": "guards_value_iff / densityGuard_spec"})
                            elif cat != out:
                                ctx.count(f"guard-category-differs/{fn}/{out}->{cat}")
                        elif exA and exB:
                            if cat != "value":
                                ctx.violation(f"{fn} rejects a valid pair of density operators: {v!r}", {"function": fn, "args": desc, "impl": repr(v), "model": out, "theorem": "guards_value_iff / densityGuard_spec"})
                        elif cat in ("invalidDim", "notDensity"):
                            ctx.violation(f"{fn} rejects an argument that is a density operator within the documented tolerances of is_density ({spec}): {v!r}",
                                          {"function": fn, "args": desc, "impl": repr(v), "model": out, "theorem": "densityGuard_spec"})
                        elif cat != "value":
                            ctx.count(f"guard/tolerated-input/{fn}/{cat}")
            # the SAME array object as both arguments (f(M, M)): the verdict is the one of f(M, M.copy()) -- a shortcut for identical objects must not
            # come before the validation.  No random draws are consumed here.
            for fam, fns in (("shape", SHAPE_FIRST), ("density", DENSITY_FIRST)):
                out = drv.ask("c13_guard", {"family": fam, "same": True, "a": dA, "b": dA})["outcome"]
                for fn in fns:
                    if fn == "matsumoto_fidelity" and out == "value" and not exA:
                        continue
                    pn = list(inspect.signature(T[fn]).parameters)[:2]
                    for cform in ("positional", "keyword"):
                        if cform == "positional":
                            st, v = _call(T[fn], A, A)
                            st2, v2 = _call(T[fn], A, A.copy())
                        else:
                            st, v = _call(T[fn], **{pn[0]: A, pn[1]: A})
                            st2, v2 = _call(T[fn], **{pn[0]: A, pn[1]: A.copy()})
                        cat, cat2 = _category(st, v), _category(st2, v2)
                        desc = {"fn": fn, "stream": "guards", "spec": spec, "position": "same-object", "n": n, "cplx": cplx, "mismatch": False, "A": A, "B": "the same object as A", "call_form": cform}
                        ctx.case(desc, True, f"guard/{fn}/{spec}/same-object/{out}/{cform}")
                        info = {"function": fn, "args": desc, "impl": repr(v), "impl_on_copy": repr(v2), "model": out, "theorem": "guards_value_iff / densityGuard_spec"}
                        if out != "value":
                            if not (st == "raise" and v.startswith("ValueError")):
                                ctx.violation(f"{fn}(M, M) with the same non-density array object as both arguments ({spec}) returned {v!r}; the guard model says {out} (and {fn}(M, M.copy()) gives {v2!r})", info)
                        elif exA:
                            if cat != "value":
                                ctx.violation(f"{fn}(M, M) rejects a valid density operator passed as both arguments: {v!r}", info)
                        elif cat != cat2:
                            ctx.violation(f"{fn}(M, M) with the same array object ({spec}) gives {v!r} but {fn}(M, M.copy()) gives {v2!r}: the verdict depends on object identity", info)


# ------------------------------------------------------------------------------------------------
# strict-fp stream: the value of a measure is a function of its arguments, not of NumPy's global floating-point error state


STRICT_KINDS = ["pure", "pure-mixed", "identical", "orthogonal", "commuting", "random", "pure", "near", "nearly-pure", "fullrank"]
STRICT_THM = ("the measures are functions of (rho, sigma) alone (Toq.C13: every defining-formula theorem, e.g. fidelity_pure_overlap, speaks of the value at the arguments); "
              "the default-state value of the same call is the one the pair stream certifies")


def strict_fp_pair(ctx_like, T, kind, a: State, b: State, as_complex):
    """every measure on the pair, once in the default state and once under harness.exact.StrictFP (invalid / divide / overflow raise, the corresponding
    RuntimeWarnings are errors): the same float must come back.  A sqrt / log / division evaluated on a rounding residue of a rank-deficient state and
    masked afterwards is invisible in the default state and raises here."""
    af, bf = _float_in(a, as_complex), _float_in(b, as_complex)
    lam = min(float(np.linalg.eigvalsh(a.rho.to_complex()).min()), float(np.linalg.eigvalsh(b.rho.to_complex()).min()))
    full = lam >= 1e-3
    base = {"stream": "strict-fp", "kind": kind, "n": a.n, "as_complex": bool(as_complex), "a": _skey(a), "b": _skey(b)}
    for fn in FUNCS:
        if fn == "matsumoto_fidelity" and not full:
            continue   # only specified for full-rank states
        args = [af - bf] if fn == "trace_norm" else [af.copy(), bf.copy()]
        if fn != "trace_norm" and a is b and kind == "identical":
            args[1] = args[0] if a.n % 2 else args[1]   # identical states: also as the same object
        st0, v0 = _call(T[fn], *args)
        with contextlib.redirect_stdout(io.StringIO()):
            st1, v1 = strict_fp_call(T[fn], *args)
        ctx_like.case(dict(base, fn=fn), True, f"strict-fp/{fn}/{kind}/{'full-rank' if full else 'rank-deficient'}")
        if st0 != "ok" or not _finite(v0):
            continue   # judged by the pair stream
        info = {"function": fn, "args": dict(base, fn=fn), "impl_default_state": repr(v0), "impl_strict_state": repr(v1), "theorem": STRICT_THM}
        if st1 != "ok":
            ctx_like.violation(f"{fn}: value depends on NumPy's floating-point error state: {v0!r} in the default state, {v1} under np.seterr(invalid/divide/over='raise') "
                               f"({kind} pair, dim {a.n}, ranks {a.rank()}/{b.rank()})", info)
        elif not (v1 == v0 or (_finite(v1) and abs(float(np.real(v1)) - float(np.real(v0))) <= 1e-12)):
            ctx_like.violation(f"{fn}: value depends on NumPy's floating-point error state: {v0!r} in the default state, {v1!r} under np.seterr(invalid/divide/over='raise') "
                               f"({kind} pair, dim {a.n})", info)


def stream_strict_fp(ctx):
    T = _toqito()
    rng = ctx.rng
    for name, a, b in corpus_pairs():
        strict_fp_pair(ctx, T, name, a, b, False)
    for i in range(40 if ctx.tier == "quick" else 400):
        kind = STRICT_KINDS[i % len(STRICT_KINDS)]
        n = int(rng.integers(2, 7))
        cplx = bool(rng.integers(2))
        a, b = gen_pair(rng, kind, n, cplx)
        strict_fp_pair(ctx, T, kind, a, b, bool(rng.integers(4) == 0))


def _is_hs_spectral(info):
    return (info.get("function") == "hilbert_schmidt" and "impl" in info and "lam_max_sq" in info and "exact" in info
            and isinstance(info["impl"], float) and abs(info["impl"] - info["lam_max_sq"]) <= 1e-9 and abs(info["exact"] - info["impl"]) > 1e-9)


def corpus_pairs():
    """past failures / corner cases first"""
    def st(vecs, w=None):
        G = QM.from_complex_int(np.array(vecs, dtype=complex).T)
        return state_from_vectors(G, w or [1] * len(vecs))
    out = []
    out.append(("corpus-trace-distance-abs", st([[1, 0]]), st([[1, 1]])))                       # |0><0| vs |+><+|: elementwise abs gave 0.5
    out.append(("corpus-bell0-bell3", st([[1, 0, 0, 1]]), st([[0, 1, -1, 0]])))                 # hilbert_schmidt: 1 vs 2
    out.append(("corpus-sqrtm-raise", st([[1, 1, 1, 1]]), st([[1, 1, 1, 1]])))                  # fidelity raised (sqrtm on singular)
    out.append(("corpus-sqrtm-inaccurate", st([[1, 2, 2]]), st([[1, 2, 2]])))                   # fidelity 1.0000544
    out.append(("corpus-sqrtm-nan", st([[1, 1, 2, 1]]), st([[1, 1, 2, 1]])))                    # fidelity nan
    out.append(("corpus-complex", st([[1, 1j]]), st([[1, 1], [1, -1j]], [3, 1])))               # missing conjugate shows
    out.append(("corpus-subfid-doc", st([[1, 0], [0, 1]], [3, 1]), st([[1, 0], [0, 1]], [1, 7])))  # docstring example of sub_fidelity
    return out


KINDS = ["random", "random", "fullrank", "fullrank", "pure", "pure-mixed", "commuting", "orthogonal", "near", "identical", "nearly-pure"]


def gen_tasks(rng, n_pairs, prs=None):
    tasks = []
    for name, a, b in corpus_pairs():
        tasks.append({"kind": name, "a": a, "b": b, "cplx": not (a.is_real() and b.is_real()), "as_complex": False, "Q": None})
    for i in range(n_pairs):
        kind = KINDS[i % len(KINDS)]
        n = int(rng.integers(2, 7))
        cplx = bool(rng.integers(2))
        a, b = gen_pair(rng, kind, n, cplx)
        t = {"kind": kind, "a": a, "b": b, "cplx": cplx, "as_complex": bool(rng.integers(4) == 0), "Q": None}
        if rng.integers(3) == 0:
            Qm, c, _ = cayley_int(rng, n, cplx)
            t["Q"], t["c"] = Qm, c
        if prs is not None and cplx and kind in ("random", "fullrank", "pure", "pure-mixed") and int(prs.integers(3)) == 0:
            # mixed pair: one state real (handed over with a real dtype), the other genuinely complex; the symmetry check gives the other order
            w = "a" if int(prs.integers(2)) else "b"
            t[w] = rand_state(prs, n, len(t[w].D), False)
            t["as_complex"] = False
            t["mixed"] = w
        tasks.append(t)
    if prs is not None:
        for t in tasks:
            t["pres"] = int(prs.integers(1, 2 ** 31))
        for i, t in enumerate(tasks):
            if i % 3 == 0:
                t["decs"] = sorted({int(x) for x in prs.choice(DECS, size=2)})
            if i % 7 == 3 and t["a"].n <= 4:
                t["cvx"] = "a" if int(prs.integers(2)) else "b"
    return tasks


FOS_SHAPES = [([2, 2], 1), ([2, 2], 2), ([2, 3], 1), ([3, 2], 1), ([3, 2], 2), ([2, 3], 2)]


def gen_fos(rng, count):
    out = []
    out.append({"a": [[0, 1, 0], [0, 0, 0]], "b": [[1, 1], [0, 0]], "dims": [3, 2], "k": 1})   # corpus: rejected as entangled (dims not forwarded)
    for i in range(count):
        dims, k = FOS_SHAPES[i % len(FOS_SHAPES)]
        vs = []
        for d in dims:
            while True:
                re, im = rng.integers(-3, 4, size=d), rng.integers(-3, 4, size=d) * int(rng.integers(2))
                if np.any(re) or np.any(im):
                    break
            vs.append([re.tolist(), im.tolist()])
        out.append({"a": vs[0], "b": vs[1], "dims": dims, "k": k})
    return out


def run(ctx, model_ok=True):
    rng = ctx.rng
    quick = ctx.tier == "quick"
    ctx.matchers["c13-hilbert-schmidt-spectral"] = _is_hs_spectral
    prs = rng.spawn(1)[0]   # presentation stream: a child of the seeded generator (spawning does not consume the parent's draws)
    stream_hs_inner(ctx, prs)
    stream_rect_trace_norm(ctx, prs)
    stream_malformed(ctx)
    prs2 = prs.spawn(1)[0]   # the streams added later draw from their own child generators, so the older streams see the same draws as before
    rng2 = rng.spawn(1)[0]
    rng3 = rng.spawn(1)[0]   # streams about the program of fidelity_of_separability (fos_embedding, fos_guards)
    rng4 = rng.spawn(1)[0]   # strict-fp stream
    tasks = gen_tasks(rng, 150 if quick else 1500, prs)
    extra = {}
    run_pool_collect(ctx, work_pair, tasks, extra)
    triples = []
    for _ in range(40 if quick else 400):
        n = int(rng.integers(2, 7))
        cplx = bool(rng.integers(2))
        sts = [rand_state(rng, n, int(rng.integers(1, n + 1)), cplx) for _ in range(3)]
        if rng.integers(4) == 0:
            sts[1] = mix([sts[0], sts[2]], dyadic_probs(rng, 2))   # b on the segment between a and c: triangle nearly tight
        triples.append({"states": sts, "cplx": cplx, "pres": int(prs.integers(1, 2 ** 31))})
    run_pool(ctx, work_triple, triples)
    fos = gen_fos(rng, 6 if quick else 30)
    for t in fos:
        t["pres"] = int(prs.integers(1, 2 ** 31))
    run_pool(ctx, work_fos, fos)
    emb = gen_fos_embed(rng3, quick)
    for t in emb:
        t["pres"] = int(rng3.integers(1, 2 ** 31))
    run_pool(ctx, work_fos_embed, emb)
    ctx.rng, keep = rng3, ctx.rng
    try:
        stream_fos_guards(ctx)
    finally:
        ctx.rng = keep
    ctx.rng, keep = rng4, ctx.rng
    try:
        stream_strict_fp(ctx)
    finally:
        ctx.rng = keep
    ctx.rng, keep = rng2, ctx.rng
    try:
        stream_commuting(ctx, prs2)
        stream_guards(ctx, prs2)
    finally:
        ctx.rng = keep
    ctx.extra["tolerances"] = {"trace_norm": TAU_T, "fidelity": TAU_F, "matsumoto": TAU_M, "relations": SLACK, "fidelity_of_separability": 1e-4, "cvxpy_branch": TAU_CVX, "bures_decimals": 1e-12}
    ctx.extra["max_fidelity_excess_outside_enclosure_within_tolerance"] = extra.get("fid_err", 0.0)
    ctx.extra["certified_interval_width_bound"] = WIDTH_OK


def run_pool_collect(ctx, func, tasks, extra):
    """run_pool, additionally folding Result.extra['fid_err'] (max) into `extra`"""
    import multiprocessing as mp
    import os
    from ..pool import _run
    procs = min(16, os.cpu_count() or 4)
    with mp.get_context("fork").Pool(procs) as pool:
        for res in pool.imap(_run, [(func, t) for t in tasks], chunksize=1):
            if "fid_err" in res.extra:
                extra["fid_err"] = max(extra.get("fid_err", 0.0), res.extra.pop("fid_err"))
            fold(ctx, res)


def replay(ctx, rec):
    ctx.matchers["c13-hilbert-schmidt-spectral"] = _is_hs_spectral
    a = rec.get("args", {})
    res = Result()
    if a.get("stream") == "strict-fp":
        sa = state_from_key(a["a"])
        sb = sa if a["b"] == a["a"] else state_from_key(a["b"])
        strict_fp_pair(res, _toqito(), a.get("kind", "random"), sa, sb, a.get("as_complex", False))
    elif "a" in a and "b" in a and isinstance(a["a"], dict):
        t = {"kind": a.get("kind", "random"), "a": state_from_key(a["a"]), "b": state_from_key(a["b"]), "cplx": a.get("cplx", True), "as_complex": a.get("as_complex", False), "Q": None, "pres": a.get("pres")}
        if rec.get("check") == "decimals":
            t["decs"] = [int(rec["decimals"])] if "decimals" in rec else list(DECS)
        if str(rec.get("form", "")).startswith("cvxpy") or str(a.get("form", "")).startswith("cvxpy"):
            t["cvx"] = str(a.get("form", "cvxpy-expression:a"))[-1]
        u = rec.get("unitary")
        if u:
            sh = (t["a"].n, t["a"].n)
            t["Q"] = QM(np.array([Fraction(x) for x in u["Q"][0]], dtype=object).reshape(sh), np.array([Fraction(x) for x in u["Q"][1]], dtype=object).reshape(sh))
            t["c"] = Fraction(u["c"])
        work_pair(t, res)
    elif "states" in a:
        work_triple({"states": [state_from_key(k) for k in a["states"]], "cplx": a.get("cplx", True), "pres": a.get("pres")}, res)
    elif a.get("stream") == "commuting":
        nn = int(a["n"])
        Uq = QM(np.array([Fraction(x) for x in a["U"][0]], dtype=object).reshape(nn, nn), np.array([Fraction(x) for x in a["U"][1]], dtype=object).reshape(nn, nn))
        decs = [int(rec["decimals"])] if "decimals" in rec else list(DECS)
        commuting_case(res, ctx.lean(), _toqito(), nn, [Fraction(x) for x in a["p"]], [Fraction(x) for x in a["q"]], Uq, a.get("pres"), decs, a.get("kind", "generic"), a.get("ulabel", "rotated"))
    elif a.get("stream") == "guards":
        ctx.note("replay: record of the guard stream; re-running it")
        stream_guards(ctx)
        return
    elif a.get("fn") == "fos_embedding":
        work_fos_embed({"a": a["a"], "b": a["b"], "dims": a["dims"], "k": a["k"], "seed": a["seed"], "pres": a.get("pres")}, res)
    elif a.get("stream") == "fos_guards":
        ctx.note("replay: record of the fos_guards stream; re-running it")
        stream_fos_guards(ctx)
        return
    elif a.get("fn") == "fidelity_of_separability" and "dims" in a:
        work_fos({"a": a["a"], "b": a["b"], "dims": a["dims"], "k": a["k"], "pres": a.get("pres")}, res)
    else:
        ctx.note("replay: record of a serial stream (malformed / exact bilinear); re-running the streams")
        stream_hs_inner(ctx)
        stream_rect_trace_norm(ctx)
        stream_malformed(ctx)
        return
    res.extra.pop("fid_err", None)
    fold(ctx, res)
