"""C13: state distance / fidelity measures of toqito against certified enclosures and exact values.

Every state is generated as exact rational data rho = G diag(D) G^H (G Gaussian-integer n x r, D positive rationals,
trace exactly 1); toqito receives the correctly rounded float image.  Per pair the verified Lean checkers
(lean/Toq/Properties/C13.lean) certify
  * an interval [lo, hi] for the trace norm of the exact dyadic image of (rho_float - sigma_float)
    (checkTNLower_sound / checkTNUpper_sound: contraction W, decomposition H = P - Q),
  * an interval for the fidelity-program value of the exact rational pair (checkFidPrimalCong_sound with
    X = G_rho K G_sigma^H, checkFidDual_sound with Y = A A^H, Z = (A A^H)^-1 given by the exact inverse),
  * for full-rank pairs an interval for the Matsumoto program (checkMatsPrimal_sound / checkMatsDual_sound),
  * the exact values tr((rho-sigma)^2), tr(rho sigma), tr(rho sigma rho sigma), tr(A^H B) (hsDist_eq, trProd_eq, subFidRad_eq, hsInner_eq).
toqito's outputs must lie in the enclosures (tolerances in ASSUMPTIONS); symmetry, unitary invariance, extreme values,
pure-state formulas, the inequalities between the measures and the triangle inequality are evaluated on toqito's outputs."""
from __future__ import annotations

import contextlib
import io
import math
import warnings
from fractions import Fraction

import numpy as np

from ..cert import DM, chol_factor
from ..pool import Result, fold, run_pool, worker_driver

RULE = ("pairs (and triples) of density operators rho = G diag(D) G^H from exact rational data (Gaussian-integer G, dimension 2..6, every rank 1..n, "
        "real and complex; kinds: random, pure-pure, pure-mixed, commuting (common rational-unitary eigenbasis), orthogonal supports, nearly equal "
        "(sigma = (1-2^-m) rho + 2^-m tau), identical) handed to toqito as correctly rounded floats; each pair x each function "
        "(trace_distance, trace_norm, helstrom_holevo, fidelity, bures_distance, bures_angle, sub_fidelity, matsumoto_fidelity, hilbert_schmidt) is one case, "
        "plus hilbert_schmidt_inner_product / trace_norm on rectangular Gaussian-integer matrices, malformed inputs, and fidelity_of_separability on rational pure product states; "
        "non-trivial = the certified trace distance and fidelity are both >= 1e-2 away from 0 and 1 (the pair is neither identical nor orthogonal) and the pair does not commute; "
        "distinct = hash of the exact data and the function")
ASSUMPTIONS = [
    "cited, not proved: the optimum of Watrous' semidefinite program equals the root fidelity ||sqrt(rho) sqrt(sigma)||_1 = tr sqrt(sqrt(rho) sigma sqrt(rho)) that toqito documents; "
    "the max/min forms of the trace norm are attained and equal the sum of singular values; the Hermitian-restricted program equals tr(rho # sigma) for invertible states; "
    "Fuchs-van de Graaf, sub-fidelity <= F^2; Bures distance/angle are the documented monotone functions sqrt(2(1-F)), arccos(sqrt(F)) of toqito's (root) fidelity F",
    "the fidelity enclosure is certified for the exact rational pair; toqito computes with its float rounding (entries moved by <= 2^-53 relative), which moves the fidelity by less than the tolerance",
    "tolerances: 1e-8 for trace_norm / trace_distance / helstrom_holevo (LAPACK svd), 1e-9*scale for hilbert_schmidt / sub_fidelity (direct float algebra; sub_fidelity through its squared defining relation), "
    "fidelity 1e-8 when both states have smallest eigenvalue >= 1e-3, otherwise 5e-7 (square roots of numerically zero eigenvalues of size 1e-16 are 1e-8 each); "
    "matsumoto_fidelity 1e-7; Bures quantities: the documented function applied to the fidelity enclosure widened by that tolerance and clipped to [0, 1]; relations between outputs: 1e-7",
    "fidelity_of_separability is solved by picos/cvxopt: 1e-4",
]

ETA_BITS = 30      # contractions are shrunk by 1 - 2^-30
DELTA_BITS = 32    # positive parts are shifted by 2^-32
WIDTH_OK = 1e-4

# ------------------------------------------------------------------------------------------------
# exact matrices over Q[i]


def _fr(x):
    return x if isinstance(x, Fraction) else Fraction(int(x)) if isinstance(x, (int, np.integer)) else Fraction(x)


def _obj(a):
    a = np.asarray(a, dtype=object)
    out = np.empty(a.shape, dtype=object)
    for idx in np.ndindex(a.shape):
        out[idx] = _fr(a[idx])
    return out


class QM:
    """exact matrix over Q[i]: object arrays of Fractions"""

    def __init__(self, re, im=None):
        self.re = _obj(re)
        self.im = _obj(im) if im is not None else _obj(np.zeros(self.re.shape, dtype=int))

    @property
    def shape(self):
        return self.re.shape

    @staticmethod
    def eye(n):
        return QM(np.eye(n, dtype=int))

    @staticmethod
    def zeros(n, m):
        return QM(np.zeros((n, m), dtype=int))

    @staticmethod
    def from_dm(d: DM):
        s = 1 << d.e
        f = np.vectorize(lambda x: Fraction(int(x), s), otypes=[object])
        return QM(f(d.re), f(d.im))

    @staticmethod
    def from_complex_int(a):
        a = np.asarray(a)
        return QM(np.vectorize(lambda x: int(round(x.real)), otypes=[object])(a.astype(complex)), np.vectorize(lambda x: int(round(x.imag)), otypes=[object])(a.astype(complex)))

    @staticmethod
    def diag(d):
        n = len(d)
        re = np.zeros((n, n), dtype=object)
        re[...] = Fraction(0)
        for i, x in enumerate(d):
            re[i, i] = _fr(x)
        return QM(re)

    def __add__(self, o):
        return QM(self.re + o.re, self.im + o.im)

    def __sub__(self, o):
        return QM(self.re - o.re, self.im - o.im)

    def __neg__(self):
        return QM(-self.re, -self.im)

    def __matmul__(self, o):
        return QM(self.re.dot(o.re) - self.im.dot(o.im), self.re.dot(o.im) + self.im.dot(o.re))

    def scale(self, q):
        q = _fr(q)
        return QM(self.re * q, self.im * q)

    def H(self):
        return QM(self.re.T.copy(), -self.im.T.copy())

    def trace(self):
        n = self.shape[0]
        return sum((self.re[i, i] for i in range(n)), Fraction(0)), sum((self.im[i, i] for i in range(n)), Fraction(0))

    def is_real(self):
        return all(x == 0 for x in self.im.reshape(-1))

    def to_float(self):
        re = np.array([float(x) for x in self.re.reshape(-1)]).reshape(self.shape)
        if self.is_real():
            return re
        im = np.array([float(x) for x in self.im.reshape(-1)]).reshape(self.shape)
        return re + 1j * im

    def to_complex(self):
        return np.asarray(self.to_float(), dtype=complex)

    def json(self):
        den = 1
        for x in list(self.re.reshape(-1)) + list(self.im.reshape(-1)):
            den = den * x.denominator // math.gcd(den, x.denominator)
        return {"den": den, "re": [int(x * den) for x in self.re.reshape(-1)], "im": [int(x * den) for x in self.im.reshape(-1)]}

    def key(self):
        return [[str(x) for x in self.re.reshape(-1)], [str(x) for x in self.im.reshape(-1)]]

    @staticmethod
    def block(a, b, c, d):
        return QM(np.block([[a.re, b.re], [c.re, d.re]]), np.block([[a.im, b.im], [c.im, d.im]]))

    def inverse(self):
        """exact inverse through the real 2n x 2n representation (Gauss-Jordan over Q)"""
        n = self.shape[0]
        M = np.block([[self.re, -self.im], [self.im, self.re]])
        N = 2 * n
        A = [[M[i, j] for j in range(N)] + [Fraction(int(i == j)) for j in range(N)] for i in range(N)]
        for c in range(N):
            p = next((r for r in range(c, N) if A[r][c] != 0), None)
            if p is None:
                raise ZeroDivisionError("singular")
            A[c], A[p] = A[p], A[c]
            inv = 1 / A[c][c]
            A[c] = [x * inv for x in A[c]]
            for r in range(N):
                if r != c and A[r][c] != 0:
                    f = A[r][c]
                    A[r] = [x - f * y for x, y in zip(A[r], A[c])]
        R = np.array([[A[i][N + j] for j in range(N)] for i in range(N)], dtype=object)
        return QM(R[:n, :n], R[n:, :n])


def frac(r):
    return r[0] / r[1] if isinstance(r, (list, tuple)) else float(r)


def fraction(r):
    return Fraction(int(r[0]), int(r[1]))


# ------------------------------------------------------------------------------------------------
# exact states


class State:
    """rho = G diag(D) G^H exactly; G Gaussian integers (n x r), D positive Fractions, trace 1"""

    def __init__(self, G: QM, D):
        self.G = G
        self.D = [Fraction(x) for x in D]
        self.n, self.r = G.shape
        self.rho = G @ QM.diag(self.D) @ G.H()
        t = self.rho.trace()
        assert t == (1, 0), t

    def float(self):
        return self.rho.to_float()

    def is_real(self):
        return self.G.is_real()

    def key(self):
        return {"G": self.G.key(), "D": [str(x) for x in self.D]}

    def rank(self):
        return int(np.linalg.matrix_rank(self.G.to_complex(), tol=1e-9))


def _col_norm2(G: QM, j):
    return sum((G.re[i, j] ** 2 + G.im[i, j] ** 2 for i in range(G.shape[0])), Fraction(0))


def state_from_vectors(G: QM, weights):
    """rho = sum_j w_j |g_j><g_j| / (W ||g_j||^2)"""
    W = sum(weights)
    D = [Fraction(int(w), int(W)) / _col_norm2(G, j) for j, w in enumerate(weights)]
    return State(G, D)


def rand_G(rng, n, r, cplx, lim=5):
    while True:
        re = rng.integers(-lim, lim + 1, size=(n, r))
        im = rng.integers(-lim, lim + 1, size=(n, r)) if cplx else np.zeros((n, r), dtype=int)
        ok = all(np.any(re[:, j] != 0) or np.any(im[:, j] != 0) for j in range(r))
        if ok and np.linalg.matrix_rank(re + 1j * im) == min(n, r):
            return QM(re, im)


def rand_state(rng, n, r, cplx):
    G = rand_G(rng, n, r, cplx)
    w = [int(x) for x in rng.integers(1, 6, size=r)]
    return state_from_vectors(G, w)


def cayley_int(rng, n, cplx, lim=2):
    """integer matrix Q with mutually orthogonal columns of equal norm^2 = c (Q/sqrt(c) is a rational unitary): returns (Q as QM, c)"""
    while True:
        A = rng.integers(-lim, lim + 1, size=(n, n)).astype(object)
        B = rng.integers(-lim, lim + 1, size=(n, n)).astype(object) if cplx else np.zeros((n, n), dtype=object)
        S = QM(A - A.T, B + B.T).scale(Fraction(1, 2))  # skew-Hermitian
        I = QM.eye(n)
        try:
            U = (I - S) @ (I + S).inverse()
        except ZeroDivisionError:
            continue
        den = 1
        for x in list(U.re.reshape(-1)) + list(U.im.reshape(-1)):
            den = den * x.denominator // math.gcd(den, x.denominator)
        if den > 400:
            continue
        return U.scale(den), den * den, U


def mix(states, probs):
    """sum_i p_i rho_i as a State (columns concatenated)"""
    G = QM(np.concatenate([s.G.re for s in states], axis=1), np.concatenate([s.G.im for s in states], axis=1))
    D = [Fraction(p) * d for s, p in zip(states, probs) for d in s.D]
    return State(G, D)


def dyadic_probs(rng, k, bits=5):
    tot = 1 << bits
    while True:
        cuts = sorted(rng.integers(1, tot, size=k - 1).tolist())
        parts = [b - a for a, b in zip([0] + cuts, cuts + [tot])]
        if all(p > 0 for p in parts):
            return [Fraction(p, tot) for p in parts]


def gen_pair(rng, kind, n, cplx):
    """returns (rho, sigma, info)"""
    if kind == "random":
        r1, r2 = int(rng.integers(1, n + 1)), int(rng.integers(1, n + 1))
        return rand_state(rng, n, r1, cplx), rand_state(rng, n, r2, cplx)
    if kind == "fullrank":
        return rand_state(rng, n, n + int(rng.integers(0, 2)), cplx), rand_state(rng, n, n + int(rng.integers(0, 2)), cplx)
    if kind == "pure":
        return rand_state(rng, n, 1, cplx), rand_state(rng, n, 1, cplx)
    if kind == "pure-mixed":
        a, b = rand_state(rng, n, 1, cplx), rand_state(rng, n, int(rng.integers(2, n + 1)), cplx)
        return (a, b) if rng.integers(2) else (b, a)
    if kind in ("commuting", "orthogonal"):
        Q, c, _ = cayley_int(rng, n, cplx)
        if kind == "commuting":
            k1, k2 = int(rng.integers(1, n + 1)), int(rng.integers(1, n + 1))
            s1 = sorted(rng.choice(n, size=k1, replace=False).tolist())
            s2 = sorted(rng.choice(n, size=k2, replace=False).tolist())
        else:
            cut = int(rng.integers(1, n))
            perm = rng.permutation(n).tolist()
            s1, s2 = sorted(perm[:cut]), sorted(perm[cut:])
            if rng.integers(2) and len(s1) > 1:
                s1 = s1[: int(rng.integers(1, len(s1) + 1))]

        def sub(sel):
            G = QM(Q.re[:, sel], Q.im[:, sel])
            p = dyadic_probs(rng, len(sel)) if len(sel) > 1 else [Fraction(1)]
            return State(G, [x / c for x in p])
        return sub(s1), sub(s2)
    if kind == "near":
        rho = rand_state(rng, n, int(rng.integers(1, n + 1)), cplx)
        tau = rand_state(rng, n, int(rng.integers(1, n + 1)), cplx)
        m = int(rng.choice([6, 12, 20]))
        eps = Fraction(1, 1 << m)
        return rho, mix([rho, tau], [1 - eps, eps])
    if kind == "identical":
        rho = rand_state(rng, n, int(rng.integers(1, n + 1)), cplx)
        return rho, rho
    raise ValueError(kind)


# ------------------------------------------------------------------------------------------------
# certificates (untrusted construction; the Lean checkers judge)


def _val(r):
    return r["ok"][0] / r["ok"][1] if "ok" in r else None


def _valq(r):
    return Fraction(int(r["ok"][0]), int(r["ok"][1])) if "ok" in r else None


def certify_trace_norm(drv, H: DM):
    """H exact Hermitian dyadic -> (lo, hi, why) enclosing ||H||_1"""
    n = H.re.shape[0]
    Hf = H.to_float()
    w, V = np.linalg.eigh((Hf + Hf.conj().T) / 2)
    why = []
    lo = hi = None
    eta = 2.0 ** -ETA_BITS
    sg = np.where(w >= 0, 1.0, -1.0)
    Wf = (V * sg) @ V.conj().T * (1 - eta)
    W = DM.from_float(Wf, 52).herm_part()
    I = DM.eye(n)
    L1 = chol_factor((I - W).to_float(), bits=56, delta=eta / 4)
    L2 = chol_factor((I + W).to_float(), bits=56, delta=eta / 4)
    if L1 is None or L2 is None:
        why.append("lower:cholesky")
    else:
        r = drv.ask("c13_tn_lower", {"n": n, "H": H.json(), "W": W.json(), "L1": L1.json(), "L2": L2.json()})
        lo = _val(r)
        if lo is None:
            why.append("lower:" + r["reject"])
    delta = 2.0 ** -DELTA_BITS
    Pf = (V * np.clip(w, 0, None)) @ V.conj().T + delta * np.eye(n)
    P = DM.from_float(Pf, 60).herm_part()
    Q = P - H
    LP = chol_factor(P.to_float(), bits=60, delta=delta / 2)
    LQ = chol_factor(Q.to_float(), bits=60, delta=delta / 2)
    if LP is None or LQ is None:
        why.append("upper:cholesky")
    else:
        r = drv.ask("c13_tn_upper", {"n": n, "H": H.json(), "P": P.json(), "Q": Q.json(), "LP": LP.json(), "LQ": LQ.json()})
        hi = _val(r)
        if hi is None:
            why.append("upper:" + r["reject"])
    return lo, hi, why


def _scaled_chol(M: QM, scale, margin, bits=100):
    """dyadic L with M - L L^H (hopefully) diagonally dominant, for M = S M' S with S = diag(scale) and M' having eigenvalues >= margin"""
    Mf = M.to_complex()
    s = np.asarray(scale, dtype=float)
    Mp = Mf / np.outer(s, s)
    k = Mp.shape[0]
    try:
        Lp = np.linalg.cholesky((Mp + Mp.conj().T) / 2 - (margin / 2) * np.eye(k))
    except np.linalg.LinAlgError:
        return None
    return DM.from_float(Lp * s[:, None], bits)


def certify_fid_primal(drv, a: State, b: State):
    """lower bound of the fidelity program by X = G_a K G_b^H, [[rho, X],[X^H, sigma]] = B M B^H, M = [[D_a, K],[K^H, D_b]]"""
    n = a.n
    sa = np.sqrt(np.array([float(x) for x in a.D]))
    sb = np.sqrt(np.array([float(x) for x in b.D]))
    R = a.G.to_complex() * sa[None, :]
    S = b.G.to_complex() * sb[None, :]
    U, sv, Vh = np.linalg.svd(R.conj().T @ S, full_matrices=False)
    eta = 2.0 ** -ETA_BITS
    Kp = (U @ Vh) * (1 - eta)
    Kf = Kp * np.outer(sa, sb)
    K = QM.from_dm(DM.from_float(Kf, 100))
    Da, Db = QM.diag(a.D), QM.diag(b.D)
    M = QM.block(Da, K, K.H(), Db)
    B = QM.block(a.G, QM.zeros(n, b.r), QM.zeros(n, a.r), b.G)
    X = a.G @ K @ b.G.H()
    L = _scaled_chol(M, np.concatenate([sa, sb]), eta)
    if L is None:
        return None, "primal:cholesky", None
    k = a.r + b.r
    r = drv.ask("c13_fid_primal_cong", {"n": n, "k": k, "rho": a.rho.json(), "sigma": b.rho.json(), "X": X.json(), "B": B.json(), "M": M.json(), "L": L.json()})
    lo = _val(r)
    return lo, (None if lo is not None else "primal:" + r["reject"]), float(np.sum(sv))


def _mp_dual_factor(a: State, b: State, eps_exp):
    """A (n x n, float-free mpmath) with A A^H ~ optimal dual Y of the pair regularised by 10^-eps_exp (0 = none)"""
    import mpmath as mp
    mp.mp.dps = 90
    n = a.n

    def tomp(q: QM):
        return mp.matrix([[mp.mpc(mp.mpf(q.re[i, j].numerator) / q.re[i, j].denominator, mp.mpf(q.im[i, j].numerator) / q.im[i, j].denominator) for j in range(n)] for i in range(n)])
    eps = mp.mpf(10) ** (-eps_exp) if eps_exp else mp.mpf(0)
    I = mp.eye(n)
    ra = tomp(a.rho) + eps * I
    sb = tomp(b.rho) + eps * I
    w, Q = mp.eighe(ra)
    if min(w) <= 0:
        return None
    rs = Q * mp.diag([mp.sqrt(x) for x in w]) * Q.H
    rsi = Q * mp.diag([1 / mp.sqrt(x) for x in w]) * Q.H
    mid = rs * sb * rs
    mid = (mid + mid.H) / 2
    w2, Q2 = mp.eighe(mid)
    if min(w2) <= 0:
        return None
    A = rsi * Q2 * mp.diag([mp.sqrt(mp.sqrt(x)) for x in w2]) * Q2.H
    return A


def certify_fid_dual(drv, a: State, b: State, singular):
    """upper bound by Y = A A^H, Z = B^H B with B = A^-1 exactly; psd witness L = [A; -B^H] (residual exactly 0)"""
    import mpmath as mp
    n = a.n
    best = None
    for eps_exp in ((0,) if not singular else (22,)):
        try:
            A = _mp_dual_factor(a, b, eps_exp)
        except Exception:
            A = None
        if A is None:
            continue
        # round A: absolute precision 2^-bits chosen relative to its smallest singular scale
        amax = max(abs(A[i, j]) for i in range(n) for j in range(n))
        Ainv = A ** -1
        imax = max(abs(Ainv[i, j]) for i in range(n) for j in range(n))
        bits = 36 + max(0, int(mp.ceil(mp.log(imax, 2))))
        s = mp.mpf(2) ** bits
        re = [[int(mp.nint(A[i, j].real * s)) for j in range(n)] for i in range(n)]
        im = [[int(mp.nint(A[i, j].imag * s)) for j in range(n)] for i in range(n)]
        Aq = QM(np.array(re, dtype=object), np.array(im, dtype=object)).scale(Fraction(1, 1 << bits))
        try:
            Bq = Aq.inverse()
        except ZeroDivisionError:
            continue
        Y = Aq @ Aq.H()
        Z = Bq.H() @ Bq
        val = ((Y @ a.rho).trace()[0] + (Z @ b.rho).trace()[0]) / 2
        if best is None or val < best[0]:
            best = (val, Aq, Bq, Y, Z)
    if best is None:
        return None, "dual:no-candidate"
    val, Aq, Bq, Y, Z = best
    L = QM(np.concatenate([Aq.re, -Bq.H().re], axis=0), np.concatenate([Aq.im, -Bq.H().im], axis=0))
    r = drv.ask("c13_fid_dual", {"n": n, "r": n, "rho": a.rho.json(), "sigma": b.rho.json(), "Y": Y.json(), "Z": Z.json(), "L": L.json()})
    hi = _val(r)
    return hi, (None if hi is not None else "dual:" + r["reject"])


def _psd_fun(Mf, f):
    w, V = np.linalg.eigh((Mf + Mf.conj().T) / 2)
    return (V * f(np.clip(w, 0, None))) @ V.conj().T


def geometric_mean(rf, sf):
    rs = _psd_fun(rf, np.sqrt)
    rsi = np.linalg.inv(rs)
    return rs @ _psd_fun(rsi @ sf @ rsi, np.sqrt) @ rs


def certify_matsumoto(drv, a: State, b: State, lam_min):
    """full-rank pairs: lower bound by W = (1-eta) rho # sigma, upper bound by the dual point Y = T^H Z' T, C = -T^H Z', Z = Z' with
    T = (rho # sigma) rho^-1 and T^H Z' + Z' T = 2"""
    import scipy.linalg
    n = a.n
    rf, sf = a.rho.to_complex(), b.rho.to_complex()
    Gm = geometric_mean(rf, sf)
    eta = 2.0 ** -ETA_BITS
    lo = hi = None
    why = []
    W = DM.from_float(Gm * (1 - eta), 60).herm_part()
    Wq = QM.from_dm(W)
    blk = QM.block(a.rho, Wq, Wq.H(), b.rho)
    L = chol_factor(blk.to_complex(), bits=70, delta=eta * lam_min / 4)
    if L is None:
        why.append("mats-primal:cholesky")
    else:
        r = drv.ask("c13_mats_primal", {"n": n, "rho": a.rho.json(), "sigma": b.rho.json(), "W": W.json(), "L": L.json()})
        lo = _val(r)
        if lo is None:
            why.append("mats-primal:" + r["reject"])
    try:
        T = Gm @ np.linalg.inv(rf)
        Zp = scipy.linalg.solve_continuous_lyapunov(T.conj().T, 2 * np.eye(n))
        Zp = (Zp + Zp.conj().T) / 2
        Yf = T.conj().T @ Zp @ T
        Cf = -T.conj().T @ Zp
        delta = 2.0 ** -DELTA_BITS
        scale = max(1.0, float(np.max(np.abs(Yf))), float(np.max(np.abs(Zp))))
        dl = delta * scale
        Sk = DM.from_float((Cf - Cf.conj().T) / 2, 60)
        Sk = DM(Sk.re - Sk.re.T, Sk.im + Sk.im.T, Sk.e + 1)  # exactly skew-Hermitian
        C = Sk - DM.eye(n)
        Y = DM.from_float(Yf + dl * np.eye(n), 60).herm_part()
        Z = DM.from_float(Zp + dl * np.eye(n), 60).herm_part()
        blkf = np.block([[Y.to_float(), C.to_float()], [C.to_float().conj().T, Z.to_float()]])
        L = chol_factor(blkf, bits=70, delta=dl / 2)
        if L is None:
            why.append("mats-dual:cholesky")
        else:
            r = drv.ask("c13_mats_dual", {"n": n, "rho": a.rho.json(), "sigma": b.rho.json(), "Y": Y.json(), "Z": Z.json(), "C": C.json(), "L": L.json()})
            hi = _val(r)
            if hi is None:
                why.append("mats-dual:" + r["reject"])
    except Exception as e:
        why.append("mats-dual:" + type(e).__name__)
    return lo, hi, why
