"""C18: perm_sign / unique_perms / perfect_matchings / symmetric_projection / antisymmetric_projection against the Lean
mirror models and the (proved) reference definitions.

Everything is compared exactly.  The projectors are k/p! with integer k, so `impl == k / p!` as IEEE doubles is an exact
test (one correctly rounded division on both sides); the algebraic laws are then re-checked in integer arithmetic on the
numerators of the implementation's own output.  Only the `partial=True` forms go through LAPACK (orth / qr): their
defining relations are evaluated exactly on the returned floats (read as dyadic rationals, big-integer arithmetic) and the
residual is compared with 1e-8.  Which branch a (dim, p, partial) call takes and the shape it must return come from the Lean
control-flow model (`symForm` / `antisymForm`, theorem `partial_shape`: columns = rank = binomial coefficient for ALL d, p); the
three measured residuals (V^T V = 1, P V = V, number of columns = rank) imply V V^T = P by theorem
`isometry_contract_of_residuals`; V V^T = P is measured as well."""
from __future__ import annotations

import itertools
import math
from fractions import Fraction

import numpy as np
import scipy.sparse as sp

from toqito.perms import (antisymmetric_projection, perfect_matchings, perm_sign, permutation_operator,
                          symmetric_projection, unique_perms)

from ..exact import Pure, case_rng, describe, present_nd, strict_fp_call

RULE = ("enumerated, not sampled: every permutation of 1..n (n<=6; quick: n<=5 plus seeded random n=6) for perm_sign, every multiset "
        "of <=6 elements over <=4 values (one sorted and one seeded-shuffled listing, two value alphabets) for unique_perms, every n<=10 "
        "for perfect_matchings (int, list and array forms, arange and non-arange labels), every (d,p) in 1..4 x 1..4 (d^p<=256) x partial "
        "on/off for the projectors; non-trivial = perm not the identity / multiset with a repeated value and >=2 distinct values / "
        "even n>=4 / p>=2 and d>=2; distinct = hash of the case description. The projector functions are called in every accepted argument form "
        "(positional, keyword, default p=2, partial given as bool or as 0/1) and the forms must agree bit for bit (dense) or each satisfy the isometry contract (partial). The only array-like arguments (the permutation of perm_sign: list or int64 ndarray, "
        "the object labels of perfect_matchings: list or int64 ndarray, the element list of unique_perms) keep their exact integer dtype; ndarray forms are also handed "
        "over as strided views; all of them are compared with a deep snapshot after the call. "
        "Call sequences: for every multiset (one seeded listing) it = unique_perms(buf); the caller's list is edited in place (append a new / a repeated value, clear, "
        "overwrite an element, pop, extend, reverse) before the first or after the first next(it); list(it) must be the distinct rearrangements of the contents of buf AT THE CALL "
        "(each once) and consuming must not write into buf; one enumerator per prefix of a growing work list consumed afterwards (forward / reverse / round-robin); "
        "perfect_matchings(list / ndarray) rows must stay the matchings of the objects passed when the caller edits its argument afterwards. "
        "strict-fp stream: perm_sign (list / ndarray, 1- and 0-indexed), unique_perms, perfect_matchings (int / list / ndarray) and both projectors (dense and partial=True, "
        "including p = 1, dim < p and dim = 1) are called once in the default state and once with NumPy's error state set to raise for invalid / divide / overflow "
        "(harness.exact.strict_fp_call); the outcome must be the same (exact equality; partial=True: equal within 1e-12); corpus first, seeded cases from ctx.rng.spawn(1)[0]. "
        "same-object stream: unique_perms of a list that holds ONE object several times must list what it lists for equal, distinct objects")
ASSUMPTIONS = [
    "LAPACK LU (scipy.linalg.det) is exact on column-selected identity matrices (entries 0/1, one 1 per column); checked on every evaluated input",
    "float64 sums of 0/+-1 and one division by p! are correctly rounded (IEEE 754), so impl == k/p! is an exact comparison",
    "`list(set(elements))` iteration order is implementation-defined; it is read from the interpreter and passed to the model",
    "partial=True forms: tolerance 1e-8 on exactly evaluated residuals of LAPACK outputs (V^T V - 1, P V - V, V V^T - P; entries of V read as exact dyadic rationals)",
    "perfect_matchings(0) / perfect_matchings([]) recurse without end (RecursionError) in the code; the mirror rejects the empty list too; n = 0 is not generated as a property case (diagnostic count only)",
]

TOL = 1e-8


# ------------------------------------------------------------------------------------------------ helpers

def _call(fn, *a, **k):
    try:
        return ("ok", fn(*a, **k))
    except Exception as e:  # noqa: BLE001
        return ("raise", f"{type(e).__name__}: {str(e)[:200]}")


def inv_sign(p):
    n = len(p)
    return -1 if sum(1 for i in range(n) for j in range(i + 1, n) if p[i] > p[j]) % 2 else 1


def compose1(s, t):
    """(s o t) for 1-indexed permutation lists"""
    return [s[t[j] - 1] for j in range(len(s))]


def dfact(n):  # (n-1)!! for even n
    r = 1
    for k in range(n - 1, 0, -2):
        r *= k
    return r


def perm_index_rows(d, p, perm):
    """row gather of toqito's permutation_operator (C01-verified): (W X)[i] = X[rows[i]]"""
    if d == 1:
        return np.zeros(1, dtype=int)
    W = np.asarray(permutation_operator([d] * p, list(perm), False, False))
    return np.argmax(W, axis=1)


# ------------------------------------------------------------------------------------------------ perm_sign

def check_perm_sign(ctx, perm, model_ok):
    n = len(perm)
    desc = {"fn": "perm_sign", "perm": list(perm)}
    ctx.case(desc, list(perm) != sorted(perm), f"perm_sign/n={n}")
    # documented forms: list[int] and ndarray (labels stay exact integers; the ndarray form contiguous or a strided view)
    prng = case_rng("c18/perm_sign", list(perm))
    arg = list(perm) if prng.integers(2) else present_nd(prng, np.array(perm, dtype=np.int64), allow_dtype=False)
    guard = Pure(arg)
    impl = _call(perm_sign, arg)
    if guard.modified():
        ctx.violation("perm_sign: caller's arguments were modified", {"function": "perm_sign", "args": desc, "modified": guard.modified(), "presentation": describe(arg)})
    want = inv_sign(perm)
    model = ctx.lean().ask("c18_perm_sign", {"perm": list(perm)}) if model_ok else {"sign": want, "inv_sign": want}
    if model.get("reject") or model["sign"] != model["inv_sign"] or model["inv_sign"] != want:
        ctx.violation("perm_sign: Lean mirror / reference disagree with (-1)^inversions on a 1-indexed permutation (model defect)",
                      {"function": "perm_sign", "args": desc, "model": model, "expected": want, "theorem": "permSign_eq_inversions"})
        return
    if impl[0] != "ok" or not (isinstance(impl[1], (float, np.floating)) and float(impl[1]) == float(want)):
        ctx.violation(f"perm_sign({list(perm)}) = {impl[1]!r}, expected {want} = (-1)^inversions",
                      {"function": "perm_sign", "args": desc, "impl": repr(impl[1]), "model": model, "theorem": "permSign_eq_inversions"})


def check_perm_sign_mul(ctx, s, t):
    desc = {"fn": "perm_sign_mul", "s": list(s), "t": list(t)}
    ctx.case(desc, list(s) != sorted(s) and list(t) != sorted(t), "perm_sign/mul")
    a, b, c = (_call(perm_sign, x) for x in (list(s), list(t), compose1(s, t)))
    if not (a[0] == b[0] == c[0] == "ok") or float(c[1]) != float(a[1]) * float(b[1]):
        ctx.violation(f"perm_sign is not multiplicative on s={list(s)}, t={list(t)}",
                      {"function": "perm_sign", "args": desc, "impl": [repr(a[1]), repr(b[1]), repr(c[1])], "theorem": "permSign_mul"})


def check_perm_sign_zero_indexed(ctx, perm, model_ok):
    """how antisymmetric_projection calls it today (outside perm_sign's documented domain): diagnostic only"""
    if not model_ok:
        return
    impl = _call(perm_sign, np.array(perm))
    model = ctx.lean().ask("c18_perm_sign", {"perm": list(perm)})
    agree = impl[0] == "ok" and "sign" in model and float(impl[1]) == float(model["sign"])
    ctx.count("perm_sign/0-indexed:" + ("mirror agrees (sign = (-1)^(n-1) * true sign)" if agree else "mirror differs"))


def check_perms_list(ctx, p, model_ok):
    """the loop order of the projectors: `list(permutations(np.arange(p)))` against the mirror `permsList p` (sequence equality)"""
    if not model_ok:
        return
    want = [[int(x) for x in t] for t in itertools.permutations(np.arange(p))]
    got = ctx.lean().ask("c18_perms_list", {"p": p})["perms"]
    ctx.count("itertools.permutations/sequence " + ("identical to mirror" if got == want else "differs from mirror"))
    if sorted(got) != sorted(want) or len(got) != math.factorial(p):
        ctx.violation("permsList: Lean mirror does not list the permutations of range(p) each once (model defect)",
                      {"function": "symmetric_projection", "args": {"fn": "perms_list", "p": p}, "model": got[:30],
                       "theorem": "permsList_complete / permsList_nodup"})


# ------------------------------------------------------------------------------------------------ unique_perms

def check_unique_perms(ctx, elements, model_ok):
    elements = [int(x) for x in elements]
    desc = {"fn": "unique_perms", "elements": elements}
    cnt = {v: elements.count(v) for v in set(elements)}
    ctx.case(desc, len(cnt) >= 2 and max(cnt.values(), default=0) >= 2, f"unique_perms/n={len(elements)}/k={len(cnt)}")
    before = list(elements)
    impl = _call(lambda e: list(unique_perms(e)), elements)
    if impl[0] != "ok":
        ctx.violation(f"unique_perms({before}) raised {impl[1]}", {"function": "unique_perms", "args": desc, "impl": impl[1]})
        return
    out = [tuple(int(x) for x in t) for t in impl[1]]
    if elements != before:
        ctx.violation("unique_perms mutates its argument", {"function": "unique_perms", "args": desc})
    spec = sorted(set(itertools.permutations(before)))
    multinom = math.factorial(len(before))
    for c in cnt.values():
        multinom //= math.factorial(c)
    if len(out) != len(set(out)) or sorted(out) != spec or len(out) != multinom:
        ctx.violation(f"unique_perms({before}) does not list each distinct rearrangement exactly once "
                      f"({len(out)} outputs, {len(set(out))} distinct, expected {multinom})",
                      {"function": "unique_perms", "args": desc, "impl": out[:50], "expected_count": multinom,
                       "theorem": "uniquePerms_nodup / uniquePerms_complete"})
        return
    if model_ok:
        model = ctx.lean().ask("c18_unique_perms", {"elements": before, "uniq": [int(x) for x in set(before)]})
        rows = [tuple(r) for r in model["perms"]]
        if sorted(rows) != spec:
            ctx.violation("unique_perms: Lean mirror differs from the set of distinct rearrangements (model defect)",
                          {"function": "unique_perms", "args": desc, "model": rows[:50], "theorem": "uniquePerms_complete"})
        elif rows != out:
            # same multiset, different order: the enumeration order is not part of the property; recorded, not an alarm
            ctx.count("unique_perms/order differs from mirror")
        else:
            ctx.count("unique_perms/order identical to mirror")


# ------------------------------------------------------------------------------------------------ call / mutate / consume

SEQ_EDITS = ("append", "append-dup", "clear", "overwrite", "pop", "extend", "reverse")
SEQ_WHEN = ("before-first", "after-first")


def _apply_edit(buf, edit, fresh):
    """in-place edit of the caller's list after the enumerator was created"""
    if edit == "append":
        buf.append(fresh)
    elif edit == "append-dup":
        buf.append(buf[0] if buf else fresh)
    elif edit == "clear":
        buf.clear()
    elif edit == "overwrite":
        if buf:
            buf[0] = fresh
        else:
            buf.append(fresh)
    elif edit == "pop":
        if buf:
            buf.pop()
        else:
            buf.append(fresh)
    elif edit == "extend":
        buf.extend(list(buf) or [fresh])
    elif edit == "reverse":
        buf.reverse()
    else:
        raise ValueError(edit)


def _spec_perms(elements):
    cnt = {v: elements.count(v) for v in set(elements)}
    multinom = math.factorial(len(elements))
    for c in cnt.values():
        multinom //= math.factorial(c)
    return sorted(set(itertools.permutations(elements))), multinom


def _judge_listing(out, elements):
    spec, multinom = _spec_perms(elements)
    return len(out) == len(set(out)) and sorted(out) == spec and len(out) == multinom


def check_unique_perms_sequence(ctx, elements, edit, when, model_ok):
    """unique_perms(buf) hands back a lazy iterator: what it lists must be the distinct rearrangements of the contents of `buf` AT THE
    CALL, whatever the caller does with its own list before (or while) the iterator is consumed; and consuming must not write into `buf`"""
    elements = [int(x) for x in elements]
    desc = {"fn": "unique_perms_seq", "elements": elements, "edit": edit, "when": when}
    cnt = {v: elements.count(v) for v in set(elements)}
    ctx.case(desc, len(cnt) >= 2 and max(cnt.values(), default=0) >= 2, f"unique_perms/sequence/{edit}/{when}")
    fresh = max(elements, default=0) + 5
    buf = list(elements)

    def seq():
        it = iter(unique_perms(buf))
        got = []
        if when == "after-first":
            got.append(next(it))
        _apply_edit(buf, edit, fresh)
        edited = list(buf)
        got.extend(it)
        return got, edited

    impl = _call(seq)
    if impl[0] != "ok":
        ctx.violation(f"unique_perms({elements}); caller's list edited ({edit}, {when}); consuming raised {impl[1]}",
                      {"function": "unique_perms", "args": desc, "impl": impl[1], "theorem": "uniquePerms_nodup / uniquePerms_complete"})
        return
    got, edited = impl[1]
    out = [tuple(int(x) for x in t) for t in got]
    if buf != edited:
        ctx.violation(f"unique_perms({elements}): consuming the enumerator wrote into the caller's list ({edited} -> {buf})",
                      {"function": "unique_perms", "args": desc, "impl": buf})
    if not _judge_listing(out, elements):
        spec, multinom = _spec_perms(elements)
        later = _judge_listing(out, edited)
        ctx.violation(f"it = unique_perms(buf) with buf = {elements}; buf edited ({edit}, {when}) to {edited}; list(it) has {len(out)} tuples "
                      f"({len(set(out))} distinct), expected the {multinom} distinct rearrangements of {elements}"
                      + ("; it lists the rearrangements of the LATER contents" if later else ""),
                      {"function": "unique_perms", "args": desc, "impl": out[:50], "expected_count": multinom, "lists_later_contents": later,
                       "theorem": "uniquePerms_nodup / uniquePerms_complete (the model enumerator is a function of the list passed to the call)"})
        return
    if model_ok:
        model = ctx.lean().ask("c18_unique_perms", {"elements": elements, "uniq": [int(x) for x in set(elements)]})
        if sorted(tuple(r) for r in model["perms"]) != sorted(out):
            ctx.violation("unique_perms: Lean mirror differs from the set of distinct rearrangements (model defect)",
                          {"function": "unique_perms", "args": desc, "model": model["perms"][:50], "theorem": "uniquePerms_complete"})


def check_unique_perms_growing(ctx, values, order):
    """one enumerator per prefix of a growing work list, all consumed afterwards (in the given order / round-robin): every one lists the
    rearrangements of the prefix it was created from; live enumerators do not disturb each other"""
    values = [int(x) for x in values]
    desc = {"fn": "unique_perms_growing", "values": values, "order": order}
    ctx.case(desc, len(set(values)) >= 2 and len(set(values)) < len(values), f"unique_perms/sequence/growing/{order}")

    def seq():
        work, its, snaps = [], [], []
        for v in values:
            work.append(v)
            its.append(iter(unique_perms(work)))
            snaps.append(list(work))
        outs = [[] for _ in its]
        if order == "round-robin":
            live = list(range(len(its)))
            while live:
                for k in list(live):
                    try:
                        outs[k].append(next(its[k]))
                    except StopIteration:
                        live.remove(k)
        else:
            idx = range(len(its)) if order == "forward" else reversed(range(len(its)))
            for k in idx:
                outs[k] = list(its[k])
        return snaps, outs, list(work)

    impl = _call(seq)
    if impl[0] != "ok":
        ctx.violation(f"unique_perms on the prefixes of a growing list {values} ({order}) raised {impl[1]}",
                      {"function": "unique_perms", "args": desc, "impl": impl[1]})
        return
    snaps, outs, work = impl[1]
    if work != values:
        ctx.violation(f"unique_perms: consuming wrote into the caller's list ({values} -> {work})", {"function": "unique_perms", "args": desc, "impl": work})
    for snap, out in zip(snaps, outs):
        out = [tuple(int(x) for x in t) for t in out]
        if not _judge_listing(out, snap):
            _, multinom = _spec_perms(snap)
            ctx.violation(f"work list grown to {values}, one enumerator per prefix, consumed afterwards ({order}): the enumerator created from {snap} "
                          f"listed {len(out)} tuples ({len(set(out))} distinct), e.g. {sorted(out)[:3]}; expected the {multinom} distinct rearrangements of {snap}",
                          {"function": "unique_perms", "args": desc, "prefix": snap, "impl": out[:50], "expected_count": multinom,
                           "theorem": "uniquePerms_nodup / uniquePerms_complete (the model enumerator is a function of the list passed to the call)"})
            return


def check_matchings_sequence(ctx, objs, form):
    """perfect_matchings(arg) is evaluated eagerly: the rows are those of the argument at the call and stay so when the caller edits
    its list / array afterwards (no view of the argument inside the result)"""
    objs = [int(x) for x in objs]
    n = len(objs)
    desc = {"fn": "perfect_matchings_seq", "objects": objs, "form": form}
    arg = list(objs) if form == "list" else np.array(objs)
    impl = _call(perfect_matchings, arg)
    if impl[0] != "ok":
        return                                             # reported by check_matchings
    out = impl[1]
    if n == 2 and form == "array":
        # base case `return num`: the result IS the caller's array (documented here, not alarmed: the returned value is right at return time)
        ctx.count("perfect_matchings/n=2/array: result " + ("is the argument object" if out is arg else "is a new array"))
        return
    ctx.case(desc, n % 2 == 0 and n >= 4, f"perfect_matchings/sequence/n={n}/{form}")
    snap = np.array(out, copy=True)
    fresh = max(objs) + 3
    if form == "list":
        arg[0], arg[-1] = arg[-1], fresh
        arg.append(fresh + 1)
    else:
        arg[0], arg[-1] = arg[-1], fresh
        arg[1:-1] += 100
    after = np.asarray(out)
    rows = [[int(x) for x in r] for r in np.atleast_2d(after)] if n % 2 == 0 else []
    ms = [_is_matching_row(r, objs) for r in rows]
    if after.shape != snap.shape or not np.array_equal(after, snap) or (n % 2 == 0 and (any(m is None for m in ms) or len(set(ms)) != dfact(n))):
        ctx.violation(f"perfect_matchings({objs} as {form}): the returned rows changed when the caller edited its argument afterwards "
                      f"(they are no longer the {dfact(n) if n % 2 == 0 else 0} perfect matchings of the objects passed to the call)",
                      {"function": "perfect_matchings", "args": desc, "impl": rows[:40], "before_edit": snap.tolist()[:40],
                       "theorem": "perfectMatchings_valid / _nodup / _complete / _count"})


# ------------------------------------------------------------------------------------------------ perfect_matchings

def _is_matching_row(row, objs):
    n = len(objs)
    if len(row) != n or sorted(row) != sorted(objs):
        return None
    return frozenset(frozenset((row[2 * k], row[2 * k + 1])) for k in range(n // 2))


def check_matchings(ctx, objs, form, model_ok):
    objs = [int(x) for x in objs]
    n = len(objs)
    desc = {"fn": "perfect_matchings", "objects": objs, "form": form}
    ctx.case(desc, n % 2 == 0 and n >= 4, f"perfect_matchings/n={n}/{form}")
    arg = n if form == "int" else (list(objs) if form == "list" else present_nd(case_rng("c18/matchings", objs), np.array(objs), allow_dtype=False))
    guard = Pure(arg)
    impl = _call(perfect_matchings, arg)
    if guard.modified():
        ctx.violation("perfect_matchings: caller's arguments were modified", {"function": "perfect_matchings", "args": desc, "modified": guard.modified(), "presentation": describe(arg)})
    if impl[0] != "ok":
        ctx.violation(f"perfect_matchings({arg!r}) raised {impl[1]}", {"function": "perfect_matchings", "args": desc, "impl": impl[1]})
        return
    out = np.asarray(impl[1])
    if n % 2 == 1:
        if out.size != 0:
            ctx.violation(f"perfect_matchings of an odd number of objects returned {out.shape}", {"function": "perfect_matchings", "args": desc})
        return
    rows = [[int(x) for x in r] for r in np.atleast_2d(out)]
    ms = [_is_matching_row(r, objs) for r in rows]
    want = dfact(n)
    if any(m is None for m in ms) or len(set(ms)) != len(ms) or len(ms) != want:
        ctx.violation(f"perfect_matchings({arg!r}): rows are not the {want} perfect matchings, each once "
                      f"({len(ms)} rows, {len(set(ms))} distinct, {sum(m is None for m in ms)} invalid)",
                      {"function": "perfect_matchings", "args": desc, "impl": rows[:40], "expected_count": want,
                       "theorem": "perfectMatchings_valid / _nodup / _complete / _count"})
        return
    if model_ok:
        model = ctx.lean().ask("c18_perfect_matchings", {"n": n} if form == "int" else {"objects": objs})  # `int` form: np.arange(n) in the mirror too
        mrows = model["rows"]
        mm = [_is_matching_row(r, objs) for r in mrows]
        if any(m is None for m in mm) or set(mm) != set(ms) or len(mm) != want:
            ctx.violation("perfect_matchings: Lean mirror does not enumerate the perfect matchings (model defect)",
                          {"function": "perfect_matchings", "args": desc, "model": mrows[:40], "theorem": "perfectMatchings_complete"})
        elif mrows != rows:
            ctx.count("perfect_matchings/row order or pair orientation differs from mirror")
        else:
            ctx.count("perfect_matchings/rows identical to mirror")


def probe_matchings_empty(ctx, model_ok):
    """n = 0 (not a property case): the code recurses without end; the mirror rejects the empty list. Diagnostic count only."""
    for label, arg in (("int", 0), ("list", []), ("array", np.array([], dtype=int))):
        impl = _call(perfect_matchings, arg)
        got = "RecursionError" if impl[0] == "raise" and impl[1].startswith("RecursionError") else ("returns" if impl[0] == "ok" else impl[1][:40])
        model = ctx.lean().ask("c18_perfect_matchings", {"objects": []}).get("reject") if model_ok else "RecursionError"
        ctx.count(f"perfect_matchings/n=0/{label}: impl {got}, mirror {'rejects ' + str(model) if model else 'returns'}")


# ------------------------------------------------------------------------------------------------ projectors

def _numerators(P, fac):
    """integer K with P == K / fac entrywise as doubles, or None"""
    P = np.asarray(P)
    if P.ndim != 2 or P.dtype.kind not in "fiu":
        return None
    K = np.rint(P * fac).astype(np.int64)
    if not np.array_equal(K.astype(float) / float(fac), P.astype(float)):
        return None
    return K


def _laws(K, fac, d, p, anti, other=None):
    """algebraic laws on the integer numerators of the implementation's output; returns list of failed law names"""
    bad = []
    N = K.shape[0]
    if not np.array_equal(K, K.T):
        bad.append("Hermitian")
    if not np.array_equal(K @ K, fac * K):
        bad.append("idempotent")
    want_rank = math.comb(d, p) if anti else math.comb(d + p - 1, p)
    if int(np.trace(K)) != fac * want_rank:
        bad.append(f"rank(trace {Fraction(int(np.trace(K)), fac)} != {want_rank})")
    for s in itertools.permutations(range(p)):
        rows = perm_index_rows(d, p, s)
        sg = inv_sign(s) if anti else 1
        if not np.array_equal(K[rows], sg * K) or not np.array_equal(K[:, rows], sg * K):
            bad.append("permutation action" + (" (sign)" if anti else " (fixed)"))
            break
    if other is not None and p >= 2:
        if np.any(K @ other) or np.any(other @ K):
            bad.append("orthogonal to the other projector")
        if p == 2 and not np.array_equal(K + other, fac * np.eye(N, dtype=np.int64)):
            bad.append("sym + antisym = identity (p = 2)")
    return bad


def _lean_proj(ctx, d, p, which):
    r = ctx.lean().ask("c18_proj", {"dim": d, "p": p, "which": which})
    N = r["shape"][0]
    return np.array(r["data"], dtype=np.int64).reshape(N, N), int(r["trace"]), int(r["rank"])


def py_ref(d, p, anti):
    """independent reference (used for cross-checking the Lean reference and when the driver is unavailable)"""
    N = d ** p
    K = np.zeros((N, N), dtype=np.int64)
    digs = list(itertools.product(range(d), repeat=p))
    pos = {x: i for i, x in enumerate(digs)}
    for s in itertools.permutations(range(p)):
        sg = inv_sign(s) if anti else 1
        for x in digs:
            # W_s |x_0..x_{p-1}> has factor x_{s(k)} at position k
            K[pos[tuple(x[s[k]] for k in range(p))], pos[x]] += sg
    return K


def check_dense(ctx, d, p, anti, model_ok):
    name = "antisymmetric_projection" if anti else "symmetric_projection"
    fn = antisymmetric_projection if anti else symmetric_projection
    fac = math.factorial(p)
    desc = {"fn": name, "dim": d, "p": p, "partial": False}
    ctx.case(desc, d >= 2 and p >= 2, f"{name}/dense/p={p}")
    ref = py_ref(d, p, anti)
    want_rank = math.comb(d, p) if anti else math.comb(d + p - 1, p)
    mirror_eq = None
    if model_ok:
        lref, ltr, lrank = _lean_proj(ctx, d, p, "antisym_ref" if anti else "sym_ref")
        if not np.array_equal(lref, ref) or ltr != fac * want_rank or lrank != want_rank:
            ctx.violation(f"{name}: Lean reference projector differs from the Python reference or has the wrong trace (model defect)",
                          {"function": name, "args": desc, "lean_trace": ltr, "lean_rank": lrank, "expected_trace": fac * want_rank, "theorem": "symSpec_rank / antiSpec_rank / proj_trace_model"})
            return None
    impl = _call(fn, d, p)
    if impl[0] != "ok":
        ctx.violation(f"{name}({d}, {p}) raised {impl[1]}", {"function": name, "args": desc, "exception": impl[1]})
        return None
    P = impl[1]
    P = P.toarray() if sp.issparse(P) else np.asarray(P)
    if model_ok:
        mir, _, _ = _lean_proj(ctx, d, p, "antisym" if anti else "sym")
        K0 = _numerators(P, fac)
        mirror_eq = K0 is not None and K0.shape == mir.shape and np.array_equal(K0, mir)
        ctx.count(f"{name}/dense: mirror " + ("agrees" if mirror_eq else "differs"))
    K = _numerators(P, fac) if P.shape == ref.shape else None
    if K is not None and np.array_equal(K, ref):
        bad = _laws(K, fac, d, p, anti)
        if bad:  # cannot happen if the theorems hold: reference defect
            ctx.violation(f"{name}({d}, {p}) equals the reference but the laws {bad} fail (reference defect)", {"function": name, "args": desc})
        return K
    # implementation differs from the mathematically right projector
    bad = _laws(K, fac, d, p, anti) if K is not None else ["shape/exactness"]
    rel = "other"
    if K is not None and np.array_equal(K, -ref):
        rel = "negative of the projector"
    ctx.violation(
        f"{name}({d}, {p}) is not the projector onto the {'anti' if anti else ''}symmetric subspace: output is {rel}; failed laws: {bad}",
        {"function": name, "args": desc, "relation": rel, "failed_laws": bad, "equals_lean_mirror": mirror_eq,
         "impl": P[: min(8, P.shape[0]), : min(8, P.shape[-1])].tolist() if P.ndim == 2 else str(P.shape),
         "expected": (ref[:8, :8] / fac).tolist(), "theorem": "antisymProj_eq_spec / symProj_eq_spec / antiSpec_idempotent"})
    return None


def call_forms(anti, d, p, partial):
    """every accepted way of writing the call fn(d, p, partial) (name, thunk); the first one is the primary form"""
    fn = antisymmetric_projection if anti else symmetric_projection
    pk = "p_param" if anti else "p_val"
    flag = bool(partial)
    forms = []
    if not flag:
        forms.append(("default-partial", lambda: fn(d, p)))
    forms += [("positional", lambda: fn(d, p, flag)),
              ("keyword", lambda: fn(dim=d, partial=flag, **{pk: p})),
              ("int-flag", lambda: fn(d, p, int(flag)))]          # docstring: "partial: Default value of 0"
    if p == 2:
        forms.append(("default-p", lambda: fn(d, partial=flag)))
    return forms


def _dyadic(V):
    """object array M of Python ints and e with V == M / 2**e exactly (every finite double is a dyadic rational)"""
    ratios = [[float(x).as_integer_ratio() for x in row] for row in V]
    e = max((den.bit_length() - 1 for row in ratios for _, den in row), default=0)
    M = np.empty(V.shape, dtype=object)
    for i, row in enumerate(ratios):
        for j, (num, den) in enumerate(row):
            M[i, j] = num * ((1 << e) // den)
    return M, e


def _maxabs(A):
    return max((abs(int(x)) for x in A.flat), default=0)


def _lean_form(ctx, d, p, anti, partial):
    r = ctx.lean().ask("c18_form", {"dim": d, "p": p, "partial": bool(partial), "which": "antisym" if anti else "sym"})
    return r["kind"], tuple(int(x) for x in r["shape"])


def check_partial(ctx, d, p, anti, model_ok=True, form="positional"):
    name = "antisymmetric_projection" if anti else "symmetric_projection"
    fac = math.factorial(p)
    desc = {"fn": name, "dim": d, "p": p, "partial": True, "form": form}
    ctx.case(desc, d >= 2 and p >= 2, f"{name}/partial/p={p}/{form}")
    ref = py_ref(d, p, anti)
    N = d ** p
    want_rank = math.comb(d, p) if anti else math.comb(d + p - 1, p)
    kind = "eye" if p == 1 else ("zeros" if anti and d < p else "orth")
    if model_ok:
        lkind, lshape = _lean_form(ctx, d, p, anti, True)
        if lshape != (N, want_rank) or lkind != kind:  # theorem partial_shape: cannot happen
            ctx.violation(f"{name}: Lean control-flow model gives {lkind} {lshape}, expected {kind} {(N, want_rank)} (model defect)",
                          {"function": name, "args": desc, "model": [lkind, list(lshape)], "theorem": "partial_shape"})
            return
    thunk = dict(call_forms(anti, d, p, True)).get(form)
    if thunk is None:
        return
    impl = _call(thunk)
    if impl[0] != "ok":
        ctx.violation(f"{name}({d}, {p}, partial=True) [{form}] raised {impl[1]}", {"function": name, "args": desc, "exception": impl[1]})
        return
    V = impl[1]
    V = V.toarray() if sp.issparse(V) else np.asarray(V)
    if V.ndim != 2 or V.shape != (N, want_rank):
        ctx.violation(f"{name}({d}, {p}, partial=True) has shape {V.shape}, expected an isometry of shape {(N, want_rank)}",
                      {"function": name, "args": desc, "shape": list(V.shape), "expected_shape": [N, want_rank],
                       "theorem": "partial_shape / symSpec_rank / antiSpec_rank (number of columns = rank = binomial coefficient)"})
        return
    if want_rank == 0:
        return
    if V.dtype.kind not in "fiu" or not np.all(np.isfinite(V)):
        ctx.violation(f"{name}({d}, {p}, partial=True) is not a finite real matrix (dtype {V.dtype})",
                      {"function": name, "args": desc, "dtype": str(V.dtype)})
        return
    # exact evaluation on the returned floats: V = M / 2^e with integer M
    M, e = _dyadic(V.astype(float))
    one = 1 << (2 * e)
    G = M.T.dot(M)                                   # 4^e * V^T V
    for a in range(want_rank):
        G[a, a] -= one
    res1 = Fraction(_maxabs(G), one)
    Kobj = ref.astype(object)
    R = Kobj.dot(M) - fac * M                        # p! * 2^e * (P V - V)
    res2 = Fraction(_maxabs(R), fac << e)
    Q = fac * M.dot(M.T) - one * Kobj                # p! * 4^e * (V V^T - P)
    res3 = Fraction(_maxabs(Q), fac * one)
    ctx.extra["partial_max_residual"] = max(float(ctx.extra.get("partial_max_residual", 0.0)), float(res1), float(res2), float(res3))
    if res1 > TOL or res2 > TOL or res3 > TOL:
        ctx.violation(f"{name}({d}, {p}, partial=True): columns are not an orthonormal basis of the subspace "
                      f"(|V^T V - I| = {float(res1):.3g}, |P V - V| = {float(res2):.3g}, |V V^T - P| = {float(res3):.3g})",
                      {"function": name, "args": desc, "residual_gram": float(res1), "residual_range": float(res2),
                       "residual_projector": float(res3),
                       "theorem": "isometry_contract_of_residuals / partial_contract"})
        return
    if kind == "eye" and not np.array_equal(V, np.eye(d)):   # early return `np.eye(dim)`: exact
        ctx.violation(f"{name}({d}, 1, partial=True) is not the identity", {"function": name, "args": desc, "theorem": "early_returns"})


def check_forms(ctx, d, p, anti, K):
    """the dense projector written in every accepted call form must be bit-for-bit the matrix of the primary form"""
    name = "antisymmetric_projection" if anti else "symmetric_projection"
    fac = math.factorial(p)
    for form, thunk in call_forms(anti, d, p, False)[1:]:
        desc = {"fn": name, "dim": d, "p": p, "partial": False, "form": form}
        ctx.case(desc, d >= 2 and p >= 2, f"{name}/dense-forms/{form}")
        impl = _call(thunk)
        P = impl[1]
        if impl[0] == "ok":
            P = P.toarray() if sp.issparse(P) else np.asarray(P)
        K2 = _numerators(P, fac) if impl[0] == "ok" and getattr(P, "shape", None) == K.shape else None
        if K2 is None or not np.array_equal(K2, K):
            ctx.violation(f"{name}({d}, {p}) written as [{form}] differs from the positional call (which is the projector)",
                          {"function": name, "args": desc, "impl": impl[1] if impl[0] != "ok" else str(getattr(P, "shape", None)),
                           "theorem": "symProj_eq_spec / antisymProj_eq_spec"})


def probe_guards(ctx, model_ok):
    """the two `ValueError` guards of symmetric_projection (outside the property's quantifier d, p >= 1): diagnostic count of impl vs mirror"""
    for d, p in ((0, 2), (2, 0), (0, 0), (-1, 2)):
        impl = _call(symmetric_projection, d, p)
        got = impl[1].split(":")[1].strip() if impl[0] == "raise" and impl[1].startswith("ValueError") else ("returns" if impl[0] == "ok" else impl[1][:30])
        rej = None
        if model_ok and d >= 0 and p >= 0:
            rej = ctx.lean().ask("c18_form", {"dim": d, "p": p, "partial": False, "which": "sym"}).get("reject")
        elif d < 0:
            rej = "InvalidDim"
        ctx.count("symmetric_projection/guard: " + ("mirror agrees" if rej == got else f"impl {got}, mirror {rej}"))


def check_pair(ctx, d, p, model_ok):
    Ks = check_dense(ctx, d, p, False, model_ok)
    Ka = check_dense(ctx, d, p, True, model_ok)
    if Ks is not None:
        check_forms(ctx, d, p, False, Ks)
    if Ka is not None:
        check_forms(ctx, d, p, True, Ka)
    if Ks is not None and Ka is not None and p >= 2 and Ks.shape == Ka.shape:
        fac = math.factorial(p)
        desc = {"fn": "sym/antisym pair", "dim": d, "p": p}
        ctx.case(desc, d >= 2, f"pair/p={p}")
        bad = []
        if np.any(Ks @ Ka) or np.any(Ka @ Ks):
            bad.append("sym * antisym = 0")
        if p == 2 and not np.array_equal(Ks + Ka, fac * np.eye(Ks.shape[0], dtype=np.int64)):
            bad.append("sym + antisym = identity")
        if bad:
            ctx.violation(f"symmetric_projection / antisymmetric_projection ({d}, {p}): {bad} fails",
                          {"function": "antisymmetric_projection", "args": desc, "failed_laws": bad, "relation": "pair",
                           "theorem": "symSpec_mul_antiSpec / symSpec_add_antiSpec"})


TABLE = [(d, p) for p in range(1, 5) for d in range(1, 5) if d ** p <= 256]


# ------------------------------------------------------------------------------------------------ strict-fp / same-object streams

def _norm(v):
    """comparable form of a return value: ndarray (sparse densified), or list(tuple) for generators / lists"""
    if sp.issparse(v):
        return v.toarray()
    if isinstance(v, np.ndarray):
        return v
    if isinstance(v, (float, int, np.floating, np.integer)):
        return np.asarray(v)
    return [tuple(x) if isinstance(x, (list, tuple, np.ndarray)) else x for x in v]


def _same(a, b, tol=0.0):
    if isinstance(a, np.ndarray) != isinstance(b, np.ndarray):
        return False
    if isinstance(a, np.ndarray):
        if a.shape != b.shape or a.dtype != b.dtype:
            return False
        if np.array_equal(a, b):
            return True
        return bool(tol > 0 and a.size and np.all(np.isfinite(a)) and np.all(np.isfinite(b)) and np.max(np.abs(a - b)) <= tol)
    return a == b


def check_strict_fp(ctx, name, make, desc, tol=0.0):
    """`make()` returns a fresh thunk; default state vs harness.exact.strict_fp_call: same outcome.  A sqrt / log / division evaluated on exact zeros and
    masked afterwards (np.where) is invisible in the default state and raises under np.seterr(all='raise')."""
    ctx.case(dict(desc, stream="strict-fp"), True, f"strict-fp/{name}")
    st0, v0 = _call(lambda: _norm(make()()))
    st1, v1 = strict_fp_call(lambda: _norm(make()()))
    info = {"function": name, "args": desc, "stream": "strict-fp"}
    if st0 == "ok" and st1 != "ok":
        ctx.violation(f"{name}: value depends on NumPy's floating-point error state: returns in the default state, raises {v1} under np.seterr(invalid/divide/over='raise')",
                      dict(info, impl_default_state=repr(v0)[:300], impl_strict_state=v1))
    elif st0 != st1:
        ctx.violation(f"{name}: outcome depends on NumPy's floating-point error state: {v0} in the default state, returns under np.seterr(invalid/divide/over='raise')",
                      dict(info, impl_default_state=v0, impl_strict_state=repr(v1)[:300]))
    elif st0 == "ok" and not _same(v0, v1, tol):
        ctx.violation(f"{name}: value depends on NumPy's floating-point error state: the value under np.seterr(invalid/divide/over='raise') differs from the default-state value",
                      dict(info, impl_default_state=repr(v0)[:300], impl_strict_state=repr(v1)[:300]))
    elif st0 == "raise" and v0.split(":")[0] != v1.split(":")[0]:
        ctx.violation(f"{name}: exception depends on NumPy's floating-point error state: {v0} in the default state, {v1} under np.seterr(invalid/divide/over='raise')",
                      dict(info, impl_default_state=v0, impl_strict_state=v1))


def strict_projector(ctx, d, p, anti, partial):
    name = "antisymmetric_projection" if anti else "symmetric_projection"
    fn = antisymmetric_projection if anti else symmetric_projection
    check_strict_fp(ctx, name, lambda: (lambda: fn(d, p, partial)), {"fn": name, "dim": d, "p": p, "partial": bool(partial)}, tol=1e-12 if partial else 0.0)


def strict_perm_sign(ctx, perm, form):
    mk = (lambda: (lambda: perm_sign(list(perm)))) if form == "list" else (lambda: (lambda: perm_sign(np.array(perm, dtype=np.int64))))
    check_strict_fp(ctx, "perm_sign", mk, {"fn": "perm_sign", "perm": list(perm), "form": form})


def strict_unique_perms(ctx, elements):
    check_strict_fp(ctx, "unique_perms", lambda: (lambda: list(unique_perms(list(elements)))), {"fn": "unique_perms", "elements": list(elements)})


def strict_matchings(ctx, objs, form):
    arg = {"int": lambda: len(objs), "list": lambda: list(objs), "array": lambda: np.array(objs, dtype=np.int64)}[form]
    check_strict_fp(ctx, "perfect_matchings", lambda: (lambda: perfect_matchings(arg())), {"fn": "perfect_matchings", "objects": list(objs), "form": form})


def check_same_object(ctx, values):
    """unique_perms([a, a, b, ...]) with ONE object a in several slots lists what it lists for equal, distinct objects (values > 256: CPython does not intern them)"""
    desc = {"fn": "unique_perms", "elements": list(values), "stream": "same-object"}
    ctx.case(desc, len(set(values)) >= 2 and len(set(values)) < len(values), "same-object/unique_perms")
    canon = {v: int(str(v)) for v in set(values)}
    shared = [canon[v] for v in values]                 # one object per value
    copies = [int(str(v)) for v in values]              # a fresh object per slot
    out_s = _call(lambda: sorted(tuple(t) for t in unique_perms(shared)))
    out_c = _call(lambda: sorted(tuple(t) for t in unique_perms(copies)))
    if out_s[0] != out_c[0] or (out_s[0] == "ok" and out_s[1] != out_c[1]) or (out_s[0] == "raise" and out_s[1].split(":")[0] != out_c[1].split(":")[0]):
        ctx.violation("unique_perms: a list holding the same object in several slots is treated differently from a list of equal, distinct objects",
                      {"function": "unique_perms", "args": desc, "stream": "same-object", "impl_same_object": repr(out_s[1])[:300], "impl_copies": repr(out_c[1])[:300]})
    elif out_s[0] == "ok" and out_s[1] != _spec_perms(list(values))[0]:
        ctx.violation("unique_perms: a list holding the same object in several slots is not listed as its distinct rearrangements",
                      {"function": "unique_perms", "args": desc, "stream": "same-object", "impl_same_object": repr(out_s[1])[:300]})


def run_strict(ctx):
    quick = ctx.tier == "quick"
    srng = ctx.rng.spawn(1)[0]
    # corpus: the early returns (p = 1, dim < p with and without partial), dim = 1, the smallest non-trivial projectors
    for d, p in ((2, 2), (1, 2), (2, 3), (3, 1), (1, 1), (3, 2), (2, 4), (3, 3)):
        for anti in (True, False):
            for partial in (False, True):
                strict_projector(ctx, d, p, anti, partial)
    for perm in ([1], [1, 2], [2, 1], [3, 1, 2], [1, 3, 2], [4, 3, 2, 1]):
        strict_perm_sign(ctx, perm, "list")
        strict_perm_sign(ctx, perm, "array")
    for perm in ([0], [1, 0], [2, 0, 1]):
        strict_perm_sign(ctx, perm, "array")
    for elems in ([], [1], [1, 1], [1, 1, 2], [0, 0, 0, 5], [-3, 0, 17, 17]):
        strict_unique_perms(ctx, elems)
    for n in (1, 2, 3, 4, 6):
        strict_matchings(ctx, list(range(n)), "int")
    strict_matchings(ctx, [5, 3, 8, 1], "list")
    strict_matchings(ctx, [5, 3, 8, 1, 0, 2], "array")
    for vals in ([1000003, 1000003, 7], [300, 300, 300], [1000, 2000, 1000, 2000], [5, 5, 9]):
        check_same_object(ctx, vals)
    # seeded
    for _ in range(6 if quick else 20):
        d, p = TABLE[int(srng.integers(len(TABLE)))]
        if d ** p > 81:
            d, p = 3, 4 - int(srng.integers(3))
        strict_projector(ctx, d, p, bool(srng.integers(2)), bool(srng.integers(2)))
    for _ in range(8 if quick else 40):
        n = int(srng.integers(2, 8))
        strict_perm_sign(ctx, [int(x) + 1 for x in srng.permutation(n)], "list" if srng.integers(2) else "array")
    for _ in range(4 if quick else 20):
        strict_unique_perms(ctx, [int(x) for x in srng.choice([1, 2, -4, 400], size=int(srng.integers(2, 6)))])
        check_same_object(ctx, [int(x) for x in srng.choice([1000, 2000, 3000], size=int(srng.integers(2, 6)))])
    for _ in range(3 if quick else 10):
        n = int(srng.choice([2, 4, 5, 6]))
        strict_matchings(ctx, [int(x) for x in srng.choice(100, size=n, replace=False)], "list" if srng.integers(2) else "array")


# ------------------------------------------------------------------------------------------------ entry points

def run(ctx, model_ok=True):
    rng = ctx.rng
    quick = ctx.tier == "quick"
    # corpus: minimal reproducers of past failures first
    check_dense(ctx, 2, 2, True, model_ok)
    check_partial(ctx, 2, 2, True, model_ok)
    check_perm_sign(ctx, [2, 1], model_ok)
    check_unique_perms(ctx, [1, 1, 2], model_ok)
    check_matchings(ctx, [0, 1, 2, 3], "int", model_ok)
    # call -> edit the caller's list -> consume (the enumerator is lazy; what it lists is fixed by the call)
    check_unique_perms_sequence(ctx, [1, 1, 2], "append", "before-first", model_ok)
    check_unique_perms_sequence(ctx, [4, 4, 4, 9, 9, 0], "clear", "before-first", model_ok)
    check_unique_perms_sequence(ctx, [1, 2, 2], "overwrite", "before-first", model_ok)
    check_unique_perms_sequence(ctx, [3, 1, 3, 2], "pop", "after-first", model_ok)
    check_unique_perms_sequence(ctx, [], "append", "before-first", model_ok)
    for order in ("forward", "reverse", "round-robin"):
        check_unique_perms_growing(ctx, [2, 2, 5, 7], order)
    check_matchings_sequence(ctx, [0, 1, 2, 3], "list")
    check_matchings_sequence(ctx, [5, 3, 8, 1, 0, 2], "array")

    # perm_sign: all permutations of 1..n
    for n in range(1, 6 if quick else 7):
        for perm in itertools.permutations(range(1, n + 1)):
            check_perm_sign(ctx, list(perm), model_ok)
    if quick:
        for _ in range(150):
            check_perm_sign(ctx, [int(x) + 1 for x in rng.permutation(6)], model_ok)
    for n in range(1, 5 if quick else 6):
        for s in itertools.permutations(range(1, n + 1)):
            for t in itertools.permutations(range(1, n + 1)):
                check_perm_sign_mul(ctx, list(s), list(t))
    if not quick:
        for perm in itertools.permutations(range(1, 8)):
            check_perm_sign(ctx, list(perm), model_ok)
    for _ in range(300 if quick else 3000):
        n = int(rng.integers(5, 7))
        check_perm_sign_mul(ctx, [int(x) + 1 for x in rng.permutation(n)], [int(x) + 1 for x in rng.permutation(n)])
    for n in range(1, 5):
        for perm in itertools.permutations(range(n)):
            check_perm_sign_zero_indexed(ctx, list(perm), model_ok)

    # unique_perms: all multisets of <= 6 elements over <= 4 values
    alphabets = [[1, 2, 3, 4], [-3, 0, 17, 1000003]]
    for n in range(0, 7):
        for counts in itertools.product(range(n + 1), repeat=4):
            if sum(counts) != n:
                continue
            for ai, alpha in enumerate(alphabets):
                if ai == 1 and quick and n == 6 and rng.integers(3):
                    continue
                elems = [v for v, c in zip(alpha, counts) for _ in range(c)]
                check_unique_perms(ctx, elems, model_ok)
                if n >= 2:
                    check_unique_perms(ctx, [int(x) for x in rng.permutation(elems)], model_ok)
                # the same multiset in a call / edit / consume sequence (edit and moment determined by the case)
                srng = case_rng("c18/unique_perms_seq", elems)
                listing = [int(x) for x in srng.permutation(elems)] if n >= 2 else list(elems)
                edit = SEQ_EDITS[int(srng.integers(len(SEQ_EDITS)))]
                if edit == "extend" and n > 3:            # an enumerator that reads the list late would have to list up to 12!/(3!)^4 tuples
                    edit = "append-dup"
                check_unique_perms_sequence(ctx, listing, edit, SEQ_WHEN[int(srng.integers(3) == 0)], model_ok and n <= 4)
    for k, order in enumerate(("forward", "reverse", "round-robin") * (2 if quick else 10)):
        grng = case_rng("c18/unique_perms_growing", int(ctx.seed), k)
        check_unique_perms_growing(ctx, [int(x) for x in grng.choice([1, 2, 3, -4], size=int(grng.integers(2, 6)))], order)
    check_unique_perms(ctx, [1, 1, 2, 2, 1, 2, 1, 3, 3, 3], False)  # the docstring example (4200)

    # perfect_matchings
    for n in range(1, 11):
        check_matchings(ctx, list(range(n)), "int", model_ok)
        if n >= 2:
            check_matchings(ctx, list(range(n)), "array", model_ok)
            labels = [int(x) for x in rng.choice(50, size=n, replace=False)]
            check_matchings(ctx, labels, "list", model_ok)
            check_matchings(ctx, [int(x) - 7 for x in rng.permutation(n)], "array", model_ok)
            check_matchings_sequence(ctx, labels, "list")
            check_matchings_sequence(ctx, [3 * x + 1 for x in range(n)], "array")
    probe_matchings_empty(ctx, model_ok)
    if not quick:
        for _ in range(40):
            n = int(rng.choice([2, 4, 6, 8, 10]))
            check_matchings(ctx, [int(x) for x in rng.choice(1000, size=n, replace=False) - 500], str(rng.choice(["list", "array"])), model_ok)

    # projectors: the loop order, then the whole table
    for p in range(0, 6 if quick else 7):
        check_perms_list(ctx, p, model_ok)
    for d, p in TABLE:
        check_pair(ctx, d, p, model_ok)
    for d, p in TABLE:
        for anti in (False, True):
            forms = [f for f, _ in call_forms(anti, d, p, True)]
            if d ** p > 81:   # 256 x 256: the primary form and one seeded alternative
                forms = [forms[0], forms[1 + int(rng.integers(len(forms) - 1))]]
            for form in forms:
                check_partial(ctx, d, p, anti, model_ok, form)
    probe_guards(ctx, model_ok)
    run_strict(ctx)
    ctx.extra["projector_table"] = [list(t) for t in TABLE]


def replay(ctx, rec):
    a = rec.get("args", {})
    fn = a.get("fn")
    if rec.get("stream") == "strict-fp" or a.get("stream") == "strict-fp":
        if fn == "perm_sign":
            strict_perm_sign(ctx, a["perm"], a.get("form", "list"))
        elif fn == "unique_perms":
            strict_unique_perms(ctx, a["elements"])
        elif fn == "perfect_matchings":
            strict_matchings(ctx, a["objects"], a["form"])
        else:
            strict_projector(ctx, a["dim"], a["p"], fn.startswith("anti"), a["partial"])
    elif rec.get("stream") == "same-object" or a.get("stream") == "same-object":
        check_same_object(ctx, a["elements"])
    elif fn == "perm_sign":
        check_perm_sign(ctx, a["perm"], True)
    elif fn == "perm_sign_mul":
        check_perm_sign_mul(ctx, a["s"], a["t"])
    elif fn == "unique_perms":
        check_unique_perms(ctx, a["elements"], True)
    elif fn == "perfect_matchings":
        check_matchings(ctx, a["objects"], a["form"], True)
    elif fn == "unique_perms_seq":
        check_unique_perms_sequence(ctx, a["elements"], a["edit"], a["when"], True)
    elif fn == "unique_perms_growing":
        check_unique_perms_growing(ctx, a["values"], a["order"])
    elif fn == "perfect_matchings_seq":
        check_matchings_sequence(ctx, a["objects"], a["form"])
    elif fn in ("symmetric_projection", "antisymmetric_projection"):
        anti = fn.startswith("anti")
        if a.get("partial"):
            check_partial(ctx, a["dim"], a["p"], anti, True, a.get("form", "positional"))
        else:
            K = check_dense(ctx, a["dim"], a["p"], anti, True)
            if K is not None and a.get("form"):
                check_forms(ctx, a["dim"], a["p"], anti, K)
    elif fn == "sym/antisym pair":
        check_pair(ctx, a["dim"], a["p"], True)
