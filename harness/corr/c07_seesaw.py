"""C07, stream `seesaw`: the see-saw heuristic `NonlocalGame.quantum_value_lower_bound(dim, iters, tol)` and the two semidefinite programs it
alternates between (`__optimize_alice(dim, bob_povms)`, `__optimize_bob(dim, alice_povms)`), tied to the Lean model
`lean/Toq/Model/GamesSeesaw.lean` AT THE PROGRAM LEVEL (the ordering chain of c07.py only sees the returned floats).

1. Program embedding (scheme B, feasibility-embedding check).  For a game with dyadic `prob_mat` / `pred_mat` an exact dyadic point is drawn:
   Bob POVMs `B[y, b]` and an Alice assemblage `A[x, a]` with `sum_a A[x, a] = tau`, `tr tau = 1`, all operators non-negative combinations of
   rank-one projectors of several resolutions of the identity with Gaussian-integer vectors (complex, Hermitian, not symmetric; PSD by
   construction), or the point of a deterministic strategy (`A[x, a] = [a = f x] tau`, `B[y, b] = [b = g y] I`).  The private builders are
   called with `cvxpy.Problem.solve` replaced (inside this process, restored afterwards) by a recorder that keeps the `Problem` and returns a
   sentinel WITHOUT solving, so the builders return their dict of variables; the exact point is written into the variables (`tau` = the one
   variable of Alice's problem that is not in the returned dict) and the harness demands
     * every captured constraint holds (equalities 1e-12, `>> 0` 1e-9) — the Lean model evaluates its own equality constraints exactly on the
       same point (`det_alice_feasible_eqs`, `det_bob_feasible_eqs` for deterministic points) and must find none violated,
     * the captured objective is a `Maximize` and its value at the point equals the exact rational `aliceObjective` / `bobObjective` of the Lean
       model (`bobObjective_eq_seesawWin`: = sum prob * pred * Re tr(B^H A); `aliceObjective_arr_eq_bobObjective` /
       `aliceObjective_var_eq_bobObjective`: the same form for both builders and for both presentations of Bob's operators; for deterministic
       points additionally = `detValueN` = the strategy's classical winning probability, `aliceObjective_det` / `bobObjective_det`) to 1e-12,
     * constraint counts against `aliceConstraints_length` / `bobConstraints_length` (a difference is a note, not an alarm),
     * controls, one or two per constraint of the model (`aliceConstraints`, `bobConstraints` as listed by the driver): a point that violates exactly that
       constraint (2 I moved from one block to the next for `>> 0`; E11 / 8 added to, or a non-zero block halved in, a sum; everything scaled by 2 or 1/2 for
       `tr tau = 1`) must be rejected by the captured constraints — a program that accepts it (dropped or weakened constraint) has an optimum that no
       quantum strategy achieves, so the "lower bound" is unsound; for the equality controls the Lean checker `Constr.holdsEq` must report exactly that
       constraint (else InfraError).
   Alice's builder is exercised with Bob's operators as NumPy arrays (first round of an inner loop) and as cvxpy variables carrying values
   (all later rounds); Bob's builder with Alice's variables carrying the exact assemblage.
2. Loop correspondence.  The real `quantum_value_lower_bound(dim=2, iters, tol)` runs with `random_povm` seeded from inside the harness process
   and `cvxpy.Problem.solve` wrapped by a recorder that really solves and records every returned value; the recorded values of Bob's solves
   (exact `Fraction(float)`), grouped per outer iteration (a `random_povm` call marks the boundary), are fed to the Lean loop model
   `seesawLoop`; the number of rounds per outer iteration must be what the model consumes (`innerGo_steps`, `innerGo_terminated`: stop after the
   first round whose increase is <= tol), the returned float must equal the model's result exactly and be one of the recorded Bob values
   (`seesawLoop_value_isMax`).  `tol >= 1` and `iters = 0` (no solve at all, `-inf`; `seesawLoop_of_one_le_tol`) are part of the stream.
   The same comparison with a SCRIPTED solver (`solve` returns prescribed values and gives every variable the value I/2; the builders still run): value
   sequences with increases above tol followed by one at or below it (slightly below, or a drop), non-monotone sequences under a negative or zero
   tolerance, Alice values larger than every Bob value (they must be ignored); the model is offered the whole script and must consume exactly as many
   values as the code did (`innerLoop_stop_rule`)."""
from __future__ import annotations

import multiprocessing
import os
import warnings
from fractions import Fraction

import numpy as np

from ..cert import DM
from ..common import CorrespondenceBroken, InfraError
from ..exact import Pure, case_rng, describe, present_nd

RULE_SEESAW = ("seesaw/program: shapes (ao, bo, ai, bi) in {(2,3,2,2), (3,2,2,3), (2,2,3,2), (2,3,3,2), (2,2,2,2)} x dim in {2, 3} x predicate kinds {frac (k/8 with "
               "zeros), generic (distinct k/256), 01, det (deterministic-strategy point on a fractional predicate)}, dyadic non-uniform prob_mat; exact "
               "points are mixtures (weights 1/2, 1/4, 1/4) of three projector resolutions (the first always (1, +-i)/sqrt2 on coordinates 0, 1) with dyadic "
               "conditional weights k/8; non-trivial = unequal answer or question alphabets and a non-constant predicate. seesaw/loop: real runs with "
               "dim = 2, iters in {2, 3}, tol in {1e-5, 1e-3, 5e-2} on seeded games of the same shapes, plus tol = 1.0 and iters = 0 (no solve), plus runs with a "
               "scripted solver: iters in 1..3, tol in {1e-5, 1e-3, 5e-2, 1/4, 0, -1/64}, per outer iteration 0..4 increases above tol then one at or below it; "
               "non-trivial = at least two rounds in some outer iteration and (unequal alphabets or scripted); distinct = hash of the exact inputs")
ASSUMPTIONS_SEESAW = [
    "seesaw/program: cvxpy evaluates captured constraint / objective expressions faithfully (Constraint.violation(), Expression.value); Variable.save_value "
    "writes a value without solving; Alice's variables are the dict the builder returns and tau is the single remaining variable of the captured problem",
    "seesaw/program: all data are dyadic with < 40 significant bits in every product, so the float evaluation by cvxpy is exact; tolerances 1e-12 (equalities, "
    "objective) and 1e-9 (eigenvalue computation of >> 0 constraints); positive semidefiniteness of the exact points holds by construction (non-negative "
    "combinations of projectors v v^H / |v|^2) and is evaluated by cvxpy, not by Lean",
    "seesaw/program: `expr >> 0` is evaluated as the smallest eigenvalue (numpy.linalg.eigvalsh) of the value cvxpy gives the captured expression; every other "
    "constraint through Constraint.violation(); a control point violates exactly one constraint of the model by >= 2^-11",
    "seesaw/loop: the solver (SCS / CLARABEL) is an input of the loop model: its returned values are recorded and replayed exactly; the only float operation of "
    "the loop, lower_bound - prev_win compared with tol, is compared with the exact difference, a case with |exact difference - tol| < 1e-12 is counted as "
    "borderline and skipped; random_povm is called once per outer iteration (used as the boundary marker) and is seeded by the harness; the scripted solver "
    "replaces cvxpy.Problem.solve by a function that returns the next scripted value and writes I/2 into every variable of the problem (the loop must not "
    "depend on anything else the solver does); scripted values are multiples of 2^-12 with margins >= 1/1024 around tol",
]

EQ_TOL = 1e-12
PSD_TOL = 1e-9
OBJ_TOL = Fraction(1, 10 ** 12)
SENTINEL = 0.640625
PROGRAM_SHAPES = [(2, 3, 2, 2), (3, 2, 2, 3), (2, 2, 3, 2), (2, 3, 3, 2), (2, 2, 2, 2)]
MAX_SOLVES = 120
THM_OBJ = ("bobObjective_eq_seesawWin, aliceObjective_arr_eq_bobObjective, aliceObjective_var_eq_bobObjective (objective of both programs = "
           "sum prob * pred * Re tr(B^H A)); aliceObjective_det / bobObjective_det (= detValueN at deterministic points)")
THM_FEAS = "det_alice_feasible_eqs, det_bob_feasible_eqs, aliceConstraints_length, bobConstraints_length (constraint system of the model)"
THM_LOOP = "seesawLoop_value_isMax, innerGo_steps, innerGo_terminated, innerLoop_stop_rule, innerLoop_steps_pos, seesawLoop_of_one_le_tol"


# ------------------------------------------------------------------------------------------------
# exact helpers


def _q(x):
    f = Fraction(float(x))
    return [f.numerator, f.denominator] if f.denominator != 1 else f.numerator


def _qlist(arr):
    return [_q(x) for x in np.asarray(arr, dtype=float).reshape(-1)]


def _frac(v):
    if v is None:
        return None
    if isinstance(v, list):
        return Fraction(v[0], v[1])
    return Fraction(v)


def _bad_constraints(P, psd_tol=PSD_TOL, eq_tol=EQ_TOL):
    """constraints of the captured problem that the current variable values violate: (index, kind, residual, text).  Equalities (and anything else) through
    cvxpy's Constraint.violation(); for `expr >> 0` the captured expression is evaluated by cvxpy and its smallest eigenvalue taken with numpy.linalg.eigvalsh
    (cvxpy's own residual calls scipy's eigvalsh with subset_by_index, i.e. LAPACK ?heevr, which raises `Internal Error` on some block-diagonal 3 x 3 values)"""
    bad = []
    for idx, c in enumerate(P.constraints):
        kind = type(c).__name__
        if kind == "PSD":
            mat = np.asarray(c.args[0].value, dtype=complex)
            r = float(max(0.0, -np.min(np.linalg.eigvalsh((mat + mat.conj().T) / 2)), np.max(np.abs(mat - mat.conj().T))))
        else:
            v = c.violation()
            r = float(np.max(np.abs(v))) if np.size(v) else 0.0
        if not np.isfinite(r) or r > (psd_tol if kind == "PSD" else eq_tol):
            bad.append([idx, kind, r, str(c)[:200]])
    return bad


def _build(fn):
    """Runs fn() with cvxpy.Problem.solve replaced (inside this process only, restored afterwards) by a recorder that keeps the Problem object
    and returns SENTINEL without solving; returns (recorded problems, fn's return value)."""
    import cvxpy

    captured = []
    orig = cvxpy.Problem.solve

    def fake(self, *a, **kw):
        captured.append(self)
        return SENTINEL

    cvxpy.Problem.solve = fake
    try:
        out = fn()
    finally:
        cvxpy.Problem.solve = orig
    return captured, out


# ------------------------------------------------------------------------------------------------
# generators (all values dyadic: float arithmetic below is exact)


def _rand_prob(rng, ai, bi):
    n = ai * bi
    m = int(rng.choice([16, 32, 64]))
    while True:
        w = rng.multinomial(m, np.ones(n) / n)
        if np.count_nonzero(w) >= n - 1 and len(set(w.tolist())) > 1:
            return (w / m).reshape(ai, bi).astype(float)


def _rand_pred(rng, shape, kind):
    n = int(np.prod(shape))
    if kind == "generic":
        return ((rng.permutation(256)[:n].reshape(shape) + 1) / 256.0).astype(float)
    if kind == "01":
        while True:
            p = (rng.random(size=shape) < rng.uniform(0.3, 0.7)).astype(float)
            if np.ptp(p) > 0:
                return p
    while True:  # frac
        p = rng.integers(1, 8, size=shape) / 8.0
        p = (p * (rng.random(size=shape) < 0.8)).astype(float)
        if np.any((p > 0) & (p < 1)) and np.ptp(p) > 0:
            return p


_VECS = {"h": ((1, 1), (1, -1)), "y": ((1, 1j), (1, -1j))}


def _resolution(d, kind, pair):
    """d rank-one projectors (entries in Z[i]/2) summing to the identity"""
    out = []
    rest = range(d)
    if kind != "z":
        for v in _VECS[kind]:
            vec = np.zeros(d, dtype=complex)
            vec[pair[0]], vec[pair[1]] = v
            out.append(np.outer(vec, vec.conj()) / 2)
        rest = [i for i in range(d) if i not in pair]
    for i in rest:
        e = np.zeros((d, d), dtype=complex)
        e[i, i] = 1
        out.append(e)
    return out


def _resolutions(rng, d):
    pairs = [(p, q) for p in range(d) for q in range(p + 1, d)]
    pool = [("h", pr) for pr in pairs] + [("y", pr) for pr in pairs[1:]] + [("z", None)]
    pick = rng.choice(len(pool), size=2, replace=False)
    return [_resolution(d, "y", (0, 1))] + [_resolution(d, *pool[int(i)]) for i in pick]


_WEIGHTS = (0.5, 0.25, 0.25)


def _probvec(rng, n, den=8):
    return rng.multinomial(den, np.ones(n) / n) / den


def _mixture(rng, d, res, nq, na, base):
    """fam[q][a] = sum_r w_r sum_j base[r][j] * c[r][q][j][a] * P^r_j with c[r][q][j] a dyadic probability vector over a:
    sum_a fam[q][a] = sum_r w_r sum_j base[r][j] P^r_j for every q"""
    fam = [[np.zeros((d, d), dtype=complex) for _ in range(na)] for _ in range(nq)]
    for q in range(nq):
        for r, projs in enumerate(res):
            for j, P in enumerate(projs):
                c = _probvec(rng, na)
                for a in range(na):
                    fam[q][a] = fam[q][a] + _WEIGHTS[r] * base[r][j] * c[a] * P
    return fam


def _point(task):
    """exact point of both programs, a function of the task alone: (A[x][a], B[y][b], tau, f, g) as complex float arrays with dyadic entries"""
    ao, bo, ai, bi = task["shape"]
    d = task["dim"]
    rng = case_rng("c07/seesaw/point", task["seed"], task["shape"], d, task["kind"])
    res = _resolutions(rng, d)
    ones = [[1.0] * d for _ in res]
    pw = [_probvec(rng, d) for _ in res]
    tau = np.zeros((d, d), dtype=complex)
    for r, projs in enumerate(res):
        for j, P in enumerate(projs):
            tau = tau + _WEIGHTS[r] * pw[r][j] * P
    if task["kind"] == "det":
        f = [int(t) for t in rng.integers(0, ao, size=ai)]
        g = [int(t) for t in rng.integers(0, bo, size=bi)]
        if ai > 1 and len(set(f)) == 1 and ao > 1:
            f[0] = (f[0] + 1) % ao
        if bi > 1 and len(set(g)) == 1 and bo > 1:
            g[-1] = (g[-1] + 1) % bo
        A = [[tau.copy() if a == f[x] else np.zeros((d, d), dtype=complex) for a in range(ao)] for x in range(ai)]
        B = [[np.eye(d, dtype=complex) if b == g[y] else np.zeros((d, d), dtype=complex) for b in range(bo)] for y in range(bi)]
        return A, B, tau, f, g
    B = _mixture(rng, d, res, bi, bo, ones)
    A = _mixture(rng, d, res, ai, ao, pw)
    return A, B, tau, None, None


def _mk_program_task(rng, shape, d, kind):
    ao, bo, ai, bi = shape
    prob = _rand_prob(rng, ai, bi)
    pred = _rand_pred(rng, shape, "frac" if kind == "det" else kind)
    return {"fn": "seesaw_program", "shape": list(shape), "dim": int(d), "kind": kind, "prob": prob.reshape(-1).tolist(),
            "pred": pred.reshape(-1).tolist(), "seed": int(rng.integers(0, 2 ** 31))}


def _desc(task):
    out = {k: task[k] for k in task if k not in ("prob", "pred")}
    out["prob"] = [_q(x) for x in task["prob"]]
    out["pred"] = [_q(x) for x in task["pred"]]
    return out


def _game_arrays(task):
    ao, bo, ai, bi = task["shape"]
    return np.array(task["prob"], dtype=float).reshape(ai, bi), np.array(task["pred"], dtype=float).reshape(ao, bo, ai, bi)


# ------------------------------------------------------------------------------------------------
# 1. program embedding


def _set_values(ctx, pairs, what, info):
    """pairs: (variable, exact complex array); the value must lie in the declared domain of the variable (Variable.value validates attributes)"""
    for v, val in pairs:
        try:
            v.value = val
        except Exception as e:  # noqa: BLE001
            ctx.violation(f"{what}: an exactly feasible operator (complex Hermitian, PSD) is not an admissible value of the variable {v.name()} "
                          f"{sorted(k for k, t in v.attributes.items() if t)}: {str(e)[:160]}", {**info, "impl": str(e)[:300], "theorem": THM_FEAS})
            return False
        v.save_value(val)
    return True


def _alice_controls(A, tau, ao, ai, d):
    """points that violate exactly one constraint of the model, by a margin >= 2^-11 (all entries are multiples of 2^-10; 'over' adds E11 / 8, 'under' halves a
    non-zero block, 'minus-2I' moves 2 I from one block to the next): (constraint, tag, {(x, a) or 'tau': spoiled value})"""
    eye = np.eye(d, dtype=complex)
    e11 = np.zeros((d, d), dtype=complex)
    e11[0, 0] = 0.125
    out = []
    for x in range(ai):
        if ao >= 2:
            for a in range(ao):
                out.append((["psdA", x, a], "minus-2I", {(x, a): A[x][a] - 2 * eye, (x, (a + 1) % ao): A[x][(a + 1) % ao] + 2 * eye}))
        out.append((["sumA", x], "over", {(x, 0): A[x][0] + e11}))
        a1 = next(a for a in range(ao) if np.any(A[x][a]))
        out.append((["sumA", x], "under", {(x, a1): A[x][a1] / 2}))
    for tag, s in (("over", 2.0), ("under", 0.5)):
        out.append((["trTau"], tag, {**{(x, a): s * A[x][a] for x in range(ai) for a in range(ao)}, "tau": s * tau}))
    return out


def _bob_controls(B, bo, bi, d):
    eye = np.eye(d, dtype=complex)
    e11 = np.zeros((d, d), dtype=complex)
    e11[0, 0] = 0.125
    out = []
    for y in range(bi):
        if bo >= 2:
            for b in range(bo):
                out.append((["psdB", y, b], "minus-2I", {(y, b): B[y][b] - 2 * eye, (y, (b + 1) % bo): B[y][(b + 1) % bo] + 2 * eye}))
        out.append((["sumB", y], "over", {(y, 0): B[y][0] + e11}))
        b1 = next(b for b in range(bo) if np.any(B[y][b]))
        out.append((["sumB", y], "under", {(y, b1): B[y][b1] / 2}))
    return out


def _check_captured(ctx, who, P, n_model, obj_model, info, controls, vars_of, lean_eq):
    """constraints, sense and objective of one captured problem at the point already written into its variables; then the controls: points violating exactly
    one constraint of the model must be rejected by the captured constraints (and, for the equalities, by the Lean checker in exactly that constraint)"""
    what = f"NonlocalGame.__optimize_{who}"
    bad = _bad_constraints(P)
    if bad:
        ctx.violation(f"{what}: an exactly feasible point (assemblage / POVM family with dyadic entries) violates {len(bad)} of the {len(P.constraints)} "
                      f"constraints the code emits, e.g. {bad[0]}", {**info, "function": what, "violated": bad[:6], "theorem": THM_FEAS})
    if type(P.objective).__name__ != "Maximize":
        ctx.violation(f"{what}: the captured objective is {type(P.objective).__name__}, the see-saw step maximises", {**info, "function": what,
                      "impl": type(P.objective).__name__, "model": "Maximize", "theorem": THM_OBJ})
    val = P.objective.expr.value
    obj = None if val is None else complex(np.asarray(val).reshape(-1)[0])
    if obj is None or not np.isfinite(obj) or obj.imag != 0 or abs(Fraction(obj.real) - obj_model) > OBJ_TOL:
        shown = obj.real if obj is not None and obj.imag == 0 else obj
        ctx.violation(f"{what}: captured objective at the exact point is {shown!r}, the model's sum prob * pred * Re tr(B^H A) is {obj_model} = {float(obj_model)!r}",
                      {**info, "function": what + " (objective)", "impl": repr(shown), "model": str(obj_model), "theorem": THM_OBJ})
    n_code = [len(P.constraints), sum(1 for c in P.constraints if type(c).__name__ == "PSD")]
    n_code.append(n_code[0] - n_code[1])
    if n_code == list(n_model):
        ctx.count(f"seesaw/program/{who}/constraint-counts-equal-model")
    else:
        ctx.count(f"seesaw/program/{who}/constraint-counts-differ-from-model")
        ctx.note(f"__optimize_{who} shape={info['args']['shape']} dim={info['args']['dim']}: code has [total, psd, eq] = {n_code}, model {list(n_model)} (informational)")
    if bad or controls is None:
        return
    for con, tag, spoiled in controls:
        keep = {k: vars_of[k].value for k in spoiled}
        for k, val in spoiled.items():
            vars_of[k].save_value(val)
        rejected = bool(_bad_constraints(P))
        for k, val in keep.items():
            vars_of[k].save_value(val)
        if lean_eq is not None and con[0] in ("sumA", "trTau", "sumB"):
            got = lean_eq(spoiled)
            if got != [con]:
                raise InfraError(f"Lean: control point for {con} ({tag}) violates {got} in the model's equality checker on {info['args']}")
        if rejected:
            ctx.count(f"seesaw/program/{who}/control-rejected/{con[0]}-{tag}")
        else:
            ctx.violation(f"{what}: a point violating the model's constraint {con} ({tag}, margin >= 2^-11) and no other passes every constraint the code emits: "
                          f"the program's optimum is then not a value achieved by a quantum strategy",
                          {**info, "function": what + " (constraints)", "control": {"constraint": con, "tag": tag}, "impl": "accepted", "model": "rejected",
                           "theorem": THM_FEAS + "; the feasible set of the model is the set of assemblages / POVM families"})


def check_program(ctx, task):
    """one game, one exact point: Alice's program (Bob as arrays), Bob's program, Alice's program again (Bob as variables with values)"""
    import cvxpy
    from toqito.nonlocal_games.nonlocal_game import NonlocalGame

    warnings.filterwarnings("ignore")
    ao, bo, ai, bi = task["shape"]
    d = task["dim"]
    prob, pred = _game_arrays(task)
    A, B, tau, f, g = _point(task)
    desc = _desc(task)
    ctx.case(desc, bool((ao != bo or ai != bi) and np.ptp(pred) > 0), f"seesaw/program/{task['kind']}/dim={d}")
    game_args = {"ao": ao, "bo": bo, "ai": ai, "bi": bi, "dim": d, "prob": _qlist(prob), "pred": _qlist(pred)}

    def exact_of(Am, Bm, tm):
        return {"A": [DM.exact_float(Am[x][a]).json() for x in range(ai) for a in range(ao)],
                "B": [DM.exact_float(Bm[y][b]).json() for y in range(bi) for b in range(bo)], "tau": DM.exact_float(tm).json()}

    exact = exact_of(A, B, tau)
    largs = {**game_args, **exact}
    if f is not None:
        largs.update({"f": f, "g": g})
    m = ctx.lean().ask("c07_seesaw_objective", largs)
    if "reject" in m:
        raise InfraError(f"driver rejected {desc}: {m}")
    if m["alice_violated"] or m["bob_violated"] or m["nonhermitian"]:
        raise InfraError(f"generator: the exact point is not feasible for the model: {m['alice_violated'][:3]} {m['bob_violated'][:3]} {m['nonhermitian'][:3]} on {desc}")
    objm = _frac(m["alice_objective"])
    if not (objm == _frac(m["bob_objective"]) == _frac(m["win"]) == _frac(m["hs"])):
        raise InfraError(f"Lean: aliceObjective / bobObjective / seesawWin / Hilbert-Schmidt form differ (proved equal): {m} on {desc}")
    if f is not None and _frac(m["det_value"]) != objm:
        raise InfraError(f"Lean: objective {m['alice_objective']} != detValueN {m['det_value']} at a deterministic point (aliceObjective_det) on {desc}")

    def lean_eq_alice(spoiled):
        A2 = [[spoiled.get((x, a), A[x][a]) for a in range(ao)] for x in range(ai)]
        r = ctx.lean().ask("c07_seesaw_objective", {**game_args, **exact_of(A2, B, spoiled.get("tau", tau)), "eq_only": True})
        return r["alice_violated"] + r["bob_violated"]

    def lean_eq_bob(spoiled):
        B2 = [[spoiled.get((y, b), B[y][b]) for b in range(bo)] for y in range(bi)]
        r = ctx.lean().ask("c07_seesaw_objective", {**game_args, **exact_of(A, B2, tau), "eq_only": True})
        return r["alice_violated"] + r["bob_violated"]

    info = {"args": {**desc, "f": f, "g": g}, "point": exact}
    prng = case_rng("c07/seesaw/present", task["seed"], task["shape"], d, task["kind"])
    pprob, ppred = present_nd(prng, prob, bool_ok=True), present_nd(prng, pred, bool_ok=True)
    info["presentation"] = {"prob": describe(pprob), "pred": describe(ppred)}
    try:
        game = NonlocalGame(pprob, ppred)
    except Exception as e:  # noqa: BLE001
        ctx.violation(f"NonlocalGame(prob_mat, pred_mat) raised {type(e).__name__}: {str(e)[:200]}", {**info, "function": "NonlocalGame", "impl": repr(e)[:300],
                      "theorem": THM_OBJ})
        return
    bob_arr = {(y, b): present_nd(prng, B[y][b], allow_dtype=False) for y in range(bi) for b in range(bo)}
    guard = Pure(pprob, ppred, *[bob_arr[k] for k in sorted(bob_arr)])

    def fam_vars(out, nq, na, who):
        if not (isinstance(out, tuple) and len(out) == 2 and isinstance(out[0], dict)):
            raise CorrespondenceBroken(f"__optimize_{who} no longer returns (dict of variables, value): {type(out).__name__}")
        vs = out[0]
        keys = [(q, a) for q in range(nq) for a in range(na)]
        if any(k not in vs or not isinstance(vs[k], cvxpy.Variable) or tuple(vs[k].shape) != (d, d) for k in keys):
            raise CorrespondenceBroken(f"__optimize_{who}: the returned dict does not hold one ({d}, {d}) variable per (question, answer)")
        ctx.count(f"seesaw/program/{who}/returns-the-value-of-solve" if out[1] == SENTINEL else f"seesaw/program/{who}/returns-another-value-than-solve")
        return {k: vs[k] for k in keys}

    def run_alice(bob, tag, with_controls):
        try:
            probs, out = _build(lambda: game._NonlocalGame__optimize_alice(d, bob))
        except Exception as e:  # noqa: BLE001
            ctx.violation(f"__optimize_alice(dim={d}, bob_povms as {tag}) raised {type(e).__name__}: {str(e)[:200]} while building its problem for shape {tuple(task['shape'])}",
                          {**info, "function": "NonlocalGame.__optimize_alice", "impl": repr(e)[:300], "theorem": THM_OBJ})
            return None
        if len(probs) != 1:
            raise CorrespondenceBroken(f"expected one cvxpy problem from __optimize_alice, captured {len(probs)}")
        P = probs[0]
        av = fam_vars(out, ai, ao, "alice")
        ids = {id(v) for v in av.values()}
        rest = [v for v in P.variables() if id(v) not in ids]
        if len(rest) != 1 or tuple(rest[0].shape) != (d, d) or len(P.variables()) != ai * ao + 1:
            raise CorrespondenceBroken(f"__optimize_alice: cannot identify tau among the variables {[(v.name(), v.shape) for v in P.variables()]}")
        sub = {**info, "bob_povms": tag}
        if _set_values(ctx, [(av[x, a], A[x][a]) for x in range(ai) for a in range(ao)] + [(rest[0], tau)], "__optimize_alice", sub):
            _check_captured(ctx, "alice", P, m["alice_counts"], objm, sub, _alice_controls(A, tau, ao, ai, d) if with_controls else None,
                            {**av, "tau": rest[0]}, lean_eq_alice)
        return av

    av = run_alice(bob_arr, "ndarray", True)
    if guard.modified():
        ctx.violation("NonlocalGame.__optimize_alice: caller's arguments were modified", {**info, "function": "NonlocalGame.__optimize_alice",
                      "modified": guard.modified(), "theorem": "methods_pure"})
    if av is None:
        return
    # Bob's program on Alice's variables carrying the exact assemblage
    for x in range(ai):
        for a in range(ao):
            av[x, a].save_value(A[x][a])
    try:
        probs, out = _build(lambda: game._NonlocalGame__optimize_bob(d, av))
    except Exception as e:  # noqa: BLE001
        ctx.violation(f"__optimize_bob(dim={d}, alice_povms) raised {type(e).__name__}: {str(e)[:200]} while building its problem for shape {tuple(task['shape'])}",
                      {**info, "function": "NonlocalGame.__optimize_bob", "impl": repr(e)[:300], "theorem": THM_OBJ})
        return
    if len(probs) != 1:
        raise CorrespondenceBroken(f"expected one cvxpy problem from __optimize_bob, captured {len(probs)}")
    P = probs[0]
    bv = fam_vars(out, bi, bo, "bob")
    ids = {id(v) for v in bv.values()}
    if len(P.variables()) != bi * bo or any(id(v) not in ids for v in P.variables()):
        raise CorrespondenceBroken(f"__optimize_bob: the variables of the captured problem are not the returned ones: {[(v.name(), v.shape) for v in P.variables()]}")
    if _set_values(ctx, [(bv[y, b], B[y][b]) for y in range(bi) for b in range(bo)], "__optimize_bob", info):
        _check_captured(ctx, "bob", P, m["bob_counts"], objm, info, _bob_controls(B, bo, bi, d), bv, lean_eq_bob)
        # later rounds: Alice's builder sees Bob's operators as variables with values
        run_alice(bv, "variables", False)
    if guard.modified():
        ctx.violation("NonlocalGame.__optimize_bob / __optimize_alice: caller's arguments were modified", {**info, "function": "NonlocalGame.__optimize_bob",
                      "modified": guard.modified(), "theorem": "methods_pure"})


def program_tasks(ctx, quick):
    rng = ctx.rng
    tasks = []
    for rep in range(1 if quick else 6):
        for shape in PROGRAM_SHAPES:
            for d in (2, 3):
                kinds = ["frac", str(rng.choice(["generic", "01", "det"]))] if quick else ["frac", "generic", "01", "det"]
                for kind in kinds:
                    tasks.append(_mk_program_task(rng, shape, d, kind))
    return tasks


# ------------------------------------------------------------------------------------------------
# 2. loop correspondence


class _TooManySolves(Exception):
    pass


def _loop_worker(task):
    """runs the real quantum_value_lower_bound and records what `solve` returned, in order, grouped by random_povm calls.  Without `script` the solver really
    solves; with `script` (per outer iteration a list of [Alice value, Bob value]) `solve` returns the scripted values and gives every variable the value I/2."""
    import cvxpy
    import toqito.nonlocal_games.nonlocal_game as ng

    warnings.filterwarnings("ignore")
    os.environ.setdefault("OMP_NUM_THREADS", "1")
    prob, pred = _game_arrays(task)
    prng = case_rng("c07/seesaw/loop", task["seed"], task["shape"], task["iters"], task["tol"])
    pprob, ppred = present_nd(prng, prob, bool_ok=True), present_nd(prng, pred, bool_ok=True)
    guard = Pure(pprob, ppred)
    game = ng.NonlocalGame(pprob, ppred)
    script = task.get("script")
    rounds, before, solvers = [], [], set()
    state = {"k": 0, "n": 0}
    orig_povm, orig_solve = ng.random_povm, cvxpy.Problem.solve

    def seeded_povm(dim, n_in, n_out):
        state["k"] += 1
        rounds.append([])
        return orig_povm(dim, n_in, n_out, seed=task["seed"] * 1000 + state["k"])

    def rec_solve(self, *a, **k):
        state["n"] += 1
        if state["n"] > MAX_SOLVES:
            raise _TooManySolves()
        if script is None:
            r = orig_solve(self, *a, **k)
            try:
                solvers.add(self.solver_stats.solver_name)
            except Exception:  # noqa: BLE001
                solvers.add("?")
        else:
            i, pos = len(rounds) - 1, len(rounds[-1]) if rounds else 0
            if i < 0 or i >= len(script) or pos >= 2 * len(script[i]):
                raise _TooManySolves()
            r = script[i][pos // 2][pos % 2]
            for v in self.variables():
                v.save_value(np.eye(v.shape[0], dtype=complex) / 2)
            solvers.add("scripted")
        (rounds[-1] if rounds else before).append(None if r is None else float(r))
        return r

    ng.random_povm, cvxpy.Problem.solve = seeded_povm, rec_solve
    err = v = None
    try:
        v = game.quantum_value_lower_bound(dim=task["dim"], iters=task["iters"], tol=task["tol"])
    except _TooManySolves:
        err = "too-many-solves"
    except Exception as e:  # noqa: BLE001
        err = f"{type(e).__name__}: {str(e)[:200]}"
    finally:
        ng.random_povm, cvxpy.Problem.solve = orig_povm, orig_solve
    return {"value": None if v is None else float(v), "err": err, "rounds": rounds, "before": before, "solvers": sorted(solvers),
            "modified": guard.modified(), "presentation": {"prob": describe(pprob), "pred": describe(ppred)}}


def judge_loop(ctx, task, res):
    desc = _desc(task)
    ao, bo, ai, bi = task["shape"]
    rounds = res["rounds"]
    script = task.get("script")
    flat = [v for r in rounds for v in r] + res["before"]
    info = {"function": "NonlocalGame.quantum_value_lower_bound", "args": desc, "recorded": rounds, "impl": res["value"], "solvers": res["solvers"],
            "presentation": res["presentation"], "theorem": THM_LOOP}
    many = any(len(r) >= 4 for r in rounds)
    ctx.case(desc, bool(many and (script is not None or ao != bo or ai != bi)),
             f"seesaw/loop/{'scripted' if script is not None else 'solver'}/iters={task['iters']}/tol={task['tol']}")
    for s in res["solvers"]:
        ctx.count(f"seesaw/loop/solver={s}")
    ran_out = res["err"] == "too-many-solves"
    if res["err"] is not None and not ran_out:
        ctx.violation(f"quantum_value_lower_bound(dim={task['dim']}, iters={task['iters']}, tol={task['tol']}) failed on a valid game: {res['err']}", info)
        return
    if res["modified"]:
        ctx.violation("NonlocalGame.quantum_value_lower_bound: caller's arguments were modified", {**info, "modified": res["modified"], "theorem": "methods_pure"})
    if any(v is None or not np.isfinite(v) for v in flat):
        ctx.count("seesaw/loop/solver-returned-non-finite-value")
        return
    if ran_out and rounds and len(rounds[-1]) % 2:
        rounds = rounds[:-1] + [rounds[-1][:-1]]       # the run was cut inside a round: judge the complete rounds
    if res["before"] or (not ran_out and len(rounds) != task["iters"]) or len(rounds) > task["iters"] or any(len(r) % 2 for r in rounds):
        raise CorrespondenceBroken(f"quantum_value_lower_bound no longer has the modelled structure (one random_povm call per outer iteration followed by "
                                   f"(Alice solve, Bob solve) rounds): {[len(r) for r in rounds]} solves per random_povm call, {len(res['before'])} before the first, iters={task['iters']}")
    bob = [[Fraction(v) for v in r[1::2]] for r in rounds]
    steps = [len(v) for v in bob]
    # the values offered to the model: everything the scripted solver would have returned, or exactly what the real solver returned
    offered = bob if script is None else [[Fraction(float(p[1])) for p in s] for s in script[:len(rounds)]]
    tol = Fraction(float(task["tol"]))
    for vals, n in zip(offered, steps):
        prev = Fraction(-1)
        for v in vals[:n + 1]:
            if abs((v - prev) - tol) < Fraction(1, 10 ** 12):
                ctx.count("seesaw/loop/borderline-increase-skipped")
                return
            prev = v
    m = ctx.lean().ask("c07_seesaw_loop", {"iters": len(rounds), "tol": [tol.numerator, tol.denominator],
                                              "vals": [[[v.numerator, v.denominator] for v in vals] for vals in offered]})
    info["model"] = m
    if ran_out:
        # the run was stopped by the harness (MAX_SOLVES / end of the script): an alarm only if the model's loop had stopped earlier on the same values
        if any(ms < s for ms, s in zip(m["steps"], steps)):
            ctx.violation(f"quantum_value_lower_bound(iters={task['iters']}, tol={task['tol']}) was still running after {steps} rounds per outer iteration; on the values "
                          f"its solver returned the loop `while it_diff > tol` of the model stops after {m['steps']}", info)
        else:
            ctx.count("seesaw/loop/no-convergence-within-the-solve-budget")
        return
    if m["steps"] != steps or not m["terminated"]:
        ctx.violation(f"quantum_value_lower_bound(iters={task['iters']}, tol={task['tol']}) ran {steps} rounds per outer iteration; on the values its solver returned the "
                      f"loop `while it_diff > tol` of the model runs {m['steps']} (terminated within them: {m['terminated']}): the loop stops after the first round whose "
                      f"increase is <= tol", info)
        return
    ctx.count(f"seesaw/loop/rounds={'+'.join(str(s) for s in steps) or 'none'}")
    mv = _frac(m["value"])
    v = res["value"]
    if mv is None:
        if v != float("-inf"):
            ctx.violation(f"quantum_value_lower_bound returned {v!r} without any solve; the model returns float('-inf')", info)
        else:
            ctx.count("seesaw/loop/no-round-returns-minus-inf")
        return
    if v is None or not np.isfinite(v) or Fraction(v) != mv:
        ctx.violation(f"quantum_value_lower_bound(iters={task['iters']}, tol={task['tol']}) returned {v!r}; the maximum of the values returned by Bob's solves is "
                      f"{float(mv)!r} (rounds per outer iteration {steps})", info)
        return
    if Fraction(v) not in [x for vals in bob for x in vals]:
        raise InfraError(f"Lean: the model's value {mv} is not one of the consumed values (contradicts seesawLoop_value_isMax) on {desc}")
    if any(Fraction(v) != vals[-1] for vals in bob if vals) and max(vals[-1] for vals in bob if vals) != Fraction(v):
        ctx.count("seesaw/loop/maximum-is-not-a-last-value")


def _mk_loop_task(rng, shape, iters, tol, kind):
    ao, bo, ai, bi = shape
    return {"fn": "seesaw_loop", "shape": list(shape), "dim": 2, "iters": int(iters), "tol": float(tol), "kind": kind,
            "prob": _rand_prob(rng, ai, bi).reshape(-1).tolist(), "pred": _rand_pred(rng, shape, kind).reshape(-1).tolist(),
            "seed": int(rng.integers(1, 2 ** 20))}


def _script(rng, iters, tol):
    """per outer iteration a list of [Alice value, Bob value]: Bob's increases are 'go' (> tol by >= 1/128) n times, then one 'stop' (<= tol by >= 1/1024:
    slightly below tol, or a drop), then two more entries (increase tol + 1/2) that must never be consumed; Alice's values are larger than every Bob value (they
    must be ignored); all values are multiples of 2^-12 (tol itself may be any float), so the float subtraction of the loop is exact"""
    grid = 4096
    tq = Fraction(float(tol))
    out = []
    for _ in range(iters):
        n_go = int(rng.integers(0, 5))
        prev = Fraction(-1)
        bob = []
        for k in range(n_go + 3):
            if k == n_go:
                extra = Fraction(int(rng.integers(0, 64)), grid) if rng.integers(2) else Fraction(int(rng.integers(200, 1200)), grid)
                v = Fraction(((prev + tq - Fraction(1, 1024) - extra) * grid).__floor__(), grid)
            else:
                inc = tq + (Fraction(1, 128) + Fraction(int(rng.integers(0, 400)), grid) if k < n_go else Fraction(1, 2))
                v = Fraction(((prev + inc) * grid).__ceil__(), grid)
            bob.append(v)
            prev = v
        out.append([[float(3 + Fraction(int(rng.integers(0, grid)), grid)), float(v)] for v in bob])
    return out


def loop_tasks(ctx, quick):
    rng = ctx.rng
    tasks = []
    plan = [((2, 3, 2, 2), 2, 1e-5, "frac"), ((2, 2, 3, 2), 2, 1e-3, "01"), ((3, 2, 2, 3), 2, 5e-2, "frac"), ((2, 2, 2, 2), 3, 1e-5, "01")]
    if not quick:
        for _ in range(28):
            shape = PROGRAM_SHAPES[int(rng.integers(len(PROGRAM_SHAPES)))]
            plan.append((shape, int(rng.integers(1, 4)), float(rng.choice([1e-7, 1e-5, 1e-3, 5e-2, 0.5])), str(rng.choice(["frac", "01", "generic"]))))
    for shape, iters, tol, kind in plan:
        tasks.append(_mk_loop_task(rng, shape, iters, tol, kind))
    # no solve at all: tol >= 1 (the start value it_diff = 1 fails `it_diff > tol`) and iters = 0
    tasks.append(_mk_loop_task(rng, (2, 3, 2, 2), 2, 1.0, "frac"))
    tasks.append(_mk_loop_task(rng, (2, 3, 2, 2), 0, 1e-5, "frac"))
    # scripted solver: the loop logic on prescribed value sequences (non-monotone, stopping by a small increase / no increase / a drop, negative tolerance)
    for _ in range(12 if quick else 120):
        tol = float(rng.choice([1e-5, 1e-3, 5e-2, 0.25, -1 / 64, 0.0]))
        iters = int(rng.integers(1, 4))
        t = _mk_loop_task(rng, (2, 2, 2, 2) if rng.integers(2) else (2, 3, 2, 2), iters, tol, "01")
        t["script"] = _script(rng, iters, tol)
        tasks.append(t)
    return tasks


def run_loops(ctx, tasks):
    if not tasks:
        return
    for mod in ("cvxpy", "scs", "clarabel", "toqito.nonlocal_games.nonlocal_game"):
        try:
            __import__(mod)
        except Exception:  # noqa: BLE001
            pass
    workers = max(1, min(16, os.cpu_count() or 1, len(tasks)))
    if workers == 1 or len(tasks) == 1:
        results = [_loop_worker(t) for t in tasks]
    else:
        with multiprocessing.get_context("fork").Pool(workers) as pool:
            results = pool.map(_loop_worker, tasks, chunksize=1)
    for task, res in zip(tasks, results):
        try:
            judge_loop(ctx, task, res)
        except CorrespondenceBroken as e:
            ctx.broken.append(str(e))


# ------------------------------------------------------------------------------------------------


def seesaw_stream(ctx, quick):
    ptasks = program_tasks(ctx, quick)
    ltasks = loop_tasks(ctx, quick)
    for task in ptasks:
        try:
            check_program(ctx, task)
        except CorrespondenceBroken as e:
            ctx.broken.append(str(e))
    run_loops(ctx, ltasks)


def replay_seesaw(ctx, rec) -> bool:
    a = rec.get("args", {})
    fn = a.get("fn")
    if fn not in ("seesaw_program", "seesaw_loop"):
        return False
    task = {k: v for k, v in a.items() if k not in ("f", "g")}
    task["prob"] = [float(_frac(x)) for x in a["prob"]]
    task["pred"] = [float(_frac(x)) for x in a["pred"]]
    if fn == "seesaw_program":
        check_program(ctx, task)
    else:
        run_loops(ctx, [task])
    return True
