"""C19 helpers: a recording proxy for NumPy's random machinery and LAPACK entry points, exact dyadic conversion.

`Recorder` is a context manager that, for the duration of ONE toqito call,
 * replaces `np.random.default_rng` by a wrapper that logs every construction (with the seed it was given) and returns a proxy of the
   real `numpy.random.Generator` logging every method call (name, shape of the result, the returned array itself),
 * replaces `np.linalg.qr`, `np.linalg.svd`, `np.linalg.eigh` and `scipy.linalg.fractional_matrix_power` by logging pass-throughs
   (inputs and outputs: the LAPACK factors are *inputs* of the Lean post-processing models, DESIGN.md scheme C),
 * remembers the state of NumPy's global generator at entry and at exit.
The real functions do all the work; nothing about the values is changed.
"""
from __future__ import annotations

from fractions import Fraction

import numpy as np
import scipy.linalg

_REAL_DEFAULT_RNG = np.random.default_rng
_NO_SEED = object()


def real_default_rng(seed=None):
    """the unpatched constructor (usable inside a Recorder block)"""
    return _REAL_DEFAULT_RNG(seed)


class _GenProxy:
    def __init__(self, gen, log):
        object.__setattr__(self, "_gen", gen)
        object.__setattr__(self, "_log", log)

    def __getattr__(self, name):
        attr = getattr(self._gen, name)
        if not callable(attr):
            return attr
        log = self._log

        def method(*a, **k):
            out = attr(*a, **k)
            arr = np.array(out, copy=True)
            log.append(("draw", name, list(arr.shape), arr))
            return out
        return method


def state_key(st):
    return (st[0], st[1].tobytes(), st[2], st[3], st[4])


class Recorder:
    def __init__(self):
        self.events = []       # ("construct", seed) | ("draw", method, shape, array)
        self.lapack = []       # (name, args, output)
        self.state_in = None
        self.state_out = None

    def __enter__(self):
        rec = self

        def default_rng(seed=None, *a, **k):
            rec.events.append(("construct", seed))
            return _GenProxy(_REAL_DEFAULT_RNG(seed, *a, **k), rec.events)

        def wrap(mod, name):
            real = getattr(mod, name)

            def f(*a, **k):
                out = real(*a, **k)
                rec.lapack.append((name, [np.array(x, copy=True) if isinstance(x, np.ndarray) else x for x in a], out))
                return out
            return real, f
        self._saved = []
        for mod, name in ((np.linalg, "qr"), (np.linalg, "svd"), (np.linalg, "eigh"), (scipy.linalg, "fractional_matrix_power")):
            real, f = wrap(mod, name)
            self._saved.append((mod, name, real))
            setattr(mod, name, f)
        self._saved.append((np.random, "default_rng", np.random.default_rng))
        np.random.default_rng = default_rng
        self.state_in = state_key(np.random.get_state())
        return self

    def __exit__(self, *exc):
        self.state_out = state_key(np.random.get_state())
        for mod, name, real in self._saved:
            setattr(mod, name, real)
        return False

    # -- views
    def event_names(self):
        return [["construct"] if e[0] == "construct" else [e[1], e[2]] for e in self.events]

    def construct_seeds(self):
        return [e[1] for e in self.events if e[0] == "construct"]

    def draws(self):
        return [e[3] for e in self.events if e[0] == "draw"]

    def lapack_calls(self, name):
        return [c for c in self.lapack if c[0] == name]


def replay_events(model_events, seed):
    """run the model's draw program on fresh generators of `seed`: the arrays in program order"""
    out = []
    gen = None
    for ev in model_events:
        if ev[0] == "construct":
            gen = _REAL_DEFAULT_RNG(seed)
        else:
            shape = tuple(ev[1])
            if ev[0] == "random":
                out.append(gen.random(shape))
            elif ev[0] == "standard_normal":
                out.append(gen.standard_normal(shape))
            elif ev[0] == "normal":
                out.append(gen.normal(size=shape))
            else:
                raise ValueError(f"unknown draw {ev[0]}")
    return out


def same_bits(a, b):
    a, b = np.asarray(a), np.asarray(b)
    return a.dtype == b.dtype and a.shape == b.shape and a.tobytes() == b.tobytes()


# ---------------------------------------------------------------------------------------------- exact dyadics

def _ratio(x):
    n, d = float(x).as_integer_ratio()
    return n, d.bit_length() - 1


def dyadic(arrs):
    """list of (real or complex, finite) arrays -> (e, [{"re": ints, "im": ints}]) with entries = int / 2^e, row-major; exact"""
    parts = []
    e = 0
    for a in arrs:
        a = np.asarray(a)
        flat = a.reshape(-1)
        re = [_ratio(np.real(z)) for z in flat]
        im = [_ratio(np.imag(z)) for z in flat] if np.iscomplexobj(a) else None
        for n, k in re + (im or []):
            e = max(e, k)
        parts.append((re, im))
    out = []
    for re, im in parts:
        d = {"re": [n << (e - k) for n, k in re]}
        d["im"] = [n << (e - k) for n, k in im] if im is not None else [0] * len(re)
        out.append(d)
    return e, out


def undyadic(obj, e, shape):
    """{"re": ints, "im": ints} at exponent e -> complex ndarray (correctly rounded division)"""
    den = 1 << e
    re = [float(Fraction(n, den)) for n in obj["re"]]
    im = [float(Fraction(n, den)) for n in obj["im"]]
    return (np.array(re) + 1j * np.array(im)).reshape(shape)


def unrat(pairs, shape=None):
    """[[num, den], ...] -> float ndarray"""
    a = np.array([float(Fraction(int(n), int(d))) for n, d in pairs])
    return a if shape is None else a.reshape(shape)
