"""C16 hardening: structured negative (and a few positive) instances that random perturbations never reach.

* "almost mutually unbiased" pairs of orthonormal bases: the overlap table |<u_k|v_l>|^2 equals 1/d everywhere except on a small
  rectangle {r1,r2} x {c1,c2} placed at a prescribed position (lower-left / upper-right / anywhere), so that a loop that leaves out
  some (k, l) pairs of two different bases is exposed.  Two constructions:
    - exact, d = 4: a complex Hadamard matrix with entries in {1,-1,i,-i} (Fourier matrix, permuted and re-phased) in which two
      rows are mixed by a Pythagorean rotation (c, s·ph; -s·conj(ph), c); entries stay in Q[i], the Lean decider sees the exact set;
    - float, d = 3..6: a unitary with PRESCRIBED moduli sqrt(1/d + E), E = +-eps on the rectangle, found by solving U U* = I for the
      phases from the Fourier matrix; the float vectors ARE the exact input (dyadic rationals) and the Lean decider says `no` because
      four overlaps differ from 1/d by eps >= 1/100 (margin 1/1000), whatever the 1e-16 residuals of the other entries are.
  Both listing orders of the two bases (the table is transposed by swapping them) and a common unitary.
* mutually orthogonal sets that contain zero vectors, with more members than the dimension (the zero vector is orthogonal to
  everything; repository test: [0, e_0] is mutually orthogonal), and the same sets with one zero vector replaced by a small
  multiple of a member (not orthogonal by a margin).

The oracle is the exact decider of the definition in Lean (c16_mub / c16_set_pred), as for the other set predicates.
All random choices come from a generator of their own (seed, 16, tag): the streams of the older generators are unchanged.
"""
from __future__ import annotations

from fractions import Fraction

import numpy as np


def hard_rng(ctx, tag):
    return np.random.default_rng([int(ctx.seed), 16, int(tag)])


FORMS = ("1d", "col", "mixed")

# ------------------------------------------------------------------------------------------------
# almost-MUB pairs


def _place(rng, d, old, new):
    """index list idx (length d) with idx[new[t]] = old[t]; the remaining old indices fill the remaining places in random order"""
    rest_old = [i for i in range(d) if i not in old]
    rest_old = [rest_old[int(k)] for k in rng.permutation(len(rest_old))]
    idx = [None] * d
    for o, n in zip(old, new):
        idx[n] = o
    it = iter(rest_old)
    for i in range(d):
        if idx[i] is None:
            idx[i] = next(it)
    return idx


def exact_almost_mub4(C, rng, rows=None, cols=None):
    """(W, table, dev): W = 2·U in Q[i]^(4x4) with U unitary, table[r][k] = |U[r,k]|^2 (Fractions), dev = set of (r,k) with
    table != 1/4.  When the deviation is a 2x2 rectangle it is moved to rows x cols (if given)."""
    QM = C.QM
    tab = [1, 1j, -1, -1j]
    F = QM.from_np(np.array([[tab[(j * k) % 4] for k in range(4)] for j in range(4)]))
    H = C.phase_matrix(rng, 4, True) @ C.perm_matrix(rng.permutation(4)) @ F @ C.perm_matrix(rng.permutation(4)) @ C.phase_matrix(rng, 4, True)
    r1, r2 = sorted(int(x) for x in rng.choice(4, size=2, replace=False))
    a, b, c = C.PYTH[int(rng.integers(len(C.PYTH)))]
    cs, sn = Fraction(a, c), Fraction(b, c)
    want_flat = rng.integers(6) == 0           # now and then the phase that keeps the table flat: a genuine pair
    best = None
    for ph in ((1, 0), (0, 1)):
        R = QM.eye(4)
        R.re[r1, r1], R.re[r2, r2] = cs, cs
        R.re[r1, r2], R.im[r1, r2] = sn * ph[0], sn * ph[1]
        R.re[r2, r1], R.im[r2, r1] = -sn * ph[0], sn * ph[1]
        W = R @ H
        table = [[(W.re[r, k] ** 2 + W.im[r, k] ** 2) / 4 for k in range(4)] for r in range(4)]
        dev = {(r, k) for r in range(4) for k in range(4) if table[r][k] != Fraction(1, 4)}
        ncols = len({k for _, k in dev})
        score = (ncols == 0) if want_flat else (ncols == 2) * 2 + (ncols == 4)
        if best is None or score > best[0]:
            best = (score, W, dev)
    _, W, dev = best
    dcols = sorted({k for _, k in dev})
    if len(dcols) == 2 and rows is not None:
        ri = _place(rng, 4, [r1, r2], list(rows))
        ci = _place(rng, 4, dcols, list(cols))
        W = QM(W.re[ri][:, ci], W.im[ri][:, ci])
    table = [[(W.re[r, k] ** 2 + W.im[r, k] ** 2) / 4 for k in range(4)] for r in range(4)]
    dev = {(r, k) for r in range(4) for k in range(4) if table[r][k] != Fraction(1, 4)}
    return W, table, dev


def float_almost_mub(d, rows, cols, eps, rng=None):
    """float unitary U (d x d) with |U[r,k]|^2 = 1/d + E[r,k], E = +eps at (r1,c1), (r2,c2), -eps at (r1,c2), (r2,c1); None if the
    phase equations are not solved to 1e-14"""
    from scipy.optimize import least_squares
    B = np.full((d, d), 1.0 / d)
    (r1, r2), (c1, c2) = rows, cols
    B[r1, c1] += eps
    B[r2, c2] += eps
    B[r1, c2] -= eps
    B[r2, c1] -= eps
    A = np.sqrt(B)
    iu = np.triu_indices(d, 1)

    def unpack(x):
        th = np.zeros((d, d))
        th[1:, 1:] = x.reshape(d - 1, d - 1)
        return A * np.exp(1j * th)

    def res(x):
        U = unpack(x)
        G = U @ U.conj().T
        return np.concatenate([G[iu].real, G[iu].imag])

    x0 = np.array([[2 * np.pi * ((j * k) % d) / d for k in range(1, d)] for j in range(1, d)]).reshape(-1)
    for attempt in range(4):
        s = least_squares(res, x0, xtol=1e-15, ftol=1e-15, gtol=1e-15)
        U = unpack(s.x)
        if np.abs(U @ U.conj().T - np.eye(d)).max() <= 1e-14:
            return U
        if rng is None:
            break
        x0 = x0 + 0.3 * rng.standard_normal(x0.shape)      # the Fourier matrix is not an isolated Hadamard matrix for d = 4, 6
    return None


def _rect_label(rows, cols):
    return f"rows {list(rows)} x columns {list(cols)}"


def ask_pair(ctx, C, rng, B1, B2, s1, s2, order, label, expect):
    """B1, B2: QM d x d (columns = vectors up to the normalisations s1, s2); order "12" / "21" """
    QM = C.QM
    first, second, sa, sb = (B1, B2, s1, s2) if order == "12" else (B2, B1, s2, s1)
    V = QM(np.concatenate([first.re, second.re], axis=1), np.concatenate([first.im, second.im], axis=1))
    form = FORMS[int(rng.integers(3))]
    return C.ask_mub(ctx, V, list(sa) + list(sb), f"{label}; listed {'basis 1, basis 2' if order == '12' else 'basis 2, basis 1'}",
                     expect, expect=expect, form=form)


def exact4_case(ctx, C, rng, rows, cols, orders=("12", "21"), common=True):
    W, table, dev = exact_almost_mub4(C, rng, rows, cols)
    G = C.rand_unitary(rng, 4, True, rich=bool(rng.integers(2))) if common else C.QM.eye(4)
    B1, B2 = G, G @ W
    one, four = [Fraction(1)] * 4, [Fraction(4)] * 4
    if not dev:
        lab, expect = "d=4 exact: Hadamard matrix with two rows mixed by a rotation that keeps all moduli 1/2 (genuine pair)", "yes"
    else:
        rr, cc = sorted({r for r, _ in dev}), sorted({k for _, k in dev})
        mx = max(abs(table[r][k] - Fraction(1, 4)) for r, k in dev)
        lab = f"d=4 exact almost-MUB: overlap table 1/4 except {_rect_label(rr, cc)} (deviation {mx})"
        expect = "no"
    for o in orders:
        ask_pair(ctx, C, rng, B1, B2, one, four, o, lab, expect)
    ctx.count(f"hard/mub-exact4/{expect}")


def float_case(ctx, C, rng, d, rows, cols, eps, orders=("12", "21"), common=True):
    U = float_almost_mub(d, rows, cols, eps, rng)
    if U is None:
        ctx.count("hard/mub-float/not-solved")
        return
    if common:
        G = C.rand_unitary(rng, d, True).to_np(force_complex=True)
        B1f, B2f = G, G @ U
    else:
        B1f, B2f = np.eye(d) + 0j, U
    B1, B2 = C.QM.from_np(B1f), C.QM.from_np(B2f)
    one = [Fraction(1)] * d
    lab = f"d={d} float almost-MUB (unitary with prescribed moduli): overlap table 1/{d} except +-{eps} on {_rect_label(rows, cols)}"
    for o in orders:
        ask_pair(ctx, C, rng, B1, B2, one, one, o, lab, "no")
    ctx.count(f"hard/mub-float/d={d}")


def _rand_rect(rng, d):
    rows = tuple(sorted(int(x) for x in rng.choice(d, size=2, replace=False)))
    cols = tuple(sorted(int(x) for x in rng.choice(d, size=2, replace=False)))
    return rows, cols


# ------------------------------------------------------------------------------------------------
# mutually orthogonal sets with zero vectors


def zero_padded(C, rng, d, k, z, cplx):
    """(V, positions of the zero columns): k scaled columns of a rational unitary and z zero columns, in random positions"""
    QM = C.QM
    n = k + z
    if k == 0:
        return QM.zeros(d, n), list(range(n))
    U = C.rand_unitary(rng, d, cplx)
    pick = [int(x) for x in rng.choice(d, size=k, replace=False)]
    S = QM(U.re[:, pick], U.im[:, pick]) @ C.diag_q([int(x) for x in rng.integers(1, 4, size=k)])
    zpos = sorted(int(x) for x in rng.choice(n, size=z, replace=False))
    V = QM.zeros(d, n)
    it = iter(range(k))
    for j in range(n):
        if j not in zpos:
            t = next(it)
            V.re[:, j], V.im[:, j] = S.re[:, t], S.im[:, t]
    return V, zpos


def zero_set_case(ctx, C, rng, d, k, z, cplx, negative=True):
    V, zpos = zero_padded(C, rng, d, k, z, cplx)
    n = k + z
    if n < 2:
        return
    lab = f"{k} scaled columns of a rational unitary of size {d} and {z} zero vector(s) at positions {zpos} ({n} vectors in dimension {d})"
    form = FORMS[int(rng.integers(3))]
    if C.ask_set(ctx, "mutually_orthogonal", V, lab, "yes", expect="yes", form=form) != "yes":
        return
    ctx.count(f"hard/orthogonal-with-zeros/{'n>d' if n > d else 'n<=d'}")
    V2 = V @ C.perm_matrix(rng.permutation(n))
    C.ask_set(ctx, "mutually_orthogonal", V2, lab, "yes", expect="yes", transformed="reordered", form=FORMS[int(rng.integers(3))])
    if negative and k >= 1:
        # one zero vector becomes delta * (a member): inner product delta*|v|^2 with that member
        W = V.copy()
        j = zpos[int(rng.integers(len(zpos)))]
        src = [c for c in range(n) if c not in zpos][int(rng.integers(k))]
        dl = Fraction(1, 2 ** int(rng.integers(2, 5)))
        W.re[:, j], W.im[:, j] = V.re[:, src] * dl, V.im[:, src] * dl
        C.ask_set(ctx, "mutually_orthogonal", W, lab + f" -> zero vector {j} replaced by {dl} * vector {src}", "no", expect="no",
                  form=FORMS[int(rng.integers(3))])
    if k >= 2 and n <= 6:
        # is_orthonormal on the same list: a zero vector is not normalised
        C.ask_set(ctx, "orthonormal", V, lab, "no", expect="no")


# ------------------------------------------------------------------------------------------------
# entry points


def run_corpus(ctx, C):
    rng = hard_rng(ctx, 1)
    # the rectangle in the lower-left corner (indices of the second basis smaller than those of the first) and in the upper-right one
    exact4_case(ctx, C, rng, (2, 3), (0, 1), common=False)
    exact4_case(ctx, C, rng, (0, 1), (2, 3), common=False)
    exact4_case(ctx, C, rng, (2, 3), (0, 1))
    exact4_case(ctx, C, rng, (1, 3), (0, 2))
    float_case(ctx, C, rng, 5, (3, 4), (0, 1), 0.05, common=False)
    float_case(ctx, C, rng, 5, (0, 1), (3, 4), 0.05, common=False)
    float_case(ctx, C, rng, 5, (2, 4), (0, 1), 0.03)
    float_case(ctx, C, rng, 6, (4, 5), (1, 3), 0.04)
    float_case(ctx, C, rng, 4, (2, 3), (0, 1), 0.06)
    float_case(ctx, C, rng, 3, (1, 2), (0, 1), 0.05)
    # zero vectors: the repository's own example [0, e_0], then more members than the dimension
    QM = C.QM
    C.ask_set(ctx, "mutually_orthogonal", QM(np.array([[0, 1], [0, 0]])), "[0, e_0] (repository test)", "yes", expect="yes", form="1d")
    C.ask_set(ctx, "mutually_orthogonal", QM(np.array([[1, 0, 0], [0, 1, 0]])), "[e_0, e_1, 0] in dimension 2", "yes", expect="yes", form="col")
    C.ask_set(ctx, "mutually_orthogonal", QM(np.array([[2, 0, 0]])), "[2, 0, 0] in dimension 1", "yes", expect="yes", form="1d")
    C.ask_set(ctx, "mutually_orthogonal", QM(np.array([[0, 1, 0], [0, 2, 0]])), "[0, (1,2), 0] in dimension 2", "yes", expect="yes", form="1d")
    for d, k, z, cplx in ((2, 2, 1, True), (3, 3, 1, True), (3, 3, 2, False), (3, 1, 3, True), (4, 4, 1, True), (5, 4, 2, False), (6, 6, 1, True)):
        zero_set_case(ctx, C, rng, d, k, z, cplx)


def run_random(ctx, C):
    rng = hard_rng(ctx, 2)
    quick = ctx.tier == "quick"
    for _ in range(6 if quick else 60):
        rows, cols = _rand_rect(rng, 4)
        exact4_case(ctx, C, rng, rows, cols, orders=("12", "21") if rng.integers(2) else ("12",))
    for d in (3, 4, 5, 6):
        for _ in range(2 if quick else 20):
            rows, cols = _rand_rect(rng, d)
            # half of the rectangles strictly below / above the diagonal of the table
            if d >= 4 and rng.integers(2):
                lo = tuple(sorted(int(x) for x in rng.choice(d // 2, size=2, replace=False)))
                hi = tuple(sorted(int(x) + (d - d // 2) for x in rng.choice(d // 2, size=2, replace=False)))
                rows, cols = (hi, lo) if rng.integers(2) else (lo, hi)
            eps = float(Fraction(int(rng.integers(2, 9)), 100))
            float_case(ctx, C, rng, d, rows, cols, eps, orders=("12", "21") if rng.integers(2) else ("12",), common=bool(rng.integers(3)))
    for d in range(1, 7):
        for _ in range(2 if quick else 12):
            k = int(rng.integers(0 if d == 1 else 1, d + 1))
            z = int(rng.integers(1, 3)) + (0 if rng.integers(2) else d - k)      # n <= d possible / n > d for certain
            zero_set_case(ctx, C, rng, d, k, z, bool(rng.integers(2)))
