"""Shared machinery of the correspondence harness: Lean driver process, seeded RNG, evidence,
violations / known findings, replay files."""
from __future__ import annotations

import hashlib
import json
import os
import subprocess
import sys
import time
from fractions import Fraction

import numpy as np

VERIF = os.path.dirname(os.path.dirname(os.path.abspath(__file__)))
LEAN_DIR = os.path.join(VERIF, "lean")
DRIVER = os.path.join(LEAN_DIR, ".lake", "build", "bin", "toqdriver")
EVIDENCE_DIR = os.environ.get("VERIF_EVIDENCE_DIR") or os.path.join(VERIF, "evidence")
REPLAY_DIR = os.environ.get("VERIF_REPLAY_DIR") or os.path.join(VERIF, "replays")
KNOWN_FILE = os.path.join(VERIF, "KNOWN_FINDINGS.jsonl")
ALLOWED_AXIOMS = {"propext", "Classical.choice", "Quot.sound"}

TRUSTED_BASE = [
    "Lean 4.33.0 kernel (and leanchecker in the thorough tier)",
    "axioms propext, Classical.choice, Quot.sound only (audited per theorem on every run)",
    "Mathlib v4.33.0 definitions (Matrix, PosSemidef, trace, Finset sums) as the meaning of the mathematical vocabulary",
    "Lean compiler for the executable driver (same definitions the theorems are about)",
    "hand-written model/spec as the formal reading of the property (lean/Toq/Model, lean/Toq/Spec)",
    "Python correspondence harness: generators, exact float->dyadic conversion, comparison code, declared tolerances",
]


class InfraError(Exception):
    """The machinery itself could not run (exit status 2)."""


class CorrespondenceBroken(Exception):
    """The implementation no longer has the structure the model is tied to (e.g. the optimisation problem it builds has other variables than
    the modelled program): the correspondence no longer checks.  Not a verdict by itself: the run goes on looking for a failing input, and
    reports a VIOLATION ending in no-failing-input-found when none is found."""


# ------------------------------------------------------------------------------------------------
# Lean driver


class Driver:
    """Line protocol to the compiled Lean model driver."""

    def __init__(self):
        if not os.path.exists(DRIVER):
            raise InfraError(f"driver not built: {DRIVER}")
        self.p = subprocess.Popen([DRIVER], stdin=subprocess.PIPE, stdout=subprocess.PIPE, text=True, bufsize=1 << 20)
        self.n = 0

    def ask(self, op: str, args: dict):
        line = op + " " + json.dumps(args, separators=(",", ":"))
        try:
            self.p.stdin.write(line + "\n")
            self.p.stdin.flush()
        except (BrokenPipeError, OSError) as e:      # the driver process is gone (killed, or its binary replaced under it)
            raise InfraError(f"driver died ({type(e).__name__}) before: {line[:300]}")
        out = self.p.stdout.readline()
        self.n += 1
        if not out:
            raise InfraError(f"driver died on: {line[:300]}")
        out = out.strip()
        if out == "bad-op" or out.startswith("error:"):
            raise InfraError(f"driver: {out} on {line[:300]}")
        return json.loads(out)

    def ask_many(self, reqs):
        """Pipeline a batch: reqs = [(op, args)] -> list of parsed results."""
        # write in a thread-free way: the driver answers line by line, so chunk to avoid pipe deadlock
        res = []
        CH = 64
        for i in range(0, len(reqs), CH):
            chunk = reqs[i : i + CH]
            for op, args in chunk:
                self.p.stdin.write(op + " " + json.dumps(args, separators=(",", ":")) + "\n")
            self.p.stdin.flush()
            for op, args in chunk:
                out = self.p.stdout.readline().strip()
                self.n += 1
                if not out or out == "bad-op" or out.startswith("error:"):
                    raise InfraError(f"driver: {out!r} on {op} {json.dumps(args)[:300]}")
                res.append(json.loads(out))
        return res

    def close(self):
        try:
            self.p.stdin.close()
            self.p.wait(timeout=10)
        except Exception:
            self.p.kill()


# ------------------------------------------------------------------------------------------------
# exact numbers


def fr(x) -> Fraction:
    """exact value of a Python/NumPy real number"""
    if isinstance(x, Fraction):
        return x
    if isinstance(x, (int, np.integer)):
        return Fraction(int(x))
    return Fraction(float(x))


def jsonable(o):
    if isinstance(o, np.ndarray):
        return jsonable(o.tolist())
    if isinstance(o, (np.integer,)):
        return int(o)
    if isinstance(o, (np.floating,)):
        return float(o)
    if isinstance(o, (complex, np.complexfloating)):
        return {"re": float(o.real), "im": float(o.imag)}
    if isinstance(o, Fraction):
        return f"{o.numerator}/{o.denominator}"
    if isinstance(o, dict):
        return {str(k): jsonable(v) for k, v in o.items()}
    if isinstance(o, (list, tuple)):
        return [jsonable(v) for v in o]
    if isinstance(o, (str, int, float, bool)) or o is None:
        return o
    return repr(o)


# ------------------------------------------------------------------------------------------------
# known findings


def load_known(pid: str):
    out = []
    if os.path.exists(KNOWN_FILE):
        for line in open(KNOWN_FILE):
            line = line.strip()
            if not line or line.startswith("#"):
                continue
            rec = json.loads(line)
            if rec.get("property") == pid:
                out.append(rec)
    return out


# ------------------------------------------------------------------------------------------------
# run context


class Ctx:
    def __init__(self, pid: str, tier: str, seed: int):
        self.pid = pid
        self.tier = tier
        self.seed = seed
        self.rng = np.random.default_rng([seed, int(pid[1:])])
        self.t0 = time.time()
        self.driver = None
        self.evaluations = 0
        self.nontrivial = set()
        self.samples = []
        self.hist = {}
        self.violations = []  # (what, replay path)
        self.known_hit = {}  # finding id -> count
        self.broken = []  # correspondence breaks (CorrespondenceBroken) seen during the run
        self.known = [r for r in load_known(pid) if r.get("kind") == "finding"]
        self.matchers = {}
        self.notes = []
        self.extra = {}
        self.max_violations = int(os.environ.get('VERIF_MAX_VIOL', '5'))

    # -- driver
    def lean(self) -> Driver:
        if self.driver is None:
            self.driver = Driver()
        return self.driver

    # -- bookkeeping
    def count(self, key: str, k: int = 1):
        self.hist[key] = self.hist.get(key, 0) + k

    def case(self, desc, nontrivial: bool, branch: str | None = None):
        """register one explored case; desc is a JSON-able canonical description"""
        self.evaluations += 1
        if branch:
            self.count(branch)
        if nontrivial:
            h = hashlib.sha1(json.dumps(jsonable(desc), sort_keys=True).encode()).hexdigest()
            self.nontrivial.add(h)
        if len(self.samples) < 6 and (nontrivial or self.evaluations < 3):
            self.samples.append(jsonable(desc))

    def is_known(self, info: dict):
        for rec in self.known:
            m = self.matchers.get(rec.get("matcher"))
            if m is None:
                continue
            try:
                if m(info):
                    return rec
            except Exception:
                continue
        return None

    def violation(self, what: str, info: dict):
        """A candidate failing input, already judged against the property's oracle."""
        rec = self.is_known(info)
        if rec is not None:
            fid = rec.get("id", rec.get("matcher"))
            if fid not in self.known_hit:
                print(f"KNOWN-FINDING: property={self.pid} {rec.get('what_fails', fid)}", flush=True)
            self.known_hit[fid] = self.known_hit.get(fid, 0) + 1
            return False
        if len(self.violations) >= self.max_violations:
            self.violations.append((what, None))
            return True
        os.makedirs(REPLAY_DIR, exist_ok=True)
        path = os.path.join(REPLAY_DIR, f"{self.pid}-{self.seed}-{len(self.violations)}.json")
        with open(path, "w") as f:
            json.dump(jsonable({"property": self.pid, "what": what, "seed": self.seed, "tier": self.tier, **info}), f, indent=1)
        print(f"VIOLATION property={self.pid} replay={path}", flush=True)
        print(f"  {what}", flush=True)
        self.violations.append((what, path))
        return True

    def unproved(self, what: str, info: dict):
        """Proof obligation / correspondence machinery broke and no failing input was found."""
        os.makedirs(REPLAY_DIR, exist_ok=True)
        path = os.path.join(REPLAY_DIR, f"{self.pid}-{self.seed}-unproved-{len(self.violations)}.json")
        with open(path, "w") as f:
            json.dump(jsonable({"property": self.pid, "what": what, "seed": self.seed, **info}), f, indent=1)
        print(f"VIOLATION property={self.pid} replay={path} no-failing-input-found", flush=True)
        print(f"  {what}", flush=True)
        self.violations.append((what, path))

    def note(self, s: str):
        self.notes.append(s)

    def budget_left(self, total_s: float) -> bool:
        return time.time() - self.t0 < total_s


def write_evidence(ctx: Ctx, audit: dict, rule: str, assumptions: list[str]):
    os.makedirs(EVIDENCE_DIR, exist_ok=True)
    cov = {
        "obligations": audit.get("obligations", 0),
        "discharged": audit.get("discharged", 0),
        "checker_cmd": audit.get("checker_cmd", ""),
        "trusted_base": TRUSTED_BASE,
        "theorems": audit.get("theorems", []),
        "axioms_used": audit.get("axioms_used", []),
        "leanchecker": audit.get("leanchecker", "not run (thorough tier only)"),
        "evaluations": ctx.evaluations,
        "distinct_nontrivial": len(ctx.nontrivial),
        "rule": rule,
        "samples": ctx.samples[:6] or ["(none)"],
        "branch_histogram": ctx.hist,
        "known_findings_hit": ctx.known_hit,
        "driver_requests": ctx.driver.n if ctx.driver else 0,
        "notes": ctx.notes,
    }
    cov.update(ctx.extra)
    ev = {
        "property_id": ctx.pid,
        "tier": ctx.tier,
        "seed": ctx.seed,
        "level": "proof",
        "coverage": cov,
        "assumptions": assumptions,
        "wall_s": round(time.time() - ctx.t0, 2),
        "violations": len(ctx.violations),
    }
    with open(os.path.join(EVIDENCE_DIR, f"{ctx.pid}.json"), "w") as f:
        json.dump(jsonable(ev), f, indent=1)
