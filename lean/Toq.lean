import Toq.Properties.C01
import Toq.Properties.C02
import Toq.Properties.C03
import Toq.Properties.C10
import Toq.Properties.C17
import Toq.Properties.C18
