import Toq.Core.Idx
import Toq.Core.ND
import Toq.Proofs.Idx
import Toq.Model.Perms
import Toq.Properties.C01
