import Toq.Model.PartialOpsArgs
import Toq.Proofs.PartialTrace
import Toq.Proofs.PartialTranspose
import Mathlib.Tactic.Linarith
/-!
# Helper lemmas about the argument decoding and the cvxpy branch (`Toq/Model/PartialOpsArgs.lean`)

* `roundSqrt` is the integer nearest to the square root;
* `checkSys` accepts exactly the duplicate-free lists of in-range non-negative indices;
* the `…Args` front ends succeed exactly when decoding, the subsystem check and the size check
  succeed, and then return the mirror model on the decoded arguments;
* the mirror models commute with entrywise maps (`partialTranspose`, `realignment`: any map;
  `partialTrace`: additive maps), which is what makes the cvxpy `Variable` branch agree with the
  numeric branch.
-/
open Toq.Perms Toq.PTrace Toq.C01 Toq.Spec
namespace Toq.PartialOps

/-! ### `roundSqrt` -/


theorem roundSqrt_least (N : Nat) :
    N ≤ roundSqrt N * roundSqrt N + roundSqrt N ∧ ∀ j, j < roundSqrt N → ¬ N ≤ j * j + j := by
  unfold roundSqrt
  cases h : (List.range (N + 1)).find? (fun r => decide (N ≤ r * r + r)) with
  | none =>
    exfalso
    rw [List.find?_eq_none] at h
    have := h N (List.mem_range.mpr (by omega))
    simp only [decide_eq_true_eq] at this
    exact this (Nat.le_add_left N (N * N))
  | some r =>
    rw [List.find?_range_eq_some] at h
    simp only [decide_eq_true_eq, List.mem_range] at h
    simp only [Option.getD_some]
    exact ⟨h.1, fun j hj => by have := h.2.2 j hj; simpa using this⟩

theorem roundSqrt_bounds (N : Nat) (hN : 0 < N) :
    roundSqrt N * roundSqrt N - roundSqrt N < N ∧ N ≤ roundSqrt N * roundSqrt N + roundSqrt N := by
  obtain ⟨h1, h2⟩ := roundSqrt_least N
  refine ⟨?_, h1⟩
  generalize roundSqrt N = r at *
  rcases r with _ | q
  · omega
  · have := h2 q (by omega)
    have e : (q + 1) * (q + 1) - (q + 1) = q * q + q := by
      have : (q + 1) * (q + 1) = q * q + q + (q + 1) := by ring
      omega
    omega

theorem roundSqrt_unique (N r : Nat) (h1 : r * r - r < N) (h2 : N ≤ r * r + r) : roundSqrt N = r := by
  have hN : 0 < N := by omega
  obtain ⟨b1, b2⟩ := roundSqrt_bounds N hN
  generalize roundSqrt N = q at *
  rcases Nat.lt_trichotomy q r with h | h | h
  · exfalso
    have : q + 1 ≤ r := h
    have e : (q + 1) * (q + 1) = q * q + q + (q + 1) := by ring
    have : (q + 1) * (q + 1) ≤ r * r := Nat.mul_le_mul this this
    have : q * q + q + (q + 1) ≤ r * r := by omega
    have : r ≤ r * r := Nat.le_mul_self r
    -- r*r - r ≥ q*q + q + q + 1 - r ... need r*r - r ≥ q*q+q
    have : (q + 1) * (q + 1) - (q + 1) ≤ r * r - r := by
      nlinarith [Nat.sub_add_cancel ‹r ≤ r * r›, Nat.sub_add_cancel (Nat.le_mul_self (q+1))]
    omega
  · exact h
  · exfalso
    have : r + 1 ≤ q := h
    have e : (r + 1) * (r + 1) = r * r + r + (r + 1) := by ring
    have : (r + 1) * (r + 1) ≤ q * q := Nat.mul_le_mul this this
    have : q ≤ q * q := Nat.le_mul_self q
    have : (r + 1) * (r + 1) - (r + 1) ≤ q * q - q := by
      nlinarith [Nat.sub_add_cancel ‹q ≤ q * q›, Nat.sub_add_cancel (Nat.le_mul_self (r+1))]
    omega

/-! ### `checkSys` -/


theorem map_toNat_ofNat (S : List Nat) : (S.map Int.ofNat).map Int.toNat = S := by
  induction S with
  | nil => rfl
  | cons a t ih => simp [ih]

theorem permList_perm (n : Nat) (S : List Nat) (front : Bool) (hnd : S.Nodup) (hlt : ∀ s ∈ S, s < n) :
    (if front then S ++ setDiff n S else setDiff n S ++ S).Perm (List.range n) := by
  cases front
  · simp only [Bool.false_eq_true, if_false]
    rw [setDiff_eq_others]; exact others_append_perm n S hnd hlt
  · simp only [if_true]
    exact permL_perm n S hnd hlt

theorem checkSys_ok (n : Nat) (S : List Nat) (front : Bool) (hnd : S.Nodup) (hlt : ∀ s ∈ S, s < n) :
    checkSys n (S.map Int.ofNat) front = .ok S := by
  unfold checkSys
  have h1 : (S.map Int.ofNat).any (fun s => decide ((n : Int) ≤ s) || decide (s < -(n : Int))) = false := by
    rw [List.any_eq_false]
    intro x hx
    obtain ⟨a, ha, rfl⟩ := List.mem_map.mp hx
    have := hlt a ha
    simp only [Bool.or_eq_true, decide_eq_true_eq, not_or]
    constructor <;> (simp only [Int.ofNat_eq_natCast]; omega)
  have h2 : (S.map Int.ofNat).any (fun s => decide (s < 0)) = false := by
    rw [List.any_eq_false]
    intro x hx
    obtain ⟨a, ha, rfl⟩ := List.mem_map.mp hx
    simp
  rw [h1, h2, map_toNat_ofNat]
  simp only [Bool.false_eq_true, if_false]
  have hp := permList_perm n S front hnd hlt
  have hlen : (if front then S ++ setDiff n S else setDiff n S ++ S).length = n := by
    rw [hp.length_eq, List.length_range]
  rw [hlen, (isPerm_iff n _).mpr (isPermN_of_perm n _ hp)]
  rfl

theorem nodup_of_isPermN (L : List Nat) (h : IsPermN L.length (fnOfList L)) : L.Nodup := by
  rw [List.nodup_iff_injective_getElem]
  intro a b hab
  apply Fin.ext
  apply h.inj a b a.2 b.2
  rw [fnOfList_eq L a a.2, fnOfList_eq L b b.2]
  exact hab

theorem checkSys_ok_iff (n : Nat) (sys : List Int) (front : Bool) (S : List Nat) :
    checkSys n sys front = .ok S ↔ sys = S.map Int.ofNat ∧ S.Nodup ∧ ∀ s ∈ S, s < n := by
  constructor
  · intro h
    unfold checkSys at h
    split at h
    · cases h
    rename_i h1
    split at h
    · cases h
    rename_i h2
    have hneg : ∀ x ∈ sys, 0 ≤ x ∧ x < n := by
      intro x hx
      have a1 := h1
      have a2 := h2
      simp only [Bool.not_eq_true, List.any_eq_false, Bool.or_eq_true, decide_eq_true_eq, not_or,
        not_le, not_lt] at a1 a2
      exact ⟨a2 x hx, (a1 x hx).1⟩
    have key : ∀ (P : List Nat), (if isPerm P.length (fnOfList P) = true
          then (Except.ok (sys.map Int.toNat) : Except Rej (List Nat)) else Except.error Rej.InvalidPerm)
          = Except.ok S → sys.map Int.toNat = S ∧ P.Nodup := by
      intro P hP
      split at hP
      · rename_i h3
        injection hP with hP
        exact ⟨hP, nodup_of_isPermN _ ((isPerm_iff _ _).mp h3)⟩
      · cases hP
    have hfin : sys.map Int.toNat = S → sys = S.map Int.ofNat ∧ ∀ s ∈ S, s < n := by
      intro h
      constructor
      · rw [← h, List.map_map]
        symm
        conv_rhs => rw [← List.map_id sys]
        apply List.map_congr_left
        intro x hx
        simp only [Function.comp, Int.ofNat_eq_natCast, id]
        have := (hneg x hx).1
        omega
      · intro s hs
        rw [← h] at hs
        obtain ⟨x, hx, rfl⟩ := List.mem_map.mp hs
        have := hneg x hx
        omega
    cases front
    · simp only [Bool.false_eq_true, if_false] at h
      obtain ⟨e, hp⟩ := key _ h
      obtain ⟨a, b⟩ := hfin e
      rw [e] at hp
      exact ⟨a, (List.nodup_append.mp hp).2.1, b⟩
    · simp only [if_true] at h
      obtain ⟨e, hp⟩ := key _ h
      obtain ⟨a, b⟩ := hfin e
      rw [e] at hp
      exact ⟨a, (List.nodup_append.mp hp).1, b⟩
  · rintro ⟨rfl, hnd, hlt⟩
    exact checkSys_ok n S front hnd hlt

/-! ### `partial_trace` front end -/


theorem expandDim_of_length (N : Nat) (l : List Nat) (h : l.length ≠ 1) : expandDim N l = .ok l := by
  unfold expandDim
  split
  · simp at h
  · rfl

theorem expandDim_scalar (N d : Nat) (hd : 0 < d) (hdiv : d ∣ N) : expandDim N [d] = .ok [d, N / d] := by
  show (if d ≠ 0 ∧ N % d = 0 then Except.ok [d, N / d] else Except.error Rej.InvalidDim) = _
  rw [if_pos ⟨by omega, Nat.mod_eq_zero_of_dvd hdiv⟩]

theorem expandDim_scalar_reject (N d : Nat) (h : d = 0 ∨ ¬ d ∣ N) : expandDim N [d] = .error .InvalidDim := by
  show (if d ≠ 0 ∧ N % d = 0 then Except.ok [d, N / d] else Except.error Rej.InvalidDim) = _
  rw [if_neg]
  rintro ⟨h0, hm⟩
  rcases h with h | h
  · exact h0 h
  · exact h (Nat.dvd_of_mod_eq_zero hm)


theorem decodeDim_list (N : Nat) (l : List Nat) : decodeDim N (.list l) = expandDim N l := rfl
theorem decodeDim_scalar (N d : Nat) : decodeDim N (.scalar d) = expandDim N [d] := rfl

theorem decodeDim_omitted (N : Nat) (h : roundSqrt N * roundSqrt N = N) :
    decodeDim N .omitted = expandDim N [roundSqrt N] := by
  unfold decodeDim
  show (do let l ← (if roundSqrt N * roundSqrt N = N then Except.ok [roundSqrt N] else Except.error Rej.InvalidDim); expandDim N l) = _
  rw [if_pos h]
  rfl

theorem decodeDim_omitted_reject (N : Nat) (h : roundSqrt N * roundSqrt N ≠ N) :
    decodeDim N .omitted = .error .InvalidDim := by
  unfold decodeDim
  show (do let l ← (if roundSqrt N * roundSqrt N = N then Except.ok [roundSqrt N] else Except.error Rej.InvalidDim); expandDim N l) = _
  rw [if_neg h]
  rfl

theorem partialTraceArgs_of {α : Type} [Add α] [Zero α] (X : Nat → Nat → α) (N : Nat) (sys : SysArg)
    (dim : DimArg) (dl : List Nat) (S : List Nat) (he : decodeDim N dim = .ok dl)
    (hs : checkSys dl.length sys.toList false = .ok S) (hprod : prodN (fnOfList dl) dl.length = N) :
    partialTraceArgs X N sys dim
      = .ok (N / prodList (fnOfList dl) S, partialTrace X dl.length (fnOfList dl) S) := by
  unfold partialTraceArgs
  rw [he]
  simp only [bind, Except.bind]
  rw [hs]
  simp only [hprod, ne_eq, not_true_eq_false, if_false]
  rfl

theorem partialTraceArgs_ok_inv {α : Type} [Add α] [Zero α] (X : Nat → Nat → α) (N : Nat) (sys : SysArg)
    (dim : DimArg) (r : Nat × (Nat → Nat → α)) (h : partialTraceArgs X N sys dim = .ok r) :
    ∃ dl S, decodeDim N dim = .ok dl ∧ checkSys dl.length sys.toList false = .ok S ∧
      prodN (fnOfList dl) dl.length = N := by
  unfold partialTraceArgs at h
  simp only [bind, Except.bind] at h
  split at h
  · cases h
  rename_i dl he
  split at h
  · cases h
  rename_i S hs
  refine ⟨dl, S, he, hs, ?_⟩
  by_contra hne
  simp only [ne_eq, hne, not_false_eq_true, if_true] at h
  cases h

/-! ### entrywise maps; the cvxpy branch -/


theorem partialTranspose_map {α β : Type} (f : α → β) (X : Nat → Nat → α) (n : Nat) (rd cd : Nat → Nat)
    (S : List Nat) (i j : Nat) :
    partialTranspose (fun r c => f (X r c)) n rd cd S i j = f (partialTranspose X n rd cd S i j) := rfl

theorem realignment_map {α β : Type} (f : α → β) (X : Nat → Nat → α) (r0 r1 c0 c1 i j : Nat) :
    realignment (fun r c => f (X r c)) r0 r1 c0 c1 i j = f (realignment X r0 r1 c0 c1 i j) := rfl

theorem sumN_map {α β : Type} [Add α] [Zero α] [Add β] [Zero β] (φ : α → β) (h0 : φ 0 = 0)
    (hadd : ∀ a b, φ (a + b) = φ a + φ b) (f : Nat → α) : ∀ T, φ (sumN T f) = sumN T (fun t => φ (f t))
  | 0 => h0
  | T + 1 => by simp only [sumN]; rw [hadd, sumN_map φ h0 hadd f T]

theorem partialTrace_map {α β : Type} [Add α] [Zero α] [Add β] [Zero β] (φ : α → β) (h0 : φ 0 = 0)
    (hadd : ∀ a b, φ (a + b) = φ a + φ b) (X : Nat → Nat → α) (n : Nat) (dims : Nat → Nat)
    (S : List Nat) (i j : Nat) :
    partialTrace (fun r c => φ (X r c)) n dims S i j = φ (partialTrace X n dims S i j) := by
  obtain ⟨T, f, g, h⟩ := partialTrace_gather n dims S i j
  rw [h, h, sumN_map φ h0 hadd]

theorem CvxExpr.eval_add {β : Type} [Add β] [Zero β] (val : Nat → Nat → β) (a b : CvxExpr) :
    (a + b).eval val = a.eval val + b.eval val := rfl
theorem CvxExpr.eval_zero {β : Type} [Add β] [Zero β] (val : Nat → Nat → β) :
    (0 : CvxExpr).eval val = 0 := rfl

theorem partialTrace_cvx_eval {β : Type} [Add β] [Zero β] (val : Nat → Nat → β) (n : Nat)
    (dims : Nat → Nat) (S : List Nat) (i j : Nat) :
    (partialTrace exprAsNpArray n dims S i j).eval val = partialTrace val n dims S i j := by
  have := partialTrace_map (CvxExpr.eval val) (CvxExpr.eval_zero val) (CvxExpr.eval_add val)
    exprAsNpArray n dims S i j
  rw [← this]; rfl

theorem leaves_sumN (f : Nat → CvxExpr) : ∀ T,
    (sumN T f).leaves = (List.range T).flatMap (fun t => (f t).leaves)
  | 0 => rfl
  | T + 1 => by
    show (sumN T f).leaves ++ (f T).leaves = _
    rw [leaves_sumN f T, List.range_succ, List.flatMap_append]; simp

/-! ### shapes -/


/-- the shape the model reports, `(R / sub_prod_r) * sub_prod_c`, is the product of the result's row dims -/
theorem pT_shape (n : Nat) (rd cd : Nat → Nat) (S : List Nat)
    (hr : ∀ k, k < n → 0 < rd k) (hc : ∀ k, k < n → 0 < cd k) (hnd : S.Nodup)
    (hlt : ∀ s, s ∈ S → s < n) :
    prodN rd n / prodList rd S * prodList cd S = prodN (pTRowDims rd cd S) n ∧
    prodN cd n / prodList cd S * prodList rd S = prodN (pTColDims rd cd S) n := by
  obtain ⟨l, hn, hp, hpS, hS, hR⟩ := permL_facts n S hnd hlt
  generalize fnOfList (S ++ setDiff n S) = p at *
  generalize hm : S.length = m at *
  subst hn
  obtain ⟨hsr, hvr, -⟩ := sizes_eq m l S p rd hm hp hpS hr
  obtain ⟨hsc, hvc, -⟩ := sizes_eq m l S p cd hm hp hpS hc
  constructor
  · rw [hvr, hsc, ← prodN_reindex (m + l) p (pTRowDims rd cd S) hp.lt hp.inj, prodN_split, Nat.mul_comm]
    congr 1
    · apply prodN_congr; intro k hk; simp [pTRowDims, hS k hk]
    · apply prodN_congr; intro k hk; simp [pTRowDims, hR k hk]
  · rw [hvc, hsr, ← prodN_reindex (m + l) p (pTColDims rd cd S) hp.lt hp.inj, prodN_split, Nat.mul_comm]
    congr 1
    · apply prodN_congr; intro k hk; simp [pTColDims, hS k hk]
    · apply prodN_congr; intro k hk; simp [pTColDims, hR k hk]

/-! ### `partial_transpose` and `realignment` front ends -/

theorem partialTransposeArgs_of {α : Type} (X : Nat → Nat → α) (R C : Nat) (sys : SysArg)
    (dim : PTDimArg) (rl cl : List Nat) (S : List Nat) (hd : ptDecodeDim R C dim = .ok (rl, cl))
    (hs : checkSys rl.length sys.toList true = .ok S) (hR : prodN (fnOfList rl) rl.length = R)
    (hC : prodN (fnOfList cl) rl.length = C) :
    partialTransposeArgs X R C sys dim
      = .ok (R / prodList (fnOfList rl) S * prodList (fnOfList cl) S,
             C / prodList (fnOfList cl) S * prodList (fnOfList rl) S,
             partialTranspose X rl.length (fnOfList rl) (fnOfList cl) S) := by
  unfold partialTransposeArgs
  rw [hd]
  simp only [bind, Except.bind]
  rw [hs]
  simp only [hR, hC, ne_eq, not_true_eq_false, or_self, if_false]
  rfl

theorem partialTransposeArgs_ok_inv {α : Type} (X : Nat → Nat → α) (R C : Nat) (sys : SysArg)
    (dim : PTDimArg) (r : Nat × Nat × (Nat → Nat → α)) (h : partialTransposeArgs X R C sys dim = .ok r) :
    ∃ rl cl S, ptDecodeDim R C dim = .ok (rl, cl) ∧ checkSys rl.length sys.toList true = .ok S ∧
      prodN (fnOfList rl) rl.length = R ∧ prodN (fnOfList cl) rl.length = C := by
  unfold partialTransposeArgs at h
  simp only [bind, Except.bind] at h
  split at h
  · cases h
  rename_i rc hd
  obtain ⟨rl, cl⟩ := rc
  simp only at h
  split at h
  · cases h
  rename_i S hs
  refine ⟨rl, cl, S, hd, hs, ?_⟩
  by_contra hne
  rw [if_pos (by
    by_contra h'
    simp only [ne_eq, not_or, not_not] at h'
    exact hne h')] at h
  cases h

theorem realignmentArgs_of {α : Type} (X : Nat → Nat → α) (R C : Nat) (dim : RDimArg)
    (r0 r1 c0 c1 : Nat) (hd : realignDecodeDim R C dim = .ok ((r0, r1), (c0, c1)))
    (hR : r0 * r1 = R) (hC : c0 * c1 = C) :
    realignmentArgs X R C dim = .ok (r0 * c0, r1 * c1, realignment X r0 r1 c0 c1) := by
  unfold realignmentArgs
  rw [hd]
  simp only [bind, Except.bind, hR, hC, ne_eq, not_true_eq_false, or_self, if_false]
  rfl

theorem realignmentArgs_ok_inv {α : Type} (X : Nat → Nat → α) (R C : Nat) (dim : RDimArg)
    (r : Nat × Nat × (Nat → Nat → α)) (h : realignmentArgs X R C dim = .ok r) :
    ∃ r0 r1 c0 c1, realignDecodeDim R C dim = .ok ((r0, r1), (c0, c1)) ∧ r0 * r1 = R ∧ c0 * c1 = C := by
  unfold realignmentArgs at h
  simp only [bind, Except.bind] at h
  split at h
  · cases h
  rename_i d hd
  obtain ⟨⟨r0, r1⟩, ⟨c0, c1⟩⟩ := d
  simp only at h
  refine ⟨r0, r1, c0, c1, hd, ?_⟩
  by_contra hne
  rw [if_pos (by
    by_contra h'
    simp only [ne_eq, not_or, not_not] at h'
    exact hne h')] at h
  cases h

/-! ### dimension decoding of `partial_transpose` -/

theorem ptDecodeDim_two (R C : Nat) (rl cl : List Nat) (hlen : rl.length = cl.length)
    (hn : rl.length ≠ 1) : ptDecodeDim R C (.two rl cl) = .ok (rl, cl) := by
  match rl, cl, hlen, hn with
  | [], [], _, _ => rfl
  | [], _ :: _, h, _ => simp at h
  | [_], _, _, hn => exact absurd rfl hn
  | _ :: _ :: _, [], h, _ => simp at h
  | _ :: _ :: _, [_], h, _ => simp at h
  | a :: b :: t, c :: d :: u, h, _ =>
    show (if (a :: b :: t).length = (c :: d :: u).length then _ else _) = _
    rw [if_pos h]

theorem ptDecodeDim_list (R C : Nat) (l : List Nat) (hn : l.length ≠ 1) :
    ptDecodeDim R C (.list l) = .ok (l, l) := by
  match l, hn with
  | [], _ => rfl
  | [_], hn => exact absurd rfl hn
  | _ :: _ :: _, _ => rfl

theorem ptDecodeDim_scalar (R C d : Nat) (hd : 0 < d) (hdiv : d ∣ R) :
    ptDecodeDim R C (.scalar d) = .ok ([d, R / d], [d, R / d]) := by
  show ptScalar R d = _
  unfold ptScalar
  rw [if_pos ⟨by omega, Nat.mod_eq_zero_of_dvd hdiv⟩]

theorem ptDecodeDim_scalar_reject (R C d : Nat) (h : d = 0 ∨ ¬ d ∣ R) :
    ptDecodeDim R C (.scalar d) = .error .InvalidDim := by
  show ptScalar R d = _
  unfold ptScalar
  rw [if_neg]
  rintro ⟨h0, hm⟩
  rcases h with h | h
  · exact h0 h
  · exact h (Nat.dvd_of_mod_eq_zero hm)

end Toq.PartialOps
