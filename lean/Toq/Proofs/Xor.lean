import Toq.Model.Xor
import Toq.Proofs.Cert
import Toq.Proofs.Idx
/-!
# Helper lemmas for C08 (XOR games, Tsirelson's semidefinite program, two-outcome Bell expressions)

* weak duality for moment matrices over an arbitrary finite index type (`moment_weak_duality`) and its
  block form on `X ⊕ Y` (`tsirelson_weak_duality_sum`) and on `Fin (m+n)` (the checkers' index type);
* Gram matrices of unit vectors and moment matrices `tr(ρ O_iᴴ O_j)` of quantum strategies are feasible;
* soundness of the executable checkers of `Toq.Model.Xor`;
* the enumeration `maxUpTo`, bit codes of deterministic strategies, the conversion identity
  `[f = a ⊕ b] = 1/2 + 1/2 (-1)^f (-1)^a (-1)^b`.
-/

open Matrix
open scoped ComplexOrder MatrixOrder

namespace Toq.Xor

/-- `Γ` is positive semidefinite with unit diagonal -/
def IsMoment {ι : Type*} [Fintype ι] (Γ : Matrix ι ι ℂ) : Prop := Γ.PosSemidef ∧ ∀ i, Γ i i = 1

section Generic
variable {ι : Type*} [Fintype ι] [DecidableEq ι]

/-- the complex matrix `diag(lam) − W` for real data -/
def dualMatrix (W : ι → ι → ℝ) (lam : ι → ℝ) : Matrix ι ι ℂ :=
  fun i j => (((if i = j then lam i else 0) - W i j : ℝ) : ℂ)

omit [Fintype ι] [DecidableEq ι] in
theorem re_apply_symm {Γ : Matrix ι ι ℂ} (h : Γ.IsHermitian) (i j : ι) : (Γ j i).re = (Γ i j).re := by
  have := h.apply i j
  rw [← this]
  simp

theorem moment_weak_duality (W : ι → ι → ℝ) (lam : ι → ℝ) (Γ : Matrix ι ι ℂ) (hΓ : IsMoment Γ)
    (hZ : (dualMatrix W lam).PosSemidef) : ∑ i, ∑ j, W i j * (Γ i j).re ≤ ∑ i, lam i := by
  have h := psd_trace_mul_nonneg hZ hΓ.1
  have e : (dualMatrix W lam * Γ).trace.re
      = ∑ i, ∑ j, ((if i = j then lam i else 0) - W i j) * (Γ i j).re := by
    simp only [Matrix.trace, Matrix.diag_apply, Matrix.mul_apply, Complex.re_sum, dualMatrix,
      Complex.re_ofReal_mul]
    refine Finset.sum_congr rfl fun i _ => Finset.sum_congr rfl fun j _ => ?_
    rw [re_apply_symm hΓ.1.isHermitian]
  rw [e] at h
  simp only [sub_mul, Finset.sum_sub_distrib, ite_mul, zero_mul, Finset.sum_ite_eq, Finset.mem_univ,
    if_true, hΓ.2, Complex.one_re, mul_one] at h
  linarith

end Generic

section SumVersion
variable {X Y : Type*} [Fintype X] [Fintype Y] [DecidableEq X] [DecidableEq Y]

/-- the block matrix `[[diag a, −D], [−Dᵀ, diag b]]` over `ℂ` -/
def tsirelsonDual (D : X → Y → ℝ) (a : X → ℝ) (b : Y → ℝ) : Matrix (X ⊕ Y) (X ⊕ Y) ℂ :=
  Matrix.fromBlocks (Matrix.diagonal fun x => (a x : ℂ)) (Matrix.of fun x y => -(D x y : ℂ))
    (Matrix.of fun y x => -(D x y : ℂ)) (Matrix.diagonal fun y => (b y : ℂ))

/-- symmetric weights of the bias functional on `X ⊕ Y` -/
noncomputable def xorWeights (D : X → Y → ℝ) : X ⊕ Y → X ⊕ Y → ℝ
  | .inl x, .inr y => D x y / 2
  | .inr y, .inl x => D x y / 2
  | _, _ => 0

omit [Fintype X] [Fintype Y] in
theorem dualMatrix_xorWeights (D : X → Y → ℝ) (a : X → ℝ) (b : Y → ℝ) :
    dualMatrix (xorWeights D) (Sum.elim (fun x => a x / 2) (fun y => b y / 2))
      = (((1 / 2 : ℝ)) : ℂ) • tsirelsonDual D a b := by
  ext i j
  rcases i with x | y <;> rcases j with x' | y'
  · by_cases h : x = x'
    · subst h; simp [dualMatrix, tsirelsonDual, xorWeights]; ring
    · simp [dualMatrix, tsirelsonDual, xorWeights, h]
  · simp [dualMatrix, tsirelsonDual, xorWeights]; ring
  · simp [dualMatrix, tsirelsonDual, xorWeights]; ring
  · by_cases h : y = y'
    · subst h; simp [dualMatrix, tsirelsonDual, xorWeights]; ring
    · simp [dualMatrix, tsirelsonDual, xorWeights, h]

theorem tsirelson_weak_duality_sum (D : X → Y → ℝ) (a : X → ℝ) (b : Y → ℝ)
    (Γ : Matrix (X ⊕ Y) (X ⊕ Y) ℂ) (hΓ : IsMoment Γ) (hZ : (tsirelsonDual D a b).PosSemidef) :
    ∑ x, ∑ y, D x y * (Γ (.inl x) (.inr y)).re ≤ (∑ x, a x + ∑ y, b y) / 2 := by
  have hZ' : (dualMatrix (xorWeights D) (Sum.elim (fun x => a x / 2) (fun y => b y / 2))).PosSemidef := by
    rw [dualMatrix_xorWeights]
    exact hZ.smul (by simp : (0 : ℂ) ≤ ((1 / 2 : ℝ) : ℂ))
  have h := moment_weak_duality _ _ Γ hΓ hZ'
  simp only [Fintype.sum_sum_type, xorWeights, zero_mul, Finset.sum_const_zero, zero_add, add_zero,
    Sum.elim_inl, Sum.elim_inr] at h
  have e : ∑ y, ∑ x, D x y / 2 * (Γ (.inr y) (.inl x)).re = ∑ x, ∑ y, D x y / 2 * (Γ (.inl x) (.inr y)).re := by
    rw [Finset.sum_comm]
    refine Finset.sum_congr rfl fun x _ => Finset.sum_congr rfl fun y _ => ?_
    rw [re_apply_symm hΓ.1.isHermitian]
  rw [e] at h
  have e2 : ∑ x, ∑ y, D x y * (Γ (.inl x) (.inr y)).re
      = ∑ x, ∑ y, D x y / 2 * (Γ (.inl x) (.inr y)).re + ∑ x, ∑ y, D x y / 2 * (Γ (.inl x) (.inr y)).re := by
    rw [← Finset.sum_add_distrib]
    refine Finset.sum_congr rfl fun x _ => ?_
    rw [← Finset.sum_add_distrib]
    refine Finset.sum_congr rfl fun y _ => by ring
  rw [e2, add_div, Finset.sum_div, Finset.sum_div]
  exact h

end SumVersion

/-! ## The `Fin (m+n)` form used by the executable checkers -/

section FinVersion
open EMat
variable {m n k : Nat}

/-- real image of an exact `Nat`-indexed matrix, restricted to `m × n` -/
def castD (D : Nat → Nat → Rat) : Fin m → Fin n → ℝ := fun x y => ((D x.val y.val : Rat) : ℝ)
/-- real image of an exact `Nat`-indexed vector -/
def castV (a : Nat → Rat) : Fin m → ℝ := fun x => ((a x.val : Rat) : ℝ)

/-- bias functional on a moment matrix indexed by `Fin (m+n)` -/
def xorObjective (D : Fin m → Fin n → ℝ) (Γ : Matrix (Fin (m + n)) (Fin (m + n)) ℂ) : ℝ :=
  ∑ x, ∑ y, D x y * (Γ (Fin.castAdd n x) (Fin.natAdd m y)).re

theorem toM_xorDualMat_submatrix (D : Nat → Nat → Rat) (a b : Nat → Rat) :
    (xorDualMat m n D a b).toM.submatrix finSumFinEquiv finSumFinEquiv
      = tsirelsonDual (castD D) (castV (m := m) a) (castV (m := n) b) := by
  ext i j
  rcases i with x | y <;> rcases j with x' | y'
  · by_cases h : x = x'
    · subst h; simp [xorDualMat, tsirelsonDual, castV, QI.toC_ofRat]
    · have h' : x.val ≠ x'.val := fun e => h (Fin.ext e)
      simp [xorDualMat, tsirelsonDual, h, h']
  · simp [xorDualMat, tsirelsonDual, castD, QI.toC_ofRat]
  · simp [xorDualMat, tsirelsonDual, castD, QI.toC_ofRat]
  · by_cases h : y = y'
    · subst h; simp [xorDualMat, tsirelsonDual, castV, QI.toC_ofRat]
    · have h' : y.val ≠ y'.val := fun e => h (Fin.ext e)
      simp [xorDualMat, tsirelsonDual, h, h']

theorem isMoment_submatrix {ι κ : Type*} [Fintype ι] [Fintype κ] {Γ : Matrix ι ι ℂ} (h : IsMoment Γ) (e : κ → ι) :
    IsMoment (Γ.submatrix e e) :=
  ⟨h.1.submatrix e, fun i => h.2 (e i)⟩

/-- weak duality in the `Fin (m+n)` form -/
theorem tsirelson_weak_duality_fin (D : Fin m → Fin n → ℝ) (a : Fin m → ℝ) (b : Fin n → ℝ)
    (Γ : Matrix (Fin (m + n)) (Fin (m + n)) ℂ) (hΓ : IsMoment Γ)
    (hZ : (tsirelsonDual D a b).PosSemidef) : xorObjective D Γ ≤ (∑ x, a x + ∑ y, b y) / 2 := by
  have := tsirelson_weak_duality_sum D a b _ (isMoment_submatrix hΓ finSumFinEquiv) hZ
  simpa [xorObjective] using this

theorem sumQ_cast (n : Nat) (f : Nat → Rat) : ((sumQ n f : Rat) : ℝ) = ∑ i : Fin n, ((f i.val : Rat) : ℝ) := by
  unfold sumQ; rw [sumFinQ_cast]

theorem xorObj_cast (D : Nat → Nat → Rat) (Γ : EMat (m + n) (m + n)) :
    ((xorObj m n D Γ : Rat) : ℝ) = xorObjective (castD D) Γ.toM := by
  unfold xorObj xorObjective
  rw [sumFinQ_cast]
  refine Finset.sum_congr rfl fun x _ => ?_
  rw [sumFinQ_cast]
  refine Finset.sum_congr rfl fun y _ => ?_
  simp [castD]

theorem diagOne_sound {N : Nat} (Γ : EMat N N) (h : diagOne Γ = true) (i : Fin N) : Γ.toM i i = 1 := by
  simp only [diagOne, allFin_iff, beq_iff_eq] at h
  simp [h i]

theorem checkXorPrimal_sound' (D : Nat → Nat → Rat) (Γ : EMat (m + n) (m + n)) (L : EMat (m + n) k) (lo : Rat)
    (h : checkXorPrimal m n D Γ L = some lo) :
    IsMoment Γ.toM ∧ xorObjective (castD D) Γ.toM = (lo : ℝ) := by
  unfold checkXorPrimal at h
  split at h
  · next hc =>
    simp only [Bool.and_eq_true] at hc
    refine ⟨⟨psdCert_sound _ _ hc.1, diagOne_sound Γ hc.2⟩, ?_⟩
    rw [← xorObj_cast]
    exact congrArg _ (Option.some.inj h)
  · exact absurd h (by simp)

theorem checkXorDual_sound' (D : Nat → Nat → Rat) (a b : Nat → Rat) (L : EMat (m + n) k) (hi : Rat)
    (h : checkXorDual m n D a b L = some hi) :
    (tsirelsonDual (castD D) (castV (m := m) a) (castV (m := n) b)).PosSemidef ∧
      (∑ x, castV (m := m) a x + ∑ y, castV (m := n) b y) / 2 = (hi : ℝ) := by
  unfold checkXorDual at h
  split at h
  · next hc =>
    refine ⟨?_, ?_⟩
    · rw [← toM_xorDualMat_submatrix]
      exact (psdCert_sound _ _ hc).submatrix _
    · rw [← Option.some.inj h]
      push_cast
      rw [sumQ_cast, sumQ_cast]
      rfl
  · exact absurd h (by simp)

end FinVersion

section Vectors
variable {ι d : Type*} [Fintype ι] [Fintype d]

/-- Gram matrix of a family of real vectors -/
def gram (w : ι → d → ℝ) : Matrix ι ι ℂ := fun i j => ((∑ k, w i k * w j k : ℝ) : ℂ)

theorem gram_psd (w : ι → d → ℝ) : (gram w).PosSemidef := by
  have : gram w = (Matrix.of fun i k => (w i k : ℂ)) * (Matrix.of fun i k => (w i k : ℂ))ᴴ := by
    ext i j; simp [gram, Matrix.mul_apply]
  rw [this]; exact posSemidef_self_mul_conjTranspose _

theorem isMoment_gram (w : ι → d → ℝ) (h : ∀ i, ∑ k, w i k ^ 2 = 1) : IsMoment (gram w) := by
  refine ⟨gram_psd w, fun i => ?_⟩
  have : ∑ k, w i k * w i k = 1 := by rw [← h i]; exact Finset.sum_congr rfl fun k _ => (sq _).symm
  simp [gram, this]

end Vectors

section Strategy
variable {ι : Type*} [Fintype ι] [DecidableEq ι] {d : Type*} [Fintype d] [DecidableEq d]

/-- `Γ[i,j] = tr(ρ O_iᴴ O_j)` -/
def momentMatrix (ρ : Matrix d d ℂ) (O : ι → Matrix d d ℂ) : Matrix ι ι ℂ :=
  fun i j => (ρ * (O i)ᴴ * O j).trace

omit [DecidableEq ι] in
theorem momentMatrix_psd (ρ : Matrix d d ℂ) (hρ : ρ.PosSemidef) (O : ι → Matrix d d ℂ) :
    (momentMatrix ρ O).PosSemidef := by
  have hS : (CFC.sqrt ρ).PosSemidef := (CFC.sqrt_nonneg ρ).posSemidef
  have hR : CFC.sqrt ρ * CFC.sqrt ρ = ρ := CFC.sqrt_mul_sqrt_self ρ hρ.nonneg
  have hH : (CFC.sqrt ρ)ᴴ = CFC.sqrt ρ := hS.isHermitian
  set R := CFC.sqrt ρ with hRdef
  let T : ι → Matrix d d ℂ := fun i => O i * R
  let V : Matrix (d × d) ι ℂ := fun ab i => T i ab.1 ab.2
  have key : momentMatrix ρ O = Vᴴ * V := by
    ext i j
    have h1 : (Vᴴ * V) i j = ((O i * R)ᴴ * (O j * R)).trace := by
      change (Vᴴ * V) i j = ((T i)ᴴ * T j).trace
      rw [Matrix.mul_apply, Fintype.sum_prod_type, Finset.sum_comm]
      simp only [Matrix.trace, Matrix.diag_apply, Matrix.mul_apply, conjTranspose_apply, V]
      rfl
    rw [h1, conjTranspose_mul, hH, momentMatrix, ← hR]
    rw [Matrix.mul_assoc R, Matrix.mul_assoc R, Matrix.trace_mul_comm R]
    simp only [Matrix.mul_assoc]
  rw [key]
  exact posSemidef_conjTranspose_mul_self V

omit [DecidableEq ι] in
theorem isMoment_momentMatrix (ρ : Matrix d d ℂ) (hρ : ρ.PosSemidef) (htr : ρ.trace = 1)
    (O : ι → Matrix d d ℂ) (hO : ∀ i, (O i)ᴴ * O i = 1) : IsMoment (momentMatrix ρ O) := by
  refine ⟨momentMatrix_psd ρ hρ O, fun i => ?_⟩
  simp [momentMatrix, Matrix.mul_assoc, hO i, htr]

end Strategy

/-! ## Sums and maxima of the executable model -/

theorem sumN_eq_sum {α : Type*} [AddCommMonoid α] (f : Nat → α) : ∀ n, sumN n f = ∑ k ∈ Finset.range n, f k
  | 0 => rfl
  | n + 1 => by rw [Finset.sum_range_succ, ← sumN_eq_sum f n]; rfl

theorem le_rmax_left (a b : Rat) : a ≤ rmax a b := by
  unfold rmax; split
  · assumption
  · exact le_refl _

theorem le_rmax_right (a b : Rat) : b ≤ rmax a b := by
  unfold rmax; split
  · exact le_refl _
  · next h => exact le_of_lt (lt_of_not_ge h)

theorem rmax_cases (a b : Rat) : rmax a b = a ∨ rmax a b = b := by
  unfold rmax; split
  · exact Or.inr rfl
  · exact Or.inl rfl

theorem le_maxUpTo (f : Nat → Rat) : ∀ K i, i ≤ K → f i ≤ maxUpTo K f
  | 0, i, h => by obtain rfl : i = 0 := by omega
                  exact le_refl _
  | K + 1, i, h => by
    simp only [maxUpTo]
    by_cases hi : i = K + 1
    · subst hi; exact le_rmax_right _ _
    · exact le_trans (le_maxUpTo f K i (by omega)) (le_rmax_left _ _)

theorem maxUpTo_attained (f : Nat → Rat) : ∀ K, ∃ i, i ≤ K ∧ maxUpTo K f = f i
  | 0 => ⟨0, le_refl _, rfl⟩
  | K + 1 => by
    simp only [maxUpTo]
    rcases rmax_cases (maxUpTo K f) (f (K + 1)) with h | h
    · obtain ⟨i, hi, e⟩ := maxUpTo_attained f K
      exact ⟨i, by omega, by rw [h, e]⟩
    · exact ⟨K + 1, le_refl _, h⟩

theorem maxUpTo_le (f : Nat → Rat) (K : Nat) (c : Rat) (h : ∀ i, i ≤ K → f i ≤ c) : maxUpTo K f ≤ c := by
  obtain ⟨i, hi, e⟩ := maxUpTo_attained f K
  rw [e]; exact h i hi

theorem maxUpTo_affine (f g : Nat → Rat) (c : Rat) (K : Nat) (h : ∀ i, i ≤ K → f i = c + g i / 2) :
    maxUpTo K f = c + maxUpTo K g / 2 := by
  apply le_antisymm
  · apply maxUpTo_le
    intro i hi
    rw [h i hi]
    have := le_maxUpTo g K i hi
    linarith
  · obtain ⟨i, hi, e⟩ := maxUpTo_attained g K
    rw [e, ← h i hi]
    exact le_maxUpTo f K i hi

/-! ## Enumeration of bit vectors -/

theorem prodN_two : ∀ N, prodN two N = 2 ^ N
  | 0 => rfl
  | N + 1 => by simp only [prodN, prodN_two N, two, Nat.pow_succ]

theorem bits_lt (N k i : Nat) (hi : i < N) : bits N k i < 2 := dec_lt two N k i hi (by show 0 < 2; omega)

theorem exists_code (m n : Nat) (α β : Nat → Nat) (hα : ∀ x, x < m → α x < 2) (hβ : ∀ y, y < n → β y < 2) :
    ∃ k, k ≤ 2 ^ (m + n) - 1 ∧ (∀ x, x < m → aliceOf m n k x = α x) ∧ (∀ y, y < n → bobOf m n k y = β y) := by
  let c : Nat → Nat := fun i => if i < m then α i else β (i - m)
  have hc : ∀ i, i < m + n → c i < two i := by
    intro i hi
    simp only [c, two]
    split
    · next h => exact hα i h
    · next h => exact hβ (i - m) (by omega)
  refine ⟨enc two c (m + n), ?_, ?_, ?_⟩
  · have := enc_lt two c (m + n) hc
    rw [prodN_two] at this
    omega
  · intro x hx
    simp only [aliceOf, bits]
    rw [dec_enc two c (m + n) hc x (by omega)]
    simp [c, hx]
  · intro y hy
    simp only [bobOf, bits]
    rw [dec_enc two c (m + n) hc (m + y) (by omega)]
    simp [c]

/-! ## The pointwise identity behind the conversion -/

theorem negOnePow_zero : negOnePow 0 = 1 := by decide
theorem negOnePow_one : negOnePow 1 = -1 := by decide

theorem negOnePow_sq (k : Nat) : negOnePow k * negOnePow k = 1 := by
  unfold negOnePow; split <;> norm_num

theorem negOnePow_cases (k : Nat) : negOnePow k = 1 ∨ negOnePow k = -1 := by
  unfold negOnePow; split <;> simp

/-- `[f = a ⊕ b] = 1/2 + 1/2 · (-1)^f (-1)^a (-1)^b` for bits -/
theorem nlgPred_eq (pred : Nat → Nat → Nat) (a b x y : Nat) (hf : pred x y < 2) (ha : a < 2) (hb : b < 2) :
    nlgPred pred a b x y = 1 / 2 + negOnePow (pred x y) * negOnePow a * negOnePow b / 2 := by
  unfold nlgPred
  have h1 : pred x y = 0 ∨ pred x y = 1 := by omega
  have h2 : a = 0 ∨ a = 1 := by omega
  have h3 : b = 0 ∨ b = 1 := by omega
  rcases h1 with h1 | h1 <;> rcases h2 with h2 | h2 <;> rcases h3 with h3 | h3 <;>
    simp only [h1, h2, h3, negOnePow_zero, negOnePow_one] <;> norm_num

theorem detWin_congr (m n : Nat) (prob : Nat → Nat → Rat) (pred : Nat → Nat → Nat) (α α' β β' : Nat → Nat)
    (hα : ∀ x, x < m → α x = α' x) (hβ : ∀ y, y < n → β y = β' y) :
    detWin m n prob pred α β = detWin m n prob pred α' β' := by
  unfold detWin
  refine sumN_congr _ _ m fun x hx => sumN_congr _ _ n fun y hy => ?_
  rw [hα x hx, hβ y hy]

theorem signBias_congr (m n : Nat) (D : Nat → Nat → Rat) (s s' t t' : Nat → Rat)
    (hs : ∀ x, x < m → s x = s' x) (ht : ∀ y, y < n → t y = t' y) :
    signBias m n D s t = signBias m n D s' t' := by
  unfold signBias
  refine sumN_congr _ _ m fun x hx => sumN_congr _ _ n fun y hy => ?_
  rw [hs x hx, ht y hy]

/-- winning probability of a deterministic strategy = `Σπ/2 + (Σ D s t)/2` with `s = (-1)^α`, `t = (-1)^β` -/
theorem detWin_eq_bias (m n : Nat) (prob : Nat → Nat → Rat) (pred : Nat → Nat → Nat) (α β : Nat → Nat)
    (hf : ∀ x y, x < m → y < n → pred x y < 2) (hα : ∀ x, x < m → α x < 2) (hβ : ∀ y, y < n → β y < 2) :
    detWin m n prob pred α β
      = totalProb m n prob / 2
        + signBias m n (dMat prob pred) (fun x => negOnePow (α x)) (fun y => negOnePow (β y)) / 2 := by
  unfold detWin totalProb signBias
  simp only [sumN_eq_sum]
  rw [Finset.sum_div, Finset.sum_div, ← Finset.sum_add_distrib]
  refine Finset.sum_congr rfl fun x hx => ?_
  rw [Finset.sum_div, Finset.sum_div, ← Finset.sum_add_distrib]
  refine Finset.sum_congr rfl fun y hy => ?_
  rw [nlgPred_eq pred _ _ x y (hf x y (Finset.mem_range.mp hx) (Finset.mem_range.mp hy))
    (hα x (Finset.mem_range.mp hx)) (hβ y (Finset.mem_range.mp hy))]
  unfold dMat
  ring



/-! ## Classical value and bias as maxima -/

/-- `α`, `β` are bit-valued on the question sets -/
def IsBitStrategy (m n : Nat) (α β : Nat → Nat) : Prop := (∀ x, x < m → α x < 2) ∧ ∀ y, y < n → β y < 2

/-- `s`, `t` are sign vectors on the question sets -/
def IsSignPair (m n : Nat) (s t : Nat → Rat) : Prop :=
  (∀ x, x < m → s x = 1 ∨ s x = -1) ∧ ∀ y, y < n → t y = 1 ∨ t y = -1

theorem isBitStrategy_code (m n k : Nat) : IsBitStrategy m n (aliceOf m n k) (bobOf m n k) :=
  ⟨fun x hx => bits_lt _ _ _ (by omega), fun y hy => bits_lt _ _ _ (by omega)⟩

theorem detWin_le_classicalValue (m n : Nat) (prob : Nat → Nat → Rat) (pred : Nat → Nat → Nat)
    (α β : Nat → Nat) (h : IsBitStrategy m n α β) :
    detWin m n prob pred α β ≤ xorClassicalValue m n prob pred := by
  obtain ⟨k, hk, h1, h2⟩ := exists_code m n α β h.1 h.2
  rw [← detWin_congr m n prob pred _ α _ β h1 h2]
  exact le_maxUpTo _ _ k hk

theorem classicalValue_attained (m n : Nat) (prob : Nat → Nat → Rat) (pred : Nat → Nat → Nat) :
    ∃ α β, IsBitStrategy m n α β ∧ detWin m n prob pred α β = xorClassicalValue m n prob pred := by
  obtain ⟨k, -, e⟩ := maxUpTo_attained
    (fun k => detWin m n prob pred (aliceOf m n k) (bobOf m n k)) (2 ^ (m + n) - 1)
  exact ⟨_, _, isBitStrategy_code m n k, e.symm⟩

/-- the sign vectors of code `k` -/
def signA (m n k : Nat) : Nat → Rat := fun x => negOnePow (aliceOf m n k x)
/-- the sign vectors of code `k` -/
def signB (m n k : Nat) : Nat → Rat := fun y => negOnePow (bobOf m n k y)

/-- every sign pair occurs (on the question sets) among the `2^(m+n)` enumerated codes -/
theorem exists_sign_code (m n : Nat) (s t : Nat → Rat) (h : IsSignPair m n s t) :
    ∃ k, k ≤ 2 ^ (m + n) - 1 ∧ (∀ x, x < m → signA m n k x = s x) ∧ (∀ y, y < n → signB m n k y = t y) := by
  let α : Nat → Nat := fun x => if s x = 1 then 0 else 1
  let β : Nat → Nat := fun y => if t y = 1 then 0 else 1
  have hα : ∀ x, x < m → negOnePow (α x) = s x := by
    intro x hx
    rcases h.1 x hx with e | e
    · simp [α, e, negOnePow_zero]
    · have : ¬ s x = 1 := by rw [e]; norm_num
      show negOnePow (if s x = 1 then 0 else 1) = s x
      rw [if_neg this, negOnePow_one, e]
  have hβ : ∀ y, y < n → negOnePow (β y) = t y := by
    intro y hy
    rcases h.2 y hy with e | e
    · simp [β, e, negOnePow_zero]
    · have : ¬ t y = 1 := by rw [e]; norm_num
      show negOnePow (if t y = 1 then 0 else 1) = t y
      rw [if_neg this, negOnePow_one, e]
  obtain ⟨k, hk, h1, h2⟩ := exists_code m n α β (fun x _ => by simp only [α]; split <;> omega)
    (fun y _ => by simp only [β]; split <;> omega)
  exact ⟨k, hk, fun x hx => by rw [signA, h1 x hx, hα x hx], fun y hy => by rw [signB, h2 y hy, hβ y hy]⟩

theorem isSignPair_code (m n k : Nat) : IsSignPair m n (signA m n k) (signB m n k) :=
  ⟨fun _ _ => negOnePow_cases _, fun _ _ => negOnePow_cases _⟩

/-- a functional of sign pairs that only looks at the question sets is bounded by its maximum over the codes -/
theorem sign_enum_le (m n : Nat) (F : (Nat → Rat) → (Nat → Rat) → Rat)
    (hF : ∀ s s' t t', (∀ x, x < m → s x = s' x) → (∀ y, y < n → t y = t' y) → F s t = F s' t')
    (s t : Nat → Rat) (h : IsSignPair m n s t) :
    F s t ≤ maxUpTo (2 ^ (m + n) - 1) fun k => F (signA m n k) (signB m n k) := by
  obtain ⟨k, hk, h1, h2⟩ := exists_sign_code m n s t h
  rw [← hF _ _ _ _ h1 h2]
  exact le_maxUpTo _ _ k hk

theorem sign_enum_attained (m n : Nat) (F : (Nat → Rat) → (Nat → Rat) → Rat) :
    ∃ s t, IsSignPair m n s t ∧ F s t = maxUpTo (2 ^ (m + n) - 1) fun k => F (signA m n k) (signB m n k) := by
  obtain ⟨k, -, e⟩ := maxUpTo_attained (fun k => F (signA m n k) (signB m n k)) (2 ^ (m + n) - 1)
  exact ⟨_, _, isSignPair_code m n k, e.symm⟩

theorem signBias_le_classicalBias (m n : Nat) (D : Nat → Nat → Rat) (s t : Nat → Rat)
    (h : IsSignPair m n s t) : signBias m n D s t ≤ xorClassicalBias m n D :=
  sign_enum_le m n (signBias m n D) (fun s s' t t' hs ht => signBias_congr m n D s s' t t' hs ht) s t h

theorem classicalBias_attained (m n : Nat) (D : Nat → Nat → Rat) :
    ∃ s t, IsSignPair m n s t ∧ signBias m n D s t = xorClassicalBias m n D :=
  sign_enum_attained m n (signBias m n D)

/-- the deterministic value of a Bell expression with marginals -/
def bellDet (m n : Nat) (J : Nat → Nat → Rat) (a b : Nat → Rat) (s t : Nat → Rat) : Rat :=
  signBias m n J s t + (sumN m fun x => a x * s x) + (sumN n fun y => b y * t y)

theorem bellDet_congr (m n : Nat) (J : Nat → Nat → Rat) (a b : Nat → Rat) (s s' t t' : Nat → Rat)
    (hs : ∀ x, x < m → s x = s' x) (ht : ∀ y, y < n → t y = t' y) :
    bellDet m n J a b s t = bellDet m n J a b s' t' := by
  unfold bellDet
  rw [signBias_congr m n J s s' t t' hs ht,
    sumN_congr (fun x => a x * s x) (fun x => a x * s' x) m (fun x hx => by rw [hs x hx]),
    sumN_congr (fun y => b y * t y) (fun y => b y * t' y) n (fun y hy => by rw [ht y hy])]

theorem bellDetMax_eq (m n : Nat) (J : Nat → Nat → Rat) (a b : Nat → Rat) :
    bellDetMax m n J a b = maxUpTo (2 ^ (m + n) - 1) fun k => bellDet m n J a b (signA m n k) (signB m n k) := rfl

theorem bellDet_le_max (m n : Nat) (J : Nat → Nat → Rat) (a b : Nat → Rat) (s t : Nat → Rat)
    (h : IsSignPair m n s t) : bellDet m n J a b s t ≤ bellDetMax m n J a b := by
  rw [bellDetMax_eq]
  exact sign_enum_le m n (bellDet m n J a b) (bellDet_congr m n J a b) s t h

theorem bellDetMax_attained (m n : Nat) (J : Nat → Nat → Rat) (a b : Nat → Rat) :
    ∃ s t, IsSignPair m n s t ∧ bellDet m n J a b s t = bellDetMax m n J a b := by
  rw [bellDetMax_eq]
  exact sign_enum_attained m n (bellDet m n J a b)

theorem classicalValue_eq_bias (m n : Nat) (prob : Nat → Nat → Rat) (pred : Nat → Nat → Nat)
    (hf : ∀ x y, x < m → y < n → pred x y < 2) :
    xorClassicalValue m n prob pred
      = totalProb m n prob / 2 + xorClassicalBias m n (dMat prob pred) / 2 := by
  unfold xorClassicalValue xorClassicalBias
  apply maxUpTo_affine
  intro k _
  exact detWin_eq_bias m n prob pred _ _ hf (isBitStrategy_code m n k).1 (isBitStrategy_code m n k).2

/-! ## Behaviours: winning probability through correlators, the PR-box-like behaviour -/

/-- winning probability of a behaviour `p a b x y = p(a,b|x,y)` in the converted game -/
def behWin (m n : Nat) (prob : Nat → Nat → Rat) (pred : Nat → Nat → Nat) (p : Nat → Nat → Nat → Nat → Rat) : Rat :=
  sumN m fun x => sumN n fun y => prob x y * sumN 2 fun a => sumN 2 fun b => nlgPred pred a b x y * p a b x y

/-- correlator `E[x,y] = Σ_{a,b} (-1)^{a+b} p(a,b|x,y)` -/
def corr (p : Nat → Nat → Nat → Nat → Rat) (x y : Nat) : Rat :=
  sumN 2 fun a => sumN 2 fun b => negOnePow a * negOnePow b * p a b x y

/-- `Σ_{a,b} p(a,b|x,y)` -/
def behTotal (p : Nat → Nat → Nat → Nat → Rat) (x y : Nat) : Rat := sumN 2 fun a => sumN 2 fun b => p a b x y

theorem sumN_two (f : Nat → Rat) : sumN 2 f = f 0 + f 1 := by simp [sumN]

theorem behWin_eq_bias (m n : Nat) (prob : Nat → Nat → Rat) (pred : Nat → Nat → Nat)
    (p : Nat → Nat → Nat → Nat → Rat) (hf : ∀ x y, x < m → y < n → pred x y < 2)
    (hp : ∀ x y, x < m → y < n → behTotal p x y = 1) :
    behWin m n prob pred p
      = totalProb m n prob / 2 + (sumN m fun x => sumN n fun y => dMat prob pred x y * corr p x y) / 2 := by
  unfold behWin totalProb
  simp only [sumN_eq_sum (α := Rat) _ m, sumN_eq_sum (α := Rat) _ n]
  rw [Finset.sum_div, Finset.sum_div, ← Finset.sum_add_distrib]
  refine Finset.sum_congr rfl fun x hx => ?_
  rw [Finset.sum_div, Finset.sum_div, ← Finset.sum_add_distrib]
  refine Finset.sum_congr rfl fun y hy => ?_
  have hx' := Finset.mem_range.mp hx
  have hy' := Finset.mem_range.mp hy
  have h1 := hp x y hx' hy'
  simp only [behTotal, sumN_two] at h1
  simp only [corr, sumN_two, dMat]
  rw [nlgPred_eq pred 0 0 x y (hf x y hx' hy') (by omega) (by omega),
    nlgPred_eq pred 0 1 x y (hf x y hx' hy') (by omega) (by omega),
    nlgPred_eq pred 1 0 x y (hf x y hx' hy') (by omega) (by omega),
    nlgPred_eq pred 1 1 x y (hf x y hx' hy') (by omega) (by omega)]
  simp only [negOnePow_zero, negOnePow_one]
  have : p 0 0 x y = 1 - p 0 1 x y - p 1 0 x y - p 1 1 x y := by linarith
  rw [this]
  ring

/-- `p(a,b|x,y) = 1/2 · [a ⊕ b = f(x,y)]` -/
def prBox (pred : Nat → Nat → Nat) : Nat → Nat → Nat → Nat → Rat :=
  fun a b x y => if pred x y = a ^^^ b then 1 / 2 else 0

theorem prBox_nonneg (pred : Nat → Nat → Nat) (a b x y : Nat) : 0 ≤ prBox pred a b x y := by
  unfold prBox; split <;> norm_num

theorem prBox_entries (pred : Nat → Nat → Nat) (x y : Nat) (hf : pred x y < 2) :
    (prBox pred 0 0 x y = 1 / 2 ∧ prBox pred 1 1 x y = 1 / 2 ∧ prBox pred 0 1 x y = 0 ∧ prBox pred 1 0 x y = 0) ∨
    (prBox pred 0 0 x y = 0 ∧ prBox pred 1 1 x y = 0 ∧ prBox pred 0 1 x y = 1 / 2 ∧ prBox pred 1 0 x y = 1 / 2) := by
  have h1 : pred x y = 0 ∨ pred x y = 1 := by omega
  rcases h1 with h | h
  · left; simp [prBox, h]
  · right; simp [prBox, h]

theorem prBox_total (pred : Nat → Nat → Nat) (x y : Nat) (hf : pred x y < 2) : behTotal (prBox pred) x y = 1 := by
  simp only [behTotal, sumN_two]
  rcases prBox_entries pred x y hf with ⟨h1, h2, h3, h4⟩ | ⟨h1, h2, h3, h4⟩ <;> rw [h1, h2, h3, h4] <;> norm_num

theorem prBox_marginalA (pred : Nat → Nat → Nat) (a x y : Nat) (ha : a < 2) (hf : pred x y < 2) :
    (sumN 2 fun b => prBox pred a b x y) = 1 / 2 := by
  simp only [sumN_two]
  have ha' : a = 0 ∨ a = 1 := by omega
  rcases prBox_entries pred x y hf with ⟨h1, h2, h3, h4⟩ | ⟨h1, h2, h3, h4⟩ <;> rcases ha' with rfl | rfl <;>
    simp only [h1, h2, h3, h4] <;> norm_num

theorem prBox_marginalB (pred : Nat → Nat → Nat) (b x y : Nat) (hb : b < 2) (hf : pred x y < 2) :
    (sumN 2 fun a => prBox pred a b x y) = 1 / 2 := by
  simp only [sumN_two]
  have hb' : b = 0 ∨ b = 1 := by omega
  rcases prBox_entries pred x y hf with ⟨h1, h2, h3, h4⟩ | ⟨h1, h2, h3, h4⟩ <;> rcases hb' with rfl | rfl <;>
    simp only [h1, h2, h3, h4] <;> norm_num

theorem prBox_wins (pred : Nat → Nat → Nat) (x y : Nat) (hf : pred x y < 2) :
    (sumN 2 fun a => sumN 2 fun b => nlgPred pred a b x y * prBox pred a b x y) = 1 := by
  simp only [sumN_two]
  have h1 : pred x y = 0 ∨ pred x y = 1 := by omega
  rcases h1 with h | h <;> simp [prBox, nlgPred, h] <;> norm_num

theorem behWin_prBox (m n : Nat) (prob : Nat → Nat → Rat) (pred : Nat → Nat → Nat)
    (hf : ∀ x y, x < m → y < n → pred x y < 2) : behWin m n prob pred (prBox pred) = totalProb m n prob := by
  unfold behWin totalProb
  refine sumN_congr _ _ m fun x hx => sumN_congr _ _ n fun y hy => ?_
  rw [prBox_wins pred x y (hf x y hx hy), mul_one]

theorem nlgPred_le_one (pred : Nat → Nat → Nat) (a b x y : Nat) : nlgPred pred a b x y ≤ 1 := by
  unfold nlgPred; split <;> norm_num

theorem behWin_le_total (m n : Nat) (prob : Nat → Nat → Rat) (pred : Nat → Nat → Nat)
    (p : Nat → Nat → Nat → Nat → Rat) (hprob : ∀ x y, x < m → y < n → 0 ≤ prob x y)
    (hp0 : ∀ a b x y, 0 ≤ p a b x y) (hp : ∀ x y, x < m → y < n → behTotal p x y = 1) :
    behWin m n prob pred p ≤ totalProb m n prob := by
  unfold behWin totalProb
  simp only [sumN_eq_sum (α := Rat) _ m, sumN_eq_sum (α := Rat) _ n]
  refine Finset.sum_le_sum fun x hx => Finset.sum_le_sum fun y hy => ?_
  have hx' := Finset.mem_range.mp hx
  have hy' := Finset.mem_range.mp hy
  have h1 := hp x y hx' hy'
  simp only [behTotal, sumN_two] at h1
  simp only [sumN_two]
  have e : ∀ a b, nlgPred pred a b x y * p a b x y ≤ p a b x y := fun a b => by
    have := mul_le_mul_of_nonneg_right (nlgPred_le_one pred a b x y) (hp0 a b x y)
    simpa using this
  have := e 0 0; have := e 0 1; have := e 1 0; have := e 1 1
  have hs : nlgPred pred 0 0 x y * p 0 0 x y + nlgPred pred 0 1 x y * p 0 1 x y
      + (nlgPred pred 1 0 x y * p 1 0 x y + nlgPred pred 1 1 x y * p 1 1 x y) ≤ 1 := by linarith
  calc prob x y * _ ≤ prob x y * 1 := mul_le_mul_of_nonneg_left hs (hprob x y hx' hy')
    _ = prob x y := mul_one _


/-! ## Quantum strategies -/

section QuantumStrategies
variable {X Y : Type*} [Fintype X] [Fintype Y] [DecidableEq X] [DecidableEq Y]
variable {d : Type*} [Fintype d] [DecidableEq d]

/-- A quantum strategy in commuting-operator form: a density matrix and ±1-valued observables
    (Hermitian involutions) `A_x`, `B_y` with `[A_x, B_y] = 0` (e.g. `A_x ⊗ 1` and `1 ⊗ B_y`). -/
structure IsStrategy (ρ : Matrix d d ℂ) (A : X → Matrix d d ℂ) (B : Y → Matrix d d ℂ) : Prop where
  psd : ρ.PosSemidef
  tr_one : ρ.trace = 1
  A_herm : ∀ x, (A x).IsHermitian
  A_sq : ∀ x, A x * A x = 1
  B_herm : ∀ y, (B y).IsHermitian
  B_sq : ∀ y, B y * B y = 1
  comm : ∀ x y, A x * B y = B y * A x

/-- correlator `⟨A_x B_y⟩ = Re tr(ρ A_x B_y)` -/
noncomputable def corrQ (ρ : Matrix d d ℂ) (A : X → Matrix d d ℂ) (B : Y → Matrix d d ℂ) (x : X) (y : Y) : ℝ :=
  (ρ * A x * B y).trace.re

theorem quantum_xor_le_dual (D : X → Y → ℝ) (a : X → ℝ) (b : Y → ℝ) (ρ : Matrix d d ℂ)
    (A : X → Matrix d d ℂ) (B : Y → Matrix d d ℂ) (h : IsStrategy ρ A B)
    (hZ : (tsirelsonDual D a b).PosSemidef) :
    ∑ x, ∑ y, D x y * corrQ ρ A B x y ≤ (∑ x, a x + ∑ y, b y) / 2 := by
  have hO : ∀ i, (Sum.elim A B i)ᴴ * Sum.elim A B i = 1 := by
    rintro (x | y)
    · simp only [Sum.elim_inl]; rw [(h.A_herm x).eq, h.A_sq]
    · simp only [Sum.elim_inr]; rw [(h.B_herm y).eq, h.B_sq]
  have hΓ := isMoment_momentMatrix ρ h.psd h.tr_one (Sum.elim A B) hO
  have := tsirelson_weak_duality_sum D a b _ hΓ hZ
  simpa [momentMatrix, corrQ, (h.A_herm _).eq] using this

end QuantumStrategies

/-! ## Unit vectors and sign vectors as feasible points -/

section VectorsLe
variable {X Y : Type*} [Fintype X] [Fintype Y] [DecidableEq X] [DecidableEq Y] {d : Type*} [Fintype d]

theorem vectors_le_dual (D : X → Y → ℝ) (a : X → ℝ) (b : Y → ℝ) (u : X → d → ℝ) (v : Y → d → ℝ)
    (hu : ∀ x, ∑ k, u x k ^ 2 = 1) (hv : ∀ y, ∑ k, v y k ^ 2 = 1) (hZ : (tsirelsonDual D a b).PosSemidef) :
    ∑ x, ∑ y, D x y * ∑ k, u x k * v y k ≤ (∑ x, a x + ∑ y, b y) / 2 := by
  have hΓ : IsMoment (gram (Sum.elim u v)) := isMoment_gram _ (by rintro (x | y) <;> simp [hu, hv])
  have := tsirelson_weak_duality_sum D a b _ hΓ hZ
  simpa [gram] using this

theorem signs_le_dual (D : X → Y → ℝ) (a : X → ℝ) (b : Y → ℝ) (s : X → ℝ) (t : Y → ℝ)
    (hs : ∀ x, s x = 1 ∨ s x = -1) (ht : ∀ y, t y = 1 ∨ t y = -1) (hZ : (tsirelsonDual D a b).PosSemidef) :
    ∑ x, ∑ y, D x y * (s x * t y) ≤ (∑ x, a x + ∑ y, b y) / 2 := by
  have := vectors_le_dual (d := Unit) D a b (fun x _ => s x) (fun y _ => t y)
    (fun x => by rcases hs x with e | e <;> simp [e]) (fun y => by rcases ht y with e | e <;> simp [e]) hZ
  simpa using this

end VectorsLe


/-! ## Bell expressions with marginal terms -/

section Bell
open EMat
variable {m n k : Nat} {d : Type*} [Fintype d] [DecidableEq d]

/-- `Σ J[x,y]⟨A_x B_y⟩ + Σ a_x⟨A_x⟩ + Σ b_y⟨B_y⟩` in the state `ρ` -/
noncomputable def bellValueR (J : Fin m → Fin n → ℝ) (a : Fin m → ℝ) (b : Fin n → ℝ) (ρ : Matrix d d ℂ)
    (A : Fin m → Matrix d d ℂ) (B : Fin n → Matrix d d ℂ) : ℝ :=
  (∑ x, ∑ y, J x y * (ρ * A x * B y).trace.re) + (∑ x, a x * (ρ * A x).trace.re)
    + ∑ y, b y * (ρ * B y).trace.re

/-- prepend the identity observable -/
def consOne (A : Fin m → Matrix d d ℂ) : Fin (m + 1) → Matrix d d ℂ := Fin.cons (α := fun _ => Matrix d d ℂ) 1 A

omit [Fintype d] in
@[simp] theorem consOne_zero (A : Fin m → Matrix d d ℂ) : consOne A 0 = 1 := rfl
omit [Fintype d] in
@[simp] theorem consOne_succ (A : Fin m → Matrix d d ℂ) (x : Fin m) : consOne A x.succ = A x := by
  simp [consOne]

theorem isStrategy_consOne {ρ : Matrix d d ℂ} {A : Fin m → Matrix d d ℂ} {B : Fin n → Matrix d d ℂ}
    (h : IsStrategy ρ A B) : IsStrategy ρ (consOne A) (consOne B) where
  psd := h.psd
  tr_one := h.tr_one
  A_herm := by refine Fin.cases ?_ ?_
               · exact Matrix.isHermitian_one
               · intro x; rw [consOne_succ]; exact h.A_herm x
  A_sq := by refine Fin.cases ?_ ?_
             · simp
             · intro x; rw [consOne_succ]; exact h.A_sq x
  B_herm := by refine Fin.cases ?_ ?_
               · exact Matrix.isHermitian_one
               · intro y; rw [consOne_succ]; exact h.B_herm y
  B_sq := by refine Fin.cases ?_ ?_
             · simp
             · intro y; rw [consOne_succ]; exact h.B_sq y
  comm := by
    refine Fin.cases ?_ ?_
    · intro y; simp
    · intro x
      refine Fin.cases ?_ ?_
      · simp
      · intro y; simp only [consOne_succ]; exact h.comm x y

theorem bellExt_sum (J : Nat → Nat → Rat) (a b : Nat → Rat) (t : Rat) (ρ : Matrix d d ℂ)
    (A : Fin m → Matrix d d ℂ) (B : Fin n → Matrix d d ℂ) (htr : ρ.trace = 1) :
    ∑ x : Fin (m + 1), ∑ y : Fin (n + 1),
        castD (bellExt J a b t) x y * corrQ ρ (consOne A) (consOne B) x y
      = (t : ℝ) + bellValueR (castD J) (castV a) (castV b) ρ A B := by
  simp only [Fin.sum_univ_succ, castD, castV, bellExt, corrQ, consOne_zero, consOne_succ, Fin.val_zero,
    Fin.val_succ, if_true, htr, Complex.one_re, mul_one, Nat.add_sub_cancel,
    Nat.succ_ne_zero, if_false, Finset.sum_add_distrib, bellValueR]
  ring

theorem bell_strategy_le_dual (J : Nat → Nat → Rat) (a b : Nat → Rat) (t : Rat)
    (u : Fin (m + 1) → ℝ) (v : Fin (n + 1) → ℝ) (ρ : Matrix d d ℂ) (A : Fin m → Matrix d d ℂ)
    (B : Fin n → Matrix d d ℂ) (h : IsStrategy ρ A B)
    (hZ : (tsirelsonDual (castD (m := m + 1) (n := n + 1) (bellExt J a b t)) u v).PosSemidef) :
    bellValueR (castD J) (castV a) (castV b) ρ A B ≤ (∑ x, u x + ∑ y, v y) / 2 - (t : ℝ) := by
  have := quantum_xor_le_dual _ u v ρ _ _ (isStrategy_consOne h) hZ
  rw [bellExt_sum J a b t ρ A B h.tr_one] at this
  linarith

theorem checkBellDual_sound' (J : Nat → Nat → Rat) (a b : Nat → Rat) (t : Rat) (u v : Nat → Rat)
    (L : EMat (m + 1 + (n + 1)) k) (hi : Rat) (hc : checkBellDual m n J a b t u v L = some hi)
    (ρ : Matrix d d ℂ) (A : Fin m → Matrix d d ℂ) (B : Fin n → Matrix d d ℂ) (h : IsStrategy ρ A B) :
    bellValueR (castD J) (castV a) (castV b) ρ A B ≤ (hi : ℝ) := by
  unfold checkBellDual at hc
  split at hc
  · next h' hx =>
    obtain ⟨hZ, hv⟩ := checkXorDual_sound' _ _ _ _ _ hx
    have := bell_strategy_le_dual J a b t _ _ ρ A B h hZ
    rw [hv] at this
    rw [← Option.some.inj hc]
    push_cast
    exact this
  · exact absurd hc (by simp)

/-! ### explicit strategies -/

theorem expect_cast {N : Nat} (ρ M : EMat N N) : ((expect ρ M : Rat) : ℝ) = (ρ.toM * M.toM).trace.re := by
  unfold expect; rw [re_trace, toM_mul]

theorem isInvolution_sound {N : Nat} (A : EMat N N) (h : isInvolution A = true) :
    A.toM.IsHermitian ∧ A.toM * A.toM = 1 := by
  simp only [isInvolution, Bool.and_eq_true] at h
  refine ⟨isHermitian_sound A h.1, ?_⟩
  rw [← toM_mul, beq_sound _ _ h.2, toM_one]

theorem commutes_sound {N : Nat} (A B : EMat N N) (h : commutes A B = true) : A.toM * B.toM = B.toM * A.toM := by
  rw [← toM_mul, ← toM_mul]
  exact beq_sound _ _ h

theorem bellValue_cast {N : Nat} (J : Nat → Nat → Rat) (a b : Nat → Rat) (ρ : EMat N N)
    (A : Fin m → EMat N N) (B : Fin n → EMat N N) :
    ((bellValue m n J a b ρ A B : Rat) : ℝ)
      = bellValueR (castD J) (castV a) (castV b) ρ.toM (fun x => (A x).toM) (fun y => (B y).toM) := by
  unfold bellValue bellValueR
  push_cast
  rw [sumFinQ_cast, sumFinQ_cast, sumFinQ_cast]
  congr 1
  · congr 1
    · refine Finset.sum_congr rfl fun x _ => ?_
      rw [sumFinQ_cast]
      refine Finset.sum_congr rfl fun y _ => ?_
      rw [Rat.cast_mul, expect_cast, toM_mul, Matrix.mul_assoc]
      rfl
    · refine Finset.sum_congr rfl fun x _ => ?_
      rw [Rat.cast_mul, expect_cast]; rfl
  · refine Finset.sum_congr rfl fun y _ => ?_
    rw [Rat.cast_mul, expect_cast]; rfl

theorem checkBellStrategy_sound' {N : Nat} (J : Nat → Nat → Rat) (a b : Nat → Rat) (ρ : EMat N N) (Lρ : EMat N k)
    (A : Fin m → EMat N N) (B : Fin n → EMat N N) (lo : Rat)
    (h : checkBellStrategy m n J a b ρ Lρ A B = some lo) :
    IsStrategy ρ.toM (fun x => (A x).toM) (fun y => (B y).toM) ∧
      bellValueR (castD J) (castV a) (castV b) ρ.toM (fun x => (A x).toM) (fun y => (B y).toM) = (lo : ℝ) := by
  unfold checkBellStrategy at h
  split at h
  · next hc =>
    simp only [Bool.and_eq_true, isDensity, observablesOk, allFin_iff, beq_iff_eq] at hc
    obtain ⟨⟨hpsd, htr⟩, ⟨hA, hB⟩, hcomm⟩ := hc
    refine ⟨⟨psdCert_sound _ _ hpsd, ?_, fun x => (isInvolution_sound _ (hA x)).1,
      fun x => (isInvolution_sound _ (hA x)).2, fun y => (isInvolution_sound _ (hB y)).1,
      fun y => (isInvolution_sound _ (hB y)).2, fun x y => commutes_sound _ _ (hcomm x y)⟩, ?_⟩
    · rw [← toC_trace, htr]; simp
    · rw [← bellValue_cast]
      exact congrArg _ (Option.some.inj h)
  · exact absurd h (by simp)

end Bell


/-! ## Deterministic assignments are quantum strategies -/

section Deterministic
variable {m n : Nat}

/-- the one-dimensional strategy of a sign assignment -/
theorem isStrategy_signs (s : Fin m → ℝ) (t : Fin n → ℝ) (hs : ∀ x, s x = 1 ∨ s x = -1)
    (ht : ∀ y, t y = 1 ∨ t y = -1) :
    IsStrategy (1 : Matrix (Fin 1) (Fin 1) ℂ) (fun x => (s x : ℂ) • (1 : Matrix (Fin 1) (Fin 1) ℂ))
      (fun y => (t y : ℂ) • (1 : Matrix (Fin 1) (Fin 1) ℂ)) where
  psd := Matrix.PosSemidef.one
  tr_one := by simp
  A_herm := fun x => by
    rw [Matrix.IsHermitian, Matrix.conjTranspose_smul, Matrix.conjTranspose_one]; simp
  A_sq := fun x => by
    rw [Matrix.smul_mul, Matrix.one_mul, smul_smul]
    rcases hs x with e | e <;> simp [e]
  B_herm := fun y => by
    rw [Matrix.IsHermitian, Matrix.conjTranspose_smul, Matrix.conjTranspose_one]; simp
  B_sq := fun y => by
    rw [Matrix.smul_mul, Matrix.one_mul, smul_smul]
    rcases ht y with e | e <;> simp [e]
  comm := fun x y => by simp [smul_smul, mul_comm]

theorem bellValueR_signs (J : Fin m → Fin n → ℝ) (a : Fin m → ℝ) (b : Fin n → ℝ) (s : Fin m → ℝ) (t : Fin n → ℝ) :
    bellValueR J a b (1 : Matrix (Fin 1) (Fin 1) ℂ) (fun x => (s x : ℂ) • (1 : Matrix (Fin 1) (Fin 1) ℂ))
      (fun y => (t y : ℂ) • (1 : Matrix (Fin 1) (Fin 1) ℂ))
      = (∑ x, ∑ y, J x y * (s x * t y)) + (∑ x, a x * s x) + ∑ y, b y * t y := by
  simp [bellValueR, Matrix.trace_smul, smul_smul, mul_comm]

end Deterministic

/-! ## Affine change of outcome labels -/

theorem bellAffineC_spec (m n : Nat) (J : Nat → Nat → Rat) (a b : Nat → Rat) (ca da cb db : Rat)
    (e : Nat → Nat → Rat) (p q : Nat → Rat) :
    (sumN m fun x => sumN n fun y => J x y * (ca * cb + ca * db * q y + da * cb * p x + da * db * e x y))
        + (sumN m fun x => a x * (ca + da * p x)) + (sumN n fun y => b y * (cb + db * q y))
      = (bellAffineC m n J a b ca da cb db).2.2.2
        + (sumN m fun x => sumN n fun y => (bellAffineC m n J a b ca da cb db).1 x y * e x y)
        + (sumN m fun x => (bellAffineC m n J a b ca da cb db).2.1 x * p x)
        + (sumN n fun y => (bellAffineC m n J a b ca da cb db).2.2.1 y * q y) := by
  simp only [bellAffineC, sumN_eq_sum]
  have h1 : ∑ x ∈ Finset.range m, ∑ y ∈ Finset.range n,
        J x y * (ca * cb + ca * db * q y + da * cb * p x + da * db * e x y)
      = ca * cb * (∑ x ∈ Finset.range m, ∑ y ∈ Finset.range n, J x y)
        + ∑ y ∈ Finset.range n, db * (ca * ∑ x ∈ Finset.range m, J x y) * q y
        + ∑ x ∈ Finset.range m, da * (cb * ∑ y ∈ Finset.range n, J x y) * p x
        + ∑ x ∈ Finset.range m, ∑ y ∈ Finset.range n, J x y * da * db * e x y := by
    have e1 : ∑ y ∈ Finset.range n, db * (ca * ∑ x ∈ Finset.range m, J x y) * q y
        = ∑ x ∈ Finset.range m, ∑ y ∈ Finset.range n, J x y * (ca * db * q y) := by
      rw [Finset.sum_comm]
      refine Finset.sum_congr rfl fun y _ => ?_
      rw [Finset.mul_sum, Finset.mul_sum, Finset.sum_mul]
      refine Finset.sum_congr rfl fun x _ => by ring
    have e2 : ∑ x ∈ Finset.range m, da * (cb * ∑ y ∈ Finset.range n, J x y) * p x
        = ∑ x ∈ Finset.range m, ∑ y ∈ Finset.range n, J x y * (da * cb * p x) := by
      refine Finset.sum_congr rfl fun x _ => ?_
      rw [Finset.mul_sum, Finset.mul_sum, Finset.sum_mul]
      refine Finset.sum_congr rfl fun y _ => by ring
    rw [e1, e2, Finset.mul_sum]
    simp only [Finset.mul_sum, ← Finset.sum_add_distrib]
    refine Finset.sum_congr rfl fun x _ => Finset.sum_congr rfl fun y _ => by ring
  have f2 : ∑ x ∈ Finset.range m, a x * (ca + da * p x)
      = ca * (∑ x ∈ Finset.range m, a x) + ∑ x ∈ Finset.range m, da * a x * p x := by
    rw [Finset.mul_sum, ← Finset.sum_add_distrib]
    exact Finset.sum_congr rfl fun x _ => by ring
  have f3 : ∑ y ∈ Finset.range n, b y * (cb + db * q y)
      = cb * (∑ y ∈ Finset.range n, b y) + ∑ y ∈ Finset.range n, db * b y * q y := by
    rw [Finset.mul_sum, ← Finset.sum_add_distrib]
    exact Finset.sum_congr rfl fun y _ => by ring
  have f4 : ∑ x ∈ Finset.range m, da * (a x + cb * ∑ y ∈ Finset.range n, J x y) * p x
      = ∑ x ∈ Finset.range m, da * a x * p x
        + ∑ x ∈ Finset.range m, da * (cb * ∑ y ∈ Finset.range n, J x y) * p x := by
    rw [← Finset.sum_add_distrib]
    exact Finset.sum_congr rfl fun x _ => by ring
  have f5 : ∑ y ∈ Finset.range n, db * (b y + ca * ∑ x ∈ Finset.range m, J x y) * q y
      = ∑ y ∈ Finset.range n, db * b y * q y
        + ∑ y ∈ Finset.range n, db * (ca * ∑ x ∈ Finset.range m, J x y) * q y := by
    rw [← Finset.sum_add_distrib]
    exact Finset.sum_congr rfl fun y _ => by ring
  rw [h1, f2, f3, f4, f5]
  ring

/-! ## The value returned by `quantum_value` -/

theorem powN_eq_pow (x : Rat) : ∀ r, powN x r = x ^ r
  | 0 => by simp [powN]
  | r + 1 => by rw [powN, powN_eq_pow x r, pow_succ]


theorem powN_nonneg (x : Rat) (hx : 0 ≤ x) (r : Nat) : 0 ≤ powN x r := by
  rw [powN_eq_pow]; exact pow_nonneg hx r

theorem powN_mono (x y : Rat) (hx : 0 ≤ x) (hxy : x ≤ y) (r : Nat) : powN x r ≤ powN y r := by
  rw [powN_eq_pow, powN_eq_pow]; exact pow_le_pow_left₀ hx hxy r

/-! ## Casting the exact classical quantities to real sums over `Fin` -/

theorem sumN_cast_fin (n : Nat) (f : Nat → Rat) : ((sumN n f : Rat) : ℝ) = ∑ i : Fin n, ((f i.val : Rat) : ℝ) := by
  rw [sumN_eq_sum, Rat.cast_sum, Finset.sum_range]

theorem signBias_cast (m n : Nat) (D : Nat → Nat → Rat) (s t : Nat → Rat) :
    ((signBias m n D s t : Rat) : ℝ)
      = ∑ x : Fin m, ∑ y : Fin n, castD D x y * (castV s x * castV t y) := by
  unfold signBias
  rw [sumN_cast_fin]
  refine Finset.sum_congr rfl fun x _ => ?_
  rw [sumN_cast_fin]
  refine Finset.sum_congr rfl fun y _ => ?_
  simp only [castD, castV]; push_cast; ring

theorem bellDet_cast (m n : Nat) (J : Nat → Nat → Rat) (a b : Nat → Rat) (s t : Nat → Rat) :
    ((bellDet m n J a b s t : Rat) : ℝ)
      = (∑ x : Fin m, ∑ y : Fin n, castD J x y * (castV s x * castV t y))
        + (∑ x : Fin m, castV a x * castV s x) + ∑ y : Fin n, castV b y * castV t y := by
  unfold bellDet
  push_cast
  rw [signBias_cast, sumN_cast_fin, sumN_cast_fin]
  simp only [castV]; push_cast; rfl

theorem castV_sign {m : Nat} (s : Nat → Rat) (h : ∀ x, x < m → s x = 1 ∨ s x = -1) (x : Fin m) :
    castV s x = 1 ∨ castV s x = -1 := by
  rcases h x.val x.isLt with e | e <;> simp [castV, e]


/-! ## Level-1 moment matrices (index set `{1} ⊕ X ⊕ Y`, ±1 observables) -/

section NPA1
variable {X Y : Type*} [Fintype X] [Fintype Y]

/-- a moment matrix on `X ⊕ Y` extends to the level-1 index set `{1} ⊕ X ⊕ Y` with vanishing one-body terms -/
theorem isMoment_extend (Γ : Matrix (X ⊕ Y) (X ⊕ Y) ℂ) (h : IsMoment Γ) :
    IsMoment (Matrix.fromBlocks (1 : Matrix Unit Unit ℂ) 0 0 Γ) := by
  refine ⟨?_, ?_⟩
  · have h0 : (0 : Matrix (X ⊕ Y) Unit ℂ) = (0 : Matrix Unit (X ⊕ Y) ℂ)ᴴ := by simp
    have : Invertible (1 : Matrix Unit Unit ℂ) := invertibleOne
    rw [h0, Matrix.PosDef.fromBlocks₁₁ _ _ Matrix.PosDef.one]
    simpa using h.1
  · rintro (u | i)
    · simp
    · simpa using h.2 i

theorem npa1_le_dual' [DecidableEq X] [DecidableEq Y] (D : X → Y → ℝ) (a : X → ℝ) (b : Y → ℝ)
    (R : Matrix (Unit ⊕ (X ⊕ Y)) (Unit ⊕ (X ⊕ Y)) ℂ)
    (hR : IsMoment R) (hZ : (tsirelsonDual D a b).PosSemidef) :
    ∑ x, ∑ y, D x y * (R (.inr (.inl x)) (.inr (.inr y))).re ≤ (∑ x, a x + ∑ y, b y) / 2 := by
  have := tsirelson_weak_duality_sum D a b _ (isMoment_submatrix hR Sum.inr) hZ
  simpa using this

end NPA1


/-! ## From the projector basis `(1, A_x^0, B_y^0)` of toqito's NPA matrix to ±1 observables -/

section Basis
variable {ι : Type*} [Fintype ι] [DecidableEq ι]

/-- change of basis `1 ↦ 1`, `P_i ↦ S_i = 2 P_i − 1` -/
def basisChange (ι : Type*) [Fintype ι] [DecidableEq ι] : Matrix (Unit ⊕ ι) (Unit ⊕ ι) ℂ :=
  Matrix.fromBlocks 1 0 (Matrix.of fun _ _ => (-1 : ℂ)) ((2 : ℂ) • (1 : Matrix ι ι ℂ))

theorem basisChange_entry (R : Matrix (Unit ⊕ ι) (Unit ⊕ ι) ℂ) (i j : ι) :
    (basisChange ι * R * (basisChange ι)ᴴ) (.inr i) (.inr j)
      = 4 * R (.inr i) (.inr j) - 2 * R (.inr i) (.inl ()) - 2 * R (.inl ()) (.inr j) + R (.inl ()) (.inl ()) := by
  simp only [Matrix.mul_apply, Fintype.sum_sum_type, basisChange, Matrix.conjTranspose_apply,
    Matrix.fromBlocks_apply₂₁, Matrix.fromBlocks_apply₂₂, Matrix.of_apply, Matrix.smul_apply, Matrix.one_apply,
    Finset.univ_unique, Finset.sum_singleton, smul_eq_mul, mul_ite, mul_one, mul_zero, ite_mul, zero_mul,
    Finset.sum_ite_eq, Finset.mem_univ, if_true, star_neg, star_one, star_ofNat, apply_ite star, star_zero]
  ring

theorem basisChange_zero (R : Matrix (Unit ⊕ ι) (Unit ⊕ ι) ℂ) :
    (basisChange ι * R * (basisChange ι)ᴴ) (.inl ()) (.inl ()) = R (.inl ()) (.inl ()) := by
  simp [Matrix.mul_apply, Fintype.sum_sum_type, basisChange]

/-- a PSD matrix in the projector basis (`R[1,1] = 1`, `R[P_i,P_i] = R[1,P_i]`) becomes a PSD matrix with unit
    diagonal in the basis of ±1 observables -/
theorem isMoment_basisChange (R : Matrix (Unit ⊕ ι) (Unit ⊕ ι) ℂ) (hR : R.PosSemidef)
    (h1 : R (.inl ()) (.inl ()) = 1) (hp : ∀ i, R (.inr i) (.inr i) = R (.inl ()) (.inr i)) :
    IsMoment (basisChange ι * R * (basisChange ι)ᴴ) := by
  refine ⟨hR.mul_mul_conjTranspose_same _, ?_⟩
  rintro (u | i)
  · rw [basisChange_zero, h1]
  · rw [basisChange_entry, h1]
    have hd : star (R (.inr i) (.inr i)) = R (.inr i) (.inr i) := hR.isHermitian.apply _ _
    have hc : R (.inr i) (.inl ()) = star (R (.inl ()) (.inr i)) := (hR.isHermitian.apply _ _).symm
    rw [hc, ← hp i, hd]
    ring

end Basis

end Toq.Xor
