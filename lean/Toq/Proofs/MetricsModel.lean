import Toq.Proofs.MetricsClassical
import Mathlib.Data.Rat.Floor
/-!
# Bridge from the executable classical evaluators, rounding and guard functions of `Toq.Model.Metrics` to the real-valued definitions
-/

open Matrix

set_option linter.unusedSectionVars false

namespace Toq.Metrics
open EMat

section ModelBridge
variable {n : Nat}

theorem absQ_cast (x : Rat) : ((absQ x : Rat) : ℝ) = |(x : ℝ)| := by
  unfold absQ
  split_ifs with h
  · have : (x : ℝ) < 0 := by exact_mod_cast h
    rw [abs_of_neg this, Rat.cast_neg]
  · have : (0 : ℝ) ≤ x := by exact_mod_cast not_lt.mp h
    rw [abs_of_nonneg this]

theorem classTD_cast (p q : Fin n → Rat) :
    ((classTD p q : Rat) : ℝ) = cTD (fun i => (p i : ℝ)) (fun i => (q i : ℝ)) := by
  unfold classTD cTD
  rw [Rat.cast_div, sumFinQ_cast]
  simp only [absQ_cast, Rat.cast_sub]
  norm_num

theorem classHS_cast (p q : Fin n → Rat) :
    ((classHS p q : Rat) : ℝ) = ∑ i, ((p i : ℝ) - q i) ^ 2 := by
  unfold classHS
  rw [sumFinQ_cast]
  refine Finset.sum_congr rfl fun i _ => ?_
  push_cast; ring

theorem classTrProd_cast (p q : Fin n → Rat) : ((classTrProd p q : Rat) : ℝ) = ∑ i, (p i : ℝ) * q i := by
  unfold classTrProd
  rw [sumFinQ_cast]
  refine Finset.sum_congr rfl fun i _ => ?_
  push_cast; ring

theorem classTrProd4_cast (p q : Fin n → Rat) :
    ((classTrProd4 p q : Rat) : ℝ) = ∑ i, ((p i : ℝ) * q i) ^ 2 := by
  unfold classTrProd4
  rw [sumFinQ_cast]
  refine Finset.sum_congr rfl fun i _ => ?_
  push_cast; ring

theorem isProb_sound (p : Fin n → Rat) (h : isProb p = true) : IsProb (fun i => (p i : ℝ)) := by
  simp only [isProb, Bool.and_eq_true, allFin_iff, decide_eq_true_eq] at h
  refine ⟨fun i => by
    have := h.1 i
    show (0 : ℝ) ≤ ((p i : ℚ) : ℝ)
    exact_mod_cast this, ?_⟩
  have := congrArg (fun x : Rat => (x : ℝ)) h.2
  simp only [sumFinQ_cast, Rat.cast_one] at this
  exact this

theorem checkClassFidLower_core (p q s : Fin n → Rat) (lo : Rat) (h : checkClassFidLower p q s = some lo) :
    (lo : ℝ) ≤ cFid (fun i => (p i : ℝ)) (fun i => (q i : ℝ)) := by
  unfold checkClassFidLower at h
  split at h
  · next hc =>
    simp only [allFin_iff, Bool.and_eq_true, decide_eq_true_eq] at hc
    have : lo = sumFinQ n s := (Option.some.inj h).symm
    rw [this, sumFinQ_cast]
    unfold cFid
    refine Finset.sum_le_sum fun i _ => ?_
    refine Real.le_sqrt_of_sq_le ?_
    have := (hc i).2
    have h2 : ((s i * s i : Rat) : ℝ) ≤ ((p i * q i : Rat) : ℝ) := by exact_mod_cast this
    push_cast at h2
    rw [sq]; exact h2
  · exact absurd h (by simp)

theorem checkClassFidUpper_core (p q s : Fin n → Rat) (hi : Rat) (h : checkClassFidUpper p q s = some hi) :
    cFid (fun i => (p i : ℝ)) (fun i => (q i : ℝ)) ≤ (hi : ℝ) := by
  unfold checkClassFidUpper at h
  split at h
  · next hc =>
    simp only [allFin_iff, Bool.and_eq_true, decide_eq_true_eq] at hc
    have : hi = sumFinQ n s := (Option.some.inj h).symm
    rw [this, sumFinQ_cast]
    unfold cFid
    refine Finset.sum_le_sum fun i _ => ?_
    have h0 : (0 : ℝ) ≤ s i := by exact_mod_cast (hc i).1
    have h2 : ((p i * q i : Rat) : ℝ) ≤ ((s i * s i : Rat) : ℝ) := by exact_mod_cast (hc i).2
    push_cast at h2
    rw [← Real.sqrt_mul_self h0]
    exact Real.sqrt_le_sqrt h2
  · exact absurd h (by simp)

/-! ### rounding -/

theorem rat_floor_eq (x : ℚ) : (x.floor : ℤ) = ⌊x⌋ := rfl

theorem rhe_lt {x : ℚ} (h : x - ⌊x⌋ < 1 / 2) : roundHalfEven x = ⌊x⌋ := by
  unfold roundHalfEven; exact if_pos h

theorem rhe_gt {x : ℚ} (h : 1 / 2 < x - ⌊x⌋) : roundHalfEven x = ⌊x⌋ + 1 := by
  unfold roundHalfEven
  exact (if_neg (not_lt.mpr h.le)).trans (if_pos h)

theorem rhe_half {x : ℚ} (h : x - ⌊x⌋ = 1 / 2) :
    roundHalfEven x = if ⌊x⌋ % 2 = 0 then ⌊x⌋ else ⌊x⌋ + 1 := by
  unfold roundHalfEven
  have h1 : ¬ (x - ⌊x⌋ < 1 / 2) := by rw [h]; exact lt_irrefl _
  have h2 : ¬ (1 / 2 < x - ⌊x⌋) := by rw [h]; exact lt_irrefl _
  exact (if_neg h1).trans (if_neg h2)

theorem rhe_cases (x : ℚ) : (x - ⌊x⌋ < 1 / 2 ∧ roundHalfEven x = ⌊x⌋) ∨ (1 / 2 < x - ⌊x⌋ ∧ roundHalfEven x = ⌊x⌋ + 1) ∨
    (x - ⌊x⌋ = 1 / 2 ∧ roundHalfEven x = if ⌊x⌋ % 2 = 0 then ⌊x⌋ else ⌊x⌋ + 1) := by
  rcases lt_trichotomy (x - ⌊x⌋) (1 / 2) with h | h | h
  · exact Or.inl ⟨h, rhe_lt h⟩
  · exact Or.inr (Or.inr ⟨h, rhe_half h⟩)
  · exact Or.inr (Or.inl ⟨h, rhe_gt h⟩)

theorem roundHalfEven_sub_le (x : ℚ) : |((roundHalfEven x : ℤ) : ℚ) - x| ≤ 1 / 2 := by
  have h1 : ((⌊x⌋ : ℤ) : ℚ) ≤ x := Int.floor_le x
  have h2 : x < ⌊x⌋ + 1 := Int.lt_floor_add_one x
  rw [abs_le]
  rcases rhe_cases x with ⟨h, e⟩ | ⟨h, e⟩ | ⟨h, e⟩
  · rw [e]; constructor <;> linarith
  · rw [e]; push_cast; constructor <;> linarith
  · rw [e]; split_ifs
    · constructor <;> linarith
    · push_cast; constructor <;> linarith

theorem roundHalfEven_mono {x y : ℚ} (h : x ≤ y) : roundHalfEven x ≤ roundHalfEven y := by
  have hfl : ⌊x⌋ ≤ ⌊y⌋ := Int.floor_le_floor h
  have lx : roundHalfEven x ≤ ⌊x⌋ + 1 := by
    rcases rhe_cases x with ⟨_, e⟩ | ⟨_, e⟩ | ⟨_, e⟩ <;> rw [e] <;> (try split_ifs) <;> omega
  have ly : ⌊y⌋ ≤ roundHalfEven y := by
    rcases rhe_cases y with ⟨_, e⟩ | ⟨_, e⟩ | ⟨_, e⟩ <;> rw [e] <;> (try split_ifs) <;> omega
  rcases hfl.eq_or_lt with he | hlt
  · rcases rhe_cases x with ⟨hx, ex⟩ | ⟨hx, ex⟩ | ⟨hx, ex⟩
    · rw [ex, he]; exact ly
    · have hy : 1 / 2 < y - ⌊y⌋ := by rw [← he]; linarith
      rw [rhe_gt hy, ← he]; exact lx
    · rcases rhe_cases y with ⟨hy, ey⟩ | ⟨hy, ey⟩ | ⟨hy, ey⟩
      · exfalso; rw [← he] at hy; linarith
      · rw [ey, ← he]; exact lx
      · rw [ex, ey, he]
  · omega

theorem pow10_pos (d : ℕ) : (0 : ℚ) < (10 : ℚ) ^ d := by positivity

/-- `|round(x, d) − x| ≤ ½ · 10^{-d}` -/
theorem roundDec_sub_le (x : ℚ) (d : ℕ) : |roundDec x d - x| ≤ 1 / (2 * (10 : ℚ) ^ d) := by
  unfold roundDec
  have hp := pow10_pos d
  have h := roundHalfEven_sub_le (x * (10 : ℚ) ^ d)
  have e : ((roundHalfEven (x * (10 : ℚ) ^ d) : ℤ) : ℚ) / (10 : ℚ) ^ d - x
      = (((roundHalfEven (x * (10 : ℚ) ^ d) : ℤ) : ℚ) - x * (10 : ℚ) ^ d) / (10 : ℚ) ^ d := by
    field_simp
  rw [e, abs_div, abs_of_pos hp, div_le_div_iff₀ hp (by positivity)]
  calc |((roundHalfEven (x * (10 : ℚ) ^ d) : ℤ) : ℚ) - x * (10 : ℚ) ^ d| * (2 * (10 : ℚ) ^ d)
      ≤ 1 / 2 * (2 * (10 : ℚ) ^ d) := mul_le_mul_of_nonneg_right h (by positivity)
    _ = 1 * (10 : ℚ) ^ d := by ring

theorem roundDec_mono {x y : ℚ} (h : x ≤ y) (d : ℕ) : roundDec x d ≤ roundDec y d := by
  unfold roundDec
  have hp := pow10_pos d
  refine div_le_div_of_nonneg_right ?_ hp.le
  exact_mod_cast roundHalfEven_mono (mul_le_mul_of_nonneg_right h hp.le)

/-- the rounded value is a multiple of `10^{-d}` -/
theorem roundDec_mul_pow (x : ℚ) (d : ℕ) : ∃ k : ℤ, roundDec x d * (10 : ℚ) ^ d = k := by
  refine ⟨roundHalfEven (x * (10 : ℚ) ^ d), ?_⟩
  unfold roundDec
  rw [div_mul_cancel₀ _ (pow10_pos d).ne']

theorem roundDecEncl_core (lo hi : ℚ) (d : ℕ) (r : ℚ) (h : roundDecEncl lo hi d = some r) :
    ∀ x : ℚ, lo ≤ x → x ≤ hi → roundDec x d = r := by
  unfold roundDecEncl at h
  split at h
  · next hc =>
    intro x h1 h2
    have hr : r = roundDec lo d := (Option.some.inj h).symm
    refine le_antisymm ?_ ?_
    · rw [hr, hc.2]; exact roundDec_mono h2 d
    · rw [hr]; exact roundDec_mono h1 d
  · exact absurd h (by simp)

/-! ### guards -/

theorem guardShapeFirst_value_iff (s a b : Bool) : guardShapeFirst s a b = .value ↔ s = true ∧ a = true ∧ b = true := by
  cases s <;> cases a <;> cases b <;> simp [guardShapeFirst]

theorem guardDensityFirst_value_iff (s a b : Bool) :
    guardDensityFirst s a b = .value ↔ s = true ∧ a = true ∧ b = true := by
  cases s <;> cases a <;> cases b <;> simp [guardDensityFirst]

theorem densityGuard_of_exact (minEig : ℚ) (h : 0 ≤ minEig) : densityGuard true minEig 1 0 = true := by
  simp only [densityGuard, Bool.true_and, Bool.and_eq_true, decide_eq_true_eq]
  refine ⟨?_, ?_⟩
  · have : -guardAtol ≤ 0 := by unfold guardAtol; norm_num
    linarith
  · unfold guardAtol guardRtol; norm_num

theorem densityGuard_accepts (herm : Bool) (minEig trRe trIm : ℚ) (h : densityGuard herm minEig trRe trIm = true) :
    herm = true ∧ -(1 / 100000000 : ℚ) ≤ minEig ∧ |trRe - 1| ≤ 1001 / 100000000 := by
  unfold densityGuard at h
  rw [Bool.and_eq_true, Bool.and_eq_true] at h
  obtain ⟨⟨h1, h2⟩, h3⟩ := h
  have h2' := of_decide_eq_true h2
  have h3' := of_decide_eq_true h3
  unfold guardAtol at h2'
  unfold guardAtol guardRtol at h3'
  refine ⟨h1, h2', ?_⟩
  have h4 : 0 ≤ trIm * trIm := mul_self_nonneg _
  rw [abs_le]
  constructor <;> nlinarith

end ModelBridge
end Toq.Metrics
