import Toq.Proofs.Rand
/-!
# Entries of `random_circulant_gram_matrix`: `C[i,j] = (1/d) Σ_k λ_k cos(2π k (j − i)/d)`
-/

open Matrix
open scoped ComplexOrder MatrixOrder

namespace Toq.Rand

/-- `star(ω^{ki}) ω^{kj} = exp(−2πi · k(j−i)/d)` for NumPy's DFT root `ω = e^{−2πi/d}` -/
theorem dftRoot_phase (d : Nat) (k i j : Nat) :
    star (dftRoot d ^ (k * i)) * dftRoot d ^ (k * j)
      = Complex.exp ((((-(2 * Real.pi * k * ((j : ℝ) - i) / d)) : ℝ) : ℂ) * Complex.I) := by
  unfold dftRoot
  rw [← Complex.exp_nat_mul, ← Complex.exp_nat_mul, Complex.star_def, ← Complex.exp_conj, ← Complex.exp_add]
  congr 1
  simp only [map_mul, map_div₀, map_neg, Complex.conj_ofReal, Complex.conj_I, map_natCast, map_ofNat]
  push_cast
  ring

/-- **entry formula**: with `c = 1/√d` and `ω = e^{−2πi/d}` the `(i,j)` entry of `Re(Fᴴ diag(λ) F)` is
`(1/d) Σ_k λ_k cos(2π k (j − i)/d)` -/
theorem circGramRe_entry (d : Nat) (lam : Fin d → ℝ) (i j : Fin d) :
    circGramRe d (1 / Real.sqrt d) (dftRoot d) lam i j
      = (1 / (d : ℝ)) * ∑ k : Fin d, lam k * Real.cos (2 * Real.pi * k.val * ((j.val : ℝ) - i.val) / d) := by
  unfold circGramRe
  rw [circGram_apply, Complex.re_sum, Finset.mul_sum]
  refine Finset.sum_congr rfl (fun k _ => ?_)
  rw [dftRoot_phase]
  have hc : ((1 / Real.sqrt d : ℝ) : ℂ) ^ 2 = (((1 / (d : ℝ)) : ℝ) : ℂ) := by
    rw [← Complex.ofReal_pow, div_pow, one_pow, Real.sq_sqrt (Nat.cast_nonneg d)]
  rw [hc, ← Complex.ofReal_mul, Complex.re_ofReal_mul, Complex.exp_ofReal_mul_I_re, Real.cos_neg]
  ring

end Toq.Rand
