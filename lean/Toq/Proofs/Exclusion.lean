import Toq.Model.Exclusion
import Toq.Proofs.Discrim
import Mathlib.LinearAlgebra.UnitaryGroup
/-!
# Helper lemmas for C11 (state exclusion): weak duality and the elementary bounds over an arbitrary
finite index type, and soundness of the function-indexed core checkers of `Toq.Model.Exclusion`.
-/

open Matrix
open scoped ComplexOrder MatrixOrder

namespace Toq.Excl
open EMat Toq.Discrim

/-! ## Index-type generic facts -/

section Generic
variable {ι κ : Type*} [Fintype ι] [DecidableEq ι] [Fintype κ]

/-- the trace of a product of two PSD complex matrices is a non-negative real number (as a complex
number: imaginary part `0`, real part `≥ 0`) -/
theorem psd_trace_mul_nonneg_c {A B : Matrix ι ι ℂ} (hA : A.PosSemidef) (hB : B.PosSemidef) :
    0 ≤ (A * B).trace := by
  have hS : (CFC.sqrt B).PosSemidef := (CFC.sqrt_nonneg B).posSemidef
  have hB' : CFC.sqrt B * CFC.sqrt B = B := CFC.sqrt_mul_sqrt_self B hB.nonneg
  have hH : (CFC.sqrt B)ᴴ = CFC.sqrt B := hS.isHermitian
  have h : (A * B).trace = (CFC.sqrt B * A * (CFC.sqrt B)ᴴ).trace := by
    rw [hH]
    conv_lhs => rw [← hB', ← Matrix.mul_assoc, Matrix.trace_mul_comm, ← Matrix.mul_assoc]
  rw [h]
  exact (hA.mul_mul_conjTranspose_same (CFC.sqrt B)).trace_nonneg

/-- for PSD `A`, `B`: `Re tr(AB) = 0` iff `tr(AB) = 0` -/
theorem psd_trace_mul_re_eq_zero_iff {A B : Matrix ι ι ℂ} (hA : A.PosSemidef) (hB : B.PosSemidef) :
    (A * B).trace.re = 0 ↔ (A * B).trace = 0 := by
  have h := Complex.nonneg_iff.mp (psd_trace_mul_nonneg_c hA hB)
  constructor
  · intro h0
    exact Complex.ext h0 h.2.symm
  · intro h0
    rw [h0]; rfl

/-- state exclusion: any dual-feasible `tr Y` is below the value of any POVM -/
theorem excl_weak_duality_gen (ρ : κ → Matrix ι ι ℂ) (p : κ → ℝ) (M : κ → Matrix ι ι ℂ)
    (Y : Matrix ι ι ℂ) (hM : ∀ i, (M i).PosSemidef) (hsum : ∑ i, M i = 1)
    (hY : ∀ i, ((p i : ℂ) • ρ i - Y).PosSemidef) :
    Y.trace.re ≤ ∑ i, p i * (ρ i * M i).trace.re := by
  have h1 : ∀ i, 0 ≤ (((p i : ℂ) • ρ i - Y) * M i).trace.re :=
    fun i => psd_trace_mul_nonneg (hY i) (hM i)
  have h2 : Y.trace = ∑ i, (Y * M i).trace := by
    rw [← Matrix.trace_sum, ← Matrix.mul_sum, hsum, Matrix.mul_one]
  have h3 : 0 ≤ ∑ i, (((p i : ℂ) • ρ i - Y) * M i).trace.re :=
    Finset.sum_nonneg fun i _ => h1 i
  rw [h2]
  simp only [Matrix.sub_mul, Matrix.trace_sub, Complex.sub_re, Finset.sum_sub_distrib,
    Complex.re_sum, re_trace_smul_mul] at h3 ⊢
  linarith

/-- the value of any family of PSD operators on PSD states with non-negative weights is `≥ 0` -/
theorem excl_nonneg_gen (ρ : κ → Matrix ι ι ℂ) (p : κ → ℝ) (M : κ → Matrix ι ι ℂ)
    (hρ : ∀ i, (ρ i).PosSemidef) (hp : ∀ i, 0 ≤ p i) (hM : ∀ i, (M i).PosSemidef) :
    0 ≤ ∑ i, p i * (ρ i * M i).trace.re :=
  Finset.sum_nonneg fun i _ => mul_nonneg (hp i) (psd_trace_mul_nonneg (hρ i) (hM i))

/-- value `0` iff every term with positive weight vanishes -/
theorem excl_eq_zero_iff_gen (ρ : κ → Matrix ι ι ℂ) (p : κ → ℝ) (M : κ → Matrix ι ι ℂ)
    (hρ : ∀ i, (ρ i).PosSemidef) (hp : ∀ i, 0 ≤ p i) (hM : ∀ i, (M i).PosSemidef) :
    ∑ i, p i * (ρ i * M i).trace.re = 0 ↔ ∀ i, 0 < p i → (ρ i * M i).trace = 0 := by
  rw [Finset.sum_eq_zero_iff_of_nonneg
    (fun i _ => mul_nonneg (hp i) (psd_trace_mul_nonneg (hρ i) (hM i)))]
  constructor
  · intro h i hi
    have := h i (Finset.mem_univ i)
    rcases mul_eq_zero.mp this with h0 | h0
    · exact absurd h0 (ne_of_gt hi)
    · exact (psd_trace_mul_re_eq_zero_iff (hρ i) (hM i)).mp h0
  · intro h i _
    rcases (hp i).lt_or_eq with hi | hi
    · rw [h i hi]; simp
    · rw [← hi]; simp

variable [DecidableEq κ]

/-- the measurement "always answer `j`" -/
def constPovm (j : κ) : κ → Matrix ι ι ℂ := fun i => if i = j then 1 else 0

omit [Fintype ι] [Fintype κ] in
theorem constPovm_psd (j i : κ) : (constPovm (ι := ι) j i).PosSemidef := by
  unfold constPovm
  split
  · exact Matrix.PosSemidef.one
  · exact Matrix.PosSemidef.zero

omit [Fintype ι] in
theorem constPovm_sum (j : κ) : ∑ i, constPovm (ι := ι) j i = 1 := by
  unfold constPovm
  rw [Finset.sum_ite_eq' Finset.univ j]
  simp

theorem constPovm_value (ρ : κ → Matrix ι ι ℂ) (p : κ → ℝ) (j : κ) :
    ∑ i, p i * (ρ i * constPovm j i).trace.re = p j * (ρ j).trace.re := by
  have : ∀ i, p i * (ρ i * constPovm j i).trace.re = if i = j then p j * (ρ j).trace.re else 0 := by
    intro i
    unfold constPovm
    split
    · next h => subst h; simp
    · simp
  simp only [this]
  rw [Finset.sum_ite_eq' Finset.univ j]
  simp

omit [DecidableEq κ]

/-! ### Unitary conjugation -/

omit [DecidableEq ι] in
theorem conj_psd (U A : Matrix ι ι ℂ) (hA : A.PosSemidef) : (U * A * Uᴴ).PosSemidef :=
  hA.mul_mul_conjTranspose_same U

omit [DecidableEq ι] in
theorem conj_sum (U : Matrix ι ι ℂ) (M : κ → Matrix ι ι ℂ) :
    ∑ i, U * M i * Uᴴ = U * (∑ i, M i) * Uᴴ := by
  rw [Matrix.mul_sum, Matrix.sum_mul]

theorem conj_trace_mul (U A B : Matrix ι ι ℂ) (hU : Uᴴ * U = 1) :
    ((U * A * Uᴴ) * (U * B * Uᴴ)).trace = (A * B).trace := by
  have h : (U * A * Uᴴ) * (U * B * Uᴴ) = U * (A * B) * Uᴴ := by
    calc (U * A * Uᴴ) * (U * B * Uᴴ) = U * A * (Uᴴ * U) * B * Uᴴ := by
          simp only [Matrix.mul_assoc]
      _ = U * (A * B) * Uᴴ := by rw [hU, Matrix.mul_one]; simp only [Matrix.mul_assoc]
  rw [h, Matrix.trace_mul_comm, ← Matrix.mul_assoc, hU, Matrix.one_mul]

theorem conj_conj (U A : Matrix ι ι ℂ) (hU : Uᴴ * U = 1) : Uᴴ * (U * A * Uᴴ) * Uᴴᴴ = A := by
  rw [Matrix.conjTranspose_conjTranspose]
  calc Uᴴ * (U * A * Uᴴ) * U = (Uᴴ * U) * A * (Uᴴ * U) := by simp only [Matrix.mul_assoc]
    _ = A := by rw [hU, Matrix.one_mul, Matrix.mul_one]

/-! ### Unambiguous exclusion (toqito's `_unambiguous_primal` / `_unambiguous_dual`) -/

/-- weak duality of the unambiguous-exclusion pair: with `S = Σ_i p_i ρ_i`,
`Re tr S − Re tr N ≤ Re tr(S (1 − Σ_i M_i))` for primal-feasible `M` and dual-feasible `(N, a)` -/
theorem unamb_excl_weak_duality_gen (σ : κ → Matrix ι ι ℂ) (M : κ → Matrix ι ι ℂ)
    (N : Matrix ι ι ℂ) (a : κ → ℝ)
    (hM : ∀ i, (M i).PosSemidef) (hrest : (1 - ∑ i, M i).PosSemidef)
    (hzero : ∀ i, (σ i * M i).trace.re = 0)
    (hN : N.PosSemidef) (hdual : ∀ i, (N + (a i : ℂ) • σ i - ∑ j, σ j).PosSemidef) :
    (∑ j, σ j).trace.re - N.trace.re ≤ ((∑ j, σ j) * (1 - ∑ i, M i)).trace.re := by
  have h1 : ∀ i, 0 ≤ ((N + (a i : ℂ) • σ i - ∑ j, σ j) * M i).trace.re :=
    fun i => psd_trace_mul_nonneg (hdual i) (hM i)
  have h2 : 0 ≤ (N * (1 - ∑ i, M i)).trace.re := psd_trace_mul_nonneg hN hrest
  have h3 : 0 ≤ ∑ i, ((N + (a i : ℂ) • σ i - ∑ j, σ j) * M i).trace.re :=
    Finset.sum_nonneg fun i _ => h1 i
  simp only [Matrix.sub_mul, Matrix.add_mul, Matrix.trace_sub, Matrix.trace_add, Complex.sub_re,
    Complex.add_re, Finset.sum_sub_distrib, re_trace_smul_mul, hzero, mul_zero, add_zero] at h3
  have h4 : ∑ i, (N * M i).trace.re = (N * ∑ i, M i).trace.re := by
    rw [Matrix.mul_sum, Matrix.trace_sum, Complex.re_sum]
  have h5 : ∑ i, ((∑ j, σ j) * M i).trace.re = ((∑ j, σ j) * ∑ i, M i).trace.re := by
    rw [Matrix.mul_sum, Matrix.trace_sum, Complex.re_sum]
  simp only [Matrix.mul_sub, Matrix.mul_one, Matrix.trace_sub, Complex.sub_re] at h2 ⊢
  rw [h4, h5] at h3
  linarith

end Generic

/-! ## Soundness of the core checkers -/

variable {d : Nat}

theorem exclValueFn_cast (k : Nat) (ρ : Fin k → EMat d d) (p : Fin k → Rat) (M : Fin k → EMat d d) :
    ((exclValueFn k ρ p M : Rat) : ℝ)
      = ∑ i, ((p i : Rat) : ℝ) * ((ρ i).toM * (M i).toM).trace.re :=
  minErrValueFn_cast k ρ p M

theorem checkExclPrimalFn_sound (k : Nat) (ρ : Fin k → EMat d d) (p : Fin k → Rat)
    (M LM : Fin k → EMat d d) (hi : Rat) (h : checkExclPrimalFn k ρ p M LM = some hi) :
    (∀ i, (M i).toM.PosSemidef) ∧ ∑ i, (M i).toM = 1 ∧
      ∑ i, ((p i : Rat) : ℝ) * ((ρ i).toM * (M i).toM).trace.re = (hi : ℝ) :=
  checkMinErrPrimalFn_sound k ρ p M LM hi h

theorem checkExclDualFn_sound (k : Nat) (ρ : Fin k → EMat d d) (p : Fin k → Rat) (Y : EMat d d)
    (LY : Fin k → EMat d d) (lo : Rat) (h : checkExclDualFn k ρ p Y LY = some lo) :
    Y.toM.IsHermitian ∧ (∀ i, ((((p i : Rat) : ℝ) : ℂ) • (ρ i).toM - Y.toM).PosSemidef) ∧
      Y.toM.trace.re = (lo : ℝ) := by
  unfold checkExclDualFn at h
  split at h
  · next hc =>
    simp only [Bool.and_eq_true, exclDualPsdOk, allFin_iff] at hc
    obtain ⟨hH, hpsd⟩ := hc
    refine ⟨isHermitian_sound _ hH, fun i => ?_, ?_⟩
    · have := psdCert_sound _ _ (hpsd i)
      unfold exclDualSlack at this
      rwa [toM_sub, toM_smul] at this
    · rw [← re_trace]
      exact congrArg _ (Option.some.inj h)
  · exact absurd h (by simp)

/-! ## Unambiguous exclusion: soundness of the core checkers -/

theorem toM_sumStates (k : Nat) (ρ : Fin k → EMat d d) (p : Fin k → Rat) :
    (sumStates k ρ p).toM = ∑ i, (((p i : Rat) : ℝ) : ℂ) • (ρ i).toM := by
  unfold sumStates
  rw [toM_sumMats]
  exact Finset.sum_congr rfl fun i _ => toM_smul _ _

theorem toM_unambRest (k : Nat) (M : Fin k → EMat d d) :
    (unambRest k M).toM = 1 - ∑ i, (M i).toM := by
  unfold unambRest
  rw [toM_sub, toM_one, toM_sumMats]

theorem unambZeroLhs_cast (k : Nat) (ρ : Fin k → EMat d d) (p : Fin k → Rat) (M : Fin k → EMat d d)
    (i : Fin k) :
    ((unambZeroLhs ρ p M i : Rat) : ℝ) = (((((p i : Rat) : ℝ) : ℂ) • (ρ i).toM) * (M i).toM).trace.re := by
  unfold unambZeroLhs
  rw [re_trace, toM_mul, toM_smul]

theorem checkUnambExclPrimalFn_sound (k : Nat) (ρ : Fin k → EMat d d) (p : Fin k → Rat)
    (M LM : Fin k → EMat d d) (LR : EMat d d) (hi : Rat)
    (h : checkUnambExclPrimalFn k ρ p M LM LR = some hi) :
    (∀ i, (M i).toM.PosSemidef) ∧ (1 - ∑ i, (M i).toM).PosSemidef ∧
      (∀ i, (((((p i : Rat) : ℝ) : ℂ) • (ρ i).toM) * (M i).toM).trace.re = 0) ∧
      ((∑ i, (((p i : Rat) : ℝ) : ℂ) • (ρ i).toM) * (1 - ∑ i, (M i).toM)).trace.re = (hi : ℝ) := by
  unfold checkUnambExclPrimalFn at h
  split at h
  · next hc =>
    simp only [Bool.and_eq_true, povmPsdOk, allFin_iff, decide_eq_true_eq] at hc
    obtain ⟨⟨hpsd, hrest⟩, hz⟩ := hc
    refine ⟨fun i => psdCert_sound _ _ (hpsd i), ?_, fun i => ?_, ?_⟩
    · have := psdCert_sound _ _ hrest
      rwa [toM_unambRest] at this
    · rw [← unambZeroLhs_cast, hz i]; simp
    · have hv : unambExclValueFn k ρ p M = hi := Option.some.inj h
      rw [← hv]
      unfold unambExclValueFn
      rw [re_trace, toM_mul, toM_sumStates, toM_unambRest]
  · exact absurd h (by simp)

theorem toM_unambDualSlack (k : Nat) (ρ : Fin k → EMat d d) (p : Fin k → Rat) (N : EMat d d)
    (a : Fin k → Rat) (i : Fin k) :
    (unambDualSlack k ρ p N a i).toM
      = N.toM + (((a i : Rat) : ℝ) : ℂ) • ((((p i : Rat) : ℝ) : ℂ) • (ρ i).toM)
        - ∑ j, (((p j : Rat) : ℝ) : ℂ) • (ρ j).toM := by
  unfold unambDualSlack
  rw [toM_sub, toM_add, toM_smul, toM_smul, toM_sumStates]

theorem checkUnambExclDualFn_sound (k : Nat) (ρ : Fin k → EMat d d) (p : Fin k → Rat) (N : EMat d d)
    (a : Fin k → Rat) (LN : EMat d d) (LD : Fin k → EMat d d) (lo : Rat)
    (h : checkUnambExclDualFn k ρ p N a LN LD = some lo) :
    N.toM.PosSemidef ∧
      (∀ i, (N.toM + (((a i : Rat) : ℝ) : ℂ) • ((((p i : Rat) : ℝ) : ℂ) • (ρ i).toM)
        - ∑ j, (((p j : Rat) : ℝ) : ℂ) • (ρ j).toM).PosSemidef) ∧
      (∑ j, (((p j : Rat) : ℝ) : ℂ) • (ρ j).toM).trace.re - N.toM.trace.re = (lo : ℝ) := by
  unfold checkUnambExclDualFn at h
  split at h
  · next hc =>
    simp only [Bool.and_eq_true, allFin_iff] at hc
    obtain ⟨hN, hD⟩ := hc
    refine ⟨psdCert_sound _ _ hN, fun i => ?_, ?_⟩
    · have := psdCert_sound _ _ (hD i)
      rwa [toM_unambDualSlack] at this
    · have hv : unambDualBound k ρ p N = lo := Option.some.inj h
      rw [← hv]
      unfold unambDualBound
      rw [Rat.cast_sub, re_trace, re_trace, toM_sumStates]
  · exact absurd h (by simp)

/-- the code's objective and the certified bound differ by `1 − Re tr(Σ p_i ρ_i)` -/
theorem unambDualCodeObjective_eq (k : Nat) (ρ : Fin k → EMat d d) (p : Fin k → Rat) (N : EMat d d) :
    unambDualCodeObjective N = unambDualBound k ρ p N + (1 - (sumStates k ρ p).trace.re) := by
  unfold unambDualCodeObjective unambDualBound
  ring

/-! ### The arithmetic after the solve -/

theorem ratAbs_cast (q : Rat) : ((ratAbs q : Rat) : ℝ) = |(q : ℝ)| := by
  unfold ratAbs
  split
  · next hq =>
    have : (q : ℝ) < 0 := by exact_mod_cast hq
    rw [abs_of_neg this]; push_cast; rfl
  · next hq =>
    have : (0 : ℝ) ≤ (q : ℝ) := by exact_mod_cast (not_lt.mp hq)
    rw [abs_of_nonneg this]

theorem ratAbs_eq (q : Rat) : ratAbs q = |q| := by
  have := ratAbs_cast q
  rw [← Rat.cast_abs] at this
  exact_mod_cast this

theorem isclose_iff (a b : Rat) : isclose a b = true ↔ |a - b| ≤ 1 / 100000000 + 1 / 100000 * |b| := by
  unfold isclose npAtol npRtol
  rw [decide_eq_true_eq, ratAbs_eq, ratAbs_eq]

theorem antidistTest_iff (v : Rat) : antidistTest v = true ↔ |v| ≤ 1 / 100000000 := by
  unfold antidistTest
  rw [isclose_iff]
  simp

theorem cqoPost_eq (n : Nat) (hn : n ≠ 0) (v : Rat) : cqoPost n v = v := by
  unfold cqoPost
  have : (n : Rat) ≠ 0 := by exact_mod_cast hn
  field_simp
  ring

end Toq.Excl
