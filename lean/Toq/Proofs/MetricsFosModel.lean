import Toq.Proofs.MetricsFos
import Toq.Model.MetricsFos
import Toq.Proofs.Combinat
import Toq.Proofs.ChannelOps
/-!
# The executable model of the program of `fidelity_of_separability` computes the expressions of `FosFeasible`

`Toq.Metrics.fosExprs` works on matrices with flat indices (`ℕ → ℕ → α`, tensor order, big-endian digits with radices
`[dA, dB, …, dB]`); `Toq.Metrics.FosFeasible` is stated over matrices indexed by `HIdx (Fin dA) dB L = Fin dA × (Fin L → Fin dB)`.
`encH` is the flat index of such an index; `Rep L σN σ` says that the flat matrix `σN` has the entries of `σ` (`σN (encH i) (encH j) = σ i j`).
Each expression of the model represents the corresponding operator of the specification (`rep_traceLast`, `rep_marg`, `rep_pt`,
`rep_block`, `rep_trace`, `rep_sandwich`, `rep_obj`); `Toq/Properties/C13.lean` collects them as `fosExprs_refines`.
-/

open Matrix Equiv
open scoped ComplexOrder MatrixOrder Kronecker

set_option linter.unusedSectionVars false

namespace Toq.Metrics
open Toq.PPTDisc Toq.Combinat Toq.ChannelOps

section Model
variable {dA d : ℕ}

/-! ### flat indices -/

/-- the digits of an index of `A ⊗ B^{⊗L}`: position `0` is the `A` digit, position `t + 1` the digit of copy `t` -/
def digH {L : ℕ} (i : HIdx (Fin dA) d L) : ℕ → ℕ := fun t => if t = 0 then (i.1 : ℕ) else extD i.2 (t - 1)

/-- the flat (tensor-order) index -/
def encH {L : ℕ} (i : HIdx (Fin dA) d L) : ℕ := enc (fosDims dA d) (digH i) (L + 1)

theorem digH_lt {L : ℕ} (i : HIdx (Fin dA) d L) (t : ℕ) (ht : t < L + 1) : digH i t < fosDims dA d t := by
  unfold digH fosDims
  by_cases h0 : t = 0
  · simp only [h0, if_true]; exact i.1.2
  · simp only [h0, if_false]
    have := extD_lt i.2 (t - 1) (by omega)
    simpa [constDims] using this

theorem encH_lt {L : ℕ} (i : HIdx (Fin dA) d L) : encH i < prodN (fosDims dA d) (L + 1) :=
  enc_lt _ _ _ (digH_lt i)

theorem prodN_fosDims (L : ℕ) : prodN (fosDims dA d) (L + 1) = dA * d ^ L := by
  induction L with
  | zero => simp [prodN, fosDims]
  | succ L ih =>
    rw [prodN, ih]
    simp only [fosDims, Nat.succ_ne_zero, if_false, pow_succ]
    ring

theorem dec_encH {L : ℕ} (i : HIdx (Fin dA) d L) (t : ℕ) (ht : t < L + 1) :
    dec (fosDims dA d) (L + 1) (encH i) t = digH i t :=
  dec_enc _ _ _ (digH_lt i) t ht

theorem encH_inj {L : ℕ} : Function.Injective (encH (dA := dA) (d := d) (L := L)) := by
  intro i j h
  have hd : ∀ t, t < L + 1 → digH i t = digH j t := fun t ht => by rw [← dec_encH i t ht, ← dec_encH j t ht, h]
  refine Prod.ext (Fin.ext ?_) (funext fun t => Fin.ext ?_)
  · simpa [digH] using hd 0 (by omega)
  · have := hd (t + 1) (by omega)
    simp only [digH, Nat.succ_ne_zero, if_false, Nat.add_sub_cancel] at this
    rwa [extD_apply, extD_apply] at this

/-- `flat index = a · dB^L + (flat index of the digits of the copies)` -/
theorem encH_eq {L : ℕ} (i : HIdx (Fin dA) d L) : encH i = (i.1 : ℕ) * d ^ L + encD i.2 := by
  have h : ∀ t : ℕ, enc (fosDims dA d) (digH i) (t + 1) = (i.1 : ℕ) * d ^ t + enc (constDims d) (extD i.2) t := by
    intro t
    induction t with
    | zero => simp [enc, digH]
    | succ t ih =>
      rw [enc, ih]
      simp only [fosDims, digH, Nat.succ_ne_zero, if_false, Nat.add_sub_cancel, enc, constDims, pow_succ]
      ring
  exact h L

theorem extD_snoc_lt {L : ℕ} (f : Fin L → Fin d) (c : Fin d) (t : ℕ) (ht : t < L) :
    extD (Fin.snoc (α := fun _ => Fin d) f c : Fin (L + 1) → Fin d) t = extD f t := by
  unfold extD
  rw [dif_pos (by omega : t < L + 1), dif_pos ht]
  have : (⟨t, by omega⟩ : Fin (L + 1)) = Fin.castSucc ⟨t, ht⟩ := rfl
  rw [this, Fin.snoc_castSucc]

theorem extD_snoc_last {L : ℕ} (f : Fin L → Fin d) (c : Fin d) :
    extD (Fin.snoc (α := fun _ => Fin d) f c : Fin (L + 1) → Fin d) L = c := by
  unfold extD
  rw [dif_pos (by omega : L < L + 1)]
  have : (⟨L, by omega⟩ : Fin (L + 1)) = Fin.last L := rfl
  rw [this, Fin.snoc_last]

theorem encD_snoc {L : ℕ} (f : Fin L → Fin d) (c : Fin d) :
    encD (Fin.snoc (α := fun _ => Fin d) f c : Fin (L + 1) → Fin d) = encD f * d + c := by
  unfold encD
  rw [enc, extD_snoc_last]
  congr 2
  exact enc_congr _ _ _ _ _ (fun _ _ => rfl) fun t ht => extD_snoc_lt f c t ht

/-- appending a digit: `flat index · dB + digit` -/
theorem encH_snoc {L : ℕ} (i : HIdx (Fin dA) d L) (c : Fin d) : encH (snocI i c) = encH i * d + c := by
  rw [encH_eq, encH_eq]
  simp only [snocI, encD_snoc, pow_succ]
  ring

/-! ### representation of operators by flat matrices -/

/-- the flat matrix `σN` has the entries of `σ` -/
def Rep (L : ℕ) (σN : ℕ → ℕ → ℂ) (σ : Matrix (HIdx (Fin dA) d L) (HIdx (Fin dA) d L) ℂ) : Prop :=
  ∀ i j, σN (encH i) (encH j) = σ i j

/-- the flat index of `(a, c) ∈ A ⊗ B` -/
def encAB (p : Fin dA × Fin d) : ℕ := (p.1 : ℕ) * d + p.2

/-- the flat `n × n` matrix `MN` has the entries of `M` (`n = dA dB`) -/
def RepAB (MN : ℕ → ℕ → ℂ) (M : Matrix (Fin dA × Fin d) (Fin dA × Fin d) ℂ) : Prop :=
  ∀ p q, MN (encAB p) (encAB q) = M p q

theorem encAB_lt (p : Fin dA × Fin d) : encAB p < dA * d := by
  unfold encAB
  have h1 := p.1.2
  have h2 := p.2.2
  calc (p.1 : ℕ) * d + p.2 < (p.1 : ℕ) * d + d := by omega
    _ = ((p.1 : ℕ) + 1) * d := by ring
    _ ≤ dA * d := Nat.mul_le_mul_right _ h1

theorem encH_oneCopy (p : Fin dA × Fin d) : encH (oneCopy p) = encAB p := by
  rw [encH_eq]
  simp [oneCopy, encAB, encD, enc, extD]

theorem sumN_fin (n : ℕ) (f : ℕ → ℂ) : sumN n f = ∑ c : Fin n, f c := by
  rw [sumN_eq_sum, Finset.sum_range]

/-- tracing out the last factor -/
theorem rep_traceLast {L : ℕ} {σN : ℕ → ℕ → ℂ} {σ : Matrix (HIdx (Fin dA) d (L + 1)) (HIdx (Fin dA) d (L + 1)) ℂ}
    (h : Rep (L + 1) σN σ) : Rep L (fosTraceLast d σN) (margLast σ) := by
  intro i j
  simp only [fosTraceLast, margLast]
  rw [sumN_fin]
  refine Finset.sum_congr rfl fun c _ => ?_
  rw [← encH_snoc, ← encH_snoc, h]

/-- tracing out the last `ℓ` factors -/
theorem rep_traceTail : ∀ (ℓ : ℕ) {σN : ℕ → ℕ → ℂ} {σ : Matrix (HIdx (Fin dA) d (ℓ + 1)) (HIdx (Fin dA) d (ℓ + 1)) ℂ},
    Rep (ℓ + 1) σN σ → Rep 1 (fosTraceTail d ℓ σN) (margTo1 ℓ σ)
  | 0, _, _, h => h
  | ℓ + 1, _, _, h => rep_traceTail ℓ (rep_traceLast h)

/-- `picos.partial_trace(σ, [2, …, k], dims)` is the marginal on `A ⊗ B₁` -/
theorem rep_marg (ℓ : ℕ) {σN : ℕ → ℕ → ℂ} {σ : Matrix (HIdx (Fin dA) d (ℓ + 1)) (HIdx (Fin dA) d (ℓ + 1)) ℂ}
    (h : Rep (ℓ + 1) σN σ) : RepAB (fosMarg d (ℓ + 1) σN) (marg1 ℓ σ) := by
  intro p q
  have := rep_traceTail ℓ h (oneCopy p) (oneCopy q)
  rw [encH_oneCopy, encH_oneCopy] at this
  simpa [fosMarg, marg1, toMN] using this

/-! ### partial transposes -/

theorem fosMix_encH {L : ℕ} (j : ℕ) (i i' : HIdx (Fin dA) d L) :
    fosMix dA d L j (encH i) (encH i')
      = encH ((i.1, fun t : Fin L => if (t : ℕ) < j then i'.2 t else i.2 t) : HIdx (Fin dA) d L) := by
  unfold fosMix
  refine enc_congr _ _ _ _ _ (fun _ _ => rfl) fun t ht => ?_
  rw [dec_encH i t ht, dec_encH i' t ht]
  by_cases h0 : t = 0
  · subst h0
    simp [digH]
  · have h1 : 1 ≤ t := Nat.one_le_iff_ne_zero.mpr h0
    have hL : t - 1 < L := by omega
    simp only [digH, h0, if_false, extD, dif_pos hL]
    by_cases hj : t - 1 < j
    · rw [if_pos ⟨h1, by omega⟩, if_pos hj]
    · rw [if_neg (by omega), if_neg hj]

/-- `picos.partial_transpose(σ, [1, …, j], dims)` is the partial transpose on the first `j` copies of `B` -/
theorem rep_pt {L : ℕ} (j : ℕ) {σN : ℕ → ℕ → ℂ} {σ : Matrix (HIdx (Fin dA) d L) (HIdx (Fin dA) d L) ℂ} (h : Rep L σN σ) :
    Rep L (fosPT dA d L j σN) (pTYs (fun t : Fin L => (t : ℕ) < j) σ) := by
  intro i i'
  simp only [fosPT, pTYs]
  rw [fosMix_encH, fosMix_encH, h]

/-! ### the block matrix -/

/-- flat index of an index of the `2 × 2` block matrix -/
def encS : (Fin dA × Fin d) ⊕ (Fin dA × Fin d) → ℕ
  | Sum.inl p => encAB p
  | Sum.inr p => dA * d + encAB p

theorem fosBlock_11 (n : ℕ) (ρN XN MN : ℕ → ℕ → ℂ) {i j : ℕ} (hi : i < n) (hj : j < n) :
    fosBlock n ρN XN MN i j = ρN i j := by
  unfold fosBlock; rw [if_pos hi, if_pos hj]

theorem fosBlock_12 (n : ℕ) (ρN XN MN : ℕ → ℕ → ℂ) {i : ℕ} (j : ℕ) (hi : i < n) :
    fosBlock n ρN XN MN i (n + j) = XN i j := by
  unfold fosBlock; rw [if_pos hi, if_neg (by omega), Nat.add_sub_cancel_left]

theorem fosBlock_21 (n : ℕ) (ρN XN MN : ℕ → ℕ → ℂ) (i : ℕ) {j : ℕ} (hj : j < n) :
    fosBlock n ρN XN MN (n + i) j = star (XN j i) := by
  unfold fosBlock; rw [if_neg (by omega), if_pos hj, Nat.add_sub_cancel_left, conj_eq_star]

theorem fosBlock_22 (n : ℕ) (ρN XN MN : ℕ → ℕ → ℂ) (i j : ℕ) :
    fosBlock n ρN XN MN (n + i) (n + j) = MN i j := by
  unfold fosBlock; rw [if_neg (by omega), if_neg (by omega), Nat.add_sub_cancel_left, Nat.add_sub_cancel_left]

/-- `picos.block([[ρ, X], [X.H, M]])` is `Matrix.fromBlocks ρ X Xᴴ M` -/
theorem rep_block {ρN XN MN : ℕ → ℕ → ℂ} {ρ X M : Matrix (Fin dA × Fin d) (Fin dA × Fin d) ℂ}
    (hρ : RepAB ρN ρ) (hX : RepAB XN X) (hM : RepAB MN M) (u v : (Fin dA × Fin d) ⊕ (Fin dA × Fin d)) :
    fosBlock (dA * d) ρN XN MN (encS u) (encS v) = Matrix.fromBlocks ρ X Xᴴ M u v := by
  rcases u with p | p <;> rcases v with q | q
  · show fosBlock (dA * d) ρN XN MN (encAB p) (encAB q) = ρ p q
    rw [fosBlock_11 _ _ _ _ (encAB_lt p) (encAB_lt q), hρ]
  · show fosBlock (dA * d) ρN XN MN (encAB p) (dA * d + encAB q) = X p q
    rw [fosBlock_12 _ _ _ _ _ (encAB_lt p), hX]
  · show fosBlock (dA * d) ρN XN MN (dA * d + encAB p) (encAB q) = Xᴴ p q
    rw [fosBlock_21 _ _ _ _ _ (encAB_lt q), hX]
    rfl
  · show fosBlock (dA * d) ρN XN MN (dA * d + encAB p) (dA * d + encAB q) = M p q
    rw [fosBlock_22, hM]

/-! ### traces -/

theorem sum_encAB (f : ℕ → ℂ) : ∑ p : Fin dA × Fin d, f (encAB p) = ∑ x ∈ Finset.range (dA * d), f x := by
  rw [Finset.sum_range, ← Equiv.sum_comp (finProdFinEquiv (m := dA) (n := d))]
  refine Finset.sum_congr rfl fun p _ => ?_
  congr 1
  simp [encAB, finProdFinEquiv, Nat.mul_comm, Nat.add_comm]

theorem sum_encH {L : ℕ} (f : ℕ → ℂ) :
    ∑ i : HIdx (Fin dA) d L, f (encH i) = ∑ x ∈ Finset.range (dA * d ^ L), f x := by
  have himg : (Finset.univ : Finset (HIdx (Fin dA) d L)).image encH = Finset.range (dA * d ^ L) := by
    refine Finset.eq_of_subset_of_card_le ?_ ?_
    · intro x hx
      obtain ⟨i, -, rfl⟩ := Finset.mem_image.mp hx
      rw [Finset.mem_range, ← prodN_fosDims]
      exact encH_lt i
    · rw [Finset.card_image_of_injective _ encH_inj, Finset.card_range, Finset.card_univ]
      simp [HIdx]
  rw [← himg, Finset.sum_image fun a _ b _ h => encH_inj h]

/-- `picos.trace(σ)` -/
theorem rep_trace {L : ℕ} {σN : ℕ → ℕ → ℂ} {σ : Matrix (HIdx (Fin dA) d L) (HIdx (Fin dA) d L) ℂ} (h : Rep L σN σ) :
    fosTrace (fosSize dA d L) σN = σ.trace := by
  unfold fosTrace fosSize
  rw [sumN_eq_sum, ← sum_encH (fun x => σN x x)]
  simp only [Matrix.trace, Matrix.diag_apply]
  exact Finset.sum_congr rfl fun i _ => h i i

/-- `trace(X + X.H)`: twice the objective -/
theorem rep_obj {XN : ℕ → ℕ → ℂ} {X : Matrix (Fin dA × Fin d) (Fin dA × Fin d) ℂ} (hX : RepAB XN X) :
    sumN (dA * d) (fun i => XN i i + HasConj.conj (XN i i)) = (X + Xᴴ).trace := by
  rw [sumN_eq_sum, ← sum_encAB (fun x => XN x x + HasConj.conj (XN x x))]
  simp only [Matrix.trace, Matrix.diag_apply, Matrix.add_apply, Matrix.conjTranspose_apply, conj_eq_star]
  exact Finset.sum_congr rfl fun p _ => by rw [hX p p]

/-! ### the symmetric-subspace equation -/

/-- the flat matrix `SN` has the entries of `c · P` (`P` an operator on the `L` copies of `B`) -/
def RepCopies (L : ℕ) (c : ℂ) (SN : ℕ → ℕ → ℂ) (P : Matrix (Fin L → Fin d) (Fin L → Fin d) ℂ) : Prop :=
  ∀ f g, SN (encD f) (encD g) = c * P f g

/-- toqito's `symmetric_projection(dB, L)` before the division by `L!` (mirror model `symProjN`, C18) is `L!` times the projector `symPC` -/
theorem symProjN_repCopies (L : ℕ) :
    RepCopies (d := d) L (L.factorial : ℂ) (fun i j => ((symProjN d L i j : ℤ) : ℂ)) (symPC d L) := by
  intro f g
  have h := congrArg (fun x : ℚ => (x : ℂ)) (symProjN_eq f g)
  simp only [Rat.cast_intCast, Rat.cast_mul, Rat.cast_natCast] at h
  show ((symProjN d L (encD f) (encD g) : ℤ) : ℂ) = _
  rw [h, symPC_eq_symSpec]
  rfl

theorem encD_lt_pow {L : ℕ} (f : Fin L → Fin d) : encD f < d ^ L := by
  rw [← prodN_const]; exact encD_lt f

theorem encH_mod {L : ℕ} (i : HIdx (Fin dA) d L) : encH i % d ^ L = encD i.2 := by
  rw [encH_eq, Nat.mul_comm, Nat.mul_add_mod, Nat.mod_eq_of_lt (encD_lt_pow i.2)]

theorem encH_div {L : ℕ} (i : HIdx (Fin dA) d L) : encH i / d ^ L = i.1 := by
  have hpos : 0 < d ^ L := lt_of_le_of_lt (Nat.zero_le _) (encD_lt_pow i.2)
  rw [encH_eq, Nat.add_comm, Nat.add_mul_div_right _ _ hpos, Nat.div_eq_of_lt (encD_lt_pow i.2), Nat.zero_add]

/-- `(picos.I(dA) @ S) * σ * (picos.I(dA) @ S)` is `c² (1 ⊗ P) σ (1 ⊗ P)` when `S` is `c · P` -/
theorem rep_sandwich (hd : 0 < d) {L : ℕ} {c : ℂ} {SN σN : ℕ → ℕ → ℂ} {P : Matrix (Fin L → Fin d) (Fin L → Fin d) ℂ}
    {σ : Matrix (HIdx (Fin dA) d L) (HIdx (Fin dA) d L) ℂ} (hS : RepCopies L c SN P) (h : Rep L σN σ)
    (i j : HIdx (Fin dA) d L) :
    fosSandwich (d ^ L) SN σN (encH i) (encH j)
      = c * c * (((1 : Matrix (Fin dA) (Fin dA) ℂ) ⊗ₖ P) * σ * ((1 : Matrix (Fin dA) (Fin dA) ℂ) ⊗ₖ P)) i j := by
  obtain ⟨a, f⟩ := i
  obtain ⟨a', f'⟩ := j
  unfold fosSandwich
  rw [encH_mod, encH_mod, encH_div, encH_div, Matrix.mul_assoc, one_kron_mul]
  simp only []
  rw [← prodN_const, sumN_eq_sum_digits hd, Finset.mul_sum]
  refine Finset.sum_congr rfl fun g _ => ?_
  rw [mul_one_kron, sumN_eq_sum_digits hd, hS, Finset.mul_sum, Finset.mul_sum, Finset.mul_sum]
  refine Finset.sum_congr rfl fun g' _ => ?_
  have e1 : (a : ℕ) * prodN (constDims d) L + encD g = encH ((a, g) : HIdx (Fin dA) d L) := by
    rw [encH_eq, prodN_const]
  have e2 : (a' : ℕ) * prodN (constDims d) L + encD g' = encH ((a', g') : HIdx (Fin dA) d L) := by
    rw [encH_eq, prodN_const]
  rw [e1, e2, h, hS]
  ring

/-! ### the operators denoted by flat data -/

/-- the operator on `A ⊗ B^{⊗L}` a flat matrix denotes -/
def ofFlat (L : ℕ) (σN : ℕ → ℕ → ℂ) : Matrix (HIdx (Fin dA) d L) (HIdx (Fin dA) d L) ℂ := fun i j => σN (encH i) (encH j)

/-- the operator on `A ⊗ B` a flat matrix denotes -/
def ofFlatAB (MN : ℕ → ℕ → ℂ) : Matrix (Fin dA × Fin d) (Fin dA × Fin d) ℂ := fun p q => MN (encAB p) (encAB q)

/-- the `2 × 2` block operator a flat matrix denotes -/
def ofFlatS (BN : ℕ → ℕ → ℂ) :
    Matrix ((Fin dA × Fin d) ⊕ (Fin dA × Fin d)) ((Fin dA × Fin d) ⊕ (Fin dA × Fin d)) ℂ := fun u v => BN (encS u) (encS v)

theorem rep_ofFlat (L : ℕ) (σN : ℕ → ℕ → ℂ) : Rep (dA := dA) (d := d) L σN (ofFlat L σN) := fun _ _ => rfl

theorem repAB_ofFlatAB (MN : ℕ → ℕ → ℂ) : RepAB (dA := dA) (d := d) MN (ofFlatAB MN) := fun _ _ => rfl

theorem ofFlat_eq {L : ℕ} {σN : ℕ → ℕ → ℂ} {σ : Matrix (HIdx (Fin dA) d L) (HIdx (Fin dA) d L) ℂ} (h : Rep L σN σ) :
    ofFlat L σN = σ := by
  ext i j; exact h i j

theorem ofFlatAB_eq {MN : ℕ → ℕ → ℂ} {M : Matrix (Fin dA × Fin d) (Fin dA × Fin d) ℂ} (h : RepAB MN M) : ofFlatAB MN = M := by
  ext p q; exact h p q

theorem fosFact_eq : ∀ k : ℕ, fosFact k = k.factorial
  | 0 => rfl
  | k + 1 => by rw [fosFact, fosFact_eq k, Nat.factorial_succ]

/-- the model over `ℂ` (integers read by the canonical embedding) -/
noncomputable def fosExprsC (dA d k : ℕ) (ρN XN σN : ℕ → ℕ → ℂ) : FosExprs ℂ :=
  fosExprs (fun z : ℤ => (z : ℂ)) dA d k ρN XN σN

theorem fosExprsC_block (ℓ : ℕ) (ρN XN σN : ℕ → ℕ → ℂ) :
    ofFlatS (dA := dA) (d := d) (fosExprsC dA d (ℓ + 1) ρN XN σN).block
      = Matrix.fromBlocks (ofFlatAB ρN) (ofFlatAB XN) (ofFlatAB XN)ᴴ (marg1 ℓ (ofFlat (ℓ + 1) σN)) := by
  ext u v
  exact rep_block (repAB_ofFlatAB ρN) (repAB_ofFlatAB XN) (rep_marg ℓ (rep_ofFlat (ℓ + 1) σN)) u v

theorem fosExprsC_trace (ℓ : ℕ) (ρN XN σN : ℕ → ℕ → ℂ) :
    (fosExprsC dA d (ℓ + 1) ρN XN σN).trace = (ofFlat (dA := dA) (d := d) (ℓ + 1) σN).trace :=
  rep_trace (rep_ofFlat (ℓ + 1) σN)

theorem fosExprsC_obj (k : ℕ) (ρN XN σN : ℕ → ℕ → ℂ) :
    (fosExprsC dA d k ρN XN σN).obj2 = (ofFlatAB (dA := dA) (d := d) XN + (ofFlatAB XN)ᴴ).trace :=
  rep_obj (repAB_ofFlatAB XN)

theorem fosExprsC_sym (hd : 0 < d) (ℓ : ℕ) (ρN XN σN : ℕ → ℕ → ℂ) :
    ofFlat (dA := dA) (d := d) (ℓ + 1) (fosExprsC dA d (ℓ + 1) ρN XN σN).symRes
      = (((ℓ + 1).factorial : ℂ) * ((ℓ + 1).factorial : ℂ)) •
        (((1 : Matrix (Fin dA) (Fin dA) ℂ) ⊗ₖ symPC d (ℓ + 1)) * ofFlat (ℓ + 1) σN * ((1 : Matrix (Fin dA) (Fin dA) ℂ) ⊗ₖ symPC d (ℓ + 1))
          - ofFlat (ℓ + 1) σN) := by
  ext i j
  have hs := rep_sandwich hd (symProjN_repCopies (ℓ + 1)) (rep_ofFlat (dA := dA) (ℓ + 1) σN) i j
  show fosSandwich (d ^ (ℓ + 1)) (fun a b => ((symProjN d (ℓ + 1) a b : ℤ) : ℂ)) σN (encH i) (encH j)
      - (((fosFact (ℓ + 1) * fosFact (ℓ + 1) : ℕ) : ℤ) : ℂ) * σN (encH i) (encH j) = _
  rw [hs, fosFact_eq, Matrix.smul_apply, Matrix.sub_apply, smul_eq_mul]
  show _ = _ * (_ - σN (encH i) (encH j))
  push_cast
  ring

theorem fosExprsC_pts (ℓ : ℕ) (ρN XN σN : ℕ → ℕ → ℂ) :
    (fosExprsC dA d (ℓ + 1) ρN XN σN).pts = (List.range' 1 ℓ).map fun j => fosPT dA d (ℓ + 1) j σN := rfl

theorem fosExprsC_pt (ℓ j : ℕ) (σN : ℕ → ℕ → ℂ) :
    ofFlat (dA := dA) (d := d) (ℓ + 1) (fosPT dA d (ℓ + 1) j σN)
      = pTYs (fun t : Fin (ℓ + 1) => (t : ℕ) < j) (ofFlat (ℓ + 1) σN) :=
  ofFlat_eq (rep_pt j (rep_ofFlat (ℓ + 1) σN))

/-- **the model decides feasibility**: the point denoted by flat data `(XN, σN)` is feasible for the program of the operator denoted
by `ρN` iff the model's block matrix, `σ` and partial transposes denote positive semidefinite operators, its trace is `1` and its
symmetric-subspace residual vanishes -/
theorem fosFeasible_iff_model (hd : 0 < d) (ℓ : ℕ) (ρN XN σN : ℕ → ℕ → ℂ) :
    FosFeasible ℓ (ofFlatAB (dA := dA) (d := d) ρN) (ofFlatAB XN) (ofFlat (ℓ + 1) σN) ↔
      (ofFlatS (dA := dA) (d := d) (fosExprsC dA d (ℓ + 1) ρN XN σN).block).PosSemidef ∧
      (ofFlat (dA := dA) (d := d) (ℓ + 1) (fosExprsC dA d (ℓ + 1) ρN XN σN).sigma).PosSemidef ∧
      (fosExprsC dA d (ℓ + 1) ρN XN σN).trace = 1 ∧
      ofFlat (dA := dA) (d := d) (ℓ + 1) (fosExprsC dA d (ℓ + 1) ρN XN σN).symRes = 0 ∧
      ∀ P ∈ (fosExprsC dA d (ℓ + 1) ρN XN σN).pts, (ofFlat (dA := dA) (d := d) (ℓ + 1) P).PosSemidef := by
  rw [fosExprsC_block, fosExprsC_trace, fosExprsC_sym hd, fosExprsC_pts]
  have hf : (((ℓ + 1).factorial : ℂ) * ((ℓ + 1).factorial : ℂ)) ≠ 0 := by
    have : ((ℓ + 1).factorial : ℂ) ≠ 0 := by exact_mod_cast Nat.factorial_ne_zero (ℓ + 1)
    exact mul_ne_zero this this
  constructor
  · intro h
    refine ⟨h.block, h.psd, h.trace_one, ?_, ?_⟩
    · rw [h.sym, sub_self, smul_zero]
    · intro P hP
      obtain ⟨j, hj, rfl⟩ := List.mem_map.mp hP
      rw [List.mem_range'_1] at hj
      rw [fosExprsC_pt]
      exact h.ppt j hj.1 (by omega)
  · rintro ⟨h1, h2, h3, h4, h5⟩
    refine ⟨h1, h2, h3, ?_, fun j hj1 hj2 => ?_⟩
    · exact sub_eq_zero.mp ((smul_eq_zero.mp h4).resolve_left hf)
    · rw [← fosExprsC_pt]
      exact h5 _ (List.mem_map.mpr ⟨j, List.mem_range'_1.mpr ⟨hj1, by omega⟩, rfl⟩)

/-! ### the product point of the driver is the product point of `fosFeasible_product` -/

theorem fosProdVec_encH (aN bN : ℕ → ℂ) (j : ℕ) : ∀ (L : ℕ) (i : HIdx (Fin dA) d L),
    fosProdVec d aN bN j L (encH i)
      = aN i.1 * ∏ s : Fin L, (if (s : ℕ) < j then star (bN (i.2 s)) else bN (i.2 s))
  | 0, i => by
    simp [fosProdVec, encH_eq, encD, enc]
  | L + 1, i => by
    obtain ⟨a, f⟩ := i
    have hi : ((a, f) : HIdx (Fin dA) d (L + 1))
        = snocI ((a, Fin.init (α := fun _ => Fin d) f) : HIdx (Fin dA) d L) (f (Fin.last L)) := by
      simp [snocI]
    set c := f (Fin.last L) with hc
    have hpos : 0 < d := lt_of_le_of_lt (Nat.zero_le _) c.2
    rw [hi, encH_snoc]
    simp only [fosProdVec]
    have e1 : (encH ((a, Fin.init (α := fun _ => Fin d) f) : HIdx (Fin dA) d L) * d + c) / d
        = encH ((a, Fin.init (α := fun _ => Fin d) f) : HIdx (Fin dA) d L) := by
      rw [Nat.add_comm, Nat.add_mul_div_right _ _ hpos, Nat.div_eq_of_lt c.2, Nat.zero_add]
    have e2 : (encH ((a, Fin.init (α := fun _ => Fin d) f) : HIdx (Fin dA) d L) * d + c) % d = c := by
      rw [Nat.add_comm, Nat.add_mul_mod_self_right, Nat.mod_eq_of_lt c.2]
    rw [e1, e2, fosProdVec_encH aN bN j L, Fin.prod_univ_castSucc, conj_eq_star]
    simp only [snocI, Fin.snoc_castSucc, Fin.snoc_last, Fin.val_castSucc, Fin.val_last, Fin.init]
    ring

/-- the matrix `s_j s_jᴴ` built by the driver from flat vectors `aN`, `bN` (`s_j = a ⊗ conj(b)^{⊗j} ⊗ b^{⊗(L−j)}`) denotes
`a aᴴ ⊗ (conj(b) conj(b)ᴴ)^{⊗j} ⊗ (b bᴴ)^{⊗(L−j)}`; for `j = 0` this is the product point `fosProdSigma` -/
theorem ofFlat_fosOuter_prodVec (L j : ℕ) (aN bN : ℕ → ℂ) :
    ofFlat (dA := dA) (d := d) L (fosOuter (fosProdVec d aN bN j L))
      = prodExt (vecMulVec (fun x : Fin dA => aN x) (star fun x : Fin dA => aN x))
          (fun t : Fin L => if (t : ℕ) < j then star (fun y : Fin d => bN y) else fun y : Fin d => bN y) := by
  ext i i'
  simp only [ofFlat, fosOuter, fosProdVec_encH, conj_eq_star, prodExt_apply, Matrix.vecMulVec_apply, Pi.star_apply, star_mul',
    star_prod]
  rw [mul_mul_mul_comm, ← Finset.prod_mul_distrib]
  congr 1
  refine Finset.prod_congr rfl fun s _ => ?_
  by_cases hs : (s : ℕ) < j <;> simp [hs]

theorem ofFlat_fosProdSigma (ℓ : ℕ) (aN bN : ℕ → ℂ) :
    ofFlat (dA := dA) (d := d) (ℓ + 1) (fosOuter (fosProdVec d aN bN 0 (ℓ + 1)))
      = fosProdSigma ℓ (fun x : Fin dA => aN x) (fun y : Fin d => bN y) := by
  rw [ofFlat_fosOuter_prodVec]
  simp [fosProdSigma]

end Model
end Toq.Metrics
