import Toq.Proofs.States
import Toq.Model.StatesExtra
import Mathlib.RingTheory.RootsOfUnity.PrimitiveRoots
import Mathlib.Data.Nat.Prime.Basic
/-!
# Mutually unbiased bases: quadratic Gauss sums and the eigenvectors of `X Z^j` (helper lemmas for C17)
-/
open Toq.Matrices Toq.Spec17

namespace Toq.States

theorem tri_add (x : Nat) : ∀ t, tri (x + t) = tri x + tri t + x * t
  | 0 => by simp [tri]
  | t + 1 => by
    show tri (x + t) + (x + t) = tri x + (tri t + t) + x * (t + 1)
    rw [tri_add x t]; ring

theorem two_tri : ∀ x, 2 * tri x + x = x * x
  | 0 => rfl
  | x + 1 => by
    show 2 * (tri x + x) + (x + 1) = (x + 1) * (x + 1)
    have := two_tri x
    nlinarith

/-- for odd `d`, `d ∣ T(d)` -/
theorem tri_odd (k : Nat) : tri (2 * k + 1) = (2 * k + 1) * k := by
  have := two_tri (2 * k + 1)
  nlinarith

section gauss
variable {α : Type} [CommRing α]

/-- the quadratic character `G(x) = q^{T(x)} r^x` -/
def qchar (q r : α) (x : Nat) : α := q ^ tri x * r ^ x

theorem qchar_add (q r : α) (x t : Nat) : qchar q r (x + t) = qchar q r x * qchar q r t * q ^ (x * t) := by
  unfold qchar
  rw [tri_add, pow_add, pow_add, pow_add]; ring

theorem qchar_period (q r : α) (k : Nat) (hq : q ^ (2 * k + 1) = 1) (hr : r ^ (2 * k + 1) = 1) (x : Nat) :
    qchar q r (x + (2 * k + 1)) = qchar q r x := by
  rw [qchar_add]
  have h1 : qchar q r (2 * k + 1) = 1 := by
    unfold qchar
    rw [tri_odd, pow_mul, hq, one_pow, hr, one_mul]
  rw [h1, mul_one, Nat.mul_comm, pow_mul, hq, one_pow, mul_one]

theorem qchar_mod (q r : α) (k : Nat) (hq : q ^ (2 * k + 1) = 1) (hr : r ^ (2 * k + 1) = 1) (x : Nat) :
    qchar q r (x % (2 * k + 1)) = qchar q r x := by
  have h : ∀ n x, qchar q r (x + (2 * k + 1) * n) = qchar q r x := by
    intro n
    induction n with
    | zero => intro x; simp
    | succ n ih => intro x; rw [Nat.mul_succ, ← Nat.add_assoc, qchar_period q r k hq hr, ih]
  conv_rhs => rw [← Nat.mod_add_div x (2 * k + 1)]
  rw [h]

theorem qchar_inv (q qc r rc : α) (hq : q * qc = 1) (hr : r * rc = 1) (x : Nat) :
    qchar q r x * qchar qc rc x = 1 := by
  unfold qchar
  calc q ^ tri x * r ^ x * (qc ^ tri x * rc ^ x) = (q ^ tri x * qc ^ tri x) * (r ^ x * rc ^ x) := by ring
    _ = 1 := by rw [pow_mul_inv_pow q qc hq, pow_mul_inv_pow r rc hr, one_mul]

/-- **quadratic Gauss sum**: for odd `p` and a primitive `p`-th root of unity `q`,
    `|Σ_x q^{T(x)} r^x|² = p` (`r` any `p`-th root of unity; `qc`, `rc` the inverses = conjugates). -/
theorem gauss_sum_sq [IsDomain α] (q qc r rc : α) (k : Nat) (hq : IsPrimitiveRoot q (2 * k + 1)) (hqc : q * qc = 1)
    (hr : r ^ (2 * k + 1) = 1) (hrc : r * rc = 1) :
    sumN (2 * k + 1) (qchar q r) * sumN (2 * k + 1) (qchar qc rc) = ((2 * k + 1 : Nat) : α) := by
  set p := 2 * k + 1 with hp
  have hp0 : 0 < p := by omega
  have hq1 : q ^ p = 1 := hq.pow_eq_one
  -- S * S̄ = Σ_y Σ_x G(x) Ḡ(y)
  rw [← sumN_mul_left]
  have step1 : ∀ y, y < p → sumN p (qchar q r) * qchar qc rc y
      = sumN p (fun t => qchar q r t * q ^ (y * t)) := by
    intro y hy
    rw [← sumN_reindex p (fun t => (y + t) % p) (qchar q r) (fun t _ => Nat.mod_lt _ hp0)
      (fun a b ha hb h => by
        have := add_mod_inj p y a b ha hb (by rwa [Nat.add_comm a y, Nat.add_comm b y])
        exact this)]
    rw [← sumN_mul_right]
    apply sumN_congr
    intro t _
    show qchar q r ((y + t) % p) * qchar qc rc y = _
    rw [qchar_mod q r k hq1 hr, qchar_add]
    calc qchar q r y * qchar q r t * q ^ (y * t) * qchar qc rc y
        = (qchar q r y * qchar qc rc y) * (qchar q r t * q ^ (y * t)) := by ring
      _ = _ := by rw [qchar_inv q qc r rc hqc hrc, one_mul]
  rw [sumN_congr _ (fun y => sumN p (fun t => qchar q r t * q ^ (y * t))) p (fun y hy => step1 y hy)]
  rw [sumN_comm]
  rw [sumN_congr _ (fun t => if t = 0 then qchar q r t * (p : α) else 0) p (fun t ht => by
    rw [sumN_mul_left]
    have := char_orth q qc p hq hqc t 0 ht hp0
    rw [sumN_congr _ (fun y => q ^ (y * t)) p (fun y _ => by rw [Nat.zero_mul, pow_zero, mul_one, Nat.mul_comm])] at this
    rw [this]
    by_cases h0 : t = 0
    · rw [if_pos h0, if_pos h0]
    · rw [if_neg h0, if_neg h0, mul_zero])]
  rw [sumN_ite_eq p 0 hp0]
  simp [qchar, tri]

/-! ### the eigenvectors of `X Z^j` -/

theorem mubVec_eq_qchar (ω : α) (j m x : Nat) : mubVec ω j m x = qchar (ω ^ j) (ω ^ m) x := by
  unfold mubVec qchar
  rw [pow_add, pow_mul, pow_mul]

/-- the mirrored matrix (`elementwise` power of the clock matrix) is `X Z^j` -/
theorem mubMatMirror_eq (ω : α) (d j : Nat) (hj : 0 < j) (i k : Nat) (hk : k < d) :
    mubMatMirror ω d j i k = genPauli ω d 1 j i k := by
  unfold mubMatMirror matMul
  rw [sumN_single d k hk]
  · unfold genPauli
    simp only [Nat.add_zero, Nat.mod_eq_of_lt hk, Nat.zero_mul, pow_zero, Nat.one_mul, if_true]
    rw [← pow_mul, Nat.mul_comm k j]
    by_cases h : i = (k + 1) % d
    · rw [if_pos h, if_pos h, one_mul]
    · rw [if_neg h, if_neg h, zero_mul]
  · intro l hl hne
    unfold genPauli
    simp only [Nat.add_zero, Nat.mod_eq_of_lt hk, if_neg hne]
    rw [zero_pow (by omega), mul_zero]

/-- `(X Z^j v)[i]` for `i ≥ 1` and for `i = 0` -/
theorem genPauli_one_apply_succ (ω : α) (d j : Nat) (u : Nat → α) (i : Nat) (hi : i + 1 < d) :
    sumN d (fun k => genPauli ω d 1 j (i + 1) k * u k) = ω ^ (j * i) * u i := by
  rw [sumN_single d i (by omega)]
  · unfold genPauli
    rw [Nat.mod_eq_of_lt hi, if_pos rfl]
  · intro k hk hne
    unfold genPauli
    rw [if_neg, zero_mul]
    intro h
    by_cases hk1 : k + 1 < d
    · rw [Nat.mod_eq_of_lt hk1] at h; omega
    · have : k + 1 = d := by omega
      rw [this, Nat.mod_self] at h; omega

theorem genPauli_one_apply_zero (ω : α) (d j : Nat) (u : Nat → α) (hd : 0 < d) :
    sumN d (fun k => genPauli ω d 1 j 0 k * u k) = ω ^ (j * (d - 1)) * u (d - 1) := by
  rw [sumN_single d (d - 1) (by omega)]
  · unfold genPauli
    rw [Nat.sub_add_cancel hd, Nat.mod_self, if_pos rfl]
  · intro k hk hne
    unfold genPauli
    rw [if_neg, zero_mul]
    intro h
    have hk1 : k + 1 < d := by omega
    rw [Nat.mod_eq_of_lt hk1] at h; omega

/-- **`mubVec ω j m` is an eigenvector of `X Z^j` with eigenvalue `ω̄^m`** (odd dimension `2k+1`) -/
theorem mub_eigen_aux (ω ωc : α) (k j m : Nat) (hω : ω ^ (2 * k + 1) = 1) (hc : ω * ωc = 1) (i : Nat)
    (hi : i < 2 * k + 1) :
    sumN (2 * k + 1) (fun l => genPauli ω (2 * k + 1) 1 j i l * mubVec ω j m l) = ωc ^ m * mubVec ω j m i := by
  have hinv : ∀ n, ω ^ n * ωc ^ n = 1 := pow_mul_inv_pow ω ωc hc
  cases i with
  | zero =>
    rw [genPauli_one_apply_zero ω _ j _ (by omega)]
    show ω ^ (j * (2 * k + 1 - 1)) * ω ^ (j * tri (2 * k + 1 - 1) + m * (2 * k + 1 - 1)) = ωc ^ m * ω ^ (j * tri 0 + m * 0)
    have e1 : 2 * k + 1 - 1 = 2 * k := by omega
    rw [e1]
    have e2 : j * (2 * k) + (j * tri (2 * k) + m * (2 * k)) + m = (2 * k + 1) * (j * k + m) := by
      have := tri_odd k
      have h3 : tri (2 * k + 1) = tri (2 * k) + 2 * k := rfl
      rw [h3] at this
      have h4 : j * (2 * k) + j * tri (2 * k) = j * ((2 * k + 1) * k) := by rw [← this]; ring
      rw [← Nat.add_assoc, h4]; ring
    have e3 : ω ^ (j * (2 * k)) * ω ^ (j * tri (2 * k) + m * (2 * k)) * ω ^ m = 1 := by
      rw [← pow_add, ← pow_add, e2, pow_mul, hω, one_pow]
    simp only [tri, Nat.mul_zero, Nat.add_zero, pow_zero, mul_one]
    calc ω ^ (j * (2 * k)) * ω ^ (j * tri (2 * k) + m * (2 * k))
        = ω ^ (j * (2 * k)) * ω ^ (j * tri (2 * k) + m * (2 * k)) * (ω ^ m * ωc ^ m) := by rw [hinv, mul_one]
      _ = (ω ^ (j * (2 * k)) * ω ^ (j * tri (2 * k) + m * (2 * k)) * ω ^ m) * ωc ^ m := by ring
      _ = ωc ^ m := by rw [e3, one_mul]
  | succ i =>
    rw [genPauli_one_apply_succ ω _ j _ i hi]
    show ω ^ (j * i) * ω ^ (j * tri i + m * i) = ωc ^ m * ω ^ (j * (tri i + i) + m * (i + 1))
    have e : j * (tri i + i) + m * (i + 1) = (j * i + (j * tri i + m * i)) + m := by ring
    rw [e, pow_add (ω) (j * i + (j * tri i + m * i)) m, pow_add ω (j * i)]
    calc ω ^ (j * i) * ω ^ (j * tri i + m * i)
        = (ω ^ (j * i) * ω ^ (j * tri i + m * i)) * (ω ^ m * ωc ^ m) := by rw [hinv, mul_one]
      _ = _ := by ring

/-- **every eigenvector of `X Z^j` is determined by its first component**: if `X Z^j u = λ u` with `λ λc = 1` then
    `u[i] = λc^i ω^{j T(i)} u[0]` — eigenspaces are one-dimensional, so an eigenvector with eigenvalue `ω̄^m` is a
    multiple of `mubVec ω j m` -/
theorem mub_eig_unique_aux (ω lam lamc : α) (d j : Nat) (u : Nat → α) (hl : lam * lamc = 1)
    (h : ∀ i, i < d → sumN d (fun k => genPauli ω d 1 j i k * u k) = lam * u i) :
    ∀ i, i < d → u i = lamc ^ i * ω ^ (j * tri i) * u 0
  | 0, _ => by simp [tri]
  | i + 1, hi => by
    have h1 := h (i + 1) hi
    rw [genPauli_one_apply_succ ω d j u i hi] at h1
    have ih := mub_eig_unique_aux ω lam lamc d j u hl h i (by omega)
    have h2 : u (i + 1) = lamc * (ω ^ (j * i) * u i) := by
      rw [h1, ← mul_assoc, mul_comm lamc lam, hl, one_mul]
    rw [h2, ih]
    show _ = lamc ^ (i + 1) * ω ^ (j * (tri i + i)) * u 0
    rw [Nat.mul_add, pow_add ω, pow_succ]; ring

/-- orthonormality inside one basis: `⟨v_{j,m}, v_{j,m'}⟩ = d·δ_{mm'}` -/
theorem mub_orthonormal_aux [IsDomain α] (ω ωc : α) (d : Nat) (hω : IsPrimitiveRoot ω d) (hc : ω * ωc = 1)
    (j m m' : Nat) (hm : m < d) (hm' : m' < d) :
    inner d (mubVec ωc j m) (mubVec ω j m') = if m = m' then (d : α) else 0 := by
  unfold inner
  rw [sumN_congr _ (fun x => ω ^ (m' * x) * ωc ^ (m * x)) d (fun x _ => by
    unfold mubVec
    rw [pow_add, pow_add]
    calc ωc ^ (j * tri x) * ωc ^ (m * x) * (ω ^ (j * tri x) * ω ^ (m' * x))
        = (ω ^ (j * tri x) * ωc ^ (j * tri x)) * (ω ^ (m' * x) * ωc ^ (m * x)) := by ring
      _ = _ := by rw [pow_mul_inv_pow ω ωc hc, one_mul])]
  rw [char_orth ω ωc d hω hc m' m hm' hm]
  by_cases h : m = m'
  · rw [if_pos h, if_pos h.symm]
  · rw [if_neg h, if_neg (Ne.symm h)]

/-- `ω^{j'} ω̄^{j}` is again a primitive `p`-th root of unity for a prime `p` and `j ≠ j' < p` -/
theorem prim_root_ratio [IsDomain α] (ω ωc : α) (p : Nat) (hp : p.Prime) (hω : IsPrimitiveRoot ω p) (hc : ω * ωc = 1)
    (j j' : Nat) (hj : j < p) (hj' : j' < p) (hne : j ≠ j') : IsPrimitiveRoot (ω ^ j' * ωc ^ j) p := by
  have hp0 : 0 < p := hp.pos
  have hωc : ωc = ω ^ (p - 1) := by
    calc ωc = ωc * ω ^ p := by rw [hω.pow_eq_one, mul_one]
      _ = ωc * (ω ^ (p - 1) * ω) := by rw [← pow_succ, Nat.sub_add_cancel hp0]
      _ = ω ^ (p - 1) * (ω * ωc) := by ring
      _ = ω ^ (p - 1) := by rw [hc, mul_one]
  have e : ω ^ j' * ωc ^ j = ω ^ (j' + (p - 1) * j) := by rw [hωc, ← pow_mul, ← pow_add]
  rw [e]
  apply hω.pow_of_coprime
  apply Nat.Coprime.symm
  rw [Nat.Prime.coprime_iff_not_dvd hp]
  intro hdvd
  apply hne
  have h1 : (j' + (p - 1) * j + j) % p = j % p := by
    rw [Nat.add_mod, Nat.mod_eq_zero_of_dvd hdvd, Nat.zero_add, Nat.mod_mod]
  have h2 : j' + (p - 1) * j + j = j' + p * j := by
    have : (p - 1) * j + j = p * j := by
      conv_rhs => rw [← Nat.sub_add_cancel hp0]
      rw [Nat.add_mul, Nat.one_mul]
    rw [Nat.add_assoc, this]
  rw [h2, Nat.add_mul_mod_self_left, Nat.mod_eq_of_lt hj, Nat.mod_eq_of_lt hj'] at h1
  exact h1.symm

/-- **mutual unbiasedness** for an odd prime `p = 2k+1`: `|⟨v_{j,m}, v_{j',m'}⟩|² = p` for `j ≠ j'` -/
theorem mub_unbiased_aux [IsDomain α] (ω ωc : α) (k : Nat) (hp : (2 * k + 1).Prime) (hω : IsPrimitiveRoot ω (2 * k + 1))
    (hc : ω * ωc = 1) (j j' m m' : Nat) (hj : j < 2 * k + 1) (hj' : j' < 2 * k + 1) (hne : j ≠ j') :
    inner (2 * k + 1) (mubVec ωc j m) (mubVec ω j' m') * inner (2 * k + 1) (mubVec ω j m) (mubVec ωc j' m')
      = ((2 * k + 1 : Nat) : α) := by
  have hc' : ωc * ω = 1 := by rw [mul_comm]; exact hc
  have hω1 : ω ^ (2 * k + 1) = 1 := hω.pow_eq_one
  have hωc1 : ωc ^ (2 * k + 1) = 1 := by
    have := pow_mul_inv_pow ω ωc hc (2 * k + 1)
    rwa [hω1, one_mul] at this
  have hq := prim_root_ratio ω ωc _ hp hω hc j j' hj hj' hne
  have e1 : inner (2 * k + 1) (mubVec ωc j m) (mubVec ω j' m')
      = sumN (2 * k + 1) (qchar (ω ^ j' * ωc ^ j) (ω ^ m' * ωc ^ m)) := by
    unfold inner
    apply sumN_congr; intro x _
    rw [mubVec_eq_qchar, mubVec_eq_qchar]
    unfold qchar
    rw [mul_pow, mul_pow]; ring
  have e2 : inner (2 * k + 1) (mubVec ω j m) (mubVec ωc j' m')
      = sumN (2 * k + 1) (qchar (ωc ^ j' * ω ^ j) (ωc ^ m' * ω ^ m)) := by
    unfold inner
    apply sumN_congr; intro x _
    rw [mubVec_eq_qchar, mubVec_eq_qchar]
    unfold qchar
    rw [mul_pow, mul_pow]; ring
  rw [e1, e2]
  apply gauss_sum_sq _ _ _ _ k hq
  · calc ω ^ j' * ωc ^ j * (ωc ^ j' * ω ^ j) = (ω ^ j' * ωc ^ j') * (ω ^ j * ωc ^ j) := by ring
      _ = 1 := by rw [pow_mul_inv_pow ω ωc hc, pow_mul_inv_pow ω ωc hc, one_mul]
  · rw [mul_pow, ← pow_mul, ← pow_mul, Nat.mul_comm m', Nat.mul_comm m, pow_mul, pow_mul, hω1, hωc1, one_pow, one_pow,
      one_mul]
  · calc ω ^ m' * ωc ^ m * (ωc ^ m' * ω ^ m) = (ω ^ m' * ωc ^ m') * (ω ^ m * ωc ^ m) := by ring
      _ = 1 := by rw [pow_mul_inv_pow ω ωc hc, pow_mul_inv_pow ω ωc hc, one_mul]

end gauss
end Toq.States
