import Toq.Proofs.MatrixOpsTol
import Toq.Proofs.MatrixOpsExtra
import Mathlib.Data.Nat.Sqrt
import Mathlib.Data.Rat.Lemmas
/-!
# `is_diagonally_dominant`: the enclosures of the moduli are sound, and what the verdict of `diagDominantV` means

`np.abs` of a complex entry is a square root; the exact decider encloses every modulus between two rationals
(`sqrtEnclosure`: `⌊√(n·d·4^60)⌋ / (d·2^60)` and that plus `1/(d·2^60)`), sums the enclosures along each row and compares the
enclosure of the gap `|a_ii| − Σ_{j≠i} |a_ij|` with the margin.
-/

namespace Toq.MatrixPreds
open Toq.MatrixOps

theorem sqrtEnclosure_spec (q : Rat) (hq : 0 ≤ q) :
    0 ≤ (sqrtEnclosure q).1 ∧ (sqrtEnclosure q).1 ≤ (sqrtEnclosure q).2 ∧
      (sqrtEnclosure q).1 * (sqrtEnclosure q).1 ≤ q ∧ q ≤ (sqrtEnclosure q).2 * (sqrtEnclosure q).2 ∧
      ((sqrtEnclosure q).1 = (sqrtEnclosure q).2 → (sqrtEnclosure q).1 * (sqrtEnclosure q).1 = q) := by
  unfold sqrtEnclosure
  by_cases h0 : q ≤ 0
  · have : q = 0 := le_antisymm h0 hq
    simp [h0, this]
  · simp only [h0, ↓reduceIte]
    have hqpos : 0 < q := lt_of_not_ge h0
    have hnum : 0 < q.num := Rat.num_pos.mpr hqpos
    set N : Nat := q.num.toNat with hN
    set D : Nat := q.den with hD
    have hDpos : 0 < D := q.den_pos
    have hNcast : ((N : Nat) : Rat) = (q.num : Rat) := by
      rw [hN]
      have : ((q.num.toNat : Int)) = q.num := Int.toNat_of_nonneg hnum.le
      exact_mod_cast this
    have hqeq : q = (N : Rat) / (D : Rat) := by
      rw [hNcast, hD]; exact (Rat.num_div_den q).symm
    set K : Nat := 4 ^ 60 with hK
    have hK2 : (2 ^ 60 : Nat) * (2 ^ 60 : Nat) = K := by rw [hK]; norm_num
    set s : Nat := Nat.sqrt (N * D * K) with hs
    have hs1 : s * s ≤ N * D * K := Nat.sqrt_le _
    have hs2 : N * D * K < (s + 1) * (s + 1) := Nat.lt_succ_sqrt _
    set dn : Rat := ((D * 2 ^ 60 : Nat) : Rat) with hdn
    have hdnpos : 0 < dn := by rw [hdn]; exact_mod_cast Nat.mul_pos hDpos (by positivity)
    have hdn2 : dn * dn = (D : Rat) * (D : Rat) * (K : Rat) := by
      rw [hdn]
      have : (D * 2 ^ 60) * (D * 2 ^ 60) = D * D * K := by rw [← hK2]; ring
      exact_mod_cast this
    have hDr : (0 : Rat) < (D : Rat) := by exact_mod_cast hDpos
    have hKr : (0 : Rat) < (K : Rat) := by rw [hK]; positivity
    -- (x/dn)² compared with N/D  ⇔  x²·D compared with N·dn² = N·D²·K  ⇔  x² compared with N·D·K
    have key_le : ∀ x : Nat, x * x ≤ N * D * K → ((x : Rat) / dn) * ((x : Rat) / dn) ≤ q := by
      intro x hx
      rw [hqeq, div_mul_div_comm, div_le_div_iff₀ (mul_pos hdnpos hdnpos) hDr, hdn2]
      have : ((x : Rat) * (x : Rat)) ≤ (N : Rat) * (D : Rat) * (K : Rat) := by exact_mod_cast hx
      nlinarith
    have key_ge : ∀ x : Nat, N * D * K ≤ x * x → q ≤ ((x : Rat) / dn) * ((x : Rat) / dn) := by
      intro x hx
      rw [hqeq, div_mul_div_comm, div_le_div_iff₀ hDr (mul_pos hdnpos hdnpos), hdn2]
      have : (N : Rat) * (D : Rat) * (K : Rat) ≤ ((x : Rat) * (x : Rat)) := by exact_mod_cast hx
      nlinarith
    by_cases hex : s * s = N * D * K
    · simp only [hex, ↓reduceIte]
      refine ⟨div_nonneg (Nat.cast_nonneg s) hdnpos.le, le_refl _, key_le s hs1, key_ge s (le_of_eq hex.symm), fun _ => ?_⟩
      exact le_antisymm (key_le s hs1) (key_ge s (le_of_eq hex.symm))
    · simp only [hex, ↓reduceIte]
      refine ⟨div_nonneg (Nat.cast_nonneg s) hdnpos.le, ?_, key_le s hs1, key_ge (s + 1) hs2.le, ?_⟩
      · apply div_le_div_of_nonneg_right _ hdnpos.le
        exact_mod_cast Nat.le_succ s
      · intro heq
        exfalso
        have : ((s : Rat)) = ((s + 1 : Nat) : Rat) := by
          exact (div_left_inj' hdnpos.ne').mp heq
        have : s = s + 1 := by exact_mod_cast this
        omega

private theorem le_of_mul_self_le' {u v : ℝ} (hv : 0 ≤ v) (h : u * u ≤ v * v) : u ≤ v := by
  by_contra hlt
  have := mul_self_lt_mul_self hv (not_le.mp hlt)
  linarith

/-- the enclosure of a modulus contains the modulus; when its end points coincide it is the modulus -/
theorem absEnclosure_spec (a : QI) :
    (((absEnclosure a).1 : Rat) : ℝ) ≤ ‖a.toC‖ ∧ ‖a.toC‖ ≤ (((absEnclosure a).2 : Rat) : ℝ) := by
  have hq : 0 ≤ a.re * a.re + a.im * a.im := add_nonneg (mul_self_nonneg _) (mul_self_nonneg _)
  obtain ⟨h0, h01, hlo, hhi, _⟩ := sqrtEnclosure_spec _ hq
  have hn : ‖a.toC‖ * ‖a.toC‖ = ((a.re * a.re + a.im * a.im : Rat) : ℝ) := by
    have := norm_toC_sq a
    rw [sq] at this
    rw [this]; rfl
  unfold absEnclosure
  constructor
  · apply le_of_mul_self_le' (norm_nonneg _)
    rw [hn]
    exact_mod_cast hlo
  · apply le_of_mul_self_le' (by exact_mod_cast le_trans h0 h01)
    rw [hn]
    exact_mod_cast hhi

/-! ## the row sums of the enclosures -/

/-- lower / upper end of the enclosure of `|a_ij|`, `0` on the diagonal -/
def offLo (A : Mat QI) (i j : Nat) : Rat := if j = i then 0 else (absEnclosure (A.f i j)).1
def offHi (A : Mat QI) (i j : Nat) : Rat := if j = i then 0 else (absEnclosure (A.f i j)).2

theorem offFold_eq (A : Mat QI) (i : Nat) : ∀ c,
    (List.range c).foldl (fun (acc : Rat × Rat) j =>
        if j = i then acc else let e := absEnclosure (A.f i j); (acc.1 + e.1, acc.2 + e.2)) (0, 0)
      = (∑ j ∈ Finset.range c, offLo A i j, ∑ j ∈ Finset.range c, offHi A i j)
  | 0 => by simp
  | c + 1 => by
    rw [List.range_succ, List.foldl_append, offFold_eq A i c, Finset.sum_range_succ, Finset.sum_range_succ]
    simp only [List.foldl_cons, List.foldl_nil, offLo, offHi]
    by_cases h : c = i <;> simp [h]

/-- the true gap of row `i`: `|a_ii| − Σ_{j ≠ i} |a_ij|` -/
noncomputable def rowGap (A : Mat QI) (i : Nat) : ℝ :=
  ‖(A.f i i).toC‖ - ∑ j ∈ Finset.range A.c, (if j = i then 0 else ‖(A.f i j).toC‖)

theorem rowGap_bounds (A : Mat QI) (i : Nat) :
    ((((absEnclosure (A.f i i)).1 - ∑ j ∈ Finset.range A.c, offHi A i j : Rat)) : ℝ) ≤ rowGap A i ∧
    rowGap A i ≤ ((((absEnclosure (A.f i i)).2 - ∑ j ∈ Finset.range A.c, offLo A i j : Rat)) : ℝ) := by
  unfold rowGap
  have hd := absEnclosure_spec (A.f i i)
  have hlo : ((∑ j ∈ Finset.range A.c, offLo A i j : Rat) : ℝ) ≤ ∑ j ∈ Finset.range A.c, (if j = i then 0 else ‖(A.f i j).toC‖) := by
    push_cast
    apply Finset.sum_le_sum
    intro j _
    unfold offLo
    by_cases h : j = i
    · simp [h]
    · simp only [h, ↓reduceIte]; exact (absEnclosure_spec _).1
  have hhi : ∑ j ∈ Finset.range A.c, (if j = i then 0 else ‖(A.f i j).toC‖) ≤ ((∑ j ∈ Finset.range A.c, offHi A i j : Rat) : ℝ) := by
    push_cast
    apply Finset.sum_le_sum
    intro j _
    unfold offHi
    by_cases h : j = i
    · simp [h]
    · simp only [h, ↓reduceIte]; exact (absEnclosure_spec _).2
  push_cast at hlo hhi ⊢
  constructor
  · linarith [hd.1]
  · linarith [hd.2]

/-- the verdict on one row, as `diagDominantV` computes it -/
def rowVerdict (A : Mat QI) (strict : Bool) (μ : Rat) (i : Nat) : Verdict :=
  let lo := (absEnclosure (A.f i i)).1 - ∑ j ∈ Finset.range A.c, offHi A i j
  let hi := (absEnclosure (A.f i i)).2 - ∑ j ∈ Finset.range A.c, offLo A i j
  if lo = hi ∧ lo = 0 then (if strict then Verdict.no else Verdict.yes)
  else if μ ≤ lo then Verdict.yes
  else if hi ≤ -μ then Verdict.no
  else Verdict.unknown

theorem diagDominantV_eq (A : Mat QI) (strict : Bool) (m : Rat) :
    diagDominantV A strict m = if !isSquare A then .no
      else Verdict.all ((List.range A.r).map (rowVerdict A strict (m * (1 + maxAbs1 A)))) := by
  unfold diagDominantV
  by_cases hsq : isSquare A = true
  · simp only [hsq, Bool.not_true, Bool.false_eq_true, ↓reduceIte]
    congr 1
    apply List.map_congr_left
    intro i _
    simp only [offFold_eq, rowVerdict]
  · simp [hsq]

theorem maxAbs1_nonneg (A : Mat QI) : 0 ≤ maxAbs1 A := by
  unfold maxAbs1
  apply foldl_outer
  intro acc i
  exact (foldl_maxRat (fun j => (A.f i j).abs1) (List.range A.c) acc).1

theorem rowVerdict_yes (A : Mat QI) (strict : Bool) (μ : Rat) (hμ : 0 < μ) (i : Nat) (h : rowVerdict A strict μ i = .yes) :
    (strict = true → 0 < rowGap A i) ∧ 0 ≤ rowGap A i := by
  obtain ⟨hlo, hhi⟩ := rowGap_bounds A i
  unfold rowVerdict at h
  simp only [] at h
  split at h
  · rename_i heq
    cases strict with
    | true => simp at h
    | false =>
      obtain ⟨h1, h2⟩ := heq
      rw [h2] at hlo
      refine ⟨by simp, ?_⟩
      simpa using hlo
  · split at h
    · rename_i hm
      have : ((μ : Rat) : ℝ) ≤ rowGap A i := le_trans (by exact_mod_cast hm) hlo
      have hμ' : (0 : ℝ) < ((μ : Rat) : ℝ) := by exact_mod_cast hμ
      exact ⟨fun _ => by linarith, by linarith⟩
    · split at h <;> cases h

theorem rowVerdict_no (A : Mat QI) (strict : Bool) (μ : Rat) (hμ : 0 < μ) (i : Nat) (h : rowVerdict A strict μ i = .no) :
    (strict = true → rowGap A i ≤ 0) ∧ (strict = false → rowGap A i < 0) := by
  obtain ⟨hlo, hhi⟩ := rowGap_bounds A i
  unfold rowVerdict at h
  simp only [] at h
  split at h
  · rename_i heq
    cases strict with
    | false => simp at h
    | true =>
      obtain ⟨h1, h2⟩ := heq
      rw [← h1, h2] at hhi
      refine ⟨fun _ => by simpa using hhi, by simp⟩
  · split at h
    · cases h
    · split at h
      · rename_i hm
        have : rowGap A i ≤ ((-μ : Rat) : ℝ) := le_trans hhi (by exact_mod_cast hm)
        have hμ' : (0 : ℝ) < ((μ : Rat) : ℝ) := by exact_mod_cast hμ
        push_cast at this
        exact ⟨fun _ => by linarith, fun _ => by linarith⟩
      · cases h

/-- **`is_diagonally_dominant`, verdict `yes`**: the matrix is square and every row is strictly (`is_strict=True`) resp. weakly
    dominant, with the true moduli over the reals -/
theorem diagDominantV_yes (A : Mat QI) (strict : Bool) (m : Rat) (hm : 0 < m) (h : diagDominantV A strict m = .yes) :
    A.r = A.c ∧ ∀ i, i < A.r → (strict = true → 0 < rowGap A i) ∧ 0 ≤ rowGap A i := by
  rw [diagDominantV_eq] at h
  have hμ : 0 < m * (1 + maxAbs1 A) := mul_pos hm (by linarith [maxAbs1_nonneg A])
  by_cases hsq : isSquare A = true
  · simp only [hsq, Bool.not_true, Bool.false_eq_true, ↓reduceIte] at h
    rw [Verdict.all_yes_iff] at h
    refine ⟨(isSquare_iff' A).mp hsq, fun i hi => ?_⟩
    exact rowVerdict_yes A strict _ hμ i (h _ (List.mem_map.mpr ⟨i, List.mem_range.mpr hi, rfl⟩))
  · simp [hsq] at h

/-- **`is_diagonally_dominant`, verdict `no`**: the matrix is not square, or some row is not strictly dominant (`is_strict=True`)
    resp. not even weakly dominant -/
theorem diagDominantV_no (A : Mat QI) (strict : Bool) (m : Rat) (hm : 0 < m) (h : diagDominantV A strict m = .no) :
    A.r ≠ A.c ∨ ∃ i, i < A.r ∧ (strict = true → rowGap A i ≤ 0) ∧ (strict = false → rowGap A i < 0) := by
  rw [diagDominantV_eq] at h
  have hμ : 0 < m * (1 + maxAbs1 A) := mul_pos hm (by linarith [maxAbs1_nonneg A])
  by_cases hsq : isSquare A = true
  · simp only [hsq, Bool.not_true, Bool.false_eq_true, ↓reduceIte] at h
    rw [Verdict.all_no_iff] at h
    obtain ⟨v, hv, hno⟩ := h
    obtain ⟨i, hi, rfl⟩ := List.mem_map.mp hv
    exact Or.inr ⟨i, List.mem_range.mp hi, rowVerdict_no A strict _ hμ i hno⟩
  · left
    intro heq
    exact hsq ((isSquare_iff' A).mpr heq)

end Toq.MatrixPreds
