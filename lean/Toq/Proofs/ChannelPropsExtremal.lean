import Toq.Proofs.ChannelProps
import Mathlib.LinearAlgebra.Matrix.NonsingularInverse
import Mathlib.LinearAlgebra.Matrix.Hermitian
import Mathlib.Analysis.Matrix.PosDef
/-!
# Choi's characterisation of the extreme points of the set of channels  (helper lemmas for C06)

`IsExtremeChannel Φ` (`Toq/Spec/ChannelProps.lean`): `Φ` is a channel and is not a proper convex combination of two
channels.  For operators `W_1 … W_r` that form a basis of `span{K_i}` (= the operators whose column-stacking vectors
span the column space of the Choi matrix) the theorem `extreme_iff_of_basis` says

    Φ extreme   ⇔   the r² operators W_kᴴ W_l are linearly independent.

Route (Choi 1975; Watrous, Theorem 2.31):
* `factor_through` — a Hermitian `A` that vanishes on `ker Vᴴ` (V with independent columns) is `V M Vᴴ`;
* `ker_of_dominated` — `0 ≤ B ≤ c·A` implies `ker A ⊆ ker B`;
* `ptraceOut_sandwich` — `Tr_out (V M Vᴴ) = (Σ_kl M_kl W_lᴴ W_k)ᵀ`, so trace preservation of two maps with
  coefficient matrices `M`, `M₀` gives `Σ (M - M₀)_kl W_lᴴ W_k = 0`;
* `exists_pos_perturb` — for positive definite `M₀` and Hermitian `H` both `M₀ ± εH` are positive semidefinite for
  some `ε > 0`.
-/
open Toq.ChanPropSpec Matrix
open scoped ComplexOrder

set_option linter.unusedSectionVars false

namespace Toq.ChanPropProofs

section Algebra
variable {N : Type*} [Fintype N] [DecidableEq N] {r : Nat}

/-- Gram matrix of a matrix with independent columns: invertible -/
theorem gram_isUnit_det (V : Matrix N (Fin r) ℂ) (hV : Function.Injective V.mulVec) : IsUnit (Vᴴ * V).det :=
  (Matrix.isUnit_iff_isUnit_det _).mp (Matrix.PosDef.conjTranspose_mul_self V hV).isUnit

theorem gram_inv_hermitian (V : Matrix N (Fin r) ℂ) : ((Vᴴ * V)⁻¹)ᴴ = (Vᴴ * V)⁻¹ :=
  (Matrix.isHermitian_conjTranspose_mul_self V).inv

/-- a matrix is zero when it kills every vector -/
theorem eq_zero_of_mulVec {m n : Type*} [Fintype n] [DecidableEq n] (B : Matrix m n ℂ) (h : ∀ x, B *ᵥ x = 0) : B = 0 := by
  ext i j
  have := congrFun (h (Pi.single j 1)) i
  rwa [Matrix.mulVec_single_one] at this

/-- **Factorisation through the column space.**  If `V` has independent columns and the Hermitian matrix `A`
    vanishes on the kernel of `Vᴴ` (the orthogonal complement of the column space of `V`), then
    `A = V M Vᴴ` with `M = G⁻¹ Vᴴ A V G⁻¹`, `G = VᴴV`. -/
theorem factor_through (V : Matrix N (Fin r) ℂ) (hV : Function.Injective V.mulVec) (A : Matrix N N ℂ)
    (hA : A.IsHermitian) (hker : ∀ y, Vᴴ *ᵥ y = 0 → A *ᵥ y = 0) :
    A = V * ((Vᴴ * V)⁻¹ * Vᴴ * A * V * (Vᴴ * V)⁻¹) * Vᴴ := by
  have hG := gram_isUnit_det V hV
  have hGi := gram_inv_hermitian V
  set G := Vᴴ * V with hGdef
  set P := V * G⁻¹ * Vᴴ with hP
  have hPH : Pᴴ = P := by
    rw [hP, Matrix.conjTranspose_mul, Matrix.conjTranspose_mul, Matrix.conjTranspose_conjTranspose, hGi,
      Matrix.mul_assoc]
  have hVP : Vᴴ * (1 - P) = 0 := by
    rw [Matrix.mul_sub, Matrix.mul_one, hP, ← Matrix.mul_assoc, ← Matrix.mul_assoc, ← hGdef,
      Matrix.mul_nonsing_inv _ hG, Matrix.one_mul, sub_self]
  have hAP : A * (1 - P) = 0 := by
    apply eq_zero_of_mulVec
    intro x
    rw [← Matrix.mulVec_mulVec]
    apply hker
    rw [Matrix.mulVec_mulVec, hVP, Matrix.zero_mulVec]
  have h1 : A = A * P := by
    have := hAP
    rw [Matrix.mul_sub, Matrix.mul_one, sub_eq_zero] at this
    exact this
  have h2 : A = P * A := by
    have := congrArg Matrix.conjTranspose h1
    rwa [Matrix.conjTranspose_mul, hPH, hA.eq] at this
  calc A = P * A := h2
    _ = P * (A * P) := by rw [← h1]
    _ = V * (G⁻¹ * Vᴴ * A * V * G⁻¹) * Vᴴ := by
      rw [hP]; simp only [Matrix.mul_assoc]

/-- **Domination.**  If `B ⪰ 0` and `c·A - B ⪰ 0` then every kernel vector of `A` is a kernel vector of `B`. -/
theorem ker_of_dominated {A B : Matrix N N ℂ} (hB : B.PosSemidef) (c : ℂ) (h : (c • A - B).PosSemidef)
    (y : N → ℂ) (hy : A *ᵥ y = 0) : B *ᵥ y = 0 := by
  rw [← hB.dotProduct_mulVec_zero_iff]
  have h1 := h.dotProduct_mulVec_nonneg y
  have h2 := hB.dotProduct_mulVec_nonneg y
  rw [Matrix.sub_mulVec, Matrix.smul_mulVec, hy, smul_zero, zero_sub, dotProduct_neg] at h1
  exact le_antisymm (neg_nonneg.mp h1) h2

end Algebra

section Perturb
variable {r : Nat}

/-- a Hermitian matrix is bounded: `c·1 ± H ⪰ 0` with `c = Σ_ij |H_ij|` (Gershgorin) -/
theorem hermitian_bounded {H : Matrix (Fin r) (Fin r) ℂ} (hH : H.IsHermitian) :
    ∃ c : ℝ, 0 ≤ c ∧ ((c : ℂ) • (1 : Matrix (Fin r) (Fin r) ℂ) + H).PosSemidef ∧
      ((c : ℂ) • (1 : Matrix (Fin r) (Fin r) ℂ) - H).PosSemidef := by
  refine ⟨∑ i, ∑ j, ‖H i j‖, Finset.sum_nonneg fun i _ => Finset.sum_nonneg fun j _ => norm_nonneg _, ?_, ?_⟩
  all_goals
    set c : ℝ := ∑ i, ∑ j, ‖H i j‖ with hc
    have hrow : ∀ i, ∑ j, ‖H i j‖ ≤ c := fun i =>
      Finset.single_le_sum (f := fun i => ∑ j, ‖H i j‖) (fun i _ => Finset.sum_nonneg fun j _ => norm_nonneg _)
        (Finset.mem_univ i)
    have hsplit : ∀ i, ∑ j ∈ Finset.univ.erase i, ‖H i j‖ + ‖H i i‖ = ∑ j, ‖H i j‖ := fun i =>
      Finset.sum_erase_add _ _ (Finset.mem_univ i)
    have hre : ∀ i, |(H i i).re| ≤ ‖H i i‖ := fun i => Complex.abs_re_le_norm _
  · refine Matrix.posSemidef_of_diagDominant ?_ fun i => ?_
    · exact ((Matrix.isHermitian_one).smul (Complex.conj_ofReal c : IsSelfAdjoint ((c : ℝ) : ℂ)) |>.add hH)
    · have e : ∀ j ∈ Finset.univ.erase i, ‖((c : ℂ) • (1 : Matrix (Fin r) (Fin r) ℂ) + H) i j‖ = ‖H i j‖ := by
        intro j hj
        have : i ≠ j := (Finset.ne_of_mem_erase hj).symm
        simp [this]
      rw [Finset.sum_congr rfl e]
      have : (((c : ℂ) • (1 : Matrix (Fin r) (Fin r) ℂ) + H) i i).re = c + (H i i).re := by simp
      rw [this]
      have := hrow i; have := hsplit i; have := hre i; have := neg_abs_le (H i i).re
      linarith
  · refine Matrix.posSemidef_of_diagDominant ?_ fun i => ?_
    · exact ((Matrix.isHermitian_one).smul (Complex.conj_ofReal c : IsSelfAdjoint ((c : ℝ) : ℂ)) |>.sub hH)
    · have e : ∀ j ∈ Finset.univ.erase i, ‖((c : ℂ) • (1 : Matrix (Fin r) (Fin r) ℂ) - H) i j‖ = ‖H i j‖ := by
        intro j hj
        have : i ≠ j := (Finset.ne_of_mem_erase hj).symm
        simp [this]
      rw [Finset.sum_congr rfl e]
      have : (((c : ℂ) • (1 : Matrix (Fin r) (Fin r) ℂ) - H) i i).re = c - (H i i).re := by simp
      rw [this]
      have := hrow i; have := hsplit i; have := hre i; have := le_abs_self (H i i).re
      linarith

/-- a positive definite matrix dominates a positive multiple of the identity -/
theorem posDef_ge_smul_one {M : Matrix (Fin r) (Fin r) ℂ} (hM : M.PosDef) :
    ∃ δ : ℝ, 0 < δ ∧ (M - (δ : ℂ) • (1 : Matrix (Fin r) (Fin r) ℂ)).PosSemidef := by
  have hH := hM.isHermitian
  obtain ⟨U, lam, hlam, hU, hMe⟩ : ∃ (U : Matrix (Fin r) (Fin r) ℂ) (lam : Fin r → ℝ), (∀ i, 0 < lam i) ∧ U * Uᴴ = 1 ∧
      M = U * diagonal (fun i => (lam i : ℂ)) * Uᴴ := by
    refine ⟨hH.eigenvectorUnitary, hH.eigenvalues, hM.eigenvalues_pos, ?_, ?_⟩
    · rw [← star_eq_conjTranspose]; exact Unitary.coe_mul_star_self _
    · have := hH.spectral_theorem
      rw [Unitary.conjStarAlgAut_apply] at this
      exact this
  set s : ℝ := 1 + ∑ j, (lam j)⁻¹ with hs
  have hspos : 0 < s := by
    have : 0 ≤ ∑ j, (lam j)⁻¹ := Finset.sum_nonneg fun j _ => (inv_pos.mpr (hlam j)).le
    linarith
  have hle : ∀ i, s⁻¹ ≤ lam i := by
    intro i
    have h1 : (lam i)⁻¹ ≤ s := by
      have := Finset.single_le_sum (f := fun j => (lam j)⁻¹) (fun j _ => (inv_pos.mpr (hlam j)).le) (Finset.mem_univ i)
      linarith
    have := inv_anti₀ (inv_pos.mpr (hlam i)) h1
    rwa [inv_inv] at this
  refine ⟨s⁻¹, inv_pos.mpr hspos, ?_⟩
  have key : M - ((s⁻¹ : ℝ) : ℂ) • (1 : Matrix (Fin r) (Fin r) ℂ)
      = U * diagonal (fun i => ((lam i - s⁻¹ : ℝ) : ℂ)) * Uᴴ := by
    have hd : diagonal (fun i => ((lam i - s⁻¹ : ℝ) : ℂ))
        = diagonal (fun i => (lam i : ℂ)) - ((s⁻¹ : ℝ) : ℂ) • (1 : Matrix (Fin r) (Fin r) ℂ) := by
      ext i j
      by_cases h : i = j
      · subst h; simp
      · simp [h]
    rw [hd, Matrix.mul_sub, Matrix.sub_mul, ← hMe, Matrix.mul_smul, Matrix.mul_one, Matrix.smul_mul, hU]
  rw [key]
  apply PosSemidef.mul_mul_conjTranspose_same
  apply PosSemidef.diagonal
  intro i
  simp only [Pi.zero_apply, Complex.zero_le_real, sub_nonneg]
  exact hle i

/-- **Small Hermitian perturbations of a positive definite matrix stay positive semidefinite.** -/
theorem exists_pos_perturb {M₀ H : Matrix (Fin r) (Fin r) ℂ} (hM : M₀.PosDef) (hH : H.IsHermitian) :
    ∃ ε : ℝ, 0 < ε ∧ (M₀ + (ε : ℂ) • H).PosSemidef ∧ (M₀ - (ε : ℂ) • H).PosSemidef := by
  obtain ⟨c, hc0, hcp, hcm⟩ := hermitian_bounded hH
  obtain ⟨δ, hδ, hMδ⟩ := posDef_ge_smul_one hM
  have hc1 : 0 < c + 1 := by linarith
  set ε : ℝ := δ / (c + 1) with hε
  have hεpos : 0 < ε := div_pos hδ hc1
  have hεc : ((ε : ℂ) * (c : ℂ)) + (ε : ℂ) = (δ : ℂ) := by
    have : ε * c + ε = δ := by rw [hε]; field_simp
    exact_mod_cast this
  have hε0 : (0 : ℂ) ≤ (ε : ℂ) := Complex.zero_le_real.mpr hεpos.le
  have hI : ((ε : ℂ) • (1 : Matrix (Fin r) (Fin r) ℂ)).PosSemidef := PosSemidef.one.smul hε0
  refine ⟨ε, hεpos, ?_, ?_⟩
  · have e : M₀ + (ε : ℂ) • H = (M₀ - (δ : ℂ) • (1 : Matrix (Fin r) (Fin r) ℂ))
        + ((ε : ℂ) • ((c : ℂ) • (1 : Matrix (Fin r) (Fin r) ℂ) + H) + (ε : ℂ) • (1 : Matrix (Fin r) (Fin r) ℂ)) := by
      rw [← hεc, smul_add, smul_smul, add_smul]; abel
    rw [e]
    exact hMδ.add ((hcp.smul hε0).add hI)
  · have e : M₀ - (ε : ℂ) • H = (M₀ - (δ : ℂ) • (1 : Matrix (Fin r) (Fin r) ℂ))
        + ((ε : ℂ) • ((c : ℂ) • (1 : Matrix (Fin r) (Fin r) ℂ) - H) + (ε : ℂ) • (1 : Matrix (Fin r) (Fin r) ℂ)) := by
      rw [← hεc, smul_sub, smul_smul, add_smul]; abel
    rw [e]
    exact hMδ.add ((hcm.smul hε0).add hI)

end Perturb

/-! ## the column space of a Hermitian matrix from `rank` many independent vectors in it -/
section ColSpace
variable {N : Type*} [Fintype N] [DecidableEq N] {r : Nat}

theorem rank_of_injective (V : Matrix N (Fin r) ℂ) (hV : Function.Injective V.mulVec) : V.rank = r := by
  have h : Function.Injective V.mulVecLin := by simpa [Matrix.coe_mulVecLin] using hV
  have := LinearMap.finrank_range_of_inj h
  simpa [Matrix.rank] using this

/-- If the `r = rank J` independent columns of `V` lie in the column space of the Hermitian matrix `J`
    (`V = J·C`), they span it; hence `J` vanishes on the kernel of `Vᴴ`. -/
theorem ker_of_colspace (J : Matrix N N ℂ) (hJ : J.IsHermitian) (V : Matrix N (Fin r) ℂ)
    (hV : Function.Injective V.mulVec) (Cc : Matrix N (Fin r) ℂ) (hcol : V = J * Cc) (hr : J.rank = r) :
    ∀ y, Vᴴ *ᵥ y = 0 → J *ᵥ y = 0 := by
  have hle : LinearMap.range V.mulVecLin ≤ LinearMap.range J.mulVecLin := by
    rw [hcol, Matrix.mulVecLin_mul]
    exact LinearMap.range_comp_le_range _ _
  have hfr : Module.finrank ℂ (LinearMap.range V.mulVecLin) = Module.finrank ℂ (LinearMap.range J.mulVecLin) := by
    have h1 : Module.finrank ℂ (LinearMap.range V.mulVecLin) = V.rank := rfl
    have h2 : Module.finrank ℂ (LinearMap.range J.mulVecLin) = J.rank := rfl
    rw [h1, h2, rank_of_injective V hV, hr]
  have heq := Submodule.eq_of_le_of_finrank_eq hle hfr
  have hex : ∀ q : N, ∃ c : Fin r → ℂ, V *ᵥ c = J *ᵥ Pi.single q 1 := by
    intro q
    have : J *ᵥ Pi.single q 1 ∈ LinearMap.range J.mulVecLin := ⟨Pi.single q 1, rfl⟩
    rw [← heq] at this
    obtain ⟨c, hc⟩ := this
    exact ⟨c, hc⟩
  choose cq hcq using hex
  have hJV : J = V * Matrix.of (fun k q => cq q k) := by
    ext p q
    have := congrFun (hcq q) p
    rw [Matrix.mulVec_single_one] at this
    rw [Matrix.mul_apply]
    simpa [Matrix.mulVec, dotProduct, Matrix.col] using this.symm
  intro y hy
  have : J = (Matrix.of (fun k q => cq q k))ᴴ * Vᴴ := by
    conv_lhs => rw [← hJ.eq, hJV, Matrix.conjTranspose_mul]
  rw [this, ← Matrix.mulVec_mulVec, hy, Matrix.mulVec_zero]

end ColSpace

/-! ## Choi's theorem on the level of Choi matrices -/
section Channel
variable {di dO r : Nat}

/-- the matrix whose columns are the column-stacking vectors `vec(W_k)` -/
def vecMat (W : Fin r → Matrix (Fin dO) (Fin di) ℂ) : Matrix (Fin di × Fin dO) (Fin r) ℂ := fun p k => W k p.2 p.1

/-- `Σ_kl M_kl · W_lᴴ W_k` -/
def prodSum (W : Fin r → Matrix (Fin dO) (Fin di) ℂ) (M : Matrix (Fin r) (Fin r) ℂ) : Matrix (Fin di) (Fin di) ℂ :=
  ∑ k, ∑ l, M k l • ((W l)ᴴ * W k)

theorem prodSum_add (W : Fin r → Matrix (Fin dO) (Fin di) ℂ) (M M' : Matrix (Fin r) (Fin r) ℂ) :
    prodSum W (M + M') = prodSum W M + prodSum W M' := by
  simp only [prodSum, Matrix.add_apply, add_smul, Finset.sum_add_distrib]

theorem prodSum_smul (W : Fin r → Matrix (Fin dO) (Fin di) ℂ) (c : ℂ) (M : Matrix (Fin r) (Fin r) ℂ) :
    prodSum W (c • M) = c • prodSum W M := by
  simp only [prodSum, Matrix.smul_apply, smul_eq_mul, mul_smul, Finset.smul_sum]

theorem prodSum_sub (W : Fin r → Matrix (Fin dO) (Fin di) ℂ) (M M' : Matrix (Fin r) (Fin r) ℂ) :
    prodSum W (M - M') = prodSum W M - prodSum W M' := by
  simp only [prodSum, Matrix.sub_apply, sub_smul, Finset.sum_sub_distrib]

theorem prodSum_conjTranspose (W : Fin r → Matrix (Fin dO) (Fin di) ℂ) (M : Matrix (Fin r) (Fin r) ℂ) :
    prodSum W Mᴴ = (prodSum W M)ᴴ := by
  simp only [prodSum, Matrix.conjTranspose_sum, Matrix.conjTranspose_smul, Matrix.conjTranspose_mul,
    Matrix.conjTranspose_conjTranspose, Matrix.conjTranspose_apply]
  rw [Finset.sum_comm]

theorem prodSum_one (W : Fin r → Matrix (Fin dO) (Fin di) ℂ) : prodSum W 1 = ∑ k, (W k)ᴴ * W k := by
  unfold prodSum
  refine Finset.sum_congr rfl fun k _ => ?_
  rw [Finset.sum_eq_single k]
  · simp
  · intro l _ hl; simp [Matrix.one_apply_ne hl.symm]
  · simp

/-- `Tr_out (V M Vᴴ) = (Σ_kl M_kl W_lᴴ W_k)ᵀ` -/
theorem ptraceOut_sandwich (W : Fin r → Matrix (Fin dO) (Fin di) ℂ) (M : Matrix (Fin r) (Fin r) ℂ) :
    ptraceOut (vecMat W * M * (vecMat W)ᴴ) = (prodSum W M)ᵀ := by
  ext i j
  simp only [ptraceOut, Matrix.transpose_apply, prodSum, Matrix.sum_apply, Matrix.smul_apply, smul_eq_mul,
    Matrix.mul_apply, Matrix.conjTranspose_apply, vecMat, Finset.sum_mul, Finset.mul_sum]
  rw [Finset.sum_comm]
  rw [Finset.sum_congr rfl fun l _ => Finset.sum_comm]
  rw [Finset.sum_comm]
  refine Finset.sum_congr rfl fun k _ => Finset.sum_congr rfl fun l _ => Finset.sum_congr rfl fun a _ => ?_
  ring

theorem vecMat_mulVec (W : Fin r → Matrix (Fin dO) (Fin di) ℂ) (x : Fin r → ℂ) :
    vecMat W *ᵥ x = kvec (∑ k, x k • W k) := by
  funext p
  simp only [Matrix.mulVec, dotProduct, vecMat, kvec, Matrix.sum_apply, Matrix.smul_apply, smul_eq_mul, mul_comm]

theorem kvec_injective : Function.Injective (kvec : Matrix (Fin dO) (Fin di) ℂ → Fin di × Fin dO → ℂ) := by
  intro A B h
  ext a i
  exact congrFun h (i, a)

theorem vecMat_injective (W : Fin r → Matrix (Fin dO) (Fin di) ℂ) (hLI : LinearIndependent ℂ W) :
    Function.Injective (vecMat W).mulVec := by
  intro x y hxy
  have h0 : vecMat W *ᵥ (x - y) = 0 := by rw [Matrix.mulVec_sub, hxy, sub_self]
  rw [vecMat_mulVec] at h0
  have h1 : ∑ k, (x - y) k • W k = 0 := kvec_injective (by rw [h0]; rfl)
  have := Fintype.linearIndependent_iff.mp hLI (x - y) h1
  funext k
  exact sub_eq_zero.mp (this k)

/-- linear independence of the `r²` products `W_lᴴ W_k`, in terms of coefficient matrices -/
theorem linearIndependent_products_iff (W : Fin r → Matrix (Fin dO) (Fin di) ℂ) :
    LinearIndependent ℂ (fun p : Fin r × Fin r => (W p.1)ᴴ * W p.2) ↔ ∀ M, prodSum W M = 0 → M = 0 := by
  have key : ∀ g : Fin r × Fin r → ℂ, ∑ p, g p • ((W p.1)ᴴ * W p.2) = prodSum W (fun k l => g (l, k)) := by
    intro g
    rw [Fintype.sum_prod_type, Finset.sum_comm]
    rfl
  rw [Fintype.linearIndependent_iff]
  constructor
  · intro h M hM
    have := h (fun p => M p.2 p.1) (by rw [key]; exact hM)
    ext k l
    exact this (l, k)
  · intro h g hg
    rw [key] at hg
    have := h _ hg
    intro p
    exact congrFun (congrFun this p.2) p.1

section Main
variable (V : Matrix (Fin di × Fin dO) (Fin r) ℂ) (hV : Function.Injective V.mulVec)
include hV

theorem left_cancel {m : Type*} (X Y : Matrix (Fin r) m ℂ) (h : V * X = V * Y) : X = Y := by
  have hG := gram_isUnit_det V hV
  have := congrArg (fun Z => (Vᴴ * V)⁻¹ * (Vᴴ * Z)) h
  simp only [← Matrix.mul_assoc] at this
  rwa [Matrix.mul_assoc _ Vᴴ V, Matrix.nonsing_inv_mul _ hG, Matrix.one_mul, Matrix.one_mul] at this

theorem sandwich_injective (M M' : Matrix (Fin r) (Fin r) ℂ) (h : V * M * Vᴴ = V * M' * Vᴴ) : M = M' := by
  have h1 : V * (M * Vᴴ) = V * (M' * Vᴴ) := by simpa only [Matrix.mul_assoc] using h
  have h2 := left_cancel V hV _ _ h1
  have h3 := congrArg Matrix.conjTranspose h2
  simp only [Matrix.conjTranspose_mul, Matrix.conjTranspose_conjTranspose] at h3
  have h4 := left_cancel V hV _ _ h3
  simpa using congrArg Matrix.conjTranspose h4

end Main

/-- core of the direction (⇐): a channel whose kernel contains the kernel of `J = V M₀ Vᴴ` equals `J` when the
    products are independent -/
theorem choi_eq_of_ker_le (W : Fin r → Matrix (Fin dO) (Fin di) ℂ) (hV : Function.Injective (vecMat W).mulVec)
    (hprod : ∀ M, prodSum W M = 0 → M = 0) (J J' : TMat di dO) (M₀ : Matrix (Fin r) (Fin r) ℂ)
    (hJfac : J = vecMat W * M₀ * (vecMat W)ᴴ) (hJ : IsChoiChannel J) (hJ' : IsChoiChannel J')
    (hker : ∀ y, (vecMat W)ᴴ *ᵥ y = 0 → J' *ᵥ y = 0) : J' = J := by
  have hfac := factor_through (vecMat W) hV J' hJ'.1.isHermitian hker
  set M := ((vecMat W)ᴴ * vecMat W)⁻¹ * (vecMat W)ᴴ * J' * vecMat W * ((vecMat W)ᴴ * vecMat W)⁻¹ with hM
  have h1 : (prodSum W M)ᵀ = 1 := by rw [← ptraceOut_sandwich, ← hfac]; exact hJ'.2
  have h0 : (prodSum W M₀)ᵀ = 1 := by rw [← ptraceOut_sandwich, ← hJfac]; exact hJ.2
  have hd : prodSum W (M - M₀) = 0 := by
    rw [prodSum_sub, sub_eq_zero]
    have := h1.trans h0.symm
    exact Matrix.transpose_injective this
  have := sub_eq_zero.mp (hprod _ hd)
  rw [hfac, hJfac, this]

/-- **Choi's theorem, Choi-matrix form.**  Let `J ⪰ 0`, `Tr_out J = 1`, and let `W_1 … W_r` be linearly independent operators
    whose column-stacking vectors lie in the column space of `J` (`V = J·C`), `r = rank J`.  Then `J` is an extreme point of
    the set of Choi matrices of channels iff the `r²` operators `W_kᴴ W_l` are linearly independent. -/
theorem choiExtreme_iff_of_basis (J : TMat di dO) (hJ : IsChoiChannel J) (W : Fin r → Matrix (Fin dO) (Fin di) ℂ)
    (hLI : LinearIndependent ℂ W) (Cc : Matrix (Fin di × Fin dO) (Fin r) ℂ) (hcol : vecMat W = J * Cc)
    (hr : J.rank = r) :
    IsChoiExtreme J ↔ LinearIndependent ℂ (fun p : Fin r × Fin r => (W p.1)ᴴ * W p.2) := by
  rw [linearIndependent_products_iff]
  have hV := vecMat_injective W hLI
  have hG := gram_isUnit_det (vecMat W) hV
  have hGi := gram_inv_hermitian (vecMat W)
  have hkerJ := ker_of_colspace J hJ.1.isHermitian (vecMat W) hV Cc hcol hr
  have hJfac := factor_through (vecMat W) hV J hJ.1.isHermitian hkerJ
  set V := vecMat W with hVdef
  set M₀ := (Vᴴ * V)⁻¹ * Vᴴ * J * V * (Vᴴ * V)⁻¹ with hM₀
  have hT₀ : prodSum W M₀ = 1 := by
    have h0 : (prodSum W M₀)ᵀ = 1 := by rw [← ptraceOut_sandwich, ← hJfac]; exact hJ.2
    exact Matrix.transpose_injective (h0.trans Matrix.transpose_one.symm)
  constructor
  · -- (⇒)
    intro hext
    -- M₀ is positive definite
    have hM₀psd : M₀.PosSemidef := by
      have := hJ.1.mul_mul_conjTranspose_same ((Vᴴ * V)⁻¹ * Vᴴ)
      rw [Matrix.conjTranspose_mul, Matrix.conjTranspose_conjTranspose, hGi] at this
      rw [hM₀]
      simpa only [Matrix.mul_assoc] using this
    have hM₀unit : IsUnit M₀ := by
      have e : V * (1 : Matrix (Fin r) (Fin r) ℂ) = V * (M₀ * (Vᴴ * Cc)) := by
        rw [Matrix.mul_one]
        conv_lhs => rw [hcol, hJfac]
        simp only [Matrix.mul_assoc]
      have h1 := left_cancel V hV _ _ e
      exact ⟨⟨M₀, Vᴴ * Cc, h1.symm, mul_eq_one_comm.mp h1.symm⟩, rfl⟩
    have hM₀pd : M₀.PosDef := hM₀psd.posDef_iff_isUnit.mpr hM₀unit
    -- Hermitian relations vanish
    have hHerm : ∀ H : Matrix (Fin r) (Fin r) ℂ, H.IsHermitian → prodSum W H = 0 → H = 0 := by
      intro H hH hH0
      obtain ⟨ε, hε, hp, hm⟩ := exists_pos_perturb hM₀pd hH
      have hch : ∀ M : Matrix (Fin r) (Fin r) ℂ, M.PosSemidef → prodSum W M = 1 → IsChoiChannel (V * M * Vᴴ) :=
        fun M hM hT => ⟨hM.mul_mul_conjTranspose_same V, by rw [ptraceOut_sandwich, hT, Matrix.transpose_one]⟩
      have hp' := hch _ hp (by rw [prodSum_add, prodSum_smul, hH0, smul_zero, add_zero, hT₀])
      have hm' := hch _ hm (by rw [prodSum_sub, prodSum_smul, hH0, smul_zero, sub_zero, hT₀])
      have hhalf : ((1 - 1 / 2 : ℝ) : ℂ) = ((1 / 2 : ℝ) : ℂ) := by norm_num
      have hmid : J = ((1 / 2 : ℝ) : ℂ) • (V * (M₀ + (ε : ℂ) • H) * Vᴴ)
          + ((1 - 1 / 2 : ℝ) : ℂ) • (V * (M₀ - (ε : ℂ) • H) * Vᴴ) := by
        rw [hhalf, ← smul_add, Matrix.mul_add, Matrix.add_mul, Matrix.mul_sub, Matrix.sub_mul, ← hJfac,
          add_add_sub_cancel, ← two_smul ℂ J, smul_smul]
        norm_num
      have h1 := (hext.2 _ _ (1 / 2) hp' hm' (by norm_num) (by norm_num) hmid).1
      have h2 : V * (M₀ + (ε : ℂ) • H) * Vᴴ = V * M₀ * Vᴴ := by rw [h1]; exact hJfac
      have h3 := sandwich_injective V hV _ _ h2
      have h4 : (ε : ℂ) • H = 0 := by simpa using h3
      rcases smul_eq_zero.mp h4 with h | h
      · exact absurd (Complex.ofReal_eq_zero.mp h) hε.ne'
      · exact h
    intro M hM
    have hMH : prodSum W Mᴴ = 0 := by rw [prodSum_conjTranspose, hM, Matrix.conjTranspose_zero]
    have h1 : M + Mᴴ = 0 :=
      hHerm _ (by rw [Matrix.IsHermitian, Matrix.conjTranspose_add, Matrix.conjTranspose_conjTranspose, add_comm])
        (by rw [prodSum_add, hM, hMH, add_zero])
    have h2 : Complex.I • (M - Mᴴ) = 0 :=
      hHerm _ (by
        rw [Matrix.IsHermitian, Matrix.conjTranspose_smul, Matrix.conjTranspose_sub, Matrix.conjTranspose_conjTranspose,
          Complex.star_def, Complex.conj_I, neg_smul, ← smul_neg, neg_sub])
        (by rw [prodSum_smul, prodSum_sub, hM, hMH, sub_zero, smul_zero])
    have h3 : M - Mᴴ = 0 := (smul_eq_zero.mp h2).resolve_left Complex.I_ne_zero
    have h4 : (2 : ℂ) • M = 0 := by
      have := congrArg₂ (· + ·) h1 h3
      simp only [add_zero] at this
      rw [two_smul, ← this]; abel
    exact (smul_eq_zero.mp h4).resolve_left two_ne_zero
  · -- (⇐)
    intro hprod
    refine ⟨hJ, fun J₀ J₁ t h0 h1 ht0 ht1 hc => ?_⟩
    have htne : (t : ℂ) ≠ 0 := Complex.ofReal_ne_zero.mpr ht0.ne'
    have ht1' : 0 < 1 - t := by linarith
    have hsne : ((1 - t : ℝ) : ℂ) ≠ 0 := Complex.ofReal_ne_zero.mpr ht1'.ne'
    constructor
    · apply choi_eq_of_ker_le W hV hprod J J₀ M₀ hJfac hJ h0
      intro y hy
      refine ker_of_dominated h0.1 ((t : ℂ)⁻¹) ?_ y (hkerJ y hy)
      have e : (t : ℂ)⁻¹ • J - J₀ = ((t⁻¹ * (1 - t) : ℝ) : ℂ) • J₁ := by
        rw [hc, smul_add, smul_smul, smul_smul, inv_mul_cancel₀ htne, one_smul, add_sub_cancel_left]
        push_cast; rfl
      rw [e]
      exact h1.1.smul (Complex.zero_le_real.mpr (mul_nonneg (inv_pos.mpr ht0).le ht1'.le))
    · apply choi_eq_of_ker_le W hV hprod J J₁ M₀ hJfac hJ h1
      intro y hy
      refine ker_of_dominated h1.1 (((1 - t : ℝ) : ℂ)⁻¹) ?_ y (hkerJ y hy)
      have e : ((1 - t : ℝ) : ℂ)⁻¹ • J - J₁ = (((1 - t)⁻¹ * t : ℝ) : ℂ) • J₀ := by
        rw [hc, smul_add, smul_smul, smul_smul, inv_mul_cancel₀ hsne, one_smul, add_sub_cancel_right]
        push_cast; rfl
      rw [e]
      exact h0.1.smul (Complex.zero_le_real.mpr (mul_nonneg (inv_pos.mpr ht1').le ht0.le))

end Channel

/-! ## Kraus form -/
section Kraus
variable {di dO r : Nat}

theorem choi_krausMap_eq (K : Fin r → Matrix (Fin dO) (Fin di) ℂ) :
    choi (krausMap K) = vecMat K * (vecMat K)ᴴ := by
  ext ⟨i, a⟩ ⟨j, b⟩
  rw [choi_krausMap_apply, Matrix.mul_apply]
  rfl

theorem isChoiChannel_kraus (K : Fin r → Matrix (Fin dO) (Fin di) ℂ) (hTP : ∑ k, (K k)ᴴ * K k = 1) :
    IsChoiChannel (vecMat K * (vecMat K)ᴴ) := by
  refine ⟨Matrix.posSemidef_self_mul_conjTranspose _, ?_⟩
  have := ptraceOut_sandwich K 1
  rw [Matrix.mul_one] at this
  rw [this, prodSum_one, hTP, Matrix.transpose_one]

/-- **Choi's theorem, Kraus form** (on the Choi matrix `Σ vec K_k vec K_kᴴ`). -/
theorem choiExtreme_kraus_iff (K : Fin r → Matrix (Fin dO) (Fin di) ℂ) (hLI : LinearIndependent ℂ K)
    (hTP : ∑ k, (K k)ᴴ * K k = 1) :
    IsChoiExtreme (vecMat K * (vecMat K)ᴴ) ↔ LinearIndependent ℂ (fun p : Fin r × Fin r => (K p.1)ᴴ * K p.2) := by
  have hV := vecMat_injective K hLI
  have hG := gram_isUnit_det (vecMat K) hV
  refine choiExtreme_iff_of_basis _ (isChoiChannel_kraus K hTP) K hLI (vecMat K * ((vecMat K)ᴴ * vecMat K)⁻¹) ?_ ?_
  · rw [Matrix.mul_assoc, ← Matrix.mul_assoc (vecMat K)ᴴ, Matrix.mul_nonsing_inv _ hG, Matrix.mul_one]
  · rw [Matrix.rank_self_mul_conjTranspose, rank_of_injective _ hV]

/-- independent products force independent operators -/
theorem linearIndependent_of_products (W : Fin r → Matrix (Fin dO) (Fin di) ℂ)
    (h : LinearIndependent ℂ (fun p : Fin r × Fin r => (W p.1)ᴴ * W p.2)) : LinearIndependent ℂ W := by
  rw [Fintype.linearIndependent_iff] at h ⊢
  intro g hg k
  have := h (fun p => if p.1 = k then g p.2 else 0) (by
    rw [Fintype.sum_prod_type, Finset.sum_eq_single k]
    · simp only [if_true]
      rw [show ∑ x, g x • ((W k)ᴴ * W x) = (W k)ᴴ * ∑ x, g x • W x by
        rw [Matrix.mul_sum]; exact Finset.sum_congr rfl fun x _ => (Matrix.mul_smul _ _ _).symm]
      rw [hg, Matrix.mul_zero]
    · intro l _ hl; simp [hl]
    · simp) (k, k)
  simpa using this

end Kraus

/-! ## the executable procedures -/
section Model
open Toq.ChannelProps Toq.Rank Toq.ChannelOps

theorem toC_sumN (f : Nat → QI) : ∀ n, (sumN n f).toC = sumN n (fun k => (f k).toC)
  | 0 => QI.toC_zero
  | n + 1 => by rw [sumN, sumN, QI.toC_add, toC_sumN f n]

/-- row-major flattening of a square matrix -/
def flatL (d : Nat) : Matrix (Fin d) (Fin d) ℂ →ₗ[ℂ] (Fin (d * d) → ℂ) where
  toFun M := fun f => M (finProdFinEquiv.symm f).1 (finProdFinEquiv.symm f).2
  map_add' _ _ := rfl
  map_smul' _ _ := rfl

theorem flatL_ker (d : Nat) : LinearMap.ker (flatL d) = ⊥ := by
  rw [LinearMap.ker_eq_bot]
  intro A B h
  ext i j
  have := congrFun h (finProdFinEquiv (i, j))
  change A (finProdFinEquiv.symm (finProdFinEquiv (i, j))).1 (finProdFinEquiv.symm (finProdFinEquiv (i, j))).2
    = B (finProdFinEquiv.symm (finProdFinEquiv (i, j))).1 (finProdFinEquiv.symm (finProdFinEquiv (i, j))).2 at this
  rwa [Equiv.symm_apply_apply] at this

theorem adjMulEntry_toC (di dO : Nat) (W W' : Nat → Nat → QI) (f : Fin (di * di)) :
    (adjMulEntry di dO W W' f.val).toC = flatL di ((fnToM dO di W)ᴴ * fnToM dO di W') f := by
  unfold adjMulEntry
  rw [toC_sumN, sumN_eq_sum_fin]
  simp only [QI.toC_mul, QI.toC_conj]
  rfl

/-- **the rank test on the rows `W_kᴴ W_l` decides their linear independence** -/
theorem prodRows_rank_iff (di dO : Nat) (Ws : List (Nat → Nat → QI)) :
    rankQ (Ws.length * Ws.length) (di * di) (prodRows di dO Ws) = Ws.length * Ws.length ↔
    LinearIndependent ℂ (fun p : Fin Ws.length × Fin Ws.length => (fnToM dO di Ws[p.1])ᴴ * fnToM dO di Ws[p.2]) := by
  unfold rankQ
  rw [rankFn_eq_rank, ← linearIndependent_row_iff_rank]
  have hrow : (fnToM (Ws.length * Ws.length) (di * di) (prodRows di dO Ws).get).row
      = (fun p : Fin Ws.length × Fin Ws.length => flatL di ((fnToM dO di Ws[p.1])ᴴ * fnToM dO di Ws[p.2]))
          ∘ finProdFinEquiv.symm := by
    funext t
    funext f
    simp only [Matrix.row, fnToM, Function.comp]
    unfold prodRows
    rw [QM.get_ofFn _ _ _ _ _ t.isLt f.isLt, adjMulEntry_toC]
    have h1 : t.val / Ws.length < Ws.length := (finProdFinEquiv.symm t).1.isLt
    have h2 : t.val % Ws.length < Ws.length := (finProdFinEquiv.symm t).2.isLt
    rw [List.getD_eq_getElem _ _ h1, List.getD_eq_getElem _ _ h2]
    rfl
  rw [hrow, linearIndependent_equiv finProdFinEquiv.symm]
  exact (flatL di).linearIndependent_iff (flatL_ker di)

/-- reading a `dO × di` operator off a vector over the pair index `i·dO + a` -/
def unflatL (di dO : Nat) : (Fin (di * dO) → ℂ) →ₗ[ℂ] Matrix (Fin dO) (Fin di) ℂ where
  toFun v := fun a i => v (finProdFinEquiv (i, a))
  map_add' _ _ := rfl
  map_smul' _ _ := rfl

theorem unflatL_ker (di dO : Nat) : LinearMap.ker (unflatL di dO) = ⊥ := by
  rw [LinearMap.ker_eq_bot]
  intro u v h
  funext p
  have := congrFun (congrFun h (finProdFinEquiv.symm p).2) (finProdFinEquiv.symm p).1
  change u (finProdFinEquiv ((finProdFinEquiv.symm p).1, (finProdFinEquiv.symm p).2))
    = v (finProdFinEquiv ((finProdFinEquiv.symm p).1, (finProdFinEquiv.symm p).2)) at this
  rwa [Prod.mk.eta, Equiv.apply_symm_apply] at this

theorem finProdFinEquiv_val {m n : Nat} (i : Fin m) (a : Fin n) : (finProdFinEquiv (i, a)).val = i.val * n + a.val := by
  simp [finProdFinEquiv, Nat.mul_comm, Nat.add_comm]

/-- entries of the rows handed to the rank routine by `report` -/
theorem toQM_get (c : ChoiForm) (p q : Nat) (hp : p < c.di * c.dO) (hq : q < c.di * c.dO) :
    c.toQM.get p q = c.J.get ⟨p, hp⟩ ⟨q, hq⟩ := by
  unfold ChoiForm.toQM
  rw [QM.get_ofFn _ _ _ _ _ hp hq, dif_pos ⟨hp, hq⟩]

/-- **`extremalDecide` decides extremality** (Choi-matrix form): for the exact Choi matrix of a channel the answer
    is `true` exactly when the denoted Choi matrix is an extreme point of the Choi matrices of channels. -/
theorem extremalDecide_iff_choiExtreme (c : ChoiForm) (hJ : IsChoiChannel (toChoi c.J)) :
    extremalDecide c.di c.dO c.toQM = true ↔ IsChoiExtreme (toChoi c.J) := by
  unfold extremalDecide
  simp only [beq_iff_eq]
  set N := c.di * c.dO with hN
  set piv := pivotCols N N c.toQM with hpiv
  set Ws := piv.map (unvecCol c.di c.dO c.toQM) with hWs
  have hlen : Ws.length = piv.length := List.length_map _
  rw [← hlen, prodRows_rank_iff]
  have hlt : ∀ k : Fin Ws.length, piv[k.val]'(hlen ▸ k.isLt) < N := fun k =>
    pivotsFn_lt N N c.toQM.get _ (List.getElem_mem _)
  have hWk : ∀ k : Fin Ws.length, Ws[k] = unvecCol c.di c.dO c.toQM (piv[k.val]'(hlen ▸ k.isLt)) := fun k =>
    List.getElem_map _
  -- the operators are linearly independent
  have hLI : LinearIndependent ℂ (fun k : Fin Ws.length => fnToM c.dO c.di Ws[k]) := by
    have h0 := pivotsFn_linearIndependent N N c.toQM.get
    have h1 := h0.comp (Fin.cast hlen) (Fin.cast_injective hlen)
    have h2 := h1.map' (unflatL c.di c.dO) (unflatL_ker c.di c.dO)
    have e : (fun k : Fin Ws.length => fnToM c.dO c.di Ws[k])
        = ⇑(unflatL c.di c.dO) ∘ (fun t i => (c.toQM.get (↑i) (pivotsFn N N c.toQM.get)[↑t]).toC) ∘ Fin.cast hlen := by
      funext k
      ext a i
      simp only [Function.comp, fnToM]
      rw [hWk k]
      simp only [unvecCol]
      show _ = (c.toQM.get (finProdFinEquiv (i, a)).val _).toC
      rw [finProdFinEquiv_val]
      rfl
    rw [e]
    exact h2
  refine (choiExtreme_iff_of_basis (toChoi c.J) hJ (fun k : Fin Ws.length => fnToM c.dO c.di Ws[k]) hLI
    (Matrix.of fun p k => if p = finProdFinEquiv.symm ⟨piv[k.val]'(hlen ▸ k.isLt), hlt k⟩ then 1 else 0) ?_ ?_).symm
  · -- the operators are columns of J
    ext ⟨i, a⟩ k
    rw [Matrix.mul_apply, Finset.sum_eq_single (finProdFinEquiv.symm ⟨piv[k.val]'(hlen ▸ k.isLt), hlt k⟩)]
    · rw [Matrix.of_apply, if_pos rfl, mul_one]
      simp only [vecMat, fnToM, toChoi]
      rw [hWk k]
      simp only [unvecCol]
      rw [toQM_get c _ _ (by
        have := (finProdFinEquiv (i, a)).isLt
        rwa [finProdFinEquiv_val] at this) (hlt k)]
      congr 2
      rw [pairIdx_eq, Prod.mk.eta, Equiv.apply_symm_apply]
    · intro p _ hp; rw [Matrix.of_apply, if_neg hp, mul_zero]
    · intro h; exact absurd (Finset.mem_univ _) h
  · -- there are rank J of them
    rw [rank_toChoi, ← qmToM_toQM, hlen]
    exact (pivotsFn_length N N c.toQM.get).symm

/-- a single operator with `KᴴK = 1` on a non-trivial space: the one product is independent -/
theorem products_independent_of_single {di dO r : Nat} (K : Fin r → Matrix (Fin dO) (Fin di) ℂ) (hr : r = 1) (hd : 0 < di)
    (hTP : ∑ k, (K k)ᴴ * K k = 1) : LinearIndependent ℂ (fun p : Fin r × Fin r => (K p.1)ᴴ * K p.2) := by
  subst hr
  have : Nonempty (Fin di) := ⟨⟨0, hd⟩⟩
  rw [linearIndependent_products_iff]
  intro M hM
  rw [Fin.sum_univ_one] at hTP
  have h2 : prodSum K M = M 0 0 • 1 := by
    unfold prodSum
    rw [Fin.sum_univ_one, Fin.sum_univ_one, hTP]
  rw [h2] at hM
  have h3 : M 0 0 = 0 := (smul_eq_zero.mp hM).resolve_right one_ne_zero
  ext k l
  rw [Subsingleton.elim k 0, Subsingleton.elim l 0, h3]
  rfl

/-- **`is_extremal`'s procedure on an independent Kraus list is Choi's criterion.** -/
theorem extremalAsCoded_iff_choiExtreme (di dO : Nat) (Ks : List (Nat → Nat → QI)) (hd : 0 < di)
    (hLI : LinearIndependent ℂ (fun k : Fin Ks.length => fnToM dO di Ks[k]))
    (hTP : ∑ k : Fin Ks.length, (fnToM dO di Ks[k])ᴴ * fnToM dO di Ks[k] = 1) :
    extremalAsCoded di dO Ks = true ↔
      IsChoiExtreme (vecMat (fun k : Fin Ks.length => fnToM dO di Ks[k])
        * (vecMat (fun k : Fin Ks.length => fnToM dO di Ks[k]))ᴴ) := by
  rw [choiExtreme_kraus_iff _ hLI hTP]
  unfold extremalAsCoded
  by_cases hr : Ks.length = 1
  · have hb : (Ks.length == 1) = true := by simpa using hr
    simp only [hb, if_true, true_iff]
    exact products_independent_of_single (fun k : Fin Ks.length => fnToM dO di Ks[k]) hr hd hTP
  · have hb : (Ks.length == 1) = false := by simpa using hr
    simp only [hb, Bool.false_eq_true, if_false, beq_iff_eq]
    exact prodRows_rank_iff di dO Ks

/-- **A linearly dependent Kraus list of two or more operators is always answered `false`** by `is_extremal`'s
    procedure, whatever the channel. -/
theorem extremalAsCoded_of_dependent (di dO : Nat) (Ks : List (Nat → Nat → QI)) (hr : Ks.length ≠ 1)
    (hdep : ¬ LinearIndependent ℂ (fun k : Fin Ks.length => fnToM dO di Ks[k])) :
    extremalAsCoded di dO Ks = false := by
  unfold extremalAsCoded
  have hb : (Ks.length == 1) = false := by simpa using hr
  simp only [hb, Bool.false_eq_true, if_false, beq_eq_false_iff_ne]
  intro h
  exact hdep (linearIndependent_of_products _ ((prodRows_rank_iff di dO Ks).mp h))

end Model

end Toq.ChanPropProofs


