import Toq.Model.Combinat
import Toq.Properties.C01
import Toq.Spec.Combinat
import Mathlib.Algebra.BigOperators.Fin
import Mathlib.Algebra.BigOperators.Group.Finset.Basic
import Mathlib.Algebra.BigOperators.Ring.Finset
import Mathlib.Data.Matrix.Basic
import Mathlib.Data.Fintype.Perm
import Mathlib.Data.Fintype.Pi
import Mathlib.Data.Fintype.BigOperators
import Mathlib.Data.List.Perm.Basic
import Mathlib.Data.List.Nodup
import Mathlib.Data.List.Lattice
import Mathlib.Data.List.FinRange
import Mathlib.Data.List.GetD
import Mathlib.LinearAlgebra.Matrix.Determinant.Basic
import Mathlib.LinearAlgebra.Matrix.Permutation
import Mathlib.GroupTheory.Perm.Fin
import Mathlib.Order.Interval.Finset.Fin
import Mathlib.LinearAlgebra.Trace
import Mathlib.Data.List.Count
import Mathlib.Data.Nat.Factorial.Basic
import Mathlib.Data.Nat.Factorial.DoubleFactorial
import Mathlib.Algebra.BigOperators.Group.List.Basic
import Mathlib.Algebra.BigOperators.Ring.List
import Mathlib.Data.Finset.Image
import Mathlib.Data.Sym.Sym2
import Mathlib.Logic.Equiv.Basic
import Mathlib.Tactic.Ring
import Mathlib.Data.Nat.Choose.Basic
import Mathlib.LinearAlgebra.Matrix.Rank
import Mathlib.LinearAlgebra.Matrix.ToLin
/-!
# Helper lemmas for C18

1. laws of the specification projectors (group averaging in `Matrix (Fin p → Fin d) _ ℚ`), for all `d`, `p`;
2. bridges from the executable models (functions on `ℕ`, lists) to Mathlib (`Equiv.Perm (Fin n)`, `Matrix.det`, `Finset` sums);
3. enumerators: `permsList`, `uniquePerms`, `perfectMatchings`.
-/
open Equiv Matrix

/-! ## 1. specification projectors -/

namespace Toq.Combinat.Spec
variable {d p : ℕ}

theorem permMat_one : permMat d p 1 = 1 := by
  ext y x
  simp only [permMat, Perm.coe_one, Function.comp_id, Matrix.one_apply]
  by_cases h : y = x <;> simp [h]

theorem permMat_mul (σ τ : Perm (Fin p)) : permMat d p σ * permMat d p τ = permMat d p (τ * σ) := by
  ext y x
  simp only [Matrix.mul_apply, permMat]
  rw [Finset.sum_eq_single (x ∘ τ)]
  · simp only [Function.comp_assoc, Perm.coe_mul, if_true, mul_one]
    by_cases h : y = x ∘ ⇑τ ∘ ⇑σ <;> simp [h]
  · intro z _ hz
    simp [hz]
  · simp

theorem permMat_transpose (σ : Perm (Fin p)) : (permMat d p σ)ᵀ = permMat d p σ⁻¹ := by
  ext y x
  simp only [Matrix.transpose_apply, permMat]
  congr 1
  apply propext
  constructor
  · intro h; rw [h]; ext k; simp
  · intro h; rw [h]; ext k; simp

/-- `Σ_σ W_σ` -/
def symSum (d p : ℕ) : Matrix (Fin p → Fin d) (Fin p → Fin d) ℚ := ∑ σ : Perm (Fin p), permMat d p σ
/-- `Σ_σ sgn σ W_σ` -/
def antiSum (d p : ℕ) : Matrix (Fin p → Fin d) (Fin p → Fin d) ℚ :=
  ∑ σ : Perm (Fin p), ((Perm.sign σ : ℤ) : ℚ) • permMat d p σ

theorem symSpec_eq : symSpec d p = ((p.factorial : ℚ)⁻¹) • symSum d p := rfl
theorem antiSpec_eq : antiSpec d p = ((p.factorial : ℚ)⁻¹) • antiSum d p := rfl

theorem sgn_mul (σ τ : Perm (Fin p)) :
    ((Perm.sign (σ * τ) : ℤ) : ℚ) = ((Perm.sign σ : ℤ) : ℚ) * ((Perm.sign τ : ℤ) : ℚ) := by
  rw [Perm.sign_mul]; push_cast; rfl

theorem sgn_sq (τ : Perm (Fin p)) : ((Perm.sign τ : ℤ) : ℚ) * ((Perm.sign τ : ℤ) : ℚ) = 1 := by
  rcases Int.units_eq_one_or (Perm.sign τ) with h | h <;> simp [h]

theorem sgn_inv (τ : Perm (Fin p)) : ((Perm.sign τ⁻¹ : ℤ) : ℚ) = ((Perm.sign τ : ℤ) : ℚ) := by
  rw [Perm.sign_inv]

theorem permMat_mul_symSum (τ : Perm (Fin p)) : permMat d p τ * symSum d p = symSum d p := by
  unfold symSum
  rw [Finset.mul_sum]
  simp only [permMat_mul]
  exact Equiv.sum_comp (Equiv.mulRight τ) (fun σ => permMat d p σ)

theorem symSum_mul_permMat (τ : Perm (Fin p)) : symSum d p * permMat d p τ = symSum d p := by
  unfold symSum
  rw [Finset.sum_mul]
  simp only [permMat_mul]
  exact Equiv.sum_comp (Equiv.mulLeft τ) (fun σ => permMat d p σ)

theorem permMat_mul_antiSum (τ : Perm (Fin p)) :
    permMat d p τ * antiSum d p = ((Perm.sign τ : ℤ) : ℚ) • antiSum d p := by
  unfold antiSum
  rw [Finset.mul_sum, Finset.smul_sum]
  simp only [Matrix.mul_smul, permMat_mul, smul_smul]
  rw [← Equiv.sum_comp (Equiv.mulRight τ) (fun σ => (((Perm.sign τ : ℤ) : ℚ) * ((Perm.sign σ : ℤ) : ℚ)) • permMat d p σ)]
  apply Finset.sum_congr rfl
  intro σ _
  simp only [Equiv.coe_mulRight]
  rw [sgn_mul, mul_comm ((Perm.sign σ : ℤ) : ℚ), ← mul_assoc, sgn_sq, one_mul]

theorem antiSum_mul_permMat (τ : Perm (Fin p)) :
    antiSum d p * permMat d p τ = ((Perm.sign τ : ℤ) : ℚ) • antiSum d p := by
  unfold antiSum
  rw [Finset.sum_mul, Finset.smul_sum]
  simp only [Matrix.smul_mul, permMat_mul, smul_smul]
  rw [← Equiv.sum_comp (Equiv.mulLeft τ) (fun σ => (((Perm.sign τ : ℤ) : ℚ) * ((Perm.sign σ : ℤ) : ℚ)) • permMat d p σ)]
  apply Finset.sum_congr rfl
  intro σ _
  simp only [Equiv.coe_mulLeft]
  rw [sgn_mul, ← mul_assoc, sgn_sq, one_mul]

theorem card_perm_fin : ((Finset.univ : Finset (Perm (Fin p))).card : ℚ) = (p.factorial : ℚ) := by
  rw [Finset.card_univ, Fintype.card_perm, Fintype.card_fin]

theorem symSum_mul_symSum : symSum d p * symSum d p = (p.factorial : ℚ) • symSum d p := by
  show (∑ σ : Perm (Fin p), permMat d p σ) * symSum d p = _
  rw [Finset.sum_mul]
  simp only [permMat_mul_symSum]
  rw [Finset.sum_const, ← card_perm_fin, Nat.cast_smul_eq_nsmul]

theorem antiSum_mul_antiSum : antiSum d p * antiSum d p = (p.factorial : ℚ) • antiSum d p := by
  show (∑ σ : Perm (Fin p), ((Perm.sign σ : ℤ) : ℚ) • permMat d p σ) * antiSum d p = _
  rw [Finset.sum_mul]
  simp only [Matrix.smul_mul, permMat_mul_antiSum, smul_smul, sgn_sq, one_smul]
  rw [Finset.sum_const, ← card_perm_fin, Nat.cast_smul_eq_nsmul]

theorem fact_ne_zero' : (p.factorial : ℚ) ≠ 0 := by
  exact_mod_cast Nat.factorial_ne_zero p

/-- idempotent -/
theorem symSpec_mul_self : symSpec d p * symSpec d p = symSpec d p := by
  rw [symSpec_eq, Matrix.smul_mul, Matrix.mul_smul, symSum_mul_symSum, smul_smul, smul_smul]
  congr 1
  rw [mul_assoc, inv_mul_cancel₀ fact_ne_zero', mul_one]

theorem antiSpec_mul_self : antiSpec d p * antiSpec d p = antiSpec d p := by
  rw [antiSpec_eq, Matrix.smul_mul, Matrix.mul_smul, antiSum_mul_antiSum, smul_smul, smul_smul]
  congr 1
  rw [mul_assoc, inv_mul_cancel₀ fact_ne_zero', mul_one]

theorem symSum_transpose : (symSum d p)ᵀ = symSum d p := by
  unfold symSum
  rw [Matrix.transpose_sum]
  simp only [permMat_transpose]
  exact Equiv.sum_comp (Equiv.inv (Perm (Fin p))) (fun σ => permMat d p σ)

theorem antiSum_transpose : (antiSum d p)ᵀ = antiSum d p := by
  unfold antiSum
  rw [Matrix.transpose_sum]
  simp only [Matrix.transpose_smul, permMat_transpose]
  rw [← Equiv.sum_comp (Equiv.inv (Perm (Fin p))) (fun σ => ((Perm.sign σ : ℤ) : ℚ) • permMat d p σ)]
  apply Finset.sum_congr rfl
  intro σ _
  simp only [Equiv.inv_apply, sgn_inv]

theorem symSpec_transpose : (symSpec d p)ᵀ = symSpec d p := by
  rw [symSpec_eq, Matrix.transpose_smul, symSum_transpose]

theorem antiSpec_transpose : (antiSpec d p)ᵀ = antiSpec d p := by
  rw [antiSpec_eq, Matrix.transpose_smul, antiSum_transpose]

theorem permMat_mul_symSpec (τ : Perm (Fin p)) : permMat d p τ * symSpec d p = symSpec d p := by
  rw [symSpec_eq, Matrix.mul_smul, permMat_mul_symSum]

theorem symSpec_mul_permMat (τ : Perm (Fin p)) : symSpec d p * permMat d p τ = symSpec d p := by
  rw [symSpec_eq, Matrix.smul_mul, symSum_mul_permMat]

theorem permMat_mul_antiSpec (τ : Perm (Fin p)) :
    permMat d p τ * antiSpec d p = ((Perm.sign τ : ℤ) : ℚ) • antiSpec d p := by
  rw [antiSpec_eq, Matrix.mul_smul, permMat_mul_antiSum, smul_comm]

theorem antiSpec_mul_permMat (τ : Perm (Fin p)) :
    antiSpec d p * permMat d p τ = ((Perm.sign τ : ℤ) : ℚ) • antiSpec d p := by
  rw [antiSpec_eq, Matrix.smul_mul, antiSum_mul_permMat, smul_comm]

/-- for `p ≥ 2` there is an odd permutation -/
theorem exists_odd (hp : 2 ≤ p) : ∃ τ : Perm (Fin p), ((Perm.sign τ : ℤ) : ℚ) = -1 := by
  refine ⟨Equiv.swap ⟨0, by omega⟩ ⟨1, by omega⟩, ?_⟩
  rw [Perm.sign_swap (by simp [Fin.ext_iff])]
  simp

theorem symSpec_mul_antiSpec (hp : 2 ≤ p) : symSpec d p * antiSpec d p = 0 := by
  obtain ⟨τ, hτ⟩ := exists_odd hp
  have h : symSpec d p * antiSpec d p = -(symSpec d p * antiSpec d p) := by
    conv_lhs => rw [← symSpec_mul_permMat τ, Matrix.mul_assoc, permMat_mul_antiSpec, hτ]
    simp
  ext y x
  have h' := congrFun (congrFun h y) x
  simp only [Matrix.neg_apply] at h'
  exact self_eq_neg.mp h'

theorem antiSpec_mul_symSpec (hp : 2 ≤ p) : antiSpec d p * symSpec d p = 0 := by
  obtain ⟨τ, hτ⟩ := exists_odd hp
  have h : antiSpec d p * symSpec d p = -(antiSpec d p * symSpec d p) := by
    conv_lhs => rw [← permMat_mul_symSpec τ, ← Matrix.mul_assoc, antiSpec_mul_permMat, hτ]
    simp
  ext y x
  have h' := congrFun (congrFun h y) x
  simp only [Matrix.neg_apply] at h'
  exact self_eq_neg.mp h'

theorem univ_perm_two : (Finset.univ : Finset (Perm (Fin 2))) = {1, Equiv.swap 0 1} := by decide

theorem symSpec_add_antiSpec_two : symSpec d 2 + antiSpec d 2 = 1 := by
  unfold symSpec antiSpec
  rw [univ_perm_two, Finset.sum_pair (by decide), Finset.sum_pair (by decide)]
  rw [Perm.sign_one, Perm.sign_swap (by decide), permMat_one]
  ext y x
  simp [Matrix.add_apply, Matrix.smul_apply, Nat.factorial]
  ring

/-- a column of the antisymmetric projector at a digit vector with a repeated digit vanishes -/
theorem antiSpec_apply_of_not_injective (y x : Fin p → Fin d) (hx : ¬ Function.Injective x) :
    antiSpec d p y x = 0 := by
  rw [Function.Injective] at hx
  push Not at hx
  obtain ⟨a, b, hab, hne⟩ := hx
  have hfix : x ∘ (Equiv.swap a b) = x := by
    ext k
    simp only [Function.comp_apply]
    by_cases h1 : k = a
    · subst h1; rw [Equiv.swap_apply_left, hab]
    · by_cases h2 : k = b
      · subst h2; rw [Equiv.swap_apply_right, hab]
      · rw [Equiv.swap_apply_of_ne_of_ne h1 h2]
  have h := congrFun (congrFun (antiSpec_mul_permMat (d := d) (Equiv.swap a b)) y) x
  rw [Perm.sign_swap hne] at h
  simp only [Matrix.mul_apply, permMat, Matrix.smul_apply] at h
  rw [Finset.sum_eq_single x] at h
  · simp only [hfix, if_true, mul_one] at h
    have : antiSpec d p y x = -antiSpec d p y x := by simpa using h
    exact self_eq_neg.mp this
  · intro z _ hz
    rw [hfix, if_neg hz, mul_zero]
  · simp

theorem antiSpec_eq_zero_of_lt (h : d < p) : antiSpec d p = 0 := by
  ext y x
  apply antiSpec_apply_of_not_injective
  intro hinj
  have := Fintype.card_le_of_injective x hinj
  simp at this
  omega

end Toq.Combinat.Spec


/-! ## 2. bridges -/

open Toq.Perms Toq.C01
namespace Toq.Combinat


theorem sumN_eq_range {α : Type} [AddCommMonoid α] (f : ℕ → α) :
    ∀ n, sumN n f = ∑ i ∈ Finset.range n, f i
  | 0 => by simp [sumN]
  | n + 1 => by rw [Finset.sum_range_succ, ← sumN_eq_range f n]; rfl

theorem sumN_eq_fin {α : Type} [AddCommMonoid α] (f : ℕ → α) (n : ℕ) :
    sumN n f = ∑ i : Fin n, f i := by
  rw [sumN_eq_range, Fin.sum_univ_eq_sum_range]

theorem detLaplace_eq_det : ∀ (n : ℕ) (M : ℕ → ℕ → ℤ),
    detLaplace n M = Matrix.det (Matrix.of fun (i j : Fin n) => M i j)
  | 0, M => by simp [detLaplace]
  | n + 1, M => by
    rw [Matrix.det_succ_row_zero]
    unfold detLaplace
    rw [sumN_eq_fin]
    apply Finset.sum_congr rfl
    intro j _
    rw [detLaplace_eq_det n]
    congr 2
    ext i k
    simp only [Matrix.of_apply, Matrix.submatrix_apply, Fin.val_succ]
    congr 1
    by_cases h : (k : ℕ) < j
    · rw [if_pos h, Fin.succAbove_of_castSucc_lt _ _ (by simpa [Fin.lt_def] using h)]; rfl
    · rw [if_neg h, Fin.succAbove_of_le_castSucc _ _ (by simpa [Fin.le_def] using Nat.le_of_not_lt h)]; rfl

/-- a permutation of `0..n-1` given as a function on `ℕ`, as an element of `Perm (Fin n)` -/
def permOfFn (n : ℕ) (f : ℕ → ℕ) (h : IsPermN n f) : Perm (Fin n) where
  toFun i := ⟨f i, h.lt i i.2⟩
  invFun i := ⟨invPerm n f i, invPerm_lt n f h.lt h.inj i i.2⟩
  left_inv i := Fin.ext (invPerm_perm n f h.inj i i.2)
  right_inv i := Fin.ext (perm_invPerm n f h.lt h.inj i i.2)

@[simp] theorem permOfFn_apply (n : ℕ) (f : ℕ → ℕ) (h : IsPermN n f) (i : Fin n) :
    ((permOfFn n f h i : Fin n) : ℕ) = f i := rfl

@[simp] theorem permOfFn_symm_apply (n : ℕ) (f : ℕ → ℕ) (h : IsPermN n f) (i : Fin n) :
    (((permOfFn n f h).symm i : Fin n) : ℕ) = invPerm n f i := rfl

theorem isPermN_comp {n : ℕ} {f g : ℕ → ℕ} (hf : IsPermN n f) (hg : IsPermN n g) :
    IsPermN n (fun k => f (g k)) :=
  ⟨fun k hk => hf.lt _ (hg.lt k hk),
   fun a b ha hb hab => hg.inj a b ha hb (hf.inj _ _ (hg.lt a ha) (hg.lt b hb) hab)⟩

theorem permOfFn_comp {n : ℕ} {f g : ℕ → ℕ} (hf : IsPermN n f) (hg : IsPermN n g) :
    permOfFn n (fun k => f (g k)) (isPermN_comp hf hg) = permOfFn n f hf * permOfFn n g hg := by
  ext i; rfl

theorem prod_Iio_fin {M : Type} [CommMonoid M] {n : ℕ} (j : Fin n) (g : ℕ → M) :
    ∏ i ∈ Finset.Iio j, g (i : ℕ) = ∏ i ∈ Finset.range j, g i := by
  rw [← Nat.Iio_eq_range, ← Fin.map_valEmbedding_Iio, Finset.prod_map]
  rfl

/-- the sign of a permutation is `(-1)^inversions` -/
theorem sign_permOfFn (n : ℕ) (f : ℕ → ℕ) (h : IsPermN n f) :
    ((Perm.sign (permOfFn n f h) : ℤˣ) : ℤ) = signInv n (fun k => (f k : ℤ)) := by
  rw [Equiv.Perm.sign_eq_prod_prod_Iio]
  unfold signInv inversions
  rw [sumN_eq_range, ← Finset.prod_pow_eq_pow_sum]
  simp only [Units.coe_prod]
  rw [← Fin.prod_univ_eq_prod_range (fun j => (-1 : ℤ) ^ sumN j (fun i => if (f j : ℤ) < (f i : ℤ) then 1 else 0)) n]
  apply Finset.prod_congr rfl
  intro j _
  rw [sumN_eq_range, ← Finset.prod_pow_eq_pow_sum, ← prod_Iio_fin j]
  apply Finset.prod_congr rfl
  intro i hi
  have hij : (i : ℕ) < j := Fin.lt_def.mp (Finset.mem_Iio.mp hi)
  have hne : f i ≠ f j := fun e => by
    have := h.inj i j i.2 j.2 e
    omega
  by_cases hlt : f i < f j
  · have h1 : permOfFn n f h i < permOfFn n f h j := by rw [Fin.lt_def]; exact hlt
    rw [if_pos h1, if_neg (by omega)]
    simp
  · have h1 : ¬ permOfFn n f h i < permOfFn n f h j := by rw [Fin.lt_def]; exact hlt
    rw [if_neg h1, if_pos (by omega)]
    simp

/-- if the selected columns are those of the permutation `g`, `perm_sign` returns the sign of `g` -/
theorem permSign_of_cols (n : ℕ) (perm : ℕ → ℤ) (g : ℕ → ℕ) (hg : IsPermN n g)
    (hc : ∀ j, j < n → wrapIdx n (perm j - 1) = some (g j)) :
    permSign n perm = ((Perm.sign (permOfFn n g hg) : ℤˣ) : ℤ) := by
  unfold permSign
  have hdet := Matrix.det_permutation (R := ℤ) (permOfFn n g hg)
  rw [Int.cast_id] at hdet
  rw [detLaplace_eq_det, ← hdet, ← Matrix.det_transpose]
  congr 1
  ext i j
  simp only [Matrix.of_apply, Matrix.transpose_apply, selMatrix, hc i i.2, PEquiv.toMatrix_apply,
    Equiv.toPEquiv_apply, Option.mem_def, Option.some.injEq]
  by_cases h : g i = j
  · rw [if_pos h, if_pos (Fin.ext h)]
  · rw [if_neg h, if_neg (fun e => h (congrArg Fin.val e))]

theorem wrapIdx_nat (n m : ℕ) (h : m < n) : wrapIdx n (m : ℤ) = some m := by
  unfold wrapIdx
  rw [if_pos ⟨by omega, by omega⟩]
  simp

theorem wrapIdx_neg_one (n : ℕ) (h : 0 < n) : wrapIdx n (-1) = some (n - 1) := by
  unfold wrapIdx
  rw [if_neg (by omega), if_pos ⟨by omega, by omega⟩]
  congr 1
  omega

/-- `k ↦ k - 1` with NumPy wrap-around: the cyclic shift -/
def shiftDown (n : ℕ) : ℕ → ℕ := fun k => (k + (n - 1)) % n

theorem wrapIdx_pred (n m : ℕ) (h : m < n) : wrapIdx n ((m : ℤ) - 1) = some (shiftDown n m) := by
  unfold shiftDown
  rcases Nat.eq_zero_or_pos m with h0 | h0
  · subst h0
    rw [show ((0 : ℕ) : ℤ) - 1 = -1 by simp, wrapIdx_neg_one n h, Nat.zero_add, Nat.mod_eq_of_lt (by omega)]
  · rw [show ((m : ℤ) - 1) = ((m - 1 : ℕ) : ℤ) by omega, wrapIdx_nat n (m - 1) (by omega)]
    congr 1
    rw [show m + (n - 1) = (m - 1) + n by omega, Nat.add_mod_right, Nat.mod_eq_of_lt (by omega)]

theorem shiftDown_isPerm (n : ℕ) (hn : 0 < n) : IsPermN n (shiftDown n) := by
  constructor
  · intro k _; exact Nat.mod_lt _ hn
  · intro a b ha hb hab
    unfold shiftDown at hab
    rcases Nat.eq_zero_or_pos a with h0 | h0 <;> rcases Nat.eq_zero_or_pos b with h1 | h1
    · omega
    · subst h0
      rw [Nat.zero_add, Nat.mod_eq_of_lt (by omega), show b + (n - 1) = (b - 1) + n by omega,
        Nat.add_mod_right, Nat.mod_eq_of_lt (by omega)] at hab
      omega
    · subst h1
      rw [Nat.zero_add, Nat.mod_eq_of_lt (a := n - 1) (by omega), show a + (n - 1) = (a - 1) + n by omega,
        Nat.add_mod_right, Nat.mod_eq_of_lt (by omega)] at hab
      omega
    · rw [show a + (n - 1) = (a - 1) + n by omega, show b + (n - 1) = (b - 1) + n by omega,
        Nat.add_mod_right, Nat.add_mod_right, Nat.mod_eq_of_lt (by omega), Nat.mod_eq_of_lt (by omega)] at hab
      omega

theorem sign_shiftDown (n : ℕ) (hn : 0 < n) :
    ((Perm.sign (permOfFn n (shiftDown n) (shiftDown_isPerm n hn)) : ℤˣ) : ℤ) = (-1) ^ (n - 1) := by
  obtain ⟨m, rfl⟩ : ∃ m, n = m + 1 := ⟨n - 1, by omega⟩
  have : permOfFn (m + 1) (shiftDown (m + 1)) (shiftDown_isPerm _ hn) = (finRotate (m + 1))⁻¹ := by
    rw [eq_inv_iff_mul_eq_one]
    ext i
    simp only [Perm.coe_mul, Function.comp_apply, Perm.coe_one, id_eq]
    have hv : ∀ x : Fin (m + 1), ((permOfFn (m + 1) (shiftDown (m + 1)) (shiftDown_isPerm _ hn) x : Fin (m + 1)) : ℕ)
        = (x + m) % (m + 1) := fun _ => rfl
    rw [hv, coe_finRotate]
    have := i.2
    by_cases h0 : i = Fin.last m
    · rw [if_pos h0, Nat.zero_add, Nat.mod_eq_of_lt (by omega), h0, Fin.val_last]
    · have h1 : (i : ℕ) ≠ m := fun e => h0 (Fin.ext (by rw [Fin.val_last]; exact e))
      rw [if_neg h0, show (i : ℕ) + 1 + m = i + (m + 1) by omega, Nat.add_mod_right, Nat.mod_eq_of_lt (by omega)]
  rw [this, Perm.sign_inv, sign_finRotate]
  simp


/-! ### `itertools.permutations` -/


theorem picks_map_fst {α : Type} : ∀ l : List α, (picks l).map Prod.fst = l
  | [] => rfl
  | a :: t => by
    simp only [picks, List.map_cons, List.map_map]
    congr 1
    have : (Prod.fst ∘ fun (x : α × List α) => (x.1, a :: x.2)) = Prod.fst := by funext x; rfl
    rw [this]; exact picks_map_fst t

theorem picks_perm {α : Type} : ∀ (l : List α) (a : α) (r : List α), (a, r) ∈ picks l → l.Perm (a :: r)
  | [], _, _, h => by simp [picks] at h
  | b :: t, a, r, h => by
    simp only [picks, List.mem_cons, List.mem_map, Prod.mk.injEq] at h
    rcases h with ⟨rfl, rfl⟩ | ⟨⟨c, s⟩, hm, rfl, rfl⟩
    · exact List.Perm.refl _
    · exact ((picks_perm t c s hm).cons b).trans (List.Perm.swap c b s)

theorem picks_exists {α : Type} (l : List α) (a : α) (h : a ∈ l) : ∃ r, (a, r) ∈ picks l := by
  rw [← picks_map_fst l] at h
  obtain ⟨⟨b, r⟩, hm, rfl⟩ := List.mem_map.mp h
  exact ⟨r, hm⟩

theorem mem_permsAux {α : Type} : ∀ (k : ℕ) (l t : List α), l.length = k → (t ∈ permsAux k l ↔ t.Perm l)
  | 0, l, t, hl => by
    have : l = [] := List.length_eq_zero_iff.mp hl
    subst this
    simp [permsAux]
  | k + 1, l, t, hl => by
    simp only [permsAux, List.mem_flatMap, List.mem_map]
    constructor
    · rintro ⟨⟨a, r⟩, hp, t', ht', rfl⟩
      have hperm := picks_perm l a r hp
      have hr : r.length = k := by have := hperm.length_eq; simp at this; omega
      exact (((mem_permsAux k r t' hr).mp ht').cons a).trans hperm.symm
    · intro ht
      cases t with
      | nil => have := ht.length_eq; simp at this; omega
      | cons a t' =>
        have ha : a ∈ l := ht.subset (List.mem_cons_self)
        obtain ⟨r, hp⟩ := picks_exists l a ha
        have hperm := picks_perm l a r hp
        have hr : r.length = k := by have := hperm.length_eq; simp at this; omega
        refine ⟨(a, r), hp, t', ?_, rfl⟩
        exact (mem_permsAux k r t' hr).mpr ((ht.trans hperm).cons_inv)

theorem nodup_permsAux {α : Type} : ∀ (k : ℕ) (l : List α), l.length = k → l.Nodup → (permsAux k l).Nodup
  | 0, l, _, _ => by simp [permsAux]
  | k + 1, l, hl, hn => by
    simp only [permsAux]
    rw [List.nodup_flatMap]
    constructor
    · rintro ⟨a, r⟩ hp
      have hperm := picks_perm l a r hp
      have hr : r.length = k := by have := hperm.length_eq; simp at this; omega
      have hrn : r.Nodup := ((hperm.nodup_iff.mp hn)).of_cons
      exact (nodup_permsAux k r hr hrn).map (fun x y h => by simpa using h)
    · have hfst : ((picks l).map Prod.fst).Nodup := by rw [picks_map_fst]; exact hn
      rw [List.Nodup, List.pairwise_map] at hfst
      refine hfst.imp ?_
      rintro ⟨a, r⟩ ⟨b, s⟩ hab
      simp only [Function.onFun]
      rw [List.disjoint_left]
      intro t h1 h2
      simp only [List.mem_map] at h1 h2
      obtain ⟨t1, _, rfl⟩ := h1
      obtain ⟨t2, _, h⟩ := h2
      exact hab (by simp at h; exact h.1.symm)

theorem mem_permsList (p : ℕ) (t : List ℕ) : t ∈ permsList p ↔ t.Perm (List.range p) :=
  mem_permsAux p (List.range p) t (List.length_range)

theorem nodup_permsList (p : ℕ) : (permsList p).Nodup :=
  nodup_permsAux p (List.range p) (List.length_range) (List.nodup_range)

theorem fnOfList_eq_getElem (s : List ℕ) (k : ℕ) (hk : k < s.length) : (fnOfList s) k = s[k] := by
  unfold fnOfList; exact List.getD_eq_getElem _ _ hk

theorem isPermN_of_perm_range {p : ℕ} {s : List ℕ} (h : s.Perm (List.range p)) : IsPermN p (fnOfList s) := by
  have hlen : s.length = p := by rw [h.length_eq, List.length_range]
  constructor
  · intro k hk
    rw [fnOfList_eq_getElem s k (by omega)]
    exact List.mem_range.mp (h.subset (List.getElem_mem _))
  · intro a b ha hb hab
    rw [fnOfList_eq_getElem s a (by omega), fnOfList_eq_getElem s b (by omega)] at hab
    exact (List.Nodup.getElem_inj_iff (h.nodup_iff.mpr List.nodup_range)).mp hab

/-- the list of values of a permutation of `Fin p` -/
def listOfPerm {p : ℕ} (σ : Perm (Fin p)) : List ℕ := List.ofFn (fun k => ((σ k : Fin p) : ℕ))

theorem listOfPerm_perm {p : ℕ} (σ : Perm (Fin p)) : (listOfPerm σ).Perm (List.range p) := by
  have h := Equiv.Perm.ofFn_comp_perm σ (fun k : Fin p => (k : ℕ))
  have h2 : List.ofFn (fun k : Fin p => (k : ℕ)) = List.range p := by
    rw [List.ofFn_eq_map]; exact List.map_coe_finRange_eq_range
  rw [h2] at h
  exact h

/-- total version of `permOfFn` on lists (identity on lists that are not permutations of `0..p-1`) -/
noncomputable def permOfList (p : ℕ) (s : List ℕ) : Perm (Fin p) :=
  open Classical in if h : IsPermN p (fnOfList s) then permOfFn p (fnOfList s) h else 1

theorem permOfList_apply {p : ℕ} {s : List ℕ} (h : IsPermN p (fnOfList s)) (k : Fin p) :
    ((permOfList p s k : Fin p) : ℕ) = (fnOfList s) k := by
  unfold permOfList; rw [dif_pos h]; rfl

theorem permOfList_eq {p : ℕ} {s : List ℕ} (h : IsPermN p (fnOfList s)) :
    permOfList p s = permOfFn p (fnOfList s) h := by
  unfold permOfList; rw [dif_pos h]

theorem listOfPerm_permOfList {p : ℕ} {s : List ℕ} (h : s.Perm (List.range p)) :
    listOfPerm (permOfList p s) = s := by
  have hlen : s.length = p := by rw [h.length_eq, List.length_range]
  apply List.ext_getElem
  · simp [listOfPerm, hlen]
  · intro k h1 h2
    simp only [listOfPerm, List.getElem_ofFn]
    rw [permOfList_apply (isPermN_of_perm_range h)]
    exact fnOfList_eq_getElem s k h2

theorem permOfList_listOfPerm {p : ℕ} (σ : Perm (Fin p)) : permOfList p (listOfPerm σ) = σ := by
  have hp := isPermN_of_perm_range (listOfPerm_perm σ)
  ext k
  rw [permOfList_apply hp, fnOfList_eq_getElem _ _ (by simp [listOfPerm])]
  simp [listOfPerm]

/-- a sum over `itertools.permutations(range(p))` is a sum over the symmetric group -/
theorem sum_permsList {A : Type} [AddCommMonoid A] (p : ℕ) (F : Perm (Fin p) → A) :
    ((permsList p).map (fun s => F (permOfList p s))).sum = ∑ σ : Perm (Fin p), F σ := by
  rw [← List.sum_toFinset _ (nodup_permsList p)]
  apply Finset.sum_nbij' (fun s => permOfList p s) (fun σ => listOfPerm σ)
  · intro s _; exact Finset.mem_univ _
  · intro σ _; exact List.mem_toFinset.mpr ((mem_permsList p _).mpr (listOfPerm_perm σ))
  · intro s hs; exact listOfPerm_permOfList ((mem_permsList p s).mp (List.mem_toFinset.mp hs))
  · intro σ _; exact permOfList_listOfPerm σ
  · intro s _; rfl


/-! ### digit vectors and flat indices -/
/-- digit vector `Fin p → Fin d` as a total function on `ℕ` -/
def extD {d p : ℕ} (y : Fin p → Fin d) : ℕ → ℕ := fun k => if h : k < p then (y ⟨k, h⟩ : ℕ) else 0

/-- the flat index (toqito's tensor index) of a digit vector -/
def encD {d p : ℕ} (y : Fin p → Fin d) : ℕ := enc (constDims d) (extD y) p

theorem extD_lt {d p : ℕ} (y : Fin p → Fin d) (k : ℕ) (hk : k < p) : extD y k < constDims d k := by
  unfold extD constDims; rw [dif_pos hk]; exact (y ⟨k, hk⟩).2

theorem extD_apply {d p : ℕ} (y : Fin p → Fin d) (k : Fin p) : extD y k = y k := by
  unfold extD; rw [dif_pos k.2]

theorem encD_lt {d p : ℕ} (y : Fin p → Fin d) : encD y < prodN (constDims d) p :=
  enc_lt _ _ p (extD_lt y)

theorem dec_encD {d p : ℕ} (y : Fin p → Fin d) (k : ℕ) (hk : k < p) :
    dec (constDims d) p (encD y) k = extD y k :=
  dec_enc _ _ p (extD_lt y) k hk

theorem encD_inj {d p : ℕ} (y x : Fin p → Fin d) (h : encD y = encD x) : y = x := by
  funext k
  apply Fin.ext
  rw [← extD_apply y k, ← extD_apply x k, ← dec_encD y k k.2, ← dec_encD x k k.2, h]

/-- every index below `d^p` is the flat index of its digit vector -/
theorem encD_digits {d p : ℕ} (hd : 0 < d) (i : ℕ) (hi : i < prodN (constDims d) p) :
    encD (fun k : Fin p => (⟨dec (constDims d) p i k, dec_lt _ p i k k.2 hd⟩ : Fin d)) = i := by
  unfold encD
  rw [← enc_dec (constDims d) p i hi]
  apply enc_congr _ _ _ _ _ (fun _ _ => rfl)
  intro k hk
  unfold extD
  rw [dif_pos hk, enc_dec (constDims d) p i hi]

/-- **entries of toqito's permutation operator**: entry `(y, x)` is `1` iff `y = x ∘ σ` -/
theorem permOp_encD {d p : ℕ} (f : ℕ → ℕ) (hf : IsPermN p f) (y x : Fin p → Fin d) :
    permOp (α := ℤ) p f (constDims d) false (encD y) (encD x)
      = if y = x ∘ (permOfFn p f hf) then 1 else 0 := by
  have hidx : permIndex p f (constDims d) false (encD y)
      = encD (y ∘ (permOfFn p f hf).symm) := by
    unfold permIndex
    rw [permuteVec_false_eq _ p f _ hf.lt hf.inj]
    unfold specIndex encD
    apply enc_congr _ _ _ _ _ (fun _ _ => rfl)
    intro k hk
    have hq := invPerm_lt p f hf.lt hf.inj k hk
    show dec (constDims d) p (encD y) (invPerm p f k) = _
    rw [dec_encD y _ hq]
    unfold extD
    rw [dif_pos hq, dif_pos hk]
    rfl
  show (if permIndex p f (constDims d) false (encD y) = encD x then (1 : ℤ) else 0) = _
  rw [hidx]
  by_cases h : y = x ∘ (permOfFn p f hf)
  · rw [if_pos h, if_pos]
    rw [h]; congr 1; funext k; simp
  · rw [if_neg h, if_neg]
    intro e
    apply h
    have := encD_inj _ _ e
    rw [← this]; funext k; simp

/-- a sum over flat indices is a sum over digit vectors -/
theorem sumN_eq_sum_digits {A : Type} [AddCommMonoid A] {d p : ℕ} (hd : 0 < d) (F : ℕ → A) :
    sumN (prodN (constDims d) p) F = ∑ y : Fin p → Fin d, F (encD y) := by
  rw [sumN_eq_range]
  apply Finset.sum_nbij' (fun i => (fun k : Fin p => (⟨dec (constDims d) p i k, dec_lt _ p i k k.2 hd⟩ : Fin d)))
    (fun y => encD y)
  · intro i _; exact Finset.mem_univ _
  · intro y _; exact Finset.mem_range.mpr (encD_lt y)
  · intro i hi; exact encD_digits hd i (Finset.mem_range.mp hi)
  · intro y _
    funext k; apply Fin.ext
    show dec (constDims d) p (encD y) k = y k
    rw [dec_encD y k k.2, extD_apply]
  · intro i hi
    rw [encD_digits hd i (Finset.mem_range.mp hi)]


/-! ### models = specification -/

open Toq.Combinat.Spec

/-- list sums of `c_s · W_s` entries are group sums -/
theorem sum_coef_permOp {d p : ℕ} (coefL : List ℕ → ℤ) (c : Perm (Fin p) → ℤ)
    (hc : ∀ s ∈ permsList p, coefL s = c (permOfList p s)) (y x : Fin p → Fin d) :
    ((permsList p).map (fun s => coefL s * permOp (α := ℤ) p (fnOfList s) (constDims d) false (encD y) (encD x))).sum
      = ∑ σ : Perm (Fin p), c σ * (if y = x ∘ σ then 1 else 0) := by
  rw [← sum_permsList p (fun σ => c σ * (if y = x ∘ σ then 1 else 0))]
  congr 1
  apply List.map_congr_left
  intro s hs
  have hperm := isPermN_of_perm_range ((mem_permsList p s).mp hs)
  rw [hc s hs, permOp_encD _ hperm, permOfList_eq hperm]

theorem symSum_apply {d p : ℕ} (y x : Fin p → Fin d) :
    symSum d p y x = ∑ σ : Perm (Fin p), (if y = x ∘ σ then (1 : ℚ) else 0) := by
  unfold symSum
  rw [Matrix.sum_apply]
  rfl

theorem antiSum_apply {d p : ℕ} (y x : Fin p → Fin d) :
    antiSum d p y x = ∑ σ : Perm (Fin p), ((Perm.sign σ : ℤ) : ℚ) * (if y = x ∘ σ then (1 : ℚ) else 0) := by
  unfold antiSum
  rw [Matrix.sum_apply]
  rfl

theorem fact_mul_symSpec {d p : ℕ} (y x : Fin p → Fin d) :
    (p.factorial : ℚ) * symSpec d p y x = symSum d p y x := by
  rw [symSpec_eq, Matrix.smul_apply, smul_eq_mul, ← mul_assoc, mul_inv_cancel₀ fact_ne_zero', one_mul]

theorem fact_mul_antiSpec {d p : ℕ} (y x : Fin p → Fin d) :
    (p.factorial : ℚ) * antiSpec d p y x = antiSum d p y x := by
  rw [antiSpec_eq, Matrix.smul_apply, smul_eq_mul, ← mul_assoc, mul_inv_cancel₀ fact_ne_zero', one_mul]

theorem symRefN_eq {d p : ℕ} (y x : Fin p → Fin d) :
    ((symRefN d p (encD y) (encD x) : ℤ) : ℚ) = (p.factorial : ℚ) * symSpec d p y x := by
  rw [fact_mul_symSpec, symSum_apply]
  unfold symRefN
  have := sum_coef_permOp (d := d) (p := p) (fun _ => 1) (fun _ => 1) (fun _ _ => rfl) y x
  simp only [one_mul] at this
  rw [this]
  push_cast
  rfl

theorem antisymRefN_eq {d p : ℕ} (y x : Fin p → Fin d) :
    ((antisymRefN d p (encD y) (encD x) : ℤ) : ℚ) = (p.factorial : ℚ) * antiSpec d p y x := by
  rw [fact_mul_antiSpec, antiSum_apply]
  unfold antisymRefN
  rw [sum_coef_permOp (d := d) (p := p) _ (fun σ => ((Perm.sign σ : ℤˣ) : ℤ)) _ y x]
  · push_cast
    apply Finset.sum_congr rfl
    intro σ _
    split_ifs <;> simp
  · intro s hs
    have hperm := isPermN_of_perm_range ((mem_permsList p s).mp hs)
    rw [permOfList_eq hperm, sign_permOfFn]


/-- `perm_sign` on a permutation of `1..n` (the documented convention) is the sign -/
theorem permSign_one_indexed (n : ℕ) (f : ℕ → ℕ) (hf : IsPermN n f) :
    permSign n (fun j => (f j : ℤ) + 1) = ((Perm.sign (permOfFn n f hf) : ℤˣ) : ℤ) := by
  apply permSign_of_cols n _ f hf
  intro j hj
  show wrapIdx n ((f j : ℤ) + 1 - 1) = some (f j)
  rw [add_sub_cancel_right]
  exact wrapIdx_nat n (f j) (hf.lt j hj)

/-- `perm_sign` on a permutation of `0..n-1` (how `antisymmetric_projection` calls it): index `-1` wraps around, the
    selected columns are those of `shift ∘ f`, and the result is `(-1)^(n-1)` times the sign -/
theorem permSign_zero_indexed_sign (n : ℕ) (hn : 0 < n) (f : ℕ → ℕ) (hf : IsPermN n f) :
    permSign n (fun j => (f j : ℤ)) = (-1) ^ (n - 1) * ((Perm.sign (permOfFn n f hf) : ℤˣ) : ℤ) := by
  rw [permSign_of_cols n _ (fun k => shiftDown n (f k)) (isPermN_comp (shiftDown_isPerm n hn) hf)
    (fun j hj => wrapIdx_pred n (f j) (hf.lt j hj))]
  rw [permOfFn_comp (shiftDown_isPerm n hn) hf, Perm.sign_mul, Units.val_mul, sign_shiftDown n hn]

theorem permsList_one : permsList 1 = [[0]] := by decide

theorem symRefN_one {d : ℕ} (y x : Fin 1 → Fin d) :
    symRefN d 1 (encD y) (encD x) = if encD y = encD x then 1 else 0 := by
  unfold symRefN
  rw [permsList_one]
  have hperm : IsPermN 1 (fnOfList [0]) := isPermN_of_perm_range (p := 1) (List.Perm.refl _)
  simp only [List.map_cons, List.map_nil, List.sum_cons, List.sum_nil, add_zero]
  rw [permOp_encD _ hperm]
  have h1 : permOfFn 1 (fnOfList [0]) hperm = 1 := Subsingleton.elim _ _
  rw [h1]
  by_cases h : y = x
  · subst h; simp
  · rw [if_neg (by simpa using h), if_neg (fun e => h (encD_inj _ _ e))]

theorem antisymRefN_one {d : ℕ} (i j : ℕ) : antisymRefN d 1 i j = symRefN d 1 i j := by
  unfold antisymRefN symRefN
  rw [permsList_one]
  simp [signInv, inversions, sumN]

theorem symProjN_eq {d p : ℕ} (y x : Fin p → Fin d) :
    ((symProjN d p (encD y) (encD x) : ℤ) : ℚ) = (p.factorial : ℚ) * symSpec d p y x := by
  rw [← symRefN_eq]
  by_cases hp : p = 1
  · subst hp
    rw [symRefN_one]
    simp [symProjN]
  · simp only [symProjN, if_neg hp]
    rfl

theorem antisymProjN_eq {d p : ℕ} (y x : Fin p → Fin d) :
    ((antisymProjN d p (encD y) (encD x) : ℤ) : ℚ) = (p.factorial : ℚ) * antiSpec d p y x := by
  by_cases hp : p = 1
  · subst hp
    rw [← antisymRefN_eq, antisymRefN_one, symRefN_one]
    simp [antisymProjN]
  by_cases hd : d < p
  · simp only [antisymProjN, if_neg hp, if_pos hd]
    rw [antiSpec_eq_zero_of_lt hd]
    simp
  rw [fact_mul_antiSpec, antiSum_apply]
  simp only [antisymProjN, if_neg hp, if_neg hd]
  rw [sum_coef_permOp (d := d) (p := p) _ (fun σ => ((Perm.sign σ : ℤˣ) : ℤ)) _ y x]
  · push_cast
    apply Finset.sum_congr rfl
    intro σ _
    split_ifs <;> simp
  · intro s hs
    have hperm := isPermN_of_perm_range ((mem_permsList p s).mp hs)
    rw [permOfList_eq hperm]
    exact permSign_one_indexed p _ hperm


theorem prodN_const (d : ℕ) : ∀ p, prodN (constDims d) p = d ^ p
  | 0 => rfl
  | p + 1 => by rw [prodN, prodN_const d p, pow_succ]; rfl

theorem traceN_cast {d p : ℕ} (hd : 0 < d) (M : ℕ → ℕ → ℤ) (S : Matrix (Fin p → Fin d) (Fin p → Fin d) ℚ) (c : ℚ)
    (h : ∀ y x, ((M (encD y) (encD x) : ℤ) : ℚ) = c * S y x) :
    ((traceN (d ^ p) M : ℤ) : ℚ) = c * Matrix.trace S := by
  unfold traceN Matrix.trace
  rw [← prodN_const d p, sumN_eq_sum_digits hd, Finset.mul_sum]
  push_cast
  apply Finset.sum_congr rfl
  intro y _
  rw [h y y]; rfl

theorem traceN_symRefN {d p : ℕ} (hd : 0 < d) :
    ((traceN (d ^ p) (symRefN d p) : ℤ) : ℚ) = (p.factorial : ℚ) * Matrix.trace (symSpec d p) :=
  traceN_cast hd _ _ _ symRefN_eq

theorem traceN_antisymRefN {d p : ℕ} (hd : 0 < d) :
    ((traceN (d ^ p) (antisymRefN d p) : ℤ) : ℚ) = (p.factorial : ℚ) * Matrix.trace (antiSpec d p) :=
  traceN_cast hd _ _ _ antisymRefN_eq

/-- rank = trace for idempotent matrices over `ℚ` -/
theorem rank_eq_trace_of_idempotent {ι : Type} [Fintype ι] [DecidableEq ι] (P : Matrix ι ι ℚ)
    (h : P * P = P) : (P.rank : ℚ) = P.trace := by
  have hproj : LinearMap.IsProj (LinearMap.range (Matrix.toLin' P)) (Matrix.toLin' P) := by
    constructor
    · intro x; exact LinearMap.mem_range_self _ x
    · rintro x ⟨z, rfl⟩
      rw [← LinearMap.comp_apply, ← Matrix.toLin'_mul, h]
  have := hproj.trace
  rw [Matrix.trace_toLin'_eq] at this
  rw [this]
  rfl

/-! ### the driver's row-wise evaluation -/

theorem projRow_get (coef : List ℕ → ℤ) (d p N i j : ℕ) (hj : j < N) :
    (projRow coef d p N i)[j]? = some (((permsList p).map (fun s =>
      coef s * permOp (α := ℤ) p (fnOfList s) (constDims d) false i j)).sum) := by
  unfold projRow coefRow
  simp only [List.getElem?_map, List.getElem?_range hj, Option.map_some, List.map_map]
  congr 2
  apply List.map_congr_left
  intro s _
  show (if permIndex p (fnOfList s) (constDims d) false i = j then coef s else 0)
    = coef s * (if permIndex p (fnOfList s) (constDims d) false i = j then 1 else 0)
  split_ifs <;> simp

theorem eyeRow_get (N i j : ℕ) (hj : j < N) : (eyeRow N i)[j]? = some (if i = j then 1 else 0) := by
  unfold eyeRow
  simp [List.getElem?_range hj]

theorem symRefRow_get (d p N i j : ℕ) (hj : j < N) : (symRefRow d p N i)[j]? = some (symRefN d p i j) := by
  unfold symRefRow symRefN
  rw [projRow_get _ d p N i j hj]
  simp

theorem antisymRefRow_get (d p N i j : ℕ) (hj : j < N) :
    (antisymRefRow d p N i)[j]? = some (antisymRefN d p i j) := by
  unfold antisymRefRow antisymRefN
  rw [projRow_get _ d p N i j hj]

theorem symProjRow_get (d p N i j : ℕ) (hj : j < N) : (symProjRow d p N i)[j]? = some (symProjN d p i j) := by
  unfold symProjRow symProjN
  by_cases hp : p = 1
  · simp only [if_pos hp]; exact eyeRow_get N i j hj
  · simp only [if_neg hp]
    rw [projRow_get _ d p N i j hj]
    simp

theorem antisymProjRow_get (d p N i j : ℕ) (hj : j < N) :
    (antisymProjRow d p N i)[j]? = some (antisymProjN d p i j) := by
  unfold antisymProjRow antisymProjN
  by_cases hp : p = 1
  · simp only [if_pos hp]; exact eyeRow_get N i j hj
  · simp only [if_neg hp]
    by_cases hd : d < p
    · simp [if_pos hd, hj]
    · simp only [if_neg hd]
      rw [projRow_get _ d p N i j hj]


/-! ## 3. enumerators

### `unique_perms` -/

/-- the multiset described by a counter list -/
def expand {α : Type} (cs : List (α × ℕ)) : List α := cs.flatMap (fun vc => List.replicate vc.2 vc.1)

theorem expand_cons {α : Type} (v : α) (c : ℕ) (t : List (α × ℕ)) :
    expand ((v, c) :: t) = List.replicate c v ++ expand t := rfl

theorem choices_spec {α : Type} : ∀ (cs : List (α × ℕ)) (v : α) (cs' : List (α × ℕ)),
    (v, cs') ∈ choices cs → (expand cs).Perm (v :: expand cs') ∧ cs'.map Prod.fst = cs.map Prod.fst
  | [], _, _, h => by simp [choices] at h
  | (w, c) :: t, v, cs', h => by
    simp only [choices, List.mem_append, List.mem_map] at h
    rcases h with h | ⟨⟨u, t'⟩, hm, he⟩
    · by_cases hc : c > 0
      · rw [if_pos hc] at h
        simp only [List.mem_singleton, Prod.mk.injEq] at h
        obtain ⟨rfl, rfl⟩ := h
        constructor
        · rw [expand_cons, expand_cons]
          obtain ⟨k, rfl⟩ : ∃ k, c = k + 1 := ⟨c - 1, by omega⟩
          simp [List.replicate_succ]
        · simp
      · rw [if_neg hc] at h; simp at h
    · simp only [Prod.mk.injEq] at he
      obtain ⟨rfl, rfl⟩ := he
      obtain ⟨h1, h2⟩ := choices_spec t u t' hm
      constructor
      · rw [expand_cons, expand_cons]
        exact (h1.append_left _).trans List.perm_middle
      · simp [h2]

theorem choices_exists {α : Type} : ∀ (cs : List (α × ℕ)) (v : α), v ∈ expand cs → ∃ cs', (v, cs') ∈ choices cs
  | [], _, h => by simp [expand] at h
  | (w, c) :: t, v, h => by
    rw [expand_cons, List.mem_append, List.mem_replicate] at h
    rcases h with ⟨hc, rfl⟩ | h
    · refine ⟨(v, c - 1) :: t, ?_⟩
      simp only [choices, List.mem_append]
      left
      rw [if_pos (by omega)]
      simp
    · obtain ⟨t', ht'⟩ := choices_exists t v h
      refine ⟨(w, c) :: t', ?_⟩
      simp only [choices, List.mem_append, List.mem_map]
      right
      exact ⟨(v, t'), ht', rfl⟩

theorem choices_fst_sublist {α : Type} : ∀ (cs : List (α × ℕ)),
    ((choices cs).map Prod.fst).Sublist (cs.map Prod.fst)
  | [] => by simp [choices]
  | (w, c) :: t => by
    simp only [choices, List.map_append, List.map_map, List.map_cons]
    have h2 : (List.map (Prod.fst ∘ fun (x : α × List (α × ℕ)) => (x.1, (w, c) :: x.2)) (choices t))
        = (choices t).map Prod.fst := by
      apply List.map_congr_left; intro x _; rfl
    rw [h2]
    by_cases hc : c > 0
    · rw [if_pos hc]
      simpa using (choices_fst_sublist t).cons_cons w
    · rw [if_neg hc]
      simpa using (choices_fst_sublist t).cons w

theorem mem_uniqueHelper {α : Type} : ∀ (d : ℕ) (cs : List (α × ℕ)) (acc r : List α),
    (expand cs).length = d → (r ∈ uniqueHelper d cs acc ↔ ∃ l, l.Perm (expand cs) ∧ r = l ++ acc)
  | 0, cs, acc, r, hl => by
    have he : expand cs = [] := List.length_eq_zero_iff.mp hl
    simp only [uniqueHelper, List.mem_singleton, he]
    constructor
    · rintro rfl; exact ⟨[], List.Perm.refl _, rfl⟩
    · rintro ⟨l, hp, rfl⟩
      rw [List.perm_nil.mp hp]; rfl
  | d + 1, cs, acc, r, hl => by
    simp only [uniqueHelper, List.mem_flatMap]
    constructor
    · rintro ⟨⟨v, cs'⟩, hch, hr⟩
      obtain ⟨hp, _⟩ := choices_spec cs v cs' hch
      have hl' : (expand cs').length = d := by have := hp.length_eq; simp at this; omega
      obtain ⟨l', hp', rfl⟩ := (mem_uniqueHelper d cs' (v :: acc) r hl').mp hr
      refine ⟨l' ++ [v], ?_, by simp⟩
      exact (List.perm_append_singleton v l').trans ((hp'.cons v).trans hp.symm)
    · rintro ⟨l, hp, rfl⟩
      rcases List.eq_nil_or_concat l with rfl | ⟨l', v, hlv⟩
      · have := hp.length_eq; simp at this; omega
      · rw [List.concat_eq_append] at hlv
        subst hlv
        have hv : v ∈ expand cs := hp.subset (by simp)
        obtain ⟨cs', hch⟩ := choices_exists cs v hv
        obtain ⟨hp2, _⟩ := choices_spec cs v cs' hch
        have hl' : (expand cs').length = d := by have := hp2.length_eq; simp at this; omega
        refine ⟨(v, cs'), hch, ?_⟩
        apply (mem_uniqueHelper d cs' (v :: acc) _ hl').mpr
        refine ⟨l', ?_, by simp⟩
        exact (((List.perm_append_singleton v l').symm.trans hp).trans hp2).cons_inv

theorem nodup_uniqueHelper {α : Type} : ∀ (d : ℕ) (cs : List (α × ℕ)) (acc : List α),
    (expand cs).length = d → (cs.map Prod.fst).Nodup → (uniqueHelper d cs acc).Nodup
  | 0, cs, acc, _, _ => by simp [uniqueHelper]
  | d + 1, cs, acc, hl, hn => by
    simp only [uniqueHelper]
    rw [List.nodup_flatMap]
    constructor
    · rintro ⟨v, cs'⟩ hch
      obtain ⟨hp, hk⟩ := choices_spec cs v cs' hch
      have hl' : (expand cs').length = d := by have := hp.length_eq; simp at this; omega
      exact nodup_uniqueHelper d cs' (v :: acc) hl' (hk ▸ hn)
    · have hfst : ((choices cs).map Prod.fst).Nodup := hn.sublist (choices_fst_sublist cs)
      rw [List.Nodup, List.pairwise_map] at hfst
      have hmem : ∀ x ∈ choices cs, x ∈ choices cs := fun _ h => h
      refine (List.Pairwise.and_mem.mp hfst).imp ?_
      rintro ⟨v, c1⟩ ⟨w, c2⟩ ⟨h1, h2, hvw⟩
      simp only [Function.onFun]
      rw [List.disjoint_left]
      intro r hr1 hr2
      obtain ⟨hp1, _⟩ := choices_spec cs v c1 h1
      obtain ⟨hp2, _⟩ := choices_spec cs w c2 h2
      have hl1 : (expand c1).length = d := by have := hp1.length_eq; simp at this; omega
      have hl2 : (expand c2).length = d := by have := hp2.length_eq; simp at this; omega
      obtain ⟨l1, hq1, rfl⟩ := (mem_uniqueHelper d c1 (v :: acc) r hl1).mp hr1
      obtain ⟨l2, hq2, he⟩ := (mem_uniqueHelper d c2 (w :: acc) _ hl2).mp hr2
      have hlen : l1.length = l2.length := by rw [hq1.length_eq, hq2.length_eq, hl1, hl2]
      have := (List.append_inj he hlen).2
      simp only [List.cons.injEq] at this
      exact hvw this.1

/-- the counter list built by `unique_perms` -/
def counters {α : Type} [DecidableEq α] (uniq elements : List α) : List (α × ℕ) :=
  uniq.map (fun v => (v, elements.count v))

theorem count_expand_map {α : Type} [DecidableEq α] (f : α → ℕ) (a : α) : ∀ (uniq : List α), uniq.Nodup →
    (expand (uniq.map (fun v => (v, f v)))).count a = if a ∈ uniq then f a else 0
  | [], _ => by simp [expand]
  | u :: t, hn => by
    rw [List.map_cons, expand_cons, List.count_append, count_expand_map f a t hn.of_cons, List.count_replicate]
    have hu : u ∉ t := (List.nodup_cons.mp hn).1
    by_cases h : u = a
    · subst h; simp [hu]
    · have h' : ¬ a = u := fun e => h e.symm
      simp [h, h']

theorem expand_counters_perm {α : Type} [DecidableEq α] (uniq elements : List α) (hn : uniq.Nodup)
    (hm : ∀ v, v ∈ uniq ↔ v ∈ elements) : (expand (counters uniq elements)).Perm elements := by
  rw [List.perm_iff_count]
  intro a
  unfold counters
  rw [count_expand_map (fun v => elements.count v) a uniq hn]
  by_cases h : a ∈ uniq
  · rw [if_pos h]
  · rw [if_neg h]
    exact (List.count_eq_zero_of_not_mem (fun e => h ((hm a).mpr e))).symm

theorem counters_fst {α : Type} [DecidableEq α] (uniq elements : List α) :
    (counters uniq elements).map Prod.fst = uniq := by
  unfold counters; simp [List.map_map, Function.comp_def]

/-- product of the factorials of the counters -/
def factProd {α : Type} (cs : List (α × ℕ)) : ℕ := (cs.map (fun vc => vc.2.factorial)).prod
/-- sum of the counters -/
def total {α : Type} (cs : List (α × ℕ)) : ℕ := (cs.map (fun vc => vc.2)).sum

theorem length_expand {α : Type} : ∀ (cs : List (α × ℕ)), (expand cs).length = total cs
  | [] => rfl
  | (v, c) :: t => by
    rw [expand_cons, List.length_append, List.length_replicate, length_expand t]; simp [total]

theorem sum_choices {α : Type} : ∀ (cs : List (α × ℕ)) (W : α × List (α × ℕ) → ℕ) (D : ℕ),
    (∀ vc ∈ choices cs, W vc * factProd vc.2 = D) →
    ((choices cs).map W).sum * factProd cs = D * total cs
  | [], W, D, _ => by simp [choices, total]
  | (v, c) :: t, W, D, h => by
    have hfp : factProd ((v, c) :: t) = c.factorial * factProd t := by simp [factProd]
    have htot : total ((v, c) :: t) = c + total t := by simp [total]
    simp only [choices, List.map_append, List.sum_append, List.map_map]
    rw [add_mul, hfp, htot, mul_add]
    congr 1
    · by_cases hc : c > 0
      · rw [if_pos hc]
        have h1 := h (v, (v, c - 1) :: t) (by simp [choices, hc])
        obtain ⟨k, rfl⟩ : ∃ k, c = k + 1 := ⟨c - 1, by omega⟩
        simp only [List.map_cons, List.map_nil, List.sum_cons, List.sum_nil, add_zero, Nat.add_sub_cancel]
        simp only [Nat.add_sub_cancel, factProd, List.map_cons, List.prod_cons] at h1
        rw [Nat.factorial_succ, ← h1]
        simp only [factProd]
        ring
      · have : c = 0 := by omega
        subst this
        simp
    · have ih := sum_choices t (fun ut => W (ut.1, (v, c) :: ut.2) * c.factorial) D (by
        rintro ⟨u, t'⟩ hm
        have h1 := h (u, (v, c) :: t') (by
          simp only [choices, List.mem_append, List.mem_map]
          right; exact ⟨(u, t'), hm, rfl⟩)
        simp only [factProd, List.map_cons, List.prod_cons] at h1 ⊢
        rw [← h1]; ring)
      rw [← ih]
      simp only [Function.comp_def]
      rw [← List.sum_map_mul_right, ← List.sum_map_mul_right]
      congr 1
      apply List.map_congr_left
      intro x _
      ring


theorem length_uniqueHelper {α : Type} : ∀ (d : ℕ) (cs : List (α × ℕ)) (acc : List α),
    total cs = d → (uniqueHelper d cs acc).length * factProd cs = d.factorial
  | 0, cs, acc, h => by
    simp only [uniqueHelper, List.length_singleton, one_mul, Nat.factorial_zero]
    unfold factProd
    apply List.prod_eq_one
    intro x hx
    obtain ⟨vc, hvc, rfl⟩ := List.mem_map.mp hx
    have : vc.2 = 0 := by
      have h0 : ∀ y ∈ cs.map (fun vc => vc.2), y = 0 := List.sum_eq_zero_iff_forall_eq_nat.mp h
      exact h0 _ (List.mem_map.mpr ⟨vc, hvc, rfl⟩)
    rw [this]; rfl
  | d + 1, cs, acc, h => by
    simp only [uniqueHelper, List.length_flatMap]
    have := sum_choices cs (fun vc => (uniqueHelper d vc.2 (vc.1 :: acc)).length) d.factorial (by
      rintro ⟨v, cs'⟩ hch
      obtain ⟨hp, _⟩ := choices_spec cs v cs' hch
      have hl' : total cs' = d := by
        have := hp.length_eq
        rw [length_expand, List.length_cons, length_expand] at this
        omega
      exact length_uniqueHelper d cs' (v :: acc) hl')
    rw [h] at this
    rw [Nat.factorial_succ, mul_comm (d + 1), ← this]


/-! ### `perfect_matchings` -/

section matchings
variable {α : Type} [DecidableEq α]

theorem pairsOf_map (f : α → α) : ∀ l : List α, pairsOf (l.map f) = (pairsOf l).map (Sym2.map f)
  | [] => rfl
  | [_] => rfl
  | a :: b :: t => by
    simp only [List.map_cons, pairsOf, Sym2.map_mk]
    rw [pairsOf_map f t]

theorem matchingOf_cons_cons (a x : α) (t : List α) :
    matchingOf (a :: x :: t) = insert s(a, x) (matchingOf t) := by
  simp [matchingOf, pairsOf]

theorem matchingOf_map (f : α → α) (l : List α) :
    matchingOf (l.map f) = (matchingOf l).image (Sym2.map f) := by
  unfold matchingOf
  rw [pairsOf_map]
  ext e
  simp only [List.mem_toFinset, List.mem_map, Finset.mem_image]

theorem isPM_congr {S T : List α} {M : Finset (Sym2 α)} (h : ∀ v, v ∈ S ↔ v ∈ T)
    (hM : IsPerfectMatching S M) : IsPerfectMatching T M :=
  ⟨hM.not_diag, fun v => (h v).symm.trans (hM.cover v), hM.disjoint⟩

theorem isPM_nil (M : Finset (Sym2 α)) : IsPerfectMatching ([] : List α) M ↔ M = ∅ := by
  constructor
  · intro h
    apply Finset.eq_empty_of_forall_notMem
    intro e he
    induction e using Sym2.ind with
    | _ a b =>
      have := (h.cover a).mpr ⟨s(a, b), he, Sym2.mem_mk_left a b⟩
      simp at this
  · rintro rfl
    exact ⟨by simp, by simp, by simp⟩

theorem isPM_map (e : α ≃ α) {S : List α} {M : Finset (Sym2 α)} (h : IsPerfectMatching S M) :
    IsPerfectMatching (S.map e) (M.image (Sym2.map e)) := by
  constructor
  · intro e' he'
    obtain ⟨e0, h0, rfl⟩ := Finset.mem_image.mp he'
    rw [Sym2.isDiag_map e.injective]
    exact h.not_diag e0 h0
  · intro v
    constructor
    · intro hv
      obtain ⟨u, hu, rfl⟩ := List.mem_map.mp hv
      obtain ⟨e0, h0, hu0⟩ := (h.cover u).mp hu
      exact ⟨Sym2.map e e0, Finset.mem_image_of_mem _ h0, Sym2.mem_map.mpr ⟨u, hu0, rfl⟩⟩
    · rintro ⟨e', he', hv⟩
      obtain ⟨e0, h0, rfl⟩ := Finset.mem_image.mp he'
      obtain ⟨u, hu, rfl⟩ := Sym2.mem_map.mp hv
      exact List.mem_map.mpr ⟨u, (h.cover u).mpr ⟨e0, h0, hu⟩, rfl⟩
  · intro e1 h1 e2 h2 v hv1 hv2
    obtain ⟨e01, h01, rfl⟩ := Finset.mem_image.mp h1
    obtain ⟨e02, h02, rfl⟩ := Finset.mem_image.mp h2
    obtain ⟨u1, hu1, rfl⟩ := Sym2.mem_map.mp hv1
    obtain ⟨u2, hu2, hu⟩ := Sym2.mem_map.mp hv2
    have := e.injective hu
    subst this
    rw [h.disjoint e01 h01 e02 h02 u2 hu1 hu2]

theorem isPM_insert {S S' : List α} {M' : Finset (Sym2 α)} {a x : α} (hax : a ≠ x) (ha : a ∉ S') (hx : x ∉ S')
    (h : IsPerfectMatching S' M') (hS : ∀ v, v ∈ S ↔ v = a ∨ v = x ∨ v ∈ S') :
    IsPerfectMatching S (insert s(a, x) M') := by
  have hmem : ∀ e ∈ M', ∀ v ∈ e, v ∈ S' := fun e he v hv => (h.cover v).mpr ⟨e, he, hv⟩
  constructor
  · intro e he
    rcases Finset.mem_insert.mp he with rfl | he
    · rw [Sym2.mk_isDiag_iff]; exact hax
    · exact h.not_diag e he
  · intro v
    rw [hS v]
    constructor
    · rintro (rfl | rfl | hv)
      · exact ⟨_, Finset.mem_insert_self _ _, Sym2.mem_mk_left _ _⟩
      · exact ⟨_, Finset.mem_insert_self _ _, Sym2.mem_mk_right _ _⟩
      · obtain ⟨e, he, hve⟩ := (h.cover v).mp hv
        exact ⟨e, Finset.mem_insert_of_mem he, hve⟩
    · rintro ⟨e, he, hve⟩
      rcases Finset.mem_insert.mp he with rfl | he
      · rcases Sym2.mem_iff.mp hve with rfl | rfl
        · left; rfl
        · right; left; rfl
      · right; right; exact hmem e he v hve
  · intro e1 h1 e2 h2 v hv1 hv2
    rcases Finset.mem_insert.mp h1 with rfl | h1 <;> rcases Finset.mem_insert.mp h2 with rfl | h2
    · rfl
    · exfalso
      have := hmem e2 h2 v hv2
      rcases Sym2.mem_iff.mp hv1 with rfl | rfl
      · exact ha this
      · exact hx this
    · exfalso
      have := hmem e1 h1 v hv1
      rcases Sym2.mem_iff.mp hv2 with rfl | rfl
      · exact ha this
      · exact hx this
    · exact h.disjoint e1 h1 e2 h2 v hv1 hv2

theorem isPM_erase {S S' : List α} {M : Finset (Sym2 α)} {a x : α}
    (h : IsPerfectMatching S M) (hm : s(a, x) ∈ M) (hS : ∀ v, v ∈ S' ↔ v ∈ S ∧ v ≠ a ∧ v ≠ x) :
    IsPerfectMatching S' (M.erase s(a, x)) := by
  constructor
  · intro e he; exact h.not_diag e (Finset.mem_of_mem_erase he)
  · intro v
    rw [hS v]
    constructor
    · rintro ⟨hv, hva, hvx⟩
      obtain ⟨e, he, hve⟩ := (h.cover v).mp hv
      refine ⟨e, Finset.mem_erase.mpr ⟨?_, he⟩, hve⟩
      rintro rfl
      rcases Sym2.mem_iff.mp hve with rfl | rfl
      · exact hva rfl
      · exact hvx rfl
    · rintro ⟨e, he, hve⟩
      obtain ⟨hne, he'⟩ := Finset.mem_erase.mp he
      clear he
      have he := he'
      refine ⟨(h.cover v).mpr ⟨e, he, hve⟩, ?_, ?_⟩
      · rintro rfl
        exact hne (h.disjoint e he _ hm v hve (Sym2.mem_mk_left _ _))
      · rintro rfl
        exact hne (h.disjoint e he _ hm v hve (Sym2.mem_mk_right _ _))
  · intro e1 h1 e2 h2 v hv1 hv2
    exact h.disjoint e1 (Finset.mem_of_mem_erase h1) e2 (Finset.mem_of_mem_erase h2) v hv1 hv2

theorem isPM_partner {S : List α} {M : Finset (Sym2 α)} {a : α} (h : IsPerfectMatching S M) (ha : a ∈ S) :
    ∃ x, s(a, x) ∈ M ∧ x ≠ a ∧ x ∈ S := by
  obtain ⟨e, he, hae⟩ := (h.cover a).mp ha
  refine ⟨Sym2.Mem.other hae, ?_, ?_, ?_⟩
  · rw [Sym2.other_spec hae]; exact he
  · intro hx
    have hd := h.not_diag e he
    rw [← Sym2.other_spec hae, Sym2.mk_isDiag_iff] at hd
    exact hd hx.symm
  · apply (h.cover _).mpr ⟨e, he, ?_⟩
    exact Sym2.other_mem hae

theorem isPM_partner_unique {S : List α} {M : Finset (Sym2 α)} {a x1 x2 : α} (h : IsPerfectMatching S M)
    (h1 : s(a, x1) ∈ M) (h2 : s(a, x2) ∈ M) : x1 = x2 :=
  Sym2.congr_right.mp (h.disjoint _ h1 _ h2 a (Sym2.mem_mk_left _ _) (Sym2.mem_mk_left _ _))


/-- `tlower_fac[tlower_fac == x] = b` on one entry -/
def relabel {α : Type} [DecidableEq α] (x b : α) (y : α) : α := if y = x then b else y

/-- the recursion of `perfect_matchings` with the natural base case (`[] ↦ [[]]`) -/
def pmSpec {α : Type} [DecidableEq α] : List α → List (List α)
  | [] => [[]]
  | [_] => []
  | a :: b :: rest =>
    (b :: rest).flatMap (fun x => (pmSpec rest).map (fun row => a :: x :: row.map (relabel x b)))

theorem pmSpec_odd {α : Type} [DecidableEq α] : ∀ (S : List α), S.length % 2 = 1 → pmSpec S = []
  | [], h => by simp at h
  | [_], _ => rfl
  | a :: b :: rest, h => by
    have hr : rest.length % 2 = 1 := by simp at h; omega
    simp [pmSpec, pmSpec_odd rest hr]

theorem perfectMatchings_eq_pmSpec {α : Type} [DecidableEq α] : ∀ (S : List α), S ≠ [] →
    perfectMatchings S = pmSpec S
  | [], h => absurd rfl h
  | [_], _ => rfl
  | [a, b], _ => by simp [perfectMatchings, pmSpec]
  | a :: b :: c :: rest, _ => by
    rw [perfectMatchings]
    by_cases hodd : (c :: rest).length % 2 = 1
    · have h1 : ((c :: rest).length % 2 == 1) = true := by simpa using hodd
      rw [if_pos h1]
      rw [pmSpec, pmSpec_odd (c :: rest) hodd]
      simp
    · have h1 : ¬ ((c :: rest).length % 2 == 1) = true := by simpa using hodd
      rw [if_neg h1, pmSpec]
      simp only [perfectMatchings_eq_pmSpec (c :: rest) (by simp)]
      congr 1
      funext x
      congr 1
      funext row
      congr 2
      apply List.map_congr_left
      intro y _
      simp [relabel]

theorem length_pmSpec {α : Type} [DecidableEq α] : ∀ (S : List α), S.length % 2 = 0 →
    (pmSpec S).length = Nat.doubleFactorial (S.length - 1)
  | [], _ => rfl
  | [_], h => by simp at h
  | a :: b :: rest, h => by
    have hr : rest.length % 2 = 0 := by simp at h; omega
    rw [pmSpec, List.length_flatMap]
    simp only [List.length_map, List.map_const', List.sum_replicate, List.length_cons, smul_eq_mul]
    rw [length_pmSpec rest hr]
    rcases Nat.eq_zero_or_pos rest.length with h0 | h0
    · rw [h0]; rfl
    · obtain ⟨m, hm⟩ : ∃ m, rest.length = m + 1 := ⟨rest.length - 1, by omega⟩
      rw [hm]
      show (m + 1 + 1) * Nat.doubleFactorial m = Nat.doubleFactorial (m + 2)
      rw [Nat.doubleFactorial_add_two]


/-! ### the enumeration is a bijection onto the perfect matchings -/

theorem mem_pmSpec_cons (a b : α) (rest row : List α) :
    row ∈ pmSpec (a :: b :: rest) ↔
      ∃ x ∈ b :: rest, ∃ r ∈ pmSpec rest, row = a :: x :: r.map (relabel x b) := by
  simp only [pmSpec, List.mem_flatMap, List.mem_map]
  constructor
  · rintro ⟨x, hx, r, hr, rfl⟩; exact ⟨x, hx, r, hr, rfl⟩
  · rintro ⟨x, hx, r, hr, rfl⟩; exact ⟨x, hx, r, hr, rfl⟩

theorem pmSpec_subset : ∀ (S row : List α), row ∈ pmSpec S → ∀ y ∈ row, y ∈ S
  | [], row, h, y, hy => by
    simp only [pmSpec, List.mem_singleton] at h
    subst h; simp at hy
  | [_], row, h, _, _ => by simp [pmSpec] at h
  | a :: b :: rest, row, h, y, hy => by
    obtain ⟨x, hx, r, hr, rfl⟩ := (mem_pmSpec_cons a b rest row).mp h
    simp only [List.mem_cons, List.mem_map] at hy
    rcases hy with rfl | rfl | ⟨u, hu, rfl⟩
    · simp
    · exact List.mem_cons_of_mem _ hx
    · have := pmSpec_subset rest r hr u hu
      unfold relabel
      split_ifs
      · simp
      · simp [this]

theorem map_relabel_eq_swap (x b : α) (r : List α) (hb : b ∉ r) :
    r.map (relabel x b) = r.map (Equiv.swap x b) := by
  apply List.map_congr_left
  intro u hu
  unfold relabel
  by_cases h : u = x
  · rw [if_pos h, h, Equiv.swap_apply_left]
  · rw [if_neg h, Equiv.swap_apply_of_ne_of_ne h (fun e => hb (by rw [← e]; exact hu))]

theorem mem_map_swap {a b x : α} {rest : List α} (hn : (a :: b :: rest).Nodup) (hx : x ∈ b :: rest) (v : α) :
    v ∈ rest.map (Equiv.swap x b) ↔ v ∈ a :: b :: rest ∧ v ≠ a ∧ v ≠ x := by
  have ha : a ∉ b :: rest := (List.nodup_cons.mp hn).1
  have hb : b ∉ rest := (List.nodup_cons.mp (List.nodup_cons.mp hn).2).1
  have hmem : v ∈ rest.map (Equiv.swap x b) ↔ Equiv.swap x b v ∈ rest := by
    rw [List.mem_map]
    constructor
    · rintro ⟨u, hu, rfl⟩; rwa [Equiv.swap_apply_self]
    · intro h; exact ⟨_, h, Equiv.swap_apply_self x b v⟩
  rw [hmem]
  by_cases hvx : v = x
  · subst hvx
    rw [Equiv.swap_apply_left]
    constructor
    · intro h; exact absurd h hb
    · rintro ⟨_, _, h⟩; exact absurd rfl h
  by_cases hvb : v = b
  · subst hvb
    rw [Equiv.swap_apply_right]
    have hxr : x ∈ rest := by
      rcases List.mem_cons.mp hx with h | h
      · exact absurd h.symm hvx
      · exact h
    constructor
    · intro _
      refine ⟨by simp, ?_, hvx⟩
      rintro rfl; exact ha (by simp)
    · intro _; exact hxr
  · rw [Equiv.swap_apply_of_ne_of_ne hvx hvb]
    constructor
    · intro h
      refine ⟨by simp [h], ?_, hvx⟩
      rintro rfl; exact ha (List.mem_cons_of_mem _ h)
    · rintro ⟨h, hva, _⟩
      simp only [List.mem_cons] at h
      rcases h with h | h | h
      · exact absurd h hva
      · exact absurd h hvb
      · exact h

/-- what the induction proves about the list `pmSpec S` -/
structure PMGood (S : List α) : Prop where
  valid : ∀ row ∈ pmSpec S, IsPerfectMatching S (matchingOf row)
  inj : ∀ r1 ∈ pmSpec S, ∀ r2 ∈ pmSpec S, matchingOf r1 = matchingOf r2 → r1 = r2
  nodup : (pmSpec S).Nodup
  complete : ∀ M, IsPerfectMatching S M → ∃ row ∈ pmSpec S, matchingOf row = M

theorem swap_image_image (x b : α) (M : Finset (Sym2 α)) :
    (M.image (Sym2.map (Equiv.swap x b))).image (Sym2.map (Equiv.swap x b)) = M := by
  rw [Finset.image_image]
  have : (Sym2.map (Equiv.swap x b) ∘ Sym2.map (Equiv.swap x b)) = id := by
    funext e
    rw [Function.comp_apply, Sym2.map_map]
    have : ((Equiv.swap x b : α → α) ∘ (Equiv.swap x b : α → α)) = id := by
      funext u; simp
    rw [this, Sym2.map_id]
  rw [this, Finset.image_id]

theorem step_valid {a b x : α} {rest r : List α} (hn : (a :: b :: rest).Nodup) (hx : x ∈ b :: rest)
    (hr : ∀ y ∈ r, y ∈ rest) (hv : IsPerfectMatching rest (matchingOf r)) :
    IsPerfectMatching (a :: b :: rest) (matchingOf (a :: x :: r.map (relabel x b))) := by
  have ha : a ∉ b :: rest := (List.nodup_cons.mp hn).1
  have hb : b ∉ rest := (List.nodup_cons.mp (List.nodup_cons.mp hn).2).1
  rw [map_relabel_eq_swap x b r (fun h => hb (hr b h)), matchingOf_cons_cons, matchingOf_map]
  have hax : a ≠ x := fun e => ha (e ▸ hx)
  apply isPM_insert hax _ _ (isPM_map (Equiv.swap x b) hv)
  · intro v
    rw [mem_map_swap hn hx v]
    constructor
    · intro hv
      by_cases h1 : v = a
      · left; exact h1
      · by_cases h2 : v = x
        · right; left; exact h2
        · right; right; exact ⟨hv, h1, h2⟩
    · rintro (rfl | rfl | ⟨h, _, _⟩)
      · simp
      · exact List.mem_cons_of_mem _ hx
      · exact h
  · intro h; exact ((mem_map_swap hn hx a).mp h).2.1 rfl
  · intro h; exact ((mem_map_swap hn hx x).mp h).2.2 rfl

theorem pmGood : ∀ (S : List α), S.Nodup → S.length % 2 = 0 → PMGood S
  | [], _, _ => by
    refine ⟨?_, ?_, ?_, ?_⟩
    · intro row h
      simp only [pmSpec, List.mem_singleton] at h
      subst h
      exact (isPM_nil _).mpr rfl
    · intro r1 h1 r2 h2 _
      simp only [pmSpec, List.mem_singleton] at h1 h2
      rw [h1, h2]
    · simp [pmSpec]
    · intro M hM
      exact ⟨[], by simp [pmSpec], ((isPM_nil M).mp hM).symm ▸ rfl⟩
  | [_], _, h => by simp at h
  | a :: b :: rest, hn, hlen => by
    have hrn : rest.Nodup := (List.nodup_cons.mp (List.nodup_cons.mp hn).2).2
    have hrl : rest.length % 2 = 0 := by simp at hlen; omega
    have ih := pmGood rest hrn hrl
    have ha : a ∉ b :: rest := (List.nodup_cons.mp hn).1
    have hb : b ∉ rest := (List.nodup_cons.mp (List.nodup_cons.mp hn).2).1
    have hbr : ∀ r ∈ pmSpec rest, b ∉ r := fun r hr h => hb (pmSpec_subset rest r hr b h)
    have hvalid : ∀ row ∈ pmSpec (a :: b :: rest), IsPerfectMatching (a :: b :: rest) (matchingOf row) := by
      intro row hrow
      obtain ⟨x, hx, r, hr, rfl⟩ := (mem_pmSpec_cons a b rest row).mp hrow
      exact step_valid hn hx (pmSpec_subset rest r hr) (ih.valid r hr)
    refine ⟨hvalid, ?_, ?_, ?_⟩
    · -- injectivity
      intro r1' h1 r2' h2 heq
      have hv1 := hvalid r1' h1
      obtain ⟨x1, hx1, r1, hr1, rfl⟩ := (mem_pmSpec_cons a b rest r1').mp h1
      obtain ⟨x2, hx2, r2, hr2, rfl⟩ := (mem_pmSpec_cons a b rest r2').mp h2
      rw [map_relabel_eq_swap x1 b r1 (hbr r1 hr1), map_relabel_eq_swap x2 b r2 (hbr r2 hr2)] at heq ⊢
      rw [map_relabel_eq_swap x1 b r1 (hbr r1 hr1)] at hv1
      rw [matchingOf_cons_cons, matchingOf_cons_cons, matchingOf_map, matchingOf_map] at heq
      rw [matchingOf_cons_cons, matchingOf_map] at hv1
      have hx : x1 = x2 := by
        apply isPM_partner_unique hv1 (Finset.mem_insert_self _ _)
        rw [heq]; exact Finset.mem_insert_self _ _
      subst hx
      have hnot : ∀ r ∈ pmSpec rest,
          s(a, x1) ∉ (matchingOf r).image (Sym2.map (Equiv.swap x1 b)) := by
        intro r hr hmem
        have hpm := isPM_map (Equiv.swap x1 b) (ih.valid r hr)
        have := (hpm.cover a).mpr ⟨_, hmem, Sym2.mem_mk_left _ _⟩
        exact ((mem_map_swap hn hx1 a).mp this).2.1 rfl
      have h3 := congrArg (fun s => s.erase s(a, x1)) heq
      simp only [Finset.erase_insert (hnot r1 hr1), Finset.erase_insert (hnot r2 hr2)] at h3
      have h4 := Finset.image_injective (Sym2.map.injective (Equiv.swap x1 b).injective) h3
      rw [ih.inj r1 hr1 r2 hr2 h4]
    · -- nodup
      rw [pmSpec, List.nodup_flatMap]
      constructor
      · intro x hx
        apply List.Nodup.map_on _ ih.nodup
        intro r1 hr1 r2 hr2 he
        simp only [List.cons.injEq, true_and] at he
        rw [map_relabel_eq_swap x b r1 (hbr r1 hr1), map_relabel_eq_swap x b r2 (hbr r2 hr2)] at he
        exact (List.map_injective_iff.mpr (Equiv.swap x b).injective) he
      · have hp : (b :: rest).Pairwise (· ≠ ·) := (List.nodup_cons.mp hn).2
        refine hp.imp ?_
        intro x1 x2 hne
        simp only [Function.onFun]
        rw [List.disjoint_left]
        intro row h1 h2
        obtain ⟨r1, _, rfl⟩ := List.mem_map.mp h1
        obtain ⟨r2, _, he⟩ := List.mem_map.mp h2
        simp only [List.cons.injEq, true_and] at he
        exact hne he.1.symm
    · -- completeness
      intro M hM
      obtain ⟨x, hm, hxa, hxS⟩ := isPM_partner hM (show a ∈ a :: b :: rest by simp)
      have hx : x ∈ b :: rest := by
        rcases List.mem_cons.mp hxS with h | h
        · exact absurd h hxa
        · exact h
      have hM' := isPM_erase (S' := rest.map (Equiv.swap x b)) hM hm (mem_map_swap hn hx)
      have hM'' := isPM_map (Equiv.swap x b) hM'
      have hrest : (rest.map (Equiv.swap x b)).map (Equiv.swap x b) = rest := by
        rw [List.map_map]
        have : ((Equiv.swap x b : α → α) ∘ (Equiv.swap x b : α → α)) = id := by funext u; simp
        rw [this, List.map_id]
      rw [hrest] at hM''
      obtain ⟨r, hr, hrM⟩ := ih.complete _ hM''
      refine ⟨a :: x :: r.map (relabel x b), (mem_pmSpec_cons a b rest _).mpr ⟨x, hx, r, hr, rfl⟩, ?_⟩
      rw [map_relabel_eq_swap x b r (hbr r hr), matchingOf_cons_cons, matchingOf_map, hrM,
        swap_image_image, Finset.insert_erase hm]


end matchings

/-! ## 4. glue for the property statements -/

/-- the 0-indexed version of a 1-indexed permutation is a permutation of `0..n-1` -/
theorem isPermN_of_isPerm1 {n : ℕ} {perm : ℕ → ℤ} (h : IsPerm1 n perm) :
    IsPermN n (fun j => (perm j - 1).toNat) := by
  constructor
  · intro k hk
    have := h.range k hk
    show (perm k - 1).toNat < n
    omega
  · intro a b ha hb hab
    have h1 := h.range a ha
    have h2 := h.range b hb
    apply h.inj a b ha hb
    have hab' : (perm a - 1).toNat = (perm b - 1).toNat := hab
    omega

theorem perm_eq_succ {n : ℕ} {perm : ℕ → ℤ} (h : IsPerm1 n perm) (j : ℕ) (hj : j < n) :
    perm j = ((perm j - 1).toNat : ℤ) + 1 := by
  have := h.range j hj
  omega

theorem permSign_congr (n : ℕ) (a b : ℕ → ℤ) (h : ∀ j, j < n → a j = b j) : permSign n a = permSign n b := by
  unfold permSign
  rw [detLaplace_eq_det, detLaplace_eq_det]
  congr 1
  ext i j
  simp only [Matrix.of_apply, selMatrix, h j j.2]

theorem inversions_congr (n : ℕ) (a b : ℕ → ℤ)
    (h : ∀ i j, i < n → j < n → (a j < a i ↔ b j < b i)) : inversions n a = inversions n b := by
  unfold inversions
  apply sumN_congr
  intro j hj
  apply sumN_congr
  intro i hi
  by_cases hlt : a j < a i
  · rw [if_pos hlt, if_pos ((h i j (by omega) hj).mp hlt)]
  · rw [if_neg hlt, if_neg (fun e => hlt ((h i j (by omega) hj).mpr e))]

theorem matmul_cast {d p : ℕ} (hd : 0 < d) (A B : ℕ → ℕ → ℤ) (a b : Matrix (Fin p → Fin d) (Fin p → Fin d) ℚ)
    (ca cb : ℚ) (hA : ∀ y x, ((A (encD y) (encD x) : ℤ) : ℚ) = ca * a y x)
    (hB : ∀ y x, ((B (encD y) (encD x) : ℤ) : ℚ) = cb * b y x) (y x : Fin p → Fin d) :
    ((sumN (d ^ p) (fun k => A (encD y) k * B k (encD x)) : ℤ) : ℚ) = ca * cb * (a * b) y x := by
  rw [← prodN_const d p, sumN_eq_sum_digits hd, Matrix.mul_apply, Finset.mul_sum]
  push_cast
  apply Finset.sum_congr rfl
  intro z _
  rw [hA, hB]; ring

set_option maxRecDepth 100000 in
theorem sym_trace_table : ∀ dp ∈ rankTable,
    traceN (dp.1 ^ dp.2) (symRefN dp.1 dp.2) = (Nat.factorial dp.2 * Nat.choose (dp.1 + dp.2 - 1) dp.2 : ℕ) := by
  decide +kernel

set_option maxRecDepth 100000 in
theorem anti_trace_table : ∀ dp ∈ rankTable,
    traceN (dp.1 ^ dp.2) (antisymRefN dp.1 dp.2) = (Nat.factorial dp.2 * Nat.choose dp.1 dp.2 : ℕ) := by
  decide +kernel

theorem rankTable_pos : ∀ dp ∈ rankTable, 0 < dp.1 := by decide


end Toq.Combinat
