import Toq.Core.Idx
/-! Lemmas on the index arithmetic of `Toq.Core.Idx` (core Lean only). -/

theorem prodN_congr (d e : Nat → Nat) : ∀ n, (∀ k, k < n → d k = e k) → prodN d n = prodN e n
  | 0, _ => rfl
  | n + 1, h => by simp only [prodN]; rw [prodN_congr d e n (fun k hk => h k (by omega)), h n (by omega)]

theorem prodN_pos (d : Nat → Nat) : ∀ n, (∀ k, k < n → 0 < d k) → 0 < prodN d n
  | 0, _ => by simp [prodN]
  | n + 1, h => by
    simp only [prodN]
    exact Nat.mul_pos (prodN_pos d n (fun k hk => h k (by omega))) (h n (by omega))

theorem enc_lt (d x : Nat → Nat) : ∀ n, (∀ k, k < n → x k < d k) → enc d x n < prodN d n
  | 0, _ => by simp [enc, prodN]
  | n + 1, h => by
    have ih := enc_lt d x n (fun k hk => h k (by omega))
    have hx := h n (by omega)
    simp only [enc, prodN]
    calc enc d x n * d n + x n < enc d x n * d n + d n := by omega
      _ = (enc d x n + 1) * d n := by rw [Nat.add_mul]; simp
      _ ≤ prodN d n * d n := Nat.mul_le_mul_right _ ih

theorem dec_enc (d x : Nat → Nat) : ∀ n, (∀ k, k < n → x k < d k) → ∀ k, k < n →
    dec d n (enc d x n) k = x k
  | 0, _, k, hk => by omega
  | n + 1, h, k, hk => by
    have hx := h n (by omega)
    have hpos : 0 < d n := by omega
    simp only [enc, dec]
    split
    · next hkn => subst hkn; rw [Nat.add_comm, Nat.add_mul_mod_self_right, Nat.mod_eq_of_lt hx]
    · next hkn =>
      have : (enc d x n * d n + x n) / d n = enc d x n := by
        rw [Nat.add_comm, Nat.add_mul_div_right _ _ hpos, Nat.div_eq_of_lt hx, Nat.zero_add]
      rw [this]
      exact dec_enc d x n (fun k hk => h k (by omega)) k (by omega)

theorem dec_lt (d : Nat → Nat) : ∀ n i k, k < n → 0 < d k → dec d n i k < d k
  | 0, _, k, hk, _ => by omega
  | n + 1, i, k, hk, hd => by
    simp only [dec]
    split
    · next h => subst h; exact Nat.mod_lt _ hd
    · next h => exact dec_lt d n _ k (by omega) hd

theorem enc_congr (d e x y : Nat → Nat) : ∀ n, (∀ k, k < n → d k = e k) → (∀ k, k < n → x k = y k) →
    enc d x n = enc e y n
  | 0, _, _ => rfl
  | n + 1, hd, h => by
    simp only [enc]
    rw [enc_congr d e x y n (fun k hk => hd k (by omega)) (fun k hk => h k (by omega)),
      h n (by omega), hd n (by omega)]

theorem dec_congr (d e : Nat → Nat) : ∀ n i k, (∀ m, m < n → d m = e m) → dec d n i k = dec e n i k
  | 0, _, _, _ => rfl
  | n + 1, i, k, h => by
    simp only [dec]
    rw [h n (by omega), dec_congr d e n _ k (fun m hm => h m (by omega))]

theorem enc_dec (d : Nat → Nat) : ∀ n i, i < prodN d n → enc d (dec d n i) n = i
  | 0, i, h => by simp [prodN] at h; simp [enc, h]
  | n + 1, i, h => by
    simp only [enc, prodN] at *
    have hpos : 0 < d n := by
      rcases Nat.eq_zero_or_pos (d n) with h0 | h0
      · simp [h0] at h
      · exact h0
    have hq : i / d n < prodN d n := (Nat.div_lt_iff_lt_mul hpos).mpr h
    have e1 : enc d (dec d (n + 1) i) n = enc d (dec d n (i / d n)) n := by
      apply enc_congr _ _ _ _ _ (fun _ _ => rfl); intro k hk; simp only [dec]; rw [if_neg (by omega)]
    rw [e1, enc_dec d n (i / d n) hq]
    simp only [dec, if_true]
    rw [Nat.mul_comm]; exact Nat.div_add_mod i (d n)

theorem prodN_succ_shift (s : Nat → Nat) : ∀ n, prodN s (n + 1) = s 0 * prodN (fun k => s (k + 1)) n
  | 0 => by simp [prodN]
  | n + 1 => by
    have ih := prodN_succ_shift s n
    simp only [prodN] at ih ⊢
    rw [ih, Nat.mul_assoc]

/-- peel the fastest axis off an F-order index -/
theorem flatF_shift (s idx : Nat → Nat) : ∀ n,
    flatF s idx (n + 1) = flatF (fun k => s (k + 1)) (fun k => idx (k + 1)) n * s 0 + idx 0
  | 0 => by simp [flatF, prodN]
  | n + 1 => by
    have ih := flatF_shift s idx n
    simp only [flatF] at ih ⊢
    rw [ih, prodN_succ_shift s n, Nat.add_mul]
    have : idx (n + 1) * (s 0 * prodN (fun k => s (k + 1)) n)
         = idx (n + 1) * prodN (fun k => s (k + 1)) n * s 0 := by
      rw [Nat.mul_assoc, Nat.mul_comm (s 0)]
    omega

/-- F-order with axes reversed is the big-endian code. -/
theorem flatF_eq_enc_rev : ∀ n (s idx : Nat → Nat),
    flatF s idx n = enc (fun k => s (rev n k)) (fun k => idx (rev n k)) n
  | 0, _, _ => rfl
  | n + 1, s, idx => by
    rw [flatF_shift, flatF_eq_enc_rev n]
    simp only [enc, rev]
    have h1 : enc (fun k => s (n - 1 - k + 1)) (fun k => idx (n - 1 - k + 1)) n
            = enc (fun k => s (n + 1 - 1 - k)) (fun k => idx (n + 1 - 1 - k)) n := by
      apply enc_congr <;> intro k hk <;> congr 1 <;> omega
    rw [h1]; simp

theorem sumN_congr [Add α] [Zero α] (f g : Nat → α) : ∀ n, (∀ k, k < n → f k = g k) → sumN n f = sumN n g
  | 0, _ => rfl
  | n + 1, h => by
    simp only [sumN]; rw [sumN_congr f g n (fun k hk => h k (by omega)), h n (by omega)]

/-! ## `rev`, `unflatF`, `invPerm`, `allBelow`/`anyBelow`, `prodN` vs `prodFn` (appended for C01) -/

theorem rev_lt (n k : Nat) (hk : k < n) : rev n k < n := by unfold rev; omega

theorem rev_rev (n k : Nat) (hk : k < n) : rev n (rev n k) = k := by unfold rev; omega

/-- F-order digit `m` = big-endian digit `rev n m` with respect to the reversed shape. -/
theorem unflatF_eq_dec_rev : ∀ n (s : Nat → Nat) (j m : Nat), m < n →
    unflatF s j m = dec (fun k => s (rev n k)) n j (rev n m)
  | 0, _, _, m, hm => by omega
  | n + 1, s, j, m, hm => by
    simp only [dec]
    split
    · next h =>
      have hm0 : m = 0 := by unfold rev at h; omega
      subst hm0
      simp [unflatF, prodN, rev]
    · next h =>
      have hm1 : 1 ≤ m := by unfold rev at h; omega
      have ih := unflatF_eq_dec_rev n (fun k => s (k + 1)) (j / s 0) (m - 1) (by omega)
      have e1 : unflatF s j m = unflatF (fun k => s (k + 1)) (j / s 0) (m - 1) := by
        unfold unflatF
        have hm' : m = (m - 1) + 1 := by omega
        rw [Nat.div_div_eq_div_mul, ← prodN_succ_shift]
        show j / prodN s m % s m = j / prodN s (m - 1 + 1) % s (m - 1 + 1)
        rw [← hm']
      have e2 : rev (n + 1) m = rev n (m - 1) := by unfold rev; omega
      have e3 : s (rev (n + 1) n) = s 0 := by simp [rev]
      rw [e1, ih, e2, e3]
      apply dec_congr
      intro k hk
      show s (rev n k + 1) = s (rev (n + 1) k)
      congr 1; unfold rev; omega

theorem invPerm_go_spec (p : Nat → Nat) (m : Nat) : ∀ f k,
    k ≤ invPerm.go p m f k ∧ invPerm.go p m f k ≤ k + f ∧
    (∀ i, k ≤ i → i < invPerm.go p m f k → p i ≠ m) ∧
    (invPerm.go p m f k < k + f → p (invPerm.go p m f k) = m)
  | 0, k => by simp [invPerm.go]; intro i h1 h2; omega
  | f + 1, k => by
    simp only [invPerm.go]
    split
    · next h => refine ⟨by omega, by omega, ?_, fun _ => h⟩; intro i h1 h2; omega
    · next h =>
      obtain ⟨h1, h2, h3, h4⟩ := invPerm_go_spec p m f (k + 1)
      refine ⟨by omega, by omega, ?_, fun hlt => h4 (by omega)⟩
      intro i hi1 hi2
      by_cases hik : i = k
      · subst hik; exact h
      · exact h3 i (by omega) hi2

theorem invPerm_le (n : Nat) (p : Nat → Nat) (m : Nat) : invPerm n p m ≤ n := by
  have := (invPerm_go_spec p m n 0).2.1; simpa [invPerm] using this

theorem invPerm_min (n : Nat) (p : Nat → Nat) (m i : Nat) (hi : i < invPerm n p m) : p i ≠ m :=
  (invPerm_go_spec p m n 0).2.2.1 i (Nat.zero_le _) hi

theorem invPerm_apply (n : Nat) (p : Nat → Nat) (m : Nat) (h : invPerm n p m < n) :
    p (invPerm n p m) = m :=
  (invPerm_go_spec p m n 0).2.2.2 (by simpa [invPerm] using h)

/-- if some position `< n` hits `m`, `invPerm` finds one -/
theorem invPerm_lt_of_hit (n : Nat) (p : Nat → Nat) (m k : Nat) (hk : k < n) (hpk : p k = m) :
    invPerm n p m ≤ k ∧ invPerm n p m < n ∧ p (invPerm n p m) = m := by
  have h1 : invPerm n p m ≤ k := by
    rcases Nat.lt_or_ge k (invPerm n p m) with h | h
    · exact absurd hpk (invPerm_min n p m k h)
    · exact h
  have h2 : invPerm n p m < n := by omega
  exact ⟨h1, h2, invPerm_apply n p m h2⟩

/-- for `p` injective on `0..n-1`, `invPerm n p m` is *the* position `k < n` with `p k = m` -/
theorem invPerm_eq_of (n : Nat) (p : Nat → Nat)
    (hinj : ∀ a b, a < n → b < n → p a = p b → a = b) (m k : Nat) (hk : k < n) (hpk : p k = m) :
    invPerm n p m = k := by
  obtain ⟨_, h2, h3⟩ := invPerm_lt_of_hit n p m k hk hpk
  exact hinj _ _ h2 hk (by rw [h3, hpk])

theorem invPerm_go_congr (p q : Nat → Nat) (m : Nat) : ∀ f k, (∀ i, k ≤ i → i < k + f → p i = q i) →
    invPerm.go p m f k = invPerm.go q m f k
  | 0, _, _ => rfl
  | f + 1, k, h => by
    simp only [invPerm.go]
    rw [h k (by omega) (by omega), invPerm_go_congr p q m f (k + 1) (fun i h1 h2 => h i (by omega) (by omega))]

theorem invPerm_congr (n : Nat) (p q : Nat → Nat) (m : Nat) (h : ∀ k, k < n → p k = q k) :
    invPerm n p m = invPerm n q m :=
  invPerm_go_congr p q m n 0 (fun i _ hi => h i (by omega))

theorem allBelow_iff (q : Nat → Bool) : ∀ n, allBelow n q = true ↔ ∀ k, k < n → q k = true
  | 0 => by simp [allBelow]
  | n + 1 => by
    simp only [allBelow, Bool.and_eq_true, allBelow_iff q n]
    constructor
    · rintro ⟨h1, h2⟩ k hk
      by_cases hkn : k = n
      · subst hkn; exact h2
      · exact h1 k (by omega)
    · intro h; exact ⟨fun k hk => h k (by omega), h n (by omega)⟩

theorem anyBelow_iff (q : Nat → Bool) : ∀ n, anyBelow n q = true ↔ ∃ k, k < n ∧ q k = true
  | 0 => by simp [anyBelow]
  | n + 1 => by
    simp only [anyBelow, Bool.or_eq_true, anyBelow_iff q n]
    constructor
    · rintro (⟨k, hk, h⟩ | h)
      · exact ⟨k, by omega, h⟩
      · exact ⟨n, by omega, h⟩
    · rintro ⟨k, hk, h⟩
      by_cases hkn : k = n
      · subst hkn; exact Or.inr h
      · exact Or.inl ⟨k, by omega, h⟩

theorem prodN_eq_prodFn (d : Nat → Nat) : ∀ n, prodN d n = prodFn n d
  | 0 => rfl
  | n + 1 => by simp only [prodN, prodFn, prodN_eq_prodFn d n]

theorem prodFn_congr [Mul α] [One α] (f g : Nat → α) : ∀ n, (∀ k, k < n → f k = g k) →
    prodFn n f = prodFn n g
  | 0, _ => rfl
  | n + 1, h => by
    simp only [prodFn]; rw [prodFn_congr f g n (fun k hk => h k (by omega)), h n (by omega)]
