import Toq.Core.Idx
/-! Lemmas on the index arithmetic of `Toq.Core.Idx` (core Lean only). -/

theorem prodN_congr (d e : Nat → Nat) : ∀ n, (∀ k, k < n → d k = e k) → prodN d n = prodN e n
  | 0, _ => rfl
  | n + 1, h => by simp only [prodN]; rw [prodN_congr d e n (fun k hk => h k (by omega)), h n (by omega)]

theorem prodN_pos (d : Nat → Nat) : ∀ n, (∀ k, k < n → 0 < d k) → 0 < prodN d n
  | 0, _ => by simp [prodN]
  | n + 1, h => by
    simp only [prodN]
    exact Nat.mul_pos (prodN_pos d n (fun k hk => h k (by omega))) (h n (by omega))

theorem enc_lt (d x : Nat → Nat) : ∀ n, (∀ k, k < n → x k < d k) → enc d x n < prodN d n
  | 0, _ => by simp [enc, prodN]
  | n + 1, h => by
    have ih := enc_lt d x n (fun k hk => h k (by omega))
    have hx := h n (by omega)
    simp only [enc, prodN]
    calc enc d x n * d n + x n < enc d x n * d n + d n := by omega
      _ = (enc d x n + 1) * d n := by rw [Nat.add_mul]; simp
      _ ≤ prodN d n * d n := Nat.mul_le_mul_right _ ih

theorem dec_enc (d x : Nat → Nat) : ∀ n, (∀ k, k < n → x k < d k) → ∀ k, k < n →
    dec d n (enc d x n) k = x k
  | 0, _, k, hk => by omega
  | n + 1, h, k, hk => by
    have hx := h n (by omega)
    have hpos : 0 < d n := by omega
    simp only [enc, dec]
    split
    · next hkn => subst hkn; rw [Nat.add_comm, Nat.add_mul_mod_self_right, Nat.mod_eq_of_lt hx]
    · next hkn =>
      have : (enc d x n * d n + x n) / d n = enc d x n := by
        rw [Nat.add_comm, Nat.add_mul_div_right _ _ hpos, Nat.div_eq_of_lt hx, Nat.zero_add]
      rw [this]
      exact dec_enc d x n (fun k hk => h k (by omega)) k (by omega)

theorem dec_lt (d : Nat → Nat) : ∀ n i k, k < n → 0 < d k → dec d n i k < d k
  | 0, _, k, hk, _ => by omega
  | n + 1, i, k, hk, hd => by
    simp only [dec]
    split
    · next h => subst h; exact Nat.mod_lt _ hd
    · next h => exact dec_lt d n _ k (by omega) hd

theorem enc_congr (d e x y : Nat → Nat) : ∀ n, (∀ k, k < n → d k = e k) → (∀ k, k < n → x k = y k) →
    enc d x n = enc e y n
  | 0, _, _ => rfl
  | n + 1, hd, h => by
    simp only [enc]
    rw [enc_congr d e x y n (fun k hk => hd k (by omega)) (fun k hk => h k (by omega)),
      h n (by omega), hd n (by omega)]

theorem dec_congr (d e : Nat → Nat) : ∀ n i k, (∀ m, m < n → d m = e m) → dec d n i k = dec e n i k
  | 0, _, _, _ => rfl
  | n + 1, i, k, h => by
    simp only [dec]
    rw [h n (by omega), dec_congr d e n _ k (fun m hm => h m (by omega))]

theorem enc_dec (d : Nat → Nat) : ∀ n i, i < prodN d n → enc d (dec d n i) n = i
  | 0, i, h => by simp [prodN] at h; simp [enc, h]
  | n + 1, i, h => by
    simp only [enc, prodN] at *
    have hpos : 0 < d n := by
      rcases Nat.eq_zero_or_pos (d n) with h0 | h0
      · simp [h0] at h
      · exact h0
    have hq : i / d n < prodN d n := (Nat.div_lt_iff_lt_mul hpos).mpr h
    have e1 : enc d (dec d (n + 1) i) n = enc d (dec d n (i / d n)) n := by
      apply enc_congr _ _ _ _ _ (fun _ _ => rfl); intro k hk; simp only [dec]; rw [if_neg (by omega)]
    rw [e1, enc_dec d n (i / d n) hq]
    simp only [dec, if_true]
    rw [Nat.mul_comm]; exact Nat.div_add_mod i (d n)

theorem prodN_succ_shift (s : Nat → Nat) : ∀ n, prodN s (n + 1) = s 0 * prodN (fun k => s (k + 1)) n
  | 0 => by simp [prodN]
  | n + 1 => by
    have ih := prodN_succ_shift s n
    simp only [prodN] at ih ⊢
    rw [ih, Nat.mul_assoc]

/-- peel the fastest axis off an F-order index -/
theorem flatF_shift (s idx : Nat → Nat) : ∀ n,
    flatF s idx (n + 1) = flatF (fun k => s (k + 1)) (fun k => idx (k + 1)) n * s 0 + idx 0
  | 0 => by simp [flatF, prodN]
  | n + 1 => by
    have ih := flatF_shift s idx n
    simp only [flatF] at ih ⊢
    rw [ih, prodN_succ_shift s n, Nat.add_mul]
    have : idx (n + 1) * (s 0 * prodN (fun k => s (k + 1)) n)
         = idx (n + 1) * prodN (fun k => s (k + 1)) n * s 0 := by
      rw [Nat.mul_assoc, Nat.mul_comm (s 0)]
    omega

/-- F-order with axes reversed is the big-endian code. -/
theorem flatF_eq_enc_rev : ∀ n (s idx : Nat → Nat),
    flatF s idx n = enc (fun k => s (rev n k)) (fun k => idx (rev n k)) n
  | 0, _, _ => rfl
  | n + 1, s, idx => by
    rw [flatF_shift, flatF_eq_enc_rev n]
    simp only [enc, rev]
    have h1 : enc (fun k => s (n - 1 - k + 1)) (fun k => idx (n - 1 - k + 1)) n
            = enc (fun k => s (n + 1 - 1 - k)) (fun k => idx (n + 1 - 1 - k)) n := by
      apply enc_congr <;> intro k hk <;> congr 1 <;> omega
    rw [h1]; simp

theorem sumN_congr [Add α] [Zero α] (f g : Nat → α) : ∀ n, (∀ k, k < n → f k = g k) → sumN n f = sumN n g
  | 0, _ => rfl
  | n + 1, h => by
    simp only [sumN]; rw [sumN_congr f g n (fun k hk => h k (by omega)), h n (by omega)]
