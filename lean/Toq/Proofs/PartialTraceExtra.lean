import Toq.Proofs.PartialTrace
import Toq.Proofs.PartialOpsArgs
import Toq.Properties.C01
import Mathlib.Algebra.Star.Basic
import Mathlib.LinearAlgebra.Matrix.PosDef
/-!
# More algebra of the partial-trace specification (C02): Hermiticity and positive semidefiniteness
are preserved.

`toMat d A` reads the `d × d` corner of a function matrix `A : Nat → Nat → R` as a Mathlib matrix, so
that Mathlib's `Matrix.IsHermitian` / `Matrix.PosSemidef` can be used.  The partial trace is the sum
over the traced labels `t` of the compressions `X[join · t, join · t]` of `X`; every compression of a
positive semidefinite matrix is positive semidefinite (`Matrix.PosSemidef.submatrix`) and so is a sum.
-/
open Toq.Perms Toq.PartialOps Toq.C01
namespace Toq.PTrace

/-- the `d × d` corner of a function matrix as a Mathlib matrix -/
def toMat {R : Type} (d : Nat) (A : Nat → Nat → R) : Matrix (Fin d) (Fin d) R := fun i j => A i j

theorem toMat_apply {R : Type} (d : Nat) (A : Nat → Nat → R) (i j : Fin d) : toMat d A i j = A i j := rfl

/-- **Hermiticity is preserved** (entry form): if `X[J, I] = star X[I, J]` on the `N × N` block then
    the same holds for the partial trace -/
theorem ptraceSpec_star {α : Type} [AddMonoid α] [StarAddMonoid α] (X : Nat → Nat → α) (n : Nat)
    (dims : Nat → Nat) (S : List Nat) (hd : ∀ k, k < n → 0 < dims k)
    (hX : ∀ I J, I < prodN dims n → J < prodN dims n → X J I = star (X I J)) (i j : Nat) :
    ptraceSpec X n dims S j i = star (ptraceSpec X n dims S i j) := by
  unfold ptraceSpec
  rw [sumN_map (star : α → α) (star_zero α) (star_add)]
  apply sumN_congr
  intro t _
  exact hX _ _ (join_lt n dims S hd i t) (join_lt n dims S hd j t)

/-- the partial trace as a sum of compressions of `X` -/
theorem toMat_ptraceSpec {R : Type} [AddCommMonoid R] (X : Nat → Nat → R) (n : Nat) (dims : Nat → Nat)
    (S : List Nat) (hd : ∀ k, k < n → 0 < dims k) :
    toMat (subDim dims (others n S)) (ptraceSpec X n dims S)
      = ∑ t ∈ Finset.range (subDim dims S),
          (toMat (prodN dims n) X).submatrix
            (fun i : Fin (subDim dims (others n S)) => ⟨join n dims S i t, join_lt n dims S hd i t⟩)
            (fun i : Fin (subDim dims (others n S)) => ⟨join n dims S i t, join_lt n dims S hd i t⟩) := by
  ext i j
  rw [Matrix.sum_apply]
  show ptraceSpec X n dims S i j = _
  unfold ptraceSpec
  rw [sumN_eq_finset]
  rfl

/-- **Positive semidefiniteness is preserved**: if the `N × N` operator `X` is positive semidefinite
    (Mathlib's `Matrix.PosSemidef`: Hermitian with non-negative quadratic form) then so is its partial
    trace over any list of subsystems -/
theorem ptraceSpec_posSemidef {R : Type} [Ring R] [PartialOrder R] [StarRing R] [AddLeftMono R]
    (X : Nat → Nat → R) (n : Nat) (dims : Nat → Nat) (S : List Nat) (hd : ∀ k, k < n → 0 < dims k)
    (hX : (toMat (prodN dims n) X).PosSemidef) :
    (toMat (subDim dims (others n S)) (ptraceSpec X n dims S)).PosSemidef := by
  rw [toMat_ptraceSpec X n dims S hd]
  exact Matrix.posSemidef_sum _ (fun t _ => hX.submatrix _)

/-- Hermiticity in Mathlib's form -/
theorem ptraceSpec_isHermitian {R : Type} [AddCommMonoid R] [StarAddMonoid R]
    (X : Nat → Nat → R) (n : Nat) (dims : Nat → Nat) (S : List Nat) (hd : ∀ k, k < n → 0 < dims k)
    (hX : (toMat (prodN dims n) X).IsHermitian) :
    (toMat (subDim dims (others n S)) (ptraceSpec X n dims S)).IsHermitian := by
  ext i j
  rw [Matrix.conjTranspose_apply]
  show star (ptraceSpec X n dims S j i) = ptraceSpec X n dims S i j
  rw [ptraceSpec_star X n dims S hd _ j i]
  intro I J hI hJ
  have := congrFun (congrFun hX ⟨I, hI⟩) ⟨J, hJ⟩
  rw [Matrix.conjTranspose_apply] at this
  show X J I = star (X I J)
  rw [← star_star (X J I)]
  exact congrArg star this

/-- the model output, restricted to its `K × K` block, is the specification -/
theorem toMat_partialTrace {R : Type} [Add R] [Zero R] (X : Nat → Nat → R) (n : Nat) (dims : Nat → Nat)
    (S : List Nat) (hd : ∀ k, k < n → 0 < dims k) (hnd : S.Nodup) (hlt : ∀ s ∈ S, s < n) :
    toMat (subDim dims (others n S)) (partialTrace X n dims S)
      = toMat (subDim dims (others n S)) (ptraceSpec X n dims S) := by
  ext i j
  exact partialTrace_eq_spec n dims S hd hnd hlt X i j i.2 j.2

/-! ### the mechanism: permute the traced subsystems to the end, trace the trailing block -/

/-- the trailing block `m, m+1, …, m+s-1` of `n = m + s` subsystems -/
def trailing (m s : Nat) : List Nat := List.range' m s

theorem others_trailing (m s : Nat) : others (m + s) (trailing m s) = List.range m := by
  unfold others trailing
  rw [List.range_add, List.filter_append]
  have h1 : (List.range m).filter (fun k => decide (k ∉ List.range' m s)) = List.range m := by
    apply List.filter_eq_self.mpr
    intro a ha
    have := List.mem_range.mp ha
    simp only [List.mem_range'_1, not_and, not_lt, decide_eq_true_eq]
    omega
  have h2 : ((List.range s).map (m + ·)).filter (fun k => decide (k ∉ List.range' m s)) = [] := by
    apply List.filter_eq_nil_iff.mpr
    intro a ha
    obtain ⟨b, hb, rfl⟩ := List.mem_map.mp ha
    have := List.mem_range.mp hb
    simp only [List.mem_range'_1, not_and, not_lt, decide_eq_true_eq, not_forall, not_le]
    exact ⟨by omega, by omega⟩
  rw [h1, h2, List.append_nil]

theorem range_append_trailing (m s : Nat) : List.range m ++ trailing m s = List.range (m + s) := by
  unfold trailing
  rw [List.range_eq_range', List.range_eq_range']
  have := List.range'_append (s := 0) (m := m) (n := s) (step := 1)
  simpa using this

theorem fnOfList_range (n k : Nat) (hk : k < n) : fnOfList (List.range n) 0 k = k := by
  unfold fnOfList
  rw [List.getD_eq_getElem _ _ (by simpa using hk)]
  simp

/-- tracing the trailing block: the joined index is `i * T + t` -/
theorem join_trailing (m s : Nat) (d : Nat → Nat) (i t : Nat)
    (hi : i < subDim d (List.range m)) (ht : t < subDim d (trailing m s)) :
    join (m + s) d (trailing m s) i t = i * subDim d (trailing m s) + t := by
  have hnd : (trailing m s).Nodup := List.nodup_range'
  have hlt : ∀ x ∈ trailing m s, x < m + s := by
    intro x hx
    have := List.mem_range'_1.mp hx
    omega
  rw [← specIndex_eq_join (m + s) d (trailing m s) hnd hlt i t ht, others_trailing, range_append_trailing]
  rw [specIndex_congr (m + s) _ (fun k => k) d d (fun k hk => by rw [fnOfList_range _ k hk]; exact hk)
    (fun k hk => fnOfList_range _ k hk) (fun _ _ => rfl)]
  apply specIndex_id
  have hN := prodN_eq_mul (m + s) d (trailing m s) hnd hlt
  rw [others_trailing] at hN
  rw [hN]
  calc i * subDim d (trailing m s) + t < i * subDim d (trailing m s) + subDim d (trailing m s) := by omega
    _ = (i + 1) * subDim d (trailing m s) := by ring
    _ ≤ _ := Nat.mul_le_mul_right _ hi

theorem subDim_comp_others (n : Nat) (dims : Nat → Nat) (S : List Nat) :
    subDim (fun k => dims (fnOfList (others n S ++ S) 0 k)) (List.range (others n S).length)
        = subDim dims (others n S) ∧
    subDim (fun k => dims (fnOfList (others n S ++ S) 0 k)) (trailing (others n S).length S.length)
        = subDim dims S := by
  constructor
  · unfold subDim subDims
    rw [List.length_range]
    apply prodN_congr
    intro q hq
    show dims (fnOfList (others n S ++ S) 0 ((List.range (others n S).length).getD q 0)) = _
    rw [List.getD_eq_getElem _ _ (by simpa using hq)]
    simp only [List.getElem_range]
    unfold fnOfList
    rw [List.getD_append _ _ _ _ hq]
  · unfold subDim subDims trailing
    rw [List.length_range']
    apply prodN_congr
    intro q hq
    show dims (fnOfList (others n S ++ S) 0 ((List.range' (others n S).length S.length).getD q 0)) = _
    rw [List.getD_eq_getElem _ _ (by simpa using hq)]
    simp only [List.getElem_range', Nat.one_mul]
    unfold fnOfList
    rw [List.getD_append_right _ _ _ _ (by omega)]
    congr 2
    omega

/-- **Mechanism of the code, and the link to C01**: tracing out `S` is tracing out the trailing block of
    the operator whose subsystems have been permuted by `permute_systems` with `perm = others ++ S` -/
theorem ptraceSpec_via_permute {α : Type} [Add α] [Zero α] (X : Nat → Nat → α) (n : Nat) (dims : Nat → Nat)
    (S : List Nat) (hnd : S.Nodup) (hlt : ∀ s ∈ S, s < n) (i j : Nat)
    (hi : i < subDim dims (others n S)) (hj : j < subDim dims (others n S)) :
    ptraceSpec X n dims S i j
      = ptraceSpec (permuteMat X n (fnOfList (others n S ++ S)) dims dims false false) n
          (fun k => dims (fnOfList (others n S ++ S) 0 k)) (trailing (others n S).length S.length) i j := by
  have hlen := others_append_length n S hnd hlt
  rw [List.length_append] at hlen
  obtain ⟨e1, e2⟩ := subDim_comp_others n dims S
  have hp : IsPermN n (fnOfList (others n S ++ S) 0) := ⟨perm_lt n S hnd hlt, perm_inj n S hnd hlt⟩
  unfold ptraceSpec
  rw [e2]
  apply sumN_congr
  intro t ht
  have hn : n = (others n S).length + S.length := hlen.symm
  have hjoin : ∀ a, a < subDim dims (others n S) →
      join n (fun k => dims (fnOfList (others n S ++ S) 0 k)) (trailing (others n S).length S.length) a t
        = a * subDim dims S + t := by
    intro a ha
    have := join_trailing (others n S).length S.length (fun k => dims (fnOfList (others n S ++ S) 0 k)) a t
      (by rw [e1]; exact ha) (by rw [e2]; exact ht)
    rw [e2, ← hn] at this
    exact this
  rw [hjoin i hi, hjoin j hj, permuteMat_eq_spec X n _ dims dims hp]
  simp only [Bool.false_eq_true, if_false]
  rw [specIndex_eq_join n dims S hnd hlt i t ht, specIndex_eq_join n dims S hnd hlt j t ht]

end Toq.PTrace
