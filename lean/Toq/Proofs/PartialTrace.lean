import Toq.Model.PartialOps
import Toq.Spec.PartialTrace
import Toq.Proofs.Idx
import Toq.Proofs.Perms
import Mathlib.Data.List.Basic
import Mathlib.Data.List.Nodup
import Mathlib.Data.List.GetD
import Mathlib.Data.List.Perm.Basic
import Mathlib.Algebra.BigOperators.Group.Finset.Basic
import Mathlib.Algebra.Ring.Defs
import Mathlib.Tactic.Ring
/-!
# Helper lemmas for C02 (partial trace): the mirror model `Toq.PartialOps.partialTrace` computes
`Toq.PTrace.ptraceSpec`, and the algebra of the specification.
-/
open Toq.Perms Toq.PartialOps
namespace Toq.PTrace


/-! ### the reshape / transpose / strided-pick pipeline -/

theorem prodN_lit0 (d : Nat → Nat) : prodN d 0 = 1 := rfl
theorem prodN_lit1 (d : Nat → Nat) : prodN d 1 = d 0 := by simp [prodN]
theorem prodN_lit2 (d : Nat → Nat) : prodN d 2 = d 0 * d 1 := by simp [prodN]
theorem prodN_lit3 (d : Nat → Nat) : prodN d 3 = d 0 * d 1 * d 2 := by simp [prodN]

theorem divmod_step (x A y : Nat) (hx : x < A) : (x + A * y) % A = x ∧ (x + A * y) / A = y := by
  have hA : 0 < A := by omega
  constructor
  · rw [Nat.add_mul_mod_self_left, Nat.mod_eq_of_lt hx]
  · rw [Nat.add_mul_div_left _ _ hA, Nat.div_eq_of_lt hx, Nat.zero_add]

theorem pipeline_entry {α : Type} (a : Nat → Nat → α) (N T K : Nat) (hN : N = K * T)
    (i j t : Nat) (hi : i < K) (hj : j < K) (ht : t < T) :
    (ND.ofFlatF ((ND.ofFlatF (matFlatF a N) 4 (fnOfList [T, K, T, K])).transpose
        (fnOfList [1, 3, 0, 2])).vecF 3 (fnOfList [K, K, T * T])).get (fnOfList [i, j, t * (T + 1)])
      = a (i * T + t) (j * T + t) := by
  simp only [ND.ofFlatF, ND.transpose, ND.vecF, matFlatF, flatF, prodN, fnOfList, unflatF, invPerm, invPerm.go]
  simp [prodN_lit0, prodN_lit1, prodN_lit2, prodN_lit3]
  have ef : i + j * K + t * (T + 1) * (K * K) = i + K * (j + K * (t + T * t)) := by ring
  obtain ⟨a0, b0⟩ := divmod_step i K (j + K * (t + T * t)) hi
  obtain ⟨a1, b1⟩ := divmod_step j K (t + T * t) hj
  obtain ⟨a2, b2⟩ := divmod_step t T t ht
  have a3 : t % T = t := Nat.mod_eq_of_lt ht
  generalize i + j * K + t * (T + 1) * (K * K) = f at ef ⊢
  have e0 : f % K = i := by rw [ef, a0]
  have e1 : f / K % K = j := by rw [ef, b0, a1]
  have e2 : f / (K * K) % T = t := by rw [ef, ← Nat.div_div_eq_div_mul, b0, b1, a2]
  have e3 : f / (K * K * T) % T = t := by
    rw [ef, ← Nat.div_div_eq_div_mul, ← Nat.div_div_eq_div_mul, b0, b1, b2, a3]
  rw [e0, e1, e2, e3]
  have hlt : i * T + t < N := by
    rw [hN]
    calc i * T + t < i * T + T := by omega
      _ = (i + 1) * T := by ring
      _ ≤ K * T := Nat.mul_le_mul_right _ hi
  have er : t + i * T + t * (T * K) + j * (T * K * T) = (i * T + t) + N * (j * T + t) := by
    rw [hN]; ring
  obtain ⟨a4, b4⟩ := divmod_step (i * T + t) N (j * T + t) hlt
  rw [er, a4, b4]

/-! ### the permutation `others ++ S` -/

theorem setDiff_eq_others (n : Nat) (S : List Nat) : setDiff n S = others n S := by
  unfold setDiff others
  apply List.filter_congr
  intro k _
  simp

theorem mem_others {n : Nat} {S : List Nat} {k : Nat} : k ∈ others n S ↔ k < n ∧ k ∉ S := by
  simp [others]

theorem others_nodup (n : Nat) (S : List Nat) : (others n S).Nodup :=
  List.Nodup.filter _ List.nodup_range

theorem others_append_perm (n : Nat) (S : List Nat) (hnd : S.Nodup) (hlt : ∀ s ∈ S, s < n) :
    (others n S ++ S).Perm (List.range n) := by
  rw [List.perm_ext_iff_of_nodup]
  · intro a
    simp only [List.mem_append, mem_others, List.mem_range]
    constructor
    · rintro (⟨h, _⟩ | h)
      · exact h
      · exact hlt a h
    · intro h
      by_cases ha : a ∈ S
      · exact Or.inr ha
      · exact Or.inl ⟨h, ha⟩
  · rw [List.nodup_append]
    refine ⟨others_nodup n S, hnd, ?_⟩
    intro a ha b hb hab
    subst hab
    exact (mem_others.mp ha).2 hb
  · exact List.nodup_range

theorem others_append_length (n : Nat) (S : List Nat) (hnd : S.Nodup) (hlt : ∀ s ∈ S, s < n) :
    (others n S ++ S).length = n := by
  rw [(others_append_perm n S hnd hlt).length_eq, List.length_range]

theorem fnOfList_lt_of_perm (n : Nat) (L : List Nat) (hp : L.Perm (List.range n)) (k : Nat)
    (hk : k < n) : fnOfList L 0 k < n := by
  have hlen : L.length = n := by rw [hp.length_eq, List.length_range]
  have : fnOfList L 0 k ∈ L := by
    unfold fnOfList
    rw [List.getD_eq_getElem _ _ (by omega)]
    exact List.getElem_mem _
  exact List.mem_range.mp (hp.mem_iff.mp this)

theorem fnOfList_inj_of_nodup (L : List Nat) (hnd : L.Nodup) (a b : Nat) (ha : a < L.length)
    (hb : b < L.length) (h : fnOfList L 0 a = fnOfList L 0 b) : a = b := by
  unfold fnOfList at h
  rw [List.getD_eq_getElem _ _ ha, List.getD_eq_getElem _ _ hb] at h
  exact (hnd.getElem_inj_iff).mp h

theorem invPerm_fnOfList (L : List Nat) (hnd : L.Nodup) (k : Nat) (hk : k ∈ L) :
    invPerm L.length (fnOfList L 0) k = L.idxOf k := by
  have hlt : L.idxOf k < L.length := List.idxOf_lt_length_of_mem hk
  apply invPerm_eq_of L.length (fnOfList L 0) (fnOfList_inj_of_nodup L hnd) k _ hlt
  unfold fnOfList
  rw [List.getD_eq_getElem _ _ hlt]
  exact List.getElem_idxOf hlt

/-! ### products and digits over a concatenated list -/

theorem prodN_add (d : Nat → Nat) (a : Nat) : ∀ b,
    prodN d (a + b) = prodN d a * prodN (fun m => d (a + m)) b
  | 0 => by simp [prodN]
  | b + 1 => by
    show prodN d (a + b) * d (a + b) = prodN d a * (prodN (fun m => d (a + m)) b * d (a + b))
    rw [prodN_add d a b, Nat.mul_assoc]

theorem subDims_append_left (dims : Nat → Nat) (L1 L2 : List Nat) (m : Nat) (hm : m < L1.length) :
    subDims dims (L1 ++ L2) m = subDims dims L1 m := by
  unfold subDims; rw [List.getD_append _ _ _ _ hm]

theorem subDims_append_right (dims : Nat → Nat) (L1 L2 : List Nat) (m : Nat) :
    subDims dims (L1 ++ L2) (L1.length + m) = subDims dims L2 m := by
  unfold subDims; rw [List.getD_append_right _ _ _ _ (by omega)]; congr 2; omega

theorem subDim_append (dims : Nat → Nat) (L1 L2 : List Nat) :
    subDim dims (L1 ++ L2) = subDim dims L1 * subDim dims L2 := by
  unfold subDim
  rw [List.length_append, prodN_add]
  congr 1
  · exact prodN_congr _ _ _ (fun k hk => subDims_append_left dims L1 L2 k hk)
  · exact prodN_congr _ _ _ (fun k _ => subDims_append_right dims L1 L2 k)

theorem subDim_nil (dims : Nat → Nat) : subDim dims [] = 1 := rfl

theorem subDim_singleton (dims : Nat → Nat) (a : Nat) : subDim dims [a] = dims a := by
  simp [subDim, subDims, prodN]

theorem foldl_eq_subDim (dims : Nat → Nat) (S : List Nat) (c : Nat) :
    S.foldl (fun acc k => acc * dims k) c = c * subDim dims S := by
  induction S generalizing c with
  | nil => simp [subDim_nil]
  | cons a S ih =>
    rw [List.foldl_cons, ih, show a :: S = [a] ++ S from rfl, subDim_append, subDim_singleton,
      Nat.mul_assoc]

theorem prodList_eq_subDim (dims : Nat → Nat) (S : List Nat) : prodList dims S = subDim dims S := by
  unfold prodList; rw [foldl_eq_subDim, Nat.one_mul]

theorem subDims_idxOf (dims : Nat → Nat) (L : List Nat) (k : Nat) (hk : k ∈ L) :
    subDims dims L (L.idxOf k) = dims k := by
  have hlt : L.idxOf k < L.length := List.idxOf_lt_length_of_mem hk
  unfold subDims
  rw [List.getD_eq_getElem _ _ hlt, List.getElem_idxOf hlt]

theorem subDim_pos (dims : Nat → Nat) (L : List Nat) (hd : ∀ k ∈ L, 0 < dims k) : 0 < subDim dims L := by
  apply prodN_pos
  intro m hm
  unfold subDims
  rw [List.getD_eq_getElem _ _ hm]
  exact hd _ (List.getElem_mem _)

theorem digitOn_lt (dims : Nat → Nat) (L : List Nat) (t k : Nat) (hk : k ∈ L) (hd : 0 < dims k) :
    digitOn dims L t k < dims k := by
  have h := dec_lt (subDims dims L) L.length t (L.idxOf k) (List.idxOf_lt_length_of_mem hk)
    (by rw [subDims_idxOf dims L k hk]; exact hd)
  rwa [subDims_idxOf dims L k hk] at h

/-- digits of `i * P + t` for a radix vector split as `a` leading and `b` trailing positions -/
theorem dec_add (d : Nat → Nat) (a : Nat) : ∀ (b i t m : Nat), t < prodN (fun m => d (a + m)) b →
    m < a + b →
    dec d (a + b) (i * prodN (fun m => d (a + m)) b + t) m
      = if m < a then dec d a i m else dec (fun m => d (a + m)) b t (m - a)
  | 0, i, t, m, ht, hm => by
    have ht0 : t = 0 := by simpa [prodN] using ht
    subst ht0
    simp only [prodN, Nat.add_zero, Nat.mul_one] at hm ⊢
    rw [if_pos hm]
  | b + 1, i, t, m, ht, hm => by
    have hP : prodN (fun m => d (a + m)) (b + 1) = prodN (fun m => d (a + m)) b * d (a + b) := rfl
    rw [hP] at ht ⊢
    have hD : 0 < d (a + b) := by
      rcases Nat.eq_zero_or_pos (d (a + b)) with h0 | h0
      · rw [h0] at ht; simp at ht
      · exact h0
    have hq : t / d (a + b) < prodN (fun m => d (a + m)) b := (Nat.div_lt_iff_lt_mul hD).mpr ht
    have ex : i * (prodN (fun m => d (a + m)) b * d (a + b)) + t
        = t + d (a + b) * (i * prodN (fun m => d (a + m)) b) := by ring
    have e1 : (i * (prodN (fun m => d (a + m)) b * d (a + b)) + t) % d (a + b) = t % d (a + b) := by
      rw [ex, Nat.add_mul_mod_self_left]
    have e2 : (i * (prodN (fun m => d (a + m)) b * d (a + b)) + t) / d (a + b)
        = i * prodN (fun m => d (a + m)) b + t / d (a + b) := by
      rw [ex, Nat.add_mul_div_left _ _ hD, Nat.add_comm]
    show dec d ((a + b) + 1) _ m = _
    simp only [dec]
    by_cases hmab : m = a + b
    · subst hmab
      rw [if_pos rfl, e1, if_neg (by omega), if_pos (by omega)]
    · rw [if_neg hmab, e2, dec_add d a b i (t / d (a + b)) m hq (by omega)]
      by_cases hma : m < a
      · rw [if_pos hma, if_pos hma]
      · rw [if_neg hma, if_neg hma, if_neg (by omega)]

/-- **digits over a concatenated list**: the code `i * dim L2 + t` over `L1 ++ L2` gives the subsystems
    of `L2` the digits of `t` and the subsystems of `L1` the digits of `i` -/
theorem digitOn_append (dims : Nat → Nat) (L1 L2 : List Nat) (i t k : Nat) (ht : t < subDim dims L2)
    (hk : k ∈ L1 ++ L2) (hdisj : k ∈ L2 → k ∉ L1) :
    digitOn dims (L1 ++ L2) (i * subDim dims L2 + t) k
      = if k ∈ L2 then digitOn dims L2 t k else digitOn dims L1 i k := by
  have hP : prodN (fun m => subDims dims (L1 ++ L2) (L1.length + m)) L2.length = subDim dims L2 :=
    prodN_congr _ _ _ (fun k _ => subDims_append_right dims L1 L2 k)
  unfold digitOn
  rw [List.length_append, ← hP]
  rw [dec_add (subDims dims (L1 ++ L2)) L1.length L2.length i t _ (by rw [hP]; exact ht)
    (by rw [← List.length_append]; exact List.idxOf_lt_length_of_mem hk)]
  by_cases h2 : k ∈ L2
  · have h1 := hdisj h2
    rw [if_pos h2, List.idxOf_append_of_notMem h1, if_neg (by omega), Nat.add_sub_cancel_left]
    exact dec_congr _ _ _ _ _ (fun m _ => subDims_append_right dims L1 L2 m)
  · have h1 : k ∈ L1 := by
      rcases List.mem_append.mp hk with h | h
      · exact h
      · exact absurd h h2
    rw [if_neg h2, List.idxOf_append_of_mem h1, if_pos (List.idxOf_lt_length_of_mem h1)]
    exact dec_congr _ _ _ _ _ (fun m hm => subDims_append_left dims L1 L2 m hm)

/-! ### the model computes the specification -/

section bridge
variable (n : Nat) (dims : Nat → Nat) (S : List Nat) (hd : ∀ k, k < n → 0 < dims k)
  (hnd : S.Nodup) (hlt : ∀ s ∈ S, s < n)
include hnd hlt

theorem perm_lt (k : Nat) (hk : k < n) : fnOfList (others n S ++ S) 0 k < n :=
  fnOfList_lt_of_perm n _ (others_append_perm n S hnd hlt) k hk

theorem perm_inj (a b : Nat) (ha : a < n) (hb : b < n)
    (h : fnOfList (others n S ++ S) 0 a = fnOfList (others n S ++ S) 0 b) : a = b := by
  have hlen := others_append_length n S hnd hlt
  have hnd' : (others n S ++ S).Nodup :=
    (others_append_perm n S hnd hlt).nodup_iff.mpr List.nodup_range
  exact fnOfList_inj_of_nodup _ hnd' a b (by omega) (by omega) h

/-- after `permute_systems` with `perm = others ++ S`, position `i * T + t` holds the entry with labels
    `t` on `S` and `i` on the other subsystems -/
theorem specIndex_eq_join (i t : Nat) (ht : t < subDim dims S) :
    specIndex n (fnOfList (others n S ++ S) 0) dims (i * subDim dims S + t) = join n dims S i t := by
  have hlen := others_append_length n S hnd hlt
  have hperm := others_append_perm n S hnd hlt
  have hnd' : (others n S ++ S).Nodup := hperm.nodup_iff.mpr List.nodup_range
  unfold specIndex join
  apply enc_congr _ _ _ _ _ (fun _ _ => rfl)
  intro k hk
  have hkL : k ∈ others n S ++ S := hperm.mem_iff.mpr (List.mem_range.mpr hk)
  have e1 : invPerm n (fnOfList (others n S ++ S) 0) k = (others n S ++ S).idxOf k := by
    have := invPerm_fnOfList _ hnd' k hkL
    rwa [hlen] at this
  rw [e1]
  have e2 := digitOn_append dims (others n S) S i t k ht hkL (fun h2 h1 => (mem_others.mp h1).2 h2)
  rw [← e2]
  unfold digitOn
  rw [hlen]
  rfl

omit hnd in
include hd in
theorem subDim_S_pos : 0 < subDim dims S := subDim_pos dims S (fun k hk => hd k (hlt k hk))

theorem prodN_eq_mul : prodN dims n = subDim dims (others n S) * subDim dims S := by
  rw [← subDim_append, ← prodN_reindex n (fnOfList (others n S ++ S) 0) dims (perm_lt n S hnd hlt)
    (perm_inj n S hnd hlt)]
  unfold subDim
  rw [others_append_length n S hnd hlt]
  rfl

include hd in
/-- the model's `sub_prod = prod_dim / prod_dim_sys` is the dimension of the remaining subsystems -/
theorem model_K : prodN dims n / prodList dims S = subDim dims (others n S) := by
  rw [prodList_eq_subDim, prodN_eq_mul n dims S hnd hlt,
    Nat.mul_div_cancel _ (subDim_S_pos n dims S hd hlt)]

include hd in
theorem partialTrace_eq_spec {α : Type} [Add α] [Zero α] (X : Nat → Nat → α) (i j : Nat)
    (hi : i < subDim dims (others n S)) (hj : j < subDim dims (others n S)) :
    partialTrace X n dims S i j = ptraceSpec X n dims S i j := by
  have hK := model_K n dims S hd hnd hlt
  have hT := prodList_eq_subDim dims S
  have hN := prodN_eq_mul n dims S hnd hlt
  unfold partialTrace ptraceSpec
  rw [hT] at hK
  simp only [hT, hK, setDiff_eq_others]
  apply sumN_congr
  intro t ht
  rw [pipeline_entry _ _ _ _ hN i j t hi hj ht]
  unfold permuteMat permIndex
  simp only [Bool.false_eq_true, if_false]
  rw [permuteVec_false_eq _ n _ dims (perm_lt n S hnd hlt) (perm_inj n S hnd hlt),
    permuteVec_false_eq _ n _ dims (perm_lt n S hnd hlt) (perm_inj n S hnd hlt),
    specIndex_eq_join n dims S hnd hlt i t ht, specIndex_eq_join n dims S hnd hlt j t ht]

end bridge

/-! ### `sumN` algebra -/

theorem sumN_eq_finset {α : Type} [AddCommMonoid α] (f : Nat → α) :
    ∀ n, sumN n f = ∑ i ∈ Finset.range n, f i
  | 0 => by simp [sumN]
  | n + 1 => by rw [Finset.sum_range_succ, ← sumN_eq_finset f n]; rfl

theorem sumN_zero' {α : Type} [AddMonoid α] : ∀ n, sumN n (fun _ => (0 : α)) = 0
  | 0 => rfl
  | n + 1 => by simp only [sumN]; rw [sumN_zero' n, add_zero]

theorem sumN_add_distrib {α : Type} [AddCommMonoid α] (f g : Nat → α) :
    ∀ n, sumN n (fun k => f k + g k) = sumN n f + sumN n g
  | 0 => by simp [sumN]
  | n + 1 => by simp only [sumN]; rw [sumN_add_distrib f g n, add_add_add_comm]

theorem sumN_mul_left {α : Type} [NonUnitalNonAssocSemiring α] (c : α) (f : Nat → α) :
    ∀ n, sumN n (fun k => c * f k) = c * sumN n f
  | 0 => by simp [sumN]
  | n + 1 => by simp only [sumN]; rw [sumN_mul_left c f n, mul_add]

theorem sumN_mul_right {α : Type} [NonUnitalNonAssocSemiring α] (c : α) (f : Nat → α) :
    ∀ n, sumN n (fun k => f k * c) = sumN n f * c
  | 0 => by simp [sumN]
  | n + 1 => by simp only [sumN]; rw [sumN_mul_right c f n, add_mul]

theorem sumN_add_range {α : Type} [AddMonoid α] (f : Nat → α) (a : Nat) :
    ∀ b, sumN (a + b) f = sumN a f + sumN b (fun k => f (a + k))
  | 0 => by simp [sumN]
  | b + 1 => by
    show sumN (a + b) f + f (a + b) = sumN a f + (sumN b (fun k => f (a + k)) + f (a + b))
    rw [sumN_add_range f a b, add_assoc]

/-- a sum over `0..P*d-1` as an iterated sum over quotient and remainder -/
theorem sumN_mul {α : Type} [AddMonoid α] (g : Nat → α) (d : Nat) :
    ∀ P, sumN (P * d) g = sumN P (fun q => sumN d (fun b => g (q * d + b)))
  | 0 => by simp [sumN]
  | P + 1 => by
    rw [Nat.succ_mul, sumN_add_range, sumN_mul g d P]; rfl

theorem sumN_comm {α : Type} [AddCommMonoid α] (f : Nat → Nat → α) (b : Nat) :
    ∀ a, sumN a (fun x => sumN b (fun y => f x y)) = sumN b (fun y => sumN a (fun x => f x y))
  | 0 => by simp only [sumN]; rw [sumN_zero']
  | a + 1 => by
    simp only [sumN]
    rw [sumN_comm f b a, sumN_add_distrib]

/-- reindexing a sum along a bijection of `0..n-1` given with its inverse -/
theorem sumN_reindex {α : Type} [AddCommMonoid α] (n : Nat) (σ τ : Nat → Nat) (f : Nat → α)
    (hσ : ∀ k, k < n → σ k < n) (hτ : ∀ k, k < n → τ k < n)
    (hτσ : ∀ k, k < n → τ (σ k) = k) (hστ : ∀ k, k < n → σ (τ k) = k) :
    sumN n (fun k => f (σ k)) = sumN n f := by
  rw [sumN_eq_finset, sumN_eq_finset]
  apply Finset.sum_nbij' σ τ
  · intro a ha; simp only [Finset.mem_range] at *; exact hσ a ha
  · intro a ha; simp only [Finset.mem_range] at *; exact hτ a ha
  · intro a ha; simp only [Finset.mem_range] at *; exact hτσ a ha
  · intro a ha; simp only [Finset.mem_range] at *; exact hστ a ha
  · intro a _; rfl

/-! ### the model is a gather followed by a sum: linearity without any hypothesis -/

/-- whatever the arguments, the model output entry is `Σ_{t<T} X (f t) (g t)` for index maps `f g` that
    do not depend on `X` -/
theorem partialTrace_gather (n : Nat) (dims : Nat → Nat) (S : List Nat) (i j : Nat) :
    ∃ (T : Nat) (f g : Nat → Nat), ∀ {α : Type} [Add α] [Zero α] (X : Nat → Nat → α),
      partialTrace X n dims S i j = sumN T (fun t => X (f t) (g t)) :=
by
  refine ⟨prodList dims S, ?f, ?g, ?h⟩
  case h =>
    intro α _ _ X
    unfold partialTrace
    simp only [ND.ofFlatF, ND.transpose, ND.vecF, matFlatF, permuteMat]

    rfl

theorem partialTrace_add {α : Type} [AddCommMonoid α] (X Y : Nat → Nat → α) (n : Nat)
    (dims : Nat → Nat) (S : List Nat) (i j : Nat) :
    partialTrace (fun r c => X r c + Y r c) n dims S i j
      = partialTrace X n dims S i j + partialTrace Y n dims S i j := by
  obtain ⟨T, f, g, h⟩ := partialTrace_gather n dims S i j
  rw [h, h, h, sumN_add_distrib]

theorem partialTrace_smul {α : Type} [NonUnitalNonAssocSemiring α] (c : α) (X : Nat → Nat → α)
    (n : Nat) (dims : Nat → Nat) (S : List Nat) (i j : Nat) :
    partialTrace (fun r c' => c * X r c') n dims S i j = c * partialTrace X n dims S i j := by
  obtain ⟨T, f, g, h⟩ := partialTrace_gather n dims S i j
  rw [h, h, sumN_mul_left]

/-! ### `specIndex` is a bijection of `0..N-1`; trace preservation -/

/-- the inverse relabelling: digit `m` (radix `dims (p m)`) is digit `p m` of `r` -/
def specIndexInv (n : Nat) (p dims : Nat → Nat) (r : Nat) : Nat :=
  enc (fun m => dims (p m)) (fun m => dec dims n r (p m)) n

section specInv
variable (n : Nat) (p dims : Nat → Nat) (hlt : ∀ k, k < n → p k < n)
  (hinj : ∀ a b, a < n → b < n → p a = p b → a = b) (hd : ∀ k, k < n → 0 < dims k)
include hlt hinj hd

theorem specIndexInv_lt (r : Nat) : specIndexInv n p dims r < prodN dims n := by
  rw [← prodN_reindex n p dims hlt hinj]
  apply enc_lt
  intro m hm
  exact dec_lt dims n r (p m) (hlt m hm) (hd _ (hlt m hm))

theorem specIndexInv_specIndex (u : Nat) (hu : u < prodN dims n) :
    specIndexInv n p dims (specIndex n p dims u) = u := by
  unfold specIndexInv
  have e : enc (fun m => dims (p m)) (fun m => dec dims n (specIndex n p dims u) (p m)) n
      = enc (fun m => dims (p m)) (dec (fun m => dims (p m)) n u) n := by
    apply enc_congr _ _ _ _ _ (fun _ _ => rfl)
    intro m hm
    rw [dec_specIndex n p dims hlt hinj hd u (p m) (hlt m hm), invPerm_perm n p hinj m hm]
  rw [e]
  apply enc_dec
  rw [prodN_reindex n p dims hlt hinj]
  exact hu

theorem specIndex_specIndexInv (r : Nat) (hr : r < prodN dims n) :
    specIndex n p dims (specIndexInv n p dims r) = r := by
  unfold specIndex specIndexInv
  have e : enc dims (fun k => dec (fun m => dims (p m)) n
        (enc (fun m => dims (p m)) (fun m => dec dims n r (p m)) n) (invPerm n p k)) n
      = enc dims (dec dims n r) n := by
    apply enc_congr _ _ _ _ _ (fun _ _ => rfl)
    intro k hk
    rw [dec_enc (fun m => dims (p m)) _ n
      (fun m hm => dec_lt dims n r (p m) (hlt m hm) (hd _ (hlt m hm))) _
      (invPerm_lt n p hlt hinj k hk)]
    show dec dims n r (p (invPerm n p k)) = _
    rw [perm_invPerm n p hlt hinj k hk]
  rw [e]
  exact enc_dec dims n r hr

/-- summing over all relabelled indices is summing over all indices -/
theorem sumN_specIndex {α : Type} [AddCommMonoid α] (f : Nat → α) :
    sumN (prodN dims n) (fun u => f (specIndex n p dims u)) = sumN (prodN dims n) f :=
  sumN_reindex _ (specIndex n p dims) (specIndexInv n p dims) f
    (fun u _ => specIndex_lt n p dims hlt hinj hd u)
    (fun r _ => specIndexInv_lt n p dims hlt hinj hd r)
    (specIndexInv_specIndex n p dims hlt hinj hd)
    (specIndex_specIndexInv n p dims hlt hinj hd)

end specInv

theorem ptraceSpec_trace {α : Type} [AddCommMonoid α] (X : Nat → Nat → α) (n : Nat) (dims : Nat → Nat)
    (S : List Nat) (hd : ∀ k, k < n → 0 < dims k) (hnd : S.Nodup) (hlt : ∀ s ∈ S, s < n) :
    sumN (subDim dims (others n S)) (fun i => ptraceSpec X n dims S i i)
      = sumN (prodN dims n) (fun r => X r r) := by
  rw [← sumN_specIndex n (fnOfList (others n S ++ S) 0) dims (perm_lt n S hnd hlt)
    (perm_inj n S hnd hlt) hd (fun r => X r r), prodN_eq_mul n dims S hnd hlt, sumN_mul]
  apply sumN_congr
  intro i _
  unfold ptraceSpec
  apply sumN_congr
  intro t ht
  rw [specIndex_eq_join n dims S hnd hlt i t ht]

/-! ### two subsystems -/

theorem others_2_1 : others 2 [1] = [0] := by decide
theorem others_2_0 : others 2 [0] = [1] := by decide

theorem join_2_1 (dA dB i t : Nat) (hi : i < dA) (ht : t < dB) :
    join 2 (fnOfList [dA, dB]) [1] i t = i * dB + t := by
  unfold join
  rw [others_2_1]
  simp [enc, digitOn, dec, subDims, fnOfList, Nat.mod_eq_of_lt hi, Nat.mod_eq_of_lt ht]

theorem join_2_0 (dA dB i t : Nat) (hi : i < dB) (ht : t < dA) :
    join 2 (fnOfList [dA, dB]) [0] i t = t * dB + i := by
  unfold join
  rw [others_2_0]
  simp [enc, digitOn, dec, subDims, fnOfList, Nat.mod_eq_of_lt hi, Nat.mod_eq_of_lt ht]

/-! ### codes over a list of subsystems; the listing order of `S` is irrelevant -/

/-- the code over the subsystems listed in `L` of the label assignment `x` (inverse of `digitOn`) -/
def codeOn (dims : Nat → Nat) (L : List Nat) (x : Nat → Nat) : Nat :=
  enc (subDims dims L) (fun m => x (L.getD m 0)) L.length

theorem getD_mem (L : List Nat) (m : Nat) (hm : m < L.length) : L.getD m 0 ∈ L := by
  rw [List.getD_eq_getElem _ _ hm]; exact List.getElem_mem _

theorem codeOn_lt (dims : Nat → Nat) (L : List Nat) (x : Nat → Nat) (hx : ∀ k ∈ L, x k < dims k) :
    codeOn dims L x < subDim dims L :=
  enc_lt _ _ _ (fun m hm => hx _ (getD_mem L m hm))

theorem digitOn_codeOn (dims : Nat → Nat) (L : List Nat) (x : Nat → Nat)
    (hx : ∀ k ∈ L, x k < dims k) (k : Nat) (hk : k ∈ L) :
    digitOn dims L (codeOn dims L x) k = x k := by
  have hlt : L.idxOf k < L.length := List.idxOf_lt_length_of_mem hk
  unfold digitOn codeOn
  rw [dec_enc (subDims dims L) (fun m => x (L.getD m 0)) L.length
    (fun m hm => hx _ (getD_mem L m hm)) _ hlt]
  show x (L.getD (L.idxOf k) 0) = x k
  rw [List.getD_eq_getElem _ _ hlt, List.getElem_idxOf hlt]

theorem idxOf_getD (L : List Nat) (hnd : L.Nodup) (m : Nat) (hm : m < L.length) :
    L.idxOf (L.getD m 0) = m := by
  rw [List.getD_eq_getElem _ _ hm]
  have h1 : L.idxOf L[m] < L.length := List.idxOf_lt_length_of_mem (List.getElem_mem _)
  have h2 : L[L.idxOf L[m]] = L[m] := List.getElem_idxOf h1
  exact (hnd.getElem_inj_iff).mp h2

theorem digitOn_getD (dims : Nat → Nat) (L : List Nat) (hnd : L.Nodup) (t m : Nat) (hm : m < L.length) :
    digitOn dims L t (L.getD m 0) = dec (subDims dims L) L.length t m := by
  unfold digitOn; rw [idxOf_getD L hnd m hm]

theorem codeOn_digitOn (dims : Nat → Nat) (L : List Nat) (hnd : L.Nodup) (t : Nat)
    (ht : t < subDim dims L) : codeOn dims L (digitOn dims L t) = t := by
  unfold codeOn
  rw [enc_congr _ (subDims dims L) _ (dec (subDims dims L) L.length t) _ (fun _ _ => rfl)
    (fun m hm => digitOn_getD dims L hnd t m hm)]
  exact enc_dec _ _ _ ht

theorem codeOn_congr (dims : Nat → Nat) (L : List Nat) (x y : Nat → Nat) (h : ∀ k ∈ L, x k = y k) :
    codeOn dims L x = codeOn dims L y :=
  enc_congr _ _ _ _ _ (fun _ _ => rfl) (fun m hm => h _ (getD_mem L m hm))

theorem others_perm_eq (n : Nat) (S S' : List Nat) (hp : S.Perm S') : others n S = others n S' := by
  unfold others
  apply List.filter_congr
  intro k _
  simp [hp.mem_iff]

theorem subDim_perm_eq (dims : Nat → Nat) (S S' : List Nat) (hp : S.Perm S') :
    subDim dims S = subDim dims S' := by
  have : RightCommutative (fun (acc k : Nat) => acc * dims k) :=
    ⟨fun a _ _ => Nat.mul_right_comm a _ _⟩
  have h := hp.foldl_eq (f := fun (acc k : Nat) => acc * dims k) 1
  rwa [foldl_eq_subDim, foldl_eq_subDim, Nat.one_mul, Nat.one_mul] at h

section reorder
variable (n : Nat) (dims : Nat → Nat) (S S' : List Nat) (hd : ∀ k, k < n → 0 < dims k)
  (hp : S.Perm S') (hnd : S.Nodup) (hlt : ∀ s ∈ S, s < n)
include hd hp hlt

/-- re-coding the labels on `S` in the listing order `S'` -/
theorem recode_lt (t : Nat) : codeOn dims S' (digitOn dims S t) < subDim dims S' :=
  codeOn_lt dims S' _ (fun k hk =>
    digitOn_lt dims S t k (hp.mem_iff.mpr hk) (hd k (hlt k (hp.mem_iff.mpr hk))))

theorem join_recode (i t : Nat) :
    join n dims S' i (codeOn dims S' (digitOn dims S t)) = join n dims S i t := by
  unfold join
  apply enc_congr _ _ _ _ _ (fun _ _ => rfl)
  intro k _
  by_cases hk : k ∈ S
  · have hk' : k ∈ S' := hp.mem_iff.mp hk
    rw [if_pos hk, if_pos hk']
    exact digitOn_codeOn dims S' _ (fun k hk =>
      digitOn_lt dims S t k (hp.mem_iff.mpr hk) (hd k (hlt k (hp.mem_iff.mpr hk)))) k hk'
  · have hk' : k ∉ S' := fun h => hk (hp.mem_iff.mpr h)
    rw [if_neg hk, if_neg hk', others_perm_eq n S S' hp]

include hnd in
theorem recode_recode (t : Nat) (ht : t < subDim dims S) :
    codeOn dims S (digitOn dims S' (codeOn dims S' (digitOn dims S t))) = t := by
  rw [codeOn_congr dims S _ (digitOn dims S t) (fun k hk =>
    digitOn_codeOn dims S' _ (fun k hk =>
      digitOn_lt dims S t k (hp.mem_iff.mpr hk) (hd k (hlt k (hp.mem_iff.mpr hk)))) k
      (hp.mem_iff.mp hk))]
  exact codeOn_digitOn dims S hnd t ht

end reorder

theorem ptraceSpec_perm {α : Type} [AddCommMonoid α] (X : Nat → Nat → α) (n : Nat) (dims : Nat → Nat)
    (S S' : List Nat) (hd : ∀ k, k < n → 0 < dims k) (hp : S.Perm S') (hnd : S.Nodup)
    (hlt : ∀ s ∈ S, s < n) (i j : Nat) :
    ptraceSpec X n dims S i j = ptraceSpec X n dims S' i j := by
  have hlt' : ∀ s ∈ S', s < n := fun s hs => hlt s (hp.mem_iff.mpr hs)
  have hnd' : S'.Nodup := hp.nodup_iff.mp hnd
  have hT := subDim_perm_eq dims S S' hp
  unfold ptraceSpec
  rw [← sumN_reindex (subDim dims S') (fun t => codeOn dims S' (digitOn dims S t))
    (fun t => codeOn dims S (digitOn dims S' t))
    (fun t => X (join n dims S' i t) (join n dims S' j t))
    (fun t _ => recode_lt n dims S S' hd hp hlt t)
    (fun t _ => by rw [← hT]; exact recode_lt n dims S' S hd hp.symm hlt' t)
    (fun t ht => recode_recode n dims S S' hd hp hnd hlt t (by rw [hT]; exact ht))
    (fun t ht => recode_recode n dims S' S hd hp.symm hnd' hlt' t ht), hT]
  apply sumN_congr
  intro t _
  show _ = X (join n dims S' i (codeOn dims S' (digitOn dims S t)))
    (join n dims S' j (codeOn dims S' (digitOn dims S t)))
  rw [join_recode n dims S S' hd hp hlt, join_recode n dims S S' hd hp hlt]

/-! ### tensor products of `n` operators -/

theorem prodFn_add {α : Type} [Monoid α] (f : Nat → α) (a : Nat) :
    ∀ b, prodFn (a + b) f = prodFn a f * prodFn b (fun m => f (a + m))
  | 0 => by simp [prodFn]
  | b + 1 => by
    show prodFn (a + b) f * f (a + b) = prodFn a f * (prodFn b (fun m => f (a + m)) * f (a + b))
    rw [prodFn_add f a b, mul_assoc]

/-- a sum over all codes of a product over the digits is the product of the sums -/
theorem sumN_prodFn_dec {α : Type} [CommSemiring α] (d : Nat → Nat) (g : Nat → Nat → α) :
    ∀ b, sumN (prodN d b) (fun t => prodFn b (fun m => g m (dec d b t m)))
      = prodFn b (fun m => sumN (d m) (g m))
  | 0 => by simp [sumN, prodFn, prodN]
  | b + 1 => by
    show sumN (prodN d b * d b) _ = prodFn b (fun m => sumN (d m) (g m)) * sumN (d b) (g b)
    rw [sumN_mul, ← sumN_prodFn_dec d g b, ← sumN_mul_right]
    apply sumN_congr
    intro q _
    rw [← sumN_mul_left]
    apply sumN_congr
    intro c hc
    have hD : 0 < d b := by omega
    have e1 : (q * d b + c) % d b = c := by
      rw [Nat.add_comm, Nat.add_mul_mod_self_right, Nat.mod_eq_of_lt hc]
    have e2 : (q * d b + c) / d b = q := by
      rw [Nat.add_comm, Nat.add_mul_div_right _ _ hD, Nat.div_eq_of_lt hc, Nat.zero_add]
    show prodFn b (fun m => g m (dec d (b + 1) (q * d b + c) m)) * g b (dec d (b + 1) (q * d b + c) b) = _
    congr 1
    · apply prodFn_congr
      intro m hm
      simp only [dec]
      rw [if_neg (by omega), e2]
    · simp only [dec, if_true]
      rw [e1]

section joinDigits
variable (n : Nat) (dims : Nat → Nat) (S : List Nat) (hd : ∀ k, k < n → 0 < dims k)
include hd

/-- the labels of `join i t`: those of `t` on `S`, those of `i` elsewhere -/
theorem dec_join (i t k : Nat) (hk : k < n) :
    dec dims n (join n dims S i t) k
      = if k ∈ S then digitOn dims S t k else digitOn dims (others n S) i k := by
  unfold join
  rw [dec_enc dims _ n _ k hk]
  intro k hk
  by_cases h : k ∈ S
  · rw [if_pos h]; exact digitOn_lt dims S t k h (hd k hk)
  · rw [if_neg h]; exact digitOn_lt dims _ i k (mem_others.mpr ⟨hk, h⟩) (hd k hk)

theorem join_lt (i t : Nat) : join n dims S i t < prodN dims n := by
  apply enc_lt
  intro k hk
  by_cases h : k ∈ S
  · rw [if_pos h]; exact digitOn_lt dims S t k h (hd k hk)
  · rw [if_neg h]; exact digitOn_lt dims _ i k (mem_others.mpr ⟨hk, h⟩) (hd k hk)

end joinDigits

theorem ptraceSpec_kron {α : Type} [CommSemiring α] (A : Nat → Nat → Nat → α) (n : Nat)
    (dims : Nat → Nat) (S : List Nat) (hd : ∀ k, k < n → 0 < dims k) (hnd : S.Nodup)
    (hlt : ∀ s ∈ S, s < n) (i j : Nat) :
    ptraceSpec (kronMat n A dims) n dims S i j
      = prodFn S.length (fun m => tr (subDims dims S m) (A (S.getD m 0)))
        * kronMat (others n S).length (fun m => A ((others n S).getD m 0))
            (subDims dims (others n S)) i j := by
  have hlen := others_append_length n S hnd hlt
  have key : ∀ t, kronMat n A dims (join n dims S i t) (join n dims S j t)
      = kronMat (others n S).length (fun m => A ((others n S).getD m 0))
            (subDims dims (others n S)) i j
        * prodFn S.length (fun m => A (S.getD m 0) (dec (subDims dims S) S.length t m)
            (dec (subDims dims S) S.length t m)) := by
    intro t
    unfold kronMat
    rw [← prodFn_reindex n (fnOfList (others n S ++ S) 0) _ (perm_lt n S hnd hlt)
      (perm_inj n S hnd hlt)]
    have hn : (prodFn n : (Nat → α) → α) = prodFn ((others n S).length + S.length) := by
      rw [← List.length_append, hlen]
    rw [hn, prodFn_add]
    congr 1
    · apply prodFn_congr
      intro m hm
      have hmem := getD_mem _ m hm
      have hm2 := mem_others.mp hmem
      show A (fnOfList (others n S ++ S) 0 m) _ _ = _
      have e : fnOfList (others n S ++ S) 0 m = (others n S).getD m 0 := by
        unfold fnOfList; rw [List.getD_append _ _ _ _ hm]
      rw [e, dec_join n dims S hd i t _ hm2.1, dec_join n dims S hd j t _ hm2.1,
        if_neg hm2.2, if_neg hm2.2, digitOn_getD dims _ (others_nodup n S) i m hm,
        digitOn_getD dims _ (others_nodup n S) j m hm]
    · apply prodFn_congr
      intro m hm
      have hmem := getD_mem _ m hm
      show A (fnOfList (others n S ++ S) 0 ((others n S).length + m)) _ _ = _
      have e : fnOfList (others n S ++ S) 0 ((others n S).length + m) = S.getD m 0 := by
        unfold fnOfList; rw [List.getD_append_right _ _ _ _ (by omega)]; congr 1; omega
      rw [e, dec_join n dims S hd i t _ (hlt _ hmem), dec_join n dims S hd j t _ (hlt _ hmem),
        if_pos hmem, if_pos hmem, digitOn_getD dims S hnd t m hm]
  unfold ptraceSpec
  rw [sumN_congr _ _ _ (fun t _ => key t), sumN_mul_left, mul_comm]
  congr 1
  exact sumN_prodFn_dec (subDims dims S) (fun m x => A (S.getD m 0) x x) S.length

/-! ### relabelling a list of subsystems along an injective map; composition of partial traces -/

theorem idxOf_map_inj (f : Nat → Nat) : ∀ (L : List Nat) (p : Nat),
    (∀ a ∈ L, f a = f p → a = p) → (L.map f).idxOf (f p) = L.idxOf p
  | [], _, _ => rfl
  | x :: L, p, h => by
    rw [List.map_cons, List.idxOf_cons, List.idxOf_cons]
    by_cases hx : x = p
    · subst hx; simp
    · have hfx : f x ≠ f p := fun e => hx (h x (List.mem_cons_self) e)
      have ih := idxOf_map_inj f L p (fun a ha => h a (List.mem_cons_of_mem _ ha))
      rw [ih, beq_false_of_ne hfx, beq_false_of_ne hx]

theorem getD_map (f : Nat → Nat) (L : List Nat) (q : Nat) (hq : q < L.length) :
    (L.map f).getD q 0 = f (L.getD q 0) := by
  rw [List.getD_eq_getElem _ _ (by rw [List.length_map]; exact hq), List.getD_eq_getElem _ _ hq,
    List.getElem_map]

theorem subDim_map (dims f : Nat → Nat) (L : List Nat) :
    subDim dims (L.map f) = subDim (fun q => dims (f q)) L := by
  unfold subDim
  rw [List.length_map]
  apply prodN_congr
  intro q hq
  unfold subDims
  rw [getD_map f L q hq]

theorem digitOn_map (dims f : Nat → Nat) (L : List Nat) (t p : Nat)
    (h : ∀ a ∈ L, f a = f p → a = p) :
    digitOn dims (L.map f) t (f p) = digitOn (fun q => dims (f q)) L t p := by
  unfold digitOn
  rw [idxOf_map_inj f L p h, List.length_map]
  apply dec_congr
  intro q hq
  unfold subDims
  rw [getD_map f L q hq]


theorem filter_map_range (f : Nat → Nat) (m : Nat) (T' : List Nat)
    (hinj : ∀ a b, a < m → b < m → f a = f b → a = b) (hltT : ∀ p ∈ T', p < m) :
    ((List.range m).map f).filter (fun k => k ∉ T'.map f)
      = ((List.range m).filter (fun q => q ∉ T')).map f := by
  rw [List.filter_map]
  congr 1
  apply List.filter_congr
  intro q hq
  have hq' : q < m := List.mem_range.mp hq
  have : f q ∈ T'.map f ↔ q ∈ T' := by
    constructor
    · intro h
      obtain ⟨a, ha, hfa⟩ := List.mem_map.mp h
      have := hinj a q (hltT a ha) hq' hfa
      rwa [← this]
    · exact List.mem_map_of_mem
  simp only [Function.comp, this]

theorem list_eq_map_range (O : List Nat) : O = (List.range O.length).map (fun q => O.getD q 0) := by
  apply List.ext_getElem
  · simp
  · intro i h1 h2
    rw [List.getElem_map, List.getElem_range, List.getD_eq_getElem _ _ h1]

section comp
variable (n : Nat) (dims : Nat → Nat) (S T' : List Nat) (hd : ∀ k, k < n → 0 < dims k)
  (hnd : S.Nodup) (hlt : ∀ s ∈ S, s < n) (hndT : T'.Nodup)
  (hltT : ∀ p ∈ T', p < (others n S).length)

theorem lift_inj (a b : Nat) (ha : a < (others n S).length) (hb : b < (others n S).length)
    (h : (others n S).getD a 0 = (others n S).getD b 0) : a = b :=
  fnOfList_inj_of_nodup (others n S) (others_nodup n S) a b ha hb h

include hltT in
theorem others_comp :
    others n (S ++ liftSys n S T') = (others (others n S).length T').map (fun q => (others n S).getD q 0) := by
  have h1 : others n (S ++ liftSys n S T') = (others n S).filter (fun k => k ∉ liftSys n S T') := by
    unfold others
    rw [List.filter_filter]
    apply List.filter_congr
    intro k _
    simp only [List.mem_append, not_or, Bool.decide_and, Bool.and_comm]
  rw [h1]
  unfold liftSys
  have h2 := filter_map_range (fun q => (others n S).getD q 0) (others n S).length T'
    (lift_inj n S) hltT
  rw [← list_eq_map_range] at h2
  exact h2

include hd in
theorem subDims_others_pos (q : Nat) (hq : q < (others n S).length) :
    0 < subDims dims (others n S) q :=
  hd _ (mem_others.mp (getD_mem _ q hq)).1

include hd hltT in
/-- putting the labels `t` on `S`, `t'` on the lifted `T'` and `i` on the rest in one go, or in two
    steps, gives the same full index -/
theorem join_comp (i t t' : Nat) (ht' : t' < subDim (subDims dims (others n S)) T') :
    join n dims (S ++ liftSys n S T') i (t * subDim dims (liftSys n S T') + t')
      = join n dims S (join (others n S).length (subDims dims (others n S)) T' i t') t := by
  have hTT : subDim dims (liftSys n S T') = subDim (subDims dims (others n S)) T' :=
    subDim_map dims _ T'
  have hmemTT : ∀ k, k ∈ liftSys n S T' → k ∈ others n S := by
    intro k hk
    obtain ⟨a, ha, rfl⟩ := List.mem_map.mp hk
    exact getD_mem _ a (hltT a ha)
  show enc dims _ n = enc dims _ n
  apply enc_congr _ _ _ _ _ (fun _ _ => rfl)
  intro k hk
  show (if k ∈ S ++ liftSys n S T' then
        digitOn dims (S ++ liftSys n S T') (t * subDim dims (liftSys n S T') + t') k
      else digitOn dims (others n (S ++ liftSys n S T')) i k)
    = if k ∈ S then digitOn dims S t k
      else digitOn dims (others n S)
        (join (others n S).length (subDims dims (others n S)) T' i t') k
  by_cases hkS : k ∈ S
  · have hkTT : k ∉ liftSys n S T' := fun h => (mem_others.mp (hmemTT k h)).2 hkS
    rw [if_pos (List.mem_append_left _ hkS), if_pos hkS,
      digitOn_append dims S _ t t' k (by rw [hTT]; exact ht') (List.mem_append_left _ hkS)
        (fun h => absurd h hkTT), if_neg hkTT]
  · have hkO : k ∈ others n S := mem_others.mpr ⟨hk, hkS⟩
    have hp : (others n S).idxOf k < (others n S).length := List.idxOf_lt_length_of_mem hkO
    have hfp : (others n S).getD ((others n S).idxOf k) 0 = k := by
      rw [List.getD_eq_getElem _ _ hp]; exact List.getElem_idxOf hp
    rw [if_neg hkS]
    have e : digitOn dims (others n S)
          (join (others n S).length (subDims dims (others n S)) T' i t') k
        = if (others n S).idxOf k ∈ T' then
            digitOn (subDims dims (others n S)) T' t' ((others n S).idxOf k)
          else digitOn (subDims dims (others n S)) (others (others n S).length T') i
            ((others n S).idxOf k) :=
      dec_join (others n S).length (subDims dims (others n S)) T'
        (subDims_others_pos n dims S hd) i t' _ hp
    rw [e]
    by_cases hpT : (others n S).idxOf k ∈ T'
    · have hkTT : k ∈ liftSys n S T' := by
        rw [← hfp]; exact List.mem_map_of_mem (f := fun q => (others n S).getD q 0) hpT
      rw [if_pos (List.mem_append_right _ hkTT), if_pos hpT,
        digitOn_append dims S _ t t' k (by rw [hTT]; exact ht') (List.mem_append_right _ hkTT)
          (fun h hS => (mem_others.mp (hmemTT k h)).2 hS), if_pos hkTT]
      conv_lhs => rw [← hfp]
      exact digitOn_map dims (fun q => (others n S).getD q 0) T' t' _
        (fun a ha h => lift_inj n S a _ (hltT a ha) hp h)
    · have hkTT : k ∉ liftSys n S T' := by
        intro h
        obtain ⟨a, ha, hfa⟩ := List.mem_map.mp h
        have : a = (others n S).idxOf k := lift_inj n S a _ (hltT a ha) hp (by rw [hfa, hfp])
        exact hpT (this ▸ ha)
      have hkU : k ∉ S ++ liftSys n S T' := by
        intro h
        rcases List.mem_append.mp h with h | h
        · exact hkS h
        · exact hkTT h
      rw [if_neg hkU, if_neg hpT, others_comp n S T' hltT]
      conv_lhs => rw [← hfp]
      exact digitOn_map dims (fun q => (others n S).getD q 0) _ i _
        (fun a ha h => lift_inj n S a _ (mem_others.mp ha).1 hp h)

include hnd hlt hndT hltT in
theorem union_nodup_lt :
    (S ++ liftSys n S T').Nodup ∧ ∀ s ∈ S ++ liftSys n S T', s < n := by
  have hmemTT : ∀ k, k ∈ liftSys n S T' → k ∈ others n S := by
    intro k hk
    obtain ⟨a, ha, rfl⟩ := List.mem_map.mp hk
    exact getD_mem _ a (hltT a ha)
  constructor
  · rw [List.nodup_append]
    refine ⟨hnd, ?_, ?_⟩
    · exact List.Nodup.map_on (fun a ha b hb h => lift_inj n S a b (hltT a ha) (hltT b hb) h) hndT
    · intro a ha b hb hab
      subst hab
      exact (mem_others.mp (hmemTT a hb)).2 ha
  · intro s hs
    rcases List.mem_append.mp hs with h | h
    · exact hlt s h
    · exact (mem_others.mp (hmemTT s h)).1

include hd hnd hlt hndT hltT in
/-- tracing out `S` and then `T'` (numbered within the remaining systems) is tracing out the union -/
theorem partialTrace_comp {α : Type} [AddCommMonoid α] (X : Nat → Nat → α) (i j : Nat)
    (hi : i < subDim (subDims dims (others n S)) (others (others n S).length T'))
    (hj : j < subDim (subDims dims (others n S)) (others (others n S).length T')) :
    partialTrace (partialTrace X n dims S) (others n S).length (subDims dims (others n S)) T' i j
      = partialTrace X n dims (S ++ liftSys n S T') i j := by
  obtain ⟨hndU, hltU⟩ := union_nodup_lt n S T' hnd hlt hndT hltT
  have hd' := subDims_others_pos n dims S hd
  have hTT : subDim dims (liftSys n S T') = subDim (subDims dims (others n S)) T' :=
    subDim_map dims _ T'
  have hKU : subDim dims (others n (S ++ liftSys n S T'))
      = subDim (subDims dims (others n S)) (others (others n S).length T') := by
    rw [others_comp n S T' hltT]; exact subDim_map dims _ _
  rw [partialTrace_eq_spec _ _ T' hd' hndT hltT _ i j hi hj,
    partialTrace_eq_spec n dims _ hd hndU hltU X i j (by rw [hKU]; exact hi) (by rw [hKU]; exact hj)]
  unfold ptraceSpec
  rw [subDim_append, sumN_mul, sumN_comm, hTT]
  apply sumN_congr
  intro t' ht'
  have hlt1 : ∀ x, join (others n S).length (subDims dims (others n S)) T' x t'
      < subDim dims (others n S) := fun x => join_lt _ _ T' hd' x t'
  rw [partialTrace_eq_spec n dims S hd hnd hlt X _ _ (hlt1 i) (hlt1 j)]
  unfold ptraceSpec
  apply sumN_congr
  intro t _
  show X (join n dims S _ t) (join n dims S _ t) = X (join n dims _ i _) (join n dims _ j _)
  rw [hTT.symm, join_comp n dims S T' hd hltT i t t' ht', join_comp n dims S T' hd hltT j t t' ht']

end comp
end Toq.PTrace
