import Toq.Proofs.MetricsClassical
/-!
# Spectral calculus for C13: `conjDiag U f = U diag(f) Uᴴ`

Algebra of `conjDiag` (products, sums, positivity, trace), the spectral theorem in this form (`exists_conjDiag`), and
**the trace norm (max form) of a Hermitian matrix is the sum of the absolute values of its eigenvalues**
(`traceNormV_eq_sum_abs_eigenvalues`): the max form is attained at `sgn H`, the min form at the Jordan decomposition.
-/

open Matrix
open scoped ComplexOrder MatrixOrder

set_option linter.unusedSectionVars false

namespace Toq.Metrics
section Spectral
variable {ι : Type*} [Fintype ι] [DecidableEq ι]

/-- `U diag(f) Uᴴ` for a real function `f` of the index -/
noncomputable def conjDiag (U : Matrix ι ι ℂ) (f : ι → ℝ) : Matrix ι ι ℂ :=
  U * diagonal (fun i => (f i : ℂ)) * Uᴴ

theorem conjDiag_mul {U : Matrix ι ι ℂ} (hU : Uᴴ * U = 1) (f g : ι → ℝ) :
    conjDiag U f * conjDiag U g = conjDiag U (fun i => f i * g i) := by
  unfold conjDiag
  calc U * diagonal (fun i => (f i : ℂ)) * Uᴴ * (U * diagonal (fun i => (g i : ℂ)) * Uᴴ)
      = U * diagonal (fun i => (f i : ℂ)) * (Uᴴ * U) * diagonal (fun i => (g i : ℂ)) * Uᴴ := by
        simp only [Matrix.mul_assoc]
    _ = U * (diagonal (fun i => (f i : ℂ)) * diagonal (fun i => (g i : ℂ))) * Uᴴ := by
        rw [hU, Matrix.mul_one]; simp only [Matrix.mul_assoc]
    _ = _ := by rw [diagonal_mul_diagonal]; simp only [Complex.ofReal_mul]

theorem conjDiag_add (U : Matrix ι ι ℂ) (f g : ι → ℝ) :
    conjDiag U f + conjDiag U g = conjDiag U (fun i => f i + g i) := by
  unfold conjDiag
  rw [← Matrix.add_mul, ← Matrix.mul_add, diagonal_add]
  simp only [Complex.ofReal_add]

theorem conjDiag_sub (U : Matrix ι ι ℂ) (f g : ι → ℝ) :
    conjDiag U f - conjDiag U g = conjDiag U (fun i => f i - g i) := by
  unfold conjDiag
  rw [← Matrix.sub_mul, ← Matrix.mul_sub, diagonal_sub]
  simp only [Complex.ofReal_sub]

theorem conjDiag_one {U : Matrix ι ι ℂ} (hU' : U * Uᴴ = 1) : conjDiag U (fun _ => 1) = 1 := by
  unfold conjDiag
  simp only [Complex.ofReal_one]
  rw [show (diagonal fun _ : ι => (1 : ℂ)) = 1 from diagonal_one, Matrix.mul_one, hU']

theorem conjDiag_posSemidef (U : Matrix ι ι ℂ) {f : ι → ℝ} (hf : ∀ i, 0 ≤ f i) :
    (conjDiag U f).PosSemidef := by
  unfold conjDiag
  apply PosSemidef.mul_mul_conjTranspose_same
  apply PosSemidef.diagonal
  intro i
  simp only [Pi.zero_apply, Complex.zero_le_real]
  exact hf i

theorem conjDiag_isHermitian (U : Matrix ι ι ℂ) (f : ι → ℝ) : (conjDiag U f).IsHermitian := by
  unfold conjDiag Matrix.IsHermitian
  rw [Matrix.conjTranspose_mul, Matrix.conjTranspose_mul, Matrix.conjTranspose_conjTranspose,
    diagonal_conjTranspose, Matrix.mul_assoc]
  congr 3
  funext i
  simp

theorem conjDiag_trace {U : Matrix ι ι ℂ} (hU : Uᴴ * U = 1) (f : ι → ℝ) :
    (conjDiag U f).trace = ∑ i, (f i : ℂ) := by
  unfold conjDiag
  rw [Matrix.trace_mul_comm, ← Matrix.mul_assoc, hU, Matrix.one_mul, Matrix.trace_diagonal]

theorem conjDiag_trace_re {U : Matrix ι ι ℂ} (hU : Uᴴ * U = 1) (f : ι → ℝ) :
    (conjDiag U f).trace.re = ∑ i, f i := by
  rw [conjDiag_trace hU, Complex.re_sum]
  simp

/-- spectral theorem in the form used here -/
theorem exists_conjDiag {H : Matrix ι ι ℂ} (hH : H.IsHermitian) :
    ∃ U : Matrix ι ι ℂ, Uᴴ * U = 1 ∧ U * Uᴴ = 1 ∧ H = conjDiag U hH.eigenvalues := by
  refine ⟨hH.eigenvectorUnitary, ?_, ?_, ?_⟩
  · rw [← star_eq_conjTranspose]; exact Unitary.coe_star_mul_self _
  · rw [← star_eq_conjTranspose]; exact Unitary.coe_mul_star_self _
  · have := hH.spectral_theorem
    rw [Unitary.conjStarAlgAut_apply] at this
    exact this

/-- a function of the index with values in `[−1, 1]` gives a contraction -/
theorem conjDiag_contraction {U : Matrix ι ι ℂ} (hU' : U * Uᴴ = 1) {s : ι → ℝ}
    (hs : ∀ i, -1 ≤ s i ∧ s i ≤ 1) : IsContraction (conjDiag U s) := by
  constructor
  · rw [← conjDiag_one hU', conjDiag_sub]
    exact conjDiag_posSemidef U fun i => by linarith [(hs i).2]
  · rw [← conjDiag_one hU', conjDiag_add]
    exact conjDiag_posSemidef U fun i => by linarith [(hs i).1]

/-- sign with `sgn 0 = 1` -/
noncomputable def sgn (x : ℝ) : ℝ := if 0 ≤ x then 1 else -1

theorem sgn_mul_self (x : ℝ) : sgn x * x = |x| := by
  unfold sgn; split_ifs with h
  · rw [abs_of_nonneg h, one_mul]
  · rw [abs_of_neg (not_le.mp h)]; ring

theorem sgn_bounds (x : ℝ) : -1 ≤ sgn x ∧ sgn x ≤ 1 := by
  unfold sgn; split_ifs <;> constructor <;> norm_num

/-- **The trace norm (max form) of a Hermitian matrix is the sum of the absolute values of its eigenvalues**;
both variational forms are attained (by `W = sgn H` and by the Jordan decomposition `H = H₊ − H₋`). -/
theorem traceNormV_eq_sum_abs_eigenvalues {H : Matrix ι ι ℂ} (hH : H.IsHermitian) :
    traceNormV H = ∑ i, |hH.eigenvalues i| := by
  obtain ⟨U, hU, hU', hHe⟩ := exists_conjDiag hH
  set lam := hH.eigenvalues with hlam
  refine le_antisymm ?_ ?_
  · -- upper bound: Jordan decomposition
    have hdec : H = conjDiag U (fun i => max (lam i) 0) - conjDiag U (fun i => max (-lam i) 0) := by
      rw [conjDiag_sub]
      conv_lhs => rw [hHe]
      congr 1; funext i
      rcases le_total 0 (lam i) with h | h
      · rw [max_eq_left h, max_eq_right (by linarith)]; ring
      · rw [max_eq_right h, max_eq_left (by linarith)]; ring
    have := traceNormV_le_gen (conjDiag_posSemidef U fun i => le_max_right (lam i) 0)
      (conjDiag_posSemidef U fun i => le_max_right (-lam i) 0) hdec
    rw [conjDiag_trace_re hU, conjDiag_trace_re hU, ← Finset.sum_add_distrib] at this
    refine this.trans_eq (Finset.sum_congr rfl fun i _ => ?_)
    rcases le_total 0 (lam i) with h | h
    · rw [max_eq_left h, max_eq_right (by linarith), abs_of_nonneg h]; ring
    · rw [max_eq_right h, max_eq_left (by linarith), abs_of_nonpos h]; ring
  · -- lower bound: W = sgn(H)
    have hW := conjDiag_contraction hU' (s := fun i => sgn (lam i)) fun i => sgn_bounds _
    have := le_traceNormV_gen hH hW
    conv at this => lhs; rw [hHe, conjDiag_mul hU, conjDiag_trace_re hU]
    refine le_trans (le_of_eq (Finset.sum_congr rfl fun i _ => ?_)) this
    exact (sgn_mul_self _).symm

end Spectral
end Toq.Metrics
