import Toq.Model.PermsArgs
import Toq.Proofs.Perms
/-! Helper lemmas for C01 about `Toq/Model/PermsArgs.lean` (`swapPermList`, uniform dimension lists). -/

namespace Toq.Perms

/-! ### `swap.py`'s permutation list is the transposition -/

theorem swapPermList_apply (n s1 s2 k : Nat) (h1 : s1 < n) (h2 : s2 < n) (hk : k < n) :
    (fnOfList (swapPermList n s1 s2)) k = swapPerm s1 s2 k := by
  unfold fnOfList swapPermList swapPerm
  rw [List.getD_eq_getElem?_getD, List.getElem?_set, List.getElem?_set]
  simp only [List.length_set, List.length_range]
  by_cases hk2 : s2 = k
  · subst hk2
    by_cases hk1 : s2 = s1
    · simp [hk1, h1]
    · simp [hk1, h2]
  · by_cases hk1 : s1 = k
    · subst hk1; simp [hk2, h1]
    · have e1 : ¬ k = s1 := fun h => hk1 h.symm
      have e2 : ¬ k = s2 := fun h => hk2 h.symm
      simp [hk1, hk2, e1, e2, hk]

theorem swapPermList_eq (n s1 s2 : Nat) (h1 : s1 < n) (h2 : s2 < n) :
    swapPermList n s1 s2 = listOfFn n (swapPerm s1 s2) := by
  apply List.ext_getElem
  · simp [swapPermList, listOfFn]
  · intro k hk1 hk2
    have hk : k < n := by simpa [listOfFn] using hk2
    have := swapPermList_apply n s1 s2 k h1 h2 hk
    unfold fnOfList at this
    rw [List.getD_eq_getElem?_getD, List.getElem?_eq_getElem hk1] at this
    simp only [Option.getD_some] at this
    rw [this]; simp [listOfFn]

/-- the omitted-`dim` form uses `[r] * n`, whose product is `r ^ n` -/
theorem prodN_replicate (r : Nat) : ∀ n m, n ≤ m → prodN (fnOfList (List.replicate m r)) n = r ^ n
  | 0, _, _ => rfl
  | n + 1, m, h => by
    simp only [prodN, Nat.pow_succ]
    rw [prodN_replicate r n m (by omega)]
    congr 1
    have hn : n < m := by omega
    simp [fnOfList, List.getD_eq_getElem?_getD, hn]

end Toq.Perms
