import Toq.Proofs.States
import Toq.Model.StatesExtra
import Mathlib.Tactic.NormNum
import Mathlib.Algebra.CharZero.Defs
import Mathlib.Tactic.FieldSimp
/-!
# More helper lemmas for C17: Kernighan's bit-count loop (`hadamard`), spectra of the partially transposed
Werner / isotropic states, completeness relations
-/
open Toq.Matrices Toq.Spec17

namespace Toq.States

/-! ### `_hamming_distance`: the loop `x &= x - 1` counts the set bits -/

theorem popcount_zero : ∀ n, popcount n 0 = 0
  | 0 => rfl
  | n + 1 => by rw [popcount_succ_high, popcount_zero n, Nat.zero_testBit]; rfl

theorem popcount_le : ∀ n x, popcount n x ≤ n
  | 0, _ => Nat.le_refl 0
  | n + 1, x => by
    rw [popcount_succ_high]
    have := popcount_le n x
    split <;> omega

/-- clearing the lowest set bit removes exactly one set bit -/
theorem popcount_clear_lowest : ∀ n x, 0 < x → x < 2 ^ n → popcount n (x &&& (x - 1)) + 1 = popcount n x
  | 0, x, h0, h => by simp at h; omega
  | n + 1, x, h0, h => by
    rw [popcount_succ_low, popcount_succ_low n x, Nat.and_div_two]
    have hz : (x &&& (x - 1)) % 2 = 0 := by
      rcases Nat.mod_two_eq_zero_or_one (x &&& (x - 1)) with hh | hh
      · exact hh
      · rw [Nat.and_mod_two_eq_one] at hh; omega
    rw [hz, Nat.zero_add]
    rcases Nat.mod_two_eq_zero_or_one x with hx | hx
    · have e : (x - 1) / 2 = x / 2 - 1 := by omega
      rw [e, hx, Nat.zero_add]
      exact popcount_clear_lowest n (x / 2) (by omega) (by rw [Nat.pow_succ] at h; omega)
    · have e : (x - 1) / 2 = x / 2 := by omega
      rw [e, Nat.and_self, hx, Nat.add_comm]

/-- **`_hamming_distance(x)` is the number of set bits of `x`** whenever the loop has enough fuel -/
theorem hammingLoop_eq_popcount (n : Nat) : ∀ fuel x, x < 2 ^ n → popcount n x < fuel → hammingLoop fuel x = popcount n x
  | 0, _, _, h => by omega
  | fuel + 1, x, hx, h => by
    unfold hammingLoop
    by_cases h0 : x = 0
    · rw [if_pos h0, h0, popcount_zero]
    · rw [if_neg h0]
      have hc := popcount_clear_lowest n x (by omega) hx
      have hlt : x &&& (x - 1) < 2 ^ n := Nat.lt_of_le_of_lt Nat.and_le_left hx
      rw [hammingLoop_eq_popcount n fuel _ hlt (by omega)]
      omega

theorem neg_one_pow_ite (m : Nat) : (-1 : Int) ^ m = if m % 2 = 0 then 1 else -1 := by
  rcases Nat.mod_two_eq_zero_or_one m with h | h
  · rw [if_pos h]
    have : m = 2 * (m / 2) := by omega
    rw [this, pow_mul]; norm_num
  · rw [if_neg (by omega)]
    have : m = 2 * (m / 2) + 1 := by omega
    rw [this, pow_succ, pow_mul]; norm_num

theorem hadamardS_eq_pow : ∀ n i j, hadamardS n i j = (-1 : Int) ^ popcount n (i &&& j)
  | 0, _, _ => rfl
  | n + 1, i, j => by
    show hadamardS n i j * (if i.testBit n && j.testBit n then -1 else 1) = _
    rw [hadamardS_eq_pow n i j, popcount_succ_high, Nat.testBit_and]
    by_cases h : (i.testBit n && j.testBit n) = true
    · rw [if_pos h, if_pos h, pow_succ]
    · rw [if_neg h, if_neg h, mul_one, Nat.add_zero]

/-- mirror (`(-1) ** _hamming_distance(i & j)`) = closed form, every `n` -/
theorem hadamardMirror_eq_aux (n i j : Nat) (hi : i < 2 ^ n) : hadamardMirror n i j = hadamardS n i j := by
  unfold hadamardMirror
  have hlt : i &&& j < 2 ^ n := Nat.lt_of_le_of_lt Nat.and_le_left hi
  rw [hammingLoop_eq_popcount n (n + 1) _ hlt (Nat.lt_succ_of_le (popcount_le n _)), hadamardS_eq_pow, neg_one_pow_ite]


/-! ### matrix–vector products, completeness relations -/

section matvec
variable {α : Type} [CommRing α]

/-- `((x·I + y·|w⟩⟨w|) v)[r] = x·v[r] + y·w[r]·⟨w, v⟩` -/
theorem matvec_rank_one (N : Nat) (w v : Nat → α) (x y : α) (r : Nat) (hr : r < N) :
    sumN N (fun c => (x * delta r c + y * (w r * w c)) * v c)
      = x * v r + y * w r * sumN N (fun c => w c * v c) := by
  rw [sumN_congr _ (fun c => (if c = r then x * v c else 0) + y * w r * (w c * v c)) N (fun c _ => by
    unfold delta
    split_ifs <;> first | ring1 | (exfalso; omega))]
  rw [sumN_add, sumN_ite_eq N r hr, sumN_mul_left]

/-- `((x·I + y·SWAP) v)[r] = x·v[r] + y·v[swap r]` -/
theorem matvec_swap (d : Nat) (v : Nat → α) (x y : α) (r : Nat) (hr : r < d * d) :
    sumN (d * d) (fun c => (x * delta r c + y * swapOp d r c) * v c) = x * v r + y * v (swapIdx d r) := by
  rw [sumN_congr _ (fun c => (if c = r then x * v c else 0) + (if c = swapIdx d r then y * v c else 0)) (d * d)
    (fun c _ => by
      rw [swapOp_eq d r c hr]
      unfold delta
      split_ifs <;> first | ring1 | (exfalso; omega))]
  rw [sumN_add, sumN_ite_eq (d * d) r hr, sumN_ite_eq (d * d) _ (swapIdx_lt d r hr)]

end matvec

section complete
variable {α : Type} [CommRing α] [IsDomain α]

/-- matrix units are combinations of the generalised Pauli operators:
    `Σ_b ω̄^{b j} (X^a Z^b)[i', j'] = d·[j' = j]·[i' = j + a mod d]` -/
theorem genPauli_unit_expansion (ω ωc : α) (d : Nat) (hω : IsPrimitiveRoot ω d) (hc : ω * ωc = 1)
    (a j i' j' : Nat) (hj : j < d) (hj' : j' < d) :
    sumN d (fun b => ωc ^ (b * j) * genPauli ω d a b i' j')
      = if i' = (j + a) % d ∧ j' = j then (d : α) else 0 := by
  unfold genPauli
  by_cases h : i' = (j' + a) % d
  · simp only [if_pos h]
    rw [sumN_congr _ (fun b => ω ^ (j' * b) * ωc ^ (j * b)) d (fun b _ => by
      rw [Nat.mul_comm b j, Nat.mul_comm b j', mul_comm])]
    rw [char_orth ω ωc d hω hc j' j hj' hj]
    by_cases h2 : j' = j
    · rw [if_pos h2, if_pos ⟨by rw [h, h2], h2⟩]
    · rw [if_neg h2, if_neg (fun hh => h2 hh.2)]
  · simp only [if_neg h, mul_zero]
    rw [sumN_zero' d _ (fun _ _ => rfl), if_neg]
    rintro ⟨h1, h2⟩
    exact h (by rw [h1, h2])

/-- resolution of the identity by the generalised Bell vectors:
    `Σ_{a,b} vec(W_{ab})[r] conj(vec(W_{ab})[c]) = d·δ_{rc}` -/
theorem genBell_complete_aux (ω ωc : α) (d : Nat) (hd : 0 < d) (hω : IsPrimitiveRoot ω d) (hc : ω * ωc = 1)
    (r c : Nat) (hr : r < d * d) (hcc : c < d * d) :
    sumN d (fun a => sumN d (fun b => vecF d (genPauli ω d a b) r * vecF d (genPauli ωc d a b) c))
      = if r = c then (d : α) else 0 := by
  have hrd := div_lt_of_lt_sq d r hr
  have hcd := div_lt_of_lt_sq d c hcc
  -- inner sum over b
  have inner : ∀ a, a < d → sumN d (fun b => vecF d (genPauli ω d a b) r * vecF d (genPauli ωc d a b) c)
      = if r % d = (r / d + a) % d ∧ c % d = (c / d + a) % d ∧ r / d = c / d then (d : α) else 0 := by
    intro a _
    unfold vecF genPauli
    by_cases h1 : r % d = (r / d + a) % d
    · by_cases h2 : c % d = (c / d + a) % d
      · simp only [if_pos h1, if_pos h2]
        rw [sumN_congr _ (fun b => ω ^ ((r / d) * b) * ωc ^ ((c / d) * b)) d (fun b _ => by
          rw [Nat.mul_comm b, Nat.mul_comm b])]
        rw [char_orth ω ωc d hω hc _ _ hrd hcd]
        by_cases h3 : r / d = c / d
        · rw [if_pos h3, if_pos ⟨h1, h2, h3⟩]
        · rw [if_neg h3, if_neg (fun hh => h3 hh.2.2)]
      · simp only [if_neg h2, mul_zero]
        rw [sumN_zero' d _ (fun _ _ => rfl), if_neg (fun hh => h2 hh.2.1)]
    · simp only [if_neg h1, zero_mul]
      rw [sumN_zero' d _ (fun _ _ => rfl), if_neg (fun hh => h1 hh.1)]
  rw [sumN_congr _ _ d inner]
  by_cases hrc : r = c
  · subst hrc
    rw [if_pos rfl]
    -- exactly one `a`
    rw [sumN_single d (unshift d (r / d) (r % d)) (unshift_lt d _ _ hd)]
    · rw [if_pos]
      have := shift_unshift d (r / d) (r % d) (Nat.mod_lt _ hd)
      rw [Nat.add_comm] at this
      exact ⟨this.symm, this.symm, rfl⟩
    · intro a ha hne
      rw [if_neg]
      rintro ⟨h1, _, _⟩
      apply hne
      rw [Nat.add_comm] at h1
      exact (shift_eq_iff d (r / d) (r % d) a (Nat.mod_lt _ hd) ha).mp h1
  · rw [if_neg hrc]
    apply sumN_zero'
    intro a ha
    rw [if_neg]
    rintro ⟨h1, h2, h3⟩
    apply hrc
    rw [← Nat.div_add_mod r d, ← Nat.div_add_mod c d, h3, h1, h2, h3]
end complete

/-! ### generalised Gell-Mann matrices span: matrix units as explicit combinations -/

section gmspan
variable {α : Type} [Field α] [CharZero α]

/-- the `l`-th term of the diagonal completeness relation: `D_l[k] D_l[i] / (l(l+1))` (`l ≥ 1`) -/
def gmTerm (l k i : Nat) : α :=
  if l = 0 then 0 else ((dvec l k : Int) : α) * ((dvec l i : Int) : α) / ((l : α) * ((l : α) + 1))

theorem dvec_gt (l k : Nat) (hl : 0 < l) (hk : l < k) : dvec l k = 0 := by
  unfold dvec; rw [if_neg (by omega), if_neg (by omega), if_neg (by omega)]

theorem dvec_lt (l k : Nat) (hl : 0 < l) (hk : k < l) : dvec l k = 1 := by
  unfold dvec; rw [if_neg (by omega), if_pos hk]

theorem dvec_self (l : Nat) (hl : 0 < l) : dvec l l = -(l : Int) := by
  unfold dvec; rw [if_neg (by omega), if_neg (by omega), if_pos rfl]

/-- **diagonal completeness**: `1/d + Σ_{l=1}^{d-1} D_l[k] D_l[i] / (l(l+1)) = δ_{ki}` (`d = n + 1`) -/
theorem gm_diag_complete_succ (n : Nat) : ∀ k i, k < n + 1 → i < n + 1 →
    1 / ((n + 1 : Nat) : α) + sumN (n + 1) (fun l => gmTerm (α := α) l k i) = if k = i then 1 else 0 := by
  induction n with
  | zero =>
    intro k i hk hi
    have hk0 : k = 0 := by omega
    have hi0 : i = 0 := by omega
    subst hk0; subst hi0
    simp [sumN, gmTerm]
  | succ d ih =>
    intro k i hk hi
    have hdne : ((d + 1 : Nat) : α) ≠ 0 := Nat.cast_ne_zero.mpr (by omega)
    have hdne2 : ((d + 1 + 1 : Nat) : α) ≠ 0 := Nat.cast_ne_zero.mpr (by omega)
    have hdne1 : ((d + 1 : Nat) : α) + 1 ≠ 0 := by
      have : ((d + 1 : Nat) : α) + 1 = ((d + 1 + 1 : Nat) : α) := by push_cast; ring
      rw [this]; exact hdne2
    show 1 / ((d + 1 + 1 : Nat) : α) + (sumN (d + 1) (fun l => gmTerm (α := α) l k i) + gmTerm (d + 1) k i) = _
    have hterm : gmTerm (α := α) (d + 1) k i
        = ((dvec (d + 1) k : Int) : α) * ((dvec (d + 1) i : Int) : α) / (((d + 1 : Nat) : α) * (((d + 1 : Nat) : α) + 1)) := by
      unfold gmTerm; rw [if_neg (by omega)]
    have hcast : ((d + 1 + 1 : Nat) : α) = ((d + 1 : Nat) : α) + 1 := by push_cast; ring
    by_cases hk' : k < d + 1
    · by_cases hi' : i < d + 1
      · have ih' := ih k i hk' hi'
        rw [hterm, dvec_lt _ _ (by omega) hk', dvec_lt _ _ (by omega) hi', ← ih', hcast]
        simp only [Int.cast_one]
        generalize ((d + 1 : Nat) : α) = D at hdne hdne1 ⊢
        field_simp
        ring
      · have hi2 : i = d + 1 := by omega
        subst hi2
        have hz : sumN (d + 1) (fun l => gmTerm (α := α) l k (d + 1)) = 0 := by
          apply sumN_zero'
          intro l hl
          unfold gmTerm
          by_cases h0 : l = 0
          · rw [if_pos h0]
          · rw [if_neg h0, dvec_gt l (d + 1) (by omega) (by omega)]; simp
        rw [hz, hterm, dvec_lt _ _ (by omega) hk', dvec_self _ (by omega), if_neg (by omega), hcast]
        simp only [Int.cast_one, Int.cast_neg, Int.cast_natCast]
        generalize ((d + 1 : Nat) : α) = D at hdne hdne1 ⊢
        field_simp
        ring
    · have hk2 : k = d + 1 := by omega
      subst hk2
      have hz : sumN (d + 1) (fun l => gmTerm (α := α) l (d + 1) i) = 0 := by
        apply sumN_zero'
        intro l hl
        unfold gmTerm
        by_cases h0 : l = 0
        · rw [if_pos h0]
        · rw [if_neg h0, dvec_gt l (d + 1) (by omega) (by omega)]; simp
      rw [hz, hterm, dvec_self _ (by omega), hcast]
      by_cases hi' : i < d + 1
      · rw [dvec_lt _ _ (by omega) hi', if_neg (by omega)]
        simp only [Int.cast_one, Int.cast_neg, Int.cast_natCast]
        generalize ((d + 1 : Nat) : α) = D at hdne hdne1 ⊢
        field_simp
        ring
      · have hi2 : i = d + 1 := by omega
        subst hi2
        rw [dvec_self _ (by omega), if_pos rfl]
        simp only [Int.cast_neg, Int.cast_natCast]
        generalize ((d + 1 : Nat) : α) = D at hdne hdne1 ⊢
        field_simp
        ring
end gmspan

/-- off-diagonal matrix units from the symmetric / antisymmetric generalised Gell-Mann matrices:
    `G_{ab} + i·G_{ba} = 2 E_{ab}` and `G_{ab} - i·G_{ba} = 2 E_{ba}` for `a < b` -/
theorem genGellMann_offdiag_unit (a b i j : Nat) (hab : a < b) :
    genGellMann a b i j + (⟨0, 1⟩ : GI) * genGellMann b a i j = (if i = a ∧ j = b then ⟨2, 0⟩ else 0) ∧
    genGellMann a b i j + (⟨0, -1⟩ : GI) * genGellMann b a i j = (if i = b ∧ j = a then ⟨2, 0⟩ else 0) := by
  have hne : ¬ a = b := by omega
  have hne' : ¬ b = a := by omega
  have hba : ¬ b < a := by omega
  unfold genGellMann
  simp only [if_neg hne, if_neg hne', if_pos hab, if_neg hba]
  by_cases h1 : i = a ∧ j = b
  · have h2 : ¬(i = b ∧ j = a) := by omega
    simp only [if_pos (Or.inl h1 : (i = a ∧ j = b) ∨ (i = b ∧ j = a)), if_neg h2, if_pos h1]
    constructor <;> rfl
  · by_cases h2 : i = b ∧ j = a
    · simp only [if_pos (Or.inr h2 : (i = a ∧ j = b) ∨ (i = b ∧ j = a)), if_pos h2, if_neg h1]
      constructor <;> rfl
    · have h3 : ¬((i = a ∧ j = b) ∨ (i = b ∧ j = a)) := fun h => h.elim h1 h2
      simp only [if_neg h3, if_neg h2, if_neg h1]
      constructor <;> rfl

/-! ### Hadamard: tensor-power structure -/

/-- **`hadamard(n+1) = hadamard(1) ⊗ hadamard(n)`** on the sign matrices (all indices) -/
theorem hadamardS_kron (n i j : Nat) :
    hadamardS (n + 1) i j = kron (2 ^ n) (2 ^ n) (hadamardS 1) (hadamardS n) i j := by
  unfold kron
  have h1 : hadamardS 1 (i / 2 ^ n) (j / 2 ^ n) = if i.testBit n && j.testBit n then -1 else 1 := by
    show (1 : Int) * (if (i / 2 ^ n).testBit 0 && (j / 2 ^ n).testBit 0 then -1 else 1) = _
    rw [Nat.testBit_div_two_pow, Nat.testBit_div_two_pow, Nat.zero_add, one_mul]
  have h2 : hadamardS n (i % 2 ^ n) (j % 2 ^ n) = hadamardS n i j := by
    unfold hadamardS
    apply prodFn_congr
    intro b hb
    rw [Nat.testBit_mod_two_pow, Nat.testBit_mod_two_pow]
    simp [hb]
  rw [h1, h2, mul_comm]
  rfl
end Toq.States
