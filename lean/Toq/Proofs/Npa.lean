import Toq.Model.Npa
import Toq.Spec.Games
import Toq.Proofs.Games
import Mathlib.Algebra.Order.BigOperators.Group.Finset
import Mathlib.Algebra.BigOperators.Ring.Finset
import Mathlib.Algebra.Order.Field.Basic
import Mathlib.Tactic.Ring
import Mathlib.Tactic.Linarith
import Mathlib.Analysis.Matrix.Order
import Mathlib.Data.List.NodupEquivFin
import Mathlib.Data.List.Flatten
/-!
# Lemmas for the NPA part of C07: `_reduce` preserves the value of a word under every deterministic strategy,
the generated words are reduced and non-trivial, and the point `(z zᵀ, K)` of a deterministic strategy satisfies
every constraint that the mirror of `npa_constraints` emits.
-/

namespace Toq.Npa
open Toq.Games

/-! ### values of words -/

section Val
variable (f g : Nat → Nat)

theorem valSym_idem (s : Sym) : valSym f g s * valSym f g s = valSym f g s := by
  unfold valSym
  cases s.player <;> simp

theorem val_nil : val f g [] = 1 := rfl

theorem val_cons (s : Sym) (w : Word) : val f g (s :: w) = valSym f g s * val f g w := rfl

theorem val_append (u v : Word) : val f g (u ++ v) = val f g u * val f g v := by
  induction u with
  | nil => simp [val]
  | cons s u ih => simp only [List.cons_append, val_cons, ih, mul_assoc]

theorem val_reverse (w : Word) : val f g w.reverse = val f g w := by
  induction w with
  | nil => rfl
  | cons s w ih => rw [List.reverse_cons, val_append, ih, val_cons, val_cons, val_nil, mul_one, mul_comm]

/-- the commutation step does not change the value (identity symbols have value 1) -/
theorem val_sep (w : Word) : val f g (sep w) = val f g w := by
  unfold sep
  rw [val_append]
  induction w with
  | nil => simp [val]
  | cons s w ih =>
    rw [val_cons, ← ih]
    rcases hp : s.player with _ | _ | _
    · have h1 : valSym f g s = 1 := by simp [valSym, hp]
      rw [List.filter_cons_of_neg (by simp [hp]), List.filter_cons_of_neg (by simp [hp]), h1, one_mul]
    · rw [List.filter_cons_of_pos (by simp [hp]), List.filter_cons_of_neg (by simp [hp]), val_cons]
      ring
    · rw [List.filter_cons_of_neg (by simp [hp]), List.filter_cons_of_pos (by simp [hp]), val_cons]
      ring

/-- a word "contains a measurement": some symbol belongs to Alice or Bob -/
def hasMeas (w : Word) : Prop := ∃ s ∈ w, s.player ≠ Player.none

theorem sep_players (w : Word) : ∀ s ∈ sep w, s.player ≠ Player.none := by
  intro s hs
  unfold sep at hs
  rw [List.mem_append, List.mem_filter, List.mem_filter] at hs
  rcases hs with ⟨_, h⟩ | ⟨_, h⟩ <;> simp at h <;> simp [h]

theorem sep_ne_nil_iff (w : Word) : sep w ≠ [] ↔ hasMeas w := by
  constructor
  · intro h
    obtain ⟨s, hs⟩ := List.exists_mem_of_ne_nil _ h
    refine ⟨s, ?_, sep_players w s hs⟩
    unfold sep at hs
    rw [List.mem_append, List.mem_filter, List.mem_filter] at hs
    rcases hs with ⟨h, _⟩ | ⟨h, _⟩ <;> exact h
  · rintro ⟨s, hs, hp⟩ h
    have : s ∈ sep w := by
      unfold sep
      rw [List.mem_append, List.mem_filter, List.mem_filter]
      rcases hq : s.player with _ | _ | _
      · exact absurd hq hp
      · left; exact ⟨hs, by simp⟩
      · right; exact ⟨hs, by simp⟩
    rw [h] at this
    exact absurd this List.not_mem_nil

theorem orth_val (x y : Sym) (h : orth x y = true) (hx : x.player ≠ Player.none) :
    valSym f g x * valSym f g y = 0 := by
  unfold orth at h
  simp only [decide_eq_true_eq] at h
  obtain ⟨hp, hq, ha⟩ := h
  unfold valSym
  rw [← hp, ← hq]
  rcases hxp : x.player with _ | _ | _
  · exact absurd hxp hx
  · simp only
    by_cases h1 : f x.question = x.answer
    · have : f x.question ≠ y.answer := fun h2 => ha (h1.symm.trans h2)
      simp [this]
    · simp [h1]
  · simp only
    by_cases h1 : g x.question = x.answer
    · have : g x.question ≠ y.answer := fun h2 => ha (h1.symm.trans h2)
      simp [this]
    · simp [h1]

/-! ### `_reduce` preserves values -/

theorem scan_merged : ∀ (w w' : Word), scan w = Scan.merged w' →
    val f g w' = val f g w ∧ w'.length + 1 = w.length ∧ w' ≠ [] ∧ ∀ s ∈ w', s ∈ w
  | [], w', h => by simp [scan] at h
  | [_], w', h => by simp [scan] at h
  | x :: y :: rest, w', h => by
    unfold scan at h
    split at h
    · rename_i hxy
      injection h with h
      subst h; subst hxy
      refine ⟨?_, by simp, by simp, fun s hs => List.mem_cons_of_mem _ hs⟩
      simp only [val_cons]
      rw [← mul_assoc, valSym_idem]
    · split at h
      · simp at h
      · cases hs : scan (y :: rest) with
        | merged w'' =>
          rw [hs] at h
          injection h with h
          subst h
          obtain ⟨hv, hl, _, hm⟩ := scan_merged (y :: rest) w'' hs
          refine ⟨by rw [val_cons, hv]; rfl, by simp only [List.length_cons] at hl ⊢; omega,
            by simp, ?_⟩
          intro s hs'
          rcases List.mem_cons.mp hs' with h1 | h1
          · subst h1; exact List.mem_cons_self
          · exact List.mem_cons_of_mem _ (hm s h1)
        | zero => rw [hs] at h; simp at h
        | done => rw [hs] at h; simp at h

theorem scan_zero : ∀ (w : Word), scan w = Scan.zero → (∀ s ∈ w, s.player ≠ Player.none) → val f g w = 0
  | [], h, _ => by simp [scan] at h
  | [_], h, _ => by simp [scan] at h
  | x :: y :: rest, h, hp => by
    unfold scan at h
    split at h
    · simp at h
    · split at h
      · rename_i ho
        simp only [val_cons]
        rw [← mul_assoc, orth_val f g x y ho (hp x List.mem_cons_self), zero_mul]
      · cases hs : scan (y :: rest) with
        | merged w'' => rw [hs] at h; simp at h
        | zero =>
          rw [val_cons, scan_zero (y :: rest) hs (fun s h' => hp s (List.mem_cons_of_mem _ h')), mul_zero]
        | done => rw [hs] at h; simp at h

theorem reduceFuel_val : ∀ (n : Nat) (w : Word),
    (reduceFuel n w ≠ [] → val f g (reduceFuel n w) = val f g w) ∧
    (reduceFuel n w = [] → hasMeas w → val f g w = 0)
  | 0, w => by
    simp only [reduceFuel]
    exact ⟨fun _ => val_sep f g w, fun h hm => absurd h ((sep_ne_nil_iff w).mpr hm)⟩
  | n + 1, w => by
    simp only [reduceFuel]
    cases hs : scan (sep w) with
    | merged w' =>
      simp only
      obtain ⟨hv, _, hne, hm⟩ := scan_merged f g (sep w) w' hs
      obtain ⟨ihA, ihB⟩ := reduceFuel_val n w'
      refine ⟨fun h => by rw [ihA h, hv, val_sep], fun h _ => ?_⟩
      have hm' : hasMeas w' := by
        obtain ⟨s, hs'⟩ := List.exists_mem_of_ne_nil _ hne
        exact ⟨s, hs', sep_players w s (hm s hs')⟩
      rw [← val_sep, ← hv]
      exact ihB h hm'
    | zero =>
      simp only
      exact ⟨fun h => absurd rfl h, fun _ _ => by
        rw [← val_sep]; exact scan_zero f g (sep w) hs (sep_players w)⟩
    | done =>
      simp only
      exact ⟨fun _ => val_sep f g w, fun h hm => absurd h ((sep_ne_nil_iff w).mpr hm)⟩

end Val

/-! ### the generated words are reduced, non-trivial products `(Alice's part)(Bob's part)` -/

theorem sep_length_le (w : Word) : (sep w).length ≤ w.length := by
  unfold sep
  rw [List.length_append]
  induction w with
  | nil => simp
  | cons s w ih =>
    rcases hp : s.player with _ | _ | _
    · rw [List.filter_cons_of_neg (by simp [hp]), List.filter_cons_of_neg (by simp [hp])]
      simp only [List.length_cons]; omega
    · rw [List.filter_cons_of_pos (by simp [hp]), List.filter_cons_of_neg (by simp [hp])]
      simp only [List.length_cons]; omega
    · rw [List.filter_cons_of_neg (by simp [hp]), List.filter_cons_of_pos (by simp [hp])]
      simp only [List.length_cons]; omega

theorem scan_merged_length : ∀ (w w' : Word), scan w = Scan.merged w' → w'.length + 1 = w.length :=
  fun w w' h => (scan_merged (fun _ => 0) (fun _ => 0) w w' h).2.1

theorem reduceFuel_length_le : ∀ (n : Nat) (w : Word), (reduceFuel n w).length ≤ w.length
  | 0, w => sep_length_le w
  | n + 1, w => by
    simp only [reduceFuel]
    cases hs : scan (sep w) with
    | merged w' =>
      simp only
      have h1 := reduceFuel_length_le n w'
      have h2 := scan_merged_length (sep w) w' hs
      have h3 := sep_length_le w
      omega
    | zero => simp
    | done => exact sep_length_le w

/-- a word of Alice's symbols followed by Bob's symbols is not changed by the commutation step -/
theorem sep_append_of_players (wa wb : Word) (ha : ∀ s ∈ wa, s.player = Player.alice)
    (hb : ∀ s ∈ wb, s.player = Player.bob) : sep (wa ++ wb) = wa ++ wb := by
  unfold sep
  rw [List.filter_append, List.filter_append]
  have h1 : wa.filter (fun s => decide (s.player = Player.alice)) = wa :=
    List.filter_eq_self.mpr (fun s hs => by simp [ha s hs])
  have h2 : wb.filter (fun s => decide (s.player = Player.alice)) = [] :=
    List.filter_eq_nil_iff.mpr (fun s hs => by simp [hb s hs])
  have h3 : wa.filter (fun s => decide (s.player = Player.bob)) = [] :=
    List.filter_eq_nil_iff.mpr (fun s hs => by simp [ha s hs])
  have h4 : wb.filter (fun s => decide (s.player = Player.bob)) = wb :=
    List.filter_eq_self.mpr (fun s hs => by simp [hb s hs])
  rw [h1, h2, h3, h4]; simp

theorem sep_ident_cons (w : Word) : sep (Sym.ident :: w) = sep w := by
  unfold sep
  rw [List.filter_cons_of_neg (by simp [Sym.ident]), List.filter_cons_of_neg (by simp [Sym.ident])]

theorem scan_cons_cons_done (x y : Sym) (r : Word) :
    scan (x :: y :: r) = Scan.done ↔ x ≠ y ∧ orth x y = false ∧ scan (y :: r) = Scan.done := by
  constructor
  · intro h
    unfold scan at h
    split at h
    · simp at h
    · rename_i hne
      split at h
      · simp at h
      · rename_i ho
        refine ⟨hne, by simpa using ho, ?_⟩
        cases hs : scan (y :: r) with
        | merged w'' => rw [hs] at h; simp at h
        | zero => rw [hs] at h; simp at h
        | done => rfl
  · rintro ⟨hne, ho, hs⟩
    rw [scan, if_neg hne, if_neg (by simp [ho]), hs]

theorem scan_append_done : ∀ (u v : Word), scan u = Scan.done → scan v = Scan.done →
    (∀ x ∈ u, ∀ y ∈ v, x.player ≠ y.player) → scan (u ++ v) = Scan.done
  | [], v, _, hv, _ => by simpa using hv
  | [x], [], _, _, _ => by simp [scan]
  | [x], y :: r, _, hv, hp => by
    have hne : x.player ≠ y.player := hp x List.mem_cons_self y List.mem_cons_self
    have h1 : x ≠ y := fun h => hne (by rw [h])
    have h2 : orth x y = false := by simp [orth, hne]
    exact (scan_cons_cons_done x y r).mpr ⟨h1, h2, hv⟩
  | x :: x' :: u, v, hu, hv, hp => by
    obtain ⟨h1, h2, h3⟩ := (scan_cons_cons_done x x' u).mp hu
    have ih := scan_append_done (x' :: u) v h3 hv (fun a ha b hb => hp a (List.mem_cons_of_mem _ ha) b hb)
    exact (scan_cons_cons_done x x' (u ++ v)).mpr ⟨h1, h2, ih⟩

/-- the filter `len(_reduce(word)) == len(word)` of `_gen_words` on a word of one player: no neighbouring pair
    of the word is equal or orthogonal -/
theorem scan_done_of_reduce_length (w : Word) (p : Player) (hp : p = Player.alice ∨ p = Player.bob)
    (hw : ∀ s ∈ w, s.player = p) (hl : (reduceWord w).length = w.length) : scan w = Scan.done := by
  have hsep : sep w = w := by
    rcases hp with rfl | rfl
    · simpa using sep_append_of_players w [] hw (by simp)
    · simpa using sep_append_of_players [] w (by simp) hw
  unfold reduceWord at hl
  cases hn : w.length with
  | zero =>
    have : w = [] := List.length_eq_zero_iff.mp hn
    subst this; rfl
  | succ n =>
    rw [hn] at hl
    simp only [reduceFuel, hsep] at hl
    cases hs : scan w with
    | merged w' =>
      rw [hs] at hl
      simp only at hl
      have h1 := reduceFuel_length_le n w'
      have h2 := scan_merged_length w w' hs
      omega
    | zero => rw [hs] at hl; simp at hl
    | done => rfl

/-- what `_gen_words` appends: Alice's part then Bob's part, both without reducible neighbours, not empty -/
structure GoodWord (w : Word) : Prop where
  split : ∃ wa wb, w = wa ++ wb ∧ (∀ s ∈ wa, s.player = Player.alice) ∧ (∀ s ∈ wb, s.player = Player.bob) ∧
    scan wa = Scan.done ∧ scan wb = Scan.done
  ne_nil : w ≠ []

theorem GoodWord.hasMeas {w : Word} (h : GoodWord w) : hasMeas w := by
  obtain ⟨wa, wb, rfl, ha, hb, _, _⟩ := h.split
  obtain ⟨s, hs⟩ := List.exists_mem_of_ne_nil _ h.ne_nil
  refine ⟨s, hs, ?_⟩
  rcases List.mem_append.mp hs with h1 | h1
  · simp [ha s h1]
  · simp [hb s h1]

/-- a generated word is a fixed point of `_reduce`, also with the identity symbol in front (the product
    `words[0]† · w`) -/
theorem GoodWord.reduce_ident_cons {w : Word} (h : GoodWord w) : reduceWord (Sym.ident :: w) = w := by
  obtain ⟨wa, wb, rfl, ha, hb, hsa, hsb⟩ := h.split
  have hsep : sep (Sym.ident :: (wa ++ wb)) = wa ++ wb := by
    rw [sep_ident_cons, sep_append_of_players wa wb ha hb]
  have hscan : scan (wa ++ wb) = Scan.done :=
    scan_append_done wa wb hsa hsb (fun x hx y hy => by simp [ha x hx, hb y hy])
  unfold reduceWord
  simp only [List.length_cons, reduceFuel, hsep, hscan]

theorem symbols_player (p : Player) (nIn nOut : Nat) : ∀ s ∈ symbols p nIn nOut, s.player = p := by
  intro s hs
  unfold symbols at hs
  simp only [List.mem_flatMap, List.mem_map, List.mem_range] at hs
  obtain ⟨q, _, a, _, rfl⟩ := hs
  rfl

theorem product_mem (S : List Sym) : ∀ (n : Nat) (w : Word), w ∈ product S n → w.length = n ∧ ∀ s ∈ w, s ∈ S
  | 0, w, h => by
    simp only [product, List.mem_singleton] at h
    subst h; simp
  | n + 1, w, h => by
    simp only [product, List.mem_flatMap, List.mem_map] at h
    obtain ⟨s, hs, w', hw', rfl⟩ := h
    obtain ⟨hl, hm⟩ := product_mem S n w' hw'
    refine ⟨by simp [hl], ?_⟩
    intro t ht
    rcases List.mem_cons.mp ht with rfl | h1
    · exact hs
    · exact hm t h1

theorem wordsOfType_good (ai ao bi bo ca cb : Nat) (hc : 0 < ca + cb) :
    ∀ w ∈ wordsOfType (symbols Player.alice ai ao) (symbols Player.bob bi bo) ca cb, GoodWord w := by
  intro w hw
  unfold wordsOfType at hw
  simp only [List.mem_flatMap, List.mem_map, List.mem_filter, beq_iff_eq] at hw
  obtain ⟨wa, ⟨hwa, hla⟩, wb, ⟨hwb, hlb⟩, rfl⟩ := hw
  obtain ⟨hal, ham⟩ := product_mem _ ca wa hwa
  obtain ⟨hbl, hbm⟩ := product_mem _ cb wb hwb
  have ha : ∀ s ∈ wa, s.player = Player.alice := fun s hs => symbols_player _ _ _ s (ham s hs)
  have hb : ∀ s ∈ wb, s.player = Player.bob := fun s hs => symbols_player _ _ _ s (hbm s hs)
  refine ⟨⟨wa, wb, rfl, ha, hb, ?_, ?_⟩, ?_⟩
  · exact scan_done_of_reduce_length wa _ (Or.inl rfl) ha (by rw [hla, hal])
  · exact scan_done_of_reduce_length wb _ (Or.inr rfl) hb (by rw [hlb, hbl])
  · intro h
    have : (wa ++ wb).length = 0 := by rw [h]; rfl
    rw [List.length_append, hal, hbl] at this
    omega

/-- every extra configuration of the level has at least one letter (true for every string that `_parse` reads
    from letters `a`, `b`: only terms longer than `base_k ≥ 0` are added) -/
def ConfOK (conf : List (Nat × Nat)) : Prop := ∀ c ∈ conf, 0 < c.1 + c.2

theorem genWords_structure (base : Nat) (conf : List (Nat × Nat)) (ao ai bo bi : Nat) (hc : ConfOK conf) :
    ∃ rest, genWords base conf ao ai bo bi = [Sym.ident] :: rest ∧ ∀ w ∈ rest, GoodWord w := by
  refine ⟨_, by unfold genWords; simp only [List.cons_append, List.nil_append]; rfl, ?_⟩
  intro w hw
  rcases List.mem_append.mp hw with h | h
  · simp only [List.mem_flatMap, List.mem_range] at h
    obtain ⟨i', _, j, hj, hw'⟩ := h
    exact wordsOfType_good ai ao bi bo j (i' + 1 - j) (by omega) w hw'
  · simp only [List.mem_flatMap] at h
    obtain ⟨c, hcm, hw'⟩ := h
    exact wordsOfType_good ai ao bi bo c.1 c.2 (hc c hcm) w hw'

/-- what the constraint loop needs to know about the word list: word 0 is the identity word, every other word
    contains a measurement and its product with the identity word does not reduce to the empty tuple -/
structure WordsOK (words : List Word) : Prop where
  zero : wordAt words 0 = [Sym.ident]
  pos : 0 < words.length
  good : ∀ j, 0 < j → j < words.length → hasMeas (wordAt words j) ∧ entryWord words 0 j ≠ []

theorem genWords_ok (base : Nat) (conf : List (Nat × Nat)) (ao ai bo bi : Nat) (hc : ConfOK conf) :
    WordsOK (genWords base conf ao ai bo bi) := by
  obtain ⟨rest, he, hg⟩ := genWords_structure base conf ao ai bo bi hc
  rw [he]
  refine ⟨rfl, by simp, ?_⟩
  intro j hj hlt
  obtain ⟨j', rfl⟩ : ∃ j', j = j' + 1 := ⟨j - 1, by omega⟩
  have hj' : j' < rest.length := by simpa using hlt
  have hw : wordAt ([Sym.ident] :: rest) (j' + 1) = rest[j'] := by
    simp [wordAt, List.getElem?_eq_getElem hj']
  have hgood := hg _ (List.getElem_mem hj')
  refine ⟨by rw [hw]; exact hgood.hasMeas, ?_⟩
  unfold entryWord
  rw [hw]
  have h0 : wordAt ([Sym.ident] :: rest) 0 = [Sym.ident] := rfl
  rw [h0]
  simp only [List.reverse_singleton, List.singleton_append]
  rw [hgood.reduce_ident_cons]
  exact hgood.ne_nil

/-! ### sums -/

theorem sumN_eq_range_sum {M : Type} [AddCommMonoid M] (f : Nat → M) :
    ∀ n, sumN n f = ∑ k ∈ Finset.range n, f k
  | 0 => by simp [sumN]
  | n + 1 => by rw [Finset.sum_range_succ, ← sumN_eq_range_sum f n]; rfl

theorem sumN_ite_eq {M : Type} [AddCommMonoid M] (n k : Nat) (F : Nat → M) (hk : k < n) :
    sumN n (fun a => if k = a then F a else 0) = F k := by
  rw [sumN_eq_range_sum, Finset.sum_ite_eq]
  simp [hk]

theorem sumN_congr {M : Type} [AddCommMonoid M] (n : Nat) (F G : Nat → M) (h : ∀ k, k < n → F k = G k) :
    sumN n F = sumN n G := by
  rw [sumN_eq_range_sum, sumN_eq_range_sum]
  exact Finset.sum_congr rfl (fun k hk => h k (Finset.mem_range.mp hk))

/-! ### what it means to satisfy a constraint -/

section SatDef
variable {α : Type} [Zero α] [One α] [Add α] [LE α]

/-- the point `(R, K)` satisfies the constraint `c`; the meaning of `R ⪰ 0` is supplied by the caller (`psd`) -/
def Sat (psd : Prop) (ao bo : Nat) (R : Nat → Nat → α) (K : Nat → Nat → Nat → Nat → α) : Constr → Prop
  | .norm => R 0 0 = 1
  | .psd => psd
  | .zero i j => R i j = 0
  | .meas i j x y a b => R i j = K a b x y
  | .margA i j x a => R i j = sumN bo (fun b => K a b x 0)
  | .margB i j y b => R i j = sumN ao (fun a => K a b 0 y)
  | .same i j i' j' => R i j = R i' j'
  | .kNonneg x y a b => 0 ≤ K a b x y
  | .kNorm x y => sumN ao (fun a => sumN bo (fun b => K a b x y)) = 1
  | .nsBob y b x => sumN ao (fun a => K a b 0 y) = sumN ao (fun a => K a b x y)
  | .nsAlice x a y => sumN bo (fun b => K a b x 0) = sumN bo (fun b => K a b x y)

end SatDef

/-! ### the entry constraints at a point given by an evaluation of words

Both kinds of strategies define a point of the relaxation in the same way: a map `ev` from words to values that is
compatible with `_reduce`, `R[i, j] = ev(words[i]† · words[j])`, and a behaviour `K` that gives the values of the
words `A`, `B` and `A·B`.  The soundness of the loop is proved once, for every such evaluation. -/

section Eval
variable {α : Type} [Zero α] [One α] [Add α] [LE α]

/-- `ev` is an evaluation of words compatible with `_reduce`, `R` its moment matrix on `words`, `K` its behaviour -/
structure EvalOK (ev : Word → α) (ao bo : Nat) (words : List Word) (R : Nat → Nat → α)
    (K : Nat → Nat → Nat → Nat → α) : Prop where
  red_ne : ∀ w, reduceWord w ≠ [] → ev (reduceWord w) = ev w
  red_nil : ∀ w, reduceWord w = [] → hasMeas w → ev w = 0
  entry : ∀ i j, R i j = ev ((wordAt words i).reverse ++ wordAt words j)
  norm : R 0 0 = 1
  pair : ∀ sa sb : Sym, sa.player = Player.alice → sb.player = Player.bob →
    ev [sa, sb] = K sa.answer sb.answer sa.question sb.question
  oneA : ∀ s : Sym, s.player = Player.alice → ev [s] = sumN bo (fun b => K s.answer b s.question 0)
  oneB : ∀ s : Sym, s.player = Player.bob → ev [s] = sumN ao (fun a => K a s.answer 0 s.question)

variable {ev : Word → α} {ao bo : Nat} {words : List Word} {R : Nat → Nat → α} {K : Nat → Nat → Nat → Nat → α}

omit [LE α] in
theorem EvalOK.entryWord_ne (h : EvalOK ev ao bo words R K) (i j : Nat) (hne : entryWord words i j ≠ []) :
    ev (entryWord words i j) = R i j := by
  rw [h.entry]
  exact h.red_ne _ hne

omit [LE α] in
theorem EvalOK.entryWord_nil (h : EvalOK ev ao bo words R K) (i j : Nat) (hnil : entryWord words i j = [])
    (hm : hasMeas (wordAt words i)) : R i j = 0 := by
  rw [h.entry]
  refine h.red_nil _ hnil ?_
  obtain ⟨s, hs, hp⟩ := hm
  exact ⟨s, List.mem_append_left _ (List.mem_reverse.mpr hs), hp⟩

end Eval

theorem isMeas_some (w : Word) (sa sb : Sym) (h : isMeas w = some (sa, sb)) :
    w = [sa, sb] ∧ sa.player = Player.alice ∧ sb.player = Player.bob := by
  match w, h with
  | [x, y], h =>
    simp only [isMeas] at h
    split at h
    · rename_i hp
      simp only [Option.some.injEq, Prod.mk.injEq] at h
      obtain ⟨rfl, rfl⟩ := h
      exact ⟨rfl, hp.1, hp.2⟩
    · simp at h

theorem isMeasOne_some (w : Word) (s : Sym) (h : isMeasOne w = some s) :
    w = [s] ∧ (s.player = Player.alice ∨ s.player = Player.bob) := by
  match w, h with
  | [x], h =>
    simp only [isMeasOne] at h
    split at h
    · rename_i hp
      simp only [Option.some.injEq] at h
      subst h
      exact ⟨rfl, hp⟩
    · simp at h

/-- invariant of the dictionary `seen`: every stored entry has the stored reduced word, and the empty tuple is
    stored only for the entry `(0, 0)` -/
def SeenInv (words : List Word) (seen : Seen) : Prop :=
  ∀ w i0 j0, lookupSeen seen w = some (i0, j0) → entryWord words i0 j0 = w ∧ (w = [] → i0 = 0 ∧ j0 = 0)

theorem seenInv_nil (words : List Word) : SeenInv words [] := by
  intro w i0 j0 h
  simp [lookupSeen] at h

theorem pairsUpper_lt (dim : Nat) : ∀ p ∈ pairsUpper dim, p.1 < dim ∧ p.2 < dim := by
  intro p hp
  unfold pairsUpper at hp
  simp only [List.mem_flatMap, List.mem_map, List.mem_range] at hp
  obtain ⟨i, hi, d, hd, rfl⟩ := hp
  exact ⟨hi, by simp only; omega⟩

section EvalSound
variable {α : Type} [Zero α] [One α] [Add α] [LE α]
variable {ev : Word → α} {ao bo : Nat} {words : List Word} {R : Nat → Nat → α} {K : Nat → Nat → Nat → Nat → α}

theorem entryConstr_sound (psd : Prop) (hev : EvalOK ev ao bo words R K) (hok : WordsOK words) (seen : Seen)
    (hinv : SeenInv words seen) (i j : Nat) (hi : i < words.length) (hj : j < words.length) :
    (∀ c, (entryConstr words seen i j).1 = some c → Sat psd ao bo R K c) ∧
      SeenInv words (entryConstr words seen i j).2 := by
  unfold entryConstr
  simp only
  split
  · -- zero branch
    rename_i hz
    refine ⟨fun c hc => ?_, hinv⟩
    simp only [Option.some.injEq] at hc
    subst hc
    exact hev.entryWord_nil i j hz.2 (hok.good i (Nat.pos_of_ne_zero hz.1) hi).1
  · rename_i hz
    have hne_or : i = 0 ∨ entryWord words i j ≠ [] := by
      by_cases h0 : i = 0
      · exact Or.inl h0
      · exact Or.inr (fun h => hz ⟨h0, h⟩)
    split
    · -- one Alice and one Bob measurement
      rename_i sa sb hm
      refine ⟨fun c hc => ?_, hinv⟩
      simp only [Option.some.injEq] at hc
      subst hc
      obtain ⟨hw, ha, hb⟩ := isMeas_some _ sa sb hm
      show R i j = K sa.answer sb.answer sa.question sb.question
      rw [← hev.entryWord_ne i j (by rw [hw]; simp), hw, hev.pair sa sb ha hb]
    · split
      · -- one measurement of one player
        rename_i s hm
        refine ⟨fun c hc => ?_, hinv⟩
        simp only [Option.some.injEq] at hc
        subst hc
        obtain ⟨hw, hp⟩ := isMeasOne_some _ s hm
        have hv : R i j = ev [s] := by
          rw [← hev.entryWord_ne i j (by rw [hw]; simp), hw]
        split
        · rename_i hpa
          show R i j = sumN bo (fun b => K s.answer b s.question 0)
          rw [hv, hev.oneA s hpa]
        · rename_i hpa
          have hpb : s.player = Player.bob := by
            rcases hp with h | h
            · exact absurd h hpa
            · exact h
          show R i j = sumN ao (fun a => K a s.answer 0 s.question)
          rw [hv, hev.oneB s hpb]
      · split
        · -- same reduced word as an earlier entry
          rename_i i0 j0 hl
          refine ⟨fun c hc => ?_, hinv⟩
          simp only [Option.some.injEq] at hc
          subst hc
          obtain ⟨he, hnil⟩ := hinv _ i0 j0 hl
          show R i j = R i0 j0
          by_cases hw : entryWord words i j = []
          · obtain ⟨rfl, rfl⟩ := hnil hw
            have hi0 : i = 0 := by
              rcases hne_or with h | h
              · exact h
              · exact absurd hw h
            subst hi0
            have hj0 : j = 0 := by
              by_contra hjn
              exact (hok.good j (Nat.pos_of_ne_zero hjn) hj).2 hw
            subst hj0
            rfl
          · rw [← hev.entryWord_ne i j hw, ← he, hev.entryWord_ne i0 j0 (by rw [he]; exact hw)]
        · -- new reduced word: remember the entry
          rename_i hl
          refine ⟨fun c hc => by simp at hc, ?_⟩
          intro w i1 j1 h1
          simp only [lookupSeen] at h1
          split at h1
          · rename_i heq
            simp only [Option.some.injEq, Prod.mk.injEq] at h1
            obtain ⟨rfl, rfl⟩ := h1
            refine ⟨heq, fun hw => ?_⟩
            have hw' : entryWord words i j = [] := by rw [heq]; exact hw
            have hi0 : i = 0 := by
              rcases hne_or with h | h
              · exact h
              · exact absurd hw' h
            subst hi0
            refine ⟨rfl, ?_⟩
            by_contra hjn
            exact (hok.good j (Nat.pos_of_ne_zero hjn) hj).2 hw'
          · exact hinv w i1 j1 h1

theorem loopEntries_sound (psd : Prop) (hev : EvalOK ev ao bo words R K) (hok : WordsOK words) :
    ∀ (pairs : List (Nat × Nat)) (seen : Seen), SeenInv words seen →
      (∀ p ∈ pairs, p.1 < words.length ∧ p.2 < words.length) →
      ∀ c ∈ loopEntries words pairs seen, Sat psd ao bo R K c
  | [], _, _, _, c, hc => by simp [loopEntries] at hc
  | (i, j) :: rest, seen, hinv, hp, c, hc => by
    obtain ⟨hi, hj⟩ := hp (i, j) List.mem_cons_self
    obtain ⟨hs, hinv'⟩ := entryConstr_sound psd hev hok seen hinv i j hi hj
    have hrest := loopEntries_sound psd hev hok rest (entryConstr words seen i j).2 hinv'
      (fun p hp' => hp p (List.mem_cons_of_mem _ hp'))
    simp only [loopEntries] at hc
    split at hc
    · rename_i c' hc'
      rcases List.mem_cons.mp hc with rfl | h
      · exact hs _ hc'
      · exact hrest c h
    · exact hrest c hc

/-- every constraint on the moment matrix is satisfied by the point of an evaluation of words -/
theorem momentConstrs_sound_ev (psd : Prop) (hpsd : psd) (hev : EvalOK ev ao bo words R K) (hok : WordsOK words) :
    ∀ c ∈ momentConstrs words, Sat psd ao bo R K c := by
  intro c hc
  unfold momentConstrs at hc
  rcases List.mem_append.mp hc with h | h
  · simp only [List.mem_cons, List.not_mem_nil, or_false] at h
    rcases h with rfl | rfl
    · exact hev.norm
    · exact hpsd
  · exact loopEntries_sound psd hev hok _ [] (seenInv_nil words) (pairsUpper_lt _) c h

end EvalSound


/-! ### the entry constraints at the point of a deterministic strategy -/

section Det
variable (f g : Nat → Nat) (words : List Word)

theorem detR_eq_val (i j : Nat) :
    detR f g words i j = val f g ((wordAt words i).reverse ++ wordAt words j) := by
  unfold detR detZ
  rw [val_append, val_reverse]

theorem val_pair (sa sb : Sym) (ha : sa.player = Player.alice) (hb : sb.player = Player.bob) :
    val f g [sa, sb] = detK f g sa.answer sb.answer sa.question sb.question := by
  simp only [val, valSym, ha, hb, detK, mul_one]
  by_cases h1 : f sa.question = sa.answer <;> by_cases h2 : g sb.question = sb.answer <;> simp [h1, h2]

theorem sum_detK_bob (bo : Nat) (a x y : Nat) (hg : g y < bo) :
    sumN bo (fun b => detK f g a b x y) = if f x = a then 1 else 0 := by
  by_cases h : f x = a
  · rw [if_pos h]
    have : sumN bo (fun b => detK f g a b x y) = sumN bo (fun b => if g y = b then (fun _ => (1 : ℚ)) b else 0) :=
      sumN_congr bo _ _ (fun b _ => by simp [detK, h])
    rw [this, sumN_ite_eq bo (g y) _ hg]
  · rw [if_neg h]
    have : sumN bo (fun b => detK f g a b x y) = sumN bo (fun _ => (0 : ℚ)) :=
      sumN_congr bo _ _ (fun b _ => by simp [detK, h])
    rw [this, sumN_eq_range_sum]; simp

theorem sum_detK_alice (ao : Nat) (b x y : Nat) (hf : f x < ao) :
    sumN ao (fun a => detK f g a b x y) = if g y = b then 1 else 0 := by
  by_cases h : g y = b
  · rw [if_pos h]
    have : sumN ao (fun a => detK f g a b x y) = sumN ao (fun a => if f x = a then (fun _ => (1 : ℚ)) a else 0) :=
      sumN_congr ao _ _ (fun a _ => by simp [detK, h])
    rw [this, sumN_ite_eq ao (f x) _ hf]
  · rw [if_neg h]
    have : sumN ao (fun a => detK f g a b x y) = sumN ao (fun _ => (0 : ℚ)) :=
      sumN_congr ao _ _ (fun a _ => by simp [detK, h])
    rw [this, sumN_eq_range_sum]; simp

theorem val_single (s : Sym) : val f g [s] = valSym f g s := by simp [val]

/-- the values of words under a deterministic strategy are an evaluation in the sense of `EvalOK` -/
theorem evalOK_det (ao bo : Nat) (hok : WordsOK words) (hf0 : f 0 < ao) (hg0 : g 0 < bo) :
    EvalOK (val f g) ao bo words (detR f g words) (detK f g) where
  red_ne := fun w h => (reduceFuel_val f g _ w).1 h
  red_nil := fun w h hm => (reduceFuel_val f g _ w).2 h hm
  entry := detR_eq_val f g words
  norm := by simp [detR, detZ, hok.zero, val, valSym, Sym.ident]
  pair := val_pair f g
  oneA := fun s hs => by
    rw [val_single, sum_detK_bob f g bo _ _ _ hg0]
    simp [valSym, hs]
  oneB := fun s hs => by
    rw [val_single, sum_detK_alice f g ao _ _ _ hf0]
    simp [valSym, hs]

/-- every constraint on the moment matrix is satisfied by `R = z zᵀ`, `K = [a = f x][b = g y]` -/
theorem momentConstrs_sound (psd : Prop) (hpsd : psd) (ao bo : Nat) (hok : WordsOK words)
    (hf0 : f 0 < ao) (hg0 : g 0 < bo) :
    ∀ c ∈ momentConstrs words, Sat psd ao bo (detR f g words) (detK f g) c :=
  momentConstrs_sound_ev psd hpsd (evalOK_det f g words ao bo hok hf0 hg0) hok

/-- the behaviour of a deterministic strategy satisfies the constraints on the assemblage -/
theorem assemblageConstrs_sound (psd : Prop) (ao bo ai bi : Nat) (R : Nat → Nat → ℚ)
    (hf : ∀ x, x < ai → f x < ao) (hg : ∀ y, y < bi → g y < bo) :
    ∀ c ∈ assemblageConstrs ao bo ai bi, Sat psd ao bo R (detK f g) c := by
  intro c hc
  unfold assemblageConstrs at hc
  simp only [List.mem_append, List.mem_flatMap, List.mem_map, List.mem_range, List.mem_singleton] at hc
  rcases hc with (⟨x, hx, y, hy, h⟩ | ⟨y, hy, b, hb, x', hx', rfl⟩) | ⟨x, hx, a, ha, y', hy', rfl⟩
  · rcases h with ⟨a, ha, b, hb, rfl⟩ | rfl
    · show (0 : ℚ) ≤ detK f g a b x y
      unfold detK; split <;> norm_num
    · show sumN ao (fun a => sumN bo (fun b => detK f g a b x y)) = 1
      have : sumN ao (fun a => sumN bo (fun b => detK f g a b x y))
          = sumN ao (fun a => if f x = a then (fun _ => (1 : ℚ)) a else 0) :=
        sumN_congr ao _ _ (fun a _ => sum_detK_bob f g bo a x y (hg y hy))
      rw [this, sumN_ite_eq ao (f x) _ (hf x hx)]
  · show sumN ao (fun a => detK f g a b 0 y) = sumN ao (fun a => detK f g a b (x' + 1) y)
    rw [sum_detK_alice f g ao b 0 y (hf 0 (by omega)), sum_detK_alice f g ao b (x' + 1) y (hf _ (by omega))]
  · show sumN bo (fun b => detK f g a b x 0) = sumN bo (fun b => detK f g a b x (y' + 1))
    rw [sum_detK_bob f g bo a x 0 (hg 0 (by omega)), sum_detK_bob f g bo a x (y' + 1) (hg _ (by omega))]

/-- the objective at the behaviour of `(f, g)` is the strategy's winning probability -/
theorem objective_detK (ao bo ai bi : Nat) (prob : Prob) (pred : Pred)
    (hf : ∀ x, x < ai → f x < ao) (hg : ∀ y, y < bi → g y < bo) :
    objective ao bo ai bi prob pred (detK f g) = detValueN ai bi prob pred f g := by
  unfold objective detValueN
  apply sumN_congr; intro x hx
  apply sumN_congr; intro y hy
  have h1 : ∀ a, a < ao → sumN bo (fun b => prob x y * pred a b x y * detK f g a b x y)
      = if f x = a then (fun a => prob x y * pred a (g y) x y) a else 0 := by
    intro a _
    by_cases h : f x = a
    · rw [if_pos h]
      have : sumN bo (fun b => prob x y * pred a b x y * detK f g a b x y)
          = sumN bo (fun b => if g y = b then (fun b => prob x y * pred a b x y) b else 0) :=
        sumN_congr bo _ _ (fun b _ => by by_cases h2 : g y = b <;> simp [detK, h, h2])
      rw [this, sumN_ite_eq bo (g y) _ (hg y hy)]
    · rw [if_neg h]
      have : sumN bo (fun b => prob x y * pred a b x y * detK f g a b x y) = sumN bo (fun _ => (0 : ℚ)) :=
        sumN_congr bo _ _ (fun b _ => by simp [detK, h])
      rw [this, sumN_eq_range_sum]; simp
  rw [sumN_congr ao _ _ h1, sumN_ite_eq ao (f x) _ (hf x hx)]

end Det

/-! ### `R = z zᵀ` is positive semidefinite -/

section Psd
open scoped ComplexOrder

/-- `R ⪰ 0` for a rational matrix of size `n`: the complex matrix with these entries (the cvxpy variable `R` is
    complex Hermitian) is positive semidefinite in Mathlib's sense -/
def PsdQ (n : Nat) (R : Nat → Nat → ℚ) : Prop :=
  (Matrix.of fun i j : Fin n => ((R i j : ℚ) : ℂ)).PosSemidef

theorem psdQ_of_rank_one (n : Nat) (z : Nat → ℚ) : PsdQ n (fun i j => z i * z j) := by
  unfold PsdQ
  have h : (Matrix.of fun i j : Fin n => (((z i * z j : ℚ)) : ℂ))
      = Matrix.vecMulVec (fun i : Fin n => ((z i : ℚ) : ℂ)) (star (fun i : Fin n => ((z i : ℚ) : ℂ))) := by
    ext i j
    simp [Matrix.vecMulVec_apply]
  rw [h]
  exact Matrix.posSemidef_vecMulVec_self_star _

theorem detR_psd (f g : Nat → Nat) (words : List Word) (n : Nat) : PsdQ n (detR f g words) :=
  psdQ_of_rank_one n (detZ f g words)

end Psd

/-! ### the non-signalling polytope -/

section NS
variable {α : Type} [Field α] [LinearOrder α] [IsStrictOrderedRing α]

/-- the constraint system of `nonsignaling_value` in scalar form: `K ≥ 0`, `Σ_b K(a,b|x,y) = σ(a|x)`,
    `Σ_a K(a,b|x,y) = ρ(b|y)`, `Σ_a σ(a|x) = τ`, `Σ_b ρ(b|y) = τ`, `τ = 1`.  (The code writes the same system with
    2×2 Hermitian blocks `K, σ, ρ, τ`, `K ⪰ 0`, `τ ⪰ 0`, `tr τ = 1` and the objective `Σ π V tr K`; taking traces
    maps its feasible points onto the feasible points of this system with the same objective, `k ↦ k·E₁₁` maps
    back.) -/
def NsFeasible (ao bo ai bi : Nat) (K : Nat → Nat → Nat → Nat → α) : Prop :=
  (∀ x y a b, x < ai → y < bi → a < ao → b < bo → 0 ≤ K a b x y) ∧
  ∃ (sigma rho : Nat → Nat → α),
    (∀ x y a, x < ai → y < bi → a < ao → sumN bo (fun b => K a b x y) = sigma a x) ∧
    (∀ x y b, x < ai → y < bi → b < bo → sumN ao (fun a => K a b x y) = rho b y) ∧
    (∀ x, x < ai → sumN ao (fun a => sigma a x) = 1) ∧
    (∀ y, y < bi → sumN bo (fun b => rho b y) = 1)

/-- the objective `Σ π(x,y) V(a,b|x,y) K(a,b|x,y)` over any ordered field -/
def objG (ao bo ai bi : Nat) (prob : Nat → Nat → α) (pred K : Nat → Nat → Nat → Nat → α) : α :=
  sumN ai fun x => sumN bi fun y => sumN ao fun a => sumN bo fun b => prob x y * pred a b x y * K a b x y

theorem objective_eq_objG (ao bo ai bi : Nat) (prob : Prob) (pred K : Pred) :
    objective ao bo ai bi prob pred K = objG ao bo ai bi prob pred K := rfl

omit [IsStrictOrderedRing α] in
theorem ns_norm {ao bo ai bi : Nat} {K : Nat → Nat → Nat → Nat → α} (h : NsFeasible ao bo ai bi K)
    (x y : Nat) (hx : x < ai) (hy : y < bi) : sumN ao (fun a => sumN bo (fun b => K a b x y)) = 1 := by
  obtain ⟨_, sigma, rho, h1, _, h3, _⟩ := h
  rw [sumN_congr ao _ _ (fun a ha => h1 x y a hx hy ha)]
  exact h3 x hx

theorem ns_objective_le_one (ao bo ai bi : Nat) (prob : Nat → Nat → α) (pred K : Nat → Nat → Nat → Nat → α)
    (hp0 : ∀ x y, x < ai → y < bi → 0 ≤ prob x y)
    (hp1 : sumN ai (fun x => sumN bi (fun y => prob x y)) = 1)
    (hv : ∀ a b x y, a < ao → b < bo → x < ai → y < bi → 0 ≤ pred a b x y ∧ pred a b x y ≤ 1)
    (h : NsFeasible ao bo ai bi K) : objG ao bo ai bi prob pred K ≤ 1 := by
  unfold objG
  rw [← hp1]
  simp only [sumN_eq_range_sum]
  apply Finset.sum_le_sum; intro x hx
  apply Finset.sum_le_sum; intro y hy
  have hx' := Finset.mem_range.mp hx
  have hy' := Finset.mem_range.mp hy
  have hn := ns_norm h x y hx' hy'
  simp only [sumN_eq_range_sum] at hn
  calc ∑ a ∈ Finset.range ao, ∑ b ∈ Finset.range bo, prob x y * pred a b x y * K a b x y
      ≤ ∑ a ∈ Finset.range ao, ∑ b ∈ Finset.range bo, prob x y * K a b x y := by
        apply Finset.sum_le_sum; intro a ha
        apply Finset.sum_le_sum; intro b hb
        have ha' := Finset.mem_range.mp ha
        have hb' := Finset.mem_range.mp hb
        have hk := h.1 x y a b hx' hy' ha' hb'
        have hpv := hv a b x y ha' hb' hx' hy'
        have hp := hp0 x y hx' hy'
        calc prob x y * pred a b x y * K a b x y = (prob x y * K a b x y) * pred a b x y := by ring
          _ ≤ (prob x y * K a b x y) * 1 := mul_le_mul_of_nonneg_left hpv.2 (mul_nonneg hp hk)
          _ = prob x y * K a b x y := mul_one _
    _ = prob x y * ∑ a ∈ Finset.range ao, ∑ b ∈ Finset.range bo, K a b x y := by
        simp only [Finset.mul_sum]
    _ = prob x y := by rw [hn, mul_one]

theorem ns_objective_nonneg (ao bo ai bi : Nat) (prob : Nat → Nat → α) (pred K : Nat → Nat → Nat → Nat → α)
    (hp0 : ∀ x y, x < ai → y < bi → 0 ≤ prob x y)
    (hv : ∀ a b x y, a < ao → b < bo → x < ai → y < bi → 0 ≤ pred a b x y ∧ pred a b x y ≤ 1)
    (h : NsFeasible ao bo ai bi K) : 0 ≤ objG ao bo ai bi prob pred K := by
  unfold objG
  simp only [sumN_eq_range_sum]
  apply Finset.sum_nonneg; intro x hx
  apply Finset.sum_nonneg; intro y hy
  apply Finset.sum_nonneg; intro a ha
  apply Finset.sum_nonneg; intro b hb
  have hx' := Finset.mem_range.mp hx
  have hy' := Finset.mem_range.mp hy
  have ha' := Finset.mem_range.mp ha
  have hb' := Finset.mem_range.mp hb
  exact mul_nonneg (mul_nonneg (hp0 x y hx' hy') (hv a b x y ha' hb' hx' hy').1) (h.1 x y a b hx' hy' ha' hb')

/-! membership of the assemblage constraints in the generated list -/

theorem mem_kNonneg (ao bo ai bi x y a b : Nat) (hx : x < ai) (hy : y < bi) (ha : a < ao) (hb : b < bo) :
    Constr.kNonneg x y a b ∈ assemblageConstrs ao bo ai bi := by
  unfold assemblageConstrs
  simp only [List.mem_append, List.mem_flatMap, List.mem_map, List.mem_range, List.mem_singleton]
  exact Or.inl (Or.inl ⟨x, hx, y, hy, Or.inl ⟨a, ha, b, hb, rfl⟩⟩)

theorem mem_kNorm (ao bo ai bi x y : Nat) (hx : x < ai) (hy : y < bi) :
    Constr.kNorm x y ∈ assemblageConstrs ao bo ai bi := by
  unfold assemblageConstrs
  simp only [List.mem_append, List.mem_flatMap, List.mem_map, List.mem_range, List.mem_singleton]
  exact Or.inl (Or.inl ⟨x, hx, y, hy, Or.inr rfl⟩)

theorem mem_nsBob (ao bo ai bi y b x : Nat) (hy : y < bi) (hb : b < bo) (hx0 : 0 < x) (hx : x < ai) :
    Constr.nsBob y b x ∈ assemblageConstrs ao bo ai bi := by
  unfold assemblageConstrs
  simp only [List.mem_append, List.mem_flatMap, List.mem_map, List.mem_range, List.mem_singleton]
  refine Or.inl (Or.inr ⟨y, hy, b, hb, x - 1, by omega, ?_⟩)
  congr 1; omega

theorem mem_nsAlice (ao bo ai bi x a y : Nat) (hx : x < ai) (ha : a < ao) (hy0 : 0 < y) (hy : y < bi) :
    Constr.nsAlice x a y ∈ assemblageConstrs ao bo ai bi := by
  unfold assemblageConstrs
  simp only [List.mem_append, List.mem_flatMap, List.mem_map, List.mem_range, List.mem_singleton]
  refine Or.inr ⟨x, hx, a, ha, y - 1, by omega, ?_⟩
  congr 1; omega

omit [IsStrictOrderedRing α] in
/-- the assemblage part of the NPA constraints describes exactly the non-signalling polytope: a point that
    satisfies `assemblageConstrs` is non-signalling … -/
theorem nsFeasible_of_assemblage (psd : Prop) (ao bo ai bi : Nat) (hai : 0 < ai) (hbi : 0 < bi)
    (R : Nat → Nat → α) (K : Nat → Nat → Nat → Nat → α)
    (h : ∀ c ∈ assemblageConstrs ao bo ai bi, Sat psd ao bo R K c) : NsFeasible ao bo ai bi K := by
  refine ⟨fun x y a b hx hy ha hb => h _ (mem_kNonneg ao bo ai bi x y a b hx hy ha hb),
    fun a x => sumN bo (fun b => K a b x 0), fun b y => sumN ao (fun a => K a b 0 y), ?_, ?_, ?_, ?_⟩
  · intro x y a hx hy ha
    rcases Nat.eq_zero_or_pos y with rfl | hy0
    · rfl
    · exact (h _ (mem_nsAlice ao bo ai bi x a y hx ha hy0 hy)).symm
  · intro x y b hx hy hb
    rcases Nat.eq_zero_or_pos x with rfl | hx0
    · rfl
    · exact (h _ (mem_nsBob ao bo ai bi y b x hy hb hx0 hx)).symm
  · intro x hx
    exact h _ (mem_kNorm ao bo ai bi x 0 hx hbi)
  · intro y hy
    have := h _ (mem_kNorm ao bo ai bi 0 y hai hy)
    simp only [Sat, sumN_eq_range_sum] at this ⊢
    rw [Finset.sum_comm]
    exact this

omit [IsStrictOrderedRing α] in
/-- … and conversely a non-signalling behaviour satisfies every constraint of `assemblageConstrs` -/
theorem assemblage_of_nsFeasible (psd : Prop) (ao bo ai bi : Nat)
    (R : Nat → Nat → α) (K : Nat → Nat → Nat → Nat → α) (h : NsFeasible ao bo ai bi K) :
    ∀ c ∈ assemblageConstrs ao bo ai bi, Sat psd ao bo R K c := by
  intro c hc
  unfold assemblageConstrs at hc
  simp only [List.mem_append, List.mem_flatMap, List.mem_map, List.mem_range, List.mem_singleton] at hc
  obtain ⟨hnn, sigma, rho, h1, h2, h3, h4⟩ := h
  rcases hc with (⟨x, hx, y, hy, hc⟩ | ⟨y, hy, b, hb, x', hx', rfl⟩) | ⟨x, hx, a, ha, y', hy', rfl⟩
  · rcases hc with ⟨a, ha, b, hb, rfl⟩ | rfl
    · exact hnn x y a b hx hy ha hb
    · show sumN ao (fun a => sumN bo (fun b => K a b x y)) = 1
      rw [sumN_congr ao _ _ (fun a ha => h1 x y a hx hy ha)]
      exact h3 x hx
  · show sumN ao (fun a => K a b 0 y) = sumN ao (fun a => K a b (x' + 1) y)
    rw [h2 0 y b (by omega) hy hb, h2 (x' + 1) y b (by omega) hy hb]
  · show sumN bo (fun b => K a b x 0) = sumN bo (fun b => K a b x (y' + 1))
    rw [h1 x 0 a hx (by omega) ha, h1 x (y' + 1) a hx (by omega) ha]

end NS

/-! ### levels -/

/-- the level argument is of the documented form: an integer, or a string whose terms after the first consist of
    the letters `a` and `b` only (`'1+ab+aab'`) -/
def LevelWF : LevelArg → Prop
  | .int _ => True
  | .str s => ∀ v ∈ (splitPlus s.toList).tail, ∀ c ∈ v, c = 'a' ∨ c = 'b'

theorem mem_foldl_addConf : ∀ (l acc : List (Nat × Nat)) (c : Nat × Nat),
    c ∈ l.foldl addConf acc → c ∈ acc ∨ c ∈ l
  | [], acc, c, h => Or.inl (by simpa using h)
  | d :: l, acc, c, h => by
    rw [List.foldl_cons] at h
    rcases mem_foldl_addConf l (addConf acc d) c h with h1 | h1
    · unfold addConf at h1
      split at h1
      · exact Or.inl h1
      · rcases List.mem_append.mp h1 with h2 | h2
        · exact Or.inl h2
        · exact Or.inr (by simp at h2; simp [h2])
    · exact Or.inr (List.mem_cons_of_mem _ h1)

theorem countChar_ab (v : List Char) (h : ∀ c ∈ v, c = 'a' ∨ c = 'b') :
    countChar 'a' v + countChar 'b' v = v.length := by
  induction v with
  | nil => rfl
  | cons c v ih =>
    have ih' := ih (fun d hd => h d (List.mem_cons_of_mem _ hd))
    unfold countChar at ih' ⊢
    rcases h c List.mem_cons_self with rfl | rfl
    · rw [List.filter_cons_of_pos (by simp), List.filter_cons_of_neg (by decide)]
      simp only [List.length_cons]; omega
    · rw [List.filter_cons_of_neg (by decide), List.filter_cons_of_pos (by simp)]
      simp only [List.length_cons]; omega

/-- for a level of the documented form every extra configuration has at least one letter -/
theorem levelSpec_confOK (k : LevelArg) (hwf : LevelWF k) (base : Nat) (conf : List (Nat × Nat))
    (h : levelSpec k = some (base, conf)) : ConfOK conf := by
  cases k with
  | int n =>
    simp only [levelSpec, Option.some.injEq, Prod.mk.injEq] at h
    obtain ⟨_, rfl⟩ := h
    intro c hc; simp at hc
  | str s =>
    simp only [levelSpec, parseLevel] at h
    simp only [LevelWF] at hwf
    split at h
    · simp at h
    · rename_i hd t hsplit
      rw [hsplit] at hwf
      split at h
      · simp at h
      · rename_i b hb
        simp only [Option.some.injEq, Prod.mk.injEq] at h
        obtain ⟨rfl, rfl⟩ := h
        intro c hc
        rcases mem_foldl_addConf _ _ c hc with h1 | h1
        · simp at h1
        · simp only [List.mem_map, List.mem_filter, decide_eq_true_eq] at h1
          obtain ⟨v, ⟨hv, hlen⟩, rfl⟩ := h1
          have := countChar_ab v (hwf v (by simpa using hv))
          simp only
          omega

/-! ### the entry constraints, semantically; restriction of a feasible point to a sub-list of the words -/

/-- what the double loop does with an entry, as a function of the entry alone -/
inductive EClass where
  | zero
  | meas (x y a b : Nat)
  | margA (x a : Nat)
  | margB (y b : Nat)
  | other (w : Word)

/-- the branch of the loop body taken for entry `(i, j)` -/
def entryClass (words : List Word) (i j : Nat) : EClass :=
  let word := entryWord words i j
  if i ≠ 0 ∧ word = [] then .zero
  else
    match isMeas word with
    | some (sa, sb) => .meas sa.question sb.question sa.answer sb.answer
    | none =>
      match isMeasOne word with
      | some s => if s.player = .alice then .margA s.question s.answer else .margB s.question s.answer
      | none => .other word

theorem entryConstr_eq (words : List Word) (seen : Seen) (i j : Nat) :
    entryConstr words seen i j =
      match entryClass words i j with
      | .zero => (some (.zero i j), seen)
      | .meas x y a b => (some (.meas i j x y a b), seen)
      | .margA x a => (some (.margA i j x a), seen)
      | .margB y b => (some (.margB i j y b), seen)
      | .other w =>
        match lookupSeen seen w with
        | some (i0, j0) => (some (.same i j i0 j0), seen)
        | none => (none, (w, (i, j)) :: seen) := by
  unfold entryConstr entryClass
  simp only
  by_cases hz : i ≠ 0 ∧ entryWord words i j = []
  · simp only [if_pos hz]
  · simp only [if_neg hz]
    cases hm : isMeas (entryWord words i j) with
    | some p =>
      obtain ⟨sa, sb⟩ := p
      simp only
    | none =>
      simp only
      cases ho : isMeasOne (entryWord words i j) with
      | some s =>
        simp only
        split <;> rfl
      | none =>
        simp only
        cases lookupSeen seen (entryWord words i j) with
        | none => rfl
        | some v => rfl

section Sem
variable {α : Type} [Zero α] [One α] [Add α] [LE α]
variable (psd : Prop) (ao bo : Nat) (words : List Word) (R : Nat → Nat → α) (K : Nat → Nat → Nat → Nat → α)

/-- the condition that the loop imposes on a single entry -/
def PointOK (i j : Nat) : EClass → Prop
  | .zero => R i j = 0
  | .meas x y a b => R i j = K a b x y
  | .margA x a => R i j = sumN bo (fun b => K a b x 0)
  | .margB y b => R i j = sumN ao (fun a => K a b 0 y)
  | .other _ => True

/-- the dictionary `seen` after the loop over `pairs` -/
def loopSeen : List (Nat × Nat) → Seen → Seen
  | [], seen => seen
  | (i, j) :: rest, seen => loopSeen rest (entryConstr words seen i j).2

theorem entryConstr_stable (seen : Seen) (i j : Nat) (w : Word) (v : Nat × Nat)
    (h : lookupSeen seen w = some v) : lookupSeen (entryConstr words seen i j).2 w = some v := by
  rw [entryConstr_eq]
  split <;> try exact h
  rename_i w' _
  split
  · exact h
  · rename_i hn
    simp only [lookupSeen]
    split
    · rename_i heq
      rw [heq, h] at hn
      simp at hn
    · exact h

theorem loopSeen_stable : ∀ (pairs : List (Nat × Nat)) (seen : Seen) (w : Word) (v : Nat × Nat),
    lookupSeen seen w = some v → lookupSeen (loopSeen words pairs seen) w = some v
  | [], _, _, _, h => h
  | (i, j) :: rest, seen, w, v, h =>
    loopSeen_stable rest _ w v (entryConstr_stable words seen i j w v h)

/-- what one step of the loop guarantees for its own entry, given that the emitted constraint holds -/
theorem entry_sem (seen : Seen) (i j : Nat)
    (hs : ∀ c, (entryConstr words seen i j).1 = some c → Sat psd ao bo R K c) :
    PointOK ao bo R K i j (entryClass words i j) ∧
      ∀ w, entryClass words i j = .other w →
        ∃ i0 j0, lookupSeen (entryConstr words seen i j).2 w = some (i0, j0) ∧ R i j = R i0 j0 := by
  rw [entryConstr_eq] at hs ⊢
  cases hc : entryClass words i j with
  | zero => rw [hc] at hs; exact ⟨hs _ rfl, fun w h => by cases h⟩
  | meas x y a b => rw [hc] at hs; exact ⟨hs _ rfl, fun w h => by cases h⟩
  | margA x a => rw [hc] at hs; exact ⟨hs _ rfl, fun w h => by cases h⟩
  | margB y b => rw [hc] at hs; exact ⟨hs _ rfl, fun w h => by cases h⟩
  | other w' =>
    rw [hc] at hs
    refine ⟨trivial, fun w h => ?_⟩
    injection h with h
    subst h
    simp only at hs ⊢
    cases hl : lookupSeen seen w' with
    | some v =>
      obtain ⟨i0, j0⟩ := v
      rw [hl] at hs
      exact ⟨i0, j0, hl, hs _ rfl⟩
    | none =>
      exact ⟨i, j, by simp [lookupSeen], rfl⟩

/-- **loop ⇒ semantics**: if every emitted constraint holds, every entry of `pairs` satisfies its own condition
    and equals the entry that represents its reduced word in the final dictionary -/
theorem loop_sem : ∀ (pairs : List (Nat × Nat)) (seen : Seen),
    (∀ c ∈ loopEntries words pairs seen, Sat psd ao bo R K c) →
    ∀ p ∈ pairs, PointOK ao bo R K p.1 p.2 (entryClass words p.1 p.2) ∧
      ∀ w, entryClass words p.1 p.2 = .other w →
        ∃ i0 j0, lookupSeen (loopSeen words pairs seen) w = some (i0, j0) ∧ R p.1 p.2 = R i0 j0
  | [], _, _, p, hp => by simp at hp
  | (i, j) :: rest, seen, hs, p, hp => by
    have hhead : ∀ c, (entryConstr words seen i j).1 = some c → Sat psd ao bo R K c := by
      intro c hc
      apply hs
      simp only [loopEntries, hc]
      exact List.mem_cons_self
    have hrest : ∀ c ∈ loopEntries words rest (entryConstr words seen i j).2, Sat psd ao bo R K c := by
      intro c hc
      apply hs
      simp only [loopEntries]
      split
      · exact List.mem_cons_of_mem _ hc
      · exact hc
    rcases List.mem_cons.mp hp with rfl | hp'
    · obtain ⟨h1, h2⟩ := entry_sem psd ao bo words R K seen i j hhead
      refine ⟨h1, fun w hw => ?_⟩
      obtain ⟨i0, j0, hl, he⟩ := h2 w hw
      exact ⟨i0, j0, loopSeen_stable words rest _ w _ hl, he⟩
    · exact loop_sem rest _ hrest p hp'

/-- **semantics ⇒ loop**: if on a set `S` of entries every entry satisfies its own condition and entries with
    the same reduced word (in the last branch) are equal, then every constraint that the loop over entries of
    `S` emits holds -/
theorem sem_loop (S : Nat → Nat → Prop)
    (hpt : ∀ i j, S i j → PointOK ao bo R K i j (entryClass words i j))
    (hpair : ∀ i j i' j' w, S i j → S i' j' → entryClass words i j = .other w →
      entryClass words i' j' = .other w → R i j = R i' j') :
    ∀ (pairs : List (Nat × Nat)) (seen : Seen), (∀ p ∈ pairs, S p.1 p.2) →
      (∀ w i0 j0, lookupSeen seen w = some (i0, j0) → S i0 j0 ∧ entryClass words i0 j0 = .other w) →
      ∀ c ∈ loopEntries words pairs seen, Sat psd ao bo R K c
  | [], _, _, _, c, hc => by simp [loopEntries] at hc
  | (i, j) :: rest, seen, hS, hinv, c, hc => by
    have hij : S i j := hS (i, j) List.mem_cons_self
    have hSr : ∀ p ∈ rest, S p.1 p.2 := fun p hp => hS p (List.mem_cons_of_mem _ hp)
    have hp := hpt i j hij
    simp only [loopEntries] at hc
    rw [entryConstr_eq] at hc
    cases hcl : entryClass words i j with
    | zero =>
      rw [hcl] at hc hp
      rcases List.mem_cons.mp hc with rfl | h
      · exact hp
      · exact sem_loop S hpt hpair rest seen hSr hinv c h
    | meas x y a b =>
      rw [hcl] at hc hp
      rcases List.mem_cons.mp hc with rfl | h
      · exact hp
      · exact sem_loop S hpt hpair rest seen hSr hinv c h
    | margA x a =>
      rw [hcl] at hc hp
      rcases List.mem_cons.mp hc with rfl | h
      · exact hp
      · exact sem_loop S hpt hpair rest seen hSr hinv c h
    | margB y b =>
      rw [hcl] at hc hp
      rcases List.mem_cons.mp hc with rfl | h
      · exact hp
      · exact sem_loop S hpt hpair rest seen hSr hinv c h
    | other w =>
      rw [hcl] at hc
      simp only at hc
      cases hl : lookupSeen seen w with
      | some v =>
        obtain ⟨i0, j0⟩ := v
        rw [hl] at hc
        rcases List.mem_cons.mp hc with rfl | h
        · obtain ⟨hS0, hc0⟩ := hinv w i0 j0 hl
          exact hpair i j i0 j0 w hij hS0 hcl hc0
        · exact sem_loop S hpt hpair rest seen hSr hinv c h
      | none =>
        rw [hl] at hc
        refine sem_loop S hpt hpair rest ((w, (i, j)) :: seen) hSr ?_ c hc
        intro w' i1 j1 h1
        simp only [lookupSeen] at h1
        split at h1
        · rename_i heq
          simp only [Option.some.injEq, Prod.mk.injEq] at h1
          obtain ⟨rfl, rfl⟩ := h1
          subst heq
          exact ⟨hij, hcl⟩
        · exact hinv w' i1 j1 h1

end Sem

theorem mem_pairsUpper (dim i j : Nat) : (i, j) ∈ pairsUpper dim ↔ i ≤ j ∧ j < dim := by
  unfold pairsUpper
  simp only [List.mem_flatMap, List.mem_map, List.mem_range, Prod.mk.injEq]
  constructor
  · rintro ⟨i', hi', d, hd, rfl, rfl⟩
    omega
  · rintro ⟨h1, h2⟩
    exact ⟨i, by omega, j - i, by omega, rfl, by omega⟩

/-- **Restriction to a sub-list of the words.**  Let the words `lo` be the words `hi` at the positions
    `φ 0 = 0 < φ 1 < …`.  If `(R, K)` satisfies every constraint on the moment matrix generated for `hi`, then
    the principal submatrix `R[φ i, φ j]` with the same `K` satisfies every constraint generated for `lo`
    (`R ⪰ 0` is inherited through the hypothesis `hpsd`). -/
theorem momentConstrs_restrict {α : Type} [Zero α] [One α] [Add α] [LE α]
    (psdHi psdLo : Prop) (hpsd : psdHi → psdLo) (ao bo : Nat) (hi lo : List Word) (φ : Nat → Nat)
    (hφ0 : φ 0 = 0) (hφmono : ∀ i j, i < j → j < lo.length → φ i < φ j)
    (hφlt : ∀ i, i < lo.length → φ i < hi.length)
    (hφw : ∀ i, i < lo.length → wordAt lo i = wordAt hi (φ i))
    (R : Nat → Nat → α) (K : Nat → Nat → Nat → Nat → α)
    (h : ∀ c ∈ momentConstrs hi, Sat psdHi ao bo R K c) :
    ∀ c ∈ momentConstrs lo, Sat psdLo ao bo (fun i j => R (φ i) (φ j)) K c := by
  have hloop : ∀ c ∈ loopEntries hi (pairsUpper hi.length) [], Sat psdHi ao bo R K c := by
    intro c hc
    exact h c (by unfold momentConstrs; exact List.mem_append_right _ hc)
  have hsem := loop_sem psdHi ao bo hi R K (pairsUpper hi.length) [] hloop
  -- classes agree along φ
  have hclass : ∀ i j, i ≤ j → j < lo.length → entryClass lo i j = entryClass hi (φ i) (φ j) := by
    intro i j hij hj
    have hw : entryWord lo i j = entryWord hi (φ i) (φ j) := by
      unfold entryWord
      rw [hφw i (by omega), hφw j hj]
    have h0 : i ≠ 0 ↔ φ i ≠ 0 := by
      constructor
      · intro hi0 hφi
        have := hφmono 0 i (Nat.pos_of_ne_zero hi0) (by omega)
        omega
      · intro hφi hi0
        exact hφi (by rw [hi0, hφ0])
    unfold entryClass
    simp only [hw, h0]
  have hmem : ∀ i j, i ≤ j → j < lo.length → (φ i, φ j) ∈ pairsUpper hi.length := by
    intro i j hij hj
    rw [mem_pairsUpper]
    refine ⟨?_, hφlt j hj⟩
    rcases Nat.lt_or_ge i j with h1 | h1
    · exact Nat.le_of_lt (hφmono i j h1 hj)
    · have : i = j := by omega
      rw [this]
  intro c hc
  unfold momentConstrs at hc
  rcases List.mem_append.mp hc with h1 | h1
  · simp only [List.mem_cons, List.not_mem_nil, or_false] at h1
    rcases h1 with rfl | rfl
    · show R (φ 0) (φ 0) = 1
      rw [hφ0]
      exact h Constr.norm (by unfold momentConstrs; simp)
    · exact hpsd (h Constr.psd (by unfold momentConstrs; simp))
  · refine sem_loop psdLo ao bo lo (fun i j => R (φ i) (φ j)) K (fun i j => i ≤ j ∧ j < lo.length) ?_ ?_
      (pairsUpper lo.length) [] ?_ ?_ c h1
    · intro i j ⟨hij, hj⟩
      have := (hsem (φ i, φ j) (hmem i j hij hj)).1
      rw [hclass i j hij hj]
      cases hcl : entryClass hi (φ i) (φ j) <;> rw [hcl] at this <;> exact this
    · intro i j i' j' w ⟨hij, hj⟩ ⟨hij', hj'⟩ hc1 hc2
      rw [hclass i j hij hj] at hc1
      rw [hclass i' j' hij' hj'] at hc2
      obtain ⟨a0, b0, hl1, he1⟩ := (hsem (φ i, φ j) (hmem i j hij hj)).2 w hc1
      obtain ⟨a1, b1, hl2, he2⟩ := (hsem (φ i', φ j') (hmem i' j' hij' hj')).2 w hc2
      rw [hl1] at hl2
      simp only [Option.some.injEq, Prod.mk.injEq] at hl2
      obtain ⟨rfl, rfl⟩ := hl2
      show R (φ i) (φ j) = R (φ i') (φ j')
      rw [he1, he2]
    · intro p hp
      exact (mem_pairsUpper lo.length p.1 p.2).mp hp
    · intro w i0 j0 hl
      simp [lookupSeen] at hl

/-! ### `_reduce` preserves the operator of a word (projectors that commute between the players) -/

section Op
variable {M : Type} [MonoidWithZero M]

/-- an assignment of elements of a monoid with zero to the symbols that obeys the rules `_reduce` uses: the symbol of
    no player is the unit, every symbol is idempotent, two symbols of the same player and question with different
    answers multiply to zero, Alice's symbols commute with Bob's -/
structure SymRep (o : Sym → M) : Prop where
  ident : ∀ s : Sym, s.player = Player.none → o s = 1
  idem : ∀ s : Sym, o s * o s = o s
  orth : ∀ x y : Sym, orth x y = true → x.player ≠ Player.none → o x * o y = 0
  comm : ∀ x y : Sym, x.player = Player.alice → y.player = Player.bob → o x * o y = o y * o x

/-- the product of the elements of a word, in order -/
def opW (o : Sym → M) (w : Word) : M := (w.map o).prod

variable {o : Sym → M}

theorem opW_nil : opW o [] = 1 := rfl

theorem opW_cons (s : Sym) (w : Word) : opW o (s :: w) = o s * opW o w := by
  simp [opW]

theorem opW_append (u v : Word) : opW o (u ++ v) = opW o u * opW o v := by
  simp [opW]

/-- a symbol of Bob commutes with a product of symbols of Alice -/
theorem SymRep.comm_list (h : SymRep o) (s : Sym) (hs : s.player = Player.bob) :
    ∀ (l : Word), (∀ t ∈ l, t.player = Player.alice) → opW o l * o s = o s * opW o l
  | [], _ => by simp [opW]
  | t :: l, hl => by
    rw [opW_cons, mul_assoc, h.comm_list s hs l (fun u hu => hl u (List.mem_cons_of_mem _ hu)), ← mul_assoc,
      h.comm t s (hl t List.mem_cons_self) hs, mul_assoc]

theorem SymRep.opW_sep (h : SymRep o) (w : Word) : opW o (sep w) = opW o w := by
  unfold sep
  rw [opW_append]
  induction w with
  | nil => simp [opW]
  | cons s w ih =>
    rw [opW_cons, ← ih]
    rcases hp : s.player with _ | _ | _
    · rw [List.filter_cons_of_neg (by simp [hp]), List.filter_cons_of_neg (by simp [hp]), h.ident s hp, one_mul]
    · rw [List.filter_cons_of_pos (by simp [hp]), List.filter_cons_of_neg (by simp [hp]), opW_cons, mul_assoc]
    · rw [List.filter_cons_of_neg (by simp [hp]), List.filter_cons_of_pos (by simp [hp]), opW_cons, ← mul_assoc,
        h.comm_list s hp _ (fun t ht => by simpa using (List.mem_filter.mp ht).2), mul_assoc]

theorem SymRep.scan_merged (h : SymRep o) : ∀ (w w' : Word), scan w = Scan.merged w' → opW o w' = opW o w
  | [], w', hs => by simp [scan] at hs
  | [_], w', hs => by simp [scan] at hs
  | x :: y :: rest, w', hs => by
    unfold scan at hs
    split at hs
    · rename_i hxy
      injection hs with hs
      subst hs; subst hxy
      simp only [opW_cons]
      rw [← mul_assoc, h.idem]
    · split at hs
      · simp at hs
      · cases hsc : scan (y :: rest) with
        | merged w'' =>
          rw [hsc] at hs
          injection hs with hs
          subst hs
          rw [opW_cons, h.scan_merged (y :: rest) w'' hsc, ← opW_cons]
        | zero => rw [hsc] at hs; simp at hs
        | done => rw [hsc] at hs; simp at hs

theorem SymRep.scan_zero (h : SymRep o) : ∀ (w : Word), scan w = Scan.zero →
    (∀ s ∈ w, s.player ≠ Player.none) → opW o w = 0
  | [], hs, _ => by simp [scan] at hs
  | [_], hs, _ => by simp [scan] at hs
  | x :: y :: rest, hs, hp => by
    unfold scan at hs
    split at hs
    · simp at hs
    · split at hs
      · rename_i ho
        simp only [opW_cons]
        rw [← mul_assoc, h.orth x y ho (hp x List.mem_cons_self), zero_mul]
      · cases hsc : scan (y :: rest) with
        | merged w'' => rw [hsc] at hs; simp at hs
        | zero =>
          rw [opW_cons, h.scan_zero (y :: rest) hsc (fun s h' => hp s (List.mem_cons_of_mem _ h')), mul_zero]
        | done => rw [hsc] at hs; simp at hs

/-- `_reduce` preserves the product: a non-empty result has the same product as the word; if the result is the
    empty tuple and the word contains a measurement, the product is zero -/
theorem SymRep.reduceFuel_op (h : SymRep o) : ∀ (n : Nat) (w : Word),
    (reduceFuel n w ≠ [] → opW o (reduceFuel n w) = opW o w) ∧
    (reduceFuel n w = [] → hasMeas w → opW o w = 0)
  | 0, w => by
    simp only [reduceFuel]
    exact ⟨fun _ => h.opW_sep w, fun hn hm => absurd hn ((sep_ne_nil_iff w).mpr hm)⟩
  | n + 1, w => by
    simp only [reduceFuel]
    cases hs : scan (sep w) with
    | merged w' =>
      simp only
      have hv := h.scan_merged (sep w) w' hs
      obtain ⟨_, _, hne, hm⟩ := Toq.Npa.scan_merged (fun _ => 0) (fun _ => 0) (sep w) w' hs
      obtain ⟨ihA, ihB⟩ := h.reduceFuel_op n w'
      refine ⟨fun hn => by rw [ihA hn, hv, h.opW_sep], fun hn _ => ?_⟩
      have hm' : hasMeas w' := by
        obtain ⟨s, hs'⟩ := List.exists_mem_of_ne_nil _ hne
        exact ⟨s, hs', sep_players w s (hm s hs')⟩
      rw [← h.opW_sep, ← hv]
      exact ihB hn hm'
    | zero =>
      simp only
      exact ⟨fun hn => absurd rfl hn, fun _ _ => by
        rw [← h.opW_sep]; exact h.scan_zero (sep w) hs (sep_players w)⟩
    | done =>
      simp only
      exact ⟨fun _ => h.opW_sep w, fun hn hm => absurd hn ((sep_ne_nil_iff w).mpr hm)⟩

end Op

/-! ### commuting projective measurements on a finite-dimensional space -/

section Quantum
open Matrix
open scoped ComplexOrder

/-- A quantum strategy in the commuting-operator picture, dimension `d`: projective measurements `A x a`
    (Alice, question `x`, answer `a`) and `B y b` (Bob) on one space `ℂ^d`, every operator of Alice commuting with
    every operator of Bob (tensor-product strategies `A ⊗ 1`, `1 ⊗ B` are the special case), and a unit vector
    `psi`.  Operators with indices outside the alphabets are irrelevant; the algebraic rules are required for all
    indices (extend a strategy by zero operators). -/
structure QStrategy (d ao bo ai bi : Nat) where
  A : Nat → Nat → Matrix (Fin d) (Fin d) ℂ
  B : Nat → Nat → Matrix (Fin d) (Fin d) ℂ
  psi : Fin d → ℂ
  A_herm : ∀ x a, (A x a)ᴴ = A x a
  A_idem : ∀ x a, A x a * A x a = A x a
  A_orth : ∀ x a a', a ≠ a' → A x a * A x a' = 0
  A_sum : ∀ x, x < ai → sumN ao (fun a => A x a) = 1
  B_herm : ∀ y b, (B y b)ᴴ = B y b
  B_idem : ∀ y b, B y b * B y b = B y b
  B_orth : ∀ y b b', b ≠ b' → B y b * B y b' = 0
  B_sum : ∀ y, y < bi → sumN bo (fun b => B y b) = 1
  comm : ∀ x a y b, A x a * B y b = B y b * A x a
  psi_norm : star psi ⬝ᵥ psi = 1

variable {d ao bo ai bi : Nat} (S : QStrategy d ao bo ai bi)

/-- the operator of a symbol -/
def QStrategy.o (s : Sym) : Matrix (Fin d) (Fin d) ℂ :=
  match s.player with
  | .none => 1
  | .alice => S.A s.question s.answer
  | .bob => S.B s.question s.answer

theorem QStrategy.symRep : SymRep S.o where
  ident := fun s hs => by simp [QStrategy.o, hs]
  idem := fun s => by
    unfold QStrategy.o
    rcases s.player with _ | _ | _
    · simp
    · exact S.A_idem _ _
    · exact S.B_idem _ _
  orth := fun x y h hx => by
    unfold orth at h
    simp only [decide_eq_true_eq] at h
    obtain ⟨hp, hq, ha⟩ := h
    unfold QStrategy.o
    rw [← hp, ← hq]
    rcases hxp : x.player with _ | _ | _
    · exact absurd hxp hx
    · exact S.A_orth _ _ _ ha
    · exact S.B_orth _ _ _ ha
  comm := fun x y hx hy => by
    simp only [QStrategy.o, hx, hy]
    exact S.comm _ _ _ _

theorem QStrategy.o_herm (s : Sym) : (S.o s)ᴴ = S.o s := by
  unfold QStrategy.o
  rcases s.player with _ | _ | _
  · simp
  · exact S.A_herm _ _
  · exact S.B_herm _ _

theorem QStrategy.opW_reverse (w : Word) : opW S.o w.reverse = (opW S.o w)ᴴ := by
  induction w with
  | nil => simp [opW]
  | cons s w ih =>
    rw [List.reverse_cons, opW_append, ih, opW_cons, opW_cons, opW_nil, mul_one, conjTranspose_mul, S.o_herm]

/-- expectation value `⟨psi| m |psi⟩` -/
def QStrategy.expect (m : Matrix (Fin d) (Fin d) ℂ) : ℂ := star S.psi ⬝ᵥ (m *ᵥ S.psi)

/-- value of a word: expectation of its operator -/
def QStrategy.ev (w : Word) : ℂ := S.expect (opW S.o w)

/-- the behaviour `K(a, b | x, y) = ⟨psi| A x a · B y b |psi⟩` -/
def QStrategy.K : Nat → Nat → Nat → Nat → ℂ := fun a b x y => S.expect (S.A x a * S.B y b)

/-- the moment matrix `R[i, j] = ⟨psi| words[i]† · words[j] |psi⟩` -/
def QStrategy.R (words : List Word) : Nat → Nat → ℂ :=
  fun i j => S.ev ((wordAt words i).reverse ++ wordAt words j)

theorem QStrategy.expect_zero : S.expect 0 = 0 := by simp [QStrategy.expect]

theorem QStrategy.expect_one : S.expect 1 = 1 := by simp [QStrategy.expect, S.psi_norm]

theorem QStrategy.expect_add (m n : Matrix (Fin d) (Fin d) ℂ) : S.expect (m + n) = S.expect m + S.expect n := by
  simp [QStrategy.expect, add_mulVec, dotProduct_add]

theorem QStrategy.expect_sumN (F : Nat → Matrix (Fin d) (Fin d) ℂ) (n : Nat) :
    S.expect (sumN n F) = sumN n (fun k => S.expect (F k)) := by
  induction n with
  | zero => exact S.expect_zero
  | succ n ih =>
    show S.expect (sumN n F + F n) = sumN n (fun k => S.expect (F k)) + S.expect (F n)
    rw [S.expect_add, ih]

theorem sumN_mul_left {Rg : Type} [NonUnitalNonAssocSemiring Rg] (m : Rg) (F : Nat → Rg) :
    ∀ n, sumN n (fun k => m * F k) = m * sumN n F
  | 0 => by simp [sumN]
  | n + 1 => by
    show sumN n (fun k => m * F k) + m * F n = m * (sumN n F + F n)
    rw [sumN_mul_left m F n, mul_add]

theorem sumN_mul_right {Rg : Type} [NonUnitalNonAssocSemiring Rg] (m : Rg) (F : Nat → Rg) :
    ∀ n, sumN n (fun k => F k * m) = sumN n F * m
  | 0 => by simp [sumN]
  | n + 1 => by
    show sumN n (fun k => F k * m) + F n * m = (sumN n F + F n) * m
    rw [sumN_mul_right m F n, add_mul]

/-- the product of a projector of Alice and a projector of Bob is a positive operator: `P = Pᴴ P` -/
theorem QStrategy.AB_pos (x a y b : Nat) :
    S.A x a * S.B y b = (S.A x a * S.B y b)ᴴ * (S.A x a * S.B y b) := by
  rw [conjTranspose_mul, S.A_herm, S.B_herm]
  calc S.A x a * S.B y b = S.A x a * (S.B y b * S.B y b) := by rw [S.B_idem]
    _ = (S.A x a * S.B y b) * S.B y b := by rw [mul_assoc]
    _ = (S.B y b * S.A x a) * S.B y b := by rw [S.comm]
    _ = (S.B y b * (S.A x a * S.A x a)) * S.B y b := by rw [S.A_idem]
    _ = S.B y b * S.A x a * (S.A x a * S.B y b) := by simp only [mul_assoc]

theorem QStrategy.K_nonneg (a b x y : Nat) : 0 ≤ S.K a b x y := by
  unfold QStrategy.K QStrategy.expect
  rw [S.AB_pos x a y b, ← mulVec_mulVec, dotProduct_mulVec, ← star_mulVec]
  exact dotProduct_star_self_nonneg _

theorem QStrategy.sum_K_bob (a x y : Nat) (hy : y < bi) :
    sumN bo (fun b => S.K a b x y) = S.expect (S.A x a) := by
  unfold QStrategy.K
  rw [← S.expect_sumN, sumN_mul_left, S.B_sum y hy, mul_one]

theorem QStrategy.sum_K_alice (b x y : Nat) (hx : x < ai) :
    sumN ao (fun a => S.K a b x y) = S.expect (S.B y b) := by
  unfold QStrategy.K
  rw [← S.expect_sumN, sumN_mul_right, S.A_sum x hx, one_mul]

theorem QStrategy.evalOK (words : List Word) (hok : WordsOK words) (hai : 0 < ai) (hbi : 0 < bi) :
    EvalOK S.ev ao bo words (S.R words) S.K where
  red_ne := fun w h => by
    have := (S.symRep.reduceFuel_op w.length w).1 h
    unfold QStrategy.ev reduceWord
    rw [this]
  red_nil := fun w h hm => by
    have := (S.symRep.reduceFuel_op w.length w).2 h hm
    unfold QStrategy.ev
    rw [this, S.expect_zero]
  entry := fun _ _ => rfl
  norm := by
    unfold QStrategy.R QStrategy.ev
    rw [hok.zero]
    simp [opW, QStrategy.o, Sym.ident, S.expect_one]
  pair := fun sa sb ha hb => by
    simp [QStrategy.ev, QStrategy.K, opW, QStrategy.o, ha, hb]
  oneA := fun s hs => by
    rw [S.sum_K_bob _ _ 0 hbi]
    simp [QStrategy.ev, opW, QStrategy.o, hs]
  oneB := fun s hs => by
    rw [S.sum_K_alice _ 0 _ hai]
    simp [QStrategy.ev, opW, QStrategy.o, hs]

/-- the moment matrix of a quantum strategy is a Gram matrix, hence positive semidefinite -/
theorem QStrategy.R_psd (words : List Word) (n : Nat) :
    (Matrix.of fun i j : Fin n => S.R words i j).PosSemidef := by
  have h : (Matrix.of fun i j : Fin n => S.R words i j)
      = (Matrix.of fun (k : Fin d) (i : Fin n) => (opW S.o (wordAt words i) *ᵥ S.psi) k)ᴴ
        * (Matrix.of fun (k : Fin d) (i : Fin n) => (opW S.o (wordAt words i) *ᵥ S.psi) k) := by
    ext i j
    simp only [Matrix.of_apply, QStrategy.R, QStrategy.ev, QStrategy.expect, opW_append, S.opW_reverse,
      Matrix.mul_apply, Matrix.conjTranspose_apply]
    rw [← mulVec_mulVec, dotProduct_mulVec, ← star_mulVec]
    rfl
  rw [h]
  exact posSemidef_conjTranspose_mul_self _

/-- the behaviour of a quantum strategy satisfies the constraints on the assemblage -/
theorem QStrategy.assemblage_sound (psd : Prop) (R : Nat → Nat → ℂ) :
    ∀ c ∈ assemblageConstrs ao bo ai bi, Sat psd ao bo R S.K c := by
  intro c hc
  unfold assemblageConstrs at hc
  simp only [List.mem_append, List.mem_flatMap, List.mem_map, List.mem_range, List.mem_singleton] at hc
  rcases hc with (⟨x, hx, y, hy, h⟩ | ⟨y, hy, b, hb, x', hx', rfl⟩) | ⟨x, hx, a, ha, y', hy', rfl⟩
  · rcases h with ⟨a, ha, b, hb, rfl⟩ | rfl
    · exact S.K_nonneg a b x y
    · show sumN ao (fun a => sumN bo (fun b => S.K a b x y)) = 1
      have : sumN ao (fun a => sumN bo (fun b => S.K a b x y)) = sumN ao (fun a => S.expect (S.A x a)) := by
        congr 1; funext a; exact S.sum_K_bob a x y hy
      rw [this, ← S.expect_sumN, S.A_sum x hx, S.expect_one]
  · show sumN ao (fun a => S.K a b 0 y) = sumN ao (fun a => S.K a b (x' + 1) y)
    rw [S.sum_K_alice b 0 y (by omega), S.sum_K_alice b (x' + 1) y (by omega)]
  · show sumN bo (fun b => S.K a b x 0) = sumN bo (fun b => S.K a b x (y' + 1))
    rw [S.sum_K_bob a x 0 (by omega), S.sum_K_bob a x (y' + 1) (by omega)]

end Quantum

/-! ### the matrix-block form of the non-signalling program -/

section NsBlocks
open Matrix
open scoped ComplexOrder

theorem re_trace_sumN {d : Nat} (F : Nat → Matrix (Fin d) (Fin d) ℂ) (n : Nat) :
    (sumN n F).trace.re = sumN n (fun k => (F k).trace.re) := by
  induction n with
  | zero => simp [sumN]
  | succ n ih =>
    show (sumN n F + F n).trace.re = sumN n (fun k => (F k).trace.re) + (F n).trace.re
    rw [trace_add, Complex.add_re, ih]

/-- the constraint system of `nonsignaling_value` as the code writes it, with `d × d` blocks (`d = 2` in the code):
    `K(a,b|x,y) ⪰ 0`, `Σ_b K = σ(a|x)`, `Σ_a K = ρ(b|y)`, `Σ_a σ = τ`, `Σ_b ρ = τ`, `tr τ = 1` (and `τ ⪰ 0`, not needed
    here) -/
structure NsBlocksFeasible (d ao bo ai bi : Nat) (Kb : Nat → Nat → Nat → Nat → Matrix (Fin d) (Fin d) ℂ) : Prop where
  psd : ∀ x y a b, x < ai → y < bi → a < ao → b < bo → (Kb a b x y).PosSemidef
  marg : ∃ (sg rh : Nat → Nat → Matrix (Fin d) (Fin d) ℂ) (tau : Matrix (Fin d) (Fin d) ℂ),
    (∀ x y a, x < ai → y < bi → a < ao → sumN bo (fun b => Kb a b x y) = sg a x) ∧
    (∀ x y b, x < ai → y < bi → b < bo → sumN ao (fun a => Kb a b x y) = rh b y) ∧
    (∀ x, x < ai → sumN ao (fun a => sg a x) = tau) ∧
    (∀ y, y < bi → sumN bo (fun b => rh b y) = tau) ∧
    tau.trace = 1

theorem nsFeasible_of_blocks (d ao bo ai bi : Nat) (Kb : Nat → Nat → Nat → Nat → Matrix (Fin d) (Fin d) ℂ)
    (h : NsBlocksFeasible d ao bo ai bi Kb) :
    NsFeasible ao bo ai bi (fun a b x y => (Kb a b x y).trace.re) := by
  obtain ⟨sg, rh, tau, h1, h2, h3, h4, ht⟩ := h.marg
  refine ⟨fun x y a b hx hy ha hb => ?_, fun a x => (sg a x).trace.re, fun b y => (rh b y).trace.re, ?_, ?_, ?_, ?_⟩
  · exact (Complex.le_def.mp (h.psd x y a b hx hy ha hb).trace_nonneg).1
  · intro x y a hx hy ha
    show sumN bo (fun b => (Kb a b x y).trace.re) = (sg a x).trace.re
    rw [← re_trace_sumN, h1 x y a hx hy ha]
  · intro x y b hx hy hb
    show sumN ao (fun a => (Kb a b x y).trace.re) = (rh b y).trace.re
    rw [← re_trace_sumN, h2 x y b hx hy hb]
  · intro x hx
    show sumN ao (fun a => (sg a x).trace.re) = 1
    rw [← re_trace_sumN, h3 x hx, ht]; rfl
  · intro y hy
    show sumN bo (fun b => (rh b y).trace.re) = 1
    rw [← re_trace_sumN, h4 y hy, ht]; rfl

end NsBlocks

/-! ### levels are nested -/

theorem GoodWord.ne_ident {w : Word} (h : GoodWord w) : w ≠ [Sym.ident] := by
  intro he
  obtain ⟨s, hs, hp⟩ := h.hasMeas
  rw [he] at hs
  simp only [List.mem_singleton] at hs
  subst hs
  exact hp rfl

/-- if the word list of the lower level is a sub-list of the word list of the higher level, there is a strictly
    increasing position map `φ` with `φ 0 = 0` that carries the words of the lower level to the same words of the
    higher level -/
theorem exists_embedding_of_sublist (baseLo baseHi : Nat) (confLo confHi : List (Nat × Nat)) (ao ai bo bi : Nat)
    (hHi : ConfOK confHi)
    (hsub : List.Sublist (genWords baseLo confLo ao ai bo bi) (genWords baseHi confHi ao ai bo bi)) :
    ∃ φ : Nat → Nat, φ 0 = 0 ∧ (∀ i j, i < j → φ i < φ j) ∧
      (∀ i, i < (genWords baseLo confLo ao ai bo bi).length → φ i < (genWords baseHi confHi ao ai bo bi).length) ∧
      (∀ i, wordAt (genWords baseLo confLo ao ai bo bi) i = wordAt (genWords baseHi confHi ao ai bo bi) (φ i)) := by
  obtain ⟨f, hf⟩ := List.sublist_iff_exists_orderEmbedding_getElem?_eq.mp hsub
  have hw : ∀ i, wordAt (genWords baseLo confLo ao ai bo bi) i = wordAt (genWords baseHi confHi ao ai bo bi) (f i) := by
    intro i
    simp only [wordAt, List.getD_eq_getElem?_getD, hf i]
  refine ⟨f, ?_, fun i j hij => f.strictMono hij, ?_, hw⟩
  · -- the identity word occurs at position 0 only
    obtain ⟨rest, he, hg⟩ := genWords_structure baseHi confHi ao ai bo bi hHi
    have h0 := hf 0
    have hlo0 : (genWords baseLo confLo ao ai bo bi)[0]? = some [Sym.ident] := by
      unfold genWords; rfl
    rw [hlo0, he] at h0
    by_contra hne
    obtain ⟨k, hk⟩ : ∃ k, f 0 = k + 1 := ⟨f 0 - 1, by omega⟩
    rw [hk, List.getElem?_cons_succ] at h0
    have hmem : [Sym.ident] ∈ rest := List.mem_of_getElem? h0.symm
    exact (hg _ hmem).ne_ident rfl
  · intro i hi
    have h1 := hf i
    rw [List.getElem?_eq_getElem hi] at h1
    by_contra hge
    rw [List.getElem?_eq_none (by omega)] at h1
    simp at h1

open scoped ComplexOrder in
theorem psdQ_restrict (n m : Nat) (φ : Nat → Nat) (R : Nat → Nat → ℚ) (hφ : ∀ i, i < m → φ i < n)
    (h : PsdQ n R) : PsdQ m (fun i j => R (φ i) (φ j)) := by
  unfold PsdQ at h ⊢
  have := h.submatrix (fun i : Fin m => (⟨φ i, hφ i i.2⟩ : Fin n))
  exact this


/-- the word lists of the levels `1`, `'1+ab'`, `2` are nested, and those of integer levels are prefixes of one
    another — for all alphabet sizes -/
theorem genWords_nested (ao ai bo bi : Nat) :
    List.Sublist (genWords 1 [] ao ai bo bi) (genWords 1 [(1, 1)] ao ai bo bi) ∧
    List.Sublist (genWords 1 [(1, 1)] ao ai bo bi) (genWords 2 [] ao ai bo bi) ∧
    ∀ k k', k ≤ k' → List.Sublist (genWords k [] ao ai bo bi) (genWords k' [] ao ai bo bi) := by
  refine ⟨?_, ?_, ?_⟩
  · unfold genWords
    simp only [List.flatMap_nil, List.append_nil]
    exact List.sublist_append_left _ _
  · unfold genWords
    simp only [List.flatMap_nil, List.append_nil, List.flatMap_cons, List.range_succ, List.range_zero,
      List.nil_append, List.flatMap_append, List.append_assoc]
    refine List.Sublist.append (List.Sublist.refl _) ?_
    refine List.Sublist.append (List.Sublist.refl _) ?_
    refine List.Sublist.append (List.Sublist.refl _) ?_
    exact (List.sublist_append_left _ _).trans (List.sublist_append_right _ _)
  · intro k k' hkk
    unfold genWords
    simp only [List.flatMap_nil, List.append_nil]
    refine List.Sublist.append (List.Sublist.refl _) ?_
    exact List.Sublist.flatMap (List.range_sublist.mpr hkk) _

end Toq.Npa
