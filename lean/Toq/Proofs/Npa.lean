import Toq.Model.Npa
import Toq.Spec.Games
import Toq.Proofs.Games
import Mathlib.Algebra.Order.BigOperators.Group.Finset
import Mathlib.Algebra.BigOperators.Ring.Finset
import Mathlib.Algebra.Order.Field.Basic
import Mathlib.Tactic.Ring
import Mathlib.Tactic.Linarith
import Mathlib.Analysis.Matrix.Order
/-!
# Lemmas for the NPA part of C07: `_reduce` preserves the value of a word under every deterministic strategy,
the generated words are reduced and non-trivial, and the point `(z zᵀ, K)` of a deterministic strategy satisfies
every constraint that the mirror of `npa_constraints` emits.
-/

namespace Toq.Npa
open Toq.Games

/-! ### values of words -/

section Val
variable (f g : Nat → Nat)

theorem valSym_idem (s : Sym) : valSym f g s * valSym f g s = valSym f g s := by
  unfold valSym
  cases s.player <;> simp

theorem val_nil : val f g [] = 1 := rfl

theorem val_cons (s : Sym) (w : Word) : val f g (s :: w) = valSym f g s * val f g w := rfl

theorem val_append (u v : Word) : val f g (u ++ v) = val f g u * val f g v := by
  induction u with
  | nil => simp [val]
  | cons s u ih => simp only [List.cons_append, val_cons, ih, mul_assoc]

theorem val_reverse (w : Word) : val f g w.reverse = val f g w := by
  induction w with
  | nil => rfl
  | cons s w ih => rw [List.reverse_cons, val_append, ih, val_cons, val_cons, val_nil, mul_one, mul_comm]

/-- the commutation step does not change the value (identity symbols have value 1) -/
theorem val_sep (w : Word) : val f g (sep w) = val f g w := by
  unfold sep
  rw [val_append]
  induction w with
  | nil => simp [val]
  | cons s w ih =>
    rw [val_cons, ← ih]
    rcases hp : s.player with _ | _ | _
    · have h1 : valSym f g s = 1 := by simp [valSym, hp]
      rw [List.filter_cons_of_neg (by simp [hp]), List.filter_cons_of_neg (by simp [hp]), h1, one_mul]
    · rw [List.filter_cons_of_pos (by simp [hp]), List.filter_cons_of_neg (by simp [hp]), val_cons]
      ring
    · rw [List.filter_cons_of_neg (by simp [hp]), List.filter_cons_of_pos (by simp [hp]), val_cons]
      ring

/-- a word "contains a measurement": some symbol belongs to Alice or Bob -/
def hasMeas (w : Word) : Prop := ∃ s ∈ w, s.player ≠ Player.none

theorem sep_players (w : Word) : ∀ s ∈ sep w, s.player ≠ Player.none := by
  intro s hs
  unfold sep at hs
  rw [List.mem_append, List.mem_filter, List.mem_filter] at hs
  rcases hs with ⟨_, h⟩ | ⟨_, h⟩ <;> simp at h <;> simp [h]

theorem sep_ne_nil_iff (w : Word) : sep w ≠ [] ↔ hasMeas w := by
  constructor
  · intro h
    obtain ⟨s, hs⟩ := List.exists_mem_of_ne_nil _ h
    refine ⟨s, ?_, sep_players w s hs⟩
    unfold sep at hs
    rw [List.mem_append, List.mem_filter, List.mem_filter] at hs
    rcases hs with ⟨h, _⟩ | ⟨h, _⟩ <;> exact h
  · rintro ⟨s, hs, hp⟩ h
    have : s ∈ sep w := by
      unfold sep
      rw [List.mem_append, List.mem_filter, List.mem_filter]
      rcases hq : s.player with _ | _ | _
      · exact absurd hq hp
      · left; exact ⟨hs, by simp⟩
      · right; exact ⟨hs, by simp⟩
    rw [h] at this
    exact absurd this List.not_mem_nil

theorem orth_val (x y : Sym) (h : orth x y = true) (hx : x.player ≠ Player.none) :
    valSym f g x * valSym f g y = 0 := by
  unfold orth at h
  simp only [decide_eq_true_eq] at h
  obtain ⟨hp, hq, ha⟩ := h
  unfold valSym
  rw [← hp, ← hq]
  rcases hxp : x.player with _ | _ | _
  · exact absurd hxp hx
  · simp only
    by_cases h1 : f x.question = x.answer
    · have : f x.question ≠ y.answer := fun h2 => ha (h1.symm.trans h2)
      simp [this]
    · simp [h1]
  · simp only
    by_cases h1 : g x.question = x.answer
    · have : g x.question ≠ y.answer := fun h2 => ha (h1.symm.trans h2)
      simp [this]
    · simp [h1]

/-! ### `_reduce` preserves values -/

theorem scan_merged : ∀ (w w' : Word), scan w = Scan.merged w' →
    val f g w' = val f g w ∧ w'.length + 1 = w.length ∧ w' ≠ [] ∧ ∀ s ∈ w', s ∈ w
  | [], w', h => by simp [scan] at h
  | [_], w', h => by simp [scan] at h
  | x :: y :: rest, w', h => by
    unfold scan at h
    split at h
    · rename_i hxy
      injection h with h
      subst h; subst hxy
      refine ⟨?_, by simp, by simp, fun s hs => List.mem_cons_of_mem _ hs⟩
      simp only [val_cons]
      rw [← mul_assoc, valSym_idem]
    · split at h
      · simp at h
      · cases hs : scan (y :: rest) with
        | merged w'' =>
          rw [hs] at h
          injection h with h
          subst h
          obtain ⟨hv, hl, _, hm⟩ := scan_merged (y :: rest) w'' hs
          refine ⟨by rw [val_cons, hv]; rfl, by simp only [List.length_cons] at hl ⊢; omega,
            by simp, ?_⟩
          intro s hs'
          rcases List.mem_cons.mp hs' with h1 | h1
          · subst h1; exact List.mem_cons_self
          · exact List.mem_cons_of_mem _ (hm s h1)
        | zero => rw [hs] at h; simp at h
        | done => rw [hs] at h; simp at h

theorem scan_zero : ∀ (w : Word), scan w = Scan.zero → (∀ s ∈ w, s.player ≠ Player.none) → val f g w = 0
  | [], h, _ => by simp [scan] at h
  | [_], h, _ => by simp [scan] at h
  | x :: y :: rest, h, hp => by
    unfold scan at h
    split at h
    · simp at h
    · split at h
      · rename_i ho
        simp only [val_cons]
        rw [← mul_assoc, orth_val f g x y ho (hp x List.mem_cons_self), zero_mul]
      · cases hs : scan (y :: rest) with
        | merged w'' => rw [hs] at h; simp at h
        | zero =>
          rw [val_cons, scan_zero (y :: rest) hs (fun s h' => hp s (List.mem_cons_of_mem _ h')), mul_zero]
        | done => rw [hs] at h; simp at h

theorem reduceFuel_val : ∀ (n : Nat) (w : Word),
    (reduceFuel n w ≠ [] → val f g (reduceFuel n w) = val f g w) ∧
    (reduceFuel n w = [] → hasMeas w → val f g w = 0)
  | 0, w => by
    simp only [reduceFuel]
    exact ⟨fun _ => val_sep f g w, fun h hm => absurd h ((sep_ne_nil_iff w).mpr hm)⟩
  | n + 1, w => by
    simp only [reduceFuel]
    cases hs : scan (sep w) with
    | merged w' =>
      simp only
      obtain ⟨hv, _, hne, hm⟩ := scan_merged f g (sep w) w' hs
      obtain ⟨ihA, ihB⟩ := reduceFuel_val n w'
      refine ⟨fun h => by rw [ihA h, hv, val_sep], fun h _ => ?_⟩
      have hm' : hasMeas w' := by
        obtain ⟨s, hs'⟩ := List.exists_mem_of_ne_nil _ hne
        exact ⟨s, hs', sep_players w s (hm s hs')⟩
      rw [← val_sep, ← hv]
      exact ihB h hm'
    | zero =>
      simp only
      exact ⟨fun h => absurd rfl h, fun _ _ => by
        rw [← val_sep]; exact scan_zero f g (sep w) hs (sep_players w)⟩
    | done =>
      simp only
      exact ⟨fun _ => val_sep f g w, fun h hm => absurd h ((sep_ne_nil_iff w).mpr hm)⟩

end Val

/-! ### the generated words are reduced, non-trivial products `(Alice's part)(Bob's part)` -/

theorem sep_length_le (w : Word) : (sep w).length ≤ w.length := by
  unfold sep
  rw [List.length_append]
  induction w with
  | nil => simp
  | cons s w ih =>
    rcases hp : s.player with _ | _ | _
    · rw [List.filter_cons_of_neg (by simp [hp]), List.filter_cons_of_neg (by simp [hp])]
      simp only [List.length_cons]; omega
    · rw [List.filter_cons_of_pos (by simp [hp]), List.filter_cons_of_neg (by simp [hp])]
      simp only [List.length_cons]; omega
    · rw [List.filter_cons_of_neg (by simp [hp]), List.filter_cons_of_pos (by simp [hp])]
      simp only [List.length_cons]; omega

theorem scan_merged_length : ∀ (w w' : Word), scan w = Scan.merged w' → w'.length + 1 = w.length :=
  fun w w' h => (scan_merged (fun _ => 0) (fun _ => 0) w w' h).2.1

theorem reduceFuel_length_le : ∀ (n : Nat) (w : Word), (reduceFuel n w).length ≤ w.length
  | 0, w => sep_length_le w
  | n + 1, w => by
    simp only [reduceFuel]
    cases hs : scan (sep w) with
    | merged w' =>
      simp only
      have h1 := reduceFuel_length_le n w'
      have h2 := scan_merged_length (sep w) w' hs
      have h3 := sep_length_le w
      omega
    | zero => simp
    | done => exact sep_length_le w

/-- a word of Alice's symbols followed by Bob's symbols is not changed by the commutation step -/
theorem sep_append_of_players (wa wb : Word) (ha : ∀ s ∈ wa, s.player = Player.alice)
    (hb : ∀ s ∈ wb, s.player = Player.bob) : sep (wa ++ wb) = wa ++ wb := by
  unfold sep
  rw [List.filter_append, List.filter_append]
  have h1 : wa.filter (fun s => decide (s.player = Player.alice)) = wa :=
    List.filter_eq_self.mpr (fun s hs => by simp [ha s hs])
  have h2 : wb.filter (fun s => decide (s.player = Player.alice)) = [] :=
    List.filter_eq_nil_iff.mpr (fun s hs => by simp [hb s hs])
  have h3 : wa.filter (fun s => decide (s.player = Player.bob)) = [] :=
    List.filter_eq_nil_iff.mpr (fun s hs => by simp [ha s hs])
  have h4 : wb.filter (fun s => decide (s.player = Player.bob)) = wb :=
    List.filter_eq_self.mpr (fun s hs => by simp [hb s hs])
  rw [h1, h2, h3, h4]; simp

theorem sep_ident_cons (w : Word) : sep (Sym.ident :: w) = sep w := by
  unfold sep
  rw [List.filter_cons_of_neg (by simp [Sym.ident]), List.filter_cons_of_neg (by simp [Sym.ident])]

theorem scan_cons_cons_done (x y : Sym) (r : Word) :
    scan (x :: y :: r) = Scan.done ↔ x ≠ y ∧ orth x y = false ∧ scan (y :: r) = Scan.done := by
  constructor
  · intro h
    unfold scan at h
    split at h
    · simp at h
    · rename_i hne
      split at h
      · simp at h
      · rename_i ho
        refine ⟨hne, by simpa using ho, ?_⟩
        cases hs : scan (y :: r) with
        | merged w'' => rw [hs] at h; simp at h
        | zero => rw [hs] at h; simp at h
        | done => rfl
  · rintro ⟨hne, ho, hs⟩
    rw [scan, if_neg hne, if_neg (by simp [ho]), hs]

theorem scan_append_done : ∀ (u v : Word), scan u = Scan.done → scan v = Scan.done →
    (∀ x ∈ u, ∀ y ∈ v, x.player ≠ y.player) → scan (u ++ v) = Scan.done
  | [], v, _, hv, _ => by simpa using hv
  | [x], [], _, _, _ => by simp [scan]
  | [x], y :: r, _, hv, hp => by
    have hne : x.player ≠ y.player := hp x List.mem_cons_self y List.mem_cons_self
    have h1 : x ≠ y := fun h => hne (by rw [h])
    have h2 : orth x y = false := by simp [orth, hne]
    exact (scan_cons_cons_done x y r).mpr ⟨h1, h2, hv⟩
  | x :: x' :: u, v, hu, hv, hp => by
    obtain ⟨h1, h2, h3⟩ := (scan_cons_cons_done x x' u).mp hu
    have ih := scan_append_done (x' :: u) v h3 hv (fun a ha b hb => hp a (List.mem_cons_of_mem _ ha) b hb)
    exact (scan_cons_cons_done x x' (u ++ v)).mpr ⟨h1, h2, ih⟩

/-- the filter `len(_reduce(word)) == len(word)` of `_gen_words` on a word of one player: no neighbouring pair
    of the word is equal or orthogonal -/
theorem scan_done_of_reduce_length (w : Word) (p : Player) (hp : p = Player.alice ∨ p = Player.bob)
    (hw : ∀ s ∈ w, s.player = p) (hl : (reduceWord w).length = w.length) : scan w = Scan.done := by
  have hsep : sep w = w := by
    rcases hp with rfl | rfl
    · simpa using sep_append_of_players w [] hw (by simp)
    · simpa using sep_append_of_players [] w (by simp) hw
  unfold reduceWord at hl
  cases hn : w.length with
  | zero =>
    have : w = [] := List.length_eq_zero_iff.mp hn
    subst this; rfl
  | succ n =>
    rw [hn] at hl
    simp only [reduceFuel, hsep] at hl
    cases hs : scan w with
    | merged w' =>
      rw [hs] at hl
      simp only at hl
      have h1 := reduceFuel_length_le n w'
      have h2 := scan_merged_length w w' hs
      omega
    | zero => rw [hs] at hl; simp at hl
    | done => rfl

/-- what `_gen_words` appends: Alice's part then Bob's part, both without reducible neighbours, not empty -/
structure GoodWord (w : Word) : Prop where
  split : ∃ wa wb, w = wa ++ wb ∧ (∀ s ∈ wa, s.player = Player.alice) ∧ (∀ s ∈ wb, s.player = Player.bob) ∧
    scan wa = Scan.done ∧ scan wb = Scan.done
  ne_nil : w ≠ []

theorem GoodWord.hasMeas {w : Word} (h : GoodWord w) : hasMeas w := by
  obtain ⟨wa, wb, rfl, ha, hb, _, _⟩ := h.split
  obtain ⟨s, hs⟩ := List.exists_mem_of_ne_nil _ h.ne_nil
  refine ⟨s, hs, ?_⟩
  rcases List.mem_append.mp hs with h1 | h1
  · simp [ha s h1]
  · simp [hb s h1]

/-- a generated word is a fixed point of `_reduce`, also with the identity symbol in front (the product
    `words[0]† · w`) -/
theorem GoodWord.reduce_ident_cons {w : Word} (h : GoodWord w) : reduceWord (Sym.ident :: w) = w := by
  obtain ⟨wa, wb, rfl, ha, hb, hsa, hsb⟩ := h.split
  have hsep : sep (Sym.ident :: (wa ++ wb)) = wa ++ wb := by
    rw [sep_ident_cons, sep_append_of_players wa wb ha hb]
  have hscan : scan (wa ++ wb) = Scan.done :=
    scan_append_done wa wb hsa hsb (fun x hx y hy => by simp [ha x hx, hb y hy])
  unfold reduceWord
  simp only [List.length_cons, reduceFuel, hsep, hscan]

theorem symbols_player (p : Player) (nIn nOut : Nat) : ∀ s ∈ symbols p nIn nOut, s.player = p := by
  intro s hs
  unfold symbols at hs
  simp only [List.mem_flatMap, List.mem_map, List.mem_range] at hs
  obtain ⟨q, _, a, _, rfl⟩ := hs
  rfl

theorem product_mem (S : List Sym) : ∀ (n : Nat) (w : Word), w ∈ product S n → w.length = n ∧ ∀ s ∈ w, s ∈ S
  | 0, w, h => by
    simp only [product, List.mem_singleton] at h
    subst h; simp
  | n + 1, w, h => by
    simp only [product, List.mem_flatMap, List.mem_map] at h
    obtain ⟨s, hs, w', hw', rfl⟩ := h
    obtain ⟨hl, hm⟩ := product_mem S n w' hw'
    refine ⟨by simp [hl], ?_⟩
    intro t ht
    rcases List.mem_cons.mp ht with rfl | h1
    · exact hs
    · exact hm t h1

theorem wordsOfType_good (ai ao bi bo ca cb : Nat) (hc : 0 < ca + cb) :
    ∀ w ∈ wordsOfType (symbols Player.alice ai ao) (symbols Player.bob bi bo) ca cb, GoodWord w := by
  intro w hw
  unfold wordsOfType at hw
  simp only [List.mem_flatMap, List.mem_map, List.mem_filter, beq_iff_eq] at hw
  obtain ⟨wa, ⟨hwa, hla⟩, wb, ⟨hwb, hlb⟩, rfl⟩ := hw
  obtain ⟨hal, ham⟩ := product_mem _ ca wa hwa
  obtain ⟨hbl, hbm⟩ := product_mem _ cb wb hwb
  have ha : ∀ s ∈ wa, s.player = Player.alice := fun s hs => symbols_player _ _ _ s (ham s hs)
  have hb : ∀ s ∈ wb, s.player = Player.bob := fun s hs => symbols_player _ _ _ s (hbm s hs)
  refine ⟨⟨wa, wb, rfl, ha, hb, ?_, ?_⟩, ?_⟩
  · exact scan_done_of_reduce_length wa _ (Or.inl rfl) ha (by rw [hla, hal])
  · exact scan_done_of_reduce_length wb _ (Or.inr rfl) hb (by rw [hlb, hbl])
  · intro h
    have : (wa ++ wb).length = 0 := by rw [h]; rfl
    rw [List.length_append, hal, hbl] at this
    omega

/-- every extra configuration of the level has at least one letter (true for every string that `_parse` reads
    from letters `a`, `b`: only terms longer than `base_k ≥ 0` are added) -/
def ConfOK (conf : List (Nat × Nat)) : Prop := ∀ c ∈ conf, 0 < c.1 + c.2

theorem genWords_structure (base : Nat) (conf : List (Nat × Nat)) (ao ai bo bi : Nat) (hc : ConfOK conf) :
    ∃ rest, genWords base conf ao ai bo bi = [Sym.ident] :: rest ∧ ∀ w ∈ rest, GoodWord w := by
  refine ⟨_, by unfold genWords; simp only [List.cons_append, List.nil_append]; rfl, ?_⟩
  intro w hw
  rcases List.mem_append.mp hw with h | h
  · simp only [List.mem_flatMap, List.mem_range] at h
    obtain ⟨i', _, j, hj, hw'⟩ := h
    exact wordsOfType_good ai ao bi bo j (i' + 1 - j) (by omega) w hw'
  · simp only [List.mem_flatMap] at h
    obtain ⟨c, hcm, hw'⟩ := h
    exact wordsOfType_good ai ao bi bo c.1 c.2 (hc c hcm) w hw'

/-- what the constraint loop needs to know about the word list: word 0 is the identity word, every other word
    contains a measurement and its product with the identity word does not reduce to the empty tuple -/
structure WordsOK (words : List Word) : Prop where
  zero : wordAt words 0 = [Sym.ident]
  pos : 0 < words.length
  good : ∀ j, 0 < j → j < words.length → hasMeas (wordAt words j) ∧ entryWord words 0 j ≠ []

theorem genWords_ok (base : Nat) (conf : List (Nat × Nat)) (ao ai bo bi : Nat) (hc : ConfOK conf) :
    WordsOK (genWords base conf ao ai bo bi) := by
  obtain ⟨rest, he, hg⟩ := genWords_structure base conf ao ai bo bi hc
  rw [he]
  refine ⟨rfl, by simp, ?_⟩
  intro j hj hlt
  obtain ⟨j', rfl⟩ : ∃ j', j = j' + 1 := ⟨j - 1, by omega⟩
  have hj' : j' < rest.length := by simpa using hlt
  have hw : wordAt ([Sym.ident] :: rest) (j' + 1) = rest[j'] := by
    simp [wordAt, List.getElem?_eq_getElem hj']
  have hgood := hg _ (List.getElem_mem hj')
  refine ⟨by rw [hw]; exact hgood.hasMeas, ?_⟩
  unfold entryWord
  rw [hw]
  have h0 : wordAt ([Sym.ident] :: rest) 0 = [Sym.ident] := rfl
  rw [h0]
  simp only [List.reverse_singleton, List.singleton_append]
  rw [hgood.reduce_ident_cons]
  exact hgood.ne_nil

/-! ### sums -/

theorem sumN_eq_range_sum {M : Type} [AddCommMonoid M] (f : Nat → M) :
    ∀ n, sumN n f = ∑ k ∈ Finset.range n, f k
  | 0 => by simp [sumN]
  | n + 1 => by rw [Finset.sum_range_succ, ← sumN_eq_range_sum f n]; rfl

theorem sumN_ite_eq {M : Type} [AddCommMonoid M] (n k : Nat) (F : Nat → M) (hk : k < n) :
    sumN n (fun a => if k = a then F a else 0) = F k := by
  rw [sumN_eq_range_sum, Finset.sum_ite_eq]
  simp [hk]

theorem sumN_congr {M : Type} [AddCommMonoid M] (n : Nat) (F G : Nat → M) (h : ∀ k, k < n → F k = G k) :
    sumN n F = sumN n G := by
  rw [sumN_eq_range_sum, sumN_eq_range_sum]
  exact Finset.sum_congr rfl (fun k hk => h k (Finset.mem_range.mp hk))

/-! ### what it means to satisfy a constraint -/

section SatDef
variable {α : Type} [Zero α] [One α] [Add α] [LE α]

/-- the point `(R, K)` satisfies the constraint `c`; the meaning of `R ⪰ 0` is supplied by the caller (`psd`) -/
def Sat (psd : Prop) (ao bo : Nat) (R : Nat → Nat → α) (K : Nat → Nat → Nat → Nat → α) : Constr → Prop
  | .norm => R 0 0 = 1
  | .psd => psd
  | .zero i j => R i j = 0
  | .meas i j x y a b => R i j = K a b x y
  | .margA i j x a => R i j = sumN bo (fun b => K a b x 0)
  | .margB i j y b => R i j = sumN ao (fun a => K a b 0 y)
  | .same i j i' j' => R i j = R i' j'
  | .kNonneg x y a b => 0 ≤ K a b x y
  | .kNorm x y => sumN ao (fun a => sumN bo (fun b => K a b x y)) = 1
  | .nsBob y b x => sumN ao (fun a => K a b 0 y) = sumN ao (fun a => K a b x y)
  | .nsAlice x a y => sumN bo (fun b => K a b x 0) = sumN bo (fun b => K a b x y)

end SatDef

/-! ### the entry constraints at the point of a deterministic strategy -/

section Det
variable (f g : Nat → Nat) (words : List Word)

theorem detR_eq_val (i j : Nat) :
    detR f g words i j = val f g ((wordAt words i).reverse ++ wordAt words j) := by
  unfold detR detZ
  rw [val_append, val_reverse]

theorem entryWord_val_ne (i j : Nat) (h : entryWord words i j ≠ []) :
    val f g (entryWord words i j) = detR f g words i j := by
  rw [detR_eq_val]
  exact (reduceFuel_val f g _ _).1 h

theorem entryWord_val_nil (i j : Nat) (h : entryWord words i j = []) (hm : hasMeas (wordAt words i)) :
    detR f g words i j = 0 := by
  rw [detR_eq_val]
  refine (reduceFuel_val f g _ _).2 h ?_
  obtain ⟨s, hs, hp⟩ := hm
  exact ⟨s, List.mem_append_left _ (List.mem_reverse.mpr hs), hp⟩

theorem isMeas_some (w : Word) (sa sb : Sym) (h : isMeas w = some (sa, sb)) :
    w = [sa, sb] ∧ sa.player = Player.alice ∧ sb.player = Player.bob := by
  match w, h with
  | [x, y], h =>
    simp only [isMeas] at h
    split at h
    · rename_i hp
      simp only [Option.some.injEq, Prod.mk.injEq] at h
      obtain ⟨rfl, rfl⟩ := h
      exact ⟨rfl, hp.1, hp.2⟩
    · simp at h

theorem isMeasOne_some (w : Word) (s : Sym) (h : isMeasOne w = some s) :
    w = [s] ∧ (s.player = Player.alice ∨ s.player = Player.bob) := by
  match w, h with
  | [x], h =>
    simp only [isMeasOne] at h
    split at h
    · rename_i hp
      simp only [Option.some.injEq] at h
      subst h
      exact ⟨rfl, hp⟩
    · simp at h

theorem val_pair (sa sb : Sym) (ha : sa.player = Player.alice) (hb : sb.player = Player.bob) :
    val f g [sa, sb] = detK f g sa.answer sb.answer sa.question sb.question := by
  simp only [val, valSym, ha, hb, detK, mul_one]
  by_cases h1 : f sa.question = sa.answer <;> by_cases h2 : g sb.question = sb.answer <;> simp [h1, h2]

theorem sum_detK_bob (bo : Nat) (a x y : Nat) (hg : g y < bo) :
    sumN bo (fun b => detK f g a b x y) = if f x = a then 1 else 0 := by
  by_cases h : f x = a
  · rw [if_pos h]
    have : sumN bo (fun b => detK f g a b x y) = sumN bo (fun b => if g y = b then (fun _ => (1 : ℚ)) b else 0) :=
      sumN_congr bo _ _ (fun b _ => by simp [detK, h])
    rw [this, sumN_ite_eq bo (g y) _ hg]
  · rw [if_neg h]
    have : sumN bo (fun b => detK f g a b x y) = sumN bo (fun _ => (0 : ℚ)) :=
      sumN_congr bo _ _ (fun b _ => by simp [detK, h])
    rw [this, sumN_eq_range_sum]; simp

theorem sum_detK_alice (ao : Nat) (b x y : Nat) (hf : f x < ao) :
    sumN ao (fun a => detK f g a b x y) = if g y = b then 1 else 0 := by
  by_cases h : g y = b
  · rw [if_pos h]
    have : sumN ao (fun a => detK f g a b x y) = sumN ao (fun a => if f x = a then (fun _ => (1 : ℚ)) a else 0) :=
      sumN_congr ao _ _ (fun a _ => by simp [detK, h])
    rw [this, sumN_ite_eq ao (f x) _ hf]
  · rw [if_neg h]
    have : sumN ao (fun a => detK f g a b x y) = sumN ao (fun _ => (0 : ℚ)) :=
      sumN_congr ao _ _ (fun a _ => by simp [detK, h])
    rw [this, sumN_eq_range_sum]; simp

theorem val_single (s : Sym) : val f g [s] = valSym f g s := by simp [val]

/-- invariant of the dictionary `seen`: every stored entry has the stored reduced word, and the empty tuple is
    stored only for the entry `(0, 0)` -/
def SeenInv (seen : Seen) : Prop :=
  ∀ w i0 j0, lookupSeen seen w = some (i0, j0) → entryWord words i0 j0 = w ∧ (w = [] → i0 = 0 ∧ j0 = 0)

theorem seenInv_nil : SeenInv words [] := by
  intro w i0 j0 h
  simp [lookupSeen] at h

theorem entryConstr_sound (psd : Prop) (ao bo : Nat) (hok : WordsOK words) (seen : Seen)
    (hinv : SeenInv words seen) (i j : Nat) (hi : i < words.length) (hj : j < words.length)
    (hf0 : f 0 < ao) (hg0 : g 0 < bo) :
    (∀ c, (entryConstr words seen i j).1 = some c → Sat psd ao bo (detR f g words) (detK f g) c) ∧
      SeenInv words (entryConstr words seen i j).2 := by
  unfold entryConstr
  simp only
  split
  · -- zero branch
    rename_i hz
    refine ⟨fun c hc => ?_, hinv⟩
    simp only [Option.some.injEq] at hc
    subst hc
    exact entryWord_val_nil f g words i j hz.2 (hok.good i (Nat.pos_of_ne_zero hz.1) hi).1
  · rename_i hz
    have hne_or : i = 0 ∨ entryWord words i j ≠ [] := by
      by_cases h0 : i = 0
      · exact Or.inl h0
      · exact Or.inr (fun h => hz ⟨h0, h⟩)
    split
    · -- one Alice and one Bob measurement
      rename_i sa sb hm
      refine ⟨fun c hc => ?_, hinv⟩
      simp only [Option.some.injEq] at hc
      subst hc
      obtain ⟨hw, ha, hb⟩ := isMeas_some _ sa sb hm
      show detR f g words i j = detK f g sa.answer sb.answer sa.question sb.question
      rw [← entryWord_val_ne f g words i j (by rw [hw]; simp), hw, val_pair f g sa sb ha hb]
    · split
      · -- one measurement of one player
        rename_i s hm
        refine ⟨fun c hc => ?_, hinv⟩
        simp only [Option.some.injEq] at hc
        subst hc
        obtain ⟨hw, hp⟩ := isMeasOne_some _ s hm
        have hv : detR f g words i j = valSym f g s := by
          rw [← entryWord_val_ne f g words i j (by rw [hw]; simp), hw, val_single]
        split
        · rename_i hpa
          show detR f g words i j = sumN bo (fun b => detK f g s.answer b s.question 0)
          rw [hv, sum_detK_bob f g bo _ _ _ hg0]
          simp [valSym, hpa]
        · rename_i hpa
          have hpb : s.player = Player.bob := by
            rcases hp with h | h
            · exact absurd h hpa
            · exact h
          show detR f g words i j = sumN ao (fun a => detK f g a s.answer 0 s.question)
          rw [hv, sum_detK_alice f g ao _ _ _ hf0]
          simp [valSym, hpb]
      · split
        · -- same reduced word as an earlier entry
          rename_i i0 j0 hl
          refine ⟨fun c hc => ?_, hinv⟩
          simp only [Option.some.injEq] at hc
          subst hc
          obtain ⟨he, hnil⟩ := hinv _ i0 j0 hl
          show detR f g words i j = detR f g words i0 j0
          by_cases hw : entryWord words i j = []
          · obtain ⟨rfl, rfl⟩ := hnil hw
            have hi0 : i = 0 := by
              rcases hne_or with h | h
              · exact h
              · exact absurd hw h
            subst hi0
            have hj0 : j = 0 := by
              by_contra hjn
              exact (hok.good j (Nat.pos_of_ne_zero hjn) hj).2 hw
            subst hj0
            rfl
          · rw [← entryWord_val_ne f g words i j hw, ← he,
              entryWord_val_ne f g words i0 j0 (by rw [he]; exact hw)]
        · -- new reduced word: remember the entry
          rename_i hl
          refine ⟨fun c hc => by simp at hc, ?_⟩
          intro w i1 j1 h1
          simp only [lookupSeen] at h1
          split at h1
          · rename_i heq
            simp only [Option.some.injEq, Prod.mk.injEq] at h1
            obtain ⟨rfl, rfl⟩ := h1
            refine ⟨heq, fun hw => ?_⟩
            have hw' : entryWord words i j = [] := by rw [heq]; exact hw
            have hi0 : i = 0 := by
              rcases hne_or with h | h
              · exact h
              · exact absurd hw' h
            subst hi0
            refine ⟨rfl, ?_⟩
            by_contra hjn
            exact (hok.good j (Nat.pos_of_ne_zero hjn) hj).2 hw'
          · exact hinv w i1 j1 h1

theorem loopEntries_sound (psd : Prop) (ao bo : Nat) (hok : WordsOK words) (hf0 : f 0 < ao) (hg0 : g 0 < bo) :
    ∀ (pairs : List (Nat × Nat)) (seen : Seen), SeenInv words seen →
      (∀ p ∈ pairs, p.1 < words.length ∧ p.2 < words.length) →
      ∀ c ∈ loopEntries words pairs seen, Sat psd ao bo (detR f g words) (detK f g) c
  | [], _, _, _, c, hc => by simp [loopEntries] at hc
  | (i, j) :: rest, seen, hinv, hp, c, hc => by
    obtain ⟨hi, hj⟩ := hp (i, j) List.mem_cons_self
    obtain ⟨hs, hinv'⟩ := entryConstr_sound f g words psd ao bo hok seen hinv i j hi hj hf0 hg0
    have hrest := loopEntries_sound psd ao bo hok hf0 hg0 rest (entryConstr words seen i j).2 hinv'
      (fun p hp' => hp p (List.mem_cons_of_mem _ hp'))
    simp only [loopEntries] at hc
    split at hc
    · rename_i c' hc'
      rcases List.mem_cons.mp hc with rfl | h
      · exact hs _ hc'
      · exact hrest c h
    · exact hrest c hc

theorem pairsUpper_lt (dim : Nat) : ∀ p ∈ pairsUpper dim, p.1 < dim ∧ p.2 < dim := by
  intro p hp
  unfold pairsUpper at hp
  simp only [List.mem_flatMap, List.mem_map, List.mem_range] at hp
  obtain ⟨i, hi, d, hd, rfl⟩ := hp
  exact ⟨hi, by simp only; omega⟩

/-- every constraint on the moment matrix is satisfied by `R = z zᵀ`, `K = [a = f x][b = g y]` -/
theorem momentConstrs_sound (psd : Prop) (hpsd : psd) (ao bo : Nat) (hok : WordsOK words)
    (hf0 : f 0 < ao) (hg0 : g 0 < bo) :
    ∀ c ∈ momentConstrs words, Sat psd ao bo (detR f g words) (detK f g) c := by
  intro c hc
  unfold momentConstrs at hc
  rcases List.mem_append.mp hc with h | h
  · simp only [List.mem_cons, List.not_mem_nil, or_false] at h
    rcases h with rfl | rfl
    · show detR f g words 0 0 = 1
      simp [detR, detZ, hok.zero, val, valSym, Sym.ident]
    · exact hpsd
  · exact loopEntries_sound f g words psd ao bo hok hf0 hg0 _ [] (seenInv_nil words) (pairsUpper_lt _) c h

/-- the behaviour of a deterministic strategy satisfies the constraints on the assemblage -/
theorem assemblageConstrs_sound (psd : Prop) (ao bo ai bi : Nat) (R : Nat → Nat → ℚ)
    (hf : ∀ x, x < ai → f x < ao) (hg : ∀ y, y < bi → g y < bo) :
    ∀ c ∈ assemblageConstrs ao bo ai bi, Sat psd ao bo R (detK f g) c := by
  intro c hc
  unfold assemblageConstrs at hc
  simp only [List.mem_append, List.mem_flatMap, List.mem_map, List.mem_range, List.mem_singleton] at hc
  rcases hc with (⟨x, hx, y, hy, h⟩ | ⟨y, hy, b, hb, x', hx', rfl⟩) | ⟨x, hx, a, ha, y', hy', rfl⟩
  · rcases h with ⟨a, ha, b, hb, rfl⟩ | rfl
    · show (0 : ℚ) ≤ detK f g a b x y
      unfold detK; split <;> norm_num
    · show sumN ao (fun a => sumN bo (fun b => detK f g a b x y)) = 1
      have : sumN ao (fun a => sumN bo (fun b => detK f g a b x y))
          = sumN ao (fun a => if f x = a then (fun _ => (1 : ℚ)) a else 0) :=
        sumN_congr ao _ _ (fun a _ => sum_detK_bob f g bo a x y (hg y hy))
      rw [this, sumN_ite_eq ao (f x) _ (hf x hx)]
  · show sumN ao (fun a => detK f g a b 0 y) = sumN ao (fun a => detK f g a b (x' + 1) y)
    rw [sum_detK_alice f g ao b 0 y (hf 0 (by omega)), sum_detK_alice f g ao b (x' + 1) y (hf _ (by omega))]
  · show sumN bo (fun b => detK f g a b x 0) = sumN bo (fun b => detK f g a b x (y' + 1))
    rw [sum_detK_bob f g bo a x 0 (hg 0 (by omega)), sum_detK_bob f g bo a x (y' + 1) (hg _ (by omega))]

/-- the objective at the behaviour of `(f, g)` is the strategy's winning probability -/
theorem objective_detK (ao bo ai bi : Nat) (prob : Prob) (pred : Pred)
    (hf : ∀ x, x < ai → f x < ao) (hg : ∀ y, y < bi → g y < bo) :
    objective ao bo ai bi prob pred (detK f g) = detValueN ai bi prob pred f g := by
  unfold objective detValueN
  apply sumN_congr; intro x hx
  apply sumN_congr; intro y hy
  have h1 : ∀ a, a < ao → sumN bo (fun b => prob x y * pred a b x y * detK f g a b x y)
      = if f x = a then (fun a => prob x y * pred a (g y) x y) a else 0 := by
    intro a _
    by_cases h : f x = a
    · rw [if_pos h]
      have : sumN bo (fun b => prob x y * pred a b x y * detK f g a b x y)
          = sumN bo (fun b => if g y = b then (fun b => prob x y * pred a b x y) b else 0) :=
        sumN_congr bo _ _ (fun b _ => by by_cases h2 : g y = b <;> simp [detK, h, h2])
      rw [this, sumN_ite_eq bo (g y) _ (hg y hy)]
    · rw [if_neg h]
      have : sumN bo (fun b => prob x y * pred a b x y * detK f g a b x y) = sumN bo (fun _ => (0 : ℚ)) :=
        sumN_congr bo _ _ (fun b _ => by simp [detK, h])
      rw [this, sumN_eq_range_sum]; simp
  rw [sumN_congr ao _ _ h1, sumN_ite_eq ao (f x) _ (hf x hx)]

end Det

/-! ### `R = z zᵀ` is positive semidefinite -/

section Psd
open scoped ComplexOrder

/-- `R ⪰ 0` for a rational matrix of size `n`: the complex matrix with these entries (the cvxpy variable `R` is
    complex Hermitian) is positive semidefinite in Mathlib's sense -/
def PsdQ (n : Nat) (R : Nat → Nat → ℚ) : Prop :=
  (Matrix.of fun i j : Fin n => ((R i j : ℚ) : ℂ)).PosSemidef

theorem psdQ_of_rank_one (n : Nat) (z : Nat → ℚ) : PsdQ n (fun i j => z i * z j) := by
  unfold PsdQ
  have h : (Matrix.of fun i j : Fin n => (((z i * z j : ℚ)) : ℂ))
      = Matrix.vecMulVec (fun i : Fin n => ((z i : ℚ) : ℂ)) (star (fun i : Fin n => ((z i : ℚ) : ℂ))) := by
    ext i j
    simp [Matrix.vecMulVec_apply]
  rw [h]
  exact Matrix.posSemidef_vecMulVec_self_star _

theorem detR_psd (f g : Nat → Nat) (words : List Word) (n : Nat) : PsdQ n (detR f g words) :=
  psdQ_of_rank_one n (detZ f g words)

end Psd

/-! ### the non-signalling polytope -/

section NS
variable {α : Type} [Field α] [LinearOrder α] [IsStrictOrderedRing α]

/-- the constraint system of `nonsignaling_value` in scalar form: `K ≥ 0`, `Σ_b K(a,b|x,y) = σ(a|x)`,
    `Σ_a K(a,b|x,y) = ρ(b|y)`, `Σ_a σ(a|x) = τ`, `Σ_b ρ(b|y) = τ`, `τ = 1`.  (The code writes the same system with
    2×2 Hermitian blocks `K, σ, ρ, τ`, `K ⪰ 0`, `τ ⪰ 0`, `tr τ = 1` and the objective `Σ π V tr K`; taking traces
    maps its feasible points onto the feasible points of this system with the same objective, `k ↦ k·E₁₁` maps
    back.) -/
def NsFeasible (ao bo ai bi : Nat) (K : Nat → Nat → Nat → Nat → α) : Prop :=
  (∀ x y a b, x < ai → y < bi → a < ao → b < bo → 0 ≤ K a b x y) ∧
  ∃ (sigma rho : Nat → Nat → α),
    (∀ x y a, x < ai → y < bi → a < ao → sumN bo (fun b => K a b x y) = sigma a x) ∧
    (∀ x y b, x < ai → y < bi → b < bo → sumN ao (fun a => K a b x y) = rho b y) ∧
    (∀ x, x < ai → sumN ao (fun a => sigma a x) = 1) ∧
    (∀ y, y < bi → sumN bo (fun b => rho b y) = 1)

/-- the objective `Σ π(x,y) V(a,b|x,y) K(a,b|x,y)` over any ordered field -/
def objG (ao bo ai bi : Nat) (prob : Nat → Nat → α) (pred K : Nat → Nat → Nat → Nat → α) : α :=
  sumN ai fun x => sumN bi fun y => sumN ao fun a => sumN bo fun b => prob x y * pred a b x y * K a b x y

theorem objective_eq_objG (ao bo ai bi : Nat) (prob : Prob) (pred K : Pred) :
    objective ao bo ai bi prob pred K = objG ao bo ai bi prob pred K := rfl

omit [IsStrictOrderedRing α] in
theorem ns_norm {ao bo ai bi : Nat} {K : Nat → Nat → Nat → Nat → α} (h : NsFeasible ao bo ai bi K)
    (x y : Nat) (hx : x < ai) (hy : y < bi) : sumN ao (fun a => sumN bo (fun b => K a b x y)) = 1 := by
  obtain ⟨_, sigma, rho, h1, _, h3, _⟩ := h
  rw [sumN_congr ao _ _ (fun a ha => h1 x y a hx hy ha)]
  exact h3 x hx

theorem ns_objective_le_one (ao bo ai bi : Nat) (prob : Nat → Nat → α) (pred K : Nat → Nat → Nat → Nat → α)
    (hp0 : ∀ x y, x < ai → y < bi → 0 ≤ prob x y)
    (hp1 : sumN ai (fun x => sumN bi (fun y => prob x y)) = 1)
    (hv : ∀ a b x y, a < ao → b < bo → x < ai → y < bi → 0 ≤ pred a b x y ∧ pred a b x y ≤ 1)
    (h : NsFeasible ao bo ai bi K) : objG ao bo ai bi prob pred K ≤ 1 := by
  unfold objG
  rw [← hp1]
  simp only [sumN_eq_range_sum]
  apply Finset.sum_le_sum; intro x hx
  apply Finset.sum_le_sum; intro y hy
  have hx' := Finset.mem_range.mp hx
  have hy' := Finset.mem_range.mp hy
  have hn := ns_norm h x y hx' hy'
  simp only [sumN_eq_range_sum] at hn
  calc ∑ a ∈ Finset.range ao, ∑ b ∈ Finset.range bo, prob x y * pred a b x y * K a b x y
      ≤ ∑ a ∈ Finset.range ao, ∑ b ∈ Finset.range bo, prob x y * K a b x y := by
        apply Finset.sum_le_sum; intro a ha
        apply Finset.sum_le_sum; intro b hb
        have ha' := Finset.mem_range.mp ha
        have hb' := Finset.mem_range.mp hb
        have hk := h.1 x y a b hx' hy' ha' hb'
        have hpv := hv a b x y ha' hb' hx' hy'
        have hp := hp0 x y hx' hy'
        calc prob x y * pred a b x y * K a b x y = (prob x y * K a b x y) * pred a b x y := by ring
          _ ≤ (prob x y * K a b x y) * 1 := mul_le_mul_of_nonneg_left hpv.2 (mul_nonneg hp hk)
          _ = prob x y * K a b x y := mul_one _
    _ = prob x y * ∑ a ∈ Finset.range ao, ∑ b ∈ Finset.range bo, K a b x y := by
        simp only [Finset.mul_sum]
    _ = prob x y := by rw [hn, mul_one]

theorem ns_objective_nonneg (ao bo ai bi : Nat) (prob : Nat → Nat → α) (pred K : Nat → Nat → Nat → Nat → α)
    (hp0 : ∀ x y, x < ai → y < bi → 0 ≤ prob x y)
    (hv : ∀ a b x y, a < ao → b < bo → x < ai → y < bi → 0 ≤ pred a b x y ∧ pred a b x y ≤ 1)
    (h : NsFeasible ao bo ai bi K) : 0 ≤ objG ao bo ai bi prob pred K := by
  unfold objG
  simp only [sumN_eq_range_sum]
  apply Finset.sum_nonneg; intro x hx
  apply Finset.sum_nonneg; intro y hy
  apply Finset.sum_nonneg; intro a ha
  apply Finset.sum_nonneg; intro b hb
  have hx' := Finset.mem_range.mp hx
  have hy' := Finset.mem_range.mp hy
  have ha' := Finset.mem_range.mp ha
  have hb' := Finset.mem_range.mp hb
  exact mul_nonneg (mul_nonneg (hp0 x y hx' hy') (hv a b x y ha' hb' hx' hy').1) (h.1 x y a b hx' hy' ha' hb')

/-! membership of the assemblage constraints in the generated list -/

theorem mem_kNonneg (ao bo ai bi x y a b : Nat) (hx : x < ai) (hy : y < bi) (ha : a < ao) (hb : b < bo) :
    Constr.kNonneg x y a b ∈ assemblageConstrs ao bo ai bi := by
  unfold assemblageConstrs
  simp only [List.mem_append, List.mem_flatMap, List.mem_map, List.mem_range, List.mem_singleton]
  exact Or.inl (Or.inl ⟨x, hx, y, hy, Or.inl ⟨a, ha, b, hb, rfl⟩⟩)

theorem mem_kNorm (ao bo ai bi x y : Nat) (hx : x < ai) (hy : y < bi) :
    Constr.kNorm x y ∈ assemblageConstrs ao bo ai bi := by
  unfold assemblageConstrs
  simp only [List.mem_append, List.mem_flatMap, List.mem_map, List.mem_range, List.mem_singleton]
  exact Or.inl (Or.inl ⟨x, hx, y, hy, Or.inr rfl⟩)

theorem mem_nsBob (ao bo ai bi y b x : Nat) (hy : y < bi) (hb : b < bo) (hx0 : 0 < x) (hx : x < ai) :
    Constr.nsBob y b x ∈ assemblageConstrs ao bo ai bi := by
  unfold assemblageConstrs
  simp only [List.mem_append, List.mem_flatMap, List.mem_map, List.mem_range, List.mem_singleton]
  refine Or.inl (Or.inr ⟨y, hy, b, hb, x - 1, by omega, ?_⟩)
  congr 1; omega

theorem mem_nsAlice (ao bo ai bi x a y : Nat) (hx : x < ai) (ha : a < ao) (hy0 : 0 < y) (hy : y < bi) :
    Constr.nsAlice x a y ∈ assemblageConstrs ao bo ai bi := by
  unfold assemblageConstrs
  simp only [List.mem_append, List.mem_flatMap, List.mem_map, List.mem_range, List.mem_singleton]
  refine Or.inr ⟨x, hx, a, ha, y - 1, by omega, ?_⟩
  congr 1; omega

omit [IsStrictOrderedRing α] in
/-- the assemblage part of the NPA constraints describes exactly the non-signalling polytope: a point that
    satisfies `assemblageConstrs` is non-signalling … -/
theorem nsFeasible_of_assemblage (psd : Prop) (ao bo ai bi : Nat) (hai : 0 < ai) (hbi : 0 < bi)
    (R : Nat → Nat → α) (K : Nat → Nat → Nat → Nat → α)
    (h : ∀ c ∈ assemblageConstrs ao bo ai bi, Sat psd ao bo R K c) : NsFeasible ao bo ai bi K := by
  refine ⟨fun x y a b hx hy ha hb => h _ (mem_kNonneg ao bo ai bi x y a b hx hy ha hb),
    fun a x => sumN bo (fun b => K a b x 0), fun b y => sumN ao (fun a => K a b 0 y), ?_, ?_, ?_, ?_⟩
  · intro x y a hx hy ha
    rcases Nat.eq_zero_or_pos y with rfl | hy0
    · rfl
    · exact (h _ (mem_nsAlice ao bo ai bi x a y hx ha hy0 hy)).symm
  · intro x y b hx hy hb
    rcases Nat.eq_zero_or_pos x with rfl | hx0
    · rfl
    · exact (h _ (mem_nsBob ao bo ai bi y b x hy hb hx0 hx)).symm
  · intro x hx
    exact h _ (mem_kNorm ao bo ai bi x 0 hx hbi)
  · intro y hy
    have := h _ (mem_kNorm ao bo ai bi 0 y hai hy)
    simp only [Sat, sumN_eq_range_sum] at this ⊢
    rw [Finset.sum_comm]
    exact this

omit [IsStrictOrderedRing α] in
/-- … and conversely a non-signalling behaviour satisfies every constraint of `assemblageConstrs` -/
theorem assemblage_of_nsFeasible (psd : Prop) (ao bo ai bi : Nat)
    (R : Nat → Nat → α) (K : Nat → Nat → Nat → Nat → α) (h : NsFeasible ao bo ai bi K) :
    ∀ c ∈ assemblageConstrs ao bo ai bi, Sat psd ao bo R K c := by
  intro c hc
  unfold assemblageConstrs at hc
  simp only [List.mem_append, List.mem_flatMap, List.mem_map, List.mem_range, List.mem_singleton] at hc
  obtain ⟨hnn, sigma, rho, h1, h2, h3, h4⟩ := h
  rcases hc with (⟨x, hx, y, hy, hc⟩ | ⟨y, hy, b, hb, x', hx', rfl⟩) | ⟨x, hx, a, ha, y', hy', rfl⟩
  · rcases hc with ⟨a, ha, b, hb, rfl⟩ | rfl
    · exact hnn x y a b hx hy ha hb
    · show sumN ao (fun a => sumN bo (fun b => K a b x y)) = 1
      rw [sumN_congr ao _ _ (fun a ha => h1 x y a hx hy ha)]
      exact h3 x hx
  · show sumN ao (fun a => K a b 0 y) = sumN ao (fun a => K a b (x' + 1) y)
    rw [h2 0 y b (by omega) hy hb, h2 (x' + 1) y b (by omega) hy hb]
  · show sumN bo (fun b => K a b x 0) = sumN bo (fun b => K a b x (y' + 1))
    rw [h1 x 0 a hx (by omega) ha, h1 x (y' + 1) a hx (by omega) ha]

end NS

/-! ### levels -/

/-- the level argument is of the documented form: an integer, or a string whose terms after the first consist of
    the letters `a` and `b` only (`'1+ab+aab'`) -/
def LevelWF : LevelArg → Prop
  | .int _ => True
  | .str s => ∀ v ∈ (splitPlus s.toList).tail, ∀ c ∈ v, c = 'a' ∨ c = 'b'

theorem mem_foldl_addConf : ∀ (l acc : List (Nat × Nat)) (c : Nat × Nat),
    c ∈ l.foldl addConf acc → c ∈ acc ∨ c ∈ l
  | [], acc, c, h => Or.inl (by simpa using h)
  | d :: l, acc, c, h => by
    rw [List.foldl_cons] at h
    rcases mem_foldl_addConf l (addConf acc d) c h with h1 | h1
    · unfold addConf at h1
      split at h1
      · exact Or.inl h1
      · rcases List.mem_append.mp h1 with h2 | h2
        · exact Or.inl h2
        · exact Or.inr (by simp at h2; simp [h2])
    · exact Or.inr (List.mem_cons_of_mem _ h1)

theorem countChar_ab (v : List Char) (h : ∀ c ∈ v, c = 'a' ∨ c = 'b') :
    countChar 'a' v + countChar 'b' v = v.length := by
  induction v with
  | nil => rfl
  | cons c v ih =>
    have ih' := ih (fun d hd => h d (List.mem_cons_of_mem _ hd))
    unfold countChar at ih' ⊢
    rcases h c List.mem_cons_self with rfl | rfl
    · rw [List.filter_cons_of_pos (by simp), List.filter_cons_of_neg (by decide)]
      simp only [List.length_cons]; omega
    · rw [List.filter_cons_of_neg (by decide), List.filter_cons_of_pos (by simp)]
      simp only [List.length_cons]; omega

/-- for a level of the documented form every extra configuration has at least one letter -/
theorem levelSpec_confOK (k : LevelArg) (hwf : LevelWF k) (base : Nat) (conf : List (Nat × Nat))
    (h : levelSpec k = some (base, conf)) : ConfOK conf := by
  cases k with
  | int n =>
    simp only [levelSpec, Option.some.injEq, Prod.mk.injEq] at h
    obtain ⟨_, rfl⟩ := h
    intro c hc; simp at hc
  | str s =>
    simp only [levelSpec, parseLevel] at h
    simp only [LevelWF] at hwf
    split at h
    · simp at h
    · rename_i hd t hsplit
      rw [hsplit] at hwf
      split at h
      · simp at h
      · rename_i b hb
        simp only [Option.some.injEq, Prod.mk.injEq] at h
        obtain ⟨rfl, rfl⟩ := h
        intro c hc
        rcases mem_foldl_addConf _ _ c hc with h1 | h1
        · simp at h1
        · simp only [List.mem_map, List.mem_filter, decide_eq_true_eq] at h1
          obtain ⟨v, ⟨hv, hlen⟩, rfl⟩ := h1
          have := countChar_ab v (hwf v (by simpa using hv))
          simp only
          omega

end Toq.Npa
