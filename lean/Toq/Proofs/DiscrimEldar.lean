import Toq.Proofs.Discrim
/-!
# Eldar's reduction for unambiguous discrimination of pure states, both directions, without any independence assumption

`V : Matrix ι κ ℂ` holds the state vectors `ψ_j` as columns, `G = VᴴV` is their Gram matrix.  For a family `M : κ → Matrix ι ι ℂ`
the `κ × κ` matrix `Vᴴ M_i V` has entries `⟨ψ_a| M_i |ψ_b⟩`; unambiguity is `⟨ψ_j| M_i |ψ_j⟩ = 0` for `j ≠ i`.

* `ua_gram_of_povm`: PSD `M_i` with `1 − Σ_i M_i ⪰ 0` that never err give a feasible point `q_i = ⟨ψ_i|M_i|ψ_i⟩` of the
  Gram-form program (`q ≥ 0`, `G − diag q ⪰ 0`);
* `ua_povm_of_gram`: every feasible `q` of the Gram-form program is realised: with `W = V G⁺` (`G⁺` the pseudo-inverse, from the
  functional calculus; the columns of `W` are the reciprocal states when the `ψ_j` are independent) the operators
  `M_i = q_i W e_i e_iᴴ Wᴴ` are PSD, `1 − Σ_i M_i ⪰ 0`, and `⟨ψ_j|M_i|ψ_j⟩ = q_i δ_ij`.
-/

open Matrix
open scoped ComplexOrder MatrixOrder

set_option linter.unusedSectionVars false

namespace Toq.Discrim

section Eldar
variable {ι κ : Type*} [Fintype ι] [DecidableEq ι] [Fintype κ] [DecidableEq κ]

/-- `|ψ_j⟩⟨ψ_j|` for the `j`-th column of `V` -/
def uaPure (V : Matrix ι κ ℂ) (j : κ) : Matrix ι ι ℂ := vecMulVec (fun a => V a j) (star fun a => V a j)

omit [DecidableEq ι] [DecidableEq κ] in
theorem uaPure_psd (V : Matrix ι κ ℂ) (j : κ) : (uaPure V j).PosSemidef :=
  Matrix.posSemidef_vecMulVec_self_star _

omit [DecidableEq ι] [DecidableEq κ] in
/-- `(Vᴴ M V)_{ab} = ⟨ψ_a| M |ψ_b⟩` -/
theorem ua_sandwich_apply (V : Matrix ι κ ℂ) (M : Matrix ι ι ℂ) (a b : κ) :
    (Vᴴ * M * V) a b = star (fun c => V c a) ⬝ᵥ (M *ᵥ fun c => V c b) := by
  simp only [Matrix.mul_apply, dotProduct, mulVec, conjTranspose_apply, Pi.star_apply, Finset.sum_mul,
    Finset.mul_sum]
  rw [Finset.sum_comm]
  refine Finset.sum_congr rfl fun x _ => Finset.sum_congr rfl fun y _ => ?_
  ring

omit [DecidableEq ι] [DecidableEq κ] in
/-- `tr(|ψ_j⟩⟨ψ_j| M) = ⟨ψ_j| M |ψ_j⟩ = (Vᴴ M V)_{jj}` -/
theorem ua_trace_pure_mul (V : Matrix ι κ ℂ) (M : Matrix ι ι ℂ) (j : κ) :
    (uaPure V j * M).trace = (Vᴴ * M * V) j j := by
  unfold uaPure
  rw [Matrix.trace_mul_comm, Matrix.mul_vecMulVec, Matrix.trace_vecMulVec, dotProduct_comm, ua_sandwich_apply]

/-! ## From a measurement to the Gram program -/

omit [DecidableEq κ] in
/-- a PSD matrix with a vanishing diagonal entry has the whole column and row zero -/
theorem ua_psd_zero_diag {N : Matrix κ κ ℂ} (hN : N.PosSemidef) (j : κ) (h : N j j = 0) (a : κ) :
    N a j = 0 ∧ N j a = 0 := by
  classical
  have h1 : star (Pi.single j (1 : ℂ)) ⬝ᵥ (N *ᵥ Pi.single j 1) = 0 := by
    simp [h]
  have h2 := (hN.dotProduct_mulVec_zero_iff _).mp h1
  have h3 : N a j = 0 := by
    have := congrFun h2 a
    simpa using this
  refine ⟨h3, ?_⟩
  have := hN.isHermitian.apply a j
  rw [h3] at this
  simpa using this

/-- the unambiguous outcomes: `Vᴴ M_i V` is `q_i` at `(i, i)` and zero elsewhere -/
theorem ua_sandwich_eq_single (V : Matrix ι κ ℂ) (M : Matrix ι ι ℂ) (hM : M.PosSemidef) (i : κ)
    (hz : ∀ j, j ≠ i → (Vᴴ * M * V) j j = 0) :
    Vᴴ * M * V = Matrix.diagonal fun a => if a = i then ((((Vᴴ * M * V) i i).re : ℝ) : ℂ) else 0 := by
  have hN : (Vᴴ * M * V).PosSemidef := hM.conjTranspose_mul_mul_same V
  ext a b
  by_cases hb : b = i
  · subst hb
    by_cases ha : a = b
    · subst ha
      rw [Matrix.diagonal_apply_eq, if_pos rfl]
      have h0 := Complex.nonneg_iff.mp (hN.diag_nonneg (i := a))
      apply Complex.ext
      · rw [Complex.ofReal_re]
      · rw [Complex.ofReal_im]; exact h0.2.symm
    · rw [Matrix.diagonal_apply_ne _ ha]
      exact (ua_psd_zero_diag hN a (hz a ha) b).2
  · have h1 := (ua_psd_zero_diag hN b (hz b hb) a).1
    rw [h1]
    by_cases hab : a = b
    · subst hab
      rw [Matrix.diagonal_apply_eq, if_neg hb]
    · rw [Matrix.diagonal_apply_ne _ hab]

/-- **Measurement ⇒ Gram program.**  PSD operators `M_i` with PSD remainder `1 − Σ_i M_i` that never err
(`⟨ψ_j|M_i|ψ_j⟩ = 0` for `j ≠ i`) give the feasible point `q_i = ⟨ψ_i|M_i|ψ_i⟩` of the Gram-form program. -/
theorem ua_gram_of_povm (V : Matrix ι κ ℂ) (M : κ → Matrix ι ι ℂ) (hM : ∀ i, (M i).PosSemidef)
    (hrest : (1 - ∑ i, M i).PosSemidef) (hz : ∀ i j, j ≠ i → (Vᴴ * M i * V) j j = 0) :
    (∀ i, 0 ≤ ((Vᴴ * M i * V) i i).re) ∧
      (Vᴴ * V - Matrix.diagonal fun i => ((((Vᴴ * M i * V) i i).re : ℝ) : ℂ)).PosSemidef := by
  constructor
  · intro i
    exact (Complex.nonneg_iff.mp ((hM i).conjTranspose_mul_mul_same V).diag_nonneg).1
  · have hsum : ∑ i, Vᴴ * M i * V = Matrix.diagonal fun i => ((((Vᴴ * M i * V) i i).re : ℝ) : ℂ) := by
      have : ∀ i, Vᴴ * M i * V
          = Matrix.diagonal fun a => if a = i then ((((Vᴴ * M i * V) i i).re : ℝ) : ℂ) else 0 :=
        fun i => ua_sandwich_eq_single V (M i) (hM i) i (hz i)
      ext a b
      rw [Matrix.sum_apply]
      by_cases hab : a = b
      · subst hab
        rw [Matrix.diagonal_apply_eq]
        rw [Finset.sum_eq_single a]
        · conv_lhs => rw [this a]
          rw [Matrix.diagonal_apply_eq, if_pos rfl]
        · intro i _ hi
          conv_lhs => rw [this i]
          rw [Matrix.diagonal_apply_eq, if_neg (Ne.symm hi)]
        · intro h; exact absurd (Finset.mem_univ a) h
      · rw [Matrix.diagonal_apply_ne _ hab]
        refine Finset.sum_eq_zero fun i _ => ?_
        rw [this i, Matrix.diagonal_apply_ne _ hab]
    have e : Vᴴ * V - Matrix.diagonal (fun i => ((((Vᴴ * M i * V) i i).re : ℝ) : ℂ))
        = Vᴴ * (1 - ∑ i, M i) * V := by
      rw [← hsum, Matrix.mul_sub, Matrix.sub_mul, Matrix.mul_one, Matrix.mul_sum, Matrix.sum_mul]
    rw [e]
    exact hrest.conjTranspose_mul_mul_same V

/-! ## From the Gram program to a measurement -/

omit [DecidableEq ι] [Fintype ι] in
theorem mePinv_isHermitian (A : Matrix κ κ ℂ) : (mePinv A)ᴴ = mePinv A := by
  have : IsSelfAdjoint (mePinv A) := cfc_predicate (fun x : ℝ => x⁻¹) A
  exact this

omit [DecidableEq ι] [Fintype ι] in
theorem mePinv_mul_meSupp {A : Matrix κ κ ℂ} (hA : A.IsHermitian) : mePinv A * meSupp A = mePinv A := by
  have hA' : IsSelfAdjoint A := hA
  rw [meSupp_eq_cfc hA]
  unfold mePinv
  rw [← cfc_mul (fun x : ℝ => x⁻¹) (fun x : ℝ => x * x⁻¹) A (A.finite_real_spectrum.continuousOn _)
    (A.finite_real_spectrum.continuousOn _)]
  congr 1
  funext x
  by_cases hx : x = 0
  · simp [hx]
  · field_simp

/-- the reciprocal frame `W = V G⁺` -/
noncomputable def uaRecip (V : Matrix ι κ ℂ) : Matrix ι κ ℂ := V * mePinv (Vᴴ * V)

/-- `Vᴴ W = G G⁺` and `Wᴴ V = G⁺ G`: both the support projector of `G` -/
theorem uaRecip_left (V : Matrix ι κ ℂ) : Vᴴ * uaRecip V = meSupp (Vᴴ * V) := by
  unfold uaRecip meSupp
  rw [Matrix.mul_assoc]

theorem uaRecip_right (V : Matrix ι κ ℂ) : (uaRecip V)ᴴ * V = meSupp (Vᴴ * V) := by
  have hG : (Vᴴ * V).IsHermitian := (Matrix.posSemidef_conjTranspose_mul_self V).isHermitian
  rw [meSupp_eq_pinv_mul hG]
  unfold uaRecip
  rw [conjTranspose_mul, mePinv_isHermitian, Matrix.mul_assoc]

/-- `W G Wᴴ = V G⁺ Vᴴ` is a Hermitian idempotent (the projector on the span of the states) -/
theorem uaRecip_proj (V : Matrix ι κ ℂ) :
    uaRecip V * (Vᴴ * V) * (uaRecip V)ᴴ = V * mePinv (Vᴴ * V) * Vᴴ := by
  have hG : (Vᴴ * V).IsHermitian := (Matrix.posSemidef_conjTranspose_mul_self V).isHermitian
  unfold uaRecip
  rw [conjTranspose_mul, mePinv_isHermitian]
  have : V * mePinv (Vᴴ * V) * (Vᴴ * V) * (mePinv (Vᴴ * V) * Vᴴ)
      = V * (mePinv (Vᴴ * V) * ((Vᴴ * V) * mePinv (Vᴴ * V))) * Vᴴ := by
    simp only [Matrix.mul_assoc]
  rw [this]
  have h2 : (Vᴴ * V) * mePinv (Vᴴ * V) = meSupp (Vᴴ * V) := rfl
  rw [h2, mePinv_mul_meSupp hG]

theorem uaSpan_psd_compl (V : Matrix ι κ ℂ) : (1 - V * mePinv (Vᴴ * V) * Vᴴ).PosSemidef := by
  have hG : (Vᴴ * V).IsHermitian := (Matrix.posSemidef_conjTranspose_mul_self V).isHermitian
  set Pi := V * mePinv (Vᴴ * V) * Vᴴ with hPi
  have hH : Piᴴ = Pi := by
    rw [hPi, conjTranspose_mul, conjTranspose_mul, conjTranspose_conjTranspose, mePinv_isHermitian,
      Matrix.mul_assoc]
  have hI : Pi * Pi = Pi := by
    have : Pi * Pi = V * (mePinv (Vᴴ * V) * ((Vᴴ * V) * mePinv (Vᴴ * V))) * Vᴴ := by
      rw [hPi]; simp only [Matrix.mul_assoc]
    rw [this]
    have h2 : (Vᴴ * V) * mePinv (Vᴴ * V) = meSupp (Vᴴ * V) := rfl
    rw [h2, mePinv_mul_meSupp hG]
  have h2 : (1 - Pi)ᴴ * (1 - Pi) = 1 - Pi := by
    rw [conjTranspose_sub, conjTranspose_one, hH, Matrix.sub_mul, Matrix.mul_sub, Matrix.mul_sub,
      Matrix.one_mul, Matrix.mul_one, Matrix.one_mul, hI]
    abel
  rw [← h2]
  exact Matrix.posSemidef_conjTranspose_mul_self _

/-- `q_a (1 − S)_{ab} = 0` for the support projector `S` of `G` and a feasible `q`: a state with `q_a ≠ 0` lies in the
support -/
theorem ua_supp_of_feasible (G : Matrix κ κ ℂ) (q : κ → ℝ) (hG : G.IsHermitian) (hq : ∀ i, 0 ≤ q i)
    (hGq : (G - Matrix.diagonal fun i => (q i : ℂ)).PosSemidef) (a b : κ) :
    (q a : ℂ) * meSupp G a b = if a = b then (q a : ℂ) else 0 := by
  have hGR : G * (1 - meSupp G) = 0 := by
    rw [Matrix.mul_sub, Matrix.mul_one, mul_meSupp hG, sub_self]
  have hc : G *ᵥ (fun c => (1 - meSupp G) c b) = 0 := by
    funext c
    have := congrFun (congrFun hGR c) b
    simpa [Matrix.mul_apply, mulVec, dotProduct] using this
  by_cases h0 : (1 - meSupp G) a b = 0
  · have : meSupp G a b = if a = b then 1 else 0 := by
      have h1 : (1 : Matrix κ κ ℂ) a b - meSupp G a b = 0 := h0
      rw [sub_eq_zero] at h1
      rw [← h1, Matrix.one_apply]
    rw [this]
    split <;> simp
  · have hqa := ua_zero_of_kernel G q _ hq hGq hc a h0
    rw [hqa]
    split <;> simp

/-- the diagonal matrix `q_i e_i e_iᴴ` -/
def uaDiagAt (q : κ → ℝ) (i : κ) : Matrix κ κ ℂ := Matrix.diagonal fun a => if a = i then (q i : ℂ) else 0

omit [Fintype κ] in
theorem uaDiagAt_psd (q : κ → ℝ) (hq : ∀ i, 0 ≤ q i) (i : κ) : (uaDiagAt q i).PosSemidef :=
  Matrix.PosSemidef.diagonal fun a => by
    show (0 : ℂ) ≤ if a = i then (q i : ℂ) else 0
    split
    · exact_mod_cast hq i
    · exact le_refl _

theorem uaDiagAt_sum (q : κ → ℝ) : ∑ i, uaDiagAt q i = Matrix.diagonal fun i => (q i : ℂ) := by
  ext a b
  rw [Matrix.sum_apply]
  unfold uaDiagAt
  by_cases hab : a = b
  · subst hab
    simp [Matrix.diagonal_apply_eq]
  · simp [Matrix.diagonal_apply_ne _ hab]

/-- the operators `M_i = W (q_i e_i e_iᴴ) Wᴴ` -/
noncomputable def uaPovm (V : Matrix ι κ ℂ) (q : κ → ℝ) (i : κ) : Matrix ι ι ℂ :=
  uaRecip V * uaDiagAt q i * (uaRecip V)ᴴ

theorem uaPovm_psd (V : Matrix ι κ ℂ) (q : κ → ℝ) (hq : ∀ i, 0 ≤ q i) (i : κ) : (uaPovm V q i).PosSemidef :=
  (uaDiagAt_psd q hq i).mul_mul_conjTranspose_same _

theorem uaPovm_rest_psd (V : Matrix ι κ ℂ) (q : κ → ℝ)
    (hGq : (Vᴴ * V - Matrix.diagonal fun i => (q i : ℂ)).PosSemidef) :
    (1 - ∑ i, uaPovm V q i).PosSemidef := by
  have hs : ∑ i, uaPovm V q i = uaRecip V * (Matrix.diagonal fun i => (q i : ℂ)) * (uaRecip V)ᴴ := by
    unfold uaPovm
    rw [← Matrix.sum_mul, ← Matrix.mul_sum, uaDiagAt_sum]
  have e : 1 - ∑ i, uaPovm V q i = (1 - V * mePinv (Vᴴ * V) * Vᴴ)
      + uaRecip V * (Vᴴ * V - Matrix.diagonal fun i => (q i : ℂ)) * (uaRecip V)ᴴ := by
    rw [hs, Matrix.mul_sub, Matrix.sub_mul, uaRecip_proj]
    abel
  rw [e]
  exact (uaSpan_psd_compl V).add (hGq.mul_mul_conjTranspose_same _)

/-- `⟨ψ_j| M_i |ψ_j⟩ = q_i δ_ij` -/
theorem uaPovm_sandwich (V : Matrix ι κ ℂ) (q : κ → ℝ) (hq : ∀ i, 0 ≤ q i)
    (hGq : (Vᴴ * V - Matrix.diagonal fun i => (q i : ℂ)).PosSemidef) (i j : κ) :
    (Vᴴ * uaPovm V q i * V) j j = if i = j then (q i : ℂ) else 0 := by
  have hG : (Vᴴ * V).IsHermitian := (Matrix.posSemidef_conjTranspose_mul_self V).isHermitian
  have e : Vᴴ * uaPovm V q i * V = meSupp (Vᴴ * V) * uaDiagAt q i * meSupp (Vᴴ * V) := by
    unfold uaPovm
    calc Vᴴ * (uaRecip V * uaDiagAt q i * (uaRecip V)ᴴ) * V
        = (Vᴴ * uaRecip V) * uaDiagAt q i * ((uaRecip V)ᴴ * V) := by simp only [Matrix.mul_assoc]
      _ = _ := by rw [uaRecip_left, uaRecip_right]
  rw [e]
  have h1 : (meSupp (Vᴴ * V) * uaDiagAt q i * meSupp (Vᴴ * V)) j j
      = meSupp (Vᴴ * V) j i * ((q i : ℂ) * meSupp (Vᴴ * V) i j) := by
    unfold uaDiagAt
    rw [Matrix.mul_apply]
    simp only [Matrix.mul_diagonal]
    rw [Finset.sum_eq_single i]
    · simp [mul_assoc]
    · intro b _ hb
      simp [hb]
    · intro h; exact absurd (Finset.mem_univ i) h
  rw [h1, ua_supp_of_feasible _ q hG hq hGq i j]
  by_cases hij : i = j
  · subst hij
    have := ua_supp_of_feasible _ q hG hq hGq i i
    simp only [if_true] at this ⊢
    rw [mul_comm, this]
  · simp [hij]

end Eldar

end Toq.Discrim
