import Toq.Model.PPTDisc
import Toq.Proofs.Discrim
import Mathlib.LinearAlgebra.Matrix.Kronecker
/-!
# Helper lemmas for C12 (PPT state discrimination)

* the partial transposes `pTBp`/`pTAp` on matrices indexed by pairs `(a, b)` and their algebra (involution,
  trace, self-adjointness for the trace form, behaviour on Kronecker products);
* transport to composite indices `Fin (dA * dB)` along `finProdFinEquiv` (`i = a·dB + b`): `pTBf`, `pTAf`, `pTf`, `kronF`;
* the bridge from the executable `Toq.PPTDisc.pTB`/`pTA`/`pT` on exact matrices;
* weak duality for any trace-self-adjoint positivity constraint and soundness of the core checkers;
* the constraints of level 2 of the symmetric-extension hierarchy (`SymExt2`) and their satisfaction by product operators.
-/

open Matrix
open scoped ComplexOrder MatrixOrder Kronecker

namespace Toq.PPTDisc

section Prod
variable {m n : Type*} [Fintype m] [Fintype n] [DecidableEq m] [DecidableEq n]
variable {R : Type*}

/-- partial transpose on the second factor -/
def pTBp (X : Matrix (m × n) (m × n) R) : Matrix (m × n) (m × n) R :=
  fun i j => X (i.1, j.2) (j.1, i.2)

/-- partial transpose on the first factor -/
def pTAp (X : Matrix (m × n) (m × n) R) : Matrix (m × n) (m × n) R :=
  fun i j => X (j.1, i.2) (i.1, j.2)

omit [Fintype m] [Fintype n] [DecidableEq m] [DecidableEq n] in
theorem pTAp_eq (X : Matrix (m × n) (m × n) R) : pTAp X = (pTBp X)ᵀ := rfl

omit [Fintype m] [Fintype n] [DecidableEq m] [DecidableEq n] in
theorem pTBp_pTBp (X : Matrix (m × n) (m × n) R) : pTBp (pTBp X) = X := rfl

omit [DecidableEq m] [DecidableEq n] in
theorem trace_pTBp [AddCommMonoid R] (X : Matrix (m × n) (m × n) R) : (pTBp X).trace = X.trace := rfl

/-- swap the second components of a pair of pairs -/
def swapSnd : (m × n) × (m × n) → (m × n) × (m × n) := fun x => ((x.1.1, x.2.2), (x.2.1, x.1.2))

omit [Fintype m] [Fintype n] [DecidableEq m] [DecidableEq n] in
theorem swapSnd_invol : Function.Involutive (swapSnd : (m × n) × (m × n) → _) := fun _ => rfl

omit [DecidableEq m] [DecidableEq n] in
theorem trace_pTBp_mul [CommSemiring R] (A B : Matrix (m × n) (m × n) R) :
    (pTBp A * B).trace = (A * pTBp B).trace := by
  simp only [Matrix.trace, Matrix.diag, Matrix.mul_apply]
  rw [← Fintype.sum_prod_type' (f := fun i j => pTBp A i j * B j i),
    ← Fintype.sum_prod_type' (f := fun i j => A i j * pTBp B j i)]
  exact Fintype.sum_equiv swapSnd_invol.toPerm _ _ fun x => rfl

omit [Fintype m] [Fintype n] [DecidableEq m] [DecidableEq n] in
theorem pTBp_kronecker [Mul R] (A : Matrix m m R) (B : Matrix n n R) : pTBp (A ⊗ₖ B) = A ⊗ₖ Bᵀ := rfl

omit [DecidableEq m] in
theorem pTBp_left_mul [CommSemiring R] (A : Matrix m m R) (X : Matrix (m × n) (m × n) R) :
    pTBp ((A ⊗ₖ (1 : Matrix n n R)) * X) = (A ⊗ₖ (1 : Matrix n n R)) * pTBp X := by
  ext ⟨a, b⟩ ⟨a', b'⟩
  simp [pTBp, Matrix.mul_apply, Fintype.sum_prod_type, Matrix.one_apply, mul_ite, ite_mul]

omit [DecidableEq m] in
theorem pTBp_mul_left [CommSemiring R] (C : Matrix m m R) (X : Matrix (m × n) (m × n) R) :
    pTBp (X * (C ⊗ₖ (1 : Matrix n n R))) = pTBp X * (C ⊗ₖ (1 : Matrix n n R)) := by
  ext ⟨a, b⟩ ⟨a', b'⟩
  simp [pTBp, Matrix.mul_apply, Fintype.sum_prod_type, Matrix.one_apply, mul_ite]

omit [DecidableEq n] in
theorem pTBp_right_mul [CommSemiring R] (B : Matrix n n R) (X : Matrix (m × n) (m × n) R) :
    pTBp (((1 : Matrix m m R) ⊗ₖ B) * X) = pTBp X * ((1 : Matrix m m R) ⊗ₖ Bᵀ) := by
  ext ⟨a, b⟩ ⟨a', b'⟩
  simp [pTBp, Matrix.mul_apply, Fintype.sum_prod_type, Matrix.one_apply, mul_ite, ite_mul, mul_comm]

omit [DecidableEq n] in
theorem pTBp_mul_right [CommSemiring R] (D : Matrix n n R) (X : Matrix (m × n) (m × n) R) :
    pTBp (X * ((1 : Matrix m m R) ⊗ₖ D)) = ((1 : Matrix m m R) ⊗ₖ Dᵀ) * pTBp X := by
  ext ⟨a, b⟩ ⟨a', b'⟩
  simp [pTBp, Matrix.mul_apply, Fintype.sum_prod_type, Matrix.one_apply, mul_ite, ite_mul, mul_comm]

/-- `T_B((A ⊗ B) X (C ⊗ D)) = (A ⊗ Dᵀ) T_B(X) (C ⊗ Bᵀ)` -/
theorem pTBp_kron_mul_kron [CommSemiring R] (A C : Matrix m m R) (B D : Matrix n n R)
    (X : Matrix (m × n) (m × n) R) :
    pTBp ((A ⊗ₖ B) * X * (C ⊗ₖ D)) = (A ⊗ₖ Dᵀ) * pTBp X * (C ⊗ₖ Bᵀ) := by
  have hAB : A ⊗ₖ B = (A ⊗ₖ (1 : Matrix n n R)) * ((1 : Matrix m m R) ⊗ₖ B) := by
    rw [← Matrix.mul_kronecker_mul, Matrix.mul_one, Matrix.one_mul]
  have hCD : C ⊗ₖ D = ((1 : Matrix m m R) ⊗ₖ D) * (C ⊗ₖ (1 : Matrix n n R)) := by
    rw [← Matrix.mul_kronecker_mul, Matrix.mul_one, Matrix.one_mul]
  have hAD : A ⊗ₖ Dᵀ = (A ⊗ₖ (1 : Matrix n n R)) * ((1 : Matrix m m R) ⊗ₖ Dᵀ) := by
    rw [← Matrix.mul_kronecker_mul, Matrix.mul_one, Matrix.one_mul]
  have hCB : C ⊗ₖ Bᵀ = (C ⊗ₖ (1 : Matrix n n R)) * ((1 : Matrix m m R) ⊗ₖ Bᵀ) := by
    rw [← Matrix.mul_kronecker_mul, Matrix.mul_one, Matrix.one_mul]
  rw [hAB, hCD, hAD, hCB]
  simp only [Matrix.mul_assoc]
  rw [pTBp_left_mul, pTBp_right_mul]
  simp only [← Matrix.mul_assoc]
  rw [pTBp_mul_left, pTBp_mul_right]
  simp only [Matrix.mul_assoc]

end Prod

/-! ## Transport to composite indices `Fin (dA * dB)` -/

section FinLevel
variable {dA dB : Nat} {R : Type*}

/-- view a matrix on composite indices `a·dB + b` as a matrix on index pairs `(a, b)` -/
def toP (X : Matrix (Fin (dA * dB)) (Fin (dA * dB)) R) : Matrix (Fin dA × Fin dB) (Fin dA × Fin dB) R :=
  X.submatrix finProdFinEquiv finProdFinEquiv

/-- inverse of `toP` -/
def ofP (Z : Matrix (Fin dA × Fin dB) (Fin dA × Fin dB) R) : Matrix (Fin (dA * dB)) (Fin (dA * dB)) R :=
  Z.submatrix finProdFinEquiv.symm finProdFinEquiv.symm

@[simp] theorem toP_ofP (Z : Matrix (Fin dA × Fin dB) (Fin dA × Fin dB) R) : toP (ofP Z) = Z := by
  ext i j; simp only [toP, ofP, Matrix.submatrix_apply, Equiv.symm_apply_apply]
@[simp] theorem ofP_toP (X : Matrix (Fin (dA * dB)) (Fin (dA * dB)) R) : ofP (toP X) = X := by
  ext i j; simp only [toP, ofP, Matrix.submatrix_apply, Equiv.apply_symm_apply]

theorem ofP_mul [NonUnitalNonAssocSemiring R] (Z W : Matrix (Fin dA × Fin dB) (Fin dA × Fin dB) R) :
    ofP (Z * W) = ofP Z * ofP W := by
  unfold ofP; rw [Matrix.submatrix_mul_equiv]

theorem toP_mul [NonUnitalNonAssocSemiring R] (X Y : Matrix (Fin (dA * dB)) (Fin (dA * dB)) R) :
    toP (X * Y) = toP X * toP Y := by
  unfold toP; rw [Matrix.submatrix_mul_equiv]

theorem trace_ofP [AddCommMonoid R] (Z : Matrix (Fin dA × Fin dB) (Fin dA × Fin dB) R) :
    (ofP Z).trace = Z.trace := by
  simp only [Matrix.trace, Matrix.diag, ofP, Matrix.submatrix_apply]
  exact Fintype.sum_equiv finProdFinEquiv.symm _ _ fun _ => rfl

theorem ofP_one [Zero R] [One R] : ofP (1 : Matrix (Fin dA × Fin dB) (Fin dA × Fin dB) R) = 1 := by
  unfold ofP; exact Matrix.submatrix_one_equiv _

theorem ofP_conjTranspose [Star R] (Z : Matrix (Fin dA × Fin dB) (Fin dA × Fin dB) R) :
    ofP Zᴴ = (ofP Z)ᴴ := rfl

theorem ofP_transpose (Z : Matrix (Fin dA × Fin dB) (Fin dA × Fin dB) R) : ofP Zᵀ = (ofP Z)ᵀ := rfl

theorem ofP_posSemidef {Z : Matrix (Fin dA × Fin dB) (Fin dA × Fin dB) ℂ} :
    (ofP Z).PosSemidef ↔ Z.PosSemidef := Matrix.posSemidef_submatrix_equiv _

/-- partial transpose on the second party, composite indices -/
def pTBf (X : Matrix (Fin (dA * dB)) (Fin (dA * dB)) R) : Matrix (Fin (dA * dB)) (Fin (dA * dB)) R :=
  ofP (pTBp (toP X))

/-- partial transpose on the first party, composite indices -/
def pTAf (X : Matrix (Fin (dA * dB)) (Fin (dA * dB)) R) : Matrix (Fin (dA * dB)) (Fin (dA * dB)) R :=
  ofP (pTAp (toP X))

/-- partial transpose on party `sys` (`0` = first, otherwise second) -/
def pTf (sys : Nat) (X : Matrix (Fin (dA * dB)) (Fin (dA * dB)) R) :
    Matrix (Fin (dA * dB)) (Fin (dA * dB)) R :=
  if sys = 0 then pTAf X else pTBf X

/-- Kronecker product on composite indices -/
def kronF [Mul R] (A : Matrix (Fin dA) (Fin dA) R) (B : Matrix (Fin dB) (Fin dB) R) :
    Matrix (Fin (dA * dB)) (Fin (dA * dB)) R :=
  ofP (A ⊗ₖ B)

theorem pTBf_apply (X : Matrix (Fin (dA * dB)) (Fin (dA * dB)) R) (i j : Fin (dA * dB)) :
    pTBf X i j = X (finProdFinEquiv ((finProdFinEquiv.symm i).1, (finProdFinEquiv.symm j).2))
      (finProdFinEquiv ((finProdFinEquiv.symm j).1, (finProdFinEquiv.symm i).2)) := rfl

theorem pTAf_eq_transpose (X : Matrix (Fin (dA * dB)) (Fin (dA * dB)) R) : pTAf X = (pTBf X)ᵀ := rfl

theorem pTBf_add [Add R] (X Y : Matrix (Fin (dA * dB)) (Fin (dA * dB)) R) :
    pTBf (X + Y) = pTBf X + pTBf Y := rfl
theorem pTBf_sub [Sub R] (X Y : Matrix (Fin (dA * dB)) (Fin (dA * dB)) R) :
    pTBf (X - Y) = pTBf X - pTBf Y := rfl
theorem pTBf_smul {S : Type*} [SMul S R] (c : S) (X : Matrix (Fin (dA * dB)) (Fin (dA * dB)) R) :
    pTBf (c • X) = c • pTBf X := rfl
theorem pTBf_zero [Zero R] : pTBf (0 : Matrix (Fin (dA * dB)) (Fin (dA * dB)) R) = 0 := rfl

theorem pTBf_sum [AddCommMonoid R] {ι : Type*} (s : Finset ι)
    (X : ι → Matrix (Fin (dA * dB)) (Fin (dA * dB)) R) : pTBf (∑ i ∈ s, X i) = ∑ i ∈ s, pTBf (X i) := by
  ext a b
  simp only [pTBf_apply, Matrix.sum_apply]

theorem pTBf_pTBf (X : Matrix (Fin (dA * dB)) (Fin (dA * dB)) R) : pTBf (pTBf X) = X := by
  unfold pTBf; rw [toP_ofP, pTBp_pTBp, ofP_toP]

theorem trace_pTBf [AddCommMonoid R] (X : Matrix (Fin (dA * dB)) (Fin (dA * dB)) R) :
    (pTBf X).trace = X.trace := by
  unfold pTBf; rw [trace_ofP, trace_pTBp, ← trace_ofP, ofP_toP]

theorem trace_pTBf_mul [CommSemiring R] (A B : Matrix (Fin (dA * dB)) (Fin (dA * dB)) R) :
    (pTBf A * B).trace = (A * pTBf B).trace := by
  unfold pTBf
  conv_lhs => rw [← ofP_toP B, ← ofP_mul, trace_ofP, trace_pTBp_mul]
  conv_rhs => rw [← ofP_toP A, ← ofP_mul, trace_ofP]

theorem pTBf_kronF [Mul R] (A : Matrix (Fin dA) (Fin dA) R) (B : Matrix (Fin dB) (Fin dB) R) :
    pTBf (kronF A B) = kronF A Bᵀ := by
  unfold pTBf kronF; rw [toP_ofP, pTBp_kronecker]

theorem kronF_mul [CommSemiring R] (A C : Matrix (Fin dA) (Fin dA) R) (B D : Matrix (Fin dB) (Fin dB) R) :
    kronF A B * kronF C D = kronF (A * C) (B * D) := by
  unfold kronF; rw [← ofP_mul, ← Matrix.mul_kronecker_mul]

theorem kronF_one [MulZeroOneClass R] :
    kronF (1 : Matrix (Fin dA) (Fin dA) R) (1 : Matrix (Fin dB) (Fin dB) R) = 1 := by
  unfold kronF; rw [Matrix.one_kronecker_one, ofP_one]

theorem kronF_conjTranspose (A : Matrix (Fin dA) (Fin dA) ℂ) (B : Matrix (Fin dB) (Fin dB) ℂ) :
    (kronF A B)ᴴ = kronF Aᴴ Bᴴ := by
  unfold kronF; rw [← ofP_conjTranspose, Matrix.conjTranspose_kronecker]

theorem kronF_posSemidef {A : Matrix (Fin dA) (Fin dA) ℂ} {B : Matrix (Fin dB) (Fin dB) ℂ}
    (hA : A.PosSemidef) (hB : B.PosSemidef) : (kronF A B).PosSemidef :=
  ofP_posSemidef.mpr (hA.kronecker hB)

theorem pTBf_kron_mul_kron [CommSemiring R] (A C : Matrix (Fin dA) (Fin dA) R)
    (B D : Matrix (Fin dB) (Fin dB) R) (X : Matrix (Fin (dA * dB)) (Fin (dA * dB)) R) :
    pTBf (kronF A B * X * kronF C D) = kronF A Dᵀ * pTBf X * kronF C Bᵀ := by
  unfold pTBf kronF
  rw [toP_mul, toP_mul, toP_ofP, toP_ofP, pTBp_kron_mul_kron, ofP_mul, ofP_mul]

end FinLevel


/-! ## Bridge from the executable partial transposes -/

section Bridge
open EMat
variable {dA dB : Nat}

theorem mkIdx_eq (a : Fin dA) (b : Fin dB) : mkIdx a b = finProdFinEquiv (a, b) := by
  apply Fin.ext
  simp only [mkIdx, finProdFinEquiv_apply_val]
  rw [Nat.mul_comm, Nat.add_comm]

theorem fstI_eq (i : Fin (dA * dB)) : fstI i = (finProdFinEquiv.symm i).1 := rfl
theorem sndI_eq (i : Fin (dA * dB)) : sndI i = (finProdFinEquiv.symm i).2 := rfl

theorem toM_pTB (X : EMat (dA * dB) (dA * dB)) : (pTB X).toM = pTBf X.toM := by
  ext i j
  simp only [pTB, toM_apply, get_ofFn, pTBf_apply, mkIdx_eq, fstI_eq, sndI_eq]

theorem toM_pTA (X : EMat (dA * dB) (dA * dB)) : (pTA X).toM = pTAf X.toM := by
  ext i j
  simp only [pTA, toM_apply, get_ofFn, pTAf_eq_transpose, Matrix.transpose_apply, pTBf_apply, mkIdx_eq,
    fstI_eq, sndI_eq]

theorem toM_pT (sys : Nat) (X : EMat (dA * dB) (dA * dB)) : (pT sys X).toM = pTf sys X.toM := by
  unfold pT pTf
  split
  · exact toM_pTA X
  · exact toM_pTB X

end Bridge

/-! ## Weak duality for any trace-self-adjoint positivity constraint -/

section WeakDuality
variable {ι κ : Type*} [Fintype ι] [DecidableEq ι] [Fintype κ]

/-- PPT-type weak duality: `T` is any map with `tr(T(A)·B) = tr(A·T(B))` -/
theorem ppt_weak_duality_gen (T : Matrix ι ι ℂ → Matrix ι ι ℂ)
    (hT : ∀ A B, (T A * B).trace = (A * T B).trace)
    (ρ : κ → Matrix ι ι ℂ) (p : κ → ℝ) (M Q : κ → Matrix ι ι ℂ) (Y : Matrix ι ι ℂ)
    (hM : ∀ i, (M i).PosSemidef) (hsum : ∑ i, M i = 1) (hTM : ∀ i, (T (M i)).PosSemidef)
    (hQ : ∀ i, (Q i).PosSemidef) (hS : ∀ i, (Y - (p i : ℂ) • ρ i - T (Q i)).PosSemidef) :
    ∑ i, p i * (ρ i * M i).trace.re ≤ Y.trace.re := by
  have h1 : ∀ i, p i * (ρ i * M i).trace.re ≤ (Y * M i).trace.re := by
    intro i
    have ha := psd_trace_mul_nonneg (hS i) (hM i)
    have hb := psd_trace_mul_nonneg (hQ i) (hTM i)
    rw [← hT] at hb
    simp only [Matrix.sub_mul, Matrix.trace_sub, Complex.sub_re, Toq.Discrim.re_trace_smul_mul] at ha
    linarith
  have h2 : Y.trace = ∑ i, (Y * M i).trace := by
    rw [← Matrix.trace_sum, ← Matrix.mul_sum, hsum, Matrix.mul_one]
  rw [h2, Complex.re_sum]
  exact Finset.sum_le_sum fun i _ => h1 i

end WeakDuality

/-! ## Soundness of the core checkers -/

section Sound
open EMat Toq.Discrim
variable {dA dB : Nat}

theorem lens4Ok_iff (k a b c d : Nat) : lens4Ok k a b c d = true ↔ a = k ∧ b = k ∧ c = k ∧ d = k := by
  simp [lens4Ok, and_assoc]

theorem checkPPTPrimalFn_sound (sys k : Nat) (ρ : Fin k → EMat (dA * dB) (dA * dB)) (p : Fin k → Rat)
    (M LM LT : Fin k → EMat (dA * dB) (dA * dB)) (lo : Rat)
    (h : checkPPTPrimalFn sys k ρ p M LM LT = some lo) :
    (∀ i, (M i).toM.PosSemidef) ∧ ∑ i, (M i).toM = 1 ∧ (∀ i, (pTf sys (M i).toM).PosSemidef) ∧
      ∑ i, ((p i : Rat) : ℝ) * ((ρ i).toM * (M i).toM).trace.re = (lo : ℝ) := by
  unfold checkPPTPrimalFn at h
  split at h
  · next hc =>
    simp only [Bool.and_eq_true, povmPsdOk, povmSumOk, pptPsdOk, allFin_iff] at hc
    obtain ⟨⟨hpsd, hsum⟩, hppt⟩ := hc
    refine ⟨fun i => psdCert_sound _ _ (hpsd i), ?_, fun i => ?_, ?_⟩
    · rw [← toM_sumMats, beq_sound _ _ hsum, toM_one]
    · rw [← toM_pT]; exact psdCert_sound _ _ (hppt i)
    · rw [← minErrValueFn_cast]
      exact congrArg _ (Option.some.inj h)
  · exact absurd h (by simp)

theorem checkPPTDualFn_sound (sys k : Nat) (ρ : Fin k → EMat (dA * dB) (dA * dB)) (p : Fin k → Rat)
    (Y : EMat (dA * dB) (dA * dB)) (Q LQ LS : Fin k → EMat (dA * dB) (dA * dB)) (hi : Rat)
    (h : checkPPTDualFn sys k ρ p Y Q LQ LS = some hi) :
    (∀ i, (Q i).toM.PosSemidef) ∧
      (∀ i, (Y.toM - (((p i : Rat) : ℝ) : ℂ) • (ρ i).toM - pTf sys (Q i).toM).PosSemidef) ∧
      Y.toM.trace.re = (hi : ℝ) := by
  unfold checkPPTDualFn at h
  split at h
  · next hc =>
    simp only [Bool.and_eq_true, povmPsdOk, pptSlackOk, allFin_iff] at hc
    obtain ⟨⟨-, hq⟩, hs⟩ := hc
    refine ⟨fun i => psdCert_sound _ _ (hq i), fun i => ?_, ?_⟩
    · have := psdCert_sound _ _ (hs i)
      rwa [toM_sub, toM_sub, toM_smul, toM_pT] at this
    · rw [← re_trace]
      exact congrArg _ (Option.some.inj h)
  · exact absurd h (by simp)

end Sound

/-! ## Level 2 of the symmetric-extension hierarchy (index triples `(x, y, y₂)`), product operators are feasible -/

section SymExt2
variable {m n : Type*} [Fintype m] [Fintype n] [DecidableEq m] [DecidableEq n]

/-- trace out the last factor of `X ⊗ Y ⊗ Y₂` -/
def ptrace3 (X : Matrix (m × n × n) (m × n × n) ℂ) : Matrix (m × n) (m × n) ℂ :=
  fun i j => ∑ c, X (i.1, i.2, c) (j.1, j.2, c)

/-- the operator exchanging the two copies `Y ⊗ Y₂` -/
def swapOp (n : Type*) [DecidableEq n] : Matrix (n × n) (n × n) ℂ := fun i j => if i.1 = j.2 ∧ i.2 = j.1 then 1 else 0

/-- projection onto the symmetric subspace of `Y ⊗ Y₂` -/
noncomputable def symProj2 (n : Type*) [DecidableEq n] : Matrix (n × n) (n × n) ℂ := (1 / 2 : ℂ) • (1 + swapOp n)

/-- partial transpose on the first factor `X` of `X ⊗ Y ⊗ Y₂` -/
def pT3X (X : Matrix (m × n × n) (m × n × n) ℂ) : Matrix (m × n × n) (m × n × n) ℂ :=
  fun i j => X (j.1, i.2) (i.1, j.2)

/-- partial transpose on the last factor `Y₂` of `X ⊗ Y ⊗ Y₂` -/
def pT3Y2 (X : Matrix (m × n × n) (m × n × n) ℂ) : Matrix (m × n × n) (m × n × n) ℂ :=
  fun i j => X (i.1, i.2.1, j.2.2) (j.1, j.2.1, i.2.2)

/-- the constraints toqito's `symmetric_extension_hierarchy(level=2)` puts on one measurement operator `M`:
a positive semidefinite extension `X` on `X ⊗ Y ⊗ Y₂` with marginal `M`, supported on the symmetric subspace
of the two copies, with positive semidefinite partial transposes on `X` and on `Y₂` -/
def SymExt2 (M : Matrix (m × n) (m × n) ℂ) : Prop :=
  ∃ X : Matrix (m × n × n) (m × n × n) ℂ, X.PosSemidef ∧ ptrace3 X = M ∧
    ((1 : Matrix m m ℂ) ⊗ₖ symProj2 n) * X * ((1 : Matrix m m ℂ) ⊗ₖ symProj2 n) = X ∧
    (pT3X X).PosSemidef ∧ (pT3Y2 X).PosSemidef

omit [Fintype m] [DecidableEq m] in
theorem swapOp_mul (Z : Matrix (n × n) (n × n) ℂ) (i j : n × n) :
    (swapOp n * Z) i j = Z (i.2, i.1) j := by
  simp only [Matrix.mul_apply, swapOp]
  rw [Finset.sum_eq_single (i.2, i.1)]
  · simp
  · intro b _ hb
    have : ¬ (i.1 = b.2 ∧ i.2 = b.1) := by
      rintro ⟨h1, h2⟩; exact hb (Prod.ext h2.symm h1.symm)
    simp [this]
  · simp

omit [Fintype m] [DecidableEq m] in
theorem mul_swapOp (Z : Matrix (n × n) (n × n) ℂ) (i j : n × n) :
    (Z * swapOp n) i j = Z i (j.2, j.1) := by
  simp only [Matrix.mul_apply, swapOp]
  rw [Finset.sum_eq_single (j.2, j.1)]
  · simp
  · intro b _ hb
    have : ¬ (b.1 = j.2 ∧ b.2 = j.1) := by
      rintro ⟨h1, h2⟩; exact hb (Prod.ext h1 h2)
    simp [this]
  · simp

omit [Fintype m] [DecidableEq m] in
/-- `b bᴴ ⊗ b bᴴ` is fixed by the projection onto the symmetric subspace -/
theorem symProj2_rankOne (b : n → ℂ) :
    symProj2 n * (vecMulVec b (star b) ⊗ₖ vecMulVec b (star b)) * symProj2 n
      = vecMulVec b (star b) ⊗ₖ vecMulVec b (star b) := by
  have hl : swapOp n * (vecMulVec b (star b) ⊗ₖ vecMulVec b (star b))
      = vecMulVec b (star b) ⊗ₖ vecMulVec b (star b) := by
    ext i j
    rw [swapOp_mul]
    simp only [Matrix.kroneckerMap_apply, Matrix.vecMulVec_apply]
    ring
  have hr : (vecMulVec b (star b) ⊗ₖ vecMulVec b (star b)) * swapOp n
      = vecMulVec b (star b) ⊗ₖ vecMulVec b (star b) := by
    ext i j
    rw [mul_swapOp]
    simp only [Matrix.kroneckerMap_apply, Matrix.vecMulVec_apply]
    ring
  have h2 : ((1 / 2 : ℂ) * 2) = 1 := by norm_num
  have hl' : symProj2 n * (vecMulVec b (star b) ⊗ₖ vecMulVec b (star b))
      = vecMulVec b (star b) ⊗ₖ vecMulVec b (star b) := by
    unfold symProj2
    rw [Matrix.smul_mul, Matrix.add_mul, Matrix.one_mul, hl, ← two_smul ℂ, smul_smul, h2, one_smul]
  have hr' : (vecMulVec b (star b) ⊗ₖ vecMulVec b (star b)) * symProj2 n
      = vecMulVec b (star b) ⊗ₖ vecMulVec b (star b) := by
    unfold symProj2
    rw [Matrix.mul_smul, Matrix.mul_add, Matrix.mul_one, hr, ← two_smul ℂ, smul_smul, h2, one_smul]
  rw [hl', hr']

omit [Fintype m] [DecidableEq m] [DecidableEq n] in
theorem ptrace3_add (X Y : Matrix (m × n × n) (m × n × n) ℂ) : ptrace3 (X + Y) = ptrace3 X + ptrace3 Y := by
  ext i j; simp [ptrace3, Finset.sum_add_distrib]

theorem symExt2_zero : SymExt2 (0 : Matrix (m × n) (m × n) ℂ) :=
  ⟨0, Matrix.PosSemidef.zero, by ext i j; simp [ptrace3], by simp,
    by rw [show pT3X (0 : Matrix (m × n × n) (m × n × n) ℂ) = 0 from rfl]; exact Matrix.PosSemidef.zero,
    by rw [show pT3Y2 (0 : Matrix (m × n × n) (m × n × n) ℂ) = 0 from rfl]; exact Matrix.PosSemidef.zero⟩

theorem symExt2_add {M N : Matrix (m × n) (m × n) ℂ} (hM : SymExt2 M) (hN : SymExt2 N) : SymExt2 (M + N) := by
  obtain ⟨X, hX, hXM, hXs, hX1, hX2⟩ := hM
  obtain ⟨Y, hY, hYN, hYs, hY1, hY2⟩ := hN
  refine ⟨X + Y, hX.add hY, by rw [ptrace3_add, hXM, hYN], ?_, ?_, ?_⟩
  · rw [Matrix.mul_add, Matrix.add_mul, hXs, hYs]
  · rw [show pT3X (X + Y) = pT3X X + pT3X Y from rfl]; exact hX1.add hY1
  · rw [show pT3Y2 (X + Y) = pT3Y2 X + pT3Y2 Y from rfl]; exact hX2.add hY2

theorem symExt2_sum {ι : Type*} (s : Finset ι) (M : ι → Matrix (m × n) (m × n) ℂ)
    (h : ∀ j ∈ s, SymExt2 (M j)) : SymExt2 (∑ j ∈ s, M j) := by
  classical
  induction s using Finset.induction_on with
  | empty => simpa using symExt2_zero
  | insert a s ha ih =>
    rw [Finset.sum_insert ha]
    exact symExt2_add (h a (Finset.mem_insert_self a s)) (ih fun j hj => h j (Finset.mem_insert_of_mem hj))

/-- a product operator `A ⊗ b bᴴ` (`A ⪰ 0`, `‖b‖ = 1`) has the level-2 extension `A ⊗ b bᴴ ⊗ b bᴴ` -/
theorem symExt2_product {A : Matrix m m ℂ} (hA : A.PosSemidef) (b : n → ℂ) (hb : b ⬝ᵥ star b = 1) :
    SymExt2 (A ⊗ₖ vecMulVec b (star b)) := by
  have hB : (vecMulVec b (star b)).PosSemidef := Matrix.posSemidef_vecMulVec_self_star b
  refine ⟨A ⊗ₖ (vecMulVec b (star b) ⊗ₖ vecMulVec b (star b)), hA.kronecker (hB.kronecker hB), ?_, ?_, ?_, ?_⟩
  · ext i j
    simp only [ptrace3, Matrix.kroneckerMap_apply, Matrix.vecMulVec_apply, Pi.star_apply]
    rw [← Finset.mul_sum, ← Finset.mul_sum]
    have : ∑ c, b c * star (b c) = 1 := by simpa [dotProduct] using hb
    rw [this, mul_one]
  · rw [← Matrix.mul_kronecker_mul, ← Matrix.mul_kronecker_mul, Matrix.one_mul, Matrix.mul_one, symProj2_rankOne]
  · have : pT3X (A ⊗ₖ (vecMulVec b (star b) ⊗ₖ vecMulVec b (star b)))
        = Aᵀ ⊗ₖ (vecMulVec b (star b) ⊗ₖ vecMulVec b (star b)) := rfl
    rw [this]; exact hA.transpose.kronecker (hB.kronecker hB)
  · have : pT3Y2 (A ⊗ₖ (vecMulVec b (star b) ⊗ₖ vecMulVec b (star b)))
        = A ⊗ₖ (vecMulVec b (star b) ⊗ₖ (vecMulVec b (star b))ᵀ) := rfl
    rw [this]; exact hA.kronecker (hB.kronecker hB.transpose)

end SymExt2
end Toq.PPTDisc
