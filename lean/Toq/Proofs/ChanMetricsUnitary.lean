import Toq.Proofs.ChanMetricsBounds
import Toq.Proofs.MetricsPure
import Toq.Proofs.MetricsFvdG
/-!
# Helper lemmas for C20: Choi matrices of maps `X ↦ K X Kᴴ` and the two-unitary diamond distance

toqito's Choi convention (`kraus_to_choi`): `J = Σ_ab E_ab ⊗ Φ(E_ab)`, so for `Φ(X) = K X Kᴴ`
`J_{(a,y),(b,z)} = K_{ya} · conj K_{zb}`, i.e. `J = vec(K) vec(K)ᴴ` with `vec(K)_{(a,y)} = K_{ya}`.
-/

open Matrix Kronecker
open scoped ComplexOrder MatrixOrder

set_option linter.unusedSectionVars false

namespace Toq.ChanMetrics
open Toq.Metrics

section Kraus
variable {ι κ : Type*} [Fintype ι] [DecidableEq ι] [Fintype κ] [DecidableEq κ]

/-- `vec(K)` for a Kraus operator `K : X → Y` in toqito's Choi convention: entry `(a, y)` is `K_{ya}` -/
def vecK (K : Matrix κ ι ℂ) : ι × κ → ℂ := fun p => K p.2 p.1

/-- the Choi matrix of `X ↦ K X Kᴴ` -/
def choiK (K : Matrix κ ι ℂ) : Matrix (ι × κ) (ι × κ) ℂ := vecMulVec (vecK K) (star (vecK K))

theorem choiK_apply (K : Matrix κ ι ℂ) (a b : ι) (y z : κ) : choiK K (a, y) (b, z) = K y a * star (K z b) := rfl

theorem star_vecK_dotProduct (A B : Matrix κ ι ℂ) : star (vecK A) ⬝ᵥ vecK B = (Aᴴ * B).trace := by
  simp only [dotProduct, Fintype.sum_prod_type, vecK, Matrix.trace, Matrix.diag_apply, Matrix.mul_apply,
    Matrix.conjTranspose_apply, Pi.star_apply]

theorem ptr2_vecMulVec_vecK (A B : Matrix κ ι ℂ) :
    ptr2 (vecMulVec (vecK A) (star (vecK B))) = (Bᴴ * A)ᵀ := by
  ext a b
  simp only [ptr2_apply, Matrix.vecMulVec_apply, vecK, Pi.star_apply, Matrix.transpose_apply, Matrix.mul_apply,
    Matrix.conjTranspose_apply]
  exact Finset.sum_congr rfl fun y _ => mul_comm _ _

theorem choiK_posSemidef (K : Matrix κ ι ℂ) : (choiK K).PosSemidef := Matrix.posSemidef_vecMulVec_self_star _

theorem choiK_isHermitian (K : Matrix κ ι ℂ) : (choiK K).IsHermitian := (choiK_posSemidef K).isHermitian

theorem ptr2_choiK (K : Matrix κ ι ℂ) : ptr2 (choiK K) = (Kᴴ * K)ᵀ := ptr2_vecMulVec_vecK K K

/-- the Choi matrix of an isometry channel is trace preserving: `Tr_Y J = 1` -/
theorem ptr2_choiK_of_isometry {K : Matrix κ ι ℂ} (hK : Kᴴ * K = 1) : ptr2 (choiK K) = 1 := by
  rw [ptr2_choiK, hK, Matrix.transpose_one]

/-- a global phase does not change the channel -/
theorem choiK_smul_phase (ω : ℂ) (hω : ω * star ω = 1) (K : Matrix κ ι ℂ) : choiK (ω • K) = choiK K := by
  ext ⟨a, y⟩ ⟨b, z⟩
  simp only [choiK_apply, Matrix.smul_apply, smul_eq_mul, star_mul']
  calc ω * K y a * (star ω * star (K z b)) = (ω * star ω) * (K y a * star (K z b)) := by ring
    _ = _ := by rw [hω, one_mul]

theorem vecK_mul (K : Matrix κ ι ℂ) (B : Matrix ι ι ℂ) :
    vecK (K * B) = (Bᵀ ⊗ₖ (1 : Matrix κ κ ℂ)) *ᵥ vecK K := by
  ext ⟨a, y⟩
  simp only [vecK, Matrix.mul_apply, Matrix.mulVec, dotProduct, Fintype.sum_prod_type, Matrix.kroneckerMap_apply,
    Matrix.transpose_apply, Matrix.one_apply]
  refine Finset.sum_congr rfl fun b _ => ?_
  rw [Finset.sum_eq_single y]
  · simp [mul_comm]
  · intro z _ hz; simp [Ne.symm hz]
  · intro h; exact absurd (Finset.mem_univ y) h

/-- `J_{K B} = (Bᵀ ⊗ 1) J_K (Bᵀ ⊗ 1)ᴴ` -/
theorem choiK_mul (K : Matrix κ ι ℂ) (B : Matrix ι ι ℂ) :
    choiK (K * B) = (Bᵀ ⊗ₖ (1 : Matrix κ κ ℂ)) * choiK K * (Bᵀ ⊗ₖ (1 : Matrix κ κ ℂ))ᴴ := by
  rw [choiK, vecK_mul, Matrix.star_mulVec, choiK, Matrix.mul_vecMulVec, Matrix.vecMulVec_mul]

/-- `tr(J_A J_B) = |tr(Aᴴ B)|²` -/
theorem trace_choiK_mul_choiK (A B : Matrix κ ι ℂ) :
    (choiK A * choiK B).trace = (Aᴴ * B).trace * star (Aᴴ * B).trace := by
  rw [choiK, choiK, Matrix.vecMulVec_mul_vecMulVec, Matrix.trace_vecMulVec, dotProduct_smul, smul_eq_mul,
    star_vecK_dotProduct]
  congr 1
  rw [← star_vecK_dotProduct, Matrix.star_dotProduct, star_star]
  exact dotProduct_comm _ _

theorem trace_choiK_mul_choiK_re (A B : Matrix κ ι ℂ) :
    (choiK A * choiK B).trace.re = ‖(Aᴴ * B).trace‖ ^ 2 := by
  rw [trace_choiK_mul_choiK, Complex.star_def, Complex.mul_conj, Complex.ofReal_re, Complex.normSq_eq_norm_sq]

theorem isPureProj_choiK {K : Matrix κ ι ℂ} (hK : (Kᴴ * K).trace = 1) : IsPureProj (choiK K) :=
  isPureProj_vecMulVec _ (by rw [star_vecK_dotProduct, hK])

end Kraus

/-! ## The dual certificate for two isometry channels -/

section TwoUnitary
variable {ι κ : Type*} [Fintype ι] [DecidableEq ι] [Fintype κ] [DecidableEq κ]

/-- expansion of `|p u − q v⟩⟨p u − q v|` for real `p`, `q` -/
theorem vecMulVec_comb {m : Type*} (u v : m → ℂ) (p q : ℝ) :
    vecMulVec ((p : ℂ) • u - (q : ℂ) • v) (star ((p : ℂ) • u - (q : ℂ) • v))
      = ((p * p : ℝ) : ℂ) • vecMulVec u (star u) + ((q * q : ℝ) : ℂ) • vecMulVec v (star v)
        - ((p * q : ℝ) : ℂ) • (vecMulVec u (star v) + vecMulVec v (star u)) := by
  ext i j
  simp only [Matrix.vecMulVec_apply, Pi.sub_apply, Pi.smul_apply, Pi.star_apply, smul_eq_mul, star_sub, star_mul',
    Complex.star_def, Complex.conj_ofReal, Matrix.sub_apply, Matrix.add_apply, Matrix.smul_apply]
  push_cast
  ring

/-- **Dual certificate for two isometry channels**: if the Hermitian part of `W = Uᴴ V` is at least `δ·1` with
`0 ≤ δ < 1`, then `Y = (uuᴴ + vvᴴ)/s − (δ/s)(uvᴴ + vuᴴ)` (`u = vec U`, `v = vec V`, `s = √(1 − δ²)`) satisfies
`Y ⪰ ±(J_U − J_V)` and `Tr_Y Y ⪯ 2s·1`. -/
theorem two_unitary_dual_cert {U V : Matrix κ ι ℂ} (hU : Uᴴ * U = 1) (hV : Vᴴ * V = 1) {δ : ℝ} (h0 : 0 ≤ δ)
    (h1 : δ < 1)
    (hH : (((1 / 2 : ℝ) : ℂ) • (Uᴴ * V + (Uᴴ * V)ᴴ) - (δ : ℂ) • (1 : Matrix ι ι ℂ)).PosSemidef) :
    ∃ Y : Matrix (ι × κ) (ι × κ) ℂ, (Y - (choiK U - choiK V)).PosSemidef ∧ (Y + (choiK U - choiK V)).PosSemidef ∧
      (((2 * Real.sqrt (1 - δ ^ 2) : ℝ) : ℂ) • (1 : Matrix ι ι ℂ) - ptr2 Y).PosSemidef := by
  set s := Real.sqrt (1 - δ ^ 2) with hs
  have hpos : 0 < 1 - δ ^ 2 := by nlinarith
  have hs0 : 0 < s := Real.sqrt_pos.mpr hpos
  have hss : s * s = 1 - δ ^ 2 := Real.mul_self_sqrt hpos.le
  have hs1 : s ≤ 1 := by nlinarith
  set α : ℝ := s⁻¹ with hα
  set g : ℝ := δ * s⁻¹ with hg
  have hαs : α * s = 1 := inv_mul_cancel₀ hs0.ne'
  have hα1 : 1 ≤ α := by rw [hα]; exact (one_le_inv₀ hs0).mpr hs1
  have hg0 : 0 ≤ g := mul_nonneg h0 (inv_nonneg.mpr hs0.le)
  have hgs : g * s = δ := by rw [hg, mul_assoc, inv_mul_cancel₀ hs0.ne', mul_one]
  have hgg : (α - 1) * (α + 1) = g ^ 2 := by
    have : (g * s) ^ 2 = δ ^ 2 := by rw [hgs]
    have h2 : (α * s) ^ 2 = 1 := by rw [hαs]; norm_num
    have hs2 : s ^ 2 ≠ 0 := pow_ne_zero 2 hs0.ne'
    have e1 : g ^ 2 * s ^ 2 = δ ^ 2 := by rw [← mul_pow]; exact this
    have e2 : α ^ 2 * s ^ 2 = 1 := by rw [← mul_pow]; exact h2
    have e3 : s ^ 2 = 1 - δ ^ 2 := by rw [sq]; exact hss
    have : ((α - 1) * (α + 1) - g ^ 2) * s ^ 2 = 0 := by nlinarith
    rcases mul_eq_zero.mp this with h | h
    · linarith
    · exact absurd h hs2
  set p : ℝ := Real.sqrt (α - 1) with hp
  set q : ℝ := Real.sqrt (α + 1) with hq
  have hpp : p * p = α - 1 := Real.mul_self_sqrt (by linarith)
  have hqq : q * q = α + 1 := Real.mul_self_sqrt (by linarith)
  have hpq : p * q = g := by
    rw [hp, hq, ← Real.sqrt_mul (by linarith), hgg, Real.sqrt_sq hg0]
  have hcs : 2 * s = 2 * α - 2 * g * δ := by
    have : (2 * s - (2 * α - 2 * g * δ)) * s = 0 := by
      have e3 : s ^ 2 = 1 - δ ^ 2 := by rw [sq]; exact hss
      nlinarith
    rcases mul_eq_zero.mp this with h | h
    · linarith
    · exact absurd h hs0.ne'
  set u := vecK U with hu
  set v := vecK V with hv
  refine ⟨(α : ℂ) • (choiK U + choiK V) - (g : ℂ) • (vecMulVec u (star v) + vecMulVec v (star u)), ?_, ?_, ?_⟩
  · have e : (α : ℂ) • (choiK U + choiK V) - (g : ℂ) • (vecMulVec u (star v) + vecMulVec v (star u))
        - (choiK U - choiK V)
        = vecMulVec ((p : ℂ) • u - (q : ℂ) • v) (star ((p : ℂ) • u - (q : ℂ) • v)) := by
      rw [vecMulVec_comb, hpp, hqq, hpq, choiK, choiK]
      push_cast
      module
    rw [e]
    exact Matrix.posSemidef_vecMulVec_self_star _
  · have e : (α : ℂ) • (choiK U + choiK V) - (g : ℂ) • (vecMulVec u (star v) + vecMulVec v (star u))
        + (choiK U - choiK V)
        = vecMulVec ((q : ℂ) • u - (p : ℂ) • v) (star ((q : ℂ) • u - (p : ℂ) • v)) := by
      rw [vecMulVec_comb, hpp, hqq, mul_comm q p, hpq, choiK, choiK]
      push_cast
      module
    rw [e]
    exact Matrix.posSemidef_vecMulVec_self_star _
  · have hW : Vᴴ * U = (Uᴴ * V)ᴴ := by rw [Matrix.conjTranspose_mul, Matrix.conjTranspose_conjTranspose]
    have e : ((2 * s : ℝ) : ℂ) • (1 : Matrix ι ι ℂ)
        - ptr2 ((α : ℂ) • (choiK U + choiK V) - (g : ℂ) • (vecMulVec u (star v) + vecMulVec v (star u)))
        = ((2 * g : ℝ) : ℂ) • (((1 / 2 : ℝ) : ℂ) • (Uᴴ * V + (Uᴴ * V)ᴴ) - (δ : ℂ) • (1 : Matrix ι ι ℂ))ᵀ := by
      rw [ptr2_sub, ptr2_smul, ptr2_smul, ptr2_add, ptr2_add, ptr2_choiK, ptr2_choiK, hU, hV, hu, hv,
        ptr2_vecMulVec_vecK, ptr2_vecMulVec_vecK, hW, hcs, Matrix.transpose_sub, Matrix.transpose_smul,
        Matrix.transpose_smul, Matrix.transpose_add, Matrix.transpose_one]
      push_cast
      module
    rw [e]
    exact hH.transpose.smul (by exact_mod_cast (by linarith : (0 : ℝ) ≤ 2 * g))

/-- if the Hermitian part of `Uᴴ V` is at least `1` (two isometries), then `U = V` -/
theorem eq_of_herm_ge_one {U V : Matrix κ ι ℂ} (hU : Uᴴ * U = 1) (hV : Vᴴ * V = 1)
    (hH : (((1 / 2 : ℝ) : ℂ) • (Uᴴ * V + (Uᴴ * V)ᴴ) - (1 : Matrix ι ι ℂ)).PosSemidef) : U = V := by
  have hW : Vᴴ * U = (Uᴴ * V)ᴴ := by rw [Matrix.conjTranspose_mul, Matrix.conjTranspose_conjTranspose]
  have e : (U - V)ᴴ * (U - V) = (-2 : ℂ) • (((1 / 2 : ℝ) : ℂ) • (Uᴴ * V + (Uᴴ * V)ᴴ) - (1 : Matrix ι ι ℂ)) := by
    rw [Matrix.conjTranspose_sub, Matrix.sub_mul, Matrix.mul_sub, Matrix.mul_sub, hU, hV, hW]
    push_cast
    module
  have hN := hH.trace_nonneg
  have hM := (Matrix.posSemidef_conjTranspose_mul_self (U - V)).trace_nonneg
  rw [e, Matrix.trace_smul, smul_eq_mul] at hM
  set t := (((1 / 2 : ℝ) : ℂ) • (Uᴴ * V + (Uᴴ * V)ᴴ) - (1 : Matrix ι ι ℂ)).trace with ht
  have ht0 : t = 0 := by
    rw [Complex.nonneg_iff] at hN hM
    apply Complex.ext
    · simp only [Complex.mul_re, Complex.neg_re, Complex.neg_im, Complex.re_ofNat, Complex.im_ofNat, Complex.zero_re] at hM ⊢
      nlinarith [hN.1, hM.1, hN.2]
    · exact hN.2.symm
  have hz : ((U - V)ᴴ * (U - V)).trace = 0 := by rw [e, Matrix.trace_smul, ← ht, ht0, smul_zero]
  have := Matrix.trace_conjTranspose_mul_self_eq_zero_iff.mp hz
  exact sub_eq_zero.mp this

end TwoUnitary

/-! ## Nearest point of a convex set, positivity from the numerical range -/

section Numerical
variable {ι : Type*} [Fintype ι] [DecidableEq ι]

/-- if `c` is a nearest point to the origin on the segment from `c` to `z`, then `Re(z c̄) ≥ |c|²` -/
theorem re_mul_conj_ge_of_nearest {c z : ℂ}
    (h : ∀ t : ℝ, 0 ≤ t → t ≤ 1 → ‖c‖ ≤ ‖c + (t : ℂ) * (z - c)‖) : ‖c‖ ^ 2 ≤ (z * star c).re := by
  set a : ℝ := ((z - c) * star c).re with ha
  set b : ℝ := ‖z - c‖ ^ 2 with hb
  have hb0 : 0 ≤ b := sq_nonneg _
  have hexp : ∀ t : ℝ, ‖c + (t : ℂ) * (z - c)‖ ^ 2 = ‖c‖ ^ 2 + t ^ 2 * b + 2 * t * a := by
    intro t
    rw [← Complex.normSq_eq_norm_sq, ← Complex.normSq_eq_norm_sq, Complex.normSq_add, Complex.normSq_mul,
      Complex.normSq_ofReal, hb, ← Complex.normSq_eq_norm_sq, ha]
    have : (c * (starRingEnd ℂ) ((t : ℂ) * (z - c))).re = t * ((z - c) * star c).re := by
      simp only [map_mul, Complex.conj_ofReal, Complex.star_def, Complex.mul_re, Complex.mul_im, Complex.ofReal_re,
        Complex.ofReal_im, Complex.conj_re, Complex.conj_im]
      ring
    rw [this]
    ring
  have key : ∀ t : ℝ, 0 ≤ t → t ≤ 1 → 0 ≤ t ^ 2 * b + 2 * t * a := by
    intro t ht0 ht1
    have h1 := h t ht0 ht1
    have h2 : ‖c‖ ^ 2 ≤ ‖c + (t : ℂ) * (z - c)‖ ^ 2 := by
      exact pow_le_pow_left₀ (norm_nonneg _) h1 2
    rw [hexp] at h2
    linarith
  have ha0 : 0 ≤ a := by
    by_contra hneg
    rw [not_le] at hneg
    set t : ℝ := min 1 (-a / (b + 1)) with ht
    have hb1 : 0 < b + 1 := by linarith
    have hq : 0 < -a / (b + 1) := div_pos (by linarith) hb1
    have ht0 : 0 < t := lt_min one_pos hq
    have ht1 : t ≤ 1 := min_le_left _ _
    have ht2 : t ≤ -a / (b + 1) := min_le_right _ _
    have ht3 : t * (b + 1) ≤ -a := by rwa [le_div_iff₀ hb1] at ht2
    have := key t ht0.le ht1
    nlinarith
  have : a = (z * star c).re - ‖c‖ ^ 2 := by
    rw [ha, sub_mul, Complex.sub_re, Complex.star_def, Complex.mul_conj, Complex.ofReal_re,
      Complex.normSq_eq_norm_sq]
  linarith

/-- a Hermitian matrix with `Re tr(ρ H) ≥ 0` for every density operator `ρ` is positive semidefinite -/
theorem posSemidef_of_forall_density {H : Matrix ι ι ℂ} (hH : H.IsHermitian)
    (h : ∀ ρ : Matrix ι ι ℂ, ρ.PosSemidef → ρ.trace = 1 → 0 ≤ (ρ * H).trace.re) : H.PosSemidef := by
  obtain ⟨U, hU, hU', hHe⟩ := exists_conjDiag hH
  rw [hHe]
  refine conjDiag_posSemidef U fun i => ?_
  have hρ : (conjDiag U (ind i)).PosSemidef := conjDiag_posSemidef U fun j => by unfold ind; split_ifs <;> norm_num
  have htr : (conjDiag U (ind i)).trace = 1 := by
    rw [conjDiag_trace hU, ← Complex.ofReal_sum]
    simp [ind]
  have := h _ hρ htr
  rw [hHe] at this
  rwa [trace_ind_mul_conjDiag hU] at this

end Numerical

/-! ## Numerical range (density-operator form) of `W`: supporting line at the nearest point, diagonalised `W` -/

section NumRange
variable {ι : Type*} [Fintype ι] [DecidableEq ι]

/-- `Re tr(ρ Mᴴ) = Re tr(ρ M)` for Hermitian `ρ` -/
theorem re_trace_mul_conjTranspose_of_herm {ρ M : Matrix ι ι ℂ} (hρ : ρ.IsHermitian) :
    (ρ * Mᴴ).trace.re = (ρ * M).trace.re := by
  have h : (ρ * Mᴴ).trace = star (ρ * M).trace := by
    rw [← Matrix.trace_conjTranspose, Matrix.conjTranspose_mul, hρ.eq, Matrix.trace_mul_comm]
  rw [h]; simp

/-- **Supporting line at the nearest point of the numerical range**: if `tr(ρ₀ W)` has the smallest modulus `δ > 0`
among all `tr(ρ W)` (`ρ` density operators), then for the phase `ω = conj(tr(ρ₀ W))/δ` the Hermitian part of `ω W` is at
least `δ·1`. -/
theorem herm_part_ge_of_nearest {W ρ₀ : Matrix ι ι ℂ} (hρ₀ : ρ₀.PosSemidef) (ht₀ : ρ₀.trace = 1) {δ : ℝ} (hδ : 0 < δ)
    (hc : ‖(ρ₀ * W).trace‖ = δ)
    (hmin : ∀ ρ : Matrix ι ι ℂ, ρ.PosSemidef → ρ.trace = 1 → δ ≤ ‖(ρ * W).trace‖) :
    ∃ ω : ℂ, ω * star ω = 1 ∧
      (((1 / 2 : ℝ) : ℂ) • (ω • W + (ω • W)ᴴ) - (δ : ℂ) • (1 : Matrix ι ι ℂ)).PosSemidef := by
  set c := (ρ₀ * W).trace with hcdef
  have hδc : (δ : ℂ) ≠ 0 := by exact_mod_cast hδ.ne'
  refine ⟨star c / (δ : ℂ), ?_, ?_⟩
  · have hsw : star (star c / (δ : ℂ)) = c / (δ : ℂ) := by
      rw [star_div₀, star_star, Complex.star_def, Complex.conj_ofReal]
    rw [hsw, div_mul_div_comm, mul_comm (star c) c, Complex.star_def, Complex.mul_conj, Complex.normSq_eq_norm_sq, hc]
    push_cast
    field_simp
  · set ω : ℂ := star c / (δ : ℂ) with hω
    have hHerm : (((1 / 2 : ℝ) : ℂ) • (ω • W + (ω • W)ᴴ) - (δ : ℂ) • (1 : Matrix ι ι ℂ)).IsHermitian := by
      have hM : (ω • W + (ω • W)ᴴ).IsHermitian := by
        unfold Matrix.IsHermitian
        rw [Matrix.conjTranspose_add, Matrix.conjTranspose_conjTranspose, add_comm]
      have hr : ∀ r : ℝ, star (r : ℂ) = (r : ℂ) := fun r => by rw [Complex.star_def, Complex.conj_ofReal]
      unfold Matrix.IsHermitian
      rw [Matrix.conjTranspose_sub, Matrix.conjTranspose_smul, hM.eq, hr]
      congr 1
      rw [Matrix.conjTranspose_smul, Matrix.conjTranspose_one, hr]
    refine posSemidef_of_forall_density hHerm fun ρ hρ htr => ?_
    -- the segment from ρ₀ to ρ stays inside the densities
    have hseg : ∀ t : ℝ, 0 ≤ t → t ≤ 1 → ‖c‖ ≤ ‖c + (t : ℂ) * ((ρ * W).trace - c)‖ := by
      intro t ht0 ht1
      have hσ : (((1 - t : ℝ) : ℂ) • ρ₀ + (t : ℂ) • ρ).PosSemidef :=
        (hρ₀.smul (by exact_mod_cast (by linarith : (0 : ℝ) ≤ 1 - t))).add (hρ.smul (by exact_mod_cast ht0))
      have hσt : (((1 - t : ℝ) : ℂ) • ρ₀ + (t : ℂ) • ρ).trace = 1 := by
        rw [Matrix.trace_add, Matrix.trace_smul, Matrix.trace_smul, ht₀, htr]
        push_cast
        simp
      have := hmin _ hσ hσt
      rw [Matrix.add_mul, Matrix.smul_mul, Matrix.smul_mul, Matrix.trace_add, Matrix.trace_smul, Matrix.trace_smul,
        ← hcdef] at this
      rw [hc]
      refine this.trans (le_of_eq ?_)
      congr 1
      push_cast
      simp only [smul_eq_mul]
      ring
    have hnear := re_mul_conj_ge_of_nearest hseg
    rw [hc] at hnear
    -- Re(ω z) ≥ δ
    have hωz : δ ≤ (ω * (ρ * W).trace).re := by
      have e : ω * (ρ * W).trace = ((ρ * W).trace * star c) / (δ : ℂ) := by rw [hω]; ring
      rw [e, Complex.div_ofReal_re, le_div_iff₀ hδ]
      nlinarith
    have e1 : (ρ * (ω • W)).trace.re = (ω * (ρ * W).trace).re := by
      rw [Matrix.mul_smul, Matrix.trace_smul, smul_eq_mul]
    rw [Matrix.mul_sub, Matrix.trace_sub, Matrix.mul_smul, Matrix.trace_smul, Matrix.mul_add, Matrix.trace_add,
      Matrix.mul_smul ρ (δ : ℂ), Matrix.trace_smul, Matrix.mul_one, htr, Complex.sub_re, smul_eq_mul,
      Complex.re_ofReal_mul, Complex.add_re, re_trace_mul_conjTranspose_of_herm hρ.isHermitian, e1, smul_eq_mul,
      mul_one, Complex.ofReal_re]
    linarith

/-- `tr(ρ · S diag(λ) Sᴴ) = Σ_i (Sᴴ ρ S)_{ii} λ_i` -/
theorem trace_mul_diagonalised (ρ S : Matrix ι ι ℂ) (lam : ι → ℂ) :
    (ρ * (S * diagonal lam * Sᴴ)).trace = ∑ i, (Sᴴ * ρ * S) i i * lam i := by
  have : ρ * (S * diagonal lam * Sᴴ) = (ρ * S * diagonal lam) * Sᴴ := by simp only [Matrix.mul_assoc]
  rw [this, Matrix.trace_mul_comm, ← Matrix.mul_assoc, ← Matrix.mul_assoc]
  simp only [Matrix.trace, Matrix.diag_apply, Matrix.mul_diagonal]

end NumRange

section Overlap
variable {ι κ : Type*} [Fintype ι] [DecidableEq ι] [Fintype κ] [DecidableEq κ]

/-- for isometries `U`, `V` and `ρ = B Bᴴ` of trace one: `J_{UB}`, `J_{VB}` are pure states with overlap
`tr(J_{UB} J_{VB}) = |tr(ρ Uᴴ V)|²` -/
theorem overlap_choiK {U V : Matrix κ ι ℂ} (hU : Uᴴ * U = 1) (hV : Vᴴ * V = 1) {B : Matrix ι ι ℂ}
    (hB : (B * Bᴴ).trace = 1) :
    IsPureProj (choiK (U * B)) ∧ IsPureProj (choiK (V * B)) ∧
      (choiK (U * B) * choiK (V * B)).trace.re = ‖(B * Bᴴ * (Uᴴ * V)).trace‖ ^ 2 := by
  have hiso : ∀ K : Matrix κ ι ℂ, Kᴴ * K = 1 → ((K * B)ᴴ * (K * B)).trace = 1 := by
    intro K hK
    have : (K * B)ᴴ * (K * B) = Bᴴ * (Kᴴ * K) * B := by
      rw [Matrix.conjTranspose_mul]; simp only [Matrix.mul_assoc]
    rw [this, hK, Matrix.mul_one, Matrix.trace_mul_comm, hB]
  refine ⟨isPureProj_choiK (hiso U hU), isPureProj_choiK (hiso V hV), ?_⟩
  rw [trace_choiK_mul_choiK_re]
  congr 2
  have : (U * B)ᴴ * (V * B) = Bᴴ * ((Uᴴ * V) * B) := by
    rw [Matrix.conjTranspose_mul]; simp only [Matrix.mul_assoc]
  rw [this]
  calc (Bᴴ * (Uᴴ * V * B)).trace = ((Uᴴ * V * B) * Bᴴ).trace := Matrix.trace_mul_comm _ _
    _ = ((Uᴴ * V) * (B * Bᴴ)).trace := by rw [Matrix.mul_assoc]
    _ = (B * Bᴴ * (Uᴴ * V)).trace := Matrix.trace_mul_comm _ _

/-- `|tr(ρ Uᴴ V)| ≤ 1` for isometries `U`, `V` and a density operator `ρ = B Bᴴ` -/
theorem norm_trace_density_mul_le_one {U V : Matrix κ ι ℂ} (hU : Uᴴ * U = 1) (hV : Vᴴ * V = 1) {B : Matrix ι ι ℂ}
    (hB : (B * Bᴴ).trace = 1) : ‖(B * Bᴴ * (Uᴴ * V)).trace‖ ≤ 1 := by
  obtain ⟨hP, hQ, hov⟩ := overlap_choiK hU hV hB
  have h := psd_trace_mul_nonneg hP.posSemidef (posSemidef_one_sub_of_idem hQ.herm hQ.idem)
  rw [Matrix.mul_sub, Matrix.mul_one, Matrix.trace_sub, Complex.sub_re, hP.trace_one, Complex.one_re, hov] at h
  have h2 : ‖(B * Bᴴ * (Uᴴ * V)).trace‖ ^ 2 ≤ 1 ^ 2 := by linarith
  exact (abs_le_of_sq_le_sq' h2 zero_le_one).2

end Overlap

section Sqrt
variable {ι : Type*} [Fintype ι] [DecidableEq ι]

/-- a positive semidefinite matrix is `B Bᴴ` (with `B` its square root) -/
theorem exists_mul_conjTranspose_of_posSemidef {ρ : Matrix ι ι ℂ} (hρ : ρ.PosSemidef) :
    ∃ B : Matrix ι ι ℂ, ρ = B * Bᴴ := by
  have hS : (CFC.sqrt ρ).PosSemidef := (CFC.sqrt_nonneg ρ).posSemidef
  refine ⟨CFC.sqrt ρ, ?_⟩
  rw [hS.isHermitian.eq]
  exact (CFC.sqrt_mul_sqrt_self ρ hρ.nonneg).symm

end Sqrt

section Compose
variable {ι κ : Type*} [Fintype ι] [DecidableEq ι] [Fintype κ] [DecidableEq κ]

theorem vecK_mul_left (B : Matrix κ κ ℂ) (K : Matrix κ ι ℂ) :
    vecK (B * K) = ((1 : Matrix ι ι ℂ) ⊗ₖ B) *ᵥ vecK K := by
  ext ⟨a, y⟩
  simp only [vecK, Matrix.mul_apply, Matrix.mulVec, dotProduct, Fintype.sum_prod_type, Matrix.kroneckerMap_apply,
    Matrix.one_apply]
  rw [Finset.sum_eq_single a]
  · simp
  · intro b _ hb; simp [Ne.symm hb]
  · intro h; exact absurd (Finset.mem_univ a) h

/-- composing `X ↦ K X Kᴴ` with `X ↦ A X Aᴴ` before and `X ↦ B X Bᴴ` after conjugates the Choi matrix by `Aᵀ ⊗ B` -/
theorem choiK_mul_mul (B : Matrix κ κ ℂ) (K : Matrix κ ι ℂ) (A : Matrix ι ι ℂ) :
    choiK (B * K * A) = (Aᵀ ⊗ₖ B) * choiK K * (Aᵀ ⊗ₖ B)ᴴ := by
  have e : Aᵀ ⊗ₖ B = (Aᵀ ⊗ₖ (1 : Matrix κ κ ℂ)) * ((1 : Matrix ι ι ℂ) ⊗ₖ B) := by
    rw [← Matrix.mul_kronecker_mul, Matrix.mul_one, Matrix.one_mul]
  rw [choiK, vecK_mul, vecK_mul_left, Matrix.mulVec_mulVec, ← e, Matrix.star_mulVec, choiK, Matrix.mul_vecMulVec,
    Matrix.vecMulVec_mul]

end Compose

section MaxEig
variable {n : Type*} [Fintype n] [DecidableEq n]

/-- for a Hermitian `T` and an index `i₀` of a largest eigenvalue `c`: `c·1 ⪰ T` and a density operator attains `tr(ρ T) = c` -/
theorem max_eigenvalue_cert {T : Matrix n n ℂ} (hT : T.IsHermitian) (i₀ : n)
    (hmax : ∀ i, hT.eigenvalues i ≤ hT.eigenvalues i₀) :
    (((hT.eigenvalues i₀ : ℝ) : ℂ) • (1 : Matrix n n ℂ) - T).PosSemidef ∧
      ∃ ρ : Matrix n n ℂ, ρ.PosSemidef ∧ ρ.trace = 1 ∧ (ρ * T).trace.re = hT.eigenvalues i₀ := by
  obtain ⟨U, hU, hU', hTe⟩ := exists_conjDiag hT
  constructor
  · rw [← conjDiag_const hU']
    conv => enter [1, 2]; rw [hTe]
    rw [conjDiag_sub]
    exact conjDiag_posSemidef U fun i => by linarith [hmax i]
  · refine ⟨conjDiag U (ind i₀), conjDiag_posSemidef U fun j => by unfold ind; split_ifs <;> norm_num, ?_, ?_⟩
    · rw [conjDiag_trace hU, ← Complex.ofReal_sum]
      simp [ind]
    · conv_lhs => rw [hTe]
      exact trace_ind_mul_conjDiag hU _ i₀

end MaxEig

end Toq.ChanMetrics
