import Toq.Proofs.PPTDisc
import Toq.Spec.Combinat
import Mathlib.Algebra.BigOperators.Fin
import Mathlib.Analysis.InnerProductSpace.Positive
/-!
# Helper lemmas for C12, part 2: the symmetric-extension hierarchy at EVERY level

`symmetric_extension_hierarchy(states, probs, level, dim=[dX, dY])` attaches to every measurement operator `M` (on `X ⊗ Y`)
an operator `x_var` on `X ⊗ Y^{⊗ level}` (`dim_list = [dX, dY, …, dY]`, the copies of `Y` are the last tensor factors) with

* `partial_trace(x_var, [2, …, level], dim_list) == M`           (trace out every copy but the first),
* `x_var ⪰ 0`, `M ⪰ 0`,
* `(1 ⊗ Π_sym) x_var (1 ⊗ Π_sym) == x_var`, `Π_sym = symmetric_projection(dY, level)`,
* `partial_transpose(x_var, [0], dim_list) ⪰ 0`,
* `partial_transpose(x_var, [t + 1], dim_list) ⪰ 0` for the copies `t = 1 … level − 1`.

Here an operator on `X ⊗ Y^{⊗ L}` is a matrix indexed by `HIdx m d L = m × (Fin L → Fin d)` (`m` the index set of `X`, the digit
vector lists the copies of `Y` in toqito's order).  `SymExtAt ℓ M` is the constraint set of level `ℓ + 1`; this file proves

* level one is the PPT condition (`symExtAt_zero_iff`),
* a feasible point of level `ℓ + 2` restricts (trace over the last copy) to one of level `ℓ + 1` (`SymExtAt.pred`),
* product operators `A ⊗ b bᴴ` are feasible at every level (`symExtAt_product`), feasibility is additive (`symExtAt_sum`),
* the support condition `(1 ⊗ Π_sym) X (1 ⊗ Π_sym) = X` is invariance of the entries under permuting the copies on either
  side (`sym_iff_isBoseSym`); `Π_sym` is the projector `symSpec` of C18 (`symPC_eq_symSpec`).
-/

open Matrix Equiv
open scoped ComplexOrder MatrixOrder Kronecker
set_option linter.unusedSectionVars false

namespace Toq.PPTDisc

section Hier
variable {m : Type*} [Fintype m] [DecidableEq m] {d : ℕ}

/-- index set of `X ⊗ Y^{⊗ L}` -/
abbrev HIdx (m : Type*) (d L : ℕ) := m × (Fin L → Fin d)

/-- append the digit of one more copy of `Y` -/
def snocI {L : ℕ} (i : HIdx m d L) (c : Fin d) : HIdx m d (L + 1) :=
  (i.1, Fin.snoc (α := fun _ => Fin d) i.2 c)

/-- trace out the last copy of `Y` -/
def margLast {L : ℕ} (X : Matrix (HIdx m d (L + 1)) (HIdx m d (L + 1)) ℂ) :
    Matrix (HIdx m d L) (HIdx m d L) ℂ :=
  fun i j => ∑ c, X (snocI i c) (snocI j c)

/-- trace out every copy of `Y` but the first (`partial_trace(x_var, [2, …, level], dim_list)`) -/
def margTo1 : (ℓ : ℕ) → Matrix (HIdx m d (ℓ + 1)) (HIdx m d (ℓ + 1)) ℂ → Matrix (HIdx m d 1) (HIdx m d 1) ℂ
  | 0, X => X
  | ℓ + 1, X => margTo1 ℓ (margLast X)

/-- the index `(x, y)` of `X ⊗ Y` as an index of `X ⊗ Y^{⊗ 1}` -/
def oneCopy (i : m × Fin d) : HIdx m d 1 := (i.1, fun _ => i.2)

/-- `oneCopy` as an equivalence -/
def oneCopyEquiv : m × Fin d ≃ HIdx m d 1 where
  toFun := oneCopy
  invFun i := (i.1, i.2 0)
  left_inv i := rfl
  right_inv i := by
    refine Prod.ext rfl (funext fun t => ?_)
    rw [Subsingleton.elim t 0]; rfl

/-- an operator on `X ⊗ Y^{⊗ 1}` read as an operator on `X ⊗ Y` -/
def toMN (Z : Matrix (HIdx m d 1) (HIdx m d 1) ℂ) : Matrix (m × Fin d) (m × Fin d) ℂ :=
  Z.submatrix oneCopy oneCopy

/-- partial transpose on `X` -/
def pTX {L : ℕ} (X : Matrix (HIdx m d L) (HIdx m d L) ℂ) : Matrix (HIdx m d L) (HIdx m d L) ℂ :=
  fun i j => X (j.1, i.2) (i.1, j.2)

/-- partial transpose on copy `t` of `Y` -/
def pTY {L : ℕ} (t : Fin L) (X : Matrix (HIdx m d L) (HIdx m d L) ℂ) : Matrix (HIdx m d L) (HIdx m d L) ℂ :=
  fun i j => X (i.1, Function.update i.2 t (j.2 t)) (j.1, Function.update j.2 t (i.2 t))

/-- the operator permuting the copies of `Y`: entry `(f, g)` is `1` iff `f = g ∘ σ` (C18's `permMat`) -/
def permC (d L : ℕ) (σ : Perm (Fin L)) : Matrix (Fin L → Fin d) (Fin L → Fin d) ℂ :=
  fun f g => if f = g ∘ σ then 1 else 0

/-- projector onto the symmetric subspace of `L` copies of `ℂ^d`: `(1/L!) Σ_σ W_σ` -/
noncomputable def symPC (d L : ℕ) : Matrix (Fin L → Fin d) (Fin L → Fin d) ℂ :=
  ((L.factorial : ℂ)⁻¹) • ∑ σ : Perm (Fin L), permC d L σ

/-- it is the complex image of C18's specification of `symmetric_projection(d, L)` -/
theorem symPC_eq_symSpec (d L : ℕ) :
    symPC d L = (Toq.Combinat.Spec.symSpec d L).map (fun q : ℚ => (q : ℂ)) := by
  ext f g
  simp only [symPC, Toq.Combinat.Spec.symSpec, Matrix.map_apply, Matrix.smul_apply, Matrix.sum_apply, permC,
    Toq.Combinat.Spec.permMat, smul_eq_mul]
  push_cast
  congr 1
  refine Finset.sum_congr rfl fun σ _ => ?_
  split <;> simp

/-- entries invariant under permuting the copies of `Y` in the row index and in the column index -/
def IsBoseSym {L : ℕ} (X : Matrix (HIdx m d L) (HIdx m d L) ℂ) : Prop :=
  ∀ (σ : Perm (Fin L)) (a : m) (f : Fin L → Fin d) (j : HIdx m d L),
    X (a, f ∘ σ) j = X (a, f) j ∧ X j (a, f ∘ σ) = X j (a, f)

/-! ### the support condition is invariance under permutations -/

theorem one_kron_mul {L : ℕ} (B : Matrix (Fin L → Fin d) (Fin L → Fin d) ℂ)
    (X : Matrix (HIdx m d L) (HIdx m d L) ℂ) (a : m) (f : Fin L → Fin d) (j : HIdx m d L) :
    (((1 : Matrix m m ℂ) ⊗ₖ B) * X) (a, f) j = ∑ g, B f g * X (a, g) j := by
  simp only [Matrix.mul_apply, Fintype.sum_prod_type, Matrix.kroneckerMap_apply, Matrix.one_apply, ite_mul,
    one_mul, zero_mul]
  rw [Finset.sum_eq_single a]
  · simp
  · intro b _ hb
    simp [Ne.symm hb]
  · simp

theorem mul_one_kron {L : ℕ} (B : Matrix (Fin L → Fin d) (Fin L → Fin d) ℂ)
    (X : Matrix (HIdx m d L) (HIdx m d L) ℂ) (i : HIdx m d L) (a : m) (g : Fin L → Fin d) :
    (X * ((1 : Matrix m m ℂ) ⊗ₖ B)) i (a, g) = ∑ f, X i (a, f) * B f g := by
  simp only [Matrix.mul_apply, Fintype.sum_prod_type, Matrix.kroneckerMap_apply, Matrix.one_apply, ite_mul,
    one_mul, zero_mul, mul_ite, mul_zero]
  rw [Finset.sum_eq_single a]
  · simp
  · intro b _ hb
    simp [hb]
  · simp

theorem symPC_left {L : ℕ} (X : Matrix (HIdx m d L) (HIdx m d L) ℂ) (a : m) (f : Fin L → Fin d)
    (j : HIdx m d L) :
    (((1 : Matrix m m ℂ) ⊗ₖ symPC d L) * X) (a, f) j
      = ((L.factorial : ℂ)⁻¹) * ∑ σ : Perm (Fin L), X (a, f ∘ σ) j := by
  rw [one_kron_mul]
  simp only [symPC, Matrix.smul_apply, Matrix.sum_apply, smul_eq_mul, mul_assoc, Finset.sum_mul]
  rw [← Finset.mul_sum, Finset.sum_comm]
  congr 1
  rw [← Equiv.sum_comp (Equiv.inv (Perm (Fin L)))]
  refine Finset.sum_congr rfl fun σ _ => ?_
  rw [Finset.sum_eq_single (f ∘ σ)]
  · have : f = (f ∘ ⇑σ) ∘ ⇑(σ⁻¹) := by
      ext t; simp
    simp only [Equiv.inv_apply, permC]
    rw [if_pos this, one_mul]
  · intro g _ hg
    have : ¬ f = g ∘ ⇑(σ⁻¹) := by
      intro h
      apply hg
      rw [h]; ext t; simp
    simp only [Equiv.inv_apply, permC]
    rw [if_neg this, zero_mul]
  · simp

theorem symPC_right {L : ℕ} (X : Matrix (HIdx m d L) (HIdx m d L) ℂ) (i : HIdx m d L) (a : m)
    (g : Fin L → Fin d) :
    (X * ((1 : Matrix m m ℂ) ⊗ₖ symPC d L)) i (a, g)
      = ((L.factorial : ℂ)⁻¹) * ∑ σ : Perm (Fin L), X i (a, g ∘ σ) := by
  rw [mul_one_kron]
  simp only [symPC, Matrix.smul_apply, Matrix.sum_apply, smul_eq_mul, Finset.mul_sum]
  rw [Finset.sum_comm]
  refine Finset.sum_congr rfl fun σ _ => ?_
  rw [Finset.sum_eq_single (g ∘ σ)]
  · simp only [permC, if_true]
    ring
  · intro f _ hf
    simp only [permC]
    rw [if_neg hf]; ring
  · simp

theorem fact_inv_mul_card (L : ℕ) (z : ℂ) :
    ((L.factorial : ℂ)⁻¹) * ∑ _σ : Perm (Fin L), z = z := by
  rw [Finset.sum_const, Finset.card_univ, Fintype.card_perm, Fintype.card_fin, nsmul_eq_mul, ← mul_assoc,
    inv_mul_cancel₀ (by exact_mod_cast Nat.factorial_ne_zero L), one_mul]

/-- `(1 ⊗ Π_sym) X (1 ⊗ Π_sym) = X` iff the entries of `X` do not change when the copies of `Y` are permuted in the
row index, or in the column index -/
theorem sym_iff_isBoseSym {L : ℕ} (X : Matrix (HIdx m d L) (HIdx m d L) ℂ) :
    ((1 : Matrix m m ℂ) ⊗ₖ symPC d L) * X * ((1 : Matrix m m ℂ) ⊗ₖ symPC d L) = X ↔ IsBoseSym X := by
  constructor
  · intro h σ a f j
    constructor
    · -- X = P (X P)
      have e : ∀ f', X (a, f') j = (((1 : Matrix m m ℂ) ⊗ₖ symPC d L)
          * (X * ((1 : Matrix m m ℂ) ⊗ₖ symPC d L))) (a, f') j := by
        intro f'; rw [← Matrix.mul_assoc, h]
      rw [e (f ∘ σ), e f, symPC_left, symPC_left]
      congr 1
      exact Equiv.sum_comp (Equiv.mulLeft σ)
        (fun τ : Perm (Fin L) => (X * ((1 : Matrix m m ℂ) ⊗ₖ symPC d L)) (a, f ∘ τ) j)
    · obtain ⟨b, g⟩ := j
      have e : ∀ f', X (b, g) (a, f') = ((((1 : Matrix m m ℂ) ⊗ₖ symPC d L) * X)
          * ((1 : Matrix m m ℂ) ⊗ₖ symPC d L)) (b, g) (a, f') := by
        intro f'; rw [h]
      rw [e (f ∘ σ), e f, symPC_right, symPC_right]
      congr 1
      exact Equiv.sum_comp (Equiv.mulLeft σ)
        (fun τ : Perm (Fin L) => (((1 : Matrix m m ℂ) ⊗ₖ symPC d L) * X) (b, g) (a, f ∘ τ))
  · intro h
    have h1 : ((1 : Matrix m m ℂ) ⊗ₖ symPC d L) * X = X := by
      ext ⟨a, f⟩ j
      rw [symPC_left]
      simp only [(h _ a f j).1]
      exact fact_inv_mul_card L _
    have h2 : X * ((1 : Matrix m m ℂ) ⊗ₖ symPC d L) = X := by
      ext i ⟨a, g⟩
      rw [symPC_right]
      simp only [(h _ a g i).2]
      exact fact_inv_mul_card L _
    rw [h1, h2]

/-! ### tracing out the last copy -/

theorem margLast_add {L : ℕ} (X Y : Matrix (HIdx m d (L + 1)) (HIdx m d (L + 1)) ℂ) :
    margLast (X + Y) = margLast X + margLast Y := by
  ext i j; simp [margLast, Finset.sum_add_distrib]

theorem margLast_zero {L : ℕ} : margLast (0 : Matrix (HIdx m d (L + 1)) (HIdx m d (L + 1)) ℂ) = 0 := by
  ext i j; simp [margLast]

theorem margTo1_add : ∀ (ℓ : ℕ) (X Y : Matrix (HIdx m d (ℓ + 1)) (HIdx m d (ℓ + 1)) ℂ),
    margTo1 ℓ (X + Y) = margTo1 ℓ X + margTo1 ℓ Y
  | 0, _, _ => rfl
  | ℓ + 1, X, Y => by
    show margTo1 ℓ (margLast (X + Y)) = margTo1 ℓ (margLast X) + margTo1 ℓ (margLast Y)
    rw [margLast_add, margTo1_add ℓ]

theorem margTo1_zero : ∀ (ℓ : ℕ), margTo1 ℓ (0 : Matrix (HIdx m d (ℓ + 1)) (HIdx m d (ℓ + 1)) ℂ) = 0
  | 0 => rfl
  | ℓ + 1 => by
    show margTo1 ℓ (margLast 0) = 0
    rw [margLast_zero, margTo1_zero ℓ]

/-- the partial trace of a positive semidefinite operator is positive semidefinite -/
theorem margLast_posSemidef {L : ℕ} {X : Matrix (HIdx m d (L + 1)) (HIdx m d (L + 1)) ℂ}
    (hX : X.PosSemidef) : (margLast X).PosSemidef := by
  have : margLast X = ∑ c : Fin d, X.submatrix (fun i => snocI i c) (fun i => snocI i c) := by
    ext i j; simp [margLast, Matrix.sum_apply]
  rw [this]
  exact Matrix.posSemidef_sum _ fun c _ => hX.submatrix _

theorem pTX_margLast {L : ℕ} (X : Matrix (HIdx m d (L + 1)) (HIdx m d (L + 1)) ℂ) :
    pTX (margLast X) = margLast (pTX X) := rfl

theorem pTY_margLast {L : ℕ} (t : Fin L) (X : Matrix (HIdx m d (L + 1)) (HIdx m d (L + 1)) ℂ) :
    pTY t (margLast X) = margLast (pTY t.castSucc X) := by
  ext i j
  simp only [pTY, margLast, snocI, Fin.snoc_update, Fin.snoc_castSucc]

/-- the permutation of `L + 1` copies that permutes the first `L` by `σ` and fixes the last -/
def extendLast {L : ℕ} (σ : Perm (Fin L)) : Perm (Fin (L + 1)) where
  toFun := Fin.lastCases (Fin.last L) (fun t => (σ t).castSucc)
  invFun := Fin.lastCases (Fin.last L) (fun t => (σ.symm t).castSucc)
  left_inv t := by
    cases t using Fin.lastCases with
    | last => simp
    | cast t => simp
  right_inv t := by
    cases t using Fin.lastCases with
    | last => simp
    | cast t => simp

theorem snoc_comp_extendLast {L : ℕ} (σ : Perm (Fin L)) (f : Fin L → Fin d) (c : Fin d) :
    (Fin.snoc (α := fun _ => Fin d) f c : Fin (L + 1) → Fin d) ∘ extendLast σ
      = Fin.snoc (α := fun _ => Fin d) (f ∘ σ) c := by
  ext t
  cases t using Fin.lastCases with
  | last => simp [extendLast]
  | cast t => simp [extendLast]

theorem IsBoseSym.margLast {L : ℕ} {X : Matrix (HIdx m d (L + 1)) (HIdx m d (L + 1)) ℂ}
    (h : IsBoseSym X) : IsBoseSym (margLast X) := by
  intro σ a f j
  constructor
  · refine Finset.sum_congr rfl fun c _ => ?_
    have := (h (extendLast σ) a (Fin.snoc (α := fun _ => Fin d) f c) (snocI j c)).1
    rw [snoc_comp_extendLast] at this
    exact this
  · refine Finset.sum_congr rfl fun c _ => ?_
    have := (h (extendLast σ) a (Fin.snoc (α := fun _ => Fin d) f c) (snocI j c)).2
    rw [snoc_comp_extendLast] at this
    exact this

/-! ### the constraint set of one level -/

/-- the constraints `symmetric_extension_hierarchy(level = ℓ + 1)` puts on one measurement operator `M` (besides `M ⪰ 0`):
an extension to `X ⊗ Y^{⊗(ℓ+1)}` that is positive semidefinite, has marginal `M` on `X ⊗ Y`, is supported on the symmetric
subspace of the copies, and has positive semidefinite partial transposes on `X` and on each of the copies `2 … ℓ + 1` -/
def SymExtAt (ℓ : ℕ) (M : Matrix (m × Fin d) (m × Fin d) ℂ) : Prop :=
  ∃ X : Matrix (HIdx m d (ℓ + 1)) (HIdx m d (ℓ + 1)) ℂ, X.PosSemidef ∧ toMN (margTo1 ℓ X) = M ∧
    ((1 : Matrix m m ℂ) ⊗ₖ symPC d (ℓ + 1)) * X * ((1 : Matrix m m ℂ) ⊗ₖ symPC d (ℓ + 1)) = X ∧
    (pTX X).PosSemidef ∧ ∀ t : Fin (ℓ + 1), t ≠ 0 → (pTY t X).PosSemidef

/-- **monotonicity**: tracing out the last copy maps a feasible extension of level `ℓ + 2` to one of level `ℓ + 1` -/
theorem SymExtAt.pred {ℓ : ℕ} {M : Matrix (m × Fin d) (m × Fin d) ℂ} (h : SymExtAt (ℓ + 1) M) :
    SymExtAt ℓ M := by
  obtain ⟨X, hX, hM, hs, hx, hy⟩ := h
  refine ⟨margLast X, margLast_posSemidef hX, hM, ?_, ?_, fun t ht => ?_⟩
  · exact (sym_iff_isBoseSym _).mpr ((sym_iff_isBoseSym X).mp hs).margLast
  · rw [pTX_margLast]; exact margLast_posSemidef hx
  · rw [pTY_margLast]
    refine margLast_posSemidef (hy t.castSucc ?_)
    intro h0
    apply ht
    exact Fin.castSucc_injective _ (by rw [h0]; rfl)

theorem SymExtAt.of_le {ℓ ℓ' : ℕ} (hl : ℓ ≤ ℓ') {M : Matrix (m × Fin d) (m × Fin d) ℂ}
    (h : SymExtAt ℓ' M) : SymExtAt ℓ M := by
  induction hl with
  | refl => exact h
  | step _ ih => exact ih h.pred

/-- **level one is the PPT condition** (for a positive semidefinite `M`) -/
theorem symExtAt_zero_iff (M : Matrix (m × Fin d) (m × Fin d) ℂ) :
    SymExtAt 0 M ↔ M.PosSemidef ∧ (pTAp M).PosSemidef := by
  have hsub : ∀ Z : Matrix (HIdx m d 1) (HIdx m d 1) ℂ, toMN Z = Z.submatrix oneCopyEquiv oneCopyEquiv :=
    fun _ => rfl
  constructor
  · rintro ⟨X, hX, hM, -, hx, -⟩
    change toMN X = M at hM
    constructor
    · rw [← hM, hsub]; exact (Matrix.posSemidef_submatrix_equiv _).mpr hX
    · have : pTAp M = toMN (pTX X) := by rw [← hM]; rfl
      rw [this, hsub]; exact (Matrix.posSemidef_submatrix_equiv _).mpr hx
  · rintro ⟨h1, h2⟩
    refine ⟨M.submatrix oneCopyEquiv.symm oneCopyEquiv.symm, (Matrix.posSemidef_submatrix_equiv _).mpr h1, ?_, ?_, ?_, ?_⟩
    · ext i j; rfl
    · rw [sym_iff_isBoseSym]
      intro σ a f j
      have : Subsingleton (Perm (Fin (0 + 1))) := inferInstanceAs (Subsingleton (Perm (Fin 1)))
      rw [Subsingleton.elim σ 1]
      exact ⟨rfl, rfl⟩
    · have : pTX (M.submatrix (oneCopyEquiv (m := m) (d := d)).symm oneCopyEquiv.symm)
          = (pTAp M).submatrix oneCopyEquiv.symm oneCopyEquiv.symm := rfl
      rw [this]; exact (Matrix.posSemidef_submatrix_equiv _).mpr h2
    · intro t ht
      have : Subsingleton (Fin (0 + 1)) := inferInstanceAs (Subsingleton (Fin 1))
      exact absurd (Subsingleton.elim t 0) ht

/-! ### feasibility is additive -/

theorem symExtAt_zero' (ℓ : ℕ) : SymExtAt ℓ (0 : Matrix (m × Fin d) (m × Fin d) ℂ) := by
  refine ⟨0, Matrix.PosSemidef.zero, ?_, by simp, ?_, fun t _ => ?_⟩
  · rw [margTo1_zero]; rfl
  · rw [show pTX (0 : Matrix (HIdx m d (ℓ + 1)) (HIdx m d (ℓ + 1)) ℂ) = 0 from rfl]
    exact Matrix.PosSemidef.zero
  · rw [show pTY t (0 : Matrix (HIdx m d (ℓ + 1)) (HIdx m d (ℓ + 1)) ℂ) = 0 from rfl]
    exact Matrix.PosSemidef.zero

theorem SymExtAt.add {ℓ : ℕ} {M N : Matrix (m × Fin d) (m × Fin d) ℂ} (hM : SymExtAt ℓ M)
    (hN : SymExtAt ℓ N) : SymExtAt ℓ (M + N) := by
  obtain ⟨X, hX, hXM, hXs, hX1, hX2⟩ := hM
  obtain ⟨Y, hY, hYN, hYs, hY1, hY2⟩ := hN
  refine ⟨X + Y, hX.add hY, ?_, ?_, ?_, fun t ht => ?_⟩
  · rw [margTo1_add, ← hXM, ← hYN]; rfl
  · rw [Matrix.mul_add, Matrix.add_mul, hXs, hYs]
  · rw [show pTX (X + Y) = pTX X + pTX Y from rfl]; exact hX1.add hY1
  · rw [show pTY t (X + Y) = pTY t X + pTY t Y from rfl]; exact (hX2 t ht).add (hY2 t ht)

theorem symExtAt_sum {ℓ : ℕ} {ι : Type*} (s : Finset ι) (M : ι → Matrix (m × Fin d) (m × Fin d) ℂ)
    (h : ∀ j ∈ s, SymExtAt ℓ (M j)) : SymExtAt ℓ (∑ j ∈ s, M j) := by
  classical
  induction s using Finset.induction_on with
  | empty => simpa using symExtAt_zero' ℓ
  | insert a s ha ih =>
    rw [Finset.sum_insert ha]
    exact (h a (Finset.mem_insert_self a s)).add (ih fun j hj => h j (Finset.mem_insert_of_mem hj))

/-! ### product operators are feasible at every level -/

/-- the vector `β_0 ⊗ β_1 ⊗ … ⊗ β_{L-1}` -/
def tensorVec {L : ℕ} (β : Fin L → Fin d → ℂ) : (Fin L → Fin d) → ℂ := fun f => ∏ s, β s (f s)

/-- `A ⊗ |β_0 … β_{L-1}⟩⟨β_0 … β_{L-1}|` -/
def prodExt {L : ℕ} (A : Matrix m m ℂ) (β : Fin L → Fin d → ℂ) : Matrix (HIdx m d L) (HIdx m d L) ℂ :=
  A ⊗ₖ vecMulVec (tensorVec β) (star (tensorVec β))

theorem prodExt_apply {L : ℕ} (A : Matrix m m ℂ) (β : Fin L → Fin d → ℂ) (i j : HIdx m d L) :
    prodExt A β i j = A i.1 j.1 * ∏ s, (β s (i.2 s) * star (β s (j.2 s))) := by
  simp only [prodExt, Matrix.kroneckerMap_apply, Matrix.vecMulVec_apply, tensorVec, Pi.star_apply, star_prod,
    Finset.prod_mul_distrib]

theorem prodExt_posSemidef {L : ℕ} {A : Matrix m m ℂ} (hA : A.PosSemidef) (β : Fin L → Fin d → ℂ) :
    (prodExt A β).PosSemidef :=
  hA.kronecker (Matrix.posSemidef_vecMulVec_self_star _)

theorem pTX_prodExt {L : ℕ} (A : Matrix m m ℂ) (β : Fin L → Fin d → ℂ) :
    pTX (prodExt A β) = prodExt Aᵀ β := by
  ext i j
  simp only [pTX, prodExt_apply, Matrix.transpose_apply]

theorem pTY_prodExt {L : ℕ} (t : Fin L) (A : Matrix m m ℂ) (β : Fin L → Fin d → ℂ) :
    pTY t (prodExt A β) = prodExt A (Function.update β t (star (β t))) := by
  ext i j
  simp only [pTY, prodExt_apply]
  congr 1
  refine Finset.prod_congr rfl fun s _ => ?_
  by_cases hs : s = t
  · subst hs
    simp only [Function.update_self, Pi.star_apply, star_star]
    ring
  · simp only [Function.update_of_ne hs]

theorem prodExt_isBoseSym {L : ℕ} (A : Matrix m m ℂ) (b : Fin d → ℂ) :
    IsBoseSym (prodExt A (fun _ : Fin L => b)) := by
  intro σ a f j
  simp only [prodExt_apply, Function.comp_apply, Finset.prod_mul_distrib]
  constructor
  · rw [Equiv.prod_comp σ (fun s => b (f s))]
  · rw [Equiv.prod_comp σ (fun s => star (b (f s)))]

theorem margLast_prodExt {L : ℕ} (A : Matrix m m ℂ) (b : Fin d → ℂ) (hb : b ⬝ᵥ star b = 1) :
    margLast (prodExt A (fun _ : Fin (L + 1) => b)) = prodExt A (fun _ : Fin L => b) := by
  ext i j
  simp only [margLast, prodExt_apply, snocI, Fin.prod_univ_castSucc, Fin.snoc_castSucc, Fin.snoc_last]
  rw [← Finset.mul_sum, ← Finset.mul_sum]
  have : ∑ c, b c * star (b c) = 1 := by simpa [dotProduct] using hb
  rw [this, mul_one]

theorem margTo1_prodExt (A : Matrix m m ℂ) (b : Fin d → ℂ) (hb : b ⬝ᵥ star b = 1) :
    ∀ ℓ : ℕ, margTo1 ℓ (prodExt A (fun _ : Fin (ℓ + 1) => b)) = prodExt A (fun _ : Fin 1 => b)
  | 0 => rfl
  | ℓ + 1 => by
    show margTo1 ℓ (margLast _) = _
    rw [margLast_prodExt A b hb, margTo1_prodExt A b hb ℓ]

/-- a product operator `A ⊗ b bᴴ` (`A ⪰ 0`, `‖b‖ = 1`) has the extension `A ⊗ (b bᴴ)^{⊗(ℓ+1)}` at level `ℓ + 1` -/
theorem symExtAt_product (ℓ : ℕ) {A : Matrix m m ℂ} (hA : A.PosSemidef) (b : Fin d → ℂ)
    (hb : b ⬝ᵥ star b = 1) : SymExtAt ℓ (A ⊗ₖ vecMulVec b (star b)) := by
  refine ⟨prodExt A (fun _ => b), prodExt_posSemidef hA _, ?_, ?_, ?_, fun t _ => ?_⟩
  · rw [margTo1_prodExt A b hb]
    ext i j
    simp [toMN, oneCopy, prodExt_apply, Matrix.kroneckerMap_apply, Matrix.vecMulVec_apply]
  · exact (sym_iff_isBoseSym _).mpr (prodExt_isBoseSym A b)
  · rw [pTX_prodExt]; exact prodExt_posSemidef hA.transpose _
  · rw [pTY_prodExt]; exact prodExt_posSemidef hA _

/-- the same for a vector `b` of any length (`b = 0` gives the zero operator; otherwise normalise `b` and move `‖b‖²` into `A`) -/
theorem symExtAt_rankOne (ℓ : ℕ) {A : Matrix m m ℂ} (hA : A.PosSemidef) (b : Fin d → ℂ) :
    SymExtAt ℓ (A ⊗ₖ vecMulVec b (star b)) := by
  set r : ℝ := ∑ c, Complex.normSq (b c) with hrdef
  have hr : ∑ c, b c * star (b c) = (r : ℂ) := by
    rw [hrdef, Complex.ofReal_sum]
    refine Finset.sum_congr rfl fun c _ => ?_
    rw [Complex.star_def, Complex.mul_conj]
  have hr0 : 0 ≤ r := Finset.sum_nonneg fun _ _ => Complex.normSq_nonneg _
  by_cases h0 : r = 0
  · have hb : b = 0 := by
      funext c
      have := (Finset.sum_eq_zero_iff_of_nonneg (fun c _ => Complex.normSq_nonneg (b c))).mp h0 c
        (Finset.mem_univ c)
      exact Complex.normSq_eq_zero.mp this
    have : A ⊗ₖ vecMulVec b (star b) = 0 := by
      ext i j; simp [hb]
    rw [this]; exact symExtAt_zero' ℓ
  · have hpos : 0 < r := lt_of_le_of_ne hr0 (Ne.symm h0)
    set s : ℝ := Real.sqrt r with hs
    have hs2 : s * s = r := Real.mul_self_sqrt hr0
    have hspos : 0 < s := Real.sqrt_pos.mpr hpos
    set b' : Fin d → ℂ := fun c => ((s⁻¹ : ℝ) : ℂ) * b c with hb'def
    have hstar : ∀ c, star (b' c) = ((s⁻¹ : ℝ) : ℂ) * star (b c) := by
      intro c
      simp only [hb'def, star_mul', Complex.star_def, Complex.conj_ofReal]
    have hsc : ((s⁻¹ : ℝ) : ℂ) * ((s⁻¹ : ℝ) : ℂ) * (r : ℂ) = 1 := by
      rw [← Complex.ofReal_mul, ← Complex.ofReal_mul]
      have : s⁻¹ * s⁻¹ * r = 1 := by
        rw [← hs2]; field_simp
      rw [this]; simp
    have hb' : b' ⬝ᵥ star b' = 1 := by
      simp only [dotProduct, Pi.star_apply, hstar]
      have : ∀ c, b' c * (((s⁻¹ : ℝ) : ℂ) * star (b c))
          = ((s⁻¹ : ℝ) : ℂ) * ((s⁻¹ : ℝ) : ℂ) * (b c * star (b c)) := by
        intro c; simp only [hb'def]; ring
      simp only [this]
      rw [← Finset.mul_sum, hr, hsc]
    have hA' : ((r : ℂ) • A).PosSemidef := hA.smul (by exact_mod_cast hr0)
    have e : A ⊗ₖ vecMulVec b (star b) = ((r : ℂ) • A) ⊗ₖ vecMulVec b' (star b') := by
      ext i j
      simp only [Matrix.kroneckerMap_apply, Matrix.vecMulVec_apply, Pi.star_apply, hstar, Matrix.smul_apply,
        smul_eq_mul]
      simp only [hb'def]
      calc A i.1 j.1 * (b i.2 * star (b j.2))
          = (((s⁻¹ : ℝ) : ℂ) * ((s⁻¹ : ℝ) : ℂ) * (r : ℂ)) * (A i.1 j.1 * (b i.2 * star (b j.2))) := by
            rw [hsc, one_mul]
        _ = _ := by ring
    rw [e]
    exact symExtAt_product ℓ hA' b' hb'

/-- **separable operators are feasible at every level**: `A ⊗ B` with `A ⪰ 0`, `B ⪰ 0` -/
theorem symExtAt_kron (ℓ : ℕ) {A : Matrix m m ℂ} {B : Matrix (Fin d) (Fin d) ℂ} (hA : A.PosSemidef)
    (hB : B.PosSemidef) : SymExtAt ℓ (A ⊗ₖ B) := by
  obtain ⟨r, v, hv⟩ := Matrix.posSemidef_iff_eq_sum_vecMulVec.mp hB
  have : A ⊗ₖ B = ∑ c, A ⊗ₖ vecMulVec (v c) (star (v c)) := by
    rw [hv]
    ext i j
    simp only [Matrix.kroneckerMap_apply, Matrix.sum_apply, Finset.mul_sum]
  rw [this]
  exact symExtAt_sum _ _ fun c _ => symExtAt_rankOne ℓ hA (v c)

end Hier
end Toq.PPTDisc
