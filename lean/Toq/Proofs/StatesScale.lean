import Toq.Model.States
import Toq.Proofs.States
import Mathlib.Analysis.Real.Sqrt
/-!
Scale invariance of the constructors that normalise a user-supplied coefficient vector (`ghz`, `w_state`):
`coeff ↦ coeff / ‖coeff‖` followed by the fill loop gives the same state for `c` and for `t·c`, every `t > 0`
(however small or large).  The fill loops are stated over an arbitrary scalar type (`pickG`; over `Int` it is
the `pick` of `Toq/Proofs/States.lean`, hence `ghzGen` / `wGen`, by `rfl`).
-/
namespace Toq.States

/-- "last write wins" loop `state[idx(i)] = c[i]`, `i` in `range(m)`, over any scalar type -/
def pickG {α : Type} [Zero α] (m : Nat) (idx : Nat → Nat) (c : Nat → α) (j : Nat) : α :=
  (List.range m).foldl (fun acc i => if idx i = j then c i else acc) 0

theorem pickG_succ {α : Type} [Zero α] (m : Nat) (idx : Nat → Nat) (c : Nat → α) (j : Nat) :
    pickG (m + 1) idx c j = if idx m = j then c m else pickG m idx c j := by
  unfold pickG
  rw [List.range_succ, List.foldl_append]
  rfl

theorem pickG_int (m : Nat) (idx : Nat → Nat) (c : Nat → Int) (j : Nat) : pickG m idx c j = pick m idx c j := rfl

/-- a zero-preserving map commutes with the fill loop -/
theorem pickG_map {α β : Type} [Zero α] [Zero β] (φ : α → β) (h0 : φ 0 = 0) (idx : Nat → Nat) (c : Nat → α) (j : Nat) :
    ∀ m, pickG m idx (fun i => φ (c i)) j = φ (pickG m idx c j)
  | 0 => h0.symm
  | m + 1 => by
    rw [pickG_succ, pickG_succ, pickG_map φ h0 idx c j m]
    by_cases h : idx m = j
    · rw [if_pos h, if_pos h]
    · rw [if_neg h, if_neg h]

/-- the fill loop is homogeneous in the coefficient vector -/
theorem pickG_smul {α : Type} [MulZeroClass α] (t : α) (m : Nat) (idx : Nat → Nat) (c : Nat → α) (j : Nat) :
    pickG m idx (fun i => t * c i) j = t * pickG m idx c j :=
  pickG_map (fun x => t * x) (mul_zero t) idx c j m

/-- `ghz(dim, n, coeff)` before normalisation, any scalar type -/
def ghzGenG {α : Type} [Zero α] (d n : Nat) (c : Nat → α) : Nat → α := fun j => pickG d (ghzIdx d n) c j

/-- `w_state(n, coeff)` before normalisation, any scalar type -/
def wGenG {α : Type} [Zero α] (n : Nat) (c : Nat → α) : Nat → α :=
  fun j => pickG n (fun i => 2 ^ i) (fun i => c (n - i - 1)) j

theorem ghzGenG_int (d n : Nat) (c : Nat → Int) : ghzGenG d n c = ghzGen d n c := rfl

theorem wGenG_int (n : Nat) (c : Nat → Int) : wGenG n c = wGen n c := rfl

theorem ghzGenG_cast (d n : Nat) (c : Nat → Int) (j : Nat) :
    ghzGenG d n (fun i => ((c i : Int) : ℝ)) j = ((ghzGen d n c j : Int) : ℝ) :=
  pickG_map (fun x : Int => (x : ℝ)) Int.cast_zero (ghzIdx d n) c j d

theorem wGenG_cast (n : Nat) (c : Nat → Int) (j : Nat) :
    wGenG n (fun i => ((c i : Int) : ℝ)) j = ((wGen n c j : Int) : ℝ) :=
  pickG_map (fun x : Int => (x : ℝ)) Int.cast_zero (fun i => 2 ^ i) (fun i => c (n - i - 1)) j n

theorem sumN_scale_sq (t : ℝ) (c : Nat → ℝ) : ∀ m, sumN m (fun i => (t * c i) * (t * c i)) = t * t * sumN m (fun i => c i * c i)
  | 0 => by simp [sumN]
  | m + 1 => by
    show sumN m (fun i => (t * c i) * (t * c i)) + (t * c m) * (t * c m) = t * t * (sumN m (fun i => c i * c i) + c m * c m)
    rw [sumN_scale_sq t c m]; ring

theorem sumN_int_cast (f : Nat → Int) : ∀ m, ((sumN m f : Int) : ℝ) = sumN m (fun i => ((f i : Int) : ℝ))
  | 0 => by simp [sumN]
  | m + 1 => by
    show ((sumN m f + f m : Int) : ℝ) = sumN m (fun i => ((f i : Int) : ℝ)) + ((f m : Int) : ℝ)
    rw [Int.cast_add, sumN_int_cast f m]

/-- `(t·x) / √(t²·S) = x / √S` for `t > 0` -/
theorem div_sqrt_scale (t x S : ℝ) (ht : 0 < t) : (t * x) / Real.sqrt (t * t * S) = x / Real.sqrt S := by
  rw [Real.sqrt_mul (mul_self_nonneg t), Real.sqrt_mul_self ht.le]
  exact mul_div_mul_left x (Real.sqrt S) (ne_of_gt ht)

/-- normalise-then-fill is invariant under positive scaling of the coefficient vector (any fill positions) -/
theorem pickG_normalised_scale (t : ℝ) (ht : 0 < t) (m : Nat) (idx : Nat → Nat) (c : Nat → ℝ) (S : ℝ) (j : Nat) :
    pickG m idx (fun i => t * c i) j / Real.sqrt (t * t * S) = pickG m idx c j / Real.sqrt S := by
  rw [pickG_smul]; exact div_sqrt_scale t _ S ht

end Toq.States
