import Toq.Proofs.MetricsPure
/-!
# Extreme values are taken exactly on identical / orthogonal states: `F = 1 ⟺ ρ = σ`, `F = 0 ⟺ ρ σ = 0 ⟺ T = 1`
-/

open Matrix
open scoped ComplexOrder MatrixOrder

set_option linter.unusedSectionVars false

namespace Toq.Metrics
section Extreme
variable {ι : Type*} [Fintype ι] [DecidableEq ι]

/-- positive semidefinite `A`, `B` with `tr(A B) = 0` have `A B = 0` -/
theorem psd_mul_eq_zero_of_trace_zero {A B : Matrix ι ι ℂ} (hA : A.PosSemidef) (hB : B.PosSemidef)
    (h : (A * B).trace.re = 0) : A * B = 0 := by
  set SA := CFC.sqrt A
  set SB := CFC.sqrt B
  have hSA : SA.PosSemidef := (CFC.sqrt_nonneg A).posSemidef
  have hSB : SB.PosSemidef := (CFC.sqrt_nonneg B).posSemidef
  have eA : SA * SA = A := CFC.sqrt_mul_sqrt_self A hA.nonneg
  have eB : SB * SB = B := CFC.sqrt_mul_sqrt_self B hB.nonneg
  have e1 : ((SB * SA)ᴴ * (SB * SA)).trace = (A * B).trace := by
    rw [Matrix.conjTranspose_mul, hSA.isHermitian.eq, hSB.isHermitian.eq]
    calc (SA * SB * (SB * SA)).trace = (SA * (SB * SB) * SA).trace := by simp only [Matrix.mul_assoc]
      _ = (SA * SA * B).trace := by rw [eB, Matrix.trace_mul_comm, ← Matrix.mul_assoc]
      _ = _ := by rw [eA]
  have h0 : 0 ≤ ((SB * SA)ᴴ * (SB * SA)).trace := (Matrix.posSemidef_conjTranspose_mul_self _).trace_nonneg
  rw [e1] at h0
  obtain ⟨-, him⟩ := Complex.nonneg_iff.mp h0
  have hz : ((SB * SA)ᴴ * (SB * SA)).trace = 0 := by
    rw [e1]; exact Complex.ext (by simpa using h) (by simpa using him.symm)
  have hN : SB * SA = 0 := Matrix.trace_conjTranspose_mul_self_eq_zero_iff.mp hz
  have hN' : SA * SB = 0 := by
    have := congrArg Matrix.conjTranspose hN
    rwa [Matrix.conjTranspose_mul, hSA.isHermitian.eq, hSB.isHermitian.eq, Matrix.conjTranspose_zero] at this
  calc A * B = SA * (SA * SB) * SB := by rw [← eA, ← eB]; simp only [Matrix.mul_assoc]
    _ = 0 := by rw [hN']; simp

/-- pseudo-inverse of a real number -/
noncomputable def pinv (x : ℝ) : ℝ := if x = 0 then 0 else x⁻¹

/-- if `ρ σ = 0` there is a Hermitian idempotent `Π` (the support projector of `ρ`) with `Π ρ = ρ`, `Π σ = 0` -/
theorem exists_support_proj {ρ σ : Matrix ι ι ℂ} (hρ : ρ.IsHermitian) (h : ρ * σ = 0) :
    ∃ P : Matrix ι ι ℂ, P.IsHermitian ∧ P * P = P ∧ P * ρ = ρ ∧ P * σ = 0 := by
  obtain ⟨U, hU, hU', hρe⟩ := exists_conjDiag hρ
  set lam := hρ.eigenvalues
  have hP : conjDiag U (fun i => pinv (lam i)) * ρ = conjDiag U (fun i => if lam i = 0 then 0 else 1) := by
    conv_lhs => rw [hρe]
    rw [conjDiag_mul hU]; congr 1; funext i
    unfold pinv; split_ifs with h0
    · simp
    · exact inv_mul_cancel₀ h0
  refine ⟨conjDiag U (fun i => if lam i = 0 then 0 else 1), conjDiag_isHermitian U _, ?_, ?_, ?_⟩
  · rw [conjDiag_mul hU]; congr 1; funext i; split_ifs <;> simp
  · conv_lhs => rw [hρe]
    conv_rhs => rw [hρe]
    rw [conjDiag_mul hU]; congr 1; funext i; split_ifs with h0
    · rw [h0]; simp
    · simp
  · rw [← hP, Matrix.mul_assoc, h, Matrix.mul_zero]

/-- `T(ρ, σ) = 1` forces `ρ σ = 0` (density operators) -/
theorem mul_eq_zero_of_traceNormV_eq_two {ρ σ : Matrix ι ι ℂ} (hρ : ρ.PosSemidef) (hσ : σ.PosSemidef)
    (tρ : ρ.trace = 1) (tσ : σ.trace = 1) (h : traceNormV (ρ - σ) = 2) : ρ * σ = 0 := by
  have hD : (ρ - σ).IsHermitian := hρ.isHermitian.sub hσ.isHermitian
  obtain ⟨U, hU, hU', hDe⟩ := exists_conjDiag hD
  set lam := hD.eigenvalues
  rw [traceNormV_eq_sum_abs_eigenvalues hD] at h
  have hsum0 : ∑ i, lam i = 0 := by
    have := conjDiag_trace_re hU lam
    rw [← hDe, Matrix.trace_sub, tρ, tσ] at this
    simpa using this.symm
  set P := conjDiag U (fun i => if 0 < lam i then 1 else 0) with hPd
  have hPH : P.IsHermitian := conjDiag_isHermitian U _
  have hPP : P * P = P := by
    rw [hPd, conjDiag_mul hU]; congr 1; funext i; split_ifs <;> simp
  have hPpsd : P.PosSemidef := conjDiag_posSemidef U fun i => by split_ifs <;> norm_num
  have hQpsd : (1 - P).PosSemidef := posSemidef_one_sub_of_idem hPH hPP
  have hPD : (P * (ρ - σ)).trace.re = 1 := by
    conv_lhs => rw [hDe]
    rw [hPd, conjDiag_mul hU, conjDiag_trace_re hU]
    have e : ∀ i, (if 0 < lam i then (1 : ℝ) else 0) * lam i = (|lam i| + lam i) / 2 := by
      intro i; split_ifs with hpos
      · rw [abs_of_pos hpos]; ring
      · rw [abs_of_nonpos (not_lt.mp hpos)]; ring
    simp only [e]
    rw [← Finset.sum_div, Finset.sum_add_distrib, h, hsum0]; norm_num
  rw [Matrix.mul_sub, Matrix.trace_sub, Complex.sub_re] at hPD
  have a1 : 0 ≤ (P * σ).trace.re := psd_trace_mul_nonneg hPpsd hσ
  have a2 : 0 ≤ ((1 - P) * ρ).trace.re := psd_trace_mul_nonneg hQpsd hρ
  have a3 : ((1 - P) * ρ).trace.re = 1 - (P * ρ).trace.re := by
    rw [Matrix.sub_mul, Matrix.one_mul, Matrix.trace_sub, Complex.sub_re, tρ, Complex.one_re]
  have z1 : P * σ = 0 := psd_mul_eq_zero_of_trace_zero hPpsd hσ (by linarith)
  have z2 : (1 - P) * ρ = 0 := psd_mul_eq_zero_of_trace_zero hQpsd hρ (by linarith)
  have hρP : ρ = P * ρ := by
    rw [Matrix.sub_mul, Matrix.one_mul, sub_eq_zero] at z2; exact z2
  have hρP' : ρ = ρ * P := by
    have := congrArg Matrix.conjTranspose hρP
    rwa [Matrix.conjTranspose_mul, hρ.isHermitian.eq, hPH.eq] at this
  rw [hρP', Matrix.mul_assoc, z1, Matrix.mul_zero]

/-- **Extreme values are taken exactly on orthogonal states**: for density operators, `F = 0 ⟺ ρ σ = 0 ⟺ T = 1`. -/
theorem fidV_eq_zero_iff {ρ σ : Matrix ι ι ℂ} (hρ : ρ.PosSemidef) (hσ : σ.PosSemidef)
    (tρ : ρ.trace = 1) (tσ : σ.trace = 1) : fidV ρ σ = 0 ↔ ρ * σ = 0 := by
  constructor
  · intro h
    have h1 := fvdg_lower_gen hρ hσ tρ tσ
    have h2 := traceNormV_le_gen hρ hσ (rfl : ρ - σ = ρ - σ)
    rw [tρ, tσ] at h2
    norm_num at h2
    rw [h] at h1
    exact mul_eq_zero_of_traceNormV_eq_two hρ hσ tρ tσ (by linarith)
  · intro h
    obtain ⟨P, hPH, hPP, h1, h2⟩ := exists_support_proj hρ.isHermitian h
    exact fidV_eq_zero_gen hρ hσ hPH hPP h1 h2

theorem traceNormV_eq_two_iff {ρ σ : Matrix ι ι ℂ} (hρ : ρ.PosSemidef) (hσ : σ.PosSemidef)
    (tρ : ρ.trace = 1) (tσ : σ.trace = 1) : traceNormV (ρ - σ) / 2 = 1 ↔ ρ * σ = 0 := by
  constructor
  · intro h
    exact mul_eq_zero_of_traceNormV_eq_two hρ hσ tρ tσ (by linarith)
  · intro h
    have h0 := (fidV_eq_zero_iff hρ hσ tρ tσ).mpr h
    have h1 := fvdg_lower_gen hρ hσ tρ tσ
    have h2 := traceNormV_le_gen hρ hσ (rfl : ρ - σ = ρ - σ)
    rw [tρ, tσ] at h2
    norm_num at h2
    rw [h0] at h1
    linarith

/-- **Extreme values are taken exactly on identical states**: for density operators, `F = 1 ⟺ ρ = σ`. -/
theorem fidV_eq_one_iff {ρ σ : Matrix ι ι ℂ} (hρ : ρ.PosSemidef) (hσ : σ.PosSemidef)
    (tρ : ρ.trace = 1) (tσ : σ.trace = 1) : fidV ρ σ = 1 ↔ ρ = σ := by
  constructor
  · intro h
    have h1 := fvdg_upper_gen hρ hσ tρ tσ
    rw [h] at h1
    have hD : (ρ - σ).IsHermitian := hρ.isHermitian.sub hσ.isHermitian
    have h0 : traceNormV (ρ - σ) = 0 := by
      have := traceNormV_nonneg_gen hD
      nlinarith
    exact sub_eq_zero.mp (eq_zero_of_traceNormV_eq_zero hD h0)
  · rintro rfl
    refine le_antisymm ?_ ?_
    · have := fidV_le_gen hρ hρ (fidDualFeasible_one (ι := ι))
      unfold dualVal at this
      rw [Matrix.one_mul, tρ] at this
      norm_num at this
      exact this
    · have := le_fidV_gen (fidFeasible_self hρ)
      rwa [tρ] at this

end Extreme
end Toq.Metrics
