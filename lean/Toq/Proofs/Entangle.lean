import Toq.Model.Entangle
import Toq.Spec.Entangle
import Toq.Proofs.Idx
import Toq.Proofs.Perms
import Toq.Properties.C01
import Toq.Proofs.Cert
import Toq.Proofs.Rank
import Mathlib.Tactic.Ring
import Mathlib.Tactic.Linarith
import Mathlib.Algebra.BigOperators.Group.Finset.Basic
/-! Helper lemmas for C14 (index algebra of the reshapes, sums over product indices, the rectangular diagonal). -/

namespace Toq.Entangle
open Toq.Perms

/-! ### reshapes -/

theorem reshapeDim_apply {α : Type} (dA dB : Nat) (ψ : Nat → α) (a b : Nat) :
    reshapeDim dA dB ψ a b = ψ (a * dB + b) := by
  simp [reshapeDim, ND.ofFlatC, flatC, enc, fnOfList]

theorem reshapeRevC_apply {α : Type} (dA dB : Nat) (ψ : Nat → α) (r c : Nat) :
    reshapeRevC dA dB ψ r c = ψ (r * dA + c) := by
  simp [reshapeRevC, ND.ofFlatC, flatC, enc, fnOfList]

theorem reshapeRevF_apply {α : Type} (dA dB : Nat) (ψ : Nat → α) (r c : Nat) :
    reshapeRevF dA dB ψ r c = ψ (c * dB + r) := by
  simp [reshapeRevF, ND.ofFlatF, flatF, prodN, fnOfList, Nat.add_comm]

/-! ### sums -/

theorem sumN_add_range {α : Type} [AddMonoid α] (f : Nat → α) (a : Nat) :
    ∀ b, sumN (a + b) f = sumN a f + sumN b (fun k => f (a + k))
  | 0 => by simp [sumN]
  | b + 1 => by
    show sumN (a + b) f + f (a + b) = sumN a f + (sumN b (fun k => f (a + k)) + f (a + b))
    rw [sumN_add_range f a b, add_assoc]

/-- a sum over `0..P*d-1` as an iterated sum over quotient and remainder -/
theorem sumN_mul {α : Type} [AddMonoid α] (g : Nat → α) (d : Nat) :
    ∀ P, sumN (P * d) g = sumN P (fun q => sumN d (fun b => g (q * d + b)))
  | 0 => by simp [sumN]
  | P + 1 => by
    rw [Nat.succ_mul, sumN_add_range, sumN_mul g d P]; rfl

theorem sumN_eq_fin {α : Type} [AddCommMonoid α] (f : Nat → α) : ∀ n, sumN n f = ∑ i : Fin n, f i.val
  | 0 => by simp [sumN]
  | n + 1 => by rw [sumN, sumN_eq_fin f n, Fin.sum_univ_castSucc]; simp

theorem sumN_congr' {α : Type} [Add α] [Zero α] (f g : Nat → α) : ∀ n, (∀ k, k < n → f k = g k) → sumN n f = sumN n g
  | 0, _ => rfl
  | n + 1, h => by
    simp only [sumN]
    rw [sumN_congr' f g n (fun k hk => h k (Nat.lt_succ_of_lt hk)), h n (Nat.lt_succ_self n)]

end Toq.Entangle

namespace Toq.Entangle
open Toq.Perms

/-! ### operator Schmidt vector = realignment -/

theorem invPerm_swap12 : ∀ k, k < 4 → invPerm 4 (swapPerm 1 2) k = swapPerm 1 2 k := by decide

theorem operatorAmp_apply {α : Type} (dA dB : Nat) (ρ : Nat → Nat → α) (hA : 0 < dA) (hB : 0 < dB)
    (i j : Nat) (hi : i < dA * dA) (hj : j < dB * dB) :
    operatorAmp dA dB ρ i j = realignAmp dA dB ρ i j := by
  have ha : i / dA < dA := (Nat.div_lt_iff_lt_mul hA).mpr hi
  have ha' : i % dA < dA := Nat.mod_lt _ hA
  have hb : j / dB < dB := (Nat.div_lt_iff_lt_mul hB).mpr hj
  have hb' : j % dB < dB := Nat.mod_lt _ hB
  set y : Nat → Nat := fnOfList [i / dA, i % dA, j / dB, j % dB] with hy
  set dims : Nat → Nat := fnOfList [dA, dB, dA, dB] with hdims
  have hp : Toq.C01.IsPermN 4 (swapPerm 1 2) := Toq.C01.swapPerm_isPerm 4 1 2 (by decide) (by decide)
  have hyb : ∀ k, k < 4 → y k < dims (swapPerm 1 2 k) := by
    intro k hk
    have : k = 0 ∨ k = 1 ∨ k = 2 ∨ k = 3 := by omega
    rcases this with rfl | rfl | rfl | rfl <;> simp [hy, hdims, fnOfList, swapPerm, ha, ha', hb, hb']
  have key := Toq.C01.permuteVec_relabel (opVec (dA * dB) ρ) 4 (swapPerm 1 2) dims y hp hyb
  have hL : enc (fun m => dims (swapPerm 1 2 m)) y 4 = i * (dB * dB) + j := by
    simp only [enc, hy, hdims, fnOfList, swapPerm, List.getD_cons_zero, List.getD_cons_succ]
    simp
    have e1 := Nat.div_add_mod' i dA
    have e2 := Nat.div_add_mod' j dB
    calc ((i / dA * dA + i % dA) * dB + j / dB) * dB + j % dB
        = (i / dA * dA + i % dA) * (dB * dB) + (j / dB * dB + j % dB) := by ring
      _ = i * (dB * dB) + j := by rw [e1, e2]
  have hR : enc dims (fun k => y (invPerm 4 (swapPerm 1 2) k)) 4
      = (i / dA * dB + j / dB) * (dA * dB) + (i % dA * dB + j % dB) := by
    simp only [enc, invPerm_swap12 0 (by decide), invPerm_swap12 1 (by decide), invPerm_swap12 2 (by decide),
      invPerm_swap12 3 (by decide)]
    simp only [hy, hdims, fnOfList, swapPerm, List.getD_cons_zero, List.getD_cons_succ]
    simp
    ring
  have hlt : i % dA * dB + j % dB < dA * dB := by
    calc i % dA * dB + j % dB < i % dA * dB + dB := by omega
      _ = (i % dA + 1) * dB := by ring
      _ ≤ dA * dB := Nat.mul_le_mul_right _ ha'
  unfold operatorAmp
  rw [reshapeDim_apply]
  unfold operatorSchmidtVec
  rw [← hL, key, hR]
  unfold opVec realignAmp
  have hN : 0 < dA * dB := Nat.mul_pos hA hB
  rw [(by rw [Nat.add_comm, Nat.add_mul_div_right _ _ hN, Nat.div_eq_of_lt hlt, Nat.zero_add] :
        ((i / dA * dB + j / dB) * (dA * dB) + (i % dA * dB + j % dB)) / (dA * dB) = i / dA * dB + j / dB)]
  rw [(by rw [Nat.add_comm, Nat.add_mul_mod_self_right, Nat.mod_eq_of_lt hlt] :
        ((i / dA * dB + j / dB) * (dA * dB) + (i % dA * dB + j % dB)) % (dA * dB) = i % dA * dB + j % dB)]

end Toq.Entangle

namespace Toq.Entangle
open Matrix

/-! ### local operations on the amplitude matrix -/

theorem ampMat_kronApply {α : Type} [CommSemiring α] (dB dA' dB' : Nat) (U V : Nat → Nat → α) (ψ : Nat → α)
    (hB' : 0 < dB') (a b : Nat) (hb : b < dB) :
    ampMat dB (kronApply dB dA' dB' U V ψ) a b
      = sumN dA' fun a' => sumN dB' fun b' => U a a' * ampMat dB' ψ a' b' * V b b' := by
  have hB : 0 < dB := Nat.lt_of_le_of_lt (Nat.zero_le _) hb
  unfold ampMat kronApply kron2
  rw [sumN_mul]
  apply sumN_congr'
  intro a' _
  apply sumN_congr'
  intro b' hb'
  have h1 : (a * dB + b) / dB = a := by
    rw [Nat.add_comm, Nat.add_mul_div_right _ _ hB, Nat.div_eq_of_lt hb, Nat.zero_add]
  have h2 : (a * dB + b) % dB = b := by
    rw [Nat.add_comm, Nat.add_mul_mod_self_right, Nat.mod_eq_of_lt hb]
  have h3 : (a' * dB' + b') / dB' = a' := by
    rw [Nat.add_comm, Nat.add_mul_div_right _ _ hB', Nat.div_eq_of_lt hb', Nat.zero_add]
  have h4 : (a' * dB' + b') % dB' = b' := by
    rw [Nat.add_comm, Nat.add_mul_mod_self_right, Nat.mod_eq_of_lt hb']
  rw [h1, h2, h3, h4]
  ring

theorem toM_ampMat_kronApply {α : Type} [CommSemiring α] (dA dB dA' dB' : Nat) (U V : Nat → Nat → α) (ψ : Nat → α)
    (hB' : 0 < dB') :
    toM dA dB (ampMat dB (kronApply dB dA' dB' U V ψ))
      = toM dA dA' U * toM dA' dB' (ampMat dB' ψ) * (toM dB dB' V)ᵀ := by
  ext a b
  show ampMat dB (kronApply dB dA' dB' U V ψ) a.val b.val = _
  rw [ampMat_kronApply dB dA' dB' U V ψ hB' a.val b.val b.isLt, Matrix.mul_apply]
  simp only [Matrix.mul_apply, Matrix.transpose_apply, toM, Finset.sum_mul]
  rw [Finset.sum_comm, sumN_eq_fin]
  apply Finset.sum_congr rfl
  intro a' _
  rw [sumN_eq_fin]

end Toq.Entangle

namespace Toq.Entangle
open Matrix
open scoped ComplexOrder MatrixOrder Kronecker

/-! ### planted amplitude matrices, square roots, lists -/

theorem pT_pure_gram {m n : Type} [Fintype m] [Fintype n] (A : Matrix m n ℂ) :
    (pT (pureOfAmp A))ᴴ * pT (pureOfAmp A) = (A * Aᴴ) ⊗ₖ (Aᴴ * A) := by
  ext ⟨a, b⟩ ⟨a', b'⟩
  rw [Matrix.mul_apply, Fintype.sum_prod_type]
  simp only [Matrix.conjTranspose_apply, pT, pureOfAmp, Matrix.kroneckerMap_apply, Matrix.mul_apply, star_mul', star_star]
  rw [Finset.sum_mul_sum, Finset.sum_comm]
  apply Finset.sum_congr rfl; intro c _
  apply Finset.sum_congr rfl; intro d _
  ring

theorem planted_conjTranspose (dA dB : Nat) (s : Nat → ℂ) :
    (planted dA dB s)ᴴ = planted dB dA (fun i => star (s i)) := by
  ext b a
  simp only [Matrix.conjTranspose_apply, planted]
  by_cases h : a.val = b.val
  · simp [h]
  · have h' : ¬ b.val = a.val := fun e => h e.symm
    simp [h, h']

theorem planted_mul_ct (dA dB : Nat) (s : Nat → ℂ) :
    planted dA dB s * (planted dA dB s)ᴴ
      = Matrix.diagonal (fun a : Fin dA => if a.val < dB then s a.val * star (s a.val) else 0) := by
  ext a a'
  rw [Matrix.mul_apply, Matrix.diagonal_apply]
  simp only [planted, Matrix.conjTranspose_apply]
  by_cases haa : a = a'
  · subst haa
    simp only [if_true]
    by_cases hlt : a.val < dB
    · rw [Finset.sum_eq_single (⟨a.val, hlt⟩ : Fin dB)]
      · simp [hlt]
      · intro b _ hb
        have : a.val ≠ b.val := fun e => hb (Fin.ext e.symm)
        simp [this]
      · intro h; exact absurd (Finset.mem_univ _) h
    · rw [if_neg hlt]
      apply Finset.sum_eq_zero
      intro b _
      have : a.val ≠ b.val := fun e => hlt (e ▸ b.isLt)
      simp [this]
  · rw [if_neg haa]
    apply Finset.sum_eq_zero
    intro b _
    by_cases h1 : a.val = b.val
    · have : a'.val ≠ b.val := fun e => haa (Fin.ext (h1.trans e.symm))
      simp [this]
    · simp [h1]

theorem planted_ct_mul (dA dB : Nat) (s : Nat → ℂ) :
    (planted dA dB s)ᴴ * planted dA dB s
      = Matrix.diagonal (fun b : Fin dB => if b.val < dA then star (s b.val) * s b.val else 0) := by
  have := planted_mul_ct dB dA (fun i => star (s i))
  rw [planted_conjTranspose dB dA] at this
  rw [planted_conjTranspose dA dB]
  simpa using this

theorem sum_fin_lt (n k : Nat) (f : Nat → ℝ) :
    (∑ a : Fin n, if a.val < k then f a.val else 0) = ∑ i ∈ Finset.range (min n k), f i := by
  rw [Fin.sum_univ_eq_sum_range (fun i => if i < k then f i else 0) n, ← Finset.sum_filter]
  congr 1
  ext i
  simp [Finset.mem_filter]

/-- one side of the planted computation: `U·diag(d)·Uᴴ` is a PSD square root of `U·diag(d²)·Uᴴ` with trace `Σ d` -/
theorem unitary_diag_sqrt {k : Nat} (U : Matrix (Fin k) (Fin k) ℂ) (hU : Uᴴ * U = 1) (d : Fin k → ℝ) (hd : ∀ i, 0 ≤ d i) :
    (U * Matrix.diagonal (fun i => (d i : ℂ)) * Uᴴ).PosSemidef ∧
    (U * Matrix.diagonal (fun i => (d i : ℂ)) * Uᴴ) * (U * Matrix.diagonal (fun i => (d i : ℂ)) * Uᴴ)
      = U * Matrix.diagonal (fun i => ((d i : ℂ) * (d i : ℂ))) * Uᴴ ∧
    (U * Matrix.diagonal (fun i => (d i : ℂ)) * Uᴴ).trace = ((∑ i, d i : ℝ) : ℂ) := by
  refine ⟨?_, ?_, ?_⟩
  · have hD : (Matrix.diagonal (fun i => (d i : ℂ))).PosSemidef := by
      rw [Matrix.posSemidef_diagonal_iff]; intro i; exact_mod_cast hd i
    exact hD.mul_mul_conjTranspose_same U
  · calc (U * Matrix.diagonal (fun i => (d i : ℂ)) * Uᴴ) * (U * Matrix.diagonal (fun i => (d i : ℂ)) * Uᴴ)
        = U * Matrix.diagonal (fun i => (d i : ℂ)) * (Uᴴ * U) * Matrix.diagonal (fun i => (d i : ℂ)) * Uᴴ := by
          simp only [Matrix.mul_assoc]
      _ = U * (Matrix.diagonal (fun i => (d i : ℂ)) * Matrix.diagonal (fun i => (d i : ℂ))) * Uᴴ := by
          rw [hU]; simp only [Matrix.mul_one, Matrix.mul_assoc]
      _ = _ := by rw [Matrix.diagonal_mul_diagonal]
  · rw [Matrix.trace_mul_cycle, hU, Matrix.one_mul, Matrix.trace_diagonal]
    push_cast; rfl

theorem sublist_sum_le_take (l : List Rat) (hs : l.Pairwise (fun a b => b ≤ a)) (h0 : ∀ x ∈ l, 0 ≤ x) :
    ∀ (k : Nat) (t : List Rat), t.Sublist l → t.length ≤ k → t.sum ≤ (l.take k).sum := by
  induction l with
  | nil =>
    intro k t ht _
    rw [List.sublist_nil.mp ht]; simp
  | cons x l' ih =>
    have hs' := (List.pairwise_cons.mp hs)
    have h0' : ∀ y ∈ l', 0 ≤ y := fun y hy => h0 y (List.mem_cons_of_mem _ hy)
    have hx : 0 ≤ x := h0 x (List.mem_cons_self)
    intro k t ht hk
    cases k with
    | zero =>
      have : t = [] := List.eq_nil_of_length_eq_zero (Nat.le_zero.mp hk)
      rw [this]; simp
    | succ k =>
      rw [List.take_succ_cons, List.sum_cons]
      cases ht with
      | cons _ ht' =>
        -- x skipped
        cases t with
        | nil => simp; exact add_nonneg hx (List.sum_nonneg (fun y hy => h0' y (List.mem_of_mem_take hy)))
        | cons y t'' =>
          have hy : y ≤ x := hs'.1 y (ht'.subset List.mem_cons_self)
          have ht'' : t''.Sublist l' := (List.sublist_cons_self y t'').trans ht'
          have := ih hs'.2 h0' k t'' ht'' (by simpa using hk)
          rw [List.sum_cons]; linarith
      | cons_cons _ ht' =>
        rw [List.sum_cons]
        have := ih hs'.2 h0' k _ ht' (by simpa using hk)
        linarith

theorem sumQ_eq_sum (l : List Rat) : sumQ l = l.sum := by
  unfold sumQ
  rw [List.sum_eq_foldl]

theorem norm_det_of_unitary {n : Type} [Fintype n] [DecidableEq n] (U : Matrix n n ℂ) (hU : Uᴴ * U = 1) : ‖U.det‖ = 1 := by
  have h : star U.det * U.det = 1 := by rw [← Matrix.det_conjTranspose, ← Matrix.det_mul, hU, Matrix.det_one]
  have h2 : ‖U.det‖ * ‖U.det‖ = 1 := by
    have := congrArg norm h
    rwa [norm_mul, norm_star, norm_one] at this
  rcases mul_self_eq_one_iff.mp h2 with h3 | h3
  · exact h3
  · have := norm_nonneg U.det; linarith


end Toq.Entangle

namespace Toq.Entangle

/-- `rankQ` only reads the entries inside the `n × m` block -/
theorem rankQ_congr (n m : Nat) (A B : Nat → Nat → QI) (h : ∀ i j, i < n → j < m → A i j = B i j) : rankQ n m A = rankQ n m B := by
  unfold rankQ Toq.Rank.rankFn
  have : (EMat.ofFn (n := n) (m := m) fun i j => A i.val j.val) = (EMat.ofFn (n := n) (m := m) fun i j => B i.val j.val) := by
    congr 1; funext i j; exact h i.val j.val i.isLt j.isLt
  rw [this]

end Toq.Entangle

namespace Toq.Entangle
open Matrix
open scoped Kronecker

theorem sum4_perm {R : Type} [AddCommMonoid R] {m n : Type} [Fintype m] [Fintype n] (f : m → n → m → n → R) :
    ∑ c', ∑ d', ∑ c, ∑ d, f c d c' d' = ∑ d, ∑ d', ∑ c, ∑ c', f c d c' d' := by
  calc ∑ c', ∑ d', ∑ c, ∑ d, f c d c' d' = ∑ c', ∑ d', ∑ d, ∑ c, f c d c' d' := by
        apply Finset.sum_congr rfl; intro c' _; apply Finset.sum_congr rfl; intro d' _; exact Finset.sum_comm
    _ = ∑ c', ∑ d, ∑ d', ∑ c, f c d c' d' := by
        apply Finset.sum_congr rfl; intro c' _; exact Finset.sum_comm
    _ = ∑ d, ∑ c', ∑ d', ∑ c, f c d c' d' := Finset.sum_comm
    _ = ∑ d, ∑ d', ∑ c', ∑ c, f c d c' d' := by
        apply Finset.sum_congr rfl; intro d _; exact Finset.sum_comm
    _ = ∑ d, ∑ d', ∑ c, ∑ c', f c d c' d' := by
        apply Finset.sum_congr rfl; intro d _; apply Finset.sum_congr rfl; intro d' _; exact Finset.sum_comm

theorem isUnit_det_kron_conj {R : Type} [CommRing R] [StarRing R] {m : Type} [Fintype m] [DecidableEq m]
    (U : Matrix m m R) (hU : IsUnit U.det) : IsUnit (U ⊗ₖ U.map star).det := by
  rw [Matrix.det_kronecker]
  have h2 : IsUnit (U.map star).det := by
    have : (U.map star).det = star U.det := by
      exact (RingHom.map_det (starRingEnd R) U).symm
    rw [this]; exact hU.star
  exact (hU.pow _).mul (h2.pow _)

end Toq.Entangle
