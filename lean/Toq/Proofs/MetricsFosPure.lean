import Toq.Proofs.MetricsFos
/-!
# Pure states: positive partial transpose ⟺ product vector

`fidelity_of_separability` only accepts pure states that `is_separable` accepts.  For a pure state `ψ ψᴴ` on `A ⊗ B` the very first test
of `is_separable`, the PPT criterion, is already decisive: the partial transpose is positive semidefinite iff `ψ = a ⊗ b`
(`pure_ppt_iff_product`).  Proof without a Schmidt decomposition: every `2 × 2` minor of the coefficient matrix `C = (ψ (a, b))` vanishes,
because for rows `a₁, a₂` and columns `b₁, b₂` the vector `w` with `w(a₁, ·) = C(a₂, ·)`, `w(a₂, ·) = −C(a₁, ·)` on those columns has
`⟨w, ρ^{T_A} w⟩ = −2 |det|²`.  Hence the accepted inputs are exactly the pure product states, whose value is `1` at every level
(`fosV_pure_ppt`).
-/

open Matrix
open scoped ComplexOrder MatrixOrder Kronecker

set_option linter.unusedSectionVars false

namespace Toq.Metrics
open Toq.PPTDisc

/-- the `2 ⊗ 2` case: a positive semidefinite partial transpose of `K Kᴴ` (coefficients `K i j`) forces `det K = 0` -/
theorem det_eq_zero_of_ppt_pure22 (K : Fin 2 → Fin 2 → ℂ)
    (h : (Matrix.of fun (i j : Fin 2 × Fin 2) => K j.1 i.2 * star (K i.1 j.2)).PosSemidef) :
    K 0 0 * K 1 1 = K 0 1 * K 1 0 := by
  have hq := (Matrix.posSemidef_iff_dotProduct_mulVec.mp h).2
    (fun p : Fin 2 × Fin 2 => if p.1 = 0 then K 1 p.2 else - K 0 p.2)
  set D := K 0 0 * K 1 1 - K 0 1 * K 1 0 with hD
  have e : star (fun p : Fin 2 × Fin 2 => if p.1 = 0 then K 1 p.2 else - K 0 p.2) ⬝ᵥ
      ((Matrix.of fun (i j : Fin 2 × Fin 2) => K j.1 i.2 * star (K i.1 j.2)) *ᵥ
        (fun p : Fin 2 × Fin 2 => if p.1 = 0 then K 1 p.2 else - K 0 p.2)) = -(2 * (D * star D)) := by
    simp only [dotProduct, Matrix.mulVec, Fintype.sum_prod_type, Fin.sum_univ_two, Matrix.of_apply, Pi.star_apply, if_true,
      Fin.one_eq_zero_iff, Nat.succ_ne_self, if_false, star_neg, star_sub, star_mul', hD]
    ring
  rw [e] at hq
  have h2 : D * star D = ((Complex.normSq D : ℝ) : ℂ) := by
    rw [Complex.star_def, Complex.mul_conj]
  rw [h2] at hq
  have h3 : (0 : ℝ) ≤ -(2 * Complex.normSq D) := by exact_mod_cast hq
  have h4 : Complex.normSq D = 0 := le_antisymm (by linarith) (Complex.normSq_nonneg D)
  exact sub_eq_zero.mp (Complex.normSq_eq_zero.mp h4)

section Pure
variable {m n : Type*} [Fintype m] [Fintype n] [DecidableEq m] [DecidableEq n]

/-- all `2 × 2` minors of the coefficient matrix of a pure PPT state vanish -/
theorem minors_eq_zero_of_ppt_pure (ψ : m × n → ℂ) (h : (pTAp (vecMulVec ψ (star ψ))).PosSemidef)
    (a₁ a₂ : m) (b₁ b₂ : n) : ψ (a₁, b₁) * ψ (a₂, b₂) = ψ (a₁, b₂) * ψ (a₂, b₁) := by
  have hs := h.submatrix (fun p : Fin 2 × Fin 2 => ((![a₁, a₂] p.1, ![b₁, b₂] p.2) : m × n))
  have e : (pTAp (vecMulVec ψ (star ψ))).submatrix (fun p : Fin 2 × Fin 2 => ((![a₁, a₂] p.1, ![b₁, b₂] p.2) : m × n))
      (fun p : Fin 2 × Fin 2 => ((![a₁, a₂] p.1, ![b₁, b₂] p.2) : m × n))
      = Matrix.of fun (i j : Fin 2 × Fin 2) =>
          (fun x y : Fin 2 => ψ (![a₁, a₂] x, ![b₁, b₂] y)) j.1 i.2 * star ((fun x y : Fin 2 => ψ (![a₁, a₂] x, ![b₁, b₂] y)) i.1 j.2) := by
    ext i j
    simp [pTAp, Matrix.vecMulVec_apply]
  rw [e] at hs
  simpa using det_eq_zero_of_ppt_pure22 (fun x y : Fin 2 => ψ (![a₁, a₂] x, ![b₁, b₂] y)) hs

/-- a coefficient matrix all of whose `2 × 2` minors vanish is a product -/
theorem product_of_minors_eq_zero (ψ : m × n → ℂ)
    (h : ∀ (a₁ a₂ : m) (b₁ b₂ : n), ψ (a₁, b₁) * ψ (a₂, b₂) = ψ (a₁, b₂) * ψ (a₂, b₁)) :
    ∃ (a : m → ℂ) (b : n → ℂ), ∀ i, ψ i = a i.1 * b i.2 := by
  by_cases h0 : ∀ i, ψ i = 0
  · exact ⟨0, 0, fun i => by simp [h0 i]⟩
  · push_neg at h0
    obtain ⟨⟨a₀, b₀⟩, hne⟩ := h0
    refine ⟨fun x => ψ (x, b₀), fun y => ψ (a₀, y) / ψ (a₀, b₀), fun i => ?_⟩
    obtain ⟨x, y⟩ := i
    have := h x a₀ y b₀
    field_simp
    linear_combination this

/-- the partial transpose of a product projector is positive semidefinite -/
theorem ppt_of_product (a : m → ℂ) (b : n → ℂ) :
    (pTAp (vecMulVec (fun i : m × n => a i.1 * b i.2) (star fun i : m × n => a i.1 * b i.2))).PosSemidef := by
  have e : pTAp (vecMulVec (fun i : m × n => a i.1 * b i.2) (star fun i : m × n => a i.1 * b i.2))
      = (vecMulVec a (star a))ᵀ ⊗ₖ vecMulVec b (star b) := by
    ext i j
    simp only [pTAp, Matrix.vecMulVec_apply, Pi.star_apply, star_mul', Matrix.kroneckerMap_apply, Matrix.transpose_apply]
    ring
  rw [e]
  exact (Matrix.posSemidef_vecMulVec_self_star a).transpose.kronecker (Matrix.posSemidef_vecMulVec_self_star b)

/-- **for pure states the PPT criterion is exact**: `ψ ψᴴ` has a positive semidefinite partial transpose iff `ψ` is a product vector -/
theorem pure_ppt_iff_product (ψ : m × n → ℂ) :
    (pTAp (vecMulVec ψ (star ψ))).PosSemidef ↔ ∃ (a : m → ℂ) (b : n → ℂ), ∀ i, ψ i = a i.1 * b i.2 := by
  constructor
  · intro h
    exact product_of_minors_eq_zero ψ (minors_eq_zero_of_ppt_pure ψ h)
  · rintro ⟨a, b, hab⟩
    have : ψ = fun i : m × n => a i.1 * b i.2 := funext hab
    rw [this]
    exact ppt_of_product a b

/-- a unit product vector is the product of two unit vectors -/
theorem exists_unit_factors (ψ : m × n → ℂ) (hψ : ψ ⬝ᵥ star ψ = 1) (a : m → ℂ) (b : n → ℂ) (hab : ∀ i, ψ i = a i.1 * b i.2) :
    ∃ (a' : m → ℂ) (b' : n → ℂ), a' ⬝ᵥ star a' = 1 ∧ b' ⬝ᵥ star b' = 1 ∧ ∀ i, ψ i = a' i.1 * b' i.2 := by
  set r : ℝ := ∑ x, Complex.normSq (a x) with hr
  have hra : a ⬝ᵥ star a = (r : ℂ) := by
    rw [hr, Complex.ofReal_sum]
    simp only [dotProduct, Pi.star_apply]
    exact Finset.sum_congr rfl fun x _ => by rw [Complex.star_def, Complex.mul_conj]
  have hprod : (a ⬝ᵥ star a) * (b ⬝ᵥ star b) = 1 := by
    rw [← hψ]
    simp only [dotProduct, Pi.star_apply, Fintype.sum_prod_type, hab, star_mul']
    rw [Finset.sum_mul_sum]
    exact Finset.sum_congr rfl fun x _ => Finset.sum_congr rfl fun y _ => by ring
  have hr0 : 0 ≤ r := Finset.sum_nonneg fun _ _ => Complex.normSq_nonneg _
  have hrne : r ≠ 0 := by
    intro h0
    rw [hra, h0] at hprod
    simp at hprod
  have hpos : 0 < r := lt_of_le_of_ne hr0 (Ne.symm hrne)
  set s : ℝ := Real.sqrt r with hs
  have hs2 : s * s = r := Real.mul_self_sqrt hr0
  have hspos : 0 < s := Real.sqrt_pos.mpr hpos
  have hsne : (s : ℂ) ≠ 0 := by exact_mod_cast hspos.ne'
  have hss : (s : ℂ) * (s : ℂ) = (r : ℂ) := by rw [← Complex.ofReal_mul, hs2]
  refine ⟨fun x => (s : ℂ)⁻¹ * a x, fun y => (s : ℂ) * b y, ?_, ?_, fun i => ?_⟩
  · have : (fun x => (s : ℂ)⁻¹ * a x) ⬝ᵥ star (fun x => (s : ℂ)⁻¹ * a x) = (s : ℂ)⁻¹ * (s : ℂ)⁻¹ * (a ⬝ᵥ star a) := by
      simp only [dotProduct, Pi.star_apply, star_mul', Complex.star_def, Complex.conj_inv, Complex.conj_ofReal, Finset.mul_sum]
      exact Finset.sum_congr rfl fun x _ => by ring
    rw [this, hra, ← hss]
    field_simp
  · have : (fun y => (s : ℂ) * b y) ⬝ᵥ star (fun y => (s : ℂ) * b y) = (s : ℂ) * (s : ℂ) * (b ⬝ᵥ star b) := by
      simp only [dotProduct, Pi.star_apply, star_mul', Complex.star_def, Complex.conj_ofReal, Finset.mul_sum]
      exact Finset.sum_congr rfl fun y _ => by ring
    rw [this, hss, ← hra, hprod]
  · rw [hab i]
    field_simp

end Pure

section Value
variable {m : Type*} [Fintype m] [DecidableEq m] {d : ℕ}

/-- **every pure state the PPT test lets through has value one**: for a unit vector `ψ` on `A ⊗ B` whose projector has a positive
semidefinite partial transpose, the program of `fidelity_of_separability` has optimal value `1` at every level -/
theorem fosV_pure_ppt (ℓ : ℕ) (ψ : m × Fin d → ℂ) (hψ : ψ ⬝ᵥ star ψ = 1) (h : (pTAp (vecMulVec ψ (star ψ))).PosSemidef) :
    IsGreatest (fosSet ℓ (vecMulVec ψ (star ψ))) 1 ∧ fosV ℓ (vecMulVec ψ (star ψ)) = 1 := by
  obtain ⟨a, b, hab⟩ := (pure_ppt_iff_product ψ).mp h
  obtain ⟨a', b', ha', hb', hab'⟩ := exists_unit_factors ψ hψ a b hab
  have e : vecMulVec ψ (star ψ) = fosProdRho a' b' := by
    rw [fosProdRho_eq_vecMulVec]
    have : ψ = fun i : m × Fin d => a' i.1 * b' i.2 := funext hab'
    rw [this]
  rw [e]
  exact ⟨fos_isGreatest_product ℓ a' b' ha' hb', fosV_product ℓ a' b' ha' hb'⟩

end Value
end Toq.Metrics
