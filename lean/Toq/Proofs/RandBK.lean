import Toq.Spec.Rand
import Toq.Proofs.Cert
import Mathlib.Algebra.QuadraticDiscriminant
/-!
# Barnum–Knill: `P(M)² ≤ P_pgm · tr(Σ pᵢρᵢ)` for every measurement `M`

Route (no fourth roots needed): for a positive semidefinite `S` the real form `⟪X, Y⟫_S = Re tr(S Xᴴ S Y)` on matrices is
symmetric and positive semidefinite (`tr(S · XᴴSX) ≥ 0` is `psd_trace_mul_nonneg`), hence satisfies Cauchy–Schwarz (discriminant
argument), also summed over a family.  With `S = (Σ Aᵢ)^{-1/2}`, `R = S⁻¹`, `Xᵢ = Aᵢ = pᵢρᵢ`, `Yᵢ = R Mᵢ R`:

* `⟪Aᵢ, R Mᵢ R⟫_S = Re tr(Aᵢ Mᵢ)`  — the success probability of `M`;
* `⟪Aᵢ, Aᵢ⟫_S = Re tr(Aᵢ · S Aᵢ S)` — the success probability of the pretty good measurement;
* `⟪R Mᵢ R, R Mᵢ R⟫_S = Re tr(R Mᵢ R · Mᵢ) ≤ Re tr(R Mᵢ R)` because `0 ≤ Mᵢ ≤ 1`, and `Σᵢ tr(R Mᵢ R) = tr(R R) = tr(Σ Aᵢ)`.
-/

open Matrix
open scoped ComplexOrder MatrixOrder

namespace Toq.Rand

variable {ι : Type*} [Fintype ι] [DecidableEq ι] {κ : Type*} [Fintype κ]

/-- the real bilinear form `Re tr(S Xᴴ S Y)` -/
noncomputable def bkForm (S X Y : Matrix ι ι ℂ) : ℝ := (S * Xᴴ * S * Y).trace.re

theorem bkForm_self_nonneg {S : Matrix ι ι ℂ} (hS : S.PosSemidef) (X : Matrix ι ι ℂ) : 0 ≤ bkForm S X X := by
  unfold bkForm
  have h : S * Xᴴ * S * X = S * (Xᴴ * S * X) := by simp only [Matrix.mul_assoc]
  rw [h]
  exact psd_trace_mul_nonneg hS (hS.conjTranspose_mul_mul_same X)

omit [DecidableEq ι] in
theorem bkForm_symm {S : Matrix ι ι ℂ} (hS : Sᴴ = S) (X Y : Matrix ι ι ℂ) : bkForm S X Y = bkForm S Y X := by
  unfold bkForm
  have h : (S * Yᴴ * S * X) = (Xᴴ * S * Y * S)ᴴ := by
    simp only [conjTranspose_mul, conjTranspose_conjTranspose, hS, Matrix.mul_assoc]
  rw [h, trace_conjTranspose, Complex.star_def, Complex.conj_re]
  congr 1
  have h2 : S * Xᴴ * S * Y = S * (Xᴴ * S * Y) := by simp only [Matrix.mul_assoc]
  rw [h2, Matrix.trace_mul_comm S]

omit [DecidableEq ι] in
theorem bkForm_add_left (S X X' Y : Matrix ι ι ℂ) : bkForm S (X + X') Y = bkForm S X Y + bkForm S X' Y := by
  unfold bkForm
  rw [conjTranspose_add, Matrix.mul_add, Matrix.add_mul, Matrix.add_mul, trace_add, Complex.add_re]

omit [DecidableEq ι] in
theorem bkForm_add_right (S X Y Y' : Matrix ι ι ℂ) : bkForm S X (Y + Y') = bkForm S X Y + bkForm S X Y' := by
  unfold bkForm
  rw [Matrix.mul_add, trace_add, Complex.add_re]

omit [DecidableEq ι] in
theorem bkForm_smul_left (S X Y : Matrix ι ι ℂ) (t : ℝ) : bkForm S ((t : ℂ) • X) Y = t * bkForm S X Y := by
  unfold bkForm
  rw [conjTranspose_smul, Matrix.mul_smul, Matrix.smul_mul, Matrix.smul_mul, trace_smul]
  simp

omit [DecidableEq ι] in
theorem bkForm_smul_right (S X Y : Matrix ι ι ℂ) (t : ℝ) : bkForm S X ((t : ℂ) • Y) = t * bkForm S X Y := by
  unfold bkForm
  rw [Matrix.mul_smul, trace_smul]
  simp

omit [DecidableEq ι] in
/-- the quadratic polynomial `t ↦ Σᵢ ⟪Xᵢ + t Yᵢ, Xᵢ + t Yᵢ⟫` -/
theorem bkForm_quadratic {S : Matrix ι ι ℂ} (hS : Sᴴ = S) (X Y : κ → Matrix ι ι ℂ) (t : ℝ) :
    ∑ i, bkForm S (X i + (t : ℂ) • Y i) (X i + (t : ℂ) • Y i)
      = (∑ i, bkForm S (Y i) (Y i)) * (t * t) + (2 * ∑ i, bkForm S (X i) (Y i)) * t + ∑ i, bkForm S (X i) (X i) := by
  have h : ∀ i, bkForm S (X i + (t : ℂ) • Y i) (X i + (t : ℂ) • Y i)
      = bkForm S (Y i) (Y i) * (t * t) + (2 * bkForm S (X i) (Y i)) * t + bkForm S (X i) (X i) := by
    intro i
    rw [bkForm_add_left, bkForm_add_right, bkForm_add_right, bkForm_smul_left, bkForm_smul_left, bkForm_smul_right,
      bkForm_smul_right, bkForm_symm hS (Y i) (X i)]
    ring
  simp_rw [h]
  rw [Finset.sum_add_distrib, Finset.sum_add_distrib, ← Finset.sum_mul, ← Finset.sum_mul, Finset.mul_sum]

/-- **Cauchy–Schwarz** for the summed form -/
theorem bkForm_cauchy_schwarz {S : Matrix ι ι ℂ} (hS : S.PosSemidef) (X Y : κ → Matrix ι ι ℂ) :
    (∑ i, bkForm S (X i) (Y i)) ^ 2 ≤ (∑ i, bkForm S (X i) (X i)) * ∑ i, bkForm S (Y i) (Y i) := by
  have hq : ∀ t : ℝ, 0 ≤ (∑ i, bkForm S (Y i) (Y i)) * (t * t) + (2 * ∑ i, bkForm S (X i) (Y i)) * t
      + ∑ i, bkForm S (X i) (X i) := by
    intro t
    rw [← bkForm_quadratic hS.isHermitian.eq X Y t]
    exact Finset.sum_nonneg (fun i _ => bkForm_self_nonneg hS _)
  have := discrim_le_zero hq
  unfold discrim at this
  nlinarith [this]

/-! ## The three evaluations -/

section pgm
variable (A M : κ → Matrix ι ι ℂ) (S : Matrix ι ι ℂ)

/-- from `S (ΣA) S = 1`: `R = (ΣA) S` is a two-sided inverse of `S`, Hermitian, and `R R = ΣA` -/
theorem bk_inverse_facts (hS : Sᴴ = S) (hA : ∀ i, (A i)ᴴ = A i) (hSPS : S * (∑ i, A i) * S = 1) :
    S * ((∑ i, A i) * S) = 1 ∧ ((∑ i, A i) * S) * S = 1 ∧ ((∑ i, A i) * S)ᴴ = (∑ i, A i) * S ∧
      ((∑ i, A i) * S) * ((∑ i, A i) * S) = ∑ i, A i := by
  set P := ∑ i, A i with hP
  have hPh : Pᴴ = P := by rw [hP, conjTranspose_sum]; exact Finset.sum_congr rfl (fun i _ => hA i)
  have h1 : S * (P * S) = 1 := by rw [← Matrix.mul_assoc]; exact hSPS
  have h2 : (P * S) * S = 1 := mul_eq_one_comm.mp h1
  have h3 : (S * P) * S = 1 := hSPS
  have h4 : S * (S * P) = 1 := mul_eq_one_comm.mp h3
  -- two right inverses of S... `P S` and `S P` are both inverses of `S`
  have h5 : P * S = S * P := by
    calc P * S = (P * S) * (S * (S * P)) := by rw [h4, Matrix.mul_one]
      _ = ((P * S) * S) * (S * P) := by simp only [Matrix.mul_assoc]
      _ = S * P := by rw [h2, Matrix.one_mul]
  refine ⟨h1, h2, ?_, ?_⟩
  · rw [conjTranspose_mul, hS, hPh, h5]
  · calc (P * S) * (P * S) = (P * S) * (S * P) := by rw [h5]
      _ = ((P * S) * S) * P := by simp only [Matrix.mul_assoc]
      _ = P := by rw [h2, Matrix.one_mul]

end pgm

/-- **Barnum–Knill.**  `A i = pᵢρᵢ` positive semidefinite, `S` positive semidefinite with `S (Σ A) S = 1`, `M` a POVM:
`(Σ Re tr(Aᵢ Mᵢ))² ≤ (Σ Re tr(Aᵢ · S Aᵢ S)) · Re tr(Σ Aᵢ)`. -/
theorem barnum_knill (A M : κ → Matrix ι ι ℂ) (S : Matrix ι ι ℂ) (hA : ∀ i, (A i).PosSemidef) (hS : S.PosSemidef)
    (hSPS : S * (∑ i, A i) * S = 1) (hM : IsPOVM M) :
    (∑ i, (A i * M i).trace.re) ^ 2 ≤ (∑ i, (A i * (S * A i * S)).trace.re) * (∑ i, A i).trace.re := by
  classical
  have hSh : Sᴴ = S := hS.isHermitian.eq
  have hAh : ∀ i, (A i)ᴴ = A i := fun i => (hA i).isHermitian.eq
  have hMh : ∀ i, (M i)ᴴ = M i := fun i => (hM.1 i).isHermitian.eq
  obtain ⟨hSR, hRS, hRh, hRR⟩ := bk_inverse_facts A S hSh hAh hSPS
  generalize (∑ i, A i) * S = R at hSR hRS hRh hRR
  have hcs := bkForm_cauchy_schwarz hS A (fun i => R * M i * R)
  -- (1) ⟪A_i, R M_i R⟫ = Re tr(A_i M_i)
  have e1 : ∀ i, bkForm S (A i) (R * M i * R) = (A i * M i).trace.re := by
    intro i
    unfold bkForm
    rw [hAh i]
    have h1 : S * A i * S * (R * M i * R) = S * (A i * ((S * R) * M i * R)) := by simp only [Matrix.mul_assoc]
    rw [h1, hSR, Matrix.one_mul, Matrix.trace_mul_comm S]
    have h2 : A i * (M i * R) * S = A i * M i * (R * S) := by simp only [Matrix.mul_assoc]
    rw [h2, hRS, Matrix.mul_one]
  -- (2) ⟪A_i, A_i⟫ = Re tr(A_i · S A_i S)
  have e2 : ∀ i, bkForm S (A i) (A i) = (A i * (S * A i * S)).trace.re := by
    intro i
    unfold bkForm
    rw [hAh i, Matrix.trace_mul_comm (A i)]
  -- (3) ⟪R M_i R, R M_i R⟫ ≤ Re tr(R M_i R)
  have e3 : ∀ i, bkForm S (R * M i * R) (R * M i * R) ≤ (R * M i * R).trace.re := by
    intro i
    unfold bkForm
    have hh : (R * M i * R)ᴴ = R * M i * R := by
      rw [conjTranspose_mul, conjTranspose_mul, hRh, hMh i, Matrix.mul_assoc]
    rw [hh]
    have : S * (R * M i * R) * S * (R * M i * R) = (S * R) * M i * (R * S) * (R * M i * R) := by
      simp only [Matrix.mul_assoc]
    rw [this, hSR, hRS, Matrix.one_mul, Matrix.mul_one]
    -- tr(M_i · RM_iR) = tr(RM_iR) − tr((1 − M_i) RM_iR)
    have hpsd : (R * M i * R).PosSemidef := by
      have := (hM.1 i).mul_mul_conjTranspose_same R
      rwa [hRh] at this
    have hcomp : (1 - M i).PosSemidef := by
      rw [← hM.2]
      have : ∑ j, M j - M i = ∑ j ∈ Finset.univ.erase i, M j := by
        rw [← Finset.add_sum_erase _ _ (Finset.mem_univ i)]; abel
      rw [this]
      exact posSemidef_sum _ (fun j _ => hM.1 j)
    have hnn := psd_trace_mul_nonneg hcomp hpsd
    rw [Matrix.sub_mul, Matrix.one_mul, trace_sub, Complex.sub_re] at hnn
    linarith
  have e4 : ∑ i, (R * M i * R).trace.re = (∑ i, A i).trace.re := by
    rw [← Complex.re_sum, ← trace_sum, ← Finset.sum_mul, ← Finset.mul_sum, hM.2, Matrix.mul_one, hRR]
  simp_rw [e1, e2] at hcs
  refine hcs.trans ?_
  apply mul_le_mul_of_nonneg_left
  · rw [← e4]; exact Finset.sum_le_sum (fun i _ => e3 i)
  · exact Finset.sum_nonneg (fun i _ => by rw [← e2]; exact bkForm_self_nonneg hS _)

end Toq.Rand
