import Toq.Proofs.NpaPovm
import Mathlib.Analysis.Matrix.HermitianFunctionalCalculus
import Mathlib.Analysis.Matrix.PosDef
import Mathlib.LinearAlgebra.Matrix.Vec
/-!
# The feasible points of the see-saw programs are quantum strategies (C07)

`quantum_value_lower_bound` alternates two semidefinite programs.  A feasible point of Alice's program
(`__optimize_alice`) is an **assemblage**: positive semidefinite `σ x a` with `Σ_a σ x a = τ` for every question `x`,
`tr τ = 1`, `τ ⪰ 0`; a feasible point of Bob's program (`__optimize_bob`) is a family of POVMs `B y b`.  The value of
both programs at `(σ, B)` is `Σ π(x,y) V(a,b|x,y) Re tr(B y bᴴ σ x a)`.

This file proves (Gisin / Hughston–Jozsa–Wootters, finite dimension, without assuming `τ` invertible) that every such
pair is realised by a tensor-product POVM strategy (`PovmStrategy`): with the spectral calculus of `τ`,
`S = √τ`, `G = (√τ)⁺` (pseudo-inverse), `Π = G S` the support projector, `Q = 1 − Π`:

* `σ x a ≤ τ` forces `σ x a = Π σ x a Π` (`supp_absorb`),
* `M x a = G σ x a G + [a = 0] Q` is a POVM with `S M x a S = σ x a`,
* the state `vec S` (purification of `τ`) and Alice's POVM `(M x a)ᵀ` give `⟨ψ| (M x a)ᵀ ⊗ B y b |ψ⟩ = tr(B y b σ x a)`.

Combined with the Naimark dilation of `Toq/Proofs/NpaPovm.lean` every see-saw value is a value of a commuting projective
strategy, hence at most every NPA-level bound.
-/

namespace Toq.Npa
open Matrix
open scoped ComplexOrder Kronecker

/-! ### spectral calculus of one Hermitian matrix -/

section Cfc
variable {n : Type} [Fintype n] [DecidableEq n] {A : Matrix n n ℂ} (hA : A.IsHermitian)

theorem hcfc_mul (g h : ℝ → ℝ) : hA.cfc g * hA.cfc h = hA.cfc (fun t => g t * h t) := by
  unfold Matrix.IsHermitian.cfc
  rw [← map_mul, Matrix.diagonal_mul_diagonal]
  congr 2
  funext i
  simp

theorem hcfc_congr (g h : ℝ → ℝ) (e : ∀ i, g (hA.eigenvalues i) = h (hA.eigenvalues i)) : hA.cfc g = hA.cfc h := by
  unfold Matrix.IsHermitian.cfc
  congr 2
  funext i
  simp [e i]

theorem hcfc_id : hA.cfc (fun t => t) = A := by
  conv_rhs => rw [hA.spectral_theorem]
  rfl

theorem hcfc_one : hA.cfc (fun _ => 1) = 1 := by
  unfold Matrix.IsHermitian.cfc
  have : (diagonal (RCLike.ofReal ∘ (fun _ : ℝ => (1 : ℝ)) ∘ hA.eigenvalues) : Matrix n n ℂ) = 1 := by
    rw [← Matrix.diagonal_one]
    congr 1
  rw [this, map_one]

theorem hcfc_sub (g h : ℝ → ℝ) : hA.cfc g - hA.cfc h = hA.cfc (fun t => g t - h t) := by
  unfold Matrix.IsHermitian.cfc
  rw [← map_sub, Matrix.diagonal_sub]
  congr 2
  funext i
  simp

theorem hcfc_herm (g : ℝ → ℝ) : (hA.cfc g)ᴴ = hA.cfc g := by
  unfold Matrix.IsHermitian.cfc
  rw [← Matrix.star_eq_conjTranspose, ← map_star, Matrix.star_eq_conjTranspose, Matrix.diagonal_conjTranspose]
  congr 2
  funext i
  simp

theorem hcfc_psd (g : ℝ → ℝ) (hg : ∀ i, 0 ≤ g (hA.eigenvalues i)) : (hA.cfc g).PosSemidef := by
  have e : hA.cfc g = (hA.cfc (fun t => Real.sqrt (g t)))ᴴ * hA.cfc (fun t => Real.sqrt (g t)) := by
    rw [hcfc_herm, hcfc_mul]
    exact hcfc_congr hA _ _ (fun i => (Real.mul_self_sqrt (hg i)).symm)
  rw [e]
  exact Matrix.posSemidef_conjTranspose_mul_self _

end Cfc

/-! ### square root, pseudo-inverse square root and support projector of a positive semidefinite matrix -/

section Supp
variable {n : Type} [Fintype n] [DecidableEq n] {τ : Matrix n n ℂ} (hτ : τ.PosSemidef)

/-- `√τ` -/
noncomputable def sqrtM : Matrix n n ℂ := hτ.1.cfc Real.sqrt
/-- the pseudo-inverse of `√τ` (`0⁻¹ = 0` on the kernel) -/
noncomputable def pinvSqrt : Matrix n n ℂ := hτ.1.cfc (fun t => (Real.sqrt t)⁻¹)
/-- the projector onto the support of `τ` -/
noncomputable def suppP : Matrix n n ℂ := hτ.1.cfc (fun t => (Real.sqrt t)⁻¹ * Real.sqrt t)

theorem inv_mul_mul_self (r : ℝ) : r⁻¹ * r * r = r := by
  by_cases h : r = 0
  · simp [h]
  · rw [inv_mul_cancel₀ h, one_mul]

theorem sqrtM_herm : (sqrtM hτ)ᴴ = sqrtM hτ := hcfc_herm _ _
theorem pinvSqrt_herm : (pinvSqrt hτ)ᴴ = pinvSqrt hτ := hcfc_herm _ _
theorem suppP_herm : (suppP hτ)ᴴ = suppP hτ := hcfc_herm _ _

theorem sqrtM_mul_self : sqrtM hτ * sqrtM hτ = τ := by
  unfold sqrtM
  rw [hcfc_mul]
  conv_rhs => rw [← hcfc_id hτ.1]
  exact hcfc_congr _ _ _ (fun i => Real.mul_self_sqrt (hτ.eigenvalues_nonneg i))

theorem pinv_mul_sqrt : pinvSqrt hτ * sqrtM hτ = suppP hτ := by
  unfold pinvSqrt sqrtM suppP
  rw [hcfc_mul]

theorem sqrt_mul_pinv : sqrtM hτ * pinvSqrt hτ = suppP hτ := by
  unfold pinvSqrt sqrtM suppP
  rw [hcfc_mul]
  exact hcfc_congr _ _ _ (fun _ => mul_comm _ _)

theorem suppP_mul_sqrt : suppP hτ * sqrtM hτ = sqrtM hτ := by
  unfold sqrtM suppP
  rw [hcfc_mul]
  exact hcfc_congr _ _ _ (fun i => inv_mul_mul_self _)

theorem sqrt_mul_suppP : sqrtM hτ * suppP hτ = sqrtM hτ := by
  unfold sqrtM suppP
  rw [hcfc_mul]
  exact hcfc_congr _ _ _ (fun i => by rw [mul_comm]; exact inv_mul_mul_self _)

theorem suppP_idem : suppP hτ * suppP hτ = suppP hτ := by
  rw [← pinv_mul_sqrt, Matrix.mul_assoc, ← Matrix.mul_assoc (sqrtM hτ), sqrt_mul_pinv, suppP_mul_sqrt]

theorem mul_suppP : τ * suppP hτ = τ := by
  calc τ * suppP hτ = sqrtM hτ * sqrtM hτ * suppP hτ := by rw [sqrtM_mul_self]
    _ = τ := by rw [Matrix.mul_assoc, sqrt_mul_suppP, sqrtM_mul_self]

theorem suppP_mul : suppP hτ * τ = τ := by
  calc suppP hτ * τ = suppP hτ * (sqrtM hτ * sqrtM hτ) := by rw [sqrtM_mul_self]
    _ = τ := by rw [← Matrix.mul_assoc, suppP_mul_sqrt, sqrtM_mul_self]

theorem pinvSqrt_psd : (pinvSqrt hτ).PosSemidef :=
  hcfc_psd _ _ (fun i => inv_nonneg.mpr (Real.sqrt_nonneg _))

/-- a matrix that is both `⪰ 0` and `⪯ 0` vanishes -/
theorem psd_neg_psd_eq_zero {X : Matrix n n ℂ} (h1 : X.PosSemidef) (h2 : (-X).PosSemidef) : X = 0 := by
  have t1 := h1.trace_nonneg
  have t2 := h2.trace_nonneg
  rw [Matrix.trace_neg] at t2
  have : X.trace = 0 := le_antisymm (neg_nonneg.mp t2) t1
  exact h1.trace_eq_zero_iff.mp this

/-- **the support of `σ ≤ τ` lies in the support of `τ`**: if `σ ⪰ 0` and `τ − σ ⪰ 0` then `Π σ Π = σ` for the
    support projector `Π` of `τ` (no invertibility assumption) -/
theorem supp_absorb {σ : Matrix n n ℂ} (hσ : σ.PosSemidef) (hle : (τ - σ).PosSemidef) :
    suppP hτ * σ * suppP hτ = σ := by
  obtain ⟨Q, hQ⟩ : ∃ Q : Matrix n n ℂ, Q = 1 - suppP hτ := ⟨_, rfl⟩
  have hQh : Qᴴ = Q := by rw [hQ, Matrix.conjTranspose_sub, Matrix.conjTranspose_one, suppP_herm]
  have hτQ : τ * Q = 0 := by rw [hQ, Matrix.mul_sub, Matrix.mul_one, mul_suppP, sub_self]
  have h1 : (Qᴴ * σ * Q).PosSemidef := hσ.conjTranspose_mul_mul_same Q
  have h2 : (Qᴴ * (τ - σ) * Q).PosSemidef := hle.conjTranspose_mul_mul_same Q
  have e : Qᴴ * (τ - σ) * Q = -(Qᴴ * σ * Q) := by
    rw [Matrix.mul_sub, Matrix.sub_mul, Matrix.mul_assoc Qᴴ τ Q, hτQ, Matrix.mul_zero, zero_sub]
  rw [e] at h2
  have hz : Qᴴ * σ * Q = 0 := psd_neg_psd_eq_zero h1 h2
  obtain ⟨C, hC⟩ := psd_factor hσ
  have hCQ : C * Q = 0 := by
    have : (C * Q)ᴴ * (C * Q) = 0 := by
      rw [Matrix.conjTranspose_mul, ← hz, hC]
      simp only [Matrix.mul_assoc]
    exact Matrix.conjTranspose_mul_self_eq_zero.mp this
  have hσQ : σ * Q = 0 := by rw [hC, Matrix.mul_assoc, hCQ, Matrix.mul_zero]
  have hQσ : Q * σ = 0 := by
    have := congrArg Matrix.conjTranspose hσQ
    rwa [Matrix.conjTranspose_mul, hQh, hσ.1.eq, Matrix.conjTranspose_zero] at this
  have hP : suppP hτ = 1 - Q := by rw [hQ]; abel
  rw [hP, Matrix.sub_mul, Matrix.one_mul, hQσ, sub_zero, Matrix.mul_sub, Matrix.mul_one, hσQ, sub_zero]

end Supp

/-! ### feasible points of the see-saw programs -/

section Seesaw

theorem psd_sumN {n : Type} [Fintype n] (F : Nat → Matrix n n ℂ) :
    ∀ k, (∀ a, a < k → (F a).PosSemidef) → (sumN k F).PosSemidef
  | 0, _ => by simpa [sumN] using Matrix.PosSemidef.zero
  | k + 1, h => by
    show (sumN k F + F k).PosSemidef
    exact (psd_sumN F k (fun a ha => h a (by omega))).add (h k (by omega))

/-- one term of a sum of positive semidefinite matrices is dominated by the sum -/
theorem psd_sumN_sub {n : Type} [Fintype n] (F : Nat → Matrix n n ℂ) :
    ∀ k, (∀ a, a < k → (F a).PosSemidef) → ∀ a, a < k → (sumN k F - F a).PosSemidef
  | 0, _, a, ha => by omega
  | k + 1, h, a, ha => by
    show (sumN k F + F k - F a).PosSemidef
    by_cases hak : a = k
    · subst hak
      rw [add_sub_cancel_right]
      exact psd_sumN F a (fun b hb => h b (by omega))
    · have : sumN k F + F k - F a = (sumN k F - F a) + F k := by abel
      rw [this]
      exact (psd_sumN_sub F k (fun b hb => h b (by omega)) a (by omega)).add (h k (by omega))

theorem transpose_sumN {n : Type} (F : Nat → Matrix n n ℂ) : ∀ k, (sumN k F)ᵀ = sumN k (fun a => (F a)ᵀ)
  | 0 => by simp [sumN]
  | k + 1 => by
    show (sumN k F + F k)ᵀ = sumN k (fun a => (F a)ᵀ) + (F k)ᵀ
    rw [Matrix.transpose_add, transpose_sumN F k]

/-- A **feasible point of the two see-saw programs** of `quantum_value_lower_bound` in dimension `d`:
    `sigma x a` are the values of the variables `alice_povms[x, a]` of `__optimize_alice` (constraints
    `alice_povms[x, a] >> 0`, `Σ_a alice_povms[x, a] == tau`, `trace(tau) == 1`, `tau >> 0`) and `B y b` the values of
    `bob_povms[y, b]` of `__optimize_bob` (`bob_povms[y, b] >> 0`, `Σ_b bob_povms[y, b] == I`). -/
structure SeesawPoint (d ao bo ai bi : Nat) where
  sigma : Nat → Nat → Matrix (Fin d) (Fin d) ℂ
  tau : Matrix (Fin d) (Fin d) ℂ
  B : Nat → Nat → Matrix (Fin d) (Fin d) ℂ
  sigma_psd : ∀ x a, x < ai → a < ao → (sigma x a).PosSemidef
  sigma_sum : ∀ x, x < ai → sumN ao (fun a => sigma x a) = tau
  tau_tr : tau.trace = 1
  tau_psd : tau.PosSemidef
  B_povm : ∀ y, y < bi → IsPovmN bo (B y)

variable {d ao bo ai bi : Nat} (P : SeesawPoint d ao bo ai bi)

/-- the coefficient of `prob[x, y] * pred[a, b, x, y]` in the objective of both programs:
    `trace(bob_povms[y, b]ᴴ @ alice_povms[x, a])` (zero outside the alphabets) -/
def SeesawPoint.K : Nat → Nat → Nat → Nat → ℂ := fun a b x y =>
  if a < ao ∧ b < bo ∧ x < ai ∧ y < bi then ((P.B y b)ᴴ * P.sigma x a).trace else 0

/-- Alice's POVM element before transposition: `M x a = G σ(x,a) G + [a = 0]·(1 − Π)` -/
noncomputable def SeesawPoint.M (x a : Nat) : Matrix (Fin d) (Fin d) ℂ :=
  pinvSqrt P.tau_psd * P.sigma x a * pinvSqrt P.tau_psd + (if a = 0 then 1 - suppP P.tau_psd else 0)

theorem SeesawPoint.M_psd (x a : Nat) (hx : x < ai) (ha : a < ao) : (P.M x a).PosSemidef := by
  unfold SeesawPoint.M
  refine Matrix.PosSemidef.add ?_ ?_
  · have := (P.sigma_psd x a hx ha).conjTranspose_mul_mul_same (pinvSqrt P.tau_psd)
    rwa [pinvSqrt_herm] at this
  · split
    · have hq : (1 - suppP P.tau_psd) = (1 - suppP P.tau_psd)ᴴ * (1 - suppP P.tau_psd) := by
        rw [Matrix.conjTranspose_sub, Matrix.conjTranspose_one, suppP_herm, Matrix.mul_sub, Matrix.mul_one,
          Matrix.sub_mul, Matrix.one_mul, suppP_idem, sub_self, sub_zero]
      rw [hq]
      exact Matrix.posSemidef_conjTranspose_mul_self _
    · exact Matrix.PosSemidef.zero

theorem sumN_add' {M : Type} [AddCommMonoid M] (F G : Nat → M) : ∀ k, sumN k (fun a => F a + G a) = sumN k F + sumN k G
  | 0 => by simp [sumN]
  | k + 1 => by
    show sumN k (fun a => F a + G a) + (F k + G k) = (sumN k F + F k) + (sumN k G + G k)
    rw [sumN_add' F G k]; abel

theorem SeesawPoint.M_sum (x : Nat) (hx : x < ai) (hao : 0 < ao) : sumN ao (fun a => P.M x a) = 1 := by
  unfold SeesawPoint.M
  rw [sumN_add', sumN_mul_right, sumN_mul_left, P.sigma_sum x hx]
  have h0 : sumN ao (fun a => if a = 0 then 1 - suppP P.tau_psd else (0 : Matrix (Fin d) (Fin d) ℂ))
      = 1 - suppP P.tau_psd := by
    have := sumN_ite_eq ao 0 (fun _ => 1 - suppP P.tau_psd) hao
    simpa [eq_comm] using this
  rw [h0]
  have : pinvSqrt P.tau_psd * P.tau * pinvSqrt P.tau_psd = suppP P.tau_psd := by
    calc pinvSqrt P.tau_psd * P.tau * pinvSqrt P.tau_psd
        = pinvSqrt P.tau_psd * (sqrtM P.tau_psd * sqrtM P.tau_psd) * pinvSqrt P.tau_psd := by
          rw [sqrtM_mul_self]
      _ = suppP P.tau_psd := by
          rw [← Matrix.mul_assoc, pinv_mul_sqrt, Matrix.mul_assoc, sqrt_mul_pinv, suppP_idem]
  rw [this]
  abel

theorem SeesawPoint.sqrt_M_sqrt (x a : Nat) (hx : x < ai) (ha : a < ao) :
    sqrtM P.tau_psd * P.M x a * sqrtM P.tau_psd = P.sigma x a := by
  unfold SeesawPoint.M
  have hle : (P.tau - P.sigma x a).PosSemidef := by
    rw [← P.sigma_sum x hx]
    exact psd_sumN_sub (fun a => P.sigma x a) ao (fun b hb => P.sigma_psd x b hx hb) a ha
  have hz : sqrtM P.tau_psd * (if a = 0 then 1 - suppP P.tau_psd else 0) = 0 := by
    split
    · rw [Matrix.mul_sub, Matrix.mul_one, sqrt_mul_suppP, sub_self]
    · simp
  rw [Matrix.mul_add, hz, add_zero]
  calc sqrtM P.tau_psd * (pinvSqrt P.tau_psd * P.sigma x a * pinvSqrt P.tau_psd) * sqrtM P.tau_psd
      = (sqrtM P.tau_psd * pinvSqrt P.tau_psd) * P.sigma x a * (pinvSqrt P.tau_psd * sqrtM P.tau_psd) := by
        simp only [Matrix.mul_assoc]
    _ = P.sigma x a := by rw [sqrt_mul_pinv, pinv_mul_sqrt, supp_absorb P.tau_psd (P.sigma_psd x a hx ha) hle]

/-- **the quantum strategy behind a see-saw point** (Gisin–Hughston–Jozsa–Wootters): the state is the purification
    `vec √τ` of `τ`, Alice measures `(M x a)ᵀ`, Bob measures `B y b` -/
noncomputable def SeesawPoint.toPovm (hao : 0 < ao) : PovmStrategy d d ao bo ai bi where
  E := fun x a => (P.M x a)ᵀ
  F := P.B
  psi := Matrix.vec (sqrtM P.tau_psd)
  E_povm := fun x hx => ⟨fun a ha => (P.M_psd x a hx ha).transpose, by
    rw [← transpose_sumN, P.M_sum x hx hao, Matrix.transpose_one]⟩
  F_povm := P.B_povm
  psi_norm := by
    rw [Matrix.star_vec_dotProduct_vec, sqrtM_herm, sqrtM_mul_self, P.tau_tr]

/-- the strategy has exactly the see-saw coefficients as behaviour: `⟨ψ| (M x a)ᵀ ⊗ B y b |ψ⟩ = tr(B y bᴴ σ x a)` -/
theorem SeesawPoint.toPovm_K (hao : 0 < ao) : (P.toPovm hao).K = P.K := by
  funext a b x y
  unfold PovmStrategy.K SeesawPoint.K
  by_cases h : a < ao ∧ b < bo ∧ x < ai ∧ y < bi
  · rw [if_pos h, if_pos h]
    obtain ⟨ha, hb, hx, hy⟩ := h
    show star (Matrix.vec (sqrtM P.tau_psd)) ⬝ᵥ (((P.M x a)ᵀ ⊗ₖ P.B y b) *ᵥ Matrix.vec (sqrtM P.tau_psd)) = _
    rw [Matrix.kronecker_mulVec_vec, Matrix.star_vec_dotProduct_vec, Matrix.transpose_transpose, sqrtM_herm,
      ((P.B_povm y hy).1 b hb).1.eq]
    calc (sqrtM P.tau_psd * (P.B y b * sqrtM P.tau_psd * P.M x a)).trace
        = (P.B y b * sqrtM P.tau_psd * P.M x a * sqrtM P.tau_psd).trace := Matrix.trace_mul_comm _ _
      _ = (P.B y b * (sqrtM P.tau_psd * P.M x a * sqrtM P.tau_psd)).trace := by simp only [Matrix.mul_assoc]
      _ = (P.B y b * P.sigma x a).trace := by rw [P.sqrt_M_sqrt x a hx ha]
  · rw [if_neg h, if_neg h]

/-- **Every feasible point of the see-saw programs is a commuting projective quantum strategy with the same
    coefficients.** -/
theorem SeesawPoint.exists_strategy (hao : 0 < ao) (hbo : 0 < bo) :
    ∃ (D : Nat) (S : QStrategy D ao bo ai bi), S.K = P.K := by
  obtain ⟨D, S, hS⟩ := (P.toPovm hao).exists_dilation hao hbo
  exact ⟨D, S, by rw [hS, P.toPovm_K]⟩

/-! ### the real objective of a complex behaviour -/

/-- `Σ π(x,y) V(a,b|x,y) Re K(a,b|x,y)` for a real game and a complex-valued behaviour: the winning probability of the
    strategy with behaviour `K`, and `Re` of the objective of `commuting_measurement_value_upper_bound` at `K` -/
def objRe (ao bo ai bi : Nat) (prob : Nat → Nat → ℝ) (pred : Nat → Nat → Nat → Nat → ℝ)
    (K : Nat → Nat → Nat → Nat → ℂ) : ℝ :=
  sumN ai fun x => sumN bi fun y => sumN ao fun a => sumN bo fun b => prob x y * pred a b x y * (K a b x y).re

/-- the value of the see-saw objective `real(Σ prob·pred·trace(Bᴴ @ A))` at the point `P` -/
theorem SeesawPoint.objRe_eq (prob : Nat → Nat → ℝ) (pred : Nat → Nat → Nat → Nat → ℝ) :
    objRe ao bo ai bi prob pred P.K
      = sumN ai fun x => sumN bi fun y => sumN ao fun a => sumN bo fun b =>
          prob x y * pred a b x y * ((P.B y b)ᴴ * P.sigma x a).trace.re := by
  unfold objRe
  refine sumN_congr _ _ _ fun x hx => sumN_congr _ _ _ fun y hy => sumN_congr _ _ _ fun a ha =>
    sumN_congr _ _ _ fun b hb => ?_
  unfold SeesawPoint.K
  rw [if_pos ⟨ha, hb, hx, hy⟩]

/-- the winning probability of a POVM strategy, written out -/
theorem PovmStrategy.objRe_eq {dA dB : Nat} (T : PovmStrategy dA dB ao bo ai bi) (prob : Nat → Nat → ℝ)
    (pred : Nat → Nat → Nat → Nat → ℝ) :
    objRe ao bo ai bi prob pred T.K
      = sumN ai fun x => sumN bi fun y => sumN ao fun a => sumN bo fun b =>
          prob x y * pred a b x y * (star T.psi ⬝ᵥ ((T.E x a ⊗ₖ T.F y b) *ᵥ T.psi)).re := by
  unfold objRe
  refine sumN_congr _ _ _ fun x hx => sumN_congr _ _ _ fun y hy => sumN_congr _ _ _ fun a ha =>
    sumN_congr _ _ _ fun b hb => ?_
  unfold PovmStrategy.K
  rw [if_pos ⟨ha, hb, hx, hy⟩]

end Seesaw

/-! ### quantum behaviours are non-signalling -/

section QNs
variable {d ao bo ai bi : Nat} (S : QStrategy d ao bo ai bi)

theorem re_sumN_c (F : Nat → ℂ) : ∀ n, (sumN n F).re = sumN n (fun k => (F k).re)
  | 0 => by simp [sumN]
  | n + 1 => by
    show (sumN n F + F n).re = sumN n (fun k => (F k).re) + (F n).re
    rw [Complex.add_re, re_sumN_c F n]

/-- the real parts of the behaviour of a commuting projective strategy form a non-signalling behaviour -/
theorem QStrategy.nsFeasible_re : NsFeasible ao bo ai bi (fun a b x y => (S.K a b x y).re) := by
  refine ⟨fun x y a b _ _ _ _ => (Complex.nonneg_iff.mp (S.K_nonneg a b x y)).1,
    fun a x => (S.expect (S.A x a)).re, fun b y => (S.expect (S.B y b)).re, ?_, ?_, ?_, ?_⟩
  · intro x y a _ hy _
    rw [← re_sumN_c, S.sum_K_bob a x y hy]
  · intro x y b hx _ _
    rw [← re_sumN_c, S.sum_K_alice b x y hx]
  · intro x hx
    rw [← re_sumN_c, ← S.expect_sumN, S.A_sum x hx, S.expect_one, Complex.one_re]
  · intro y hy
    rw [← re_sumN_c, ← S.expect_sumN, S.B_sum y hy, S.expect_one, Complex.one_re]

theorem objRe_eq_objG (prob : Nat → Nat → ℝ) (pred : Nat → Nat → Nat → Nat → ℝ) (K : Nat → Nat → Nat → Nat → ℂ) :
    objRe ao bo ai bi prob pred K = objG ao bo ai bi prob pred (fun a b x y => (K a b x y).re) := rfl

end QNs

end Toq.Npa
