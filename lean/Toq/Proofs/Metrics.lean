import Toq.Model.Metrics
import Toq.Proofs.Cert
/-!
# Helper lemmas for C13 (state distance measures)

Index-type generic facts about the variational forms of the trace norm and of Watrous' fidelity
program, the bridge from the executable `block` to `Matrix.fromBlocks`, and soundness of the core
checkers of `Toq.Model.Metrics`.
-/

open Matrix
open scoped ComplexOrder MatrixOrder

namespace Toq.Metrics

/-! ## Contractions and the trace norm -/

section TraceNorm
variable {ι : Type*} [Fintype ι] [DecidableEq ι]

/-- `W` is Hermitian with `−1 ⪯ W ⪯ 1` -/
def IsContraction (W : Matrix ι ι ℂ) : Prop := (1 - W).PosSemidef ∧ (1 + W).PosSemidef

theorem IsContraction.isHermitian {W : Matrix ι ι ℂ} (h : IsContraction W) : W.IsHermitian := by
  have h1 : (1 - W).IsHermitian := h.1.isHermitian
  have : W = 1 - (1 - W) := by abel
  rw [this]
  exact Matrix.isHermitian_one.sub h1

theorem IsContraction.zero : IsContraction (0 : Matrix ι ι ℂ) := by
  constructor <;> simpa using Matrix.PosSemidef.one

theorem IsContraction.neg {W : Matrix ι ι ℂ} (h : IsContraction W) : IsContraction (-W) := by
  refine ⟨?_, ?_⟩
  · simpa [sub_neg_eq_add] using h.2
  · simpa [← sub_eq_add_neg] using h.1

theorem IsContraction.one : IsContraction (1 : Matrix ι ι ℂ) := by
  refine ⟨by simpa using Matrix.PosSemidef.zero, ?_⟩
  exact Matrix.PosSemidef.one.add Matrix.PosSemidef.one

/-- conjugating a contraction by a unitary gives a contraction -/
theorem IsContraction.conj {W U : Matrix ι ι ℂ} (h : IsContraction W) (hU : Uᴴ * U = 1) :
    IsContraction (Uᴴ * W * U) := by
  refine ⟨?_, ?_⟩
  · have := h.1.conjTranspose_mul_mul_same U
    rwa [Matrix.mul_sub, Matrix.sub_mul, Matrix.mul_one, hU] at this
  · have := h.2.conjTranspose_mul_mul_same U
    rwa [Matrix.mul_add, Matrix.add_mul, Matrix.mul_one, hU] at this

theorem re_trace_contraction_mul_le {W P : Matrix ι ι ℂ} (hW : IsContraction W) (hP : P.PosSemidef) :
    (W * P).trace.re ≤ P.trace.re := by
  have := psd_trace_mul_nonneg hW.1 hP
  rw [Matrix.sub_mul, Matrix.one_mul, Matrix.trace_sub, Complex.sub_re] at this
  linarith

theorem neg_re_trace_contraction_mul_le {W Q : Matrix ι ι ℂ} (hW : IsContraction W) (hQ : Q.PosSemidef) :
    -(W * Q).trace.re ≤ Q.trace.re := by
  have := psd_trace_mul_nonneg hW.2 hQ
  rw [Matrix.add_mul, Matrix.one_mul, Matrix.trace_add, Complex.add_re] at this
  linarith

/-- weak duality of the two variational forms of the trace norm -/
theorem traceNorm_weak_duality_gen {H P Q W : Matrix ι ι ℂ} (hP : P.PosSemidef) (hQ : Q.PosSemidef)
    (hH : H = P - Q) (hW : IsContraction W) : (W * H).trace.re ≤ P.trace.re + Q.trace.re := by
  have h1 := re_trace_contraction_mul_le hW hP
  have h2 := neg_re_trace_contraction_mul_le hW hQ
  rw [hH, Matrix.mul_sub, Matrix.trace_sub, Complex.sub_re]
  linarith

/-- every Hermitian matrix is a difference of two positive semidefinite ones:
`H = ((H+1)/2)² − ((H−1)/2)²` -/
theorem exists_psd_decomp {H : Matrix ι ι ℂ} (hH : H.IsHermitian) :
    ∃ P Q : Matrix ι ι ℂ, P.PosSemidef ∧ Q.PosSemidef ∧ H = P - Q := by
  refine ⟨((1 / 2 : ℂ) • (H + 1))ᴴ * ((1 / 2 : ℂ) • (H + 1)),
    ((1 / 2 : ℂ) • (H - 1))ᴴ * ((1 / 2 : ℂ) • (H - 1)),
    Matrix.posSemidef_conjTranspose_mul_self _, Matrix.posSemidef_conjTranspose_mul_self _, ?_⟩
  have hs : star (1 / 2 : ℂ) = 1 / 2 := by
    rw [Complex.star_def, map_div₀, map_one, Complex.conj_ofNat]
  simp only [Matrix.conjTranspose_smul, Matrix.conjTranspose_add, Matrix.conjTranspose_sub,
    Matrix.conjTranspose_one, hH.eq, hs, Matrix.smul_mul, Matrix.mul_smul,
    Matrix.add_mul, Matrix.mul_add, Matrix.sub_mul, Matrix.mul_sub, Matrix.one_mul, Matrix.mul_one]
  module

/-- the values `Re tr(W H)` over all contractions `W` -/
def tnSet (H : Matrix ι ι ℂ) : Set ℝ := {x | ∃ W, IsContraction W ∧ (W * H).trace.re = x}

/-- the trace norm in its max form: `sup { Re tr(W H) : −1 ⪯ W ⪯ 1 }` -/
noncomputable def traceNormV (H : Matrix ι ι ℂ) : ℝ := sSup (tnSet H)

theorem zero_mem_tnSet (H : Matrix ι ι ℂ) : (0 : ℝ) ∈ tnSet H :=
  ⟨0, IsContraction.zero, by simp⟩

theorem tnSet_nonempty (H : Matrix ι ι ℂ) : (tnSet H).Nonempty := ⟨0, zero_mem_tnSet H⟩

theorem tnSet_bddAbove {H : Matrix ι ι ℂ} (hH : H.IsHermitian) : BddAbove (tnSet H) := by
  obtain ⟨P, Q, hP, hQ, hPQ⟩ := exists_psd_decomp hH
  refine ⟨P.trace.re + Q.trace.re, ?_⟩
  rintro x ⟨W, hW, rfl⟩
  exact traceNorm_weak_duality_gen hP hQ hPQ hW

theorem le_traceNormV_gen {H W : Matrix ι ι ℂ} (hH : H.IsHermitian) (hW : IsContraction W) :
    (W * H).trace.re ≤ traceNormV H :=
  le_csSup (tnSet_bddAbove hH) ⟨W, hW, rfl⟩

theorem traceNormV_le_gen {H P Q : Matrix ι ι ℂ} (hP : P.PosSemidef) (hQ : Q.PosSemidef)
    (hH : H = P - Q) : traceNormV H ≤ P.trace.re + Q.trace.re := by
  refine csSup_le (tnSet_nonempty H) ?_
  rintro x ⟨W, hW, rfl⟩
  exact traceNorm_weak_duality_gen hP hQ hH hW

theorem traceNormV_nonneg_gen {H : Matrix ι ι ℂ} (hH : H.IsHermitian) : 0 ≤ traceNormV H :=
  le_csSup (tnSet_bddAbove hH) (zero_mem_tnSet H)

theorem tnSet_neg (H : Matrix ι ι ℂ) : tnSet (-H) = tnSet H := by
  ext x
  constructor
  · rintro ⟨W, hW, rfl⟩
    exact ⟨-W, hW.neg, by simp⟩
  · rintro ⟨W, hW, rfl⟩
    exact ⟨-W, hW.neg, by simp⟩

theorem tnSet_conj (H U : Matrix ι ι ℂ) (hU : Uᴴ * U = 1) (hU' : U * Uᴴ = 1) :
    tnSet (U * H * Uᴴ) = tnSet H := by
  ext x
  constructor
  · rintro ⟨W, hW, rfl⟩
    refine ⟨Uᴴ * W * U, hW.conj hU, ?_⟩
    have e1 : Uᴴ * W * U * H = Uᴴ * (W * U * H) := by simp only [Matrix.mul_assoc]
    have e2 : W * (U * H * Uᴴ) = (W * U * H) * Uᴴ := by simp only [Matrix.mul_assoc]
    rw [e1, e2, Matrix.trace_mul_comm]
  · rintro ⟨W, hW, rfl⟩
    have hUU : (Uᴴ)ᴴ * Uᴴ = 1 := by rw [Matrix.conjTranspose_conjTranspose]; exact hU'
    refine ⟨U * W * Uᴴ, by simpa using hW.conj hUU, ?_⟩
    have : U * W * Uᴴ * (U * H * Uᴴ) = U * (W * H) * Uᴴ := by
      calc U * W * Uᴴ * (U * H * Uᴴ) = U * W * (Uᴴ * U) * H * Uᴴ := by
            simp only [Matrix.mul_assoc]
        _ = U * (W * H) * Uᴴ := by rw [hU, Matrix.mul_one]; simp only [Matrix.mul_assoc]
    rw [this, Matrix.trace_mul_comm, ← Matrix.mul_assoc, hU, Matrix.one_mul]

theorem traceNormV_add_le_gen {A B : Matrix ι ι ℂ} (hA : A.IsHermitian) (hB : B.IsHermitian) :
    traceNormV (A + B) ≤ traceNormV A + traceNormV B := by
  refine csSup_le (tnSet_nonempty _) ?_
  rintro x ⟨W, hW, rfl⟩
  rw [Matrix.mul_add, Matrix.trace_add, Complex.add_re]
  exact add_le_add (le_traceNormV_gen hA hW) (le_traceNormV_gen hB hW)

theorem traceNormV_zero_gen : traceNormV (0 : Matrix ι ι ℂ) = 0 := by
  have : tnSet (0 : Matrix ι ι ℂ) = {0} := by
    ext x
    constructor
    · rintro ⟨W, -, rfl⟩; simp
    · rintro rfl; exact zero_mem_tnSet 0
  rw [traceNormV, this, csSup_singleton]

end TraceNorm

end Toq.Metrics
