import Toq.Model.Metrics
import Toq.Proofs.Cert
/-!
# Helper lemmas for C13 (state distance measures)

Index-type generic facts about the variational forms of the trace norm and of Watrous' fidelity
program, the bridge from the executable `block` to `Matrix.fromBlocks`, and soundness of the core
checkers of `Toq.Model.Metrics`.
-/

open Matrix
open scoped ComplexOrder MatrixOrder

set_option linter.unusedSectionVars false

namespace Toq.Metrics

/-! ## Contractions and the trace norm -/

section TraceNorm
variable {ι : Type*} [Fintype ι] [DecidableEq ι]

/-- `W` is Hermitian with `−1 ⪯ W ⪯ 1` -/
def IsContraction (W : Matrix ι ι ℂ) : Prop := (1 - W).PosSemidef ∧ (1 + W).PosSemidef

theorem IsContraction.isHermitian {W : Matrix ι ι ℂ} (h : IsContraction W) : W.IsHermitian := by
  have h1 : (1 - W).IsHermitian := h.1.isHermitian
  have : W = 1 - (1 - W) := by abel
  rw [this]
  exact Matrix.isHermitian_one.sub h1

theorem IsContraction.zero : IsContraction (0 : Matrix ι ι ℂ) := by
  constructor <;> simpa using Matrix.PosSemidef.one

theorem IsContraction.neg {W : Matrix ι ι ℂ} (h : IsContraction W) : IsContraction (-W) := by
  refine ⟨?_, ?_⟩
  · simpa [sub_neg_eq_add] using h.2
  · simpa [← sub_eq_add_neg] using h.1

theorem IsContraction.one : IsContraction (1 : Matrix ι ι ℂ) := by
  refine ⟨by simpa using Matrix.PosSemidef.zero, ?_⟩
  exact Matrix.PosSemidef.one.add Matrix.PosSemidef.one

/-- conjugating a contraction by a unitary gives a contraction -/
theorem IsContraction.conj {W U : Matrix ι ι ℂ} (h : IsContraction W) (hU : Uᴴ * U = 1) :
    IsContraction (Uᴴ * W * U) := by
  refine ⟨?_, ?_⟩
  · have := h.1.conjTranspose_mul_mul_same U
    rwa [Matrix.mul_sub, Matrix.sub_mul, Matrix.mul_one, hU] at this
  · have := h.2.conjTranspose_mul_mul_same U
    rwa [Matrix.mul_add, Matrix.add_mul, Matrix.mul_one, hU] at this

theorem re_trace_contraction_mul_le {W P : Matrix ι ι ℂ} (hW : IsContraction W) (hP : P.PosSemidef) :
    (W * P).trace.re ≤ P.trace.re := by
  have := psd_trace_mul_nonneg hW.1 hP
  rw [Matrix.sub_mul, Matrix.one_mul, Matrix.trace_sub, Complex.sub_re] at this
  linarith

theorem neg_re_trace_contraction_mul_le {W Q : Matrix ι ι ℂ} (hW : IsContraction W) (hQ : Q.PosSemidef) :
    -(W * Q).trace.re ≤ Q.trace.re := by
  have := psd_trace_mul_nonneg hW.2 hQ
  rw [Matrix.add_mul, Matrix.one_mul, Matrix.trace_add, Complex.add_re] at this
  linarith

/-- weak duality of the two variational forms of the trace norm -/
theorem traceNorm_weak_duality_gen {H P Q W : Matrix ι ι ℂ} (hP : P.PosSemidef) (hQ : Q.PosSemidef)
    (hH : H = P - Q) (hW : IsContraction W) : (W * H).trace.re ≤ P.trace.re + Q.trace.re := by
  have h1 := re_trace_contraction_mul_le hW hP
  have h2 := neg_re_trace_contraction_mul_le hW hQ
  rw [hH, Matrix.mul_sub, Matrix.trace_sub, Complex.sub_re]
  linarith

/-- every Hermitian matrix is a difference of two positive semidefinite ones:
`H = ((H+1)/2)² − ((H−1)/2)²` -/
theorem exists_psd_decomp {H : Matrix ι ι ℂ} (hH : H.IsHermitian) :
    ∃ P Q : Matrix ι ι ℂ, P.PosSemidef ∧ Q.PosSemidef ∧ H = P - Q := by
  refine ⟨((1 / 2 : ℂ) • (H + 1))ᴴ * ((1 / 2 : ℂ) • (H + 1)),
    ((1 / 2 : ℂ) • (H - 1))ᴴ * ((1 / 2 : ℂ) • (H - 1)),
    Matrix.posSemidef_conjTranspose_mul_self _, Matrix.posSemidef_conjTranspose_mul_self _, ?_⟩
  have hs : star (1 / 2 : ℂ) = 1 / 2 := by
    rw [Complex.star_def, map_div₀, map_one, Complex.conj_ofNat]
  simp only [Matrix.conjTranspose_smul, Matrix.conjTranspose_add, Matrix.conjTranspose_sub,
    Matrix.conjTranspose_one, hH.eq, hs, Matrix.smul_mul, Matrix.mul_smul,
    Matrix.add_mul, Matrix.mul_add, Matrix.sub_mul, Matrix.mul_sub, Matrix.one_mul, Matrix.mul_one]
  module

/-- the values `Re tr(W H)` over all contractions `W` -/
def tnSet (H : Matrix ι ι ℂ) : Set ℝ := {x | ∃ W, IsContraction W ∧ (W * H).trace.re = x}

/-- the trace norm in its max form: `sup { Re tr(W H) : −1 ⪯ W ⪯ 1 }` -/
noncomputable def traceNormV (H : Matrix ι ι ℂ) : ℝ := sSup (tnSet H)

theorem zero_mem_tnSet (H : Matrix ι ι ℂ) : (0 : ℝ) ∈ tnSet H :=
  ⟨0, IsContraction.zero, by simp⟩

theorem tnSet_nonempty (H : Matrix ι ι ℂ) : (tnSet H).Nonempty := ⟨0, zero_mem_tnSet H⟩

theorem tnSet_bddAbove {H : Matrix ι ι ℂ} (hH : H.IsHermitian) : BddAbove (tnSet H) := by
  obtain ⟨P, Q, hP, hQ, hPQ⟩ := exists_psd_decomp hH
  refine ⟨P.trace.re + Q.trace.re, ?_⟩
  rintro x ⟨W, hW, rfl⟩
  exact traceNorm_weak_duality_gen hP hQ hPQ hW

theorem le_traceNormV_gen {H W : Matrix ι ι ℂ} (hH : H.IsHermitian) (hW : IsContraction W) :
    (W * H).trace.re ≤ traceNormV H :=
  le_csSup (tnSet_bddAbove hH) ⟨W, hW, rfl⟩

theorem traceNormV_le_gen {H P Q : Matrix ι ι ℂ} (hP : P.PosSemidef) (hQ : Q.PosSemidef)
    (hH : H = P - Q) : traceNormV H ≤ P.trace.re + Q.trace.re := by
  refine csSup_le (tnSet_nonempty H) ?_
  rintro x ⟨W, hW, rfl⟩
  exact traceNorm_weak_duality_gen hP hQ hH hW

theorem traceNormV_nonneg_gen {H : Matrix ι ι ℂ} (hH : H.IsHermitian) : 0 ≤ traceNormV H :=
  le_csSup (tnSet_bddAbove hH) (zero_mem_tnSet H)

theorem tnSet_neg (H : Matrix ι ι ℂ) : tnSet (-H) = tnSet H := by
  ext x
  constructor
  · rintro ⟨W, hW, rfl⟩
    exact ⟨-W, hW.neg, by simp⟩
  · rintro ⟨W, hW, rfl⟩
    exact ⟨-W, hW.neg, by simp⟩

theorem tnSet_conj (H U : Matrix ι ι ℂ) (hU : Uᴴ * U = 1) (hU' : U * Uᴴ = 1) :
    tnSet (U * H * Uᴴ) = tnSet H := by
  ext x
  constructor
  · rintro ⟨W, hW, rfl⟩
    refine ⟨Uᴴ * W * U, hW.conj hU, ?_⟩
    have e1 : Uᴴ * W * U * H = Uᴴ * (W * U * H) := by simp only [Matrix.mul_assoc]
    have e2 : W * (U * H * Uᴴ) = (W * U * H) * Uᴴ := by simp only [Matrix.mul_assoc]
    rw [e1, e2, Matrix.trace_mul_comm]
  · rintro ⟨W, hW, rfl⟩
    have hUU : (Uᴴ)ᴴ * Uᴴ = 1 := by rw [Matrix.conjTranspose_conjTranspose]; exact hU'
    refine ⟨U * W * Uᴴ, by simpa using hW.conj hUU, ?_⟩
    have : U * W * Uᴴ * (U * H * Uᴴ) = U * (W * H) * Uᴴ := by
      calc U * W * Uᴴ * (U * H * Uᴴ) = U * W * (Uᴴ * U) * H * Uᴴ := by
            simp only [Matrix.mul_assoc]
        _ = U * (W * H) * Uᴴ := by rw [hU, Matrix.mul_one]; simp only [Matrix.mul_assoc]
    rw [this, Matrix.trace_mul_comm, ← Matrix.mul_assoc, hU, Matrix.one_mul]

theorem traceNormV_add_le_gen {A B : Matrix ι ι ℂ} (hA : A.IsHermitian) (hB : B.IsHermitian) :
    traceNormV (A + B) ≤ traceNormV A + traceNormV B := by
  refine csSup_le (tnSet_nonempty _) ?_
  rintro x ⟨W, hW, rfl⟩
  rw [Matrix.mul_add, Matrix.trace_add, Complex.add_re]
  exact add_le_add (le_traceNormV_gen hA hW) (le_traceNormV_gen hB hW)

theorem traceNormV_zero_gen : traceNormV (0 : Matrix ι ι ℂ) = 0 := by
  have : tnSet (0 : Matrix ι ι ℂ) = {0} := by
    ext x
    constructor
    · rintro ⟨W, -, rfl⟩; simp
    · rintro rfl; exact zero_mem_tnSet 0
  rw [traceNormV, this, csSup_singleton]

theorem posSemidef_one_sub_smul {H : Matrix ι ι ℂ} (hH : H.IsHermitian) (c : ℝ) (hc : 0 ≤ c)
    (hcS : c * (∑ i, ∑ j, ‖H i j‖) ≤ 1) : (1 - (c : ℂ) • H).PosSemidef := by
  have hHerm : (1 - (c : ℂ) • H).IsHermitian := by
    refine Matrix.isHermitian_one.sub ?_
    unfold Matrix.IsHermitian
    rw [Matrix.conjTranspose_smul, hH.eq, Complex.star_def, Complex.conj_ofReal]
  refine Matrix.posSemidef_of_diagDominant hHerm fun i => ?_
  have hrow : ∑ j, ‖H i j‖ ≤ ∑ i, ∑ j, ‖H i j‖ :=
    Finset.single_le_sum (f := fun i => ∑ j, ‖H i j‖) (fun _ _ => Finset.sum_nonneg fun _ _ => norm_nonneg _)
      (Finset.mem_univ i)
  have h1 : ∑ j ∈ Finset.univ.erase i, ‖(1 - (c : ℂ) • H) i j‖ = c * ∑ j ∈ Finset.univ.erase i, ‖H i j‖ := by
    rw [Finset.mul_sum]
    refine Finset.sum_congr rfl fun j hj => ?_
    have hne : i ≠ j := (Finset.ne_of_mem_erase hj).symm
    simp [Matrix.sub_apply, Matrix.one_apply_ne hne, abs_of_nonneg hc]
  have h2 : ((1 - (c : ℂ) • H) i i).re = 1 - c * (H i i).re := by
    simp [Matrix.sub_apply]
  have h3 : (H i i).re ≤ ‖H i i‖ := Complex.re_le_norm _
  have h4 : ∑ j ∈ Finset.univ.erase i, ‖H i j‖ + ‖H i i‖ = ∑ j, ‖H i j‖ :=
    Finset.sum_erase_add _ _ (Finset.mem_univ i)
  rw [h1, h2]
  have h5 : c * (∑ j, ‖H i j‖) ≤ 1 := (mul_le_mul_of_nonneg_left hrow hc).trans hcS
  have h6 : c * (H i i).re ≤ c * ‖H i i‖ := mul_le_mul_of_nonneg_left h3 hc
  rw [← h4, mul_add] at h5
  linarith

/-- a small positive multiple of a Hermitian matrix is a contraction -/
theorem exists_smul_contraction {H : Matrix ι ι ℂ} (hH : H.IsHermitian) :
    ∃ c : ℝ, 0 < c ∧ IsContraction ((c : ℂ) • H) := by
  set S := ∑ i, ∑ j, ‖H i j‖ with hS
  have hS0 : 0 ≤ S := Finset.sum_nonneg fun _ _ => Finset.sum_nonneg fun _ _ => norm_nonneg _
  refine ⟨(1 + S)⁻¹, by positivity, ?_, ?_⟩
  · refine posSemidef_one_sub_smul hH _ (by positivity) ?_
    rw [inv_mul_le_iff₀ (by positivity)]; linarith
  · have hH' : (-H).IsHermitian := by
      unfold Matrix.IsHermitian; rw [Matrix.conjTranspose_neg, hH.eq]
    have := posSemidef_one_sub_smul hH' (1 + S)⁻¹ (by positivity) (by
      simp only [Matrix.neg_apply, norm_neg]
      rw [inv_mul_le_iff₀ (by positivity)]; linarith)
    simpa [sub_neg_eq_add] using this

/-- definiteness of the trace norm in its max form -/
theorem eq_zero_of_traceNormV_eq_zero {H : Matrix ι ι ℂ} (hH : H.IsHermitian) (h0 : traceNormV H = 0) :
    H = 0 := by
  obtain ⟨c, hc, hW⟩ := exists_smul_contraction hH
  have h1 := le_traceNormV_gen hH hW
  rw [h0, Matrix.smul_mul, Matrix.trace_smul, smul_eq_mul, Complex.re_ofReal_mul] at h1
  have h2 : 0 ≤ (Hᴴ * H).trace := (Matrix.posSemidef_conjTranspose_mul_self H).trace_nonneg
  rw [hH.eq] at h2
  obtain ⟨h3, h4⟩ := Complex.nonneg_iff.mp h2
  have h5 : (H * H).trace.re ≤ 0 := by
    by_contra hlt
    rw [not_le] at hlt
    have := mul_pos hc hlt
    linarith
  have h6 : (H * H).trace = 0 := Complex.ext (le_antisymm h5 h3) h4.symm
  have : (Hᴴ * H).trace = 0 := by rw [hH.eq]; exact h6
  exact Matrix.trace_conjTranspose_mul_self_eq_zero_iff.mp this
end TraceNorm

/-! ## Block matrices and Watrous' fidelity program -/

section Fidelity
variable {ι : Type*} [Fintype ι] [DecidableEq ι]

theorem trace_fromBlocks' (A B C D : Matrix ι ι ℂ) :
    (fromBlocks A B C D).trace = A.trace + D.trace := by
  simp [Matrix.trace, Fintype.sum_sum_type]

/-- Gram form: `[[AᴴA, AᴴB], [BᴴA, BᴴB]] = [A B]ᴴ [A B]` is positive semidefinite -/
theorem posSemidef_fromBlocks_gram (A B : Matrix ι ι ℂ) :
    (fromBlocks (Aᴴ * A) (Aᴴ * B) (Bᴴ * A) (Bᴴ * B)).PosSemidef := by
  have h := Matrix.posSemidef_conjTranspose_mul_self (fromBlocks A B (0 : Matrix ι ι ℂ) 0)
  rw [fromBlocks_conjTranspose, fromBlocks_multiply] at h
  simpa using h

/-- block-diagonal matrices with PSD blocks are PSD -/
theorem posSemidef_fromBlocks_diag {ρ σ : Matrix ι ι ℂ} (hρ : ρ.PosSemidef) (hσ : σ.PosSemidef) :
    (fromBlocks ρ 0 0 σ).PosSemidef := by
  have h1 := posSemidef_fromBlocks_gram (CFC.sqrt ρ) (0 : Matrix ι ι ℂ)
  have h2 := posSemidef_fromBlocks_gram (0 : Matrix ι ι ℂ) (CFC.sqrt σ)
  have e1 : (CFC.sqrt ρ)ᴴ * CFC.sqrt ρ = ρ := by
    rw [((CFC.sqrt_nonneg ρ).posSemidef).isHermitian.eq]; exact CFC.sqrt_mul_sqrt_self ρ hρ.nonneg
  have e2 : (CFC.sqrt σ)ᴴ * CFC.sqrt σ = σ := by
    rw [((CFC.sqrt_nonneg σ).posSemidef).isHermitian.eq]; exact CFC.sqrt_mul_sqrt_self σ hσ.nonneg
  have := h1.add h2
  rw [fromBlocks_add] at this
  simpa [e1, e2] using this

/-- `X` is feasible for the fidelity program of `(ρ, σ)`: `[[ρ, X], [Xᴴ, σ]] ⪰ 0` -/
def FidFeasible (ρ σ X : Matrix ι ι ℂ) : Prop := (fromBlocks ρ X Xᴴ σ).PosSemidef

/-- `[[Y, C], [Cᴴ, Z]] ⪰ 0` -/
def DualBlockPsd (Y Z C : Matrix ι ι ℂ) : Prop := (fromBlocks Y C Cᴴ Z).PosSemidef

/-- `(Y, Z)` is feasible for the dual of the fidelity program: `[[Y, −1], [−1, Z]] ⪰ 0` -/
def FidDualFeasible (Y Z : Matrix ι ι ℂ) : Prop := DualBlockPsd Y Z (-1)

/-- `(Re tr(Y ρ) + Re tr(Z σ)) / 2` -/
noncomputable def dualVal (ρ σ Y Z : Matrix ι ι ℂ) : ℝ := ((Y * ρ).trace.re + (Z * σ).trace.re) / 2

/-- trace inner product of a primal and a dual block matrix -/
theorem block_trace_nonneg {ρ σ X Y Z C : Matrix ι ι ℂ} (hP : FidFeasible ρ σ X)
    (hD : DualBlockPsd Y Z C) :
    0 ≤ (ρ * Y).trace.re + (X * Cᴴ).trace.re + (Xᴴ * C).trace.re + (σ * Z).trace.re := by
  have h := psd_trace_mul_nonneg hP hD
  rw [fromBlocks_multiply, trace_fromBlocks', Matrix.trace_add, Matrix.trace_add, Complex.add_re,
    Complex.add_re, Complex.add_re] at h
  linarith

/-- weak duality for the fidelity program -/
theorem fid_weak_duality_gen {ρ σ X Y Z : Matrix ι ι ℂ} (hP : FidFeasible ρ σ X)
    (hD : FidDualFeasible Y Z) : X.trace.re ≤ dualVal ρ σ Y Z := by
  have h := block_trace_nonneg hP hD
  have e1 : (Xᴴ).trace.re = X.trace.re := by rw [Matrix.trace_conjTranspose]; simp
  rw [Matrix.conjTranspose_neg, Matrix.conjTranspose_one, Matrix.mul_neg, Matrix.mul_neg,
    Matrix.mul_one, Matrix.mul_one, Matrix.trace_neg, Matrix.trace_neg, Complex.neg_re,
    Complex.neg_re, e1, Matrix.trace_mul_comm ρ Y, Matrix.trace_mul_comm σ Z] at h
  unfold dualVal
  linarith

/-- weak duality for the Hermitian-restricted (Matsumoto) program: the dual off-diagonal block only
needs `C + Cᴴ = −2` -/
theorem mats_weak_duality_gen {ρ σ W Y Z C : Matrix ι ι ℂ} (hW : W.IsHermitian)
    (hP : FidFeasible ρ σ W) (hC : C + Cᴴ = (-2 : ℂ) • (1 : Matrix ι ι ℂ)) (hD : DualBlockPsd Y Z C) :
    W.trace.re ≤ dualVal ρ σ Y Z := by
  have h := block_trace_nonneg hP hD
  have e : (W * Cᴴ).trace.re + (Wᴴ * C).trace.re = -2 * W.trace.re := by
    rw [hW.eq, ← Complex.add_re, ← Matrix.trace_add, ← Matrix.mul_add, add_comm Cᴴ C, hC,
      Matrix.mul_smul, Matrix.mul_one, Matrix.trace_smul, smul_eq_mul]
    simp
  rw [Matrix.trace_mul_comm ρ Y, Matrix.trace_mul_comm σ Z] at h
  unfold dualVal
  linarith

/-- `Y = Z = 1` is dual feasible -/
theorem fidDualFeasible_one : FidDualFeasible (1 : Matrix ι ι ℂ) 1 := by
  have h := posSemidef_fromBlocks_gram (1 : Matrix ι ι ℂ) (-1)
  unfold FidDualFeasible DualBlockPsd
  simpa using h

/-- the values `Re tr X` over all feasible `X` -/
def fidSet (ρ σ : Matrix ι ι ℂ) : Set ℝ := {x | ∃ X, FidFeasible ρ σ X ∧ X.trace.re = x}

/-- root fidelity as the optimal value of Watrous' program -/
noncomputable def fidV (ρ σ : Matrix ι ι ℂ) : ℝ := sSup (fidSet ρ σ)

theorem fidSet_bddAbove (ρ σ : Matrix ι ι ℂ) : BddAbove (fidSet ρ σ) := by
  refine ⟨dualVal ρ σ 1 1, ?_⟩
  rintro x ⟨X, hX, rfl⟩
  exact fid_weak_duality_gen hX fidDualFeasible_one

theorem zero_mem_fidSet {ρ σ : Matrix ι ι ℂ} (hρ : ρ.PosSemidef) (hσ : σ.PosSemidef) :
    (0 : ℝ) ∈ fidSet ρ σ := by
  refine ⟨0, ?_, by simp⟩
  unfold FidFeasible
  simpa using posSemidef_fromBlocks_diag hρ hσ

theorem le_fidV_gen {ρ σ X : Matrix ι ι ℂ} (hX : FidFeasible ρ σ X) : X.trace.re ≤ fidV ρ σ :=
  le_csSup (fidSet_bddAbove ρ σ) ⟨X, hX, rfl⟩

theorem fidV_le_gen {ρ σ Y Z : Matrix ι ι ℂ} (hρ : ρ.PosSemidef) (hσ : σ.PosSemidef)
    (hD : FidDualFeasible Y Z) : fidV ρ σ ≤ dualVal ρ σ Y Z := by
  refine csSup_le ⟨0, zero_mem_fidSet hρ hσ⟩ ?_
  rintro x ⟨X, hX, rfl⟩
  exact fid_weak_duality_gen hX hD

theorem fidFeasible_swap {ρ σ X : Matrix ι ι ℂ} (h : FidFeasible ρ σ X) : FidFeasible σ ρ Xᴴ := by
  unfold FidFeasible at h ⊢
  have := h.submatrix (Sum.swap : ι ⊕ ι → ι ⊕ ι)
  rw [fromBlocks_submatrix_sum_swap_sum_swap] at this
  rwa [Matrix.conjTranspose_conjTranspose]

theorem fidSet_symm (ρ σ : Matrix ι ι ℂ) : fidSet ρ σ = fidSet σ ρ := by
  have key : ∀ ρ σ : Matrix ι ι ℂ, fidSet ρ σ ⊆ fidSet σ ρ := by
    rintro ρ σ x ⟨X, hX, rfl⟩
    refine ⟨Xᴴ, fidFeasible_swap hX, ?_⟩
    rw [Matrix.trace_conjTranspose]; simp
  exact Set.Subset.antisymm (key ρ σ) (key σ ρ)

theorem fidFeasible_conj {ρ σ X : Matrix ι ι ℂ} (U : Matrix ι ι ℂ) (h : FidFeasible ρ σ X) :
    FidFeasible (U * ρ * Uᴴ) (U * σ * Uᴴ) (U * X * Uᴴ) := by
  unfold FidFeasible at h ⊢
  have := h.mul_mul_conjTranspose_same (fromBlocks U 0 0 U)
  rw [fromBlocks_conjTranspose, fromBlocks_multiply, fromBlocks_multiply] at this
  simpa [Matrix.conjTranspose_mul, Matrix.mul_assoc] using this

theorem fidSet_conj (ρ σ U : Matrix ι ι ℂ) (hU : Uᴴ * U = 1) :
    fidSet (U * ρ * Uᴴ) (U * σ * Uᴴ) = fidSet ρ σ := by
  ext x
  constructor
  · rintro ⟨X, hX, rfl⟩
    refine ⟨Uᴴ * X * U, ?_, ?_⟩
    · have := fidFeasible_conj Uᴴ hX
      have e : ∀ A : Matrix ι ι ℂ, Uᴴ * (U * A * Uᴴ) * Uᴴᴴ = A := by
        intro A
        rw [Matrix.conjTranspose_conjTranspose]
        calc Uᴴ * (U * A * Uᴴ) * U = (Uᴴ * U) * A * (Uᴴ * U) := by simp only [Matrix.mul_assoc]
          _ = A := by rw [hU, Matrix.one_mul, Matrix.mul_one]
      rwa [e ρ, e σ, Matrix.conjTranspose_conjTranspose] at this
    · rw [Matrix.trace_mul_comm, ← Matrix.mul_assoc]
      have : U * Uᴴ = 1 := mul_eq_one_comm.mp hU
      rw [this, Matrix.one_mul]
  · rintro ⟨X, hX, rfl⟩
    refine ⟨U * X * Uᴴ, fidFeasible_conj U hX, ?_⟩
    rw [Matrix.trace_mul_comm, ← Matrix.mul_assoc, hU, Matrix.one_mul]

/-- `X = ρ` is feasible for the pair `(ρ, ρ)` -/
theorem fidFeasible_self {ρ : Matrix ι ι ℂ} (hρ : ρ.PosSemidef) : FidFeasible ρ ρ ρ := by
  unfold FidFeasible
  have h := posSemidef_fromBlocks_gram (CFC.sqrt ρ) (CFC.sqrt ρ)
  have e1 : (CFC.sqrt ρ)ᴴ * CFC.sqrt ρ = ρ := by
    rw [((CFC.sqrt_nonneg ρ).posSemidef).isHermitian.eq]; exact CFC.sqrt_mul_sqrt_self ρ hρ.nonneg
  rw [e1] at h
  rwa [hρ.isHermitian.eq]

set_option linter.unusedSimpArgs false in
/-- for a Hermitian idempotent `Π` and `a > 0`, `Y = a²Π + a⁻²(1−Π)`, `Z = a⁻²Π + a²(1−Π)` is dual feasible -/
theorem fidDualFeasible_proj {P : Matrix ι ι ℂ} (hP : P.IsHermitian) (hPP : P * P = P) (a : ℝ) (ha : 0 < a) :
    FidDualFeasible (((a ^ 2 : ℝ) : ℂ) • P + (((a ^ 2)⁻¹ : ℝ) : ℂ) • (1 - P))
      ((((a ^ 2)⁻¹ : ℝ) : ℂ) • P + ((a ^ 2 : ℝ) : ℂ) • (1 - P)) := by
  have h := posSemidef_fromBlocks_gram (((a : ℝ) : ℂ) • P + ((a⁻¹ : ℝ) : ℂ) • (1 - P))
    (-(((a⁻¹ : ℝ) : ℂ) • P + ((a : ℝ) : ℂ) • (1 - P)))
  have hQ : (1 - P) * (1 - P) = 1 - P := by
    rw [Matrix.sub_mul, Matrix.mul_sub, Matrix.mul_sub, hPP]; simp
  have hPQ : P * (1 - P) = 0 := by rw [Matrix.mul_sub, hPP]; simp
  have hQP : (1 - P) * P = 0 := by rw [Matrix.sub_mul, hPP]; simp
  have hQH : (1 - P)ᴴ = 1 - P := by rw [Matrix.conjTranspose_sub, hP.eq]; simp
  have ha0 : ((a : ℝ) : ℂ) ≠ 0 := by exact_mod_cast ha.ne'
  unfold FidDualFeasible DualBlockPsd
  convert h using 2
  · simp only [Matrix.conjTranspose_add, Matrix.conjTranspose_smul, hP.eq, hQH, Matrix.add_mul, Matrix.mul_add,
      Matrix.smul_mul, Matrix.mul_smul, hPP, hQ, hPQ, hQP, smul_zero, add_zero, zero_add, smul_smul,
      Complex.star_def, Complex.conj_ofReal]
    push_cast; ring_nf
  · simp only [Matrix.conjTranspose_add, Matrix.conjTranspose_smul, hP.eq, hQH, Matrix.add_mul, Matrix.mul_add,
      Matrix.smul_mul, Matrix.mul_smul, hPP, hQ, hPQ, hQP, smul_zero, add_zero, zero_add, smul_smul,
      Complex.star_def, Complex.conj_ofReal, Matrix.mul_neg]
    push_cast
    rw [mul_inv_cancel₀ ha0, inv_mul_cancel₀ ha0]; simp
  · simp only [Matrix.conjTranspose_add, Matrix.conjTranspose_smul, hP.eq, hQH, Matrix.add_mul, Matrix.mul_add,
      Matrix.smul_mul, Matrix.mul_smul, hPP, hQ, hPQ, hQP, smul_zero, add_zero, zero_add, smul_smul,
      Complex.star_def, Complex.conj_ofReal, Matrix.neg_mul, Matrix.conjTranspose_neg, Matrix.conjTranspose_one, smul_neg]
    push_cast
    rw [mul_inv_cancel₀ ha0, inv_mul_cancel₀ ha0]; simp; abel
  · simp only [Matrix.conjTranspose_add, Matrix.conjTranspose_smul, hP.eq, hQH, Matrix.add_mul, Matrix.mul_add,
      Matrix.smul_mul, Matrix.mul_smul, hPP, hQ, hPQ, hQP, smul_zero, add_zero, zero_add, smul_smul,
      Complex.star_def, Complex.conj_ofReal, Matrix.neg_mul, Matrix.mul_neg, Matrix.conjTranspose_neg, neg_neg, smul_neg, neg_add_rev]
    push_cast; module

/-- value of the dual point of `fidDualFeasible_proj` when `Π ρ = ρ` and `Π σ = 0` -/
theorem dualVal_proj {ρ σ P : Matrix ι ι ℂ} (hρ : P * ρ = ρ) (hσ : P * σ = 0) (a : ℝ) :
    dualVal ρ σ (((a ^ 2 : ℝ) : ℂ) • P + (((a ^ 2)⁻¹ : ℝ) : ℂ) • (1 - P))
      ((((a ^ 2)⁻¹ : ℝ) : ℂ) • P + ((a ^ 2 : ℝ) : ℂ) • (1 - P))
      = a ^ 2 * ((ρ.trace.re + σ.trace.re) / 2) := by
  unfold dualVal
  simp only [Matrix.add_mul, Matrix.smul_mul, Matrix.sub_mul, Matrix.one_mul, hρ, hσ, sub_self,
    smul_zero, add_zero, zero_add, sub_zero, Matrix.trace_smul, smul_eq_mul, Complex.re_ofReal_mul]
  ring

/-- states with orthogonal supports (witnessed by a Hermitian idempotent `Π` with `Π ρ = ρ`, `Π σ = 0`)
have fidelity-program value `0` -/
theorem fidV_eq_zero_gen {ρ σ P : Matrix ι ι ℂ} (hρ : ρ.PosSemidef) (hσ : σ.PosSemidef)
    (hP : P.IsHermitian) (hPP : P * P = P) (h1 : P * ρ = ρ) (h2 : P * σ = 0) : fidV ρ σ = 0 := by
  refine le_antisymm ?_ (le_csSup (fidSet_bddAbove ρ σ) (zero_mem_fidSet hρ hσ))
  set t := (ρ.trace.re + σ.trace.re) / 2 with ht
  have ht0 : 0 ≤ t := by
    have a1 := (Complex.nonneg_iff.mp hρ.trace_nonneg).1
    have a2 := (Complex.nonneg_iff.mp hσ.trace_nonneg).1
    positivity
  have key : ∀ a : ℝ, 0 < a → fidV ρ σ ≤ a ^ 2 * t := by
    intro a ha
    have := fidV_le_gen hρ hσ (fidDualFeasible_proj hP hPP a ha)
    rwa [dualVal_proj h1 h2] at this
  by_contra hpos
  rw [not_le] at hpos
  set a := min 1 (fidV ρ σ / (2 * (t + 1))) with ha
  have ha0 : 0 < a := lt_min one_pos (by positivity)
  have ha1 : a ≤ 1 := min_le_left _ _
  have ha2 : a ≤ fidV ρ σ / (2 * (t + 1)) := min_le_right _ _
  have h3 : a ^ 2 ≤ a := by nlinarith
  have h4 : a ^ 2 * t ≤ fidV ρ σ / (2 * (t + 1)) * t :=
    mul_le_mul_of_nonneg_right (h3.trans ha2) ht0
  have h5 : fidV ρ σ / (2 * (t + 1)) * t < fidV ρ σ := by
    rw [div_mul_eq_mul_div, div_lt_iff₀ (by positivity)]
    nlinarith
  linarith [key a ha0]

end Fidelity

/-! ## Bridge from the executable matrices -/

section Bridge
open EMat
variable {n k r r' : Nat}

/-- the executable `block` denotes `Matrix.fromBlocks` (indices regrouped by `finSumFinEquiv`) -/
theorem toM_block (A B C D : EMat n n) :
    (block A B C D).toM.submatrix finSumFinEquiv finSumFinEquiv
      = fromBlocks A.toM B.toM C.toM D.toM := by
  ext i j
  rcases i with i | i <;> rcases j with j | j <;>
    simp [block, finSumFinEquiv_apply_left, finSumFinEquiv_apply_right]

theorem psdCert_block_sound (A B C D : EMat n n) (L : EMat (n + n) r)
    (h : psdCert (block A B C D) L = true) :
    (fromBlocks A.toM B.toM C.toM D.toM).PosSemidef := by
  have := (psdCert_sound _ _ h).submatrix (finSumFinEquiv : Fin n ⊕ Fin n → Fin (n + n))
  rwa [toM_block] at this

theorem psdCertCong_sound (A : EMat n n) (B : EMat n k) (M : EMat k k) (L : EMat k r)
    (h : psdCertCong A B M L = true) : A.toM.PosSemidef := by
  simp only [psdCertCong, Bool.and_eq_true] at h
  rw [beq_sound _ _ h.1, toM_mul, toM_mul, toM_ct]
  exact (psdCert_sound _ _ h.2).mul_mul_conjTranspose_same _

theorem psdCertCong_block_sound (A B C D : EMat n n) (G : EMat (n + n) k) (M : EMat k k)
    (L : EMat k r) (h : psdCertCong (block A B C D) G M L = true) :
    (fromBlocks A.toM B.toM C.toM D.toM).PosSemidef := by
  have := (psdCertCong_sound _ _ _ _ h).submatrix (finSumFinEquiv : Fin n ⊕ Fin n → Fin (n + n))
  rwa [toM_block] at this

theorem contractionOk_sound (W : EMat n n) (L1 : EMat n r) (L2 : EMat n r')
    (h : contractionOk W L1 L2 = true) : IsContraction W.toM := by
  simp only [contractionOk, Bool.and_eq_true] at h
  have h1 := psdCert_sound _ _ h.1
  have h2 := psdCert_sound _ _ h.2
  rw [toM_sub, toM_one] at h1
  rw [toM_add, toM_one] at h2
  exact ⟨h1, h2⟩

theorem checkTNLower_core (H W : EMat n n) (L1 : EMat n r) (L2 : EMat n r') (lo : Rat)
    (h : checkTNLower H W L1 L2 = some lo) :
    H.toM.IsHermitian ∧ IsContraction W.toM ∧ (W.toM * H.toM).trace.re = (lo : ℝ) := by
  unfold checkTNLower at h
  split at h
  · next hc =>
    simp only [Bool.and_eq_true] at hc
    refine ⟨isHermitian_sound _ hc.1, contractionOk_sound _ _ _ hc.2, ?_⟩
    rw [← toM_mul, ← re_trace]
    exact congrArg _ (Option.some.inj h)
  · exact absurd h (by simp)

theorem checkTNUpper_core (H P Q : EMat n n) (LP : EMat n r) (LQ : EMat n r') (hi : Rat)
    (h : checkTNUpper H P Q LP LQ = some hi) :
    P.toM.PosSemidef ∧ Q.toM.PosSemidef ∧ H.toM = P.toM - Q.toM ∧
      P.toM.trace.re + Q.toM.trace.re = (hi : ℝ) := by
  unfold checkTNUpper at h
  split at h
  · next hc =>
    simp only [Bool.and_eq_true] at hc
    obtain ⟨⟨h1, h2⟩, h3⟩ := hc
    refine ⟨psdCert_sound _ _ h2, psdCert_sound _ _ h3, ?_, ?_⟩
    · rw [beq_sound _ _ h1, toM_sub]
    · rw [← re_trace, ← re_trace, ← Rat.cast_add]
      exact congrArg _ (Option.some.inj h)
  · exact absurd h (by simp)

theorem checkFidPrimal_core (ρ σ X : EMat n n) (L : EMat (n + n) r) (lo : Rat)
    (h : checkFidPrimal ρ σ X L = some lo) :
    FidFeasible ρ.toM σ.toM X.toM ∧ X.toM.trace.re = (lo : ℝ) := by
  unfold checkFidPrimal at h
  split at h
  · next hc =>
    refine ⟨?_, ?_⟩
    · have := psdCert_block_sound _ _ _ _ _ hc
      rwa [toM_ct] at this
    · rw [← re_trace]
      exact congrArg _ (Option.some.inj h)
  · exact absurd h (by simp)

theorem checkFidPrimalCong_core (ρ σ X : EMat n n) (B : EMat (n + n) k) (M : EMat k k)
    (L : EMat k r) (lo : Rat) (h : checkFidPrimalCong ρ σ X B M L = some lo) :
    FidFeasible ρ.toM σ.toM X.toM ∧ X.toM.trace.re = (lo : ℝ) := by
  unfold checkFidPrimalCong at h
  split at h
  · next hc =>
    refine ⟨?_, ?_⟩
    · have := psdCertCong_block_sound _ _ _ _ _ _ _ hc
      rwa [toM_ct] at this
    · rw [← re_trace]
      exact congrArg _ (Option.some.inj h)
  · exact absurd h (by simp)

theorem dualValue_cast (ρ σ Y Z : EMat n n) :
    ((dualValue ρ σ Y Z : Rat) : ℝ) = dualVal ρ.toM σ.toM Y.toM Z.toM := by
  unfold dualValue dualVal
  rw [Rat.cast_div, Rat.cast_add, re_trace, re_trace, toM_mul, toM_mul]
  norm_num

theorem checkFidDual_core (ρ σ Y Z : EMat n n) (L : EMat (n + n) r) (hi : Rat)
    (h : checkFidDual ρ σ Y Z L = some hi) :
    FidDualFeasible Y.toM Z.toM ∧ dualVal ρ.toM σ.toM Y.toM Z.toM = (hi : ℝ) := by
  unfold checkFidDual at h
  split at h
  · next hc =>
    refine ⟨?_, ?_⟩
    · have := psdCert_block_sound _ _ _ _ _ hc
      rw [toM_ct, toM_neg, toM_one] at this
      exact this
    · rw [← dualValue_cast]
      exact congrArg _ (Option.some.inj h)
  · exact absurd h (by simp)

theorem checkMatsPrimal_core (ρ σ W : EMat n n) (L : EMat (n + n) r) (lo : Rat)
    (h : checkMatsPrimal ρ σ W L = some lo) :
    W.toM.IsHermitian ∧ FidFeasible ρ.toM σ.toM W.toM ∧ W.toM.trace.re = (lo : ℝ) := by
  unfold checkMatsPrimal at h
  split at h
  · next hc =>
    obtain ⟨h1, h2⟩ := checkFidPrimal_core _ _ _ _ _ h
    exact ⟨isHermitian_sound _ hc, h1, h2⟩
  · exact absurd h (by simp)

theorem checkMatsDual_core (ρ σ Y Z C : EMat n n) (L : EMat (n + n) r) (hi : Rat)
    (h : checkMatsDual ρ σ Y Z C L = some hi) :
    C.toM + C.toMᴴ = (-2 : ℂ) • (1 : Matrix (Fin n) (Fin n) ℂ) ∧ DualBlockPsd Y.toM Z.toM C.toM ∧
      dualVal ρ.toM σ.toM Y.toM Z.toM = (hi : ℝ) := by
  unfold checkMatsDual at h
  split at h
  · next hc =>
    simp only [Bool.and_eq_true, offDiagOk] at hc
    refine ⟨?_, ?_, ?_⟩
    · have := beq_sound _ _ hc.1
      rw [toM_add, toM_ct, toM_scalar] at this
      rw [this]
      norm_num
    · have := psdCert_block_sound _ _ _ _ _ hc.2
      rwa [toM_ct] at this
    · rw [← dualValue_cast]
      exact congrArg _ (Option.some.inj h)
  · exact absurd h (by simp)

/-! ### exactly computable quantities -/

theorem hsDist_cast (ρ σ : EMat n n) :
    ((hsDist ρ σ : Rat) : ℝ) = ((ρ.toM - σ.toM) * (ρ.toM - σ.toM)).trace.re := by
  unfold hsDist
  rw [re_trace, toM_mul, toM_sub]

theorem hsInner_toC (A B : EMat n k) : (hsInner A B).toC = (A.toMᴴ * B.toM).trace := by
  unfold hsInner
  rw [toC_trace, toM_mul, toM_ct]

theorem trProd_cast (ρ σ : EMat n n) : ((trProd ρ σ : Rat) : ℝ) = (ρ.toM * σ.toM).trace.re := by
  unfold trProd
  rw [re_trace, toM_mul]

theorem trProd4_cast (ρ σ : EMat n n) :
    ((trProd4 ρ σ : Rat) : ℝ) = (ρ.toM * σ.toM * (ρ.toM * σ.toM)).trace.re := by
  unfold trProd4
  rw [re_trace, toM_mul, toM_mul]

end Bridge

end Toq.Metrics
