import Toq.Model.GamesSeesaw
import Toq.Proofs.Idx
import Mathlib.Algebra.Order.Field.Rat
import Mathlib.Tactic.Ring
import Mathlib.Tactic.Linarith
/-!
# Theorems about the model of the see-saw heuristic (`Toq/Model/GamesSeesaw.lean`), C07

(i)   `aliceObjective_arr_eq_bobObjective`, `aliceObjective_var_eq_bobObjective`: the two builders maximise the same bilinear form;
(ii)  `bobObjective_eq_seesawWin`, `seesawWin_eq_hs`: the flat accumulation `win += …` followed by `cvxpy.real` is
      `Σ prob·pred·Re tr(B[y,b]ᴴ A[x,a])`, entry by entry the Hilbert–Schmidt form; `seesawWin_det`, `aliceObjective_det`,
      `bobObjective_det`: at the point of a deterministic strategy both objectives are its classical winning probability `detValueN`;
      `det_alice_feasible_eqs`, `det_bob_feasible_eqs`: that point satisfies every equality constraint of the model;
      `aliceConstraints_length`, `bobConstraints_length`, … : the numbers of constraints of each kind;
(iii) the loop: `innerLoop_best_isMax`, `seesawLoop_value_isMax` (the returned value is the maximum of the consumed Bob values, in
      particular one of them), `innerGo_steps`, `innerGo_terminated` (the loop stops at the first round whose increase is `≤ tol`),
      `innerLoop_steps_pos`, `seesawLoop_of_one_le_tol` (for `tol ≥ 1` no round is executed and `-inf` is returned).
-/

namespace Toq.Seesaw
open Toq.Games

/-! ### projections of `QI` -/

theorem qi_ext {a b : QI} (h1 : a.re = b.re) (h2 : a.im = b.im) : a = b := by
  cases a; cases b; simp_all

@[simp] theorem re_add (a b : QI) : (a + b).re = a.re + b.re := rfl
@[simp] theorem im_add (a b : QI) : (a + b).im = a.im + b.im := rfl
@[simp] theorem re_zero : (0 : QI).re = 0 := rfl
@[simp] theorem im_zero : (0 : QI).im = 0 := rfl
@[simp] theorem re_one : (1 : QI).re = 1 := rfl
@[simp] theorem im_one : (1 : QI).im = 0 := rfl
@[simp] theorem re_mul (a b : QI) : (a * b).re = a.re * b.re - a.im * b.im := rfl
@[simp] theorem im_mul (a b : QI) : (a * b).im = a.re * b.im + a.im * b.re := rfl
@[simp] theorem re_conj (a : QI) : a.conj.re = a.re := rfl
@[simp] theorem im_conj (a : QI) : a.conj.im = -a.im := rfl
@[simp] theorem re_smul (q : Rat) (a : QI) : (QI.smul q a).re = q * a.re := rfl
@[simp] theorem im_smul (q : Rat) (a : QI) : (QI.smul q a).im = q * a.im := rfl

theorem qi_add_zero (a : QI) : a + 0 = a := qi_ext (by simp) (by simp)
theorem qi_zero_add (a : QI) : 0 + a = a := qi_ext (by simp) (by simp)

/-! ### sums -/

theorem re_sumN (f : Nat → QI) : ∀ n, (sumN n f).re = sumN n (fun k => (f k).re)
  | 0 => rfl
  | n + 1 => by simp only [sumN, re_add, re_sumN f n]

theorem im_sumN (f : Nat → QI) : ∀ n, (sumN n f).im = sumN n (fun k => (f k).im)
  | 0 => rfl
  | n + 1 => by simp only [sumN, im_add, im_sumN f n]

theorem sumN_zero_rat : ∀ n, sumN n (fun _ => (0 : Rat)) = 0
  | 0 => rfl
  | n + 1 => by simp only [sumN, sumN_zero_rat n, add_zero]

/-- a sum with one non-zero term, for any additive structure with a neutral zero -/
theorem sumN_ite_gen {α : Type} [Add α] [Zero α] (hz : ∀ a : α, a + 0 = a) (zh : ∀ a : α, 0 + a = a)
    (c : Nat) (g : Nat → α) : ∀ n, sumN n (fun k => if k = c then g k else 0) = if c < n then g c else 0
  | 0 => by simp [sumN]
  | n + 1 => by
    simp only [sumN, sumN_ite_gen hz zh c g n]
    by_cases h1 : c < n
    · have h2 : ¬ n = c := by omega
      have h3 : c < n + 1 := by omega
      simp [h1, h2, h3, hz]
    · by_cases h2 : n = c
      · subst h2; simp [zh]
      · have h3 : ¬ c < n + 1 := by omega
        simp [h1, h2, h3, hz]

theorem sumN_ite_rat (c n : Nat) (hc : c < n) (g : Nat → Rat) : sumN n (fun k => if k = c then g k else 0) = g c := by
  rw [sumN_ite_gen (fun a => add_zero a) (fun a => zero_add a) c g n]; simp [hc]

theorem sumN_ite_qi (c n : Nat) (hc : c < n) (g : Nat → QI) : sumN n (fun k => if k = c then g k else 0) = g c := by
  rw [sumN_ite_gen qi_add_zero qi_zero_add c g n]; simp [hc]

/-- `Σ_a Σ_b [a = fa ∧ b = gb] · h a b = h fa gb` -/
theorem sumN_sumN_delta (ao bo fa gb : Nat) (hfa : fa < ao) (hgb : gb < bo) (h : Nat → Nat → Rat) :
    sumN ao (fun a => sumN bo (fun b => if a = fa ∧ b = gb then h a b else 0)) = h fa gb := by
  have inner : ∀ a, sumN bo (fun b => if a = fa ∧ b = gb then h a b else 0) = if a = fa then h a gb else 0 := by
    intro a
    by_cases ha : a = fa
    · simp only [ha, true_and, if_true]
      exact sumN_ite_rat gb bo hgb (fun b => h fa b)
    · simp only [ha, false_and, if_false]
      exact sumN_zero_rat bo
  rw [show (fun a => sumN bo (fun b => if a = fa ∧ b = gb then h a b else 0)) = fun a => if a = fa then h a gb else 0 from funext inner]
  exact sumN_ite_rat fa ao hfa (fun a => h a gb)

/-! ### the flat accumulation is the nested sum -/

/-- a fold whose step adds `g k` to the image of the accumulator under an additive reading `φ` -/
theorem foldl_range_map (φ : QI → Rat) (F : Nat → QI → QI) (g : Nat → Rat) (h : ∀ k w, φ (F k w) = φ w + g k) :
    ∀ n w0, φ ((List.range n).foldl (fun w k => F k w) w0) = φ w0 + sumN n g
  | 0, w0 => by simp [sumN]
  | n + 1, w0 => by
    rw [List.range_succ, List.foldl_append]
    simp only [List.foldl_cons, List.foldl_nil]
    rw [h, foldl_range_map φ F g h n w0]
    simp only [sumN, add_assoc]

/-- the four nested `for` loops with one accumulator, read through an additive map -/
theorem loop4_map (φ : QI → Rat) (h0 : φ 0 = 0) (hadd : ∀ a b, φ (a + b) = φ a + φ b) (ai bi ao bo : Nat)
    (term : Nat → Nat → Nat → Nat → QI) :
    φ (loop4 ai bi ao bo term)
      = sumN ai fun x => sumN bi fun y => sumN ao fun a => sumN bo fun b => φ (term x y a b) := by
  unfold loop4
  have hb : ∀ x y a w, φ ((List.range bo).foldl (fun w b => w + term x y a b) w)
      = φ w + sumN bo (fun b => φ (term x y a b)) := fun x y a w =>
    foldl_range_map φ (fun b w => w + term x y a b) _ (fun b w => hadd w _) bo w
  have ha : ∀ x y w, φ ((List.range ao).foldl (fun w a => (List.range bo).foldl (fun w b => w + term x y a b) w) w)
      = φ w + sumN ao (fun a => sumN bo (fun b => φ (term x y a b))) := fun x y w =>
    foldl_range_map φ (fun a w => (List.range bo).foldl (fun w b => w + term x y a b) w) _ (fun a w => hb x y a w) ao w
  have hy : ∀ x w, φ ((List.range bi).foldl (fun w y => (List.range ao).foldl (fun w a =>
        (List.range bo).foldl (fun w b => w + term x y a b) w) w) w)
      = φ w + sumN bi (fun y => sumN ao (fun a => sumN bo (fun b => φ (term x y a b)))) := fun x w =>
    foldl_range_map φ (fun y w => (List.range ao).foldl (fun w a =>
        (List.range bo).foldl (fun w b => w + term x y a b) w) w) _ (fun y w => ha x y w) bi w
  rw [foldl_range_map φ (fun x w => (List.range bi).foldl (fun w y => (List.range ao).foldl (fun w a =>
        (List.range bo).foldl (fun w b => w + term x y a b) w) w) w) _ (fun x w => hy x w) ai 0, h0, zero_add]

theorem loop4_re (ai bi ao bo : Nat) (term : Nat → Nat → Nat → Nat → QI) :
    (loop4 ai bi ao bo term).re
      = sumN ai fun x => sumN bi fun y => sumN ao fun a => sumN bo fun b => (term x y a b).re :=
  loop4_map QI.re rfl (fun _ _ => rfl) ai bi ao bo term

theorem loop4_im (ai bi ao bo : Nat) (term : Nat → Nat → Nat → Nat → QI) :
    (loop4 ai bi ao bo term).im
      = sumN ai fun x => sumN bi fun y => sumN ao fun a => sumN bo fun b => (term x y a b).im :=
  loop4_map QI.im rfl (fun _ _ => rfl) ai bi ao bo term

/-! ### (i) both builders have the same objective -/

/-- `M.conj().T` (NumPy, two steps) and `M.H` (cvxpy, one step) are the same matrix -/
theorem transpose_conj_eq_ctrans (M : CMat) : transposeM (conjM M) = ctrans M := rfl

theorem aliceTerm_arr (d : Nat) (prob : Prob) (pred : Pred) (A B : Fam) :
    aliceTerm d prob pred A (fun y b => BobEntry.arr (B y b)) = bobTerm d prob pred A B := rfl

theorem aliceTerm_var (d : Nat) (prob : Prob) (pred : Pred) (A B : Fam) :
    aliceTerm d prob pred A (fun y b => BobEntry.var (B y b)) = bobTerm d prob pred A B := rfl

/-- **(i)** For Bob operators handed over as NumPy arrays (first round of an inner loop) the objective `__optimize_alice`
    builds is, as a function of the pair `(A, B)`, the objective `__optimize_bob` builds. -/
theorem aliceObjective_arr_eq_bobObjective (d ao bo ai bi : Nat) (prob : Prob) (pred : Pred) (A B : Fam) :
    aliceObjective d ao bo ai bi prob pred A (fun y b => BobEntry.arr (B y b)) = bobObjective d ao bo ai bi prob pred A B := by
  unfold aliceObjective bobObjective; rw [aliceTerm_arr]

/-- **(i)** The same for Bob operators handed over as cvxpy variables with values (all later rounds). -/
theorem aliceObjective_var_eq_bobObjective (d ao bo ai bi : Nat) (prob : Prob) (pred : Pred) (A B : Fam) :
    aliceObjective d ao bo ai bi prob pred A (fun y b => BobEntry.var (B y b)) = bobObjective d ao bo ai bi prob pred A B := by
  unfold aliceObjective bobObjective; rw [aliceTerm_var]

/-- entries of `bob_povms` that are neither arrays nor variables contribute nothing: the objective is `0` -/
theorem aliceObjective_other (d ao bo ai bi : Nat) (prob : Prob) (pred : Pred) (A : Fam) :
    aliceObjective d ao bo ai bi prob pred A (fun _ _ => BobEntry.other) = 0 := by
  unfold aliceObjective
  rw [loop4_re]
  have : ∀ x y a b, (aliceTerm d prob pred A (fun _ _ => BobEntry.other) x y a b).re = 0 := fun _ _ _ _ => rfl
  simp only [this, sumN_zero_rat]

/-! ### (ii) the objective as a sum; deterministic strategies -/

/-- **(ii)** `cvxpy.real(win)` with `win` accumulated term by term is `Σ_x Σ_y Σ_a Σ_b prob·pred·Re tr(B[y,b]ᴴ A[x,a])`. -/
theorem bobObjective_eq_seesawWin (d ao bo ai bi : Nat) (prob : Prob) (pred : Pred) (A B : Fam) :
    bobObjective d ao bo ai bi prob pred A B = seesawWin d ao bo ai bi prob pred A B := by
  unfold bobObjective seesawWin; rw [loop4_re]; rfl

theorem aliceObjective_eq_seesawWin (d ao bo ai bi : Nat) (prob : Prob) (pred : Pred) (A B : Fam) :
    aliceObjective d ao bo ai bi prob pred A (fun y b => BobEntry.arr (B y b)) = seesawWin d ao bo ai bi prob pred A B := by
  rw [aliceObjective_arr_eq_bobObjective, bobObjective_eq_seesawWin]

/-- `Re tr(Bᴴ A) = Σ_{i,j} (Re B_ij · Re A_ij + Im B_ij · Im A_ij)` -/
theorem re_trace_ctrans_mul (d : Nat) (B A : CMat) : (trace d (mmul d (ctrans B) A)).re = hsRe d B A := by
  unfold trace mmul ctrans hsRe
  rw [re_sumN]
  apply sumN_congr; intro i _
  rw [re_sumN]
  apply sumN_congr; intro k _
  simp only [re_mul, re_conj, im_conj]; ring

/-- the objective entry by entry -/
theorem seesawWin_eq_hs (d ao bo ai bi : Nat) (prob : Prob) (pred : Pred) (A B : Fam) :
    seesawWin d ao bo ai bi prob pred A B
      = sumN ai fun x => sumN bi fun y => sumN ao fun a => sumN bo fun b => prob x y * pred a b x y * hsRe d (B y b) (A x a) := by
  unfold seesawWin; simp only [re_trace_ctrans_mul]

/-- the part of `win` that `cvxpy.real` drops: `Σ prob·pred·Im tr(B[y,b]ᴴ A[x,a])` -/
theorem bobWin_im (d ao bo ai bi : Nat) (prob : Prob) (pred : Pred) (A B : Fam) :
    (loop4 ai bi ao bo (bobTerm d prob pred A B)).im
      = sumN ai fun x => sumN bi fun y => sumN ao fun a => sumN bo fun b =>
          prob x y * pred a b x y * (trace d (mmul d (ctrans (B y b)) (A x a))).im := by
  rw [loop4_im]; rfl

theorem hsRe_zero_left (d : Nat) (A : CMat) : hsRe d zeroM A = 0 := by
  unfold hsRe zeroM
  simp only [re_zero, im_zero, zero_mul, add_zero, sumN_zero_rat]

theorem hsRe_zero_right (d : Nat) (B : CMat) : hsRe d B zeroM = 0 := by
  unfold hsRe zeroM
  simp only [re_zero, im_zero, mul_zero, add_zero, sumN_zero_rat]

theorem hsRe_id (d : Nat) (tau : CMat) : hsRe d idM tau = (trace d tau).re := by
  unfold hsRe trace
  rw [re_sumN]
  apply sumN_congr; intro i hi
  have : (fun k => (idM k i).re * (tau k i).re + (idM k i).im * (tau k i).im)
      = fun k => if k = i then (tau k i).re else 0 := by
    funext k
    unfold idM
    by_cases h : k = i <;> simp [h]
  rw [this]
  exact sumN_ite_rat i d hi (fun k => (tau k i).re)

/-- `Re tr(B[y,b]ᴴ A[x,a])` at the point of a deterministic strategy -/
theorem hsRe_det (d : Nat) (f g : Nat → Nat) (tau : CMat) (x y a b : Nat) :
    hsRe d (detBob g y b) (detAlice f tau x a) = if a = f x ∧ b = g y then (trace d tau).re else 0 := by
  unfold detBob detAlice
  by_cases ha : a = f x <;> by_cases hb : b = g y <;>
    simp [ha, hb, hsRe_zero_left, hsRe_zero_right, hsRe_id]

/-- **(ii)** At the point `A[x,a] = [a = f x]·τ`, `B[y,b] = [b = g y]·I` with `tr τ = 1` the common objective of the two programs
    is the winning probability of the deterministic strategy `(f, g)`. -/
theorem seesawWin_det (d ao bo ai bi : Nat) (prob : Prob) (pred : Pred) (f g : Nat → Nat) (tau : CMat)
    (hf : ∀ x, x < ai → f x < ao) (hg : ∀ y, y < bi → g y < bo) (htr : trace d tau = 1) :
    seesawWin d ao bo ai bi prob pred (detAlice f tau) (detBob g) = detValueN ai bi prob pred f g := by
  rw [seesawWin_eq_hs]
  unfold detValueN
  apply sumN_congr; intro x hx
  apply sumN_congr; intro y hy
  have hterm : (fun a => sumN bo fun b => prob x y * pred a b x y * hsRe d (detBob g y b) (detAlice f tau x a))
      = fun a => sumN bo fun b => if a = f x ∧ b = g y then prob x y * pred a b x y else 0 := by
    funext a; congr 1; funext b
    rw [hsRe_det, htr]
    by_cases h : a = f x ∧ b = g y <;> simp [h]
  rw [hterm]
  exact sumN_sumN_delta ao bo (f x) (g y) (hf x hx) (hg y hy) (fun a b => prob x y * pred a b x y)

/-- **(ii)** … as the objective of the program `__optimize_bob` builds -/
theorem bobObjective_det (d ao bo ai bi : Nat) (prob : Prob) (pred : Pred) (f g : Nat → Nat) (tau : CMat)
    (hf : ∀ x, x < ai → f x < ao) (hg : ∀ y, y < bi → g y < bo) (htr : trace d tau = 1) :
    bobObjective d ao bo ai bi prob pred (detAlice f tau) (detBob g) = detValueN ai bi prob pred f g := by
  rw [bobObjective_eq_seesawWin, seesawWin_det d ao bo ai bi prob pred f g tau hf hg htr]

/-- **(ii)** … and as the objective of the program `__optimize_alice` builds -/
theorem aliceObjective_det (d ao bo ai bi : Nat) (prob : Prob) (pred : Pred) (f g : Nat → Nat) (tau : CMat)
    (hf : ∀ x, x < ai → f x < ao) (hg : ∀ y, y < bi → g y < bo) (htr : trace d tau = 1) :
    aliceObjective d ao bo ai bi prob pred (detAlice f tau) (fun y b => BobEntry.arr (detBob g y b))
      = detValueN ai bi prob pred f g := by
  rw [aliceObjective_arr_eq_bobObjective, bobObjective_det d ao bo ai bi prob pred f g tau hf hg htr]

/-! ### the constraint lists: counts and the deterministic point -/

theorem eqM_iff (d : Nat) (M N : CMat) : eqM d M N = true ↔ ∀ i j, i < d → j < d → M i j = N i j := by
  unfold eqM
  rw [allBelow_iff]
  constructor
  · intro h i j hi hj
    have := (allBelow_iff _ d).1 (h i hi) j hj
    simpa using this
  · intro h i hi
    rw [allBelow_iff]
    intro j hj
    simpa using h i j hi hj

theorem length_flatMap_const {α β : Type} (l : List α) (F : α → List β) (c : Nat) (h : ∀ a, (F a).length = c) :
    (l.flatMap F).length = l.length * c := by
  induction l with
  | nil => simp
  | cons a l ih => simp [List.flatMap_cons, ih, h, Nat.add_mul, Nat.add_comm]

/-- `__optimize_alice` emits `ai·(ao + 1) + 2` constraints -/
theorem aliceConstraints_length (ao ai : Nat) : (aliceConstraints ao ai).length = ai * (ao + 1) + 2 := by
  unfold aliceConstraints
  rw [List.length_append, length_flatMap_const _ _ (ao + 1) (by intro x; simp)]
  simp

/-- `__optimize_bob` emits `bi·(bo + 1)` constraints -/
theorem bobConstraints_length (bo bi : Nat) : (bobConstraints bo bi).length = bi * (bo + 1) := by
  unfold bobConstraints
  rw [length_flatMap_const _ _ (bo + 1) (by intro x; simp)]
  simp

theorem filter_flatMap_length_const {α : Type} (l : List α) (F : α → List Constr) (p : Constr → Bool) (c : Nat)
    (h : ∀ a, ((F a).filter p).length = c) : ((l.flatMap F).filter p).length = l.length * c := by
  induction l with
  | nil => simp
  | cons a l ih => simp [List.flatMap_cons, List.filter_append, ih, h, Nat.add_mul, Nat.add_comm]

theorem filter_isPsd_block (n : Nat) (mk : Nat → Constr) (e : Constr) (hmk : ∀ a, (mk a).isPsd = true) (he : e.isPsd = false) :
    (((List.range n).map mk ++ [e]).filter Constr.isPsd).length = n := by
  rw [List.filter_append]
  have h1 : ((List.range n).map mk).filter Constr.isPsd = (List.range n).map mk := by
    apply List.filter_eq_self.2
    intro c hc
    obtain ⟨a, _, rfl⟩ := List.mem_map.1 hc
    exact hmk a
  simp [h1, he]

/-- … of which `ai·ao + 1` are semidefinite constraints (hence `ai + 1` equalities) -/
theorem aliceConstraints_psd (ao ai : Nat) : ((aliceConstraints ao ai).filter Constr.isPsd).length = ai * ao + 1 := by
  unfold aliceConstraints
  rw [List.filter_append, List.length_append,
    filter_flatMap_length_const _ _ _ ao (fun x => filter_isPsd_block ao (Constr.psdA x) (Constr.sumA x) (fun _ => rfl) rfl)]
  have h2 : ([Constr.trTau, Constr.psdTau].filter Constr.isPsd).length = 1 := rfl
  rw [h2]; simp

/-- … of which `bi·bo` are semidefinite constraints (hence `bi` equalities) -/
theorem bobConstraints_psd (bo bi : Nat) : ((bobConstraints bo bi).filter Constr.isPsd).length = bi * bo := by
  unfold bobConstraints
  rw [filter_flatMap_length_const _ _ _ bo (fun y => filter_isPsd_block bo (Constr.psdB y) (Constr.sumB y) (fun _ => rfl) rfl)]
  simp

theorem sumM_detAlice (ao : Nat) (f : Nat → Nat) (tau : CMat) (x : Nat) (hx : f x < ao) (i j : Nat) :
    sumM ao (detAlice f tau x) i j = tau i j := by
  unfold sumM detAlice
  have : (fun k => (if k = f x then tau else zeroM) i j) = fun k => if k = f x then tau i j else 0 := by
    funext k; by_cases h : k = f x <;> simp [h, zeroM]
  rw [this]
  exact sumN_ite_qi (f x) ao hx (fun _ => tau i j)

theorem sumM_detBob (bo : Nat) (g : Nat → Nat) (y : Nat) (hy : g y < bo) (i j : Nat) :
    sumM bo (detBob g y) i j = idM i j := by
  unfold sumM detBob
  have : (fun k => (if k = g y then idM else zeroM) i j) = fun k => if k = g y then idM i j else 0 := by
    funext k; by_cases h : k = g y <;> simp [h, zeroM]
  rw [this]
  exact sumN_ite_qi (g y) bo hy (fun _ => idM i j)

/-- **(ii)** The point of a deterministic strategy satisfies every equality constraint `__optimize_alice` emits
    (`Σ_a A[x,a] = τ` for every question, `tr τ = 1`), whatever Bob's operators are. -/
theorem det_alice_feasible_eqs (d ao bo ai : Nat) (f : Nat → Nat) (tau : CMat) (B : Fam)
    (hf : ∀ x, x < ai → f x < ao) (htr : trace d tau = 1) :
    ∀ c ∈ aliceConstraints ao ai, c.holdsEq d ao bo (detAlice f tau) B tau = true := by
  intro c hc
  unfold aliceConstraints at hc
  rcases List.mem_append.1 hc with h | h
  · obtain ⟨x, hx, hcx⟩ := List.mem_flatMap.1 h
    have hx' : x < ai := List.mem_range.1 hx
    rcases List.mem_append.1 hcx with h2 | h2
    · obtain ⟨a, _, rfl⟩ := List.mem_map.1 h2
      rfl
    · have : c = Constr.sumA x := by simpa using h2
      subst this
      show eqM d (sumM ao (detAlice f tau x)) tau = true
      rw [eqM_iff]
      intro i j _ _
      exact sumM_detAlice ao f tau x (hf x hx') i j
  · have : c = Constr.trTau ∨ c = Constr.psdTau := by simpa using h
    rcases this with rfl | rfl
    · show decide (trace d tau = 1) = true
      simp [htr]
    · rfl

/-- **(ii)** … and every equality constraint `__optimize_bob` emits (`Σ_b B[y,b] = I` for every question). -/
theorem det_bob_feasible_eqs (d ao bo bi : Nat) (g : Nat → Nat) (A : Fam) (tau : CMat)
    (hg : ∀ y, y < bi → g y < bo) :
    ∀ c ∈ bobConstraints bo bi, c.holdsEq d ao bo A (detBob g) tau = true := by
  intro c hc
  unfold bobConstraints at hc
  obtain ⟨y, hy, hcy⟩ := List.mem_flatMap.1 hc
  have hy' : y < bi := List.mem_range.1 hy
  rcases List.mem_append.1 hcy with h2 | h2
  · obtain ⟨b, _, rfl⟩ := List.mem_map.1 h2
    rfl
  · have : c = Constr.sumB y := by simpa using h2
    subst this
    show eqM d (sumM bo (detBob g y)) idM = true
    rw [eqM_iff]
    intro i j _ _
    exact sumM_detBob bo g y (hg y hy') i j

/-- the blocks of a deterministic point lie in the domain of the Hermitian variables when `τ` is Hermitian -/
theorem det_hermitian (d : Nat) (f g : Nat → Nat) (tau : CMat) (htau : isHermM d tau = true) (x a y b : Nat) :
    isHermM d (detAlice f tau x a) = true ∧ isHermM d (detBob g y b) = true := by
  have hz : isHermM d zeroM = true := by
    unfold isHermM; rw [eqM_iff]; intro i j _ _; rfl
  have hi : isHermM d idM = true := by
    unfold isHermM; rw [eqM_iff]; intro i j _ _
    unfold ctrans idM
    by_cases h : i = j
    · subst h; simp; rfl
    · have h' : ¬ j = i := fun e => h e.symm
      simp [h, h']; rfl
  unfold detAlice detBob
  constructor
  · by_cases h : a = f x <;> simp [h, htau, hz]
  · by_cases h : b = g y <;> simp [h, hi, hz]

/-! ### (iii) the loops -/

/-- `m` is the maximum of the list `l` (`none` = `-inf` exactly when the list is empty) -/
def IsListMax (l : List Rat) : Option Rat → Prop
  | none => l = []
  | some v => v ∈ l ∧ ∀ w ∈ l, w ≤ v

theorem isListMax_snoc (pre : List Rat) (p t : Rat) (h : IsListMax pre (some p)) :
    IsListMax (pre ++ [t]) (some (rmax p t)) := by
  obtain ⟨hp, hle⟩ := h
  unfold rmax
  by_cases hpt : p ≤ t
  · simp only [hpt, if_true]
    refine ⟨by simp, ?_⟩
    intro w hw
    rcases List.mem_append.1 hw with h1 | h1
    · exact le_trans (hle w h1) hpt
    · have : w = t := by simpa using h1
      rw [this]
  · simp only [hpt, if_false]
    refine ⟨List.mem_append_left _ hp, ?_⟩
    intro w hw
    rcases List.mem_append.1 hw with h1 | h1
    · exact hle w h1
    · have : w = t := by simpa using h1
      rw [this]; exact le_of_lt (not_le.1 hpt)

theorem foldl_maxNegInf_some (l : List Rat) : ∀ (pre : List Rat) (p : Rat), IsListMax pre (some p) →
    IsListMax (pre ++ l) (l.foldl maxNegInf (some p)) := by
  induction l with
  | nil => intro pre p h; simpa using h
  | cons t l ih =>
    intro pre p h
    have := ih (pre ++ [t]) (rmax p t) (isListMax_snoc pre p t h)
    simpa [List.foldl_cons, maxNegInf] using this

/-- `best = -inf; for v in l: best = max(best, v)` computes the maximum of `l` -/
theorem foldl_maxNegInf_isMax (l : List Rat) : IsListMax l (l.foldl maxNegInf none) := by
  cases l with
  | nil => rfl
  | cons t l =>
    have h0 : IsListMax [t] (some t) := by
      refine ⟨by simp, ?_⟩
      intro w hw
      have hwt : w = t := by simpa using hw
      rw [hwt]
    have h1 := foldl_maxNegInf_some l [t] t h0
    simpa [List.foldl_cons, maxNegInf] using h1

theorem innerGo_best (tol : Rat) : ∀ (vals : List Rat) (itDiff prev : Rat) (best : Option Rat),
    (innerGo tol vals itDiff prev best).best
      = (vals.take (innerGo tol vals itDiff prev best).steps).foldl maxNegInf best
  | [], _, _, _ => rfl
  | lb :: rest, itDiff, prev, best => by
    unfold innerGo
    by_cases h : itDiff > tol
    · simp only [h, if_true, List.take_succ_cons, List.foldl_cons]
      exact innerGo_best tol rest (lb - prev) lb (maxNegInf best lb)
    · simp only [h, if_false, List.take_zero, List.foldl_nil]

/-- **(iii)** `best` of an inner loop is the maximum of the Bob values it consumed: in particular it is one of them when at
    least one round ran, and it is `-inf` only when none ran. -/
theorem innerLoop_best_isMax (tol : Rat) (vals : List Rat) :
    IsListMax (vals.take (innerLoop tol vals).steps) (innerLoop tol vals).best := by
  unfold innerLoop
  rw [innerGo_best]
  exact foldl_maxNegInf_isMax _

theorem isListMax_append (l1 l2 : List Rat) (m1 m2 : Option Rat) (h1 : IsListMax l1 m1) (h2 : IsListMax l2 m2) :
    IsListMax (l1 ++ l2) (maxOpt m2 m1) := by
  cases m2 with
  | none =>
    have : l2 = [] := h2
    subst this
    simpa [maxOpt] using h1
  | some p =>
    cases m1 with
    | none =>
      have : l1 = [] := h1
      subst this
      simpa [maxOpt] using h2
    | some q =>
      obtain ⟨hq, hql⟩ := h1
      obtain ⟨hp, hpl⟩ := h2
      show IsListMax (l1 ++ l2) (some (rmax p q))
      unfold rmax
      by_cases hpq : p ≤ q
      · simp only [hpq, if_true]
        refine ⟨List.mem_append_left _ hq, ?_⟩
        intro w hw
        rcases List.mem_append.1 hw with h | h
        · exact hql w h
        · exact le_trans (hpl w h) hpq
      · simp only [hpq, if_false]
        refine ⟨List.mem_append_right _ hp, ?_⟩
        intro w hw
        rcases List.mem_append.1 hw with h | h
        · exact le_trans (hql w h) (le_of_lt (not_le.1 hpq))
        · exact hpl w h

/-- **(iii)** The value `quantum_value_lower_bound` returns is the maximum of all values returned by Bob's solves that the method
    consumed (over all outer iterations); it is `-inf` exactly when no round ran at all. -/
theorem seesawLoop_value_isMax (tol : Rat) (vals : Nat → List Rat) :
    ∀ n, IsListMax (consumed tol vals n) (seesawLoop tol vals n).value
  | 0 => rfl
  | n + 1 => by
    show IsListMax (consumed tol vals n ++ (vals n).take (innerLoop tol (vals n)).steps)
      (maxOpt (innerLoop tol (vals n)).best (seesawLoop tol vals n).value)
    exact isListMax_append _ _ _ _ (seesawLoop_value_isMax tol vals n) (innerLoop_best_isMax tol (vals n))

/-- the returned value is one of the consumed values and dominates all of them -/
theorem seesawLoop_value_mem (tol : Rat) (vals : Nat → List Rat) (n : Nat) (v : Rat)
    (h : (seesawLoop tol vals n).value = some v) :
    v ∈ consumed tol vals n ∧ ∀ w ∈ consumed tol vals n, w ≤ v := by
  have := seesawLoop_value_isMax tol vals n
  rw [h] at this
  exact this

theorem seesawLoop_steps (tol : Rat) (vals : Nat → List Rat) :
    ∀ n, (seesawLoop tol vals n).steps = (List.range n).map (fun i => (innerLoop tol (vals i)).steps)
  | 0 => rfl
  | n + 1 => by
    show (seesawLoop tol vals n).steps ++ [(innerLoop tol (vals n)).steps] = _
    rw [seesawLoop_steps tol vals n, List.range_succ, List.map_append]; rfl

theorem innerGo_steps_le (tol : Rat) : ∀ (vals : List Rat) (itDiff prev : Rat) (best : Option Rat),
    (innerGo tol vals itDiff prev best).steps ≤ vals.length
  | [], _, _, _ => Nat.le_refl 0
  | lb :: rest, itDiff, prev, best => by
    unfold innerGo
    by_cases h : itDiff > tol
    · simp only [h, if_true, List.length_cons]
      exact Nat.succ_le_succ (innerGo_steps_le tol rest _ _ _)
    · simp only [h, if_false]; exact Nat.zero_le _

/-- the number of values consumed is the total number of rounds; the method calls `solve` twice per round -/
theorem consumed_length (tol : Rat) (vals : Nat → List Rat) :
    ∀ n, (consumed tol vals n).length = (seesawLoop tol vals n).steps.sum
  | 0 => rfl
  | n + 1 => by
    show (consumed tol vals n ++ (vals n).take (innerLoop tol (vals n)).steps).length
      = ((seesawLoop tol vals n).steps ++ [(innerLoop tol (vals n)).steps]).sum
    rw [List.length_append, consumed_length tol vals n, List.length_take, List.sum_append]
    have := innerGo_steps_le tol (vals n) 1 (-1) none
    unfold innerLoop
    simp [Nat.min_eq_left this]

theorem solves_eq (tol : Rat) (vals : Nat → List Rat) (n : Nat) :
    (seesawLoop tol vals n).solves = 2 * (consumed tol vals n).length := by
  unfold LoopResult.solves; rw [consumed_length]

/-- the increments `lower_bound - prev_win` the loop computes along a list of Bob values, starting from `prev_win = prev` -/
def incrs (prev : Rat) : List Rat → List Rat
  | [] => []
  | v :: rest => (v - prev) :: incrs v rest

theorem incrs_length (prev : Rat) : ∀ vals : List Rat, (incrs prev vals).length = vals.length
  | [] => rfl
  | v :: rest => by simp [incrs, incrs_length v rest]

/-- the number of leading rounds whose increase exceeds the tolerance -/
def lead (tol prev : Rat) (vals : List Rat) : Nat := ((incrs prev vals).takeWhile (fun δ => decide (δ > tol))).length

theorem innerGo_of_not_gt (tol : Rat) (vals : List Rat) (itDiff prev : Rat) (best : Option Rat) (h : ¬ itDiff > tol) :
    innerGo tol vals itDiff prev best = ⟨best, 0, true⟩ := by
  cases vals with
  | nil => simp [innerGo, h]
  | cons lb rest => simp [innerGo, h]

/-- **(iii)** Termination logic: when the loop is entered (`it_diff > tol`), it runs one round more than there are leading rounds
    with an increase `> tol` — it stops after the FIRST round whose increase `lower_bound - prev_win` is `≤ tol` (or when the
    supplied values run out). -/
theorem innerGo_steps (tol : Rat) : ∀ (vals : List Rat) (itDiff prev : Rat) (best : Option Rat), itDiff > tol →
    (innerGo tol vals itDiff prev best).steps = min (lead tol prev vals + 1) vals.length
  | [], _, _, _, _ => by simp [innerGo]
  | lb :: rest, itDiff, prev, best, h => by
    unfold innerGo lead incrs
    simp only [h, if_true, List.length_cons]
    by_cases h2 : lb - prev > tol
    · rw [innerGo_steps tol rest (lb - prev) lb _ h2]
      simp only [List.takeWhile_cons, h2, decide_true, if_true, List.length_cons]
      unfold lead
      omega
    · rw [innerGo_of_not_gt tol rest (lb - prev) lb _ h2]
      simp [h2]

/-- **(iii)** … and it terminates within the supplied values iff some supplied round has an increase `≤ tol` -/
theorem innerGo_terminated (tol : Rat) : ∀ (vals : List Rat) (itDiff prev : Rat) (best : Option Rat), itDiff > tol →
    (innerGo tol vals itDiff prev best).terminated = decide (lead tol prev vals < vals.length)
  | [], _, _, _, h => by simp [innerGo, h, lead, incrs]
  | lb :: rest, itDiff, prev, best, h => by
    unfold innerGo lead incrs
    simp only [h, if_true, List.length_cons]
    by_cases h2 : lb - prev > tol
    · rw [innerGo_terminated tol rest (lb - prev) lb _ h2]
      simp only [List.takeWhile_cons, h2, decide_true, if_true, List.length_cons]
      unfold lead
      simp
    · rw [innerGo_of_not_gt tol rest (lb - prev) lb _ h2]
      simp [h2]

/-- **(iii)** for a tolerance below 1 every inner loop runs at least one round (the start value `it_diff = 1` passes the test) -/
theorem innerLoop_steps_pos (tol : Rat) (vals : List Rat) (htol : tol < 1) (hv : vals ≠ []) :
    1 ≤ (innerLoop tol vals).steps := by
  unfold innerLoop
  rw [innerGo_steps tol vals 1 (-1) none htol]
  have : 1 ≤ vals.length := by
    cases vals with
    | nil => exact absurd rfl hv
    | cons _ _ => simp
  omega

theorem innerLoop_steps_eq (tol : Rat) (vals : List Rat) (htol : tol < 1) :
    (innerLoop tol vals).steps = min (lead tol (-1) vals + 1) vals.length :=
  innerGo_steps tol vals 1 (-1) none htol

theorem innerLoop_terminated_eq (tol : Rat) (vals : List Rat) (htol : tol < 1) :
    (innerLoop tol vals).terminated = decide (lead tol (-1) vals < vals.length) :=
  innerGo_terminated tol vals 1 (-1) none htol

/-- for `tol ≥ 1` the start value `it_diff = 1` fails the test `it_diff > tol`: no round runs -/
theorem innerLoop_of_one_le_tol (tol : Rat) (vals : List Rat) (htol : 1 ≤ tol) : innerLoop tol vals = ⟨none, 0, true⟩ :=
  innerGo_of_not_gt tol vals 1 (-1) none (not_lt.2 htol)

/-- … and `quantum_value_lower_bound` returns `float("-inf")` without solving anything -/
theorem seesawLoop_of_one_le_tol (tol : Rat) (vals : Nat → List Rat) (htol : 1 ≤ tol) :
    ∀ n, (seesawLoop tol vals n).value = none ∧ (seesawLoop tol vals n).solves = 0
  | 0 => ⟨rfl, rfl⟩
  | n + 1 => by
    obtain ⟨h1, h2⟩ := seesawLoop_of_one_le_tol tol vals htol n
    have hi := innerLoop_of_one_le_tol tol (vals n) htol
    constructor
    · show maxOpt (innerLoop tol (vals n)).best (seesawLoop tol vals n).value = none
      rw [hi, h1]; rfl
    · unfold LoopResult.solves at *
      show 2 * ((seesawLoop tol vals n).steps ++ [(innerLoop tol (vals n)).steps]).sum = 0
      rw [hi, List.sum_append]
      simp only [List.sum_cons, List.sum_nil]; omega

theorem mem_le_sum : ∀ (l : List Nat) (a : Nat), a ∈ l → a ≤ l.sum
  | [], _, h => by simp at h
  | b :: l, a, h => by
    rcases List.mem_cons.1 h with rfl | h'
    · simp
    · have := mem_le_sum l a h'
      simp only [List.sum_cons]; omega

/-- **(iii)** with `iters ≥ 1`, `tol < 1` and at least one value available in the first outer iteration, the method returns a
    finite number -/
theorem seesawLoop_value_isSome (tol : Rat) (vals : Nat → List Rat) (n : Nat) (htol : tol < 1) (hv : vals 0 ≠ []) :
    ((seesawLoop tol vals (n + 1)).value).isSome = true := by
  have hmax := seesawLoop_value_isMax tol vals (n + 1)
  cases hval : (seesawLoop tol vals (n + 1)).value with
  | some v => rfl
  | none =>
    rw [hval] at hmax
    have hnil : consumed tol vals (n + 1) = [] := hmax
    have hlen := consumed_length tol vals (n + 1)
    rw [hnil, seesawLoop_steps] at hlen
    have hpos := innerLoop_steps_pos tol (vals 0) htol hv
    have hmem : (innerLoop tol (vals 0)).steps ∈ (List.range (n + 1)).map (fun i => (innerLoop tol (vals i)).steps) :=
      List.mem_map.2 ⟨0, List.mem_range.2 (Nat.succ_pos n), rfl⟩
    have hle := mem_le_sum _ _ hmem
    simp only [List.length_nil] at hlen
    omega

/-! ### the stopping rule entry by entry, monotone runs, bilinearity -/

/-- the increments are the differences of consecutive values, the first one against the start value `prev_win` -/
theorem incrs_eq_zipWith : ∀ (prev : Rat) (vals : List Rat), incrs prev vals = List.zipWith (fun v p => v - p) vals (prev :: vals)
  | _, [] => rfl
  | prev, v :: rest => by
    simp only [incrs, List.zipWith_cons_cons]
    rw [incrs_eq_zipWith v rest]

theorem takeWhile_spec {α : Type} (p : α → Bool) : ∀ (l : List α),
    (∀ k x, k < (l.takeWhile p).length → l[k]? = some x → p x = true) ∧
    (∀ x, l[(l.takeWhile p).length]? = some x → p x = false)
  | [] => by simp
  | a :: l => by
    obtain ⟨h1, h2⟩ := takeWhile_spec p l
    by_cases ha : p a = true
    · simp only [List.takeWhile_cons, ha, if_true, List.length_cons]
      constructor
      · intro k x hk hx
        cases k with
        | zero => simp at hx; rw [← hx]; exact ha
        | succ k => exact h1 k x (by omega) (by simpa using hx)
      · intro x hx
        exact h2 x (by simpa using hx)
    · have ha' : p a = false := by simpa using ha
      have hnil : List.takeWhile p (a :: l) = [] := by simp [ha']
      rw [hnil]
      simp only [List.length_nil]
      constructor
      · intro k x hk; omega
      · intro x hx
        simp at hx; rw [← hx]; exact ha'

/-- **(iii)** every round before the last executed one had an increase `> tol` … -/
theorem lead_go (tol prev : Rat) (vals : List Rat) (k : Nat) (δ : Rat) (hk : k < lead tol prev vals)
    (h : (incrs prev vals)[k]? = some δ) : δ > tol := by
  have := (takeWhile_spec (fun δ => decide (δ > tol)) (incrs prev vals)).1 k δ hk h
  simpa using this

/-- **(iii)** … and the round after which the loop stops has an increase `≤ tol` -/
theorem lead_stop (tol prev : Rat) (vals : List Rat) (δ : Rat) (h : (incrs prev vals)[lead tol prev vals]? = some δ) : δ ≤ tol := by
  have := (takeWhile_spec (fun δ => decide (δ > tol)) (incrs prev vals)).2 δ h
  simpa using this

/-- **(iii)** The stopping rule in one statement: an inner loop (`tol < 1`) that terminated ran `j + 1` rounds, where round `j` (0-based) is
    the FIRST whose increase `lower_bound - prev_win` is `≤ tol` (`prev_win = -1` before the first round) and all earlier increases are `> tol`. -/
theorem innerLoop_stop_rule (tol : Rat) (vals : List Rat) (htol : tol < 1) (hterm : (innerLoop tol vals).terminated = true) :
    (innerLoop tol vals).steps = lead tol (-1) vals + 1 ∧
    (∀ δ, (incrs (-1) vals)[lead tol (-1) vals]? = some δ → δ ≤ tol) ∧
    (∀ k δ, k < lead tol (-1) vals → (incrs (-1) vals)[k]? = some δ → δ > tol) := by
  rw [innerLoop_terminated_eq tol vals htol] at hterm
  have hlt : lead tol (-1) vals < vals.length := by simpa using hterm
  refine ⟨?_, fun δ h => lead_stop tol (-1) vals δ h, fun k δ hk h => lead_go tol (-1) vals k δ hk h⟩
  rw [innerLoop_steps_eq tol vals htol]
  omega

theorem pairwise_le_getLast : ∀ (l : List Rat) (h : l ≠ []), l.Pairwise (· ≤ ·) → ∀ x ∈ l, x ≤ l.getLast h
  | [], h, _, _, _ => absurd rfl h
  | [a], _, _, x, hx => by
    have : x = a := by simpa using hx
    rw [this]; simp
  | a :: b :: t, _, hp, x, hx => by
    rw [List.getLast_cons (List.cons_ne_nil b t)]
    obtain ⟨ha, hrest⟩ := List.pairwise_cons.1 hp
    rcases List.mem_cons.1 hx with rfl | hx'
    · exact ha _ (List.getLast_mem _)
    · exact pairwise_le_getLast (b :: t) (List.cons_ne_nil b t) hrest x hx'

/-- **(iii)** when the consumed values never decrease (what alternating optimisation does up to solver noise), the maximum the loop keeps
    is the last value -/
theorem isListMax_of_monotone (l : List Rat) (v : Rat) (hmax : IsListMax l (some v)) (hmono : l.Pairwise (· ≤ ·)) (h : l ≠ []) :
    v = l.getLast h :=
  le_antisymm (pairwise_le_getLast l h hmono v hmax.1) (hmax.2 _ (List.getLast_mem h))

theorem sumN_add_rat (f g : Nat → Rat) : ∀ n, sumN n (fun k => f k + g k) = sumN n f + sumN n g
  | 0 => by simp [sumN]
  | n + 1 => by simp only [sumN, sumN_add_rat f g n]; ring

theorem sumN_mul_rat (c : Rat) (f : Nat → Rat) : ∀ n, sumN n (fun k => c * f k) = c * sumN n f
  | 0 => by simp [sumN]
  | n + 1 => by simp only [sumN, sumN_mul_rat c f n]; ring

theorem hsRe_add_right (d : Nat) (B A A' : CMat) : hsRe d B (addM A A') = hsRe d B A + hsRe d B A' := by
  unfold hsRe addM
  rw [← sumN_add_rat]
  apply sumN_congr; intro i _
  rw [← sumN_add_rat]
  apply sumN_congr; intro k _
  simp only [re_add, im_add]; ring

theorem hsRe_add_left (d : Nat) (B B' A : CMat) : hsRe d (addM B B') A = hsRe d B A + hsRe d B' A := by
  unfold hsRe addM
  rw [← sumN_add_rat]
  apply sumN_congr; intro i _
  rw [← sumN_add_rat]
  apply sumN_congr; intro k _
  simp only [re_add, im_add]; ring

/-- the common objective is additive in Alice's operators (the program of `__optimize_alice` has a linear objective) … -/
theorem seesawWin_add_alice (d ao bo ai bi : Nat) (prob : Prob) (pred : Pred) (A A' B : Fam) :
    seesawWin d ao bo ai bi prob pred (fun x a => addM (A x a) (A' x a)) B
      = seesawWin d ao bo ai bi prob pred A B + seesawWin d ao bo ai bi prob pred A' B := by
  simp only [seesawWin_eq_hs, hsRe_add_right, mul_add, sumN_add_rat]

/-- … and in Bob's operators (so has the program of `__optimize_bob`): a bilinear form -/
theorem seesawWin_add_bob (d ao bo ai bi : Nat) (prob : Prob) (pred : Pred) (A B B' : Fam) :
    seesawWin d ao bo ai bi prob pred A (fun y b => addM (B y b) (B' y b))
      = seesawWin d ao bo ai bi prob pred A B + seesawWin d ao bo ai bi prob pred A B' := by
  simp only [seesawWin_eq_hs, hsRe_add_left, mul_add, sumN_add_rat]

/-- the objective is symmetric under exchanging the roles `tr(Bᴴ A)` ↔ `tr(Aᴴ B)`: real parts agree -/
theorem hsRe_comm (d : Nat) (B A : CMat) : hsRe d B A = hsRe d A B := by
  unfold hsRe
  apply sumN_congr; intro i _
  apply sumN_congr; intro k _
  ring

/-! ### sanity examples: the hypotheses are satisfiable and the loop does what the Python does -/

/-- tol = 1/100: increases 3/2, 1/4, 0 → three rounds; second outer iteration 5/4, 0 → two rounds; value = 3/4 -/
example : seesawLoop (1 / 100) (fun i => if i = 0 then [1 / 2, 3 / 4, 3 / 4, 1] else [1 / 4, 1 / 4, 7 / 8]) 2
    = ⟨some (3 / 4), [3, 2], true⟩ := by decide +kernel

example : (seesawLoop 2 (fun _ => [1 / 2]) 3).value = none := by decide +kernel

example : (aliceConstraints 3 2).length = 10 ∧ (bobConstraints 2 3).length = 9 := by decide

end Toq.Seesaw
