import Toq.Model.ChannelOps
import Toq.Spec.ChannelOps
import Toq.Proofs.Idx
import Toq.Proofs.Perms
import Mathlib.Algebra.BigOperators.Group.Finset.Basic
import Mathlib.Algebra.BigOperators.Ring.Finset
import Mathlib.Algebra.Star.Basic
import Mathlib.Algebra.Star.BigOperators
import Mathlib.Tactic.Ring
import Mathlib.Algebra.Ring.Defs
import Mathlib.LinearAlgebra.Matrix.Charpoly.Basic
import Mathlib.LinearAlgebra.Matrix.ConjTranspose
import Mathlib.LinearAlgebra.Matrix.Trace
import Mathlib.Tactic.IntervalCases
import Mathlib.Data.List.GetD
/-!
# Helper lemmas for C04 / C05: entry formulas of the mirror models in `Toq/Model/ChannelOps.lean`
-/
open Toq.Perms Toq.ChannelSpec

namespace Toq.ChannelOps

/-- in proofs the conjugation of the models is the `star` of a star-ring -/
scoped instance starHasConj {α : Type} [Star α] : HasConj α := ⟨star⟩

theorem conj_eq_star {α : Type} [Star α] (x : α) : HasConj.conj x = star x := rfl

/-! ## sums -/
section sums
variable {α : Type} [CommSemiring α]

theorem sumN_eq_sum (f : Nat → α) : ∀ n, sumN n f = ∑ k ∈ Finset.range n, f k
  | 0 => by simp [sumN]
  | n + 1 => by rw [Finset.sum_range_succ, ← sumN_eq_sum f n]; rfl

theorem sumN_zero_fn (n : Nat) : sumN n (fun _ => (0 : α)) = 0 := by
  rw [sumN_eq_sum]; simp

theorem sumN_add_index (f : Nat → α) (m : Nat) : ∀ d, sumN (m + d) f = sumN m f + sumN d (fun i => f (m + i))
  | 0 => by simp [sumN]
  | d + 1 => by
    show sumN (m + d) f + f (m + d) = sumN m f + (sumN d (fun i => f (m + i)) + f (m + d))
    rw [sumN_add_index f m d, add_assoc]

/-- a sum over a product range, big-endian: `t = k * d + i` -/
theorem sumN_mul_index (f : Nat → α) (d : Nat) : ∀ n,
    sumN (n * d) f = sumN n (fun k => sumN d (fun i => f (k * d + i)))
  | 0 => by simp [sumN]
  | n + 1 => by
    rw [Nat.succ_mul, sumN_add_index, sumN_mul_index f d n]; rfl

theorem sumN_comm (f : Nat → Nat → α) (m n : Nat) :
    sumN m (fun i => sumN n (fun j => f i j)) = sumN n (fun j => sumN m (fun i => f i j)) := by
  simp only [sumN_eq_sum]; exact Finset.sum_comm

theorem sumN_mul_left (c : α) (f : Nat → α) (n : Nat) : c * sumN n f = sumN n (fun k => c * f k) := by
  simp only [sumN_eq_sum]; exact Finset.mul_sum _ _ _

theorem sumN_mul_right (c : α) (f : Nat → α) (n : Nat) : sumN n f * c = sumN n (fun k => f k * c) := by
  simp only [sumN_eq_sum]; exact Finset.sum_mul _ _ _

theorem sumN_add_fn (f g : Nat → α) (n : Nat) : sumN n (fun k => f k + g k) = sumN n f + sumN n g := by
  simp only [sumN_eq_sum]; exact Finset.sum_add_distrib

/-- `Σ_k [k = c] * x k = x c` -/
theorem sumN_delta_left (x : Nat → α) (c N : Nat) (hc : c < N) :
    sumN N (fun k => (if k = c then 1 else 0) * x k) = x c := by
  rw [sumN_eq_sum, Finset.sum_eq_single c]
  · simp
  · intro b _ hb; simp [hb]
  · intro h; exact absurd (Finset.mem_range.mpr hc) h

theorem sumN_delta_left' (x : Nat → α) (c N : Nat) (hc : c < N) :
    sumN N (fun k => (if c = k then 1 else 0) * x k) = x c := by
  rw [sumN_eq_sum, Finset.sum_eq_single c]
  · simp
  · intro b _ hb; simp [Ne.symm hb]
  · intro h; exact absurd (Finset.mem_range.mpr hc) h

theorem sumN_delta_right (x : Nat → α) (c N : Nat) (hc : c < N) :
    sumN N (fun k => x k * (if k = c then 1 else 0)) = x c := by
  rw [sumN_eq_sum, Finset.sum_eq_single c]
  · simp
  · intro b _ hb; simp [hb]
  · intro h; exact absurd (Finset.mem_range.mpr hc) h

theorem star_sumN [StarRing α] (f : Nat → α) (n : Nat) : star (sumN n f) = sumN n (fun k => star (f k)) := by
  simp only [sumN_eq_sum]; exact star_sum _ _

/-- `sumN` only looks at arguments below the bound (with the bound available in the congruence) -/
theorem sumN_congr' (f g : Nat → α) (n : Nat) (h : ∀ k, k < n → f k = g k) : sumN n f = sumN n g :=
  sumN_congr f g n h

end sums

/-! ## index arithmetic -/

theorem divmod_be (k d i : Nat) (hi : i < d) : (k * d + i) / d = k ∧ (k * d + i) % d = i := by
  have hd : 0 < d := by omega
  constructor
  · rw [Nat.add_comm, Nat.add_mul_div_right _ _ hd, Nat.div_eq_of_lt hi, Nat.zero_add]
  · rw [Nat.add_comm, Nat.add_mul_mod_self_right, Nat.mod_eq_of_lt hi]

open Mat

/-! ## lists of matrices -/
section lists
variable {α : Type} [Zero α]

/-- the family of entry functions of a list of matrices -/
def fam (l : List (Mat α)) : Nat → Nat → Nat → α := fun k => (l.getD k default).e

theorem fam_cons_zero (m : Mat α) (l : List (Mat α)) : fam (m :: l) 0 = m.e := rfl
theorem fam_cons_succ (m : Mat α) (l : List (Mat α)) (k : Nat) : fam (m :: l) (k + 1) = fam l k := rfl

/-- all listed matrices have shape `r × c` (the Prop behind `allShape`) -/
def Shaped (l : List (Mat α)) (r c : Nat) : Prop := ∀ m ∈ l, m.r = r ∧ m.c = c

omit [Zero α] in
theorem allShape_iff (l : List (Mat α)) (r c : Nat) : allShape l r c = true ↔ Shaped l r c := by
  unfold allShape Shaped
  simp [List.all_eq_true]

theorem hcat_c (l : List (Mat α)) (r d : Nat) (h : Shaped l r d) : (hcat l).c = l.length * d := by
  induction l with
  | nil => simp [hcat]
  | cons m ms ih =>
    have hm := h m (by simp)
    have := ih (fun x hx => h x (by simp [hx]))
    simp only [hcat, List.length_cons, this, hm.2]
    rw [Nat.succ_mul, Nat.add_comm]

theorem hcat_r (m : Mat α) (l : List (Mat α)) : (hcat (m :: l)).r = m.r := rfl

theorem hcat_e (l : List (Mat α)) (r d : Nat) (h : Shaped l r d) (a k i : Nat) (hk : k < l.length) (hi : i < d) :
    (hcat l).e a (k * d + i) = fam l k a i := by
  induction l generalizing k with
  | nil => simp at hk
  | cons m ms ih =>
    have hm := h m (by simp)
    have hms : Shaped ms r d := fun x hx => h x (by simp [hx])
    cases k with
    | zero =>
      simp only [hcat, Nat.zero_mul, Nat.zero_add, fam_cons_zero]
      rw [if_pos (by omega)]
    | succ k =>
      simp only [hcat, fam_cons_succ]
      rw [if_neg (by rw [hm.2, Nat.succ_mul]; omega)]
      have : (k + 1) * d + i - m.c = k * d + i := by rw [hm.2, Nat.succ_mul]; omega
      rw [this]
      exact ih hms k (by simpa using hk)

theorem vcat_r (l : List (Mat α)) (d c : Nat) (h : Shaped l d c) : (vcat l).r = l.length * d := by
  induction l with
  | nil => simp [vcat]
  | cons m ms ih =>
    have hm := h m (by simp)
    have := ih (fun x hx => h x (by simp [hx]))
    simp only [vcat, List.length_cons, this, hm.1]
    rw [Nat.succ_mul, Nat.add_comm]

theorem vcat_c (m : Mat α) (l : List (Mat α)) : (vcat (m :: l)).c = m.c := rfl

theorem vcat_e (l : List (Mat α)) (d c : Nat) (h : Shaped l d c) (b k j : Nat) (hk : k < l.length) (hj : j < d) :
    (vcat l).e (k * d + j) b = fam l k j b := by
  induction l generalizing k with
  | nil => simp at hk
  | cons m ms ih =>
    have hm := h m (by simp)
    have hms : Shaped ms d c := fun x hx => h x (by simp [hx])
    cases k with
    | zero =>
      simp only [vcat, Nat.zero_mul, Nat.zero_add, fam_cons_zero]
      rw [if_pos (by omega)]
    | succ k =>
      simp only [vcat, fam_cons_succ]
      rw [if_neg (by rw [hm.1, Nat.succ_mul]; omega)]
      have : (k + 1) * d + j - m.r = k * d + j := by rw [hm.1, Nat.succ_mul]; omega
      rw [this]
      exact ih hms k (by simpa using hk)

theorem fam_map [HasConj α] (f : Mat α → Mat α) (l : List (Mat α)) (k : Nat) (hk : k < l.length) :
    fam (l.map f) k = (f (l.getD k default)).e := by
  unfold fam
  simp [List.getD_eq_getElem?_getD, hk]

omit [Zero α] in
theorem shaped_map_ct [HasConj α] (l : List (Mat α)) (r c : Nat) (h : Shaped l r c) : Shaped (l.map Mat.ct) c r := by
  intro m hm
  obtain ⟨x, hx, rfl⟩ := List.mem_map.mp hm
  exact ⟨(h x hx).2, (h x hx).1⟩

end lists

section applyK
variable {α : Type} [CommSemiring α] [StarRing α]

omit [StarRing α] in
theorem kron_identity_e (n : Nat) (X : Mat α) (k i k' j : Nat) (hi : i < X.r) (hj : j < X.c) :
    (kron (identity n) X).e (k * X.r + i) (k' * X.c + j) = (if k = k' then 1 else 0) * X.e i j := by
  obtain ⟨h1, h2⟩ := divmod_be k X.r i hi
  obtain ⟨h3, h4⟩ := divmod_be k' X.c j hj
  simp only [kron, identity, h1, h2, h3, h4]

/-- entry formula of the Kraus evaluation of `apply_channel` -/
theorem applyKrausLists_e (X : Mat α) (as bs : List (Mat α)) (do0 do1 : Nat)
    (ha : Shaped as do0 X.r) (hb : Shaped bs do1 X.c) (hl : as.length = bs.length) (a b : Nat) :
    (applyKrausLists X as bs).e a b = applySpec as.length (fam as) (fam bs) X.r X.c X.e a b := by
  have hk1c : (hcat as).c = as.length * X.r := hcat_c as do0 X.r ha
  have hbs' : Shaped (bs.map Mat.ct) X.c do1 := shaped_map_ct bs do1 X.c hb
  show sumN (as.length * X.c) (fun c => sumN (hcat as).c (fun t => (hcat as).e a t *
      (kron (identity as.length) X).e t c) * (vcat (bs.map Mat.ct)).e c b) = _
  rw [hk1c, sumN_mul_index]
  unfold applySpec
  apply sumN_congr
  intro k' hk'
  -- inner: sum over j
  have step : ∀ j, j < X.c →
      sumN (as.length * X.r) (fun t => (hcat as).e a t * (kron (identity as.length) X).e t (k' * X.c + j))
        * (vcat (bs.map Mat.ct)).e (k' * X.c + j) b
      = sumN X.r (fun i => fam as k' a i * X.e i j * HasConj.conj (fam bs k' b j)) := by
    intro j hj
    rw [vcat_e (bs.map Mat.ct) X.c do1 hbs' b k' j (by simpa [← hl] using hk') hj,
      fam_map Mat.ct bs k' (by omega)]
    have e1 : sumN (as.length * X.r) (fun t => (hcat as).e a t * (kron (identity as.length) X).e t (k' * X.c + j))
        = sumN X.r (fun i => fam as k' a i * X.e i j) := by
      rw [sumN_mul_index]
      have : ∀ k, k < as.length →
          sumN X.r (fun i => (hcat as).e a (k * X.r + i) * (kron (identity as.length) X).e (k * X.r + i) (k' * X.c + j))
          = (if k = k' then 1 else 0) * sumN X.r (fun i => fam as k a i * X.e i j) := by
        intro k hk
        rw [sumN_mul_left]
        apply sumN_congr
        intro i hi
        rw [hcat_e as do0 X.r ha a k i hk hi, kron_identity_e _ X k i k' j hi hj]
        ring
      rw [sumN_congr _ _ _ this, sumN_delta_left _ k' _ hk']
    rw [e1, sumN_mul_right]
    rfl
  rw [sumN_congr _ _ _ step]
  exact sumN_comm _ _ _

end applyK

section forms
variable {α : Type}

theorem split_flat (ks : List (Mat α)) (h : ks ≠ []) : (KrausArg.flat ks).split = some (ks, ks) := by
  cases ks with
  | nil => exact absurd rfl h
  | cons k t => simp [KrausArg.split]

theorem split_nested_cp (ll : List (List (Mat α))) (hne : ll ≠ []) (hcp : nestedIsCP ll = true) :
    (KrausArg.nested ll).split = some (ll.flatten, ll.flatten) := by
  have : ll.isEmpty = false := by cases ll <;> simp_all
  simp only [KrausArg.split]
  rw [if_neg (by simp [this]), if_pos hcp]

theorem split_nested_pairs (ll : List (List (Mat α))) (as bs : List (Mat α)) (hne : ll ≠ [])
    (hcp : nestedIsCP ll = false) (h0 : ll.mapM (fun k => k[0]?) = some as)
    (h1 : ll.mapM (fun k => k[1]?) = some bs) :
    (KrausArg.nested ll).split = some (as, bs) := by
  have : ll.isEmpty = false := by cases ll <;> simp_all
  simp only [KrausArg.split]
  rw [if_neg (by simp [this]), if_neg (by simp [hcp]), h0, h1]
  rfl

theorem flatten_map_singleton (ks : List (Mat α)) : (ks.map (fun k => [k])).flatten = ks := by
  induction ks with
  | nil => rfl
  | cons k t ih => simpa using ih

theorem split_column (ks : List (Mat α)) (h : ks ≠ []) : (KrausArg.column ks).split = some (ks, ks) := by
  have hcp : nestedIsCP (ks.map (fun k => [k])) = true := by
    cases ks with
    | nil => exact absurd rfl h
    | cons k t => simp [nestedIsCP]
  have := split_nested_cp (ks.map (fun k => [k])) (by simpa using h) hcp
  rw [flatten_map_singleton] at this
  exact this

theorem split_row (ks : List (Mat α)) (h : ks.length = 1 ∨ 2 < ks.length) :
    (KrausArg.row ks).split = some (ks, ks) := by
  have hcp : nestedIsCP [ks] = true := by
    rcases h with h | h <;> simp [nestedIsCP, h]
  have := split_nested_cp [ks] (by simp) hcp
  simpa [KrausArg.row] using this

theorem mapM_pairs (as bs : List (Mat α)) (hl : as.length = bs.length) :
    ((as.zip bs).map (fun ab => [ab.1, ab.2])).mapM (fun k => k[0]?) = some as ∧
    ((as.zip bs).map (fun ab => [ab.1, ab.2])).mapM (fun k => k[1]?) = some bs := by
  induction as generalizing bs with
  | nil => cases bs with
    | nil => simp
    | cons b t => simp at hl
  | cons a t ih => cases bs with
    | nil => simp at hl
    | cons b u =>
      have := ih u (by simpa using hl)
      simp only [List.zip_cons_cons, List.map_cons, List.mapM_cons, this.1, this.2]
      simp

theorem split_pairs (as bs : List (Mat α)) (hl : as.length = bs.length) (h : as ≠ []) :
    (KrausArg.pairs as bs).split = some (as, bs) := by
  obtain ⟨h0, h1⟩ := mapM_pairs as bs hl
  have hne : (as.zip bs).map (fun ab => [ab.1, ab.2]) ≠ [] := by
    cases as with
    | nil => exact absurd rfl h
    | cons a t => cases bs with
      | nil => simp at hl
      | cons b u => simp
  have hcp : nestedIsCP ((as.zip bs).map (fun ab => [ab.1, ab.2])) = false := by
    cases as with
    | nil => exact absurd rfl h
    | cons a t => cases bs with
      | nil => simp at hl
      | cons b u => simp [nestedIsCP]
  exact split_nested_pairs _ as bs hne hcp h0 h1

end forms

section perm
/-- relabelling form of the permutation index map (cf. `Toq.C01.permuteVec_relabel`) -/
theorem permIndex_enc (n : Nat) (perm dims y : Nat → Nat)
    (hlt : ∀ k, k < n → perm k < n) (hinj : ∀ a b, a < n → b < n → perm a = perm b → a = b)
    (hy : ∀ k, k < n → y k < dims (perm k)) :
    permIndex n perm dims false (enc (fun m => dims (perm m)) y n)
      = enc dims (fun k => y (invPerm n perm k)) n := by
  unfold permIndex
  rw [permuteVec_false_eq _ n perm dims hlt hinj]
  unfold specIndex
  apply enc_congr _ _ _ _ _ (fun _ _ => rfl)
  intro k hk
  exact dec_enc (fun m => dims (perm m)) y n hy _ (invPerm_lt n perm hlt hinj k hk)

theorem swapPerm01_lt : ∀ k, k < 2 → swapPerm 0 1 k < 2 := by
  intro k hk; unfold swapPerm; split <;> (try split) <;> omega

theorem swapPerm01_inj : ∀ a b, a < 2 → b < 2 → swapPerm 0 1 a = swapPerm 0 1 b → a = b := by
  intro a b ha hb h; unfold swapPerm at h
  split at h <;> split at h <;> (try split at h) <;> (try split at h) <;> omega

/-- `swap` of two tensor factors on the index level: `(y0, y1)` (radices `d1, d0`) reads `(y1, y0)` (radices `d0, d1`) -/
theorem swap_index (d0 d1 y0 y1 : Nat) (h0 : y0 < d1) (h1 : y1 < d0) :
    permIndex 2 (swapPerm 0 1) (fnOfList [d0, d1]) false (y0 * d0 + y1) = y1 * d1 + y0 := by
  have := permIndex_enc 2 (swapPerm 0 1) (fnOfList [d0, d1]) (fnOfList [y0, y1]) swapPerm01_lt swapPerm01_inj
    (by intro k hk
        have : k = 0 ∨ k = 1 := by omega
        rcases this with rfl | rfl <;> simp [swapPerm, fnOfList] <;> assumption)
  simpa [enc, fnOfList, swapPerm, invPerm, invPerm.go] using this

end perm
end Toq.ChannelOps

namespace Toq.ChannelOps
open Mat
section applyC
variable {α : Type} [CommSemiring α]

theorem lt_mul_of_digits (i d a p : Nat) (hi : i < d) (ha : a < p) : i * p + a < d * p := by
  calc i * p + a < i * p + p := by omega
    _ = (i + 1) * p := by ring
    _ ≤ d * p := Nat.mul_le_mul_right _ hi

/-- entry formula of the Choi evaluation of `apply_channel` -/
theorem applyChoi_e (X J : Mat α) (p0 p1 : Nat) (hxr : 0 < X.r) (hxc : 0 < X.c)
    (hJr : J.r = X.r * p0) (hJc : J.c = X.c * p1) (a b : Nat) (ha : a < p0) (hb : b < p1) :
    (applyChoi X J).e a b = applyChoiSpec J.e X.r X.c p0 p1 X.e a b := by
  have e0 : J.r / X.r = p0 := by rw [hJr]; exact Nat.mul_div_cancel_left _ hxr
  have e1 : J.c / X.c = p1 := by rw [hJc]; exact Nat.mul_div_cancel_left _ hxc
  unfold applyChoi
  simp only [e0, e1]
  show sumN (X.r * X.c * p0) (fun t =>
      (kron (row (X.r * X.c) X.vecF) (identity p0)).e a t *
      (reshapeF (swap2 J.T (fnOfList [X.c, p1]) (fnOfList [X.r, p0]) true).T (p0 * (X.r * X.c)) p1).e t b) = _
  rw [sumN_mul_index]
  -- collapse the identity factor
  have step1 : ∀ f, f < X.r * X.c →
      sumN p0 (fun a'' => (kron (row (X.r * X.c) X.vecF) (identity p0)).e a (f * p0 + a'') *
        (reshapeF (swap2 J.T (fnOfList [X.c, p1]) (fnOfList [X.r, p0]) true).T (p0 * (X.r * X.c)) p1).e (f * p0 + a'') b)
      = X.vecF f * (reshapeF (swap2 J.T (fnOfList [X.c, p1]) (fnOfList [X.r, p0]) true).T (p0 * (X.r * X.c)) p1).e (f * p0 + a) b := by
    intro f _
    have : ∀ a'', a'' < p0 →
        (kron (row (X.r * X.c) X.vecF) (identity p0)).e a (f * p0 + a'') *
          (reshapeF (swap2 J.T (fnOfList [X.c, p1]) (fnOfList [X.r, p0]) true).T (p0 * (X.r * X.c)) p1).e (f * p0 + a'') b
        = (if a'' = a then 1 else 0) * (X.vecF f *
          (reshapeF (swap2 J.T (fnOfList [X.c, p1]) (fnOfList [X.r, p0]) true).T (p0 * (X.r * X.c)) p1).e (f * p0 + a'') b) := by
      intro a'' ha''
      obtain ⟨h1, h2⟩ := divmod_be f p0 a'' ha''
      simp only [kron, row, identity, h1, h2, Nat.mod_eq_of_lt ha]
      by_cases h : a'' = a
      · subst h; simp
      · rw [if_neg (Ne.symm h), if_neg h]; simp
    rw [sumN_congr _ _ _ this, sumN_delta_left _ a _ ha]
  rw [sumN_congr _ _ _ step1, Nat.mul_comm X.r X.c, sumN_mul_index]
  unfold applyChoiSpec
  rw [sumN_comm]
  apply sumN_congr; intro i hi
  apply sumN_congr; intro j hj
  obtain ⟨h1, h2⟩ := divmod_be j X.r i hi
  have hia : i * p0 + a < X.r * p0 := lt_mul_of_digits i X.r a p0 hi ha
  have hflat : (j * X.r + i) * p0 + a + p0 * (X.c * X.r) * b = (b * X.c + j) * (X.r * p0) + (i * p0 + a) := by ring
  obtain ⟨h3, h4⟩ := divmod_be (b * X.c + j) (X.r * p0) (i * p0 + a) hia
  have hsw := swap_index X.c p1 b j hb hj
  simp only [Mat.vecF, h1, h2, reshapeF, Mat.T, swap2, permuteMat, hJr, hflat, h3, h4, if_true, hsw]

end applyC

section embedS
variable {α : Type} [CommSemiring α]

theorem embed_r (pre post : Nat) (m : Mat α) : (embed pre post m).r = pre * m.r * post := rfl
theorem embed_c (pre post : Nat) (m : Mat α) : (embed pre post m).c = pre * m.c * post := rfl

theorem embed_e (pre post : Nat) (m : Mat α) (p a q p' i q' : Nat) (ha : a < m.r) (hi : i < m.c)
    (hq : q < post) (hq' : q' < post) :
    (embed pre post m).e ((p * m.r + a) * post + q) ((p' * m.c + i) * post + q')
      = (if p = p' then 1 else 0) * m.e a i * (if q = q' then 1 else 0) := by
  obtain ⟨h1, h2⟩ := divmod_be (p * m.r + a) post q hq
  obtain ⟨h3, h4⟩ := divmod_be (p' * m.c + i) post q' hq'
  obtain ⟨h5, h6⟩ := divmod_be p m.r a ha
  obtain ⟨h7, h8⟩ := divmod_be p' m.c i hi
  simp only [embed, kron, identity, h1, h2, h3, h4, h5, h6, h7, h8]

/-- a row of an embedded operator contracts only the target factor -/
theorem sumN_embed_left (m : Mat α) (pre post p a q : Nat) (x : Nat → α) (hp : p < pre) (ha : a < m.r)
    (hq : q < post) :
    sumN (pre * m.c * post) (fun I => (embed pre post m).e ((p * m.r + a) * post + q) I * x I)
      = sumN m.c (fun i => m.e a i * x ((p * m.c + i) * post + q)) := by
  rw [sumN_mul_index, sumN_mul_index]
  have inner : ∀ p', p' < pre → ∀ i, i < m.c →
      sumN post (fun q' => (embed pre post m).e ((p * m.r + a) * post + q) ((p' * m.c + i) * post + q') *
        x ((p' * m.c + i) * post + q'))
      = (if p' = p then 1 else 0) * (m.e a i * x ((p' * m.c + i) * post + q)) := by
    intro p' _ i hi
    have : ∀ q', q' < post →
        (embed pre post m).e ((p * m.r + a) * post + q) ((p' * m.c + i) * post + q') * x ((p' * m.c + i) * post + q')
        = (if q' = q then 1 else 0) * ((if p' = p then 1 else 0) * (m.e a i * x ((p' * m.c + i) * post + q'))) := by
      intro q' hq'
      rw [embed_e pre post m p a q p' i q' ha hi hq hq']
      by_cases h1 : q' = q <;> by_cases h2 : p' = p
      · subst h1; subst h2; simp
      · subst h1; simp [h2, Ne.symm h2]
      · subst h2; simp [h1, Ne.symm h1]
      · simp [h1, h2, Ne.symm h1, Ne.symm h2]
    rw [sumN_congr _ _ _ this, sumN_delta_left _ q _ hq]
  have mid : ∀ p', p' < pre →
      sumN m.c (fun i => sumN post (fun q' => (embed pre post m).e ((p * m.r + a) * post + q) ((p' * m.c + i) * post + q') *
        x ((p' * m.c + i) * post + q')))
      = (if p' = p then 1 else 0) * sumN m.c (fun i => m.e a i * x ((p' * m.c + i) * post + q)) := by
    intro p' hp'
    rw [sumN_mul_left]
    exact sumN_congr _ _ _ (fun i hi => inner p' hp' i hi)
  rw [sumN_congr _ _ _ mid, sumN_delta_left _ p _ hp]

end embedS

section partialK
variable {α : Type} [CommSemiring α] [StarRing α]

theorem star_ite_one_zero (c : Prop) [Decidable c] : star (if c then (1 : α) else 0) = if c then 1 else 0 := by
  split <;> simp

theorem embed_conj_e (pre post : Nat) (m : Mat α) (R C : Nat) :
    star ((embed pre post m).e R C) = (embed pre post m.conj).e R C := by
  simp only [embed, kron, identity, Mat.conj, star_mul', star_ite_one_zero, conj_eq_star]

omit [StarRing α] in
theorem shaped_map_embed (l : List (Mat α)) (r c pre post : Nat) (h : Shaped l r c) :
    Shaped (l.map (embed pre post)) (pre * r * post) (pre * c * post) := by
  intro m hm
  obtain ⟨x, hx, rfl⟩ := List.mem_map.mp hm
  rw [embed_r, embed_c, (h x hx).1, (h x hx).2]; exact ⟨rfl, rfl⟩

omit [StarRing α] in
theorem getD_shape (l : List (Mat α)) (r c k : Nat) (h : Shaped l r c) (hk : k < l.length) :
    (l.getD k default).r = r ∧ (l.getD k default).c = c := by
  apply h
  rw [List.getD_eq_getElem?_getD, List.getElem?_eq_getElem hk]
  simp

/-- entry formula of `partial_channel` with Kraus operators: `(id ⊗ Φ ⊗ id)(ρ)` -/
theorem partialKrausLists_e (rho : Mat α) (as bs : List (Mat α)) (pre post pre' post' d0 d1 do0 do1 : Nat)
    (ha : Shaped as do0 d0) (hb : Shaped bs do1 d1) (hl : as.length = bs.length)
    (hr : rho.r = pre * d0 * post) (hc : rho.c = pre' * d1 * post')
    (p a q p' b q' : Nat) (hp : p < pre) (hA : a < do0) (hq : q < post) (hp' : p' < pre') (hB : b < do1)
    (hq' : q' < post') :
    (applyKrausLists rho (as.map (embed pre post)) (bs.map (embed pre' post'))).e
        ((p * do0 + a) * post + q) ((p' * do1 + b) * post' + q')
      = sumN as.length fun k => sumN d0 fun i => sumN d1 fun j =>
          fam as k a i * rho.e ((p * d0 + i) * post + q) ((p' * d1 + j) * post' + q') * HasConj.conj (fam bs k b j) := by
  have ha' := shaped_map_embed as do0 d0 pre post ha
  have hb' := shaped_map_embed bs do1 d1 pre' post' hb
  rw [← hr] at ha'; rw [← hc] at hb'
  rw [applyKrausLists_e rho _ _ _ _ ha' hb' (by simpa using hl)]
  unfold applySpec
  rw [List.length_map]
  apply sumN_congr; intro k hk
  have hk' : k < bs.length := by omega
  obtain ⟨hAr, hAc⟩ := getD_shape as do0 d0 k ha hk
  obtain ⟨hBr, hBc⟩ := getD_shape bs do1 d1 k hb hk'
  rw [fam_map (embed pre post) as k hk, fam_map (embed pre' post') bs k hk']
  -- pull the row sum through
  have s1 : ∀ I, I < rho.r →
      sumN rho.c (fun Jc => (embed pre post (as.getD k default)).e ((p * do0 + a) * post + q) I * rho.e I Jc *
        HasConj.conj ((embed pre' post' (bs.getD k default)).e ((p' * do1 + b) * post' + q') Jc))
      = (embed pre post (as.getD k default)).e ((p * do0 + a) * post + q) I *
        sumN d1 (fun j => star ((bs.getD k default).e b j) * rho.e I ((p' * d1 + j) * post' + q')) := by
    intro I _
    have this : sumN (pre' * (bs.getD k default).c * post') (fun Jc =>
          (embed pre' post' (bs.getD k default).conj).e ((p' * (bs.getD k default).r + b) * post' + q') Jc * rho.e I Jc)
        = sumN (bs.getD k default).c (fun j => star ((bs.getD k default).e b j) *
          rho.e I ((p' * (bs.getD k default).c + j) * post' + q')) :=
      sumN_embed_left (bs.getD k default).conj pre' post' p' b q' (fun Jc => rho.e I Jc) hp'
        (by show b < (bs.getD k default).r; omega) hq'
    rw [hBr, hBc] at this
    rw [← this, sumN_mul_left, hc]
    apply sumN_congr; intro Jc _
    rw [conj_eq_star, embed_conj_e]
    ring
  rw [sumN_congr _ _ _ s1]
  have := sumN_embed_left (as.getD k default) pre post p a q
    (fun I => sumN d1 (fun j => star ((bs.getD k default).e b j) * rho.e I ((p' * d1 + j) * post' + q'))) hp
    (by omega) hq
  simp only [hAr, hAc] at this
  rw [hr, this]
  apply sumN_congr; intro i _
  rw [sumN_mul_left]
  apply sumN_congr; intro j _
  simp only [fam, conj_eq_star]
  ring

end partialK

section embedForms
variable {α : Type} [Mul α] [Zero α] [One α]

omit [Mul α] [Zero α] [One α] in
theorem mapM_pairs_map (f g : Mat α → Mat α) (as bs : List (Mat α)) (hl : as.length = bs.length) :
    ((as.zip bs).map (fun ab => [ab.1, ab.2])).mapM (fun m => (m[0]?).map f) = some (as.map f) ∧
    ((as.zip bs).map (fun ab => [ab.1, ab.2])).mapM (fun m => (m[1]?).map g) = some (bs.map g) := by
  induction as generalizing bs with
  | nil => cases bs with
    | nil => simp
    | cons b t => simp at hl
  | cons a t ih => cases bs with
    | nil => simp at hl
    | cons b u =>
      have := ih u (by simpa using hl)
      simp only [List.zip_cons_cons, List.map_cons, List.mapM_cons, this.1, this.2]
      simp

omit [Mul α] [Zero α] [One α] in
theorem zip_map_map (f g : Mat α → Mat α) (as bs : List (Mat α)) :
    (as.map f).zip (bs.map g) = (as.zip bs).map (fun ab => (f ab.1, g ab.2)) := by
  induction as generalizing bs with
  | nil => simp
  | cons a t ih => cases bs with
    | nil => simp
    | cons b u => simp [ih]

theorem embedArg_flat (ks : List (Mat α)) (h : ks ≠ []) (sys n : Nat) (rd cd : Nat → Nat) :
    embedArg (.flat ks) sys n rd cd
      = some (.flat (ks.map (embed (prodBefore rd sys) (prodAfter rd n sys)))) := by
  cases ks with
  | nil => exact absurd rfl h
  | cons k t => simp [embedArg]

theorem embedArg_column (ks : List (Mat α)) (h : ks ≠ []) (sys n : Nat) (rd cd : Nat → Nat) :
    embedArg (KrausArg.column ks) sys n rd cd
      = some (.flat (ks.map (embed (prodBefore rd sys) (prodAfter rd n sys)))) := by
  have hcp : nestedIsCP (ks.map (fun k => [k])) = true := by
    cases ks with
    | nil => exact absurd rfl h
    | cons k t => simp [nestedIsCP]
  have hne : (ks.map (fun k => [k])).isEmpty = false := by cases ks <;> simp_all
  simp only [embedArg, KrausArg.column]
  rw [if_neg (by simp [hne]), if_pos hcp, flatten_map_singleton]

theorem embedArg_row (ks : List (Mat α)) (h : ks.length = 1 ∨ 2 < ks.length) (sys n : Nat) (rd cd : Nat → Nat) :
    embedArg (KrausArg.row ks) sys n rd cd
      = some (.flat (ks.map (embed (prodBefore rd sys) (prodAfter rd n sys)))) := by
  have hcp : nestedIsCP [ks] = true := by
    rcases h with h | h <;> simp [nestedIsCP, h]
  simp only [embedArg, KrausArg.row]
  rw [if_neg (by simp), if_pos hcp]
  simp

theorem embedArg_pairs (as bs : List (Mat α)) (hl : as.length = bs.length) (h : as ≠ []) (sys n : Nat)
    (rd cd : Nat → Nat) :
    embedArg (KrausArg.pairs as bs) sys n rd cd
      = some (KrausArg.pairs (as.map (embed (prodBefore rd sys) (prodAfter rd n sys)))
          (bs.map (embed (prodBefore cd sys) (prodAfter cd n sys)))) := by
  obtain ⟨h0, h1⟩ := mapM_pairs_map (embed (prodBefore rd sys) (prodAfter rd n sys))
    (embed (prodBefore cd sys) (prodAfter cd n sys)) as bs hl
  have hne : ((as.zip bs).map (fun ab => [ab.1, ab.2])).isEmpty = false := by
    cases as with
    | nil => exact absurd rfl h
    | cons a t => cases bs with
      | nil => simp at hl
      | cons b u => simp
  have hcp : nestedIsCP ((as.zip bs).map (fun ab => [ab.1, ab.2])) = false := by
    cases as with
    | nil => exact absurd rfl h
    | cons a t => cases bs with
      | nil => simp at hl
      | cons b u => simp [nestedIsCP]
  simp only [embedArg, KrausArg.pairs]
  rw [if_neg (by simp [hne]), if_neg (by simp [hcp]), h0, h1]
  simp only [Option.bind_eq_bind, Option.bind_some, zip_map_map, List.map_map]

end embedForms

section chdim
variable {α : Type}

theorem checkDims_none (i0 i1 o0 o1 : Nat) : checkDims i0 i1 o0 o1 true .none = .ok (i0, o0, i1, o1) := by
  simp [checkDims]

theorem channelDimKraus_pairs (as bs : List (Mat α)) (di0 di1 do0 do1 : Nat)
    (ha : Shaped as do0 di0) (hb : Shaped bs do1 di1) (hl : as.length = bs.length) (h : as ≠ []) :
    channelDimKraus (KrausArg.pairs as bs) true .none = .ok ⟨di0, di1, do0, do1, some as.length⟩ := by
  have hall : ((as.zip bs).map (fun ab => [ab.1, ab.2])).all (pairShapeOk (di0, do0, di1, do1)) = true := by
    rw [List.all_eq_true]
    intro p hp
    obtain ⟨ab, hab, rfl⟩ := List.mem_map.mp hp
    have h1 := ha ab.1 (List.of_mem_zip hab).1
    have h2 := hb ab.2 (List.of_mem_zip hab).2
    simp [pairShapeOk, h1.1, h1.2, h2.1, h2.2]
  have hlen : ((as.zip bs).map (fun ab => [ab.1, ab.2])).length = as.length := by simp [hl]
  cases as with
  | nil => exact absurd rfl h
  | cons a t => cases bs with
    | nil => simp at hl
    | cons b u =>
      have ha0 := ha a (by simp)
      have hb0 := hb b (by simp)
      have hcp : nestedIsCP (((a :: t).zip (b :: u)).map (fun ab => [ab.1, ab.2])) = false := by simp [nestedIsCP]
      simp only [KrausArg.pairs, channelDimKraus, hcp]
      simp only [List.zip_cons_cons, List.map_cons] at hall hlen ⊢
      simp only [channelDimPairs, List.getElem?_cons_zero, List.getElem?_cons_succ,
        ha0.1, ha0.2, hb0.1, hb0.2, checkDims_none, hall, hlen]
      simp [packDims]

theorem channelDimKraus_cp (ks : List (Mat α)) (d_in d_out : Nat) (hs : Shaped ks d_out d_in) (h : ks ≠ []) :
    channelDimCP ks true .none = .ok ⟨d_in, d_in, d_out, d_out, some ks.length⟩ := by
  have hall := (allShape_iff ks d_out d_in).mpr hs
  cases ks with
  | nil => exact absurd rfl h
  | cons k t =>
    have hk := hs k (by simp)
    simp only [channelDimCP, hk.1, hk.2, checkDims_none, hall]
    simp [packDims]

end chdim

section k2c
variable {α : Type} [CommSemiring α] [StarRing α]

theorem applyKraus_of_split (X : Mat α) (phi : KrausArg α) (as bs : List (Mat α))
    (h : phi.split = some (as, bs)) : applyKraus X phi = some (applyKrausLists X as bs) := by
  simp [applyKraus, h]

theorem partialChannelKraus_pairs (rho : Mat α) (as bs : List (Mat α)) (hl : as.length = bs.length)
    (h : as ≠ []) (sys n : Nat) (rd cd : Nat → Nat) :
    partialChannelKraus rho (KrausArg.pairs as bs) sys n rd cd
      = some (applyKrausLists rho (as.map (embed (prodBefore rd sys) (prodAfter rd n sys)))
          (bs.map (embed (prodBefore cd sys) (prodAfter cd n sys)))) := by
  unfold partialChannelKraus
  rw [embedArg_pairs as bs hl h]
  simp only [Option.bind_some]
  exact applyKraus_of_split _ _ _ _ (split_pairs _ _ (by simpa using hl) (by simpa using h))

theorem partialChannelKraus_flat (rho : Mat α) (ks : List (Mat α)) (h : ks ≠ []) (sys n : Nat) (rd cd : Nat → Nat) :
    partialChannelKraus rho (KrausArg.flat ks) sys n rd cd
      = some (applyKrausLists rho (ks.map (embed (prodBefore rd sys) (prodAfter rd n sys)))
          (ks.map (embed (prodBefore rd sys) (prodAfter rd n sys)))) := by
  unfold partialChannelKraus
  rw [embedArg_flat ks h]
  simp only [Option.bind_some]
  exact applyKraus_of_split _ _ _ _ (split_flat _ (by simpa using h))

theorem partialChannelKraus_column (rho : Mat α) (ks : List (Mat α)) (h : ks ≠ []) (sys n : Nat) (rd cd : Nat → Nat) :
    partialChannelKraus rho (KrausArg.column ks) sys n rd cd
      = some (applyKrausLists rho (ks.map (embed (prodBefore rd sys) (prodAfter rd n sys)))
          (ks.map (embed (prodBefore rd sys) (prodAfter rd n sys)))) := by
  unfold partialChannelKraus
  rw [embedArg_column ks h]
  simp only [Option.bind_some]
  exact applyKraus_of_split _ _ _ _ (split_flat _ (by simpa using h))

theorem partialChannelKraus_row (rho : Mat α) (ks : List (Mat α)) (h : ks.length = 1 ∨ 2 < ks.length)
    (sys n : Nat) (rd cd : Nat → Nat) :
    partialChannelKraus rho (KrausArg.row ks) sys n rd cd
      = some (applyKrausLists rho (ks.map (embed (prodBefore rd sys) (prodAfter rd n sys)))
          (ks.map (embed (prodBefore rd sys) (prodAfter rd n sys)))) := by
  unfold partialChannelKraus
  rw [embedArg_row ks h]
  simp only [Option.bind_some]
  have hne : ks ≠ [] := by intro h0; subst h0; simp at h
  exact applyKraus_of_split _ _ _ _ (split_flat _ (by simpa using hne))

theorem prodBefore_two (d : Nat) : prodBefore (fnOfList [d, d]) 2 = d := by simp [prodBefore, prodN, fnOfList]
theorem prodAfter_two (d : Nat) : prodAfter (fnOfList [d, d]) 2 2 = 1 := by simp [prodAfter, prodN]

/-- the unnormalised maximally entangled operator `ψ_{d1} ψ_{d2}ᴴ = Σ_ij E_ij ⊗ E_ij` -/
theorem maxEnt_mul_e (d1 d2 p i p' j : Nat) (hi : i < d1) (hj : j < d2) :
    ((maxEnt (α := α) d1).mul (maxEnt d2).ct).e (p * d1 + i) (p' * d2 + j) = unit p p' i j := by
  obtain ⟨h1, h2⟩ := divmod_be p d1 i hi
  obtain ⟨h3, h4⟩ := divmod_be p' d2 j hj
  simp only [Mat.mul, maxEnt, Mat.ct, Mat.T, Mat.conj, identity, sumN, h1, h2, h3, h4, unit, conj_eq_star,
    star_ite_one_zero, zero_add]
  by_cases e1 : p = i <;> by_cases e2 : p' = j <;> simp [e1, e2, eq_comm]

/-- core of `kraus_to_choi`: whatever list form denotes the family `(as, bs)` -/
theorem krausToChoi_core (phi : KrausArg α) (as bs : List (Mat α)) (di0 di1 do0 do1 : Nat) (env : Option Nat)
    (ha : Shaped as do0 di0) (hb : Shaped bs do1 di1) (hl : as.length = bs.length) (h : as ≠ [])
    (hdim : channelDimKraus phi true .none = .ok ⟨di0, di1, do0, do1, env⟩)
    (hpart : ∀ rho : Mat α, partialChannelKraus rho phi 2 2 (fnOfList [di0, di0]) (fnOfList [di1, di1])
      = some (applyKrausLists rho (as.map (embed di0 1)) (bs.map (embed di1 1)))) :
    ∃ J, krausToChoi phi = some J ∧ J.r = di0 * do0 ∧ J.c = di1 * do1 ∧
      ∀ i a j b, i < di0 → a < do0 → j < di1 → b < do1 →
        J.e (i * do0 + a) (j * do1 + b) = applySpec as.length (fam as) (fam bs) di0 di1 (unit i j) a b := by
  have hk : krausToChoi phi = some (applyKrausLists ((maxEnt di0).mul (maxEnt di1).ct)
      (as.map (embed di0 1)) (bs.map (embed di1 1))) := by
    unfold krausToChoi
    rw [hdim]
    simp only []
    rw [hpart]
  refine ⟨_, hk, ?_, ?_, ?_⟩
  · cases as with
    | nil => exact absurd rfl h
    | cons a t =>
      have := (ha a (by simp)).1
      simp [applyKrausLists, Mat.mul, hcat, embed, kron, identity, this]
  · cases bs with
    | nil => cases as <;> simp_all
    | cons b u =>
      have := (hb b (by simp)).1
      simp [applyKrausLists, Mat.mul, vcat, Mat.ct, Mat.T, Mat.conj, embed, kron, identity, this]
  · intro i a j b hi hA hj hB
    have := partialKrausLists_e ((maxEnt di0).mul (maxEnt di1).ct) as bs di0 1 di1 1 di0 di1 do0 do1 ha hb hl
      (by simp [Mat.mul, maxEnt]) (by simp [Mat.mul, maxEnt, Mat.ct, Mat.T, Mat.conj])
      i a 0 j b 0 hi hA (by omega) hj hB (by omega)
    simp only [Nat.mul_one, Nat.add_zero] at this
    rw [this]
    unfold applySpec
    apply sumN_congr; intro k _
    apply sumN_congr; intro i' hi'
    apply sumN_congr; intro j' hj'
    rw [maxEnt_mul_e di0 di1 i i' j j' hi' hj']

omit [CommSemiring α] [StarRing α] in
theorem channelDimKraus_column (ks : List (Mat α)) (d_in d_out : Nat) (hs : Shaped ks d_out d_in) (h : ks ≠ []) :
    channelDimKraus (KrausArg.column ks) true .none = .ok ⟨d_in, d_in, d_out, d_out, some ks.length⟩ := by
  have hcp : nestedIsCP (ks.map (fun k => [k])) = true := by
    cases ks with
    | nil => exact absurd rfl h
    | cons k t => simp [nestedIsCP]
  simp only [KrausArg.column, channelDimKraus, hcp, if_true, flatten_map_singleton]
  exact channelDimKraus_cp ks d_in d_out hs h

omit [CommSemiring α] [StarRing α] in
theorem channelDimKraus_row (ks : List (Mat α)) (d_in d_out : Nat) (hs : Shaped ks d_out d_in)
    (h : ks.length = 1 ∨ 2 < ks.length) :
    channelDimKraus (KrausArg.row ks) true .none = .ok ⟨d_in, d_in, d_out, d_out, some ks.length⟩ := by
  have hcp : nestedIsCP [ks] = true := by
    rcases h with h | h <;> simp [nestedIsCP, h]
  have hne : ks ≠ [] := by intro h0; subst h0; simp at h
  simp only [KrausArg.row, channelDimKraus, hcp, if_true, List.flatten_cons, List.flatten_nil, List.append_nil]
  exact channelDimKraus_cp ks d_in d_out hs hne

end k2c

section natrep
variable {α : Type} [CommSemiring α] [StarRing α]

omit [StarRing α] in
theorem sumN_succ_shift (f : Nat → α) : ∀ n, sumN (n + 1) f = f 0 + sumN n (fun k => f (k + 1))
  | 0 => by simp [sumN]
  | n + 1 => by
    have ih := sumN_succ_shift f n
    show sumN (n + 1) f + f (n + 1) = f 0 + (sumN n (fun k => f (k + 1)) + f (n + 1))
    rw [ih, add_assoc]

omit [StarRing α] in
/-- a left fold of `+` over a mapped list is the indexed sum -/
theorem foldl_add_eq_sumN (g : Mat α → α) (l : List (Mat α)) (z : α) :
    (l.map g).foldl (· + ·) z = z + sumN l.length (fun k => g (l.getD k default)) := by
  induction l generalizing z with
  | nil => simp [sumN]
  | cons m t ih =>
    simp only [List.map_cons, List.foldl_cons, List.length_cons]
    rw [ih, sumN_succ_shift, add_assoc]
    rfl

/-- entries of the natural representation: `K[(a,b),(i,j)] = Σ_k K_k[a,i] · conj(K_k[b,j])` -/
theorem naturalRep_e (ks : List (Mat α)) (d_out d_in : Nat) (hs : Shaped ks d_out d_in) (h : ks ≠ []) :
    ∃ N, naturalRep ks = some N ∧ N.r = d_out * d_out ∧ N.c = d_in * d_in ∧
      ∀ a b i j, a < d_out → b < d_out → i < d_in → j < d_in →
        N.e (a * d_out + b) (i * d_in + j) = sumN ks.length (fun k => fam ks k a i * HasConj.conj (fam ks k b j)) := by
  cases ks with
  | nil => exact absurd rfl h
  | cons k0 t =>
    have h0 := hs k0 (by simp)
    have hall : allShape (k0 :: t) k0.r k0.c = true := by
      rw [allShape_iff, h0.1, h0.2]; exact hs
    refine ⟨_, by simp only [naturalRep, hall]; rfl, by simp [h0.1], by simp [h0.2], ?_⟩
    intro a b i j ha hb hi hj
    simp only []
    rw [foldl_add_eq_sumN, zero_add]
    apply sumN_congr; intro k hk
    obtain ⟨hr, hc⟩ := getD_shape (k0 :: t) d_out d_in k hs hk
    obtain ⟨h1, h2⟩ := divmod_be a d_out b hb
    obtain ⟨h3, h4⟩ := divmod_be i d_in j hj
    simp only [kron, Mat.conj, hr, hc, h1, h2, h3, h4, fam]

end natrep
end Toq.ChannelOps

namespace Toq.ChannelOps
open Mat
section natrep2
variable {α : Type} [CommSemiring α] [StarRing α]

/-- `K · vec_r(X) = vec_r(Φ(X))` on the entry level -/
theorem naturalRep_vec_e (N : Nat → Nat → α) (r : Nat) (K : Nat → Nat → Nat → α) (d_out d_in : Nat) (X : Nat → Nat → α)
    (hN : ∀ a b i j, a < d_out → b < d_out → i < d_in → j < d_in →
      N (a * d_out + b) (i * d_in + j) = sumN r (fun k => K k a i * HasConj.conj (K k b j)))
    (a b : Nat) (ha : a < d_out) (hb : b < d_out) :
    sumN (d_in * d_in) (fun q => N (a * d_out + b) q * vecR d_in X q) = applySpec r K K d_in d_in X a b := by
  rw [sumN_mul_index]
  unfold applySpec
  have : ∀ i, i < d_in → sumN d_in (fun j => N (a * d_out + b) (i * d_in + j) * vecR d_in X (i * d_in + j))
      = sumN d_in (fun j => sumN r (fun k => K k a i * X i j * HasConj.conj (K k b j))) := by
    intro i hi
    apply sumN_congr; intro j hj
    obtain ⟨h1, h2⟩ := divmod_be i d_in j hj
    rw [hN a b i j ha hb hi hj, sumN_mul_right]
    apply sumN_congr; intro k _
    simp only [vecR, h1, h2]
    ring
  rw [sumN_congr _ _ _ this]
  -- Σ_i Σ_j Σ_k = Σ_k Σ_i Σ_j
  have c1 : ∀ i, i < d_in → sumN d_in (fun j => sumN r (fun k => K k a i * X i j * HasConj.conj (K k b j)))
      = sumN r (fun k => sumN d_in (fun j => K k a i * X i j * HasConj.conj (K k b j))) := fun i _ => sumN_comm _ _ _
  rw [sumN_congr _ _ _ c1, sumN_comm]

end natrep2

section six
def perm6 : Nat → Nat := fnOfList [0, 2, 4, 1, 3, 5]

theorem perm6_lt : ∀ k, k < 6 → perm6 k < 6 := by
  intro k hk; interval_cases k <;> simp [perm6, fnOfList]

theorem perm6_inj : ∀ a b, a < 6 → b < 6 → perm6 a = perm6 b → a = b := by
  intro a b ha hb h
  interval_cases a <;> interval_cases b <;> simp [perm6, fnOfList] at h ⊢

/-- the 6-factor permutation `[0,2,4,1,3,5]` of `partial_channel` on the index level -/
theorem perm6_index (x0 x1 x2 x3 x4 x5 p i q p2 a q2 : Nat)
    (h0 : p < x0) (h1 : i < x2) (h2 : q < x4) (h3 : p2 < x1) (h4 : a < x3) (h5 : q2 < x5) :
    permIndex 6 perm6 (fnOfList [x0, x1, x2, x3, x4, x5]) false
      (((((p * x2 + i) * x4 + q) * x1 + p2) * x3 + a) * x5 + q2)
      = ((((p * x1 + p2) * x2 + i) * x3 + a) * x4 + q) * x5 + q2 := by
  have := permIndex_enc 6 perm6 (fnOfList [x0, x1, x2, x3, x4, x5]) (fnOfList [p, i, q, p2, a, q2]) perm6_lt perm6_inj
    (by intro k hk; interval_cases k <;> simp [perm6, fnOfList] <;> assumption)
  simpa [enc, fnOfList, perm6, invPerm, invPerm.go] using this

end six

section pchoi
variable {α : Type} [CommSemiring α] [StarRing α]

omit [StarRing α] in
theorem unit_eq_mul (p p' x y : Nat) :
    (unit p p' x y : α) = (if p = x then 1 else 0) * (if p' = y then 1 else 0) := by
  unfold unit
  by_cases h1 : p = x <;> by_cases h2 : p' = y
  · subst h1; subst h2; simp
  · subst h1; simp [h2, Ne.symm h2]
  · subst h2; simp [h1, Ne.symm h1]
  · simp [h1, h2, Ne.symm h1, Ne.symm h2]

omit [StarRing α] in
theorem kron_e (A B : Mat α) (x y x' y' : Nat) (hy : y < B.r) (hy' : y' < B.c) :
    (kron A B).e (x * B.r + y) (x' * B.c + y') = A.e x x' * B.e y y' := by
  obtain ⟨h1, h2⟩ := divmod_be x B.r y hy
  obtain ⟨h3, h4⟩ := divmod_be x' B.c y' hy'
  simp only [kron, h1, h2, h3, h4]

/-- entries of the Choi matrix of `id ⊗ Φ ⊗ id` that `partial_channel` builds from the Choi matrix of `Φ` -/
theorem embedChoi_e (J : Mat α) (sys n : Nat) (rd cd : Nat → Nat) (o0 o1 : Nat)
    (hd0 : 0 < rd (sys - 1)) (hd1 : 0 < cd (sys - 1))
    (hJr : J.r = rd (sys - 1) * o0) (hJc : J.c = cd (sys - 1) * o1)
    (p i q p2 a q2 p' j q' p2' b q2' : Nat)
    (hp : p < prodBefore rd sys) (hi : i < rd (sys - 1)) (hq : q < prodAfter rd n sys)
    (hp2 : p2 < prodBefore rd sys) (ha : a < o0) (hq2 : q2 < prodAfter rd n sys)
    (hp' : p' < prodBefore cd sys) (hj : j < cd (sys - 1)) (hq' : q' < prodAfter cd n sys)
    (hp2' : p2' < prodBefore cd sys) (hb : b < o1) (hq2' : q2' < prodAfter cd n sys) :
    (embedChoi J sys n rd cd).e
        (((((p * rd (sys - 1) + i) * prodAfter rd n sys + q) * prodBefore rd sys + p2) * o0 + a) * prodAfter rd n sys + q2)
        (((((p' * cd (sys - 1) + j) * prodAfter cd n sys + q') * prodBefore cd sys + p2') * o1 + b) * prodAfter cd n sys + q2')
      = unit p p' p2 p2' * J.e (i * o0 + a) (j * o1 + b) * unit q q' q2 q2' := by
  have e0 : J.r / rd (sys - 1) = o0 := by rw [hJr]; exact Nat.mul_div_cancel_left _ hd0
  have e1 : J.c / cd (sys - 1) = o1 := by rw [hJc]; exact Nat.mul_div_cancel_left _ hd1
  unfold embedChoi
  simp only [e0, e1]
  generalize prodBefore rd sys = r1 at *
  generalize prodBefore cd sys = c1 at *
  generalize prodAfter rd n sys = r2 at *
  generalize prodAfter cd n sys = c2 at *
  generalize rd (sys - 1) = d0 at *
  generalize cd (sys - 1) = d1 at *
  show (kron (kron ((maxEnt r1).mul (maxEnt c1).ct) J) ((maxEnt r2).mul (maxEnt c2).ct)).e
      (permIndex 6 perm6 (fnOfList [r1, r1, d0, o0, r2, r2]) false _)
      (permIndex 6 perm6 (fnOfList [c1, c1, d1, o1, c2, c2]) false _) = _
  rw [perm6_index r1 r1 d0 o0 r2 r2 p i q p2 a q2 hp hi hq hp2 ha hq2,
    perm6_index c1 c1 d1 o1 c2 c2 p' j q' p2' b q2' hp' hj hq' hp2' hb hq2']
  have hR : ((((p * r1 + p2) * d0 + i) * o0 + a) * r2 + q) * r2 + q2
      = ((p * r1 + p2) * J.r + (i * o0 + a)) * ((maxEnt (α := α) r2).mul (maxEnt c2).ct).r + (q * r2 + q2) := by
    simp only [Mat.mul, maxEnt, hJr]; ring
  have hC : ((((p' * c1 + p2') * d1 + j) * o1 + b) * c2 + q') * c2 + q2'
      = ((p' * c1 + p2') * J.c + (j * o1 + b)) * ((maxEnt (α := α) r2).mul (maxEnt c2).ct).c + (q' * c2 + q2') := by
    simp only [Mat.mul, maxEnt, Mat.ct, Mat.T, Mat.conj, hJc]; ring
  rw [hR, hC, kron_e _ _ _ _ _ _
      (by simp only [Mat.mul, maxEnt]; exact lt_mul_of_digits q r2 q2 r2 hq hq2)
      (by simp only [Mat.mul, maxEnt, Mat.ct, Mat.T, Mat.conj]; exact lt_mul_of_digits q' c2 q2' c2 hq' hq2'),
    kron_e _ _ _ _ _ _
      (by rw [hJr]; exact lt_mul_of_digits i d0 a o0 hi ha)
      (by rw [hJc]; exact lt_mul_of_digits j d1 b o1 hj hb),
    maxEnt_mul_e r1 c1 p p2 p' p2' hp2 hp2', maxEnt_mul_e r2 c2 q q2 q' q2' hq2 hq2']

end pchoi
end Toq.ChannelOps

namespace Toq.ChannelOps
open Mat
section pchoi2
variable {α : Type} [CommSemiring α] [StarRing α]

omit [StarRing α] in
theorem sumN_digits3 (pre d post : Nat) (F : Nat → α) :
    sumN (pre * d * post) F = sumN pre fun p => sumN d fun i => sumN post fun q => F ((p * d + i) * post + q) := by
  rw [sumN_mul_index, sumN_mul_index]

omit [StarRing α] in
/-- a sum over a three-digit index with Kronecker deltas on the outer digits -/
theorem sumN_digits3_pick (pre d post p0 q0 : Nat) (hp0 : p0 < pre) (hq0 : q0 < post) (F : Nat → α)
    (G : Nat → Nat → Nat → α)
    (h : ∀ p i q, p < pre → i < d → q < post →
      F ((p * d + i) * post + q) = (if p0 = p then 1 else 0) * ((if q0 = q then 1 else 0) * G p i q)) :
    sumN (pre * d * post) F = sumN d (fun i => G p0 i q0) := by
  rw [sumN_digits3]
  have s1 : ∀ p, p < pre → sumN d (fun i => sumN post fun q => F ((p * d + i) * post + q))
      = (if p0 = p then 1 else 0) * sumN d (fun i => G p i q0) := by
    intro p hp
    rw [sumN_mul_left]
    apply sumN_congr; intro i hi
    rw [sumN_congr _ _ _ (fun q hq => h p i q hp hi hq), ← sumN_mul_left, sumN_delta_left' _ q0 _ hq0]
  rw [sumN_congr _ _ _ s1, sumN_delta_left' _ p0 _ hp0]

/-- entry formula of `partial_channel` with a Choi matrix: `(id ⊗ Φ ⊗ id)(ρ)` evaluated from `J(Φ)` -/
theorem partialChannelChoi_e (rho J : Mat α) (sys n : Nat) (rd cd : Nat → Nat) (o0 o1 : Nat)
    (hd0 : 0 < rd (sys - 1)) (hd1 : 0 < cd (sys - 1))
    (hJr : J.r = rd (sys - 1) * o0) (hJc : J.c = cd (sys - 1) * o1)
    (hr : rho.r = prodBefore rd sys * rd (sys - 1) * prodAfter rd n sys)
    (hc : rho.c = prodBefore cd sys * cd (sys - 1) * prodAfter cd n sys)
    (p2 a q2 p2' b q2' : Nat)
    (hp2 : p2 < prodBefore rd sys) (ha : a < o0) (hq2 : q2 < prodAfter rd n sys)
    (hp2' : p2' < prodBefore cd sys) (hb : b < o1) (hq2' : q2' < prodAfter cd n sys) :
    (partialChannelChoi rho J sys n rd cd).e ((p2 * o0 + a) * prodAfter rd n sys + q2) ((p2' * o1 + b) * prodAfter cd n sys + q2')
      = sumN (rd (sys - 1)) fun i => sumN (cd (sys - 1)) fun j =>
          rho.e ((p2 * rd (sys - 1) + i) * prodAfter rd n sys + q2) ((p2' * cd (sys - 1) + j) * prodAfter cd n sys + q2')
            * J.e (i * o0 + a) (j * o1 + b) := by
  have hE := embedChoi_e J sys n rd cd o0 o1 hd0 hd1 hJr hJc
  have hphir : (embedChoi J sys n rd cd).r = rho.r * (prodBefore rd sys * o0 * prodAfter rd n sys) := by
    simp only [embedChoi, Mat.permute, kron, Mat.mul, maxEnt, hJr, hr]; ring
  have hphic : (embedChoi J sys n rd cd).c = rho.c * (prodBefore cd sys * o1 * prodAfter cd n sys) := by
    simp only [embedChoi, Mat.permute, kron, Mat.mul, maxEnt, Mat.ct, Mat.T, Mat.conj, hJc, hc]; ring
  generalize prodBefore rd sys = r1 at *
  generalize prodBefore cd sys = c1 at *
  generalize prodAfter rd n sys = r2 at *
  generalize prodAfter cd n sys = c2 at *
  generalize rd (sys - 1) = d0 at *
  generalize cd (sys - 1) = d1 at *
  have hxr : 0 < rho.r := by
    rw [hr]; exact Nat.mul_pos (Nat.mul_pos (by omega) hd0) (by omega)
  have hxc : 0 < rho.c := by
    rw [hc]; exact Nat.mul_pos (Nat.mul_pos (by omega) hd1) (by omega)
  unfold partialChannelChoi
  rw [applyChoi_e rho _ (r1 * o0 * r2) (c1 * o1 * c2) hxr hxc hphir hphic _ _
    (lt_mul_of_digits (p2 * o0 + a) (r1 * o0) q2 r2 (lt_mul_of_digits p2 r1 a o0 hp2 ha) hq2)
    (lt_mul_of_digits (p2' * o1 + b) (c1 * o1) q2' c2 (lt_mul_of_digits p2' c1 b o1 hp2' hb) hq2')]
  unfold applyChoiSpec
  rw [hr, hc]
  -- inner sum (column index) for a fixed row index with digits (p, i, q)
  have inner : ∀ p i q, p < r1 → i < d0 → q < r2 →
      sumN (c1 * d1 * c2) (fun Jc => rho.e ((p * d0 + i) * r2 + q) Jc *
        (embedChoi J sys n rd cd).e (((p * d0 + i) * r2 + q) * (r1 * o0 * r2) + ((p2 * o0 + a) * r2 + q2))
          (Jc * (c1 * o1 * c2) + ((p2' * o1 + b) * c2 + q2')))
      = (if p2 = p then 1 else 0) * ((if q2 = q then 1 else 0) *
          sumN d1 (fun j => rho.e ((p * d0 + i) * r2 + q) ((p2' * d1 + j) * c2 + q2') * J.e (i * o0 + a) (j * o1 + b))) := by
    intro p i q hp hi hq
    rw [sumN_digits3_pick c1 d1 c2 p2' q2' hp2' hq2' _
      (fun p' j q' => (if p2 = p then 1 else 0) * ((if q2 = q then 1 else 0) *
        (rho.e ((p * d0 + i) * r2 + q) ((p' * d1 + j) * c2 + q') * J.e (i * o0 + a) (j * o1 + b))))]
    · rw [← sumN_mul_left, ← sumN_mul_left]
    · intro p' j q' hp' hj hq'
      have e1 : ((p * d0 + i) * r2 + q) * (r1 * o0 * r2) + ((p2 * o0 + a) * r2 + q2)
          = ((((p * d0 + i) * r2 + q) * r1 + p2) * o0 + a) * r2 + q2 := by ring
      have e2 : ((p' * d1 + j) * c2 + q') * (c1 * o1 * c2) + ((p2' * o1 + b) * c2 + q2')
          = ((((p' * d1 + j) * c2 + q') * c1 + p2') * o1 + b) * c2 + q2' := by ring
      rw [e1, e2, hE p i q p2 a q2 p' j q' p2' b q2' hp hi hq hp2 ha hq2 hp' hj hq' hp2' hb hq2',
        unit_eq_mul, unit_eq_mul]
      have f1 : (if p2 = p then (1 : α) else 0) = if p = p2 then 1 else 0 := by simp only [eq_comm]
      have f2 : (if q2 = q then (1 : α) else 0) = if q = q2 then 1 else 0 := by simp only [eq_comm]
      have f3 : (if p2' = p' then (1 : α) else 0) = if p' = p2' then 1 else 0 := by simp only [eq_comm]
      have f4 : (if q2' = q' then (1 : α) else 0) = if q' = q2' then 1 else 0 := by simp only [eq_comm]
      rw [f1, f2, f3, f4]
      ring
  rw [sumN_digits3_pick r1 d0 r2 p2 q2 hp2 hq2 _
    (fun p i q => sumN d1 (fun j => rho.e ((p * d0 + i) * r2 + q) ((p2' * d1 + j) * c2 + q2') * J.e (i * o0 + a) (j * o1 + b)))]
  intro p i q hp hi hq
  exact inner p i q hp hi hq

end pchoi2

section bridge
variable {α : Type} [CommSemiring α] [StarRing α]

/-- a function matrix read as a Mathlib matrix of the given size -/
def toM (m n : Nat) (f : Nat → Nat → α) : Matrix (Fin m) (Fin n) α := fun i j => f i j

omit [StarRing α] in
theorem sumN_eq_sum_fin (f : Nat → α) (n : Nat) : sumN n f = ∑ i : Fin n, f i := by
  rw [sumN_eq_sum, Finset.sum_range]

/-- the specification in Mathlib's vocabulary: `Φ(X) = Σ_k A_k · X · B_kᴴ` -/
theorem toM_applySpec (r : Nat) (A B : Nat → Nat → Nat → α) (di0 di1 do0 do1 : Nat) (X : Nat → Nat → α) :
    toM do0 do1 (applySpec r A B di0 di1 X)
      = ∑ k : Fin r, toM do0 di0 (A k) * toM di0 di1 X * (toM do1 di1 (B k)).conjTranspose := by
  ext a b
  simp only [toM, applySpec, sumN_eq_sum_fin, Matrix.sum_apply, Matrix.mul_apply, Matrix.conjTranspose_apply,
    conj_eq_star, Finset.sum_mul]
  apply Finset.sum_congr rfl; intro k _
  exact Finset.sum_comm

/-- the Hilbert–Schmidt inner product in Mathlib's vocabulary: `⟨Y, Z⟩ = tr(Yᴴ Z)` -/
theorem hsInner_eq_trace (m n : Nat) (Y Z : Nat → Nat → α) :
    hsInner m n Y Z = Matrix.trace ((toM m n Y).conjTranspose * toM m n Z) := by
  simp only [hsInner, toM, sumN_eq_sum_fin, Matrix.trace, Matrix.diag, Matrix.mul_apply,
    Matrix.conjTranspose_apply, conj_eq_star]
  exact Finset.sum_comm

omit [StarRing α] in
theorem tr_eq_trace (d : Nat) (M : Nat → Nat → α) : tr d M = Matrix.trace (toM d d M) := by
  simp only [tr, toM, sumN_eq_sum_fin, Matrix.trace, Matrix.diag]

theorem toM_adj (m n : Nat) (A : Nat → Nat → α) :
    toM n m (fun i a => HasConj.conj (A a i)) = (toM m n A).conjTranspose := by
  ext i a; simp [toM, Matrix.conjTranspose_apply, conj_eq_star]

/-- **adjoint identity** for matrices: `tr(Yᴴ Σ A X Bᴴ) = tr((Σ Aᴴ Y B)ᴴ X)` -/
theorem adjoint_matrix {ι : Type} [Fintype ι] {m n p q : Type} [Fintype m] [Fintype n] [Fintype p] [Fintype q]
    (A : ι → Matrix p m α) (B : ι → Matrix q n α) (X : Matrix m n α) (Y : Matrix p q α) :
    Matrix.trace (Y.conjTranspose * ∑ k, A k * X * (B k).conjTranspose)
      = Matrix.trace ((∑ k, (A k).conjTranspose * Y * ((B k).conjTranspose).conjTranspose).conjTranspose * X) := by
  rw [Matrix.mul_sum, Matrix.conjTranspose_sum, Matrix.sum_mul, Matrix.trace_sum, Matrix.trace_sum]
  apply Finset.sum_congr rfl; intro k _
  simp only [Matrix.conjTranspose_mul, Matrix.conjTranspose_conjTranspose]
  rw [← Matrix.mul_assoc, ← Matrix.mul_assoc, Matrix.trace_mul_comm]
  simp only [Matrix.mul_assoc]

end bridge

section dualK
variable {α : Type} [CommSemiring α] [StarRing α]

theorem ct_ct (m : Mat α) : m.ct.ct = m := by
  cases m; simp [Mat.ct, Mat.conj, Mat.T, conj_eq_star]

theorem map_ct_ct (l : List (Mat α)) : (l.map Mat.ct).map Mat.ct = l := by
  simp [List.map_map, Function.comp_def, ct_ct]

/-- the dual of the dual is the original list (literally) -/
theorem dualKraus_dualKraus (phi : KrausArg α) : dualKraus (dualKraus phi) = phi := by
  cases phi with
  | flat l => simp only [dualKraus, map_ct_ct]
  | nested ll => simp [dualKraus, List.map_map, Function.comp_def, ct_ct]

omit [CommSemiring α] [StarRing α] in
theorem nestedIsCP_map (f : Mat α → Mat α) (ll : List (List (Mat α))) :
    nestedIsCP (ll.map (fun x => x.map f)) = nestedIsCP ll := by
  cases ll with
  | nil => rfl
  | cons l t => simp [nestedIsCP]

omit [CommSemiring α] [StarRing α] in
theorem mapM_getElem?_map (f : Mat α → Mat α) (n : Nat) (ll : List (List (Mat α))) :
    (ll.map (fun x => x.map f)).mapM (fun k => k[n]?) = (ll.mapM (fun k => k[n]?)).map (fun l => l.map f) := by
  induction ll with
  | nil => simp
  | cons l t ih =>
    simp only [List.map_cons, List.mapM_cons, ih, List.getElem?_map]
    cases l[n]? <;> cases (t.mapM (fun k => k[n]?)) <;> simp

/-- the cascade commutes with taking the dual: the dual list denotes the family of adjoints -/
theorem split_dualKraus (phi : KrausArg α) :
    (dualKraus phi).split = phi.split.map (fun ab => (ab.1.map Mat.ct, ab.2.map Mat.ct)) := by
  cases phi with
  | flat l =>
    cases l with
    | nil => simp [dualKraus, KrausArg.split]
    | cons k t => simp [dualKraus, KrausArg.split]
  | nested ll =>
    cases ll with
    | nil => simp [dualKraus, KrausArg.split]
    | cons l t =>
      simp only [dualKraus, KrausArg.split]
      have hcp := nestedIsCP_map Mat.ct (l :: t)
      simp only [List.map_cons] at hcp
      simp only [List.map_cons, List.isEmpty_cons, Bool.false_eq_true, if_false, hcp]
      by_cases h : nestedIsCP (l :: t) = true
      · simp [h, List.map_flatten]
      · simp only [h]
        have h0 := mapM_getElem?_map Mat.ct 0 (l :: t)
        have h1 := mapM_getElem?_map Mat.ct 1 (l :: t)
        simp only [List.map_cons] at h0 h1
        rw [h0, h1]
        cases (List.mapM (fun k => k[0]?) (l :: t)) <;> cases (List.mapM (fun k => k[1]?) (l :: t)) <;> rfl

theorem fam_map_ct (l : List (Mat α)) (k : Nat) (hk : k < l.length) :
    fam (l.map Mat.ct) k = fun i a => HasConj.conj (fam l k a i) := by
  rw [fam_map Mat.ct l k hk]; rfl

/-- **adjoint identity**, list level: `⟨Y, Φ(X)⟩ = ⟨Φ*(Y), X⟩` for `Φ = Σ A·Bᴴ` and the lists of adjoints -/
theorem dual_adjoint_lists (X Y : Mat α) (as bs : List (Mat α))
    (ha : Shaped as Y.r X.r) (hb : Shaped bs Y.c X.c) (hl : as.length = bs.length) :
    hsInner Y.r Y.c Y.e (applyKrausLists X as bs).e
      = hsInner X.r X.c (applyKrausLists Y (as.map Mat.ct) (bs.map Mat.ct)).e X.e := by
  have e1 : (applyKrausLists X as bs).e = applySpec as.length (fam as) (fam bs) X.r X.c X.e := by
    funext a b; exact applyKrausLists_e X as bs Y.r Y.c ha hb hl a b
  have e2 : (applyKrausLists Y (as.map Mat.ct) (bs.map Mat.ct)).e
      = applySpec as.length (fam (as.map Mat.ct)) (fam (bs.map Mat.ct)) Y.r Y.c Y.e := by
    funext a b
    have := applyKrausLists_e Y (as.map Mat.ct) (bs.map Mat.ct) X.r X.c (shaped_map_ct as _ _ ha)
      (shaped_map_ct bs _ _ hb) (by simpa using hl) a b
    simpa using this
  rw [e1, e2, hsInner_eq_trace, hsInner_eq_trace, toM_applySpec, toM_applySpec, adjoint_matrix]
  congr 2
  apply congrArg Matrix.conjTranspose
  apply Finset.sum_congr rfl; intro k _
  rw [fam_map_ct as k k.2, fam_map_ct bs k (by rw [← hl]; exact k.2), toM_adj, toM_adj]

end dualK

section dualC
variable {α : Type} [CommSemiring α] [StarRing α]

omit [CommSemiring α] [StarRing α] in
theorem channelDimChoi_mat (di0 do0 di1 do1 : Nat) :
    channelDimChoi (di0 * do0) (di1 * do1) true (.mat di0 do0 di1 do1) = .ok ⟨di0, di1, do0, do1, none⟩ := by
  simp [channelDimChoi, expandDim, packDims]

/-- `dual_channel` on a Choi matrix with `dims = [[di0, do0], [di1, do1]]`: conjugate and exchange the factors -/
theorem dualChoi_e (J : Mat α) (di0 do0 di1 do1 : Nat) (hJr : J.r = di0 * do0) (hJc : J.c = di1 * do1) :
    ∃ D, dualChoi J (.mat di0 do0 di1 do1) = .ok D ∧ D.r = do0 * di0 ∧ D.c = do1 * di1 ∧
      ∀ a i b j, a < do0 → i < di0 → b < do1 → j < di1 →
        D.e (a * di0 + i) (b * di1 + j) = HasConj.conj (J.e (i * do0 + a) (j * do1 + b)) := by
  refine ⟨swap2 J.conj (fnOfList [di0, do0]) (fnOfList [di1, do1]) false, ?_, ?_, ?_, ?_⟩
  · unfold dualChoi
    rw [hJr, hJc, channelDimChoi_mat]
    rfl
  · show J.r = _; rw [hJr, Nat.mul_comm]
  · show J.c = _; rw [hJc, Nat.mul_comm]
  · intro a i b j ha hi hb hj
    simp only [swap2, permuteMat, Mat.conj, swap_index di0 do0 a i ha hi, swap_index di1 do1 b j hb hj]
    rfl

/-- **adjoint identity for Choi matrices** (any matrix `J` of the right shape):
    `⟨Y, Φ_J(X)⟩ = ⟨Φ_{J*}(Y), X⟩` where `J*[(a,i),(b,j)] = conj J[(i,a),(j,b)]` -/
theorem dual_adjoint_choiSpec (J D X Y : Nat → Nat → α) (di0 di1 do0 do1 : Nat)
    (hD : ∀ a i b j, a < do0 → i < di0 → b < do1 → j < di1 →
      D (a * di0 + i) (b * di1 + j) = HasConj.conj (J (i * do0 + a) (j * do1 + b))) :
    hsInner do0 do1 Y (applyChoiSpec J di0 di1 do0 do1 X)
      = hsInner di0 di1 (applyChoiSpec D do0 do1 di0 di1 Y) X := by
  unfold hsInner applyChoiSpec
  -- both sides are Σ_{a,b,i,j} conj(Y a b) · X i j · J[(i,a),(j,b)]
  have lhs : ∀ a, a < do0 → ∀ b, b < do1 →
      HasConj.conj (Y a b) * sumN di0 (fun i => sumN di1 fun j => X i j * J (i * do0 + a) (j * do1 + b))
      = sumN di0 (fun i => sumN di1 fun j => star (Y a b) * X i j * J (i * do0 + a) (j * do1 + b)) := by
    intro a _ b _
    rw [sumN_mul_left]; apply sumN_congr; intro i _
    rw [sumN_mul_left]; apply sumN_congr; intro j _
    rw [conj_eq_star]; ring
  have rhs : ∀ i, i < di0 → ∀ j, j < di1 →
      HasConj.conj (sumN do0 (fun a => sumN do1 fun b => Y a b * D (a * di0 + i) (b * di1 + j))) * X i j
      = sumN do0 (fun a => sumN do1 fun b => star (Y a b) * X i j * J (i * do0 + a) (j * do1 + b)) := by
    intro i hi j hj
    rw [conj_eq_star, star_sumN, sumN_mul_right]; apply sumN_congr; intro a ha
    rw [star_sumN, sumN_mul_right]; apply sumN_congr; intro b hb
    rw [hD a i b j ha hi hb hj, conj_eq_star, star_mul', star_star]; ring
  rw [sumN_congr _ _ _ (fun a ha => sumN_congr _ _ _ (fun b hb => lhs a ha b hb)),
    sumN_congr _ _ _ (fun i hi => sumN_congr _ _ _ (fun j hj => rhs i hi j hj))]
  -- Σ_a Σ_b Σ_i Σ_j  →  Σ_i Σ_j Σ_a Σ_b
  simp only [sumN_eq_sum]
  rw [Finset.sum_congr rfl (fun a _ => Finset.sum_comm)]   -- Σ_a Σ_i Σ_b Σ_j
  rw [Finset.sum_comm]                                       -- Σ_i Σ_a Σ_b Σ_j
  apply Finset.sum_congr rfl; intro i _
  rw [Finset.sum_congr rfl (fun a _ => Finset.sum_comm)]   -- Σ_a Σ_j Σ_b
  rw [Finset.sum_comm]                                       -- Σ_j Σ_a Σ_b

end dualC

section unital
variable {α : Type} [CommSemiring α] [StarRing α]

/-- `tr(Φ*(Y)) = tr(Φ(1)ᴴ Y)` -/
theorem trace_dual_eq {ι m p : Type} [Fintype ι] [Fintype m] [Fintype p] [DecidableEq m]
    (A B : ι → Matrix p m α) (Y : Matrix p p α) :
    Matrix.trace (∑ k, (A k).conjTranspose * Y * B k)
      = Matrix.trace ((∑ k, A k * (1 : Matrix m m α) * (B k).conjTranspose).conjTranspose * Y) := by
  rw [Matrix.conjTranspose_sum, Matrix.sum_mul, Matrix.trace_sum, Matrix.trace_sum]
  apply Finset.sum_congr rfl; intro k _
  simp only [Matrix.conjTranspose_mul, Matrix.conjTranspose_conjTranspose, Matrix.mul_one]
  rw [Matrix.trace_mul_comm, Matrix.mul_assoc]

/-- **unital ⇔ dual trace-preserving** for matrices -/
theorem unital_iff_dual_tp_matrix {ι m p : Type} [Fintype ι] [Fintype m] [Fintype p] [DecidableEq m] [DecidableEq p]
    (A B : ι → Matrix p m α) :
    (∑ k, A k * (1 : Matrix m m α) * (B k).conjTranspose = 1)
      ↔ ∀ Y : Matrix p p α, Matrix.trace (∑ k, (A k).conjTranspose * Y * B k) = Matrix.trace Y := by
  constructor
  · intro h Y
    rw [trace_dual_eq, h, Matrix.conjTranspose_one, Matrix.one_mul]
  · intro h
    have h2 : (∑ k, A k * (1 : Matrix m m α) * (B k).conjTranspose).conjTranspose = 1 := by
      rw [Matrix.ext_iff_trace_mul_right]
      intro Y
      rw [← trace_dual_eq, h Y, Matrix.one_mul]
    have := congrArg Matrix.conjTranspose h2
    rwa [Matrix.conjTranspose_conjTranspose, Matrix.conjTranspose_one] at this

/-- `Σ_i tr(K_i ρ K_iᴴ) = tr ρ` when `Σ K_iᴴ K_i = 1` -/
theorem compl_tp_matrix {ι m : Type} [Fintype ι] [Fintype m] [DecidableEq m]
    (K : ι → Matrix m m α) (h : ∑ k, (K k).conjTranspose * K k = 1) (ρ : Matrix m m α) :
    ∑ i, Matrix.trace (K i * ρ * (K i).conjTranspose) = Matrix.trace ρ := by
  have : ∀ i, Matrix.trace (K i * ρ * (K i).conjTranspose) = Matrix.trace ((K i).conjTranspose * K i * ρ) := by
    intro i; rw [Matrix.trace_mul_comm, Matrix.mul_assoc]
  simp only [this]
  rw [← Matrix.trace_sum, ← Matrix.sum_mul, h, Matrix.one_mul]

end unital

section spectrum
variable {α : Type} [CommRing α] [StarRing α]

/-- the `d × r` matrix whose columns are `K_i ψ` -/
def colsKpsi {ι m : Type} [Fintype m] (K : ι → Matrix m m α) (ψ : m → α) : Matrix m ι α :=
  fun a i => (K i).mulVec ψ a

/-- `Φ(ψψᴴ) = M Mᴴ` -/
theorem phi_pure_eq {ι m : Type} [Fintype ι] [Fintype m] (K : ι → Matrix m m α) (ψ : m → α) :
    ∑ i, K i * Matrix.vecMulVec ψ (star ψ) * (K i).conjTranspose
      = colsKpsi K ψ * (colsKpsi K ψ).conjTranspose := by
  ext a b
  simp only [Matrix.sum_apply, Matrix.mul_apply, colsKpsi, Matrix.conjTranspose_apply, Matrix.vecMulVec_apply,
    Matrix.mulVec, dotProduct, Pi.star_apply, star_sum, star_mul']
  apply Finset.sum_congr rfl; intro i _
  rw [Finset.sum_mul_sum]
  rw [Finset.sum_comm]
  apply Finset.sum_congr rfl; intro x _
  rw [Finset.sum_mul]
  apply Finset.sum_congr rfl; intro y _
  ring

/-- `Φᶜ(ψψᴴ) = (Mᴴ M)ᵀ`, where `Φᶜ(ρ)_{ij} = tr(K_i ρ K_jᴴ)` -/
theorem compl_pure_eq {ι m : Type} [Fintype ι] [Fintype m] (K : ι → Matrix m m α) (ψ : m → α) :
    (Matrix.of fun i j => Matrix.trace (K i * Matrix.vecMulVec ψ (star ψ) * (K j).conjTranspose))
      = ((colsKpsi K ψ).conjTranspose * colsKpsi K ψ).transpose := by
  ext i j
  simp only [Matrix.of_apply, Matrix.trace, Matrix.diag, Matrix.mul_apply, colsKpsi, Matrix.conjTranspose_apply,
    Matrix.vecMulVec_apply, Matrix.mulVec, dotProduct, Pi.star_apply, star_sum, star_mul',
    Matrix.transpose_apply]
  apply Finset.sum_congr rfl; intro a _
  rw [Finset.sum_mul_sum]
  apply Finset.sum_congr rfl; intro x _
  rw [Finset.sum_mul]
  apply Finset.sum_congr rfl; intro y _
  ring

/-- **same non-zero spectrum on pure inputs**: the characteristic polynomials of `Φ(ψψᴴ)` and `Φᶜ(ψψᴴ)` differ
    only by a power of `X` -/
theorem compl_spectrum_matrix {ι m : Type} [Fintype ι] [Fintype m] [DecidableEq ι] [DecidableEq m]
    (K : ι → Matrix m m α) (ψ : m → α) :
    Polynomial.X ^ Fintype.card ι *
        (∑ i, K i * Matrix.vecMulVec ψ (star ψ) * (K i).conjTranspose).charpoly
      = Polynomial.X ^ Fintype.card m *
        (Matrix.of fun i j => Matrix.trace (K i * Matrix.vecMulVec ψ (star ψ) * (K j).conjTranspose)).charpoly := by
  rw [phi_pure_eq, compl_pure_eq, Matrix.charpoly_transpose, Matrix.charpoly_mul_comm']

end spectrum

section more
variable {α : Type} [CommSemiring α] [StarRing α]

omit [StarRing α] in
theorem applyKrausLists_shape [HasConj α] (X : Mat α) (as bs : List (Mat α)) (do0 do1 : Nat)
    (ha : Shaped as do0 X.r) (hb : Shaped bs do1 X.c) (hl : as.length = bs.length) (h : as ≠ []) :
    (applyKrausLists X as bs).r = do0 ∧ (applyKrausLists X as bs).c = do1 := by
  cases as with
  | nil => exact absurd rfl h
  | cons a t => cases bs with
    | nil => simp at hl
    | cons b u =>
      have h1 := (ha a (by simp)).1
      have h2 := (hb b (by simp)).1
      constructor
      · simp [applyKrausLists, Mat.mul, hcat, h1]
      · simp [applyKrausLists, Mat.mul, vcat, Mat.ct, Mat.T, Mat.conj, h2]

/-- `Φ(E_ij)[a,b] = Σ_k A_k[a,i] · conj(B_k[b,j])` -/
theorem applySpec_unit (r : Nat) (A B : Nat → Nat → Nat → α) (di0 di1 i j a b : Nat) (hi : i < di0) (hj : j < di1) :
    applySpec r A B di0 di1 (unit i j) a b = sumN r (fun k => A k a i * HasConj.conj (B k b j)) := by
  unfold applySpec
  apply sumN_congr; intro k _
  have inner : ∀ i', i' < di0 → sumN di1 (fun j' => A k a i' * unit i j i' j' * HasConj.conj (B k b j'))
      = (if i' = i then 1 else 0) * (A k a i' * HasConj.conj (B k b j)) := by
    intro i' _
    have : ∀ j', j' < di1 → A k a i' * unit i j i' j' * HasConj.conj (B k b j')
        = (if j' = j then 1 else 0) * ((if i' = i then 1 else 0) * (A k a i' * HasConj.conj (B k b j'))) := by
      intro j' _
      unfold unit
      by_cases h1 : i' = i <;> by_cases h2 : j' = j <;> simp [h1, h2]
    rw [sumN_congr _ _ _ this, sumN_delta_left _ j _ hj]
  rw [sumN_congr _ _ _ inner, sumN_delta_left _ i _ hi]

/-- a matrix whose entries are those of `J(Φ)` evaluates to `Φ` -/
theorem applyChoiSpec_of_choi (r : Nat) (A B : Nat → Nat → Nat → α) (di0 di1 do0 do1 : Nat) (J X : Nat → Nat → α)
    (hJ : ∀ i a j b, i < di0 → a < do0 → j < di1 → b < do1 →
      J (i * do0 + a) (j * do1 + b) = applySpec r A B di0 di1 (unit i j) a b)
    (a b : Nat) (ha : a < do0) (hb : b < do1) :
    applyChoiSpec J di0 di1 do0 do1 X a b = applySpec r A B di0 di1 X a b := by
  unfold applyChoiSpec
  have e : ∀ i, i < di0 → sumN di1 (fun j => X i j * J (i * do0 + a) (j * do1 + b))
      = sumN di1 (fun j => sumN r (fun k => A k a i * X i j * HasConj.conj (B k b j))) := by
    intro i hi
    apply sumN_congr; intro j hj
    rw [hJ i a j b hi ha hj hb, applySpec_unit r A B di0 di1 i j a b hi hj, sumN_mul_left]
    apply sumN_congr; intro k _; ring
  rw [sumN_congr _ _ _ e]
  unfold applySpec
  have c1 : ∀ i, i < di0 → sumN di1 (fun j => sumN r (fun k => A k a i * X i j * HasConj.conj (B k b j)))
      = sumN r (fun k => sumN di1 (fun j => A k a i * X i j * HasConj.conj (B k b j))) := fun i _ => sumN_comm _ _ _
  rw [sumN_congr _ _ _ c1, sumN_comm]

/-- `prod(dim) = prod(dim[:sys-1]) · dim[sys-1] · prod(dim[sys:])` -/
theorem prodN_split (d : Nat → Nat) (n sys : Nat) (h1 : 1 ≤ sys) (h2 : sys ≤ n) :
    prodN d n = prodBefore d sys * d (sys - 1) * prodAfter d n sys := by
  unfold prodBefore prodAfter
  obtain ⟨m, rfl⟩ : ∃ m, n = sys + m := ⟨n - sys, by omega⟩
  have hm : sys + m - sys = m := by omega
  rw [hm]
  clear hm h2
  induction m with
  | zero =>
    simp only [Nat.add_zero, prodN, Nat.mul_one]
    obtain ⟨s, rfl⟩ : ∃ s, sys = s + 1 := ⟨sys - 1, by omega⟩
    simp [prodN]
  | succ m ih =>
    show prodN d (sys + m) * d (sys + m) = _
    rw [ih]
    simp only [prodN]
    ring

end more

section lists2
variable {α : Type} [CommSemiring α] [StarRing α]

omit [CommSemiring α] [StarRing α] in
theorem toM_eq_iff (m n : Nat) (f g : Nat → Nat → α) :
    toM m n f = toM m n g ↔ ∀ a b, a < m → b < n → f a b = g a b := by
  constructor
  · intro h a b ha hb
    have := congrFun (congrFun h ⟨a, ha⟩) ⟨b, hb⟩
    exact this
  · intro h; ext a b; exact h a b a.2 b.2

omit [StarRing α] in
theorem toM_identity (d : Nat) : toM d d (identity (α := α) d).e = 1 := by
  ext a b
  simp only [toM, identity, Matrix.one_apply]
  by_cases h : a = b
  · subst h; simp
  · have : (a : Nat) ≠ b := fun e => h (Fin.ext e)
    simp [h, this]

/-- a Mathlib matrix read back as a function matrix -/
def ofM {m n : Nat} (Y : Matrix (Fin m) (Fin n) α) : Nat → Nat → α :=
  fun a b => if h : a < m ∧ b < n then Y ⟨a, h.1⟩ ⟨b, h.2⟩ else 0

omit [StarRing α] in
theorem toM_ofM {m n : Nat} (Y : Matrix (Fin m) (Fin n) α) : toM m n (ofM Y) = Y := by
  ext a b; simp [toM, ofM, a.2, b.2]

theorem toM_fam_ct (l : List (Mat α)) (m n : Nat) (k : Nat) (hk : k < l.length) :
    toM n m (fam (l.map Mat.ct) k) = (toM m n (fam l k)).conjTranspose := by
  rw [fam_map_ct l k hk, toM_adj]

/-- the Kraus evaluation in Mathlib's vocabulary -/
theorem toM_applyKrausLists (X : Mat α) (as bs : List (Mat α)) (do0 do1 : Nat)
    (ha : Shaped as do0 X.r) (hb : Shaped bs do1 X.c) (hl : as.length = bs.length) :
    toM do0 do1 (applyKrausLists X as bs).e
      = ∑ k : Fin as.length, toM do0 X.r (fam as k) * toM X.r X.c X.e * (toM do1 X.c (fam bs k)).conjTranspose := by
  have e1 : (applyKrausLists X as bs).e = applySpec as.length (fam as) (fam bs) X.r X.c X.e := by
    funext a b; exact applyKrausLists_e X as bs do0 do1 ha hb hl a b
  rw [e1, toM_applySpec]

/-- the dual lists evaluate to `Σ_k A_kᴴ · Y · B_k` -/
theorem toM_applyKrausLists_dual (Y : Mat α) (as bs : List (Mat α)) (di0 di1 : Nat)
    (ha : Shaped as Y.r di0) (hb : Shaped bs Y.c di1) (hl : as.length = bs.length) :
    toM di0 di1 (applyKrausLists Y (as.map Mat.ct) (bs.map Mat.ct)).e
      = ∑ k : Fin as.length, (toM Y.r di0 (fam as k)).conjTranspose * toM Y.r Y.c Y.e * toM Y.c di1 (fam bs k) := by
  have := toM_applyKrausLists Y (as.map Mat.ct) (bs.map Mat.ct) di0 di1 (shaped_map_ct as _ _ ha)
    (shaped_map_ct bs _ _ hb) (by simpa using hl)
  rw [this]
  have hlen : (as.map Mat.ct).length = as.length := by simp
  rw [← Fin.sum_congr' _ hlen.symm]
  apply Finset.sum_congr rfl; intro k _
  have hk : (k : Nat) < as.length := k.2
  simp only [Fin.val_cast]
  rw [toM_fam_ct as Y.r di0 k hk, toM_fam_ct bs Y.c di1 k (by omega), Matrix.conjTranspose_conjTranspose]

/-- **unital ⇔ dual trace-preserving**, list level -/
theorem unital_iff_dual_tp_lists (as bs : List (Mat α)) (d_in d_out : Nat)
    (ha : Shaped as d_out d_in) (hb : Shaped bs d_out d_in) (hl : as.length = bs.length) :
    (∀ a b, a < d_out → b < d_out →
        (applyKrausLists (identity d_in) as bs).e a b = (identity (α := α) d_out).e a b)
      ↔ ∀ Y : Nat → Nat → α,
        tr d_in (applyKrausLists ⟨d_out, d_out, Y⟩ (as.map Mat.ct) (bs.map Mat.ct)).e = tr d_out Y := by
  have e1 : toM d_out d_out (applyKrausLists (identity d_in) as bs).e
      = ∑ k : Fin as.length, toM d_out d_in (fam as k) * toM d_in d_in (identity (α := α) d_in).e
          * (toM d_out d_in (fam bs k)).conjTranspose :=
    toM_applyKrausLists (identity (α := α) d_in) as bs d_out d_out ha hb hl
  have e2 : ∀ Y : Nat → Nat → α, toM d_in d_in (applyKrausLists ⟨d_out, d_out, Y⟩ (as.map Mat.ct) (bs.map Mat.ct)).e
      = ∑ k : Fin as.length, (toM d_out d_in (fam as k)).conjTranspose * toM d_out d_out Y * toM d_out d_in (fam bs k) :=
    fun Y => toM_applyKrausLists_dual ⟨d_out, d_out, Y⟩ as bs d_in d_in ha hb hl
  rw [toM_identity] at e1
  have M := unital_iff_dual_tp_matrix (fun k : Fin as.length => toM d_out d_in (fam as k))
    (fun k : Fin as.length => toM d_out d_in (fam bs k))
  rw [← toM_eq_iff, e1, toM_identity, M]
  constructor
  · intro h Y
    rw [tr_eq_trace, tr_eq_trace, e2 Y]
    exact h (toM d_out d_out Y)
  · intro h Y
    have := h (ofM Y)
    rw [tr_eq_trace, tr_eq_trace, e2, toM_ofM] at this
    exact this

end lists2

section compl
variable {α : Type} [CommSemiring α] [StarRing α]

/-- the list returned by `complementary_channel`: operator `row` stacks row `row` of every `K_i` -/
def complList (ops : List (Mat α)) (d : Nat) : List (Mat α) :=
  (List.range d).map (fun row => (⟨ops.length, d, fun i c => (ops.getD i default).e row c⟩ : Mat α))

omit [StarRing α] in
theorem complList_length (ops : List (Mat α)) (d : Nat) : (complList ops d).length = d := by
  simp [complList]

omit [StarRing α] in
theorem complList_shaped (ops : List (Mat α)) (d : Nat) : Shaped (complList ops d) ops.length d := by
  intro m hm
  obtain ⟨row, _, rfl⟩ := List.mem_map.mp hm
  exact ⟨rfl, rfl⟩

omit [StarRing α] in
theorem fam_complList (ops : List (Mat α)) (d row i c : Nat) (h : row < d) :
    fam (complList ops d) row i c = fam ops i row c := by
  unfold fam complList
  rw [List.getD_eq_getElem?_getD, List.getElem?_map, List.getElem?_range h]
  rfl

/-- the guard of `complementary_channel` accepts exactly complete families of square operators and
    returns the row-stacked list -/
theorem complementary_ok [DecidableEq α] (ops : List (Mat α)) (d : Nat) (scale2 : α)
    (hs : Shaped ops d d) (hne : ops ≠ [])
    (hcomplete : ∀ i j, i < d → j < d → (sumKdK ops d).e i j = if i = j then scale2 else 0) :
    complementary ops scale2 = .ok (complList ops d) := by
  cases ops with
  | nil => exact absurd rfl hne
  | cons k0 t =>
    have h0 := hs k0 (by simp)
    have hsq : (k0 :: t).any (fun k => k.r != k.c) = false := by
      rw [List.any_eq_false]; intro k hk
      have := hs k hk
      simp [this.1, this.2]
    have heq : (k0 :: t).any (fun k => k.r != k0.r) = false := by
      rw [List.any_eq_false]; intro k hk
      have := hs k hk
      simp [this.1, h0.1]
    have hc : allBelow k0.r (fun i => allBelow k0.r (fun j =>
        decide ((sumKdK (k0 :: t) k0.r).e i j = if i = j then scale2 else 0))) = true := by
      rw [h0.1, allBelow_iff]; intro i hi
      rw [allBelow_iff]; intro j hj
      simp [hcomplete i j hi hj]
    rw [h0.1] at heq hc
    simp only [complementary, h0.1, hsq, heq, hc]
    rfl

/-- **entries of the complementary map**: `(Φᶜ ρ)_{ij} = tr(K_i ρ K_jᴴ)` -/
theorem compl_entry_lists (rho : Mat α) (ops : List (Mat α)) (d : Nat) (hr : rho.r = d) (hc : rho.c = d) (i j : Nat) :
    (applyKrausLists rho (complList ops d) (complList ops d)).e i j
      = tr d (applySpec 1 (fun _ => fam ops i) (fun _ => fam ops j) d d rho.e) := by
  have hsh := complList_shaped ops d
  rw [applyKrausLists_e rho _ _ ops.length ops.length (by rw [hr]; exact hsh) (by rw [hc]; exact hsh) rfl]
  unfold applySpec tr
  rw [complList_length, hr, hc]
  apply sumN_congr; intro row hrow
  simp only [sumN, zero_add]
  apply sumN_congr; intro a _
  apply sumN_congr; intro b _
  rw [fam_complList ops d row i a hrow, fam_complList ops d row j b hrow]

end compl
end Toq.ChannelOps

namespace Toq.ChannelOps
open Mat
section compl2
variable {α : Type} [CommSemiring α] [StarRing α]

/-- `Σ_k K_kᴴ K_k` as computed by the guard -/
theorem sumKdK_e (ops : List (Mat α)) (d : Nat) (hs : Shaped ops d d) (a b : Nat) :
    (sumKdK ops d).e a b
      = sumN ops.length (fun k => sumN d (fun row => HasConj.conj (fam ops k row a) * fam ops k row b)) := by
  simp only [sumKdK]
  rw [foldl_add_eq_sumN, zero_add]
  apply sumN_congr; intro k hk
  obtain ⟨hr, _⟩ := getD_shape ops d d k hs hk
  simp only [Mat.mul, Mat.ct, Mat.T, Mat.conj, hr, fam]

/-- **the complementary map preserves the trace** when `Σ_k K_kᴴ K_k = 1` -/
theorem compl_tp_lists (rho : Mat α) (ops : List (Mat α)) (d : Nat) (hr : rho.r = d) (hc : rho.c = d)
    (hs : Shaped ops d d)
    (hcomplete : ∀ a b, a < d → b < d → (sumKdK ops d).e a b = if a = b then 1 else 0) :
    tr ops.length (applyKrausLists rho (complList ops d) (complList ops d)).e = tr d rho.e := by
  have e : ∀ i, (applyKrausLists rho (complList ops d) (complList ops d)).e i i
      = Matrix.trace (toM d d (fam ops i) * toM d d rho.e * (toM d d (fam ops i)).conjTranspose) := by
    intro i
    rw [compl_entry_lists rho ops d hr hc i i, tr_eq_trace, toM_applySpec]
    simp
  have hK : ∑ k : Fin ops.length, (toM d d (fam ops k)).conjTranspose * toM d d (fam ops k) = 1 := by
    ext a b
    have := hcomplete a b a.2 b.2
    rw [sumKdK_e ops d hs] at this
    simp only [Matrix.sum_apply, Matrix.mul_apply, Matrix.conjTranspose_apply, toM, Matrix.one_apply]
    simp only [sumN_eq_sum_fin, conj_eq_star] at this
    rw [this]
    by_cases h : a = b
    · subst h; simp
    · have : (a : Nat) ≠ b := fun e => h (Fin.ext e)
      simp [h, this]
  unfold tr
  rw [sumN_eq_sum_fin]
  simp only [e]
  rw [compl_tp_matrix (fun k : Fin ops.length => toM d d (fam ops k)) hK, ← tr_eq_trace]
  rfl

end compl2

section specmodel
variable {α : Type} [CommRing α] [StarRing α]

/-- the model outputs on a pure input, in Mathlib's vocabulary -/
theorem compl_pure_toM (ops : List (Mat α)) (d : Nat) (hs : Shaped ops d d) (psi : Nat → α) (rho : Mat α)
    (hr : rho.r = d) (hc : rho.c = d) (hrho : ∀ a b, rho.e a b = psi a * star (psi b)) :
    toM d d (applyKrausLists rho ops ops).e
        = ∑ i : Fin ops.length, toM d d (fam ops i) * Matrix.vecMulVec (fun a : Fin d => psi a) (star fun a : Fin d => psi a)
            * (toM d d (fam ops i)).conjTranspose ∧
    toM ops.length ops.length (applyKrausLists rho (complList ops d) (complList ops d)).e
        = Matrix.of fun i j : Fin ops.length => Matrix.trace (toM d d (fam ops i)
            * Matrix.vecMulVec (fun a : Fin d => psi a) (star fun a : Fin d => psi a) * (toM d d (fam ops j)).conjTranspose) := by
  obtain ⟨r0, c0, e0⟩ := rho
  simp only at hr hc hrho
  subst hr; subst hc
  have hv : toM c0 c0 e0 = Matrix.vecMulVec (fun a : Fin c0 => psi a) (star fun a : Fin c0 => psi a) := by
    ext a b; simp [toM, hrho, Matrix.vecMulVec_apply]
  constructor
  · have := toM_applyKrausLists ⟨c0, c0, e0⟩ ops ops c0 c0 hs hs rfl
    rw [this, hv]
  · ext i j
    simp only [toM, Matrix.of_apply]
    rw [compl_entry_lists ⟨c0, c0, e0⟩ ops c0 rfl rfl i j, tr_eq_trace, toM_applySpec, hv]
    simp

/-- **same non-zero spectrum on pure inputs, for the model outputs** -/
theorem compl_spectrum_model (ops : List (Mat α)) (d : Nat) (hs : Shaped ops d d) (psi : Nat → α) (rho : Mat α)
    (hr : rho.r = d) (hc : rho.c = d) (hrho : ∀ a b, rho.e a b = psi a * star (psi b)) :
    Polynomial.X ^ ops.length * (toM d d (applyKrausLists rho ops ops).e).charpoly
      = Polynomial.X ^ d *
        (toM ops.length ops.length (applyKrausLists rho (complList ops d) (complList ops d)).e).charpoly := by
  obtain ⟨h1, h2⟩ := compl_pure_toM ops d hs psi rho hr hc hrho
  rw [h1, h2]
  have := compl_spectrum_matrix (fun i : Fin ops.length => toM d d (fam ops i)) (fun a : Fin d => psi a)
  simpa using this

end specmodel

section gi
/-! ## the driver's scalars: Gaussian integers form a commutative star-ring whose operations are
literally the core-class instances of `Toq/Core/Scalar.lean` -/

theorem GI.ext' {a b : GI} (h1 : a.re = b.re) (h2 : a.im = b.im) : a = b := by
  cases a; cases b; simp_all

@[simp] theorem GI.add_re (a b : GI) : (a + b).re = a.re + b.re := rfl
@[simp] theorem GI.add_im (a b : GI) : (a + b).im = a.im + b.im := rfl
@[simp] theorem GI.mul_re (a b : GI) : (a * b).re = a.re * b.re - a.im * b.im := rfl
@[simp] theorem GI.mul_im (a b : GI) : (a * b).im = a.re * b.im + a.im * b.re := rfl
@[simp] theorem GI.zero_re : (0 : GI).re = 0 := rfl
@[simp] theorem GI.zero_im : (0 : GI).im = 0 := rfl
@[simp] theorem GI.one_re : (1 : GI).re = 1 := rfl
@[simp] theorem GI.one_im : (1 : GI).im = 0 := rfl
@[simp] theorem GI.neg_re (a : GI) : (-a).re = -a.re := rfl
@[simp] theorem GI.neg_im (a : GI) : (-a).im = -a.im := rfl
@[simp] theorem GI.sub_re (a b : GI) : (a - b).re = a.re - b.re := rfl
@[simp] theorem GI.sub_im (a b : GI) : (a - b).im = a.im - b.im := rfl
@[simp] theorem GI.conj_re (a : GI) : a.conj.re = a.re := rfl
@[simp] theorem GI.conj_im (a : GI) : a.conj.im = -a.im := rfl

scoped instance giNatCast : NatCast GI := ⟨fun n => ⟨n, 0⟩⟩
scoped instance giIntCast : IntCast GI := ⟨fun n => ⟨n, 0⟩⟩
@[simp] theorem GI.natCast_re (n : Nat) : ((n : GI)).re = n := rfl
@[simp] theorem GI.natCast_im (n : Nat) : ((n : GI)).im = 0 := rfl
@[simp] theorem GI.intCast_re (n : Int) : ((n : GI)).re = n := rfl
@[simp] theorem GI.intCast_im (n : Int) : ((n : GI)).im = 0 := rfl

scoped instance giCommRing : CommRing GI where
  add := (· + ·)
  mul := (· * ·)
  zero := 0
  one := 1
  neg := Neg.neg
  sub := Sub.sub
  nsmul := nsmulRec
  zsmul := zsmulRec
  npow := npowRec
  add_assoc := by intros; apply GI.ext' <;> simp <;> ring
  zero_add := by intros; apply GI.ext' <;> simp
  add_zero := by intros; apply GI.ext' <;> simp
  add_comm := by intros; apply GI.ext' <;> simp <;> ring
  left_distrib := by intros; apply GI.ext' <;> simp <;> ring
  right_distrib := by intros; apply GI.ext' <;> simp <;> ring
  zero_mul := by intros; apply GI.ext' <;> simp
  mul_zero := by intros; apply GI.ext' <;> simp
  mul_assoc := by intros; apply GI.ext' <;> simp <;> ring
  one_mul := by intros; apply GI.ext' <;> simp
  mul_one := by intros; apply GI.ext' <;> simp
  neg_add_cancel := by intros; apply GI.ext' <;> simp
  mul_comm := by intros; apply GI.ext' <;> simp <;> ring
  sub_eq_add_neg := by intros; apply GI.ext' <;> simp <;> ring
  natCast_zero := by apply GI.ext' <;> simp
  natCast_succ := by intro n; apply GI.ext' <;> simp
  intCast_ofNat := by intro n; apply GI.ext' <;> simp
  intCast_negSucc := by intro n; apply GI.ext' <;> simp [Int.negSucc_eq]

scoped instance giStarRing : StarRing GI where
  star := GI.conj
  star_involutive := by intro a; apply GI.ext' <;> simp
  star_mul := by intro a b; apply GI.ext' <;> simp <;> ring
  star_add := by intro a b; apply GI.ext' <;> simp; ring

/-- the instances the compiled driver uses on `GI` are the ones the theorems are about -/
theorem gi_instances_agree :
    (inferInstanceAs (Add GI)) = giCommRing.toAdd ∧ (inferInstanceAs (Mul GI)) = giCommRing.toMul ∧
    (inferInstanceAs (Zero GI)) = giCommRing.toZero ∧ (inferInstanceAs (One GI)) = giCommRing.toOne ∧
    (instHasConjGI : HasConj GI) = starHasConj :=
  ⟨rfl, rfl, rfl, rfl, rfl⟩

end gi

end Toq.ChannelOps
